CONFIG = {
    "level": "proof",
    "passes": [
        {"name": "index", "pkg": "c06", "bin": "c06", "driver": "drv_c06", "reset_prefix": "idx", "timeout": 2400},
    ],
    "trusted_base": [
        "os.File Seek/Read, encoding/binary and the 128-byte FileHeaderRaw layout: the model reads entry i of a list; agreement is checked on real .DIR files on every run",
        "strconv.Atoi / fmt %d / the article-id codec: modelled in Model/C13.lean (property C13), compared on every cursor of every walk",
        "everything of ptt.NewPost besides the new index record and the cached total (permission, article file, stamp, money, log-board copies): run for real (user SYSOP), not modelled; the name it chooses (clock + random suffix) is passed to the model in the op line, so the op stream of posting histories is not byte-identical between runs",
        "permission check, user/board lookup and shared-memory attachment in front of ptt.LoadGeneralArticles / FindArticleStartIdx: exercised (user SYSOP, fixture board 10_WhoAmI), not modelled",
    ],
    "modelled": ["cmsys.FindRecordStartIdx", "cmsys.findValidRecordIdxInStore", "cmsys.findRecordStartIdxBinSearch",
                 "cmsys.findRecordStartIdxBinSearchValidIdxInStore", "cmsys.findRecordStartIdxPostSearchDesc/Asc (+LinearSearch)",
                 "cmsys.GetRecord", "cmsys.GetRecords", "ptt.LoadGeneralArticles", "ptt.FindArticleStartIdx",
                 "cache.GetBTotalWithRetry/SetBTotal (count only)", "bbs.LoadGeneralArticles", "bbs.SerializeArticleIdxStr",
                 "bbs.DeserializeArticleIdxStr", "bbs.NewArticleSummaryFromRaw (Idx field)",
                 "ptt.DoPostArticle/NewPost (effect on .DIR and on the cached total: AppendRecord + cache.SetBTotal)",
                 "cmsys.AppendRecord (a record added without the cache being told)",
                 "ptt.doCrosspost / crossPostWriteFile (log-board copy: record count and cached total of ALLPOST only)",
                 "cache.ReloadBCache (totals zeroed)"],
    "assumptions": [
        "the parsable entries of the index are in non-decreasing creation-time order and no two of them share (time, name[2:]) (SortedValid, UniqueKeys)",
        "the cached article count is at most the number of records in the file (find_stale_total); a larger count is modelled and compared but outside the property",
        "posting path (post_*): the new name has a parsable time and the file with the new record is SortedValid/UniqueKeys (a stamp ahead of the clock after a name collision can break the order: outside the property)",
        "page walk: no look-ahead element is unparsable (LookaheadOKAsc/Desc; known finding walk:unparsable-lookahead shows the walk stops otherwise); the cached total equals the record count",
        "bbs level (pagewalk_bbs, cursor_roundtrip_*): every name is unparsable or in the article-id domain of C13 (M./G./.d + 10-digit time below 2^31 + .A. + 3 upper-case hex digits) (NamesOK)",
        "GetRecord: an entry carrying the looked-up name key carries the looked-up time (hkt; true of real names, whose key contains the time digits)",
    ],
}
