CONFIG = {
    "level": "proof",
    "passes": [
        {"name": "default", "pkg": "c01", "bin": "c01", "driver": "drv_c01"},
        {"name": "docker", "pkg": "c01", "bin": "c01_docker", "driver": "drv_c01", "tags": "docker"},
        # race detector over the histories and the concurrent .fav saves (a reported race is a P-hat failure)
        {"name": "race", "pkg": "c01", "bin": "c01_race", "driver": "drv_c01", "build_flags": ["-race"],
         "thorough_only": True, "args": ["-only", "conc"],
         "wrap": ["env", "GORACE=exitcode=0 log_path=/tmp/verif-c01-race"]},
    ],
    "trusted_base": [
        "frozen pttbbs layouts lean/PttVerif/Spec/C01Frozen.lean + go/cmd/c01/frozen.go: hand transcription of pttstruct.h / fav.h / c-pttbbs/shm_offset.c (the pttbbs submodule is empty in this checkout); anchored on the documented sizes 512/256/128/128/100/12/3484/100 (theorems Frozen.anchor_*)",
        "go/types gc/amd64 Sizes (second opinion on the alignment rule; theorems aligned_eq_compiler_*), validated against the compiled code by the harness (reflect offsets, unsafe.Sizeof via the *_SZ constants, binary.Size)",
        "encoding/binary writes the fields of a struct back to back, little endian (modelled as the packed layout; the harness compares binary.Size walks and whole images with it on every run)",
        "lseek/write/read on regular files: modelled by writeAt/readAt (holes read as zeros)",
        "a failing write(2) (/dev/full, read-only descriptor, RLIMIT_FSIZE) writes nothing; the Go scheduler/kernel produce only interleavings of the encode and write steps of concurrent BinWrite calls (the stress explores some of them, the theorem covers all); the Go race detector in the thorough-only pass",
    ],
    "modelled": ["cmbbs.PasswdQuery", "cmbbs.PasswdQueryPasswd", "cmbbs.PasswdQueryUserLevel", "cmbbs.PasswdUpdatePasswd",
                 "cmbbs.PasswdUpdateEmail", "cache.passwdUpdateMoney (through cache.SetUMoney)", "cmbbs.PasswdGetUserLevel2",
                 "cmbbs.PasswdUpdateUserLevel2 + passwdCheckPasswd2", "types.BinaryRead/BinaryWrite/BinWrite on the record types",
                 "ptttype.UID.IsValid/ToUIDInStore",
                 "histories: failing record/field writes (ENOSPC, EFBIG, EBADF, encoder error) followed by field updates, whole-record writes and cmsys.AppendRecord(.post)",
                 "ptt.NewBoard -> addBoardRecord on .BRD (vacated slot: SubstituteRecord at bid-1; none: AppendRecord)",
                 "fav.FavRaw.Save/WriteFavrec board entries (types.BinWrite), sequentially and by several users at the same time (interleaving semantics of encode/write steps)"],
    "assumptions": [
        "two build configurations exist (default tags, -tags docker); a further configuration file would need a third Gen/Layout*.lean",
        "field-level statements are about the top-level fields of each record type; nested record types (MsgQueueRaw, UserInfoRaw, BoardHeaderRaw, shmGV2 inside SHMRaw/UserInfoRaw) are covered by their own theorems and the array stride is the element's in-memory size",
        "the concurrency theorem is about the step semantics (each call encodes into storage of its own, then writes); that the code has this shape is checked by the stress + race pass, not proved",
        "the time stamp PasswdUpdateUserLevel2 writes is an observation fed back into the op line (wall clock is not modelled)",
    ],
}
