CONFIG = {
    "level": "proof",
    "passes": [
        {"name": "default", "pkg": "c01", "bin": "c01", "driver": "drv_c01"},
        {"name": "docker", "pkg": "c01", "bin": "c01_docker", "driver": "drv_c01", "tags": "docker"},
    ],
    "trusted_base": [
        "frozen pttbbs layouts lean/PttVerif/Spec/C01Frozen.lean + go/cmd/c01/frozen.go: hand transcription of pttstruct.h / fav.h / c-pttbbs/shm_offset.c (the pttbbs submodule is empty in this checkout); anchored on the documented sizes 512/256/128/128/100/12/3484/100 (theorems Frozen.anchor_*)",
        "go/types gc/amd64 Sizes (second opinion on the alignment rule; theorems aligned_eq_compiler_*), validated against the compiled code by the harness (reflect offsets, unsafe.Sizeof via the *_SZ constants, binary.Size)",
        "encoding/binary writes the fields of a struct back to back, little endian (modelled as the packed layout; the harness compares binary.Size walks and whole images with it on every run)",
        "lseek/write/read on regular files: modelled by writeAt/readAt (holes read as zeros)",
    ],
    "modelled": ["cmbbs.PasswdQuery", "cmbbs.PasswdQueryPasswd", "cmbbs.PasswdQueryUserLevel", "cmbbs.PasswdUpdatePasswd",
                 "cmbbs.PasswdUpdateEmail", "cache.passwdUpdateMoney (through cache.SetUMoney)", "cmbbs.PasswdGetUserLevel2",
                 "cmbbs.PasswdUpdateUserLevel2 + passwdCheckPasswd2", "types.BinaryRead/BinaryWrite/BinWrite on the record types",
                 "ptttype.UID.IsValid/ToUIDInStore"],
    "assumptions": [
        "two build configurations exist (default tags, -tags docker); a further configuration file would need a third Gen/Layout*.lean",
        "field-level statements are about the top-level fields of each record type; nested record types (MsgQueueRaw, UserInfoRaw, BoardHeaderRaw, shmGV2 inside SHMRaw/UserInfoRaw) are covered by their own theorems and the array stride is the element's in-memory size",
        "the time stamp PasswdUpdateUserLevel2 writes is an observation fed back into the op line (wall clock is not modelled)",
    ],
}
