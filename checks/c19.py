CONFIG = {
    "level": "proof",
    "passes": [
        {"name": "fav", "pkg": "c19", "bin": "c19", "driver": "drv_c19", "timeout": 2400},
    ],
    "trusted_base": [
        "encoding/binary (fixed-width little-endian fields), os.File read/write/seek, os.Rename: modelled as byte lists and as create/write/rename steps over a name->content map; agreement on the bytes and on the system-call shape is checked by the correspondence on every run",
        "strace fault injection (SIGKILL delivered at syscall entry, the call is not executed) as the means of killing the saving child at a chosen system call",
        "process death only: the page cache survives, no fsync ordering is claimed (power loss is out of scope)",
    ],
    "modelled": ["fav.FavRaw.AddBoard/AddLine/AddFolder (MAX_FAV on the root total; MAX_LINE / MAX_FOLDER on the receiving folder at any depth)", "fav.FavRaw.cleanup/isNeedRebuildFav/rebuildFav/increase",
                 "fav.FavRaw.WriteFavrec", "fav.ReadFavrec", "fav.Load (regular .fav file)", "fav.FavRaw.Save/checkIsToSave",
                 "types.BinRead/BinWrite (padding to the C struct size; the reader seeks over the pad)",
                 "ptt.WriteFavorites (temp file + rename)",
                 "write-error path of Save / WriteFavorites: the first failing write ends the save with an error return before the rename (types.BinaryWrite returning binary.Write's error is regenerated from the source)",
                 "ptt.GetFavorites (absent file, not-modified answer, io.ReadAll with the read limit regenerated from the source)",
                 "overlapping savers: open(O_CREAT|O_TRUNC)/write/rename on names, inodes and descriptors, any interleaving"],
    "assumptions": [
        "trees are grown from NewFavRaw(nil) (LineID/FolderID equal NLines/NFolders; Root.FavNum is the number of adds); entry types other than board/line/folder and nil Favh entries are not representable",
        "legacy .fav4 migration: board/line levels are judged; images holding a folder entry (the real code cannot read them) and negative-count / unknown-type images are mirrored and recorded, not judged; Load on a non-regular file is out of scope",
        "a crash is the death of the process; the kernel and the file system keep running",
        "write errors are produced with RLIMIT_FSIZE (EFBIG at a byte offset, SIGXFSZ ignored) in a child process; ENOSPC / EDQUOT / EIO take the same error-return path in the code and are not produced separately",
        "GetFavorites: mtimes and retrieveTS are positive Time4 values; the .fav4 fallback of getFavoritesGetMTime is out of scope (no .fav4 present); contents longer than the largest legal file (57350 bytes) are recorded, not judged",
        "temporary names of overlapping savers are distinct because each contains types.GetRandom() (a random UUID): pinned from the source by tmp_names_random; a collision of two random 128-bit suffixes is not considered; .fav and the temporary names are not hard links of one another",
        "ReadFavrec recurses once per nesting level with no depth limit (FAV_MAXDEPTH is unused): the model has no stack bound; a 168 MB file nested 3,000,000 deep was loaded by the real code without exhausting the goroutine stack (measured once by hand), deeper files were not examined",
    ],
}
