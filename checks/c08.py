CONFIG = {
    "gens": ["WriteGuards"],
    "level": "proof",
    "passes": [
        {"name": "decision-table", "pkg": "c08", "bin": "c08", "driver": "drv_c08", "reset_prefix": "reset", "timeout": 2400},
    ],
    "trusted_base": [
        "the translator gen_writeguards.go: reads the bodies of ptt.DoPostArticle/Recommend/EditPost/CrossPost as ordered refusals and "
        "side-effecting calls (its list of side-effecting callee names and its condition grammar are hand-written; an unknown condition "
        "becomes an opaque atom that never refuses in the model, so a new kind of guard shows up as a correspondence mismatch)",
        "fixture materialisation of the harness: board headers, moderator list, friend list and cool-down word are written straight into "
        "cache.Shm; the user record through cmbbs.PasswdUpdate; ban files and board directories as files",
        "wall-clock: the op lines carry offsets (ban expiry now±3600 s, cool-down now+600 s); the model runs on a constant clock",
        "C05's frame lemmas (step_frame / history_frame): the persistent effects are the only writers of .DIR",
    ],
    "modelled": ["ptt.boardPermStat/boardPermStatNormally/IsBMCache (own copy of the read decision)", "ptt.postpermMsg/bannedMsg/hasPostPerm",
                 "ptt.isBannedBy / bakumanGetInfo (ban record = absent | unreadable | expiry; what the check leaves of it; clean-up condition regenerated)", "ptt.getRestrictionReason/getBoardRestrictionReason/CheckPostRestriction",
                 "ptt.checkCooldown, cache.CooldownTimeOf/PosttimesOf/AddCooldownTime/AddPosttimes", "ptt.isFileOwner, Filename_t.CreateTime",
                 "ptt.isReadonlyBoard, types.Cstrcmp/Cstrcasecmp (as equality of C strings / of their ASCII-lower-cased forms)",
                 "cache.HbflReload / IsHiddenBoardFriend over the shared-memory friend-list row (the list file is the uid each line resolves to; "
                 "whether the reload replaces the whole row is regenerated from the source)",
                 "the trace an accepted comment / edit leaves in the index entry (Modified := file time), as far as later decisions see it",
                 "cache.ParseBMList (tokens of the BM field -> moderator cache) and bbs.BBoardID.ToRaw (name of the request id = name of the bid's board): "
                 "in the driver only, tied by correspondence, no theorem",
                 "bodies of DoPostArticle/Recommend/EditPost/CrossPost: regenerated event lists, interpreted"],
    "assumptions": [
        "valid uid and bid, consistent (bid, board name) pairs (C07's domain); I/O calls of the write path succeed; EditPost is given the "
        "correct length/hash of the old content (its temp file is created before the hash check: not a permission refusal)",
        "types.NowTS() is non-negative (until 2038) and does not cross a ban expiry / cool-down boundary during one call",
        "default build configuration: USE_NEW_BAN_SYSTEM, REJECT_FLOOD_POST, USE_COOLDOWN, SAFE_ARTICLE_DELETE, USE_SYSOP_EDIT (checked "
        "against the source by theorem source_wrappers and inside the regenerated guards)",
        "cool-down histories (posting floods) are tied by correspondence only; friend-list histories have theorems (friend_after_reload, "
        "removed_friend_refused) and correspondence",
        "friend-list file lines resolve to accounts through cache.SearchUserRaw (C04's domain); lists without an empty line in the middle",
    ],
}
