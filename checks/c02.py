CONFIG = {
    "level": "proof",
    "passes": [
        {"name": "crypt", "pkg": "c02", "bin": "c02", "driver": "drv_c02"},
        {"name": "login", "pkg": "c02", "bin": "c02", "driver": "drv_c02", "args": ["-mode", "login"], "reset_prefix": "reset"},
    ],
    "trusted_base": [
        "pass `login`: the harness's own bookkeeping of which plaintext the stored hash was made from (tags accept/reject by effective DES key) and libc crypt(3) on the hash read back with PasswdQueryPasswd at the moment of each login - both independent of the model",
        "libc crypt(3) (libxcrypt, DES) through cgo: used only as the oracle P-hat for clause (a) and for CheckPasswd on well-formed hashes, never as proof",
        "hand-written textbook DES-crypt specification PttVerif/Model/C02Spec.lean (FIPS 46 IP, FP, E, P, PC-1, PC-2, S1-S8, shift schedule; crypt(3) salt perturbation, 25 iterations, base-64 packing): a wrong entry fails fcrypt_eq_crypt3 / a table theorem on the unchanged tree and disagrees with libc in the `spec` ops",
        "translator gen_loginsave.go (go/ast + go/types): classifies the second argument of every pwcuEnd call in package ptt as reread / caller / unknown and lists the calls of ptt.Login; recognised shapes: `X, err = pwcuStart(...)`, `X, err := pwcuStart(...)`, a parameter, `X := param` / `var X = param`; anything else comes out as unknown:<why> and fails loginSave_rereads (the weaker alarm)",
        "math/rand: rand.Seed(k) makes the global source reproduce rand.New(rand.NewSource(k)) (checked at harness start); the model takes the drawn number as a parameter",
    ],
    "modelled": ["crypt.Fcrypt/cFcrypt", "crypt.desSetKey", "crypt.body/dEncrypt", "crypt.PermOp/HPermOp/c2l/l2c",
                 "cmbbs.GenPasswd", "cmbbs.CheckPasswd",
                 "bbs.Login / bbs.CheckPasswd / bbs.ChangePasswd (as: hand the password bytes on unchanged)", "ptt.Login as LoginQuery … userLogin/pwcuLoginSave/pwcuEnd (which record is written back: regenerated, Gen/LoginSave.lean; schedule point login.afterQuery)", "ptt.LoginQuery / ptt.Login (password decision only) / ptt.CheckPasswd / ptt.ChangePasswd, cmbbs.PasswdUpdatePasswd / PasswdQueryPasswd (as: the store user -> hash, Model/C02Login.lean)"],
    "assumptions": [
        "stored hashes in the login histories are arbitrary 14-byte values; where the stored hash has a byte >= 0x80 in a salt position Fcrypt panics (C02 fcrypt_panics_iff): the panic is recorded and compared with the model, counts as a refusal, and only an acceptance is judged (login:unverifiable-hash-accepted); bbs.Register is not driven by C02 (property C03 does)",
        "login histories: the users driven exist, have valid ids, pairwise distinct ignoring case, and are not 'guest' (whose login skips the password); session bookkeeping of ptt.Login is not modelled (property C03) - only a handful of full logins per run because the session table holds 31; one process, one caller at a time",
        "clause (a) is proved in full against the hand-written textbook Spec.crypt3 (fcrypt_eq_crypt3); that Spec.crypt3 is what libc crypt(3) computes is not a theorem: it is checked on every run by evaluating Spec.crypt3 (driver op `spec`), the implementation and libc on every generated alphabet-salt pair",
        "clause (d) 'rejected for any other effective key' is not a theorem (DES-crypt collisions exist in principle); it is sampled by P-hat (all 56 single-bit key flips of sampled keys) and never presented as proof",
    ],
}
