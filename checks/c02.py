CONFIG = {
    "level": "proof",
    "passes": [
        {"name": "crypt", "pkg": "c02", "bin": "c02", "driver": "drv_c02"},
    ],
    "trusted_base": [
        "libc crypt(3) (libxcrypt, DES) through cgo: used only as the oracle P-hat for clause (a) and for CheckPasswd on well-formed hashes, never as proof",
        "hand-written FIPS 46 tables (S1-S8, P, PC-2) and the salt-character formula in PttVerif/Model/C02Spec.lean: a wrong entry fails a kernel-checked table theorem on the unchanged tree",
        "math/rand: rand.Seed(k) makes the global source reproduce rand.New(rand.NewSource(k)) (checked at harness start); the model takes the drawn number as a parameter",
    ],
    "modelled": ["crypt.Fcrypt/cFcrypt", "crypt.desSetKey", "crypt.body/dEncrypt", "crypt.PermOp/HPermOp/c2l/l2c",
                 "cmbbs.GenPasswd", "cmbbs.CheckPasswd"],
    "assumptions": [
        "clause (a) 'equals crypt(3)' is proved as table exactness (every SPtrans/skb/con_salt/cov_2char/shifts2 entry equals its FIPS-46 / crypt(3) definition) plus output format; full functional equality with a textbook DES-crypt is judged by P-hat against libc on every generated pair, not proved",
        "clause (d) 'rejected for any other effective key' is not a theorem (DES-crypt collisions exist in principle); it is sampled by P-hat (all 56 single-bit key flips of sampled keys) and never presented as proof",
    ],
}
