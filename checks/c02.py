CONFIG = {
    "level": "proof",
    "passes": [
        {"name": "crypt", "pkg": "c02", "bin": "c02", "driver": "drv_c02"},
    ],
    "trusted_base": [
        "libc crypt(3) (libxcrypt, DES) through cgo: used only as the oracle P-hat for clause (a) and for CheckPasswd on well-formed hashes, never as proof",
        "hand-written FIPS 46 tables (S1-S8, P, PC-2) and the salt-character formula in PttVerif/Model/C02Spec.lean: a wrong entry fails a kernel-checked table theorem on the unchanged tree",
        "math/rand: rand.Seed(k) makes the global source reproduce rand.New(rand.NewSource(k)) (checked at harness start); the model takes the drawn number as a parameter",
    ],
    "modelled": ["crypt.Fcrypt/cFcrypt", "crypt.desSetKey", "crypt.body/dEncrypt", "crypt.PermOp/HPermOp/c2l/l2c",
                 "cmbbs.GenPasswd", "cmbbs.CheckPasswd"],
    "assumptions": [
        "clause (a) 'equals crypt(3)' is PARTIAL: proved are table exactness (every SPtrans/skb/con_salt/cov_2char/shifts2 entry equals its FIPS-46 / crypt(3) definition), the output format, and of the functional equality with the textbook Spec.crypt3 the whole key schedule for every password, the delivery of key and E(R) blocks to the S-boxes, FP and IP.FP=id (reflective GF(2)-linear circuit checker, Proofs/C02Lin.lean); not proved: the salt perturbation of E, the recombination of the eight S-box outputs, the induction over 25x16 rounds and the output packing - those are judged on every run by P-hat against libc and by running Spec.crypt3 next to the implementation",
        "clause (d) 'rejected for any other effective key' is not a theorem (DES-crypt collisions exist in principle); it is sampled by P-hat (all 56 single-bit key flips of sampled keys) and never presented as proof",
    ],
}
