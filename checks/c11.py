CONFIG = {
    "level": "proof",
    "gens": [],
    "passes": [
        {"name": "boards", "pkg": "c11", "bin": "c11", "driver": "drv_c11", "reset_prefix": "reset", "timeout": 2400},
    ],
    "trusted_base": [
        "sort.Sort (+ the two Less functions of cache/shm_board_by.go): the model takes the REAL BSorted arrays as input; that each is a sorted permutation of the slots is checked by the property oracle after every reload (keys sorted:byname, sorted:byclass) and is the hypothesis SortedBy of the theorems",
        "os.ReadFile of .BRD, encoding/binary and the 256-byte BoardHeaderRaw layout (property C01): the harness writes real .BRD files and reads the loaded table back from shared memory",
        "permission check (caller SYSOP sees every board: C07), user lookup, shared-memory attachment, base64/strings.Split of the by-class cursor, cache.GetBTotalWithRetry in front of / behind the listing loops: exercised, not modelled beyond the cursor round-trip",
        "types.Cstrcmp / Cstrcasecmp / CstrCaseHasPrefix: modelled and proved equal to strcmp/strcasecmp in property C18 (Model/C18.lean, Proofs/C18.lean), imported",
    ],
    "modelled": ["cache.ReloadBCache / reloadBCacheCore / SortBCache (busy-flag protocol of a single loader; clamp of an oversized .BRD to MAX_BOARD)", "cache.GetBid", "cache.getBidByNameCore", "cache.getBidByClassCore", "cache.FindBoardIdxByName", "cache.FindBoardIdxByClass",
                 "cache.cmpBoardByClass", "cache.FindBoardAutoCompleteStartIdx", "cache.findBoardClosetKeyword", "ptttype.BoardTitle_t.BoardClass",
                 "ptttype.Bid.IsValid", "ptt.LoadGeneralBoards", "ptt.LoadAutoCompleteBoards", "ptt.loadGeneralBoardStat / loadAutoCompleteBoardStat (vacated / group / prefix tests)",
                 "bbs.LoadGeneralBoards", "bbs.LoadAutoCompleteBoards", "ptt.LoadGeneralBoardDetails", "bbs.LoadGeneralBoardDetails", "ptt.LoadFullClassBoards", "bbs.LoadFullClassBoards (next_bid)",
                 "ptt.loadClassBoardStat (vacated / group test)", "ptt.LoadClassBoards + cache.ResolveBoardGroup (on fresh child links: the chain of non-vacated boards with Gid = class in sorted order, ChildCount+5 cap)", "bbs.LoadClassBoards",
                 "bbs.NewBoardSummaryFromRaw / NewBoardDetailFromRaw (IdxByName, IdxByClass: the class column as stored, blank padding included)", "bbs.loadGeneralBoardsToStartIdx", "bbs.loadAutoCompleteBoardsToStartIdx",
                 "bbs.Serialize/DeserializeBoardIdxByNameStr / ByClassStr (cursor round-trip, '@' refusal)"],
    "assumptions": [
        "the property's domain is the board tables the system can produce (C12): names of letters/digits/_-. pairwise distinct up to case (DistinctNames; vacated slots may repeat), title byte 4 a blank (ClassOK), no '@'/0xff in names (NoAtFF); tables outside it are generated, compared with the model and their deviations recorded as notes (dup-name page walks never end; a 5-byte class breaks the by-class search; names with '@' defeat the descending successor keyword)",
        "BSorted[byName]/[byClass] are sorted permutations of [0, BNumber) (checked on every reload; sort.Sort trusted)",
        "listings are driven as SYSOP with empty title/keyword filters and page sizes >= 1; page sizes <= 0 (makeslice / summaries[-1] panics, a walk that never advances) are compared with the model but not judged; the class listings are driven on freshly reloaded tables (child links zero); board creation itself (CreateBoard, which puts a new class into the last slot) is property C12 — the states it produces (a class in the last slot, in every slot) are enumerated directly; a board that is its own Gid is not judged",
        "keywords with NUL bytes have no defined answer: compared with the model only",
        "ReloadBCache is driven with a single process attached: a BBusyState found set can only be the leftover of a dead loader (two live loaders racing on the flag are outside this check)",
        "LoadClassBoards is judged on tables that do not change between requests (every sub-class, whatever ChildCount was stored, the same on every request: key list:children+cap); a cache write that neither re-sorts nor re-resolves (cache.ResetBoard without SortBCache) is outside the histories driven",
        "bbs.LoadGeneralBoardDetails (after fix 6f287ee) lists every non-vacated slot (no group/permission filter); its page walk is judged on all in-domain tables, vacated slots included (keys walk:details-name+vacated, walk:details-class+vacated)",
    ],
}
