CONFIG = {
    "level": "proof",
    "passes": [
        {"name": "uhash", "pkg": "c04", "bin": "c04", "driver": "drv_c04", "reset_prefix": "reset", "timeout": 2400},
    ],
    "trusted_base": [
        "SysV shmget/shmat and the pointer cast (*SHMRaw)(shmaddr): the three Go arrays are modelled as lists of the same lengths; agreement of every cell is checked after every operation of the correspondence",
        "os.Open / encoding/binary reading 512-byte records of .PASSWDS: modelled as the list of UserID fields plus a torn-tail flag",
        "the independent reference hash and comparison in the harness oracle (FNV-1a/32, pttbbs offset basis, ASCII toupper)",
    ],
    "modelled": ["cache.AddToUHash", "cache.RemoveFromUHash", "cache.SetUserID", "cache.SearchUserRaw", "cache.DoSearchUserRaw",
                 "cache.GetUserID", "cache.LoadUHash", "cache.fillUHash", "cache.InitFillUHash", "cache.userecRawAddToUHash",
                 "cache.checkHash", "cache.SHM.Reset", "lookup histories across two processes (op prefix peer)", "cache.NewSHM / shm.CreateShm / shm.OpenShm (isCreate, isNew, header initialisation, Version/Size handshake)", "ptt.SetupNewUser at the index level (checks, free-slot search, SetUserID, failing .PASSWDS write; op register)", "bbs.UUserID.ToRaw + bbs.CheckExistsUser (api-level lookup of an id of any length; op exists)", "ptt.tryCleanUser/killUser effect on .PASSWDS (sweepFile; ops expire, register … sweep)", "main_init start sequence of a second process (NewSHM + LoadUHash; op restart)",
                 "cmsys.StringHashWithHashBits/fnv1a32StrCase", "types.Cstrcmp", "types.Cstrcasecmp", "ptttype.UserID_t.IsValid"],
    "assumptions": [
        "histories inside the quantifier: SetUserID on any slot; RemoveFromUHash followed (before any reload) by AddToUHash/SetUserID of that slot; AddToUHash only on a slot that is on no chain; cold load from a zeroed segment with at most MAX_USERS records; on-the-fly reload (by the owner or by a freshly started creator/opener process) from a file whose ids equal the live ids as C strings, possibly shorter, torn or missing; detached slots covered by the file are linked again (PRE_ALLOCATED_USERS >= MAX_USERS: no record is skipped)",
        "ptt.tryCleanUser runs only in `register … sweep` ops (else a fresh .fresh keeps it off) and only with a complete .PASSWDS (it dereferences a record it could not read); its killUser side effects on home directories and friend lists, and SetUMoney, are outside this property", "explicit on-the-fly reloads from a .PASSWDS that disagrees with the live table (ids emptied or renamed on file) are recorded, not judged: the unchanged loader leaves such a slot on its old chain (Lean witnesses onfly_disagreeing_file_loses_slot, reload_after_sweep_loses_live_id); no production path performs such a reload", "one writer at a time (the Go code takes no lock around the index; concurrent writers are outside this property)",
        "the Version/Size handshake of a freshly attaching process is exercised in the thorough tier; a long-lived peer process on the same segment (lookups and changes, `peer <op>`) in both tiers; the model has one state: the segment",
        "a lookup depends on the segment only: the oracle never calls the functions under test outside recorded ops, and a slot detached by RemoveFromUHash counts as absent from the index although its bytes stay in Userid",
    ],
}
