CONFIG = {
    "level": "proof",
    "passes": [
        {"name": "convert", "pkg": "c17", "bin": "c17", "driver": "drv_c17"},
        {"name": "loader", "pkg": "c17", "bin": "c17", "driver": "drv_c17", "args": ["-pass", "loader"], "reset_prefix": "reset"},
    ],
    "trusted_base": [
        "strings.Split/TrimSpace, hex.Decode: modelled on bytes (TrimSpace for ASCII input only; the driver reports that both table files are pure ASCII); agreement checked by the exhaustive sweeps (they determine both internal maps) and by synthetic malformed table files through the real loader",
        "the two UAO table files are read at run time by the compiled Lean driver (too large for a kernel literal): WF of the real tables is an evaluation of the decidable predicate, not a kernel proof",
    ],
    "modelled_config": "types.config() as the regenerated list Gen.Big5.configReads + configutil.SetStringConfig (ini value of prefix.lower(KEY) if set, else the default expression); viper's ini parsing itself is exercised, not modelled (cfg ops run the real viper + types.InitConfig in a child process)",
    "modelled": ["types.config (table-path reads)", "types.Big5ToUtf8", "types.Utf8ToBig5", "types.initToBig5", "types.initToUtf8", "types.initB2U", "types.initU2B",
                 "types.initBig5 (both \"already loaded\" guards, error returns: state machine over the two maps)", "types.InitConfig/postConfig (order: config, time location, initBig5)",
                 "initgin.InitAllConfig (order of the packages' InitConfig calls, regenerated) with ptttype.setBBSName -> BBSNAME_BIG5",
                 "the loader's unconditional lines[1:] against the regenerated first line of each table file",
                 "the loader's accept rule (exactly two ' '-separated fields) against rows by content (first two hex fields, whatever follows): droppedRows, regenerated counts",
                 "the loaded Go map is last-wins: the table files must be functions of their key column (regenerated distinct-key counts, nodup theorem)"],
    "assumptions": ["start ops: the start-up program is compiled inside the repository's module with go build -overlay (needs the go toolchain and the repository's module cache at run time)",
                    "table files are pure ASCII (checked on every run: `wf` op)",
                    "file I/O is a function path -> content-or-error; rows inserted before a panic inside the row loop are not kept by the model (no generated history parses a panicking file)",
                    "loader histories are generated with at most one readable file per direction (the oracle's 'file it was loaded from' is then unambiguous)"],
}
