CONFIG = {
    "level": "proof",
    "passes": [
        {"name": "recfile", "pkg": "c05", "bin": "c05", "driver": "drv_c05", "reset_prefix": "reset"},
        # process death at syscall boundaries of one append (child under strace signal injection), then the ordinary op path
        {"name": "crash", "pkg": "c05", "bin": "c05", "driver": "drv_c05", "reset_prefix": "reset", "args": ["-mode", "crash"],
         "thorough_only": True, "replayable": False, "timeout": 900},
    ],
    "trusted_base": [
        "POSIX lseek/write on a regular file (write beyond EOF zero-fills the gap, a zero-byte write changes nothing): modelled by writeAt; agreement checked on real temp files on every run",
        "encoding/binary (fixed-size structs round-trip byte for byte): record images are opaque to the model; the struct layout is property C01",
        "flock/fcntl locks and the in-process lock table of cmsys/lock.go: sequential use only; concurrency is property C14/C15/C19",
        "SysV shared-memory board cache (cache.ReloadBCache, GetBid, ResetBoard, SortBCache): used as is by the callers layer; its search is property C11",
    ],
    "modelled": ["cmsys.GetNumRecords", "cmsys.GetRecords", "cmsys.AppendRecord", "cmsys.SubstituteRecord", "cmsys.DeleteRecord",
                 "ptt.ModifyDirLite", "types.Cstrcmp (== 0)",
                 "ptt.addBoardRecord (through ptt.NewBoard/mNewbrd; the only caller of SubstituteRecord; index expression regenerated)",
                 "request layer: cmsys.GetRecord (Eq confirmation; the search itself is C06's model, reused), ptt.Recommend from the lookup on (doAddRecommend -> ModifyDirLite), bbs.DeleteArticles (ToFilename, FindArticleStartIdx, one-record window, article-id confirmation, ptt.DeleteArticles -> DeleteRecord), ptt.EditPost / ptt.CrossPost lookup (hit/miss); confirmation guards regenerated",
                 "cmbbs.PasswdUpdate / PasswdUpdatePasswd / PasswdUpdateEmail / PasswdQuery / PasswdQueryPasswd / PasswdQueryUserLevel (uid guard and UID.IsValid bounds regenerated; field offsets from the type checker)",
                 "cache.SetUMoney / DeUMoney -> passwdUpdateMoney (the 4-byte Money field; batches in any order), ptt.pwcuStart … pwcuEnd (session read-modify-write of a user record through ptt.NewBoard -> groupOp -> pwcuBitEnableLevel; the user-id comparison regenerated)",
                 "history load (ptt.InitCurrentUserByUID) / in-place money modify (cache.SetUMoney) / whole-record store of the earlier copy (ptt.SetUserPerm -> passwdSyncUpdate -> cmbbs.PasswdUpdate); the funnel's Money re-sync regenerated",
                 "cache.reloadCacheLoadBottom / cache.SetBottomTotal (count guards regenerated) / cache.GetBTotalWithRetry cold path / ptt.LoadBottomArticles"],
    "assumptions": [
        "open/flock/fcntl/write do not fail for environmental reasons (disk full, permissions); only argument-provoked errors are modelled",
        "a crash cuts an append inside its single write(2) (the tail left behind is a prefix of the record image: pre-seeded torn tails of every length) or kills the process at a syscall boundary (thorough tier: strace signal injection); no reordering of the write against later writes (no power-loss model)",
        "GetRecords is driven with n <= 10^6 (it allocates capacity n up front)",
        "callers layer: the board cache agrees with .BRD (reloaded after every reset); at most one vacated .BRD slot at a time (with several, cache.GetBid(\"\") picks one by bisection: C11); the board record NewBoard builds is predicted by the harness for BMs=nil/attr=0/level=0 and carried in the op line (its content is C12); the board whose .DIR.bottom is read has a non-empty .DIR (so one read makes it warm)",
        "request layer: the cached article count agrees with .DIR (reload after every reset); the index is ascending by create-time (as the search assumes; the theorems do not need it); the permission checks of the callers pass (SYSOP-level user); the article file's mtime after the comment is an input (clock) carried in the op line; the article file of a delete-marked entry is not on disk under its marked name (a comment on it fails); EditPost/CrossPost are driven with absent names only (hit/miss)",
        "concurrent money updates: each single update (open, seek, write, close on its own descriptor) is atomic with respect to the others - an assumption about the code, checked by the stress batches (distinct uids per batch), not proved; the model is the sequential fold in any order",
        "session read-modify-write: driven through the one exported path (NewBoard with an invalid board name -> groupOp -> pwcuBitEnableLevel); pwcuBitEnableLevel does not change the level today (`_ = pwcuEnableBit(...)`), the write-back only syncs Money from the SHM cache, whose value is an input carried in the op line",
        ".PASSWDS accessors: record images are canonical encodings (bool fields 0/1); the accessors never look at the file length, so on a file shorter than MAX_USERS records a valid uid extends it (mirrored; the length clause is stated for a full file)",
        ".DIR.bottom with more than 5 records is outside the property: SetBottomTotal then unlinks the file by design (pttbbs sanity rule) - mirrored and compared, not judged",
    ],
}
