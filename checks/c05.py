CONFIG = {
    "level": "proof",
    "passes": [
        {"name": "recfile", "pkg": "c05", "bin": "c05", "driver": "drv_c05", "reset_prefix": "reset"},
        # process death at syscall boundaries of one append (child under strace signal injection), then the ordinary op path
        {"name": "crash", "pkg": "c05", "bin": "c05", "driver": "drv_c05", "reset_prefix": "reset", "args": ["-mode", "crash"],
         "thorough_only": True, "replayable": False, "timeout": 900},
    ],
    "trusted_base": [
        "POSIX lseek/write on a regular file (write beyond EOF zero-fills the gap, a zero-byte write changes nothing): modelled by writeAt; agreement checked on real temp files on every run",
        "encoding/binary (fixed-size structs round-trip byte for byte): record images are opaque to the model; the struct layout is property C01",
        "flock/fcntl locks and the in-process lock table of cmsys/lock.go: sequential use only; concurrency is property C15/C19",
    ],
    "modelled": ["cmsys.GetNumRecords", "cmsys.GetRecords", "cmsys.AppendRecord", "cmsys.SubstituteRecord", "cmsys.DeleteRecord",
                 "ptt.ModifyDirLite", "types.Cstrcmp (== 0)"],
    "assumptions": [
        "open/flock/fcntl/write do not fail for environmental reasons (disk full, permissions); only argument-provoked errors are modelled",
        "a crash cuts an append inside its single write(2) (the tail left behind is a prefix of the record image: pre-seeded torn tails of every length) or kills the process at a syscall boundary (thorough tier: strace signal injection); no reordering of the write against later writes (no power-loss model)",
        "GetRecords is driven with n <= 10^6 (it allocates capacity n up front)",
    ],
}
