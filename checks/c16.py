import os

# Package api imports gin.  In the shared go/go.mod the translator's dependency golang.org/x/tools v0.29.0 puts
# golang.org/x/net v0.34.0 on the build list, which asks for golang.org/x/crypto v0.32.0 — not in the offline
# module cache — as soon as a package of x/net is really needed (gin needs one).  The harness of this property
# does not need x/tools, so it is built with its own copy of go.mod without that line (same module, same
# `replace` of the repository, which follows VERIF_REPO for mutation trials).
_ROOT = os.path.dirname(os.path.dirname(os.path.abspath(__file__)))
_REPO = os.path.realpath(os.environ.get("VERIF_REPO", "/repo"))


def _modfile():
    import hashlib
    tag = "repo" if _REPO == "/repo" else hashlib.sha1(_REPO.encode()).hexdigest()[:8]
    d = os.path.join(_ROOT, "work", "c16-mod-" + tag)
    os.makedirs(d, exist_ok=True)
    src = open(os.path.join(_ROOT, "go", "go.mod")).read().replace("=> /repo", "=> " + _REPO)
    src = "".join(l for l in src.splitlines(True) if "golang.org/x/tools" not in l)
    open(os.path.join(d, "go.mod"), "w").write(src)
    sums = set()
    for p in (os.path.join(_ROOT, "go", "go.sum"), os.path.join(_REPO, "go.sum")):
        if os.path.exists(p):
            sums.update(l for l in open(p).read().splitlines() if l.strip())
    open(os.path.join(d, "go.sum"), "w").write("\n".join(sorted(sums)) + "\n")
    return os.path.join(d, "go.mod")


CONFIG = {
    "gens": ["Token"],
    "level": "proof",
    "passes": [
        {"name": "tokens", "pkg": "c16", "bin": "c16", "driver": "drv_c16", "timeout": 1500,
         "build_flags": ["-modfile=" + _modfile()]},
        # the configured server: viper + api.InitConfig() on every shipped ini file (one child process each)
        {"name": "inis", "pkg": "c16", "bin": "c16", "driver": "drv_c16", "timeout": 1500, "args": ["-mode", "inis"],
         "reset_prefix": "useini", "build_flags": ["-modfile=" + _modfile()]},
    ],
    "trusted_base": [
        "github.com/golang-jwt/jwt/v4 v4.5.0, crypto/hmac, encoding/base64, encoding/json are NOT modelled: a token string is abstracted as (algorithm class, claims read by the server, the oracle 'HMAC under key k matches'); the harness computes that abstraction itself with strings.Split, base64, json and crypto/hmac (not with the jwt library) and the correspondence compares the real functions with the model on it",
        "cryptographic assumption (explicit hypothesis `SignedOnly` of the cross-kind theorems): a signature made with one secret does not verify under a different secret; only the holder of a secret can make `hmacOK secret` true",
        "what the library does on top of HMAC is mirrored from its v4.5.0 source and checked by the correspondence: only SigningMethodHMAC.Verify accepts a []byte key (none/RSA/ECDSA/PSS/EdDSA never verify), MapClaims.Valid validates exp/iat/nbf (absent or 0 passes, other numbers floored to the second, any other JSON type fails), the payload is read with a json.Decoder (trailing bytes ignored)",
        "one wall clock: time.Now() of the library and types.NowTS() of the server are read within the same second (the harness repeats a case that straddles a second); the server's clock is an int32 (Time4), mirrored",
        "the default secrets, expiry durations, claim names, signing methods and the key callback are read from the source by the translator (Gen/Token.lean) and compared with the compiled values by the `config` op",
        "api/config.go config() is modelled as an interpreter over the lines `X = setYConfig(KEY, DEFAULT)` the translator reads (a default is evaluated when its line runs); the translator's reading of the shipped ini files ([go-pttbbs:api], '#'/';' comments, quotes) is compared with what viper + api.InitConfig() really produce by the `useini` op in a child process per ini file",
    ],
    "modelled": ["api.VerifyJwt", "api.VerifyRefreshJwt", "api.VerifyEmailJwt", "api.ParseClaimString/ParseClaimInt", "api.ParseJwt (on the abstraction)",
                 "api.CreateToken/CreateRefreshToken/CreateEmailToken (claims, expiry, signing key)", "api.GetJwt", "api.Refresh",
                 "api.loginRequiredProcess/loginRequiredPathProcess (through LoginRequiredJSON/LoginRequiredPathJSON)",
                 "api.GetTokenInfo", "api.GetRefreshTokenInfo", "api.userInfoIsValidEmailUser (through api.ChangeEmail, api.SetIDEmail and GetEmailTokenInfo on a private BBSHOME whose fixture grants PERM_SYSOP / PERM_ACCOUNTS / PERM_ACCTREG to three users)", "api.GetEmailTokenInfo", "api.config / setStringConfig / setBytesConfig / setIntConfig (interpreter over the regenerated lines; setters pinned as plain forwarders)"],
    "assumptions": [
        "a pair is two tokens created back to back: the oracle's tolerance for the expiry distance of an access/refresh pair is 2 s (its own constant; theorem pair_tolerance_is_two_seconds pins the server's)",
        "bbs.IsSysop of the requester is an input of the model (the harness asks the real function on its fixture); what ChangeEmail/SetIDEmail do after the gate (bbs.ChangeEmail, the allow/reject mail lists, ChangeUserLevel2) is not modelled — the oracle only reads the resulting PERM2_ID_EMAIL bit",
        "claimed partial: HMAC, base64url and JSON parsing are outside the model (uninterpreted oracle + the harness's own decoding)",
        "JSON numbers of magnitude >= 2^53 in exp/iat/nbf are outside the model (int(float64) and time.Unix are not portable there); such cases are counted and skipped",
        "the secrets are those in force after api.InitConfig(): `effective_secrets_pairwise_distinct` is a fact about api/00-config.go + api/config.go + every shipped ini file (and no ini entry); a deployment whose own ini file sets equal secrets loses the separation of kinds: theorem `equal_secrets_break_kinds`",
        "refresh_same_user's 'both tokens verify' needs a clock later than REFRESH-JWT expiry distance + epsilon after the epoch (6 days + 2 s) — the general statement with the guest/empty-token disjuncts is proved as well",
    ],
}
