CONFIG = {
    "level": "proof",
    "passes": [
        {"name": "money", "pkg": "c20", "bin": "c20", "driver": "drv_c20", "reset_prefix": "reset", "timeout": 1500},
        # stress observation, judged by the property oracle only (the model answers `done`); a failing `resetconc`
        # line replays through the first pass (the op is understood in both modes)
        {"name": "concurrent", "pkg": "c20", "bin": "c20", "driver": "drv_c20", "reset_prefix": "reset",
         "args": ["-mode", "concurrent"], "timeout": 600},
    ],
    "trusted_base": [
        "atomicity of one cmbbs.PasswdUpdate / cache.passwdUpdateMoney call with respect to calls for OTHER slots (own descriptor, own encode buffer): NOT proved; the theorems slot_result_depends_only_on_own_operations / interleavings_agree say what every slot must hold IF calls are atomic, and the `concurrent` pass compares every slot of .PASSWDS and SHM (bystanders included) with that image after G concurrent single-slot writers (resetconc: money writers; resetconcrec: money writers + ptt.SetUserPerm + ptt.GetUser + a registrar; resetconcfld: a credit/debit racing with ptt.ChangePasswd / ptt.ChangeEmail of the SAME user, judged after every round)",
        "per-call descriptor design of cache.passwdUpdateMoney (every call opens .PASSWDS itself, so Seek+Write of one call cannot be interleaved with another call's): NOT proved; observed by the `concurrent` pass (G goroutines x N SetUMoney/DeUMoney on pairwise different slots incl. 1 and MAX_USERS, then every byte of .PASSWDS and SHM compared with the expected image)",
        "the slot a registration is given (free-slot search in the SHM user hash) is observed, not modelled: `newuser` lines carry the slot seen through cache.SearchUserRaw after ptt.SetupNewUser",
        "os.OpenFile/Seek/Write on .PASSWDS and encoding/binary little-endian: modelled as a byte-list write (a seek past the end leaves zero bytes); agreement checked on every run, including short, torn and missing files",
        "SysV shared memory is an array of int32 in the model; the harness sets Shm.Shm.Money directly at each reset",
        "go/types Sizes(gc, amd64) for the UserecRaw layout; cross-checked against unsafe.Offsetof/Sizeof of the compiled code by the `layout` op",
    ],
    "modelled": ["cache.SetUMoney", "cache.DeUMoney", "cache.MoneyOf", "cache.passwdUpdateMoney", "ptttype.UID.ToUIDInStore",
                 "ptt.passwdSyncQuery (through ptt.GetUser)", "ptt.passwdSyncUpdate (through ptt.SetUserPerm)",
                 "cmbbs.PasswdQuery", "cmbbs.PasswdUpdate", "ptt.SetupNewUser (tail after cache.SetUserID)", "ptt.ChangeEmail / ptt.ChangePasswd as field writers (cmbbs.PasswdUpdateEmail / PasswdUpdatePasswd)", "cache.SetUserID (balance part: none; the user-id array is kept by the driver, the hash chains are C04's)", "ptt.killUser (record / balance part; reached through tryCleanUser -> checkAndExpireAccount)",
                 "cache.LoadUHash / fillUHash / userecRawAddToUHash (Userid, Money, invalid-id counter; fresh and on-the-fly; the hash chains are C04's)",
                 "ptttype.USE_COOLDOWN (site configuration, driven in both values)", "UserID_t.IsValid, types.Cstrcmp on user ids", "encoding/binary bool normalisation of UserecRaw"],
    "assumptions": [
        "the theorems are stated for a .PASSWDS of exactly MAX_USERS records and an SHM money array of MAX_USERS entries (other files are compared with the model, not judged)",
        "no-overflow hypothesis of the property: amounts are int32, a debit is not -2^31 (its negation does not exist in int32: DeUMoney then stores balance-2^31) and the stored sum is an int32",
        "ptt.GetUser reaches passwdSyncQuery through the SHM user hash (cache.SearchUserRaw): the harness loads the hash once with one name per slot and checks every lookup at start-up; the hash itself is C04's subject",
        "a caller's UserecRaw is modelled by its 512-byte serialisation",
        "the proofs are about SEQUENTIAL histories; the concurrent pass is a stress observation, not a proof",
        "registration: only the money/record tail of ptt.SetupNewUser (SetUMoney, passwdSyncUpdate, in the order regenerated from the source) is modelled; id lookup, slot search and locking are C03/C15",
        "the loader theorems are for a .PASSWDS of exactly MAX_USERS records (short, torn, long and missing files are compared with the model, not judged); MAX_USERS <= PRE_ALLOCATED_USERS (checked over the regenerated constants), so the invalid-id skip of the loader is unreachable",
        "an on-the-fly reload refills only slots whose owner changed: a slot whose Money alone was edited on disk keeps its SHM value (as in pttbbs); recorded and compared, not judged as a defect",
        "which accounts the clean-up sweep removes (clock, KEEP_DAYS_*, PERM_XEMPT: the account model, C03) is observed from .PASSWDS, not modelled; the oracle only requires that the accounts the history aged far beyond the limits are removed and that exempt / recent ones and slot 1 are not",
        "ptt.ChangePasswd is driven only in the concurrent pass (its hash carries a random salt; those bytes are not compared); ptt.ChangeEmail also sequentially against the model",
        "single writer: concurrent SetUMoney/DeUMoney on one slot are outside this property",
        "MoneyOf on an invalid slot panics (index out of range); it writes nothing and is recorded, not judged",
    ],
}
