CONFIG = {
    "level": "proof",
    "passes": [
        {"name": "money", "pkg": "c20", "bin": "c20", "driver": "drv_c20", "reset_prefix": "reset", "timeout": 1500},
    ],
    "trusted_base": [
        "os.OpenFile/Seek/Write on .PASSWDS and encoding/binary little-endian: modelled as a byte-list write (a seek past the end leaves zero bytes); agreement checked on every run, including short, torn and missing files",
        "SysV shared memory is an array of int32 in the model; the harness sets Shm.Shm.Money directly at each reset",
        "go/types Sizes(gc, amd64) for the UserecRaw layout; cross-checked against unsafe.Offsetof/Sizeof of the compiled code by the `layout` op",
    ],
    "modelled": ["cache.SetUMoney", "cache.DeUMoney", "cache.MoneyOf", "cache.passwdUpdateMoney", "ptttype.UID.ToUIDInStore",
                 "ptt.passwdSyncQuery (through ptt.GetUser)", "ptt.passwdSyncUpdate (through ptt.SetUserPerm)",
                 "cmbbs.PasswdQuery", "cmbbs.PasswdUpdate", "encoding/binary bool normalisation of UserecRaw"],
    "assumptions": [
        "the theorems are stated for a .PASSWDS of exactly MAX_USERS records and an SHM money array of MAX_USERS entries (other files are compared with the model, not judged)",
        "no-overflow hypothesis of the property: amounts are int32, a debit is not -2^31 (its negation does not exist in int32: DeUMoney then stores balance-2^31) and the stored sum is an int32",
        "ptt.GetUser reaches passwdSyncQuery through the SHM user hash (cache.SearchUserRaw): the harness loads the hash once with one name per slot and checks every lookup at start-up; the hash itself is C04's subject",
        "a caller's UserecRaw is modelled by its 512-byte serialisation",
        "single writer: concurrent SetUMoney/DeUMoney on one slot are outside this property",
        "MoneyOf on an invalid slot panics (index out of range); it writes nothing and is recorded, not judged",
    ],
}
