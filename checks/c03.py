CONFIG = {
    "gens": ["Acct", "CryptTables"],
    "level": "proof",
    "passes": [
        {"name": "accounts", "pkg": "c03", "bin": "c03", "driver": "drv_c03", "reset_prefix": "reset", "timeout": 1500},
    ],
    "trusted_base": [
        "the SHM id index is modelled as 'uid of the first slot whose id compares equal with strcasecmp' and the empty-id chain as ascending slot order (property C04 proves the chains implement the map; the slot order is compared on every run: the harness prints the uid every id resolves to)",
        "password hashing is the interface Crypto {zero, gen, check} with the three laws C02 proves (des_is_lawful instantiates them with the C02 DES model); the driver runs the ideal instance (hash = effective key), the harness the real cmbbs.GenPasswd/CheckPasswd",
        "os file semantics of .PASSWDS (open, seek, read, write of fixed 512-byte records), encoding/binary, SysV shared memory; the harness writes the initial .PASSWDS itself and cold-loads the segment at every reset",
        "the bytes of a record outside UserID/PasswdHash/Email are one opaque value; the harness compares them raw (byte diff) before/after every operation",
    ],
    "modelled": ["bbs.Register/Login/CheckPasswd/ChangePasswd/ChangeEmail/CheckExistsUser", "bbs.UUserID.ToRaw/ToUUserID", "ptt.Register/NewRegister/SetupNewUser/isBadUserID/isReservedUserID",
                 "ptt.Login/LoginQuery (guest test on the stored id: exact C-string equality)/userLogin/getNewUtmpEnt (occupancy)", "ptt.ChangePasswd/CheckPasswd/ChangeEmail/GetUser/GetUID", "ptt.InitCurrentUser, pwcuLoginSave (as: rewrites the rest of the own record)",
                 "cmbbs.GenPasswd (zero-hash rule)/PasswdLoadUser/PasswdQuery/PasswdQueryPasswd/PasswdUpdate/PasswdUpdatePasswd/PasswdUpdateEmail",
                 "cache.SearchUserRaw/DoSearchUserRaw/SetUserID (abstractly)", "ptttype.UserID_t.IsValid, UID.IsValid", "ptttype.initReservedUserIDs (driven, not modelled)", "types.Cstrcmp/Cstrcasecmp/Cstrlen/Isalpha/Isnumber/Isalnum/CcharTolower"],
    "assumptions": [
        "hypothesis of the refinement theorems (C02's unprovable clause (d)): hashes generated for one effective key do not verify a password with another effective key, for the passwords that occur (Sep C pws); P-hat evaluates it on every run for the pool passwords (key hash:mask)",
        "'the current password' means 'a password with the same effective key' (first 8 bytes up to a NUL, 7 bits each): crypt(3) semantics, inside the property; the empty password and a leading NUL give a locked account (all-zero hash)",
        "session hypothesis (RoomRun): fewer than USHM_SIZE sessions opened since the segment was loaded; beyond it the code refuses logins and half-completes registrations - known finding, keys register:utmp-full-account-created / login:utmp-full, proved as register_session_full / login_session_full / history_refines_full_fails",
        "no account expiry during the histories (.fresh is kept younger than an hour, so tryCleanUser never sweeps); no file-system errors; the home directories home/<letter>/ exist",
        "registration judges the id as submitted; the other entry points read a submitted id as a C string (a lookup by \"qb\\0cd\" addresses \"qb\"): recorded (lookup_reads_c_string), not judged",
        "stored hashes come from GenPasswd (or are all-zero / never-verifying): CheckPasswd on a stored hash whose salt byte is >= 128 panics (C02 fcrypt_panics_iff) and is outside the model",
        "the in-memory guest/admin permission overlay of InitCurrentUser is not observable through the driven entry points; its guest test is tied by the regenerated text only (guest_test_source)",
        "the reserved list is a parameter of the model; the harness feeds it through etc/reserved.id + ptttype.InitConfig (the real loader) and P-hat compares the loaded list with the file (key reserved:loader); reserved entries are non-empty and free of blanks/control bytes (the file format)",
        "concurrency: proved only for read-only requests (concurrent_checks_schedule_free); for writers on different accounts the model runs the groups one after the other and every run compares the real concurrent execution with it (conc op) and judges it per account (P-hat keys conc:*); concurrent requests that write the SAME account, concurrent first logins (session-slot race) and",
        "concurrent registrations (property C15) are outside; one caller at a time otherwise (concurrent registrations are property C15)",
    ],
}
