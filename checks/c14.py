CONFIG = {
    "gens": ["Lock"],
    "level": "proof",
    "evidence_keys": ["traces"],
    "passes": [
        {"name": "schedules", "pkg": "c14", "bin": "c14", "driver": "drv_c14", "timeout": 1500},
        {"name": "race", "pkg": "c14", "bin": "c14race", "driver": "drv_c14", "build_flags": ["-race"], "args": ["-raceonly"],
         "timeout": 900, "replayable": False},
    ],
    "trusted_base": [
        "atomicity of each modelled step: flock(2), lseek(2), write(2) are single syscalls; lockFD/unlockFD are mutex-protected sections",
        "the verif hook points (append.afterOpen/afterLock/afterSeek/afterWrite) are where the schedule controller preempts",
        "data-race freedom of the lock table is a Go-memory-model property: judged by the race detector (a -race build of the stress pass and of the commenter/header-writer runs, in both tiers), not by a theorem (partial)",
        "kernel semantics assumed by the descriptor-number model: flock(2) belongs to the open file description, LOCK_UN acts on whatever description the number names at the time of the call, open(2) hands out a number that is free in the process",
        "translator facts lockClose / appendCallers (go/cmd/extract/gen_lock.go) recognise the statement shapes listed in docs/asbuilt/C14.md; any other shape is reported as unknown:<why> and fails source_unlock_before_close / source_append_callers_no_bypass (conservative); a caller that propagates the error is not followed further up its own callers",
        "translator fact appendIndex: intra-procedural data flow (assignments, field stores, named results, return statements) from AppendRecord's first result to the caller's result; a caller that drops the index counts as reporting none only if it handles no other ptttype.SortIdx value; what the caller's own callers do with the reported index (NewPost, bbs.CreateArticle pass the summary on) is not followed",
        "a header writer's success is observed as the author line in the article (ptt.WriteFile drops writeHeader's error; the line is written only after the .post append returned nil)",
    ],
    "modelled": ["cmsys.AppendRecord incl. its error returns under the lock", "cmsys.GoFlock/GoFlockExNb/GoFunlock incl. the refused-lock path", "cmsys.lockFD/unlockFD", "lock discipline of DeleteRecord/SubstituteRecord/doAddRecommendSmartMerge (regenerated facts: defer order, unlock-before-close)",
                 "descriptor numbers and the other lock users' open/unlock/close (XSys, unlockNum), fallback writers of AppendRecord's callers (bread/bstore; followed by the schedule-level model when the source has one)",
                 "ptt.WriteFile -> writeHeaderAuthorBoard -> AppendRecord(.post) (hdr cases, model runHdr)",
                 "the index a request reports for its append (reportSlot: the returned index vs the file length read after the unlock; regenerated fact appendIndex); ptt.NewPost -> DoPostArticle -> AppendRecord(board .DIR) (posts op, judged by the property oracle)"],
    "assumptions": ["file length is a multiple of the record size; a failed write adds no whole record"],
}
