CONFIG = {
    "gens": ["Lock"],
    "level": "proof",
    "evidence_keys": ["traces"],
    "passes": [
        {"name": "schedules", "pkg": "c14", "bin": "c14", "driver": "drv_c14", "timeout": 1500},
        {"name": "race", "pkg": "c14", "bin": "c14race", "driver": "drv_c14", "build_flags": ["-race"], "args": ["-raceonly"],
         "timeout": 900, "replayable": False},
    ],
    "trusted_base": [
        "atomicity of each modelled step: flock(2), lseek(2), write(2) are single syscalls; lockFD/unlockFD are mutex-protected sections",
        "the verif hook points (append.afterOpen/afterLock/afterSeek/afterWrite) are where the schedule controller preempts",
        "data-race freedom of the lock table is a Go-memory-model property: judged by the race detector (a -race build of the stress pass, in both tiers), not by a theorem (partial)",
    ],
    "modelled": ["cmsys.AppendRecord incl. its error returns under the lock", "cmsys.GoFlock/GoFlockExNb/GoFunlock incl. the refused-lock path", "cmsys.lockFD/unlockFD", "lock discipline of DeleteRecord/SubstituteRecord/doAddRecommendSmartMerge (regenerated facts)"],
    "assumptions": ["file length is a multiple of the record size; a failed write adds no whole record"],
}
