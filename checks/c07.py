CONFIG = {
    "gens": ["Perm", "ReadEntryPoints"],
    "level": "proof",
    "passes": [
        {"name": "ptt", "pkg": "c07", "bin": "c07", "driver": "drv_c07", "reset_prefix": "reset", "timeout": 2400,
         "args": ["-layer", "ptt"], "driver_args": ["ptt"]},
        {"name": "bbs", "pkg": "c07", "bin": "c07", "driver": "drv_c07", "reset_prefix": "reset", "timeout": 2400,
         "args": ["-layer", "bbs"], "driver_args": ["bbs"]},
    ],
    "trusted_base": [
        "the declarative rule Spec.mayRead (Model/C07.lean) and its Go twin (go/cmd/c07/oracle.go) are written by hand from the property statement, with bit POSITIONS from pttbbs perm.h; theorem perm_constants ties the regenerated masks to those positions",
        "gen_perm.go reads the statement order of the six read entry points and the five per-board stat functions from the source (go/ast + go/types: callee, bound variables, compared constant, returned error); the Lean interpreter runReader/runStat gives those lists their meaning; the `consts` op compares Gen/Perm.lean with the compiled constants",
        "fixture materialisation: board attribute/level words are written into the shared board cache, the moderator cache slots directly, the friend list through the board's visable file + cache.HbflReload, the named-moderator fact through the header's BM string (as the repository's own tests do)",
        "content-reading callees are a fixed list (cache.GetBTotalWithRetry, GetBottomTotal, setBDir, path.SetBFile/SetBNFile, cmsys.GetRecords, readContent, findArticleStartIdx); a new content read under another name before the permission test makes the model answer `unmodelled` (correspondence breaks), it is not silently accepted",
    ],
    "modelled": ["ptt.is_uBM (byte level: types.CstrToBytes, Cstrstr/bytes.Index, Isalnum)", "ptt.boardPermStat", "ptt.boardPermStatNormally", "ptt.IsBMCache", "ptt.groupOp", "ptt.newBoardStat (with its write to the shared cache)",
                 "ptt.parseBoardSummary", "ptt.LoadBoardSummary", "ptt.LoadBoardDetail", "bbs.NewBoardSummaryFromRaw (nil title panic)",
                 "interpreted from regenerated statement lists: IsBoardValidUser, LoadGeneralArticles, LoadBottomArticles, FindArticleStartIdx, ReadPost, ReadPostTemplate, loadGeneralBoardStat, loadAutoCompleteBoardStat, loadBoardStat, loadHotBoardStat, loadClassBoardStat"],
    "assumptions": [
        "the relation facts `uid in the moderator cache` and `friend listed` are inputs: cache.IsHiddenBoardFriend / buildBMCache themselves are not modelled (friend-list expiry and reload are exercised by the fixture only); `named in the moderator string` is an input in the decision table and is computed by the modelled is_uBM in the nlist ops",
        "is_uBM is NOT equal to `one of the '/'-separated names` on all byte strings (theorems is_uBM_misses_named, is_uBM_junk_separator): it looks at the first occurrence only (a named moderator listed after a longer look-alike is not recognised: denial direction, recorded as a NOTE) and takes any non-alphanumeric byte as separator (only for moderator strings that are not ids and '/': recorded as a NOTE); the leak direction is proved and judged for alphanumeric ids and well-formed moderator strings",
        "the bbs name check is exercised with Shm.BBusyState raised by the harness for the duration of the call (xreadb); a real concurrent reload is not driven",
        "O2: package ptt's entry points take the board id for the permission test and the board NAME for the path and never compare them (recorded as a NOTE on every run); the bbs boundary refuses an inconsistent pair (BBoardID.ToRaw, fact regenerated as Gen.bboardIDChecksName, key board:name-mismatch)",
        "ptt.LoadClassBoards is driven on the class root of the fixture (children: two ordinary boards and the varied group board); its sibling walk itself is not modelled, only the per-child stat function",
        "keyword / title filters of the name listings are off in the driven calls (modelled as the fact kwMiss = false)",
    ],
}
