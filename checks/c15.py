CONFIG = {
    "gens": ["Reg"],
    "level": "proof",
    "evidence_keys": ["traces"],
    "passes": [
        {"name": "schedules", "pkg": "c15", "bin": "c15", "driver": "drv_c15", "timeout": 1500},
    ],
    "trusted_base": [
        "SysV semaphore semantics (semop wait/post) and atomicity of each modelled step between the verif hook points",
        "the call order of ptt.SetupNewUser is read from the source by the translator (Gen/Reg.lean)",
        "an interrupted semop (EINTR) makes a registration fail cleanly; such runs are repeated, not modelled",
    ],
    "modelled": ["ptt.SetupNewUser", "cmbbs.PasswdLock/PasswdUnlock", "cache.DoSearchUserRaw/SetUserID (abstractly: the id table)", "passwdSyncUpdate (abstractly: the record's id)"],
    "assumptions": ["no account expiry (tryCleanUser) during the driven histories", "the index itself behaves as a map (property C04)"],
}
