CONFIG = {
    "gens": ["Reg"],
    "level": "proof",
    "evidence_keys": ["traces"],
    "passes": [
        {"name": "schedules", "pkg": "c15", "bin": "c15", "driver": "drv_c15", "timeout": 1500},
    ],
    "trusted_base": [
        "SysV semaphore semantics (semop wait/post; one kernel object per key, shared by every process that opens it) and atomicity of each modelled step between the verif hook points",
        "the call order of ptt.SetupNewUser and the index/record writes reachable from ptt.tryCleanUser are read from the source by the translator (Gen/Reg.lean)",
        "that the record ptt.NewRegister hands to SetupNewUser is the request's own is read from the source by the translator (Gen/Reg.lean requestRecord)",
        "a thread is held inside killUser by making the expired account's aloha list a FIFO (friendDeleteAll blocks opening/reading it)",
        "an interrupted semop (EINTR, e.g. under Go's preemption signals) makes a registration fail cleanly; such runs are repeated, not modelled",
        "cmbbs.PasswdInit of a starting server process is modelled as the identity on the shared state (Model procInit); that the real one is, is what the `init` schedule elements test, not a theorem about its source",
        "which of several waiters the kernel wakes is observed by the harness (the first to report reg.afterLock) and written into the schedule as an explicit wake element; 'blocked in semop' is observed through semctl(GETNCNT) and, when the kernel does not confirm it within 100 ms, assumed (then a thread that was not blocked contradicts the model with its next report)",
    ],
    "modelled": ["ptt.tryCleanUser/checkAndExpireAccount/killUser (one expirable slot: index write or not, zero-record write)", "ptt.Register (as: NewRegister, then steps without effect on index/.PASSWDS)", "ptt.NewRegister (as: build the request's own record, then SetupNewUser; what follows SetupNewUser — InitCurrentUser, home directory, justify — is not modelled)", "ptt.SetupNewUser", "cmbbs.PasswdLock/PasswdUnlock", "cmbbs.PasswdInit (on an existing semaphore)", "cache.DoSearchUserRaw/SetUserID (abstractly: the id table)", "passwdSyncUpdate (abstractly: the record's id)"],
    "assumptions": ["account expiry (tryCleanUser) only in the `expiry` family, one expirable account per history; elsewhere every account is unexpirable",
                    "the source's present clean-up zeroes the record of an expired account and leaves its id in the index: reported, not judged by C15", "the index itself behaves as a map (property C04)",
                    "server processes of the driven histories attach an already loaded shared-memory segment (IS_NEW_SHM = false); a server that reloads the index while registrations run is outside the model"],
}
