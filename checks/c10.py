CONFIG = {
    "level": "proof",
    "gens": ["Comment", "RecFile"],
    "passes": [
        {"name": "comments", "pkg": "c10", "bin": "c10", "driver": "drv_c10", "reset_prefix": "reset", "timeout": 1500},
    ],
    "trusted_base": [
        "O_APPEND write on a regular file = old content followed by the written bytes; os.Stat mtime of the article file: parameters of the model (the harness checks the stored Modified against the returned mtime and the wall clock, then replaces it by the op's token)",
        "types.NowTS().CdateMdHM(): the eleven time bytes of a line are a parameter of the model; on the implementation side their format MM/DD hh:mm is checked and they are masked",
        "cmsys.GetRecord's search (FindRecordStartIdx, property C06) is a parameter `find` of the model: the theorems hold for every search function; the driver uses a first-match linear scan and the harness seeds indexes with distinct, increasing names",
        "ptt.ModifyDirLite and the record layout: Model/C05.lean and Gen/RecFile.lean (properties C05, C01)",
        "in-process lock table + flock of cmsys/lock.go: sequential use only (concurrency: C14)",
    ],
    "modelled": ["ptt.Recommend (after the permission guards)", "ptt.FormatCommentString", "ptt.doAddRecommend",
                 "ptt.doAddRecommendSmartMerge / NoSmartMerge", "ptttype.CommentType.Bytes", "ansi.ANSIColor / ANSIReset",
                 "cmsys.GetRecord (re-read + Filename_t.Eq)", "ptttype.Filename_t.CreateTime (ok/error)", "ptt.ModifyDirLite (C05)",
                 "bbs.CreateComment (through the same model)"],
    "assumptions": [
        "the permission guards in front of the lookup (boardPermStat, CheckPostPerm2, board restriction, cooldown: property C08) pass: the harness comments as a SYSOP account or as a verified account with post permission that is not the author",
        "the board has a .DIR and Shm total equals its size / 128 (SetBTotal at every reset)",
        "start scores outside [-100,100] (127, -128, 101 ...) are compared with the model and reported as notes, not judged (score_wraps_outside states what happens)",
        "texts containing newline bytes are accepted by the code as they are (comment_text_newline_injects): the one-newline clause is judged only for newline-free id, text and IP",
        "open/flock/write do not fail for environmental reasons; a missing article file is the only modelled I/O error",
        "single commenter at a time",
    ],
}
