CONFIG = {
    "level": "proof",
    "gens": ["NewBoard", "Perm", "ReadEntryPoints"],
    "passes": [
        {"name": "newboard", "pkg": "c12", "bin": "c12", "driver": "drv_c12", "reset_prefix": "reset", "timeout": 2400},
    ],
    "trusted_base": [
        "sort.Sort (pdqsort, not stable) is not modelled: the theorems hold for every sorter whose output is a sorted permutation (SortSpec); the driver runs a port of go1.23 pdqsort and checks SortSpec on every output",
        "os.Mkdir / os.Remove / os.ReadDir on boards/<c>/<name>: modelled as a set of existing directories (EEXIST, ENOENT when boards/<c> is missing)",
        "positioned read/write of 256-byte records of .BRD (encoding/binary, little-endian): modelled as a list of records plus a torn tail; the image of a record is compared byte for byte on every accepted request",
        "cache.SearchUserRaw is read as a scan of the user table over the slots holding valid ids (the hash index is property C04)",
        "SysV shared memory is zeroed and reloaded from the files at every reset (cache.Shm.Reset, LoadUHash, ReloadBCache)",
        "go/types Sizes(gc, amd64) for the BoardHeaderRaw layout; cross-checked against unsafe.Offsetof/Sizeof and the compiled constants by the `layout` op",
    ],
    "modelled": ["ptt.NewBoard", "ptt.groupOp", "ptt.is_uBM", "ptt.mNewbrd", "ptt.addBoardRecord", "ptt.LoadBoardSummary (its write to Shm.BCache)",
                 "ptt.IsBMCache", "the BBusyState branches of cache.ResetBoard / SortBCache / getBidByNameCore (flag held for a whole request)", "bbs.CreateBoard (wrapper)", "bbs.UUserID.ToRaw", "ptt.InitCurrentUser (record + SYSOP/guest levels)", "cache.GetBid", "cache.getBidByNameCore", "cache.ResetBoard", "cache.buildBMCache", "cache.ParseBMList",
                 "cache.SanitizeBMs", "cache.AddbrdTouchCache", "cache.SortBCache", "ptttype.BoardID_t.IsValid", "ptttype.NewBM",
                 "types.Cstrcmp", "types.Cstrcasecmp", "cmsys.SubstituteRecord", "cmsys.AppendRecord"],
    "assumptions": [
        "the theorems are stated for well-formed states: .BRD holds exactly BNumber <= MAX_BOARD complete records, the shared copy equals the records up to FirstChild (and the post-mask bit of hidden boards), both indexes are sorted permutations, occupied names are pairwise distinct up to letter case; other tables (torn tail, more than MAX_BOARD records, duplicate names) are compared with the model, not judged",
        "the theorems are for BBusyState = 0; a request served while another process holds Shm.BBusyState is mirrored (newBoardBusy) and driven (`busy on|off|<ms>`) for the correspondence only; BusyStateB stamps are 0",
        "no hidden-board friend list names the caller for the slot of a new board (Shm.Hbfl empty; a new board has no `visible` file and, since 1b78546, HbflReload empties the list when the file is gone)",
        "ptt.is_uBM is the model of property C07 (Model/C07.lean, imported; Gen/Perm and Gen/ReadEntryPoints are regenerated with it); group_operator_sound uses C07's is_uBM_sound; moderator strings are made of ids and '/' (junk separators are C07's business)",
        "configuration: ptttype.DEFAULT_AUTOCPLOG is the only package variable the creation rules consult; it is part of every request line and driven in both values (set in-process around the call, restored)",
        "both ptt.NewBoard (`create`) and bbs.CreateBoard (`bcreate`: string arguments, the caller's level read from .PASSWDS) are driven; ptttype.NewBM also on its own (`newbm`)",
        "pwcuBitEnableLevel (called by groupOp and IsBMCache) discards the result of pwcuEnableBit: it rewrites the caller's .PASSWDS record unchanged and is modelled as a no-op",
    ],
}
