CONFIG = {
    "gens": ["Post", "RecFile", "Aid"],
    "level": "proof",
    "passes": [
        {"name": "publish", "pkg": "c09", "bin": "c09", "driver": "drv_c09", "args": ["-stream", "posts"], "reset_prefix": "reset", "timeout": 2400},
        {"name": "text", "pkg": "c09", "bin": "c09", "driver": "drv_c09", "args": ["-stream", "text"], "timeout": 2400},
    ],
    "trusted_base": [
        "fmt.Fprintf %s of byte slices, bytes.HasPrefix/Join/Index/IndexByte/TrimRight, os file calls: modelled by list functions; agreement checked by the correspondence on every run",
        "the harness's masking of time-dependent fields (file-name time and suffix, Modified, Date, Ctime line, .post date); their format and range are judged by the oracle",
    ],
    "modelled": ["ptt.NewPost/DoPostArticle (from Stampfile on)", "doPostArticleFullTitle", "tnSafeStrip/isTnAllowed/isTnAnnounce",
                 "ptt.WriteFile line loop + entropy", "writeHeader/writeHeaderAuthorBoard/writeHeaderAuthor", "addSimpleSignature", "GetWebURL line",
                 "ptt.StripANSIMoveCmd", "cmsys.Trim", "cmsys.AppendRecord (C05 model)", "cache.SetBTotal", "pwcuIncNumPost",
                 "site configuration as run-time variables (HAVE_ANONYMOUS, ALLOW_FREE_TN_ANNOUNCE, USE_POST_ENTROPY, QUERY_ARTICLE_URL, USE_AID_URL) read by checkBoardAnonymous / writeHeaderAuthor / isTnAllowed / WriteFile / DoPostArticle / GetWebURL; which variables each site reads is regenerated (Gen.Post.siteConfig)",
                 "types.InitConfig time-zone path (config -> postConfig -> setTimeLocation) on zone NAMES; the formatting of dates is an environment parameter of the model, judged by the oracle with its own time.LoadLocation",
                 "header/signature/URL rendering as verbatim byte concatenation (fmt %s of byte slices: no field is ever a format)",
                 "pwcuIncNumPost on (stored counter, caller's copy); sessions = kept user records (ptt.NewPost with a stale record)",
                 "doCrosspost to ALLPOST (index growth, file copy, SetBTotal recount; its title is a parameter)", "bbs.ToArticleID/ArticleID.ToRaw (C13 model)"],
    "assumptions": [
        "Stampfile chooses a name M.<t>.A.<XXX> not present in the board directory (O_EXCL retry loop, wall clock and math/rand are parameters of the model)",
        "10^9 <= t < 2^31 for the article-id round trip (Time4 is a signed 32-bit clock)",
        "system calls do not fail (disk full, permissions); no concurrent writer to the same board (C14 covers the append protocol)",
        "string-valued configuration (BBSNAME, MYHOSTNAME, URL_PREFIX), MAX_POST_MONEY/ENTROPY_RATIO and USE_HIDDEN_BOARD_NOCREDIT are taken at their source defaults (validated by the consts op), not varied",
        "permission decisions (who may post where, who may keep the announcement tag, which boards are credited/open/anonymous) are inputs of the model: property C08",
        "no NEWIDPOST / UNANONYMOUS / ALLHIDPOST cross-post target exists in the fixture; the ALLPOST copy's title (SubjectEx + dbcsSafeTrimTitle) is a parameter",
    ],
}
