CONFIG = {
    "level": "proof",
    "passes": [
        {"name": "strings", "pkg": "c18", "bin": "c18", "driver": "drv_c18", "timeout": 1500},
        # the result-ownership histories and the concurrent callers once more under the race detector
        {"name": "race", "pkg": "c18", "bin": "c18race", "driver": "drv_c18", "build_flags": ["-race"],
         "args": ["-only-alias"], "timeout": 1500},
    ],
    "trusted_base": [
        "package bytes (IndexByte, Index, HasPrefix, TrimRight) and bufio.Reader.ReadBytes on a bytes.Reader: modelled as first-occurrence / split functions; agreement checked by the correspondence on every run",
        "the Go memory model / allocator: `make` returns memory no other live slice refers to (the heap model's `alloc` appends a new backing array); sync.Pool and goroutine scheduling are not modelled -- "
        "a helper that shares memory between calls is caught by the history correspondence and the concurrent stress (plain and under the race detector), not excluded by proof",
        "libc strlen/strcmp/strcasecmp/strncasecmp/strstr/strcasestr through cgo (C locale): used only as oracles in P-hat, never as proof",
    ],
    "modelled": ["types.Cstrlen", "types.CstrToBytes", "types.Cstrcmp", "types.Cstrcasecmp", "types.Cstrstr", "types.Cstrcasestr",
                 "types.CstrCaseHasPrefix", "types.CstrTokenR", "types.CcharTolower/CcharToupper/CstrTolower/CstrToupper",
                 "cmsys.StripAnsi (isEscapeParam, isEscapeCommand, ESCAPE_FLAG)", "types.ReadLine",
                 "cmsys.StringHash", "cmsys.StringHashWithHashBits", "cmsys.fnv1a32StrCase",
                 "cmsys.StripNoneBig5", "cmsys.DBCSNextStatus", "cmsys.DBCSStatus", "cmsys.DBCSSafeTrim", "cmsys.Trim",
                 "cmsys.StrcaseStartsWith", "types.TrimDBCS", "cmbbs.SubjectEx", "ptt.StripANSIMoveCmd", "ptt.myWrite/myWriteMsg (strip-all call site, LastCallIn; driven through go:linkname)", "ptt.CrossPost title statements (regenerated call-site fact + model crossPostTitle; not driven)",
                 "result ownership of every slice-returning helper (heap model Model/C18Alias.lean: StripAnsi/CstrTolower/CstrToupper/ReadLine return fresh memory, "
                 "CstrToBytes/CstrTokenR/DBCSSafeTrim/Trim/SubjectEx a view of the argument, StripNoneBig5/TrimDBCS work in the caller's array) over histories of calls"],
    "assumptions": [
        "bytes are values below 256 (theorems that index the 256-entry ESCAPE_FLAG table or use the 0x80 bit test carry this as the hypothesis Bytes s)",
        "observations, not judged: O6 Cstrstr(h, \"\") = -1 for empty h (C: 0); DBCSStatus(\"\", pos>=0) panics (its only caller checks the length). "
        "The two findings of this check (split:trimdbcs, split:subjectex) are repaired in /repo (279321c, ff0e11f), recorded as fixed in known_findings.json and judged on every run",
    ],
}
