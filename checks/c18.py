CONFIG = {
    "level": "proof",
    "passes": [
        {"name": "strings", "pkg": "c18", "bin": "c18", "driver": "drv_c18"},
    ],
    "trusted_base": [
        "package bytes (IndexByte, Index, HasPrefix, ToLower on ASCII, TrimRight) and bufio.Reader.ReadBytes: modelled as first-occurrence / split functions; agreement checked by the correspondence on every run",
        "libc strlen/strcmp/strcasecmp/strncasecmp/strstr/strcasestr through cgo (C locale): used only as oracles in P-hat, never as proof",
    ],
    "modelled": ["types.Cstrlen", "types.CstrToBytes", "types.Cstrcmp", "types.Cstrcasecmp", "types.Cstrstr", "types.Cstrcasestr",
                 "types.CstrCaseHasPrefix", "types.CstrTokenR", "types.CcharTolower/CcharToupper"],
    "assumptions": ["bytes are values below 256 (theorems that index the 256-entry ESCAPE_FLAG table carry this as a hypothesis)"],
}
