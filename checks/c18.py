CONFIG = {
    "level": "proof",
    "passes": [
        # add "args": ["-judge-findings"] once the two findings below are listed in known_findings.json (or repaired):
        # they then count as property-oracle failures with the keys split:trimdbcs / split:subjectex.
        {"name": "strings", "pkg": "c18", "bin": "c18", "driver": "drv_c18", "timeout": 1500},
    ],
    "trusted_base": [
        "package bytes (IndexByte, Index, HasPrefix, TrimRight) and bufio.Reader.ReadBytes on a bytes.Reader: modelled as first-occurrence / split functions; agreement checked by the correspondence on every run",
        "bytes.ToLower (used by cmsys.StrcaseStartsWith): modelled rune by rune (UTF-8 validity as in unicode/utf8; ASCII lower-cased; every byte that starts no valid encoding becomes U+FFFD; U+0130 and U+212A become i and k; "
        "other valid multi-byte runes are copied unchanged -- an approximation that cannot change a comparison with the three SubjectEx prefixes, checked by the correspondence incl. the Kelvin-sign and dotted-I cases)",
        "libc strlen/strcmp/strcasecmp/strncasecmp/strstr/strcasestr through cgo (C locale): used only as oracles in P-hat, never as proof",
    ],
    "modelled": ["types.Cstrlen", "types.CstrToBytes", "types.Cstrcmp", "types.Cstrcasecmp", "types.Cstrstr", "types.Cstrcasestr",
                 "types.CstrCaseHasPrefix", "types.CstrTokenR", "types.CcharTolower/CcharToupper/CstrTolower/CstrToupper",
                 "cmsys.StripAnsi (isEscapeParam, isEscapeCommand, ESCAPE_FLAG)", "types.ReadLine",
                 "cmsys.StringHash", "cmsys.StringHashWithHashBits", "cmsys.fnv1a32StrCase",
                 "cmsys.StripNoneBig5", "cmsys.DBCSNextStatus", "cmsys.DBCSStatus", "cmsys.DBCSSafeTrim", "cmsys.Trim",
                 "cmsys.StrcaseStartsWith (for the three SubjectEx prefixes)", "types.TrimDBCS", "cmbbs.SubjectEx"],
    "assumptions": [
        "bytes are values below 256 (theorems that index the 256-entry ESCAPE_FLAG table or use the 0x80 bit test carry this as the hypothesis Bytes s)",
        "FINDING split:trimdbcs (reported, not judged by default): types.TrimDBCS cuts any last byte >= 0x80, also the trail byte of a complete character: TrimDBCS(\"\\xa4\\xa4\") = \"\\xa4\" (theorem trimDBCS_splits_witness; trimDBCS_no_split_partial is what holds)",
        "FINDING split:subjectex (reported, not judged by default): cmbbs.SubjectEx cuts 6 bytes after matching the legacy forward tag through bytes.ToLower, which maps EF BF BD and every non-UTF-8 byte to U+FFFD: "
        "SubjectEx(\"[\\xef\\xbf\\xbd\\xa4\\xa4\\xa4]x\") returns \"\\xa4]x\", a cut inside a double-byte character (theorem subjectEx_split_witness; subjectEx_no_split_partial holds for titles without the byte 0xEF)",
        "observations, not judged: O6 Cstrstr(h, \"\") = -1 for empty h (C: 0); O7 TrimDBCS panics on an empty C string; DBCSStatus(\"\", pos>=0) panics (its only caller checks the length); "
        "O8 SubjectEx takes any '[' + four non-UTF-8 bytes + ']' (e.g. a two-character Big5 board tag) for the legacy forward tag",
    ],
}
