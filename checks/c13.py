CONFIG = {
    "gens": ["Aid"],
    "level": "proof",
    "passes": [
        {"name": "codec", "pkg": "c13", "bin": "c13", "driver": "drv_c13"},
        # the designation layer: histories on a private BBSHOME (what a url line / listing id / cross-post
        # reference leads back to); a replay holds the whole history since its `reset`
        {"name": "designate", "pkg": "c13d", "bin": "c13d", "driver": "drv_c13", "reset_prefix": "reset"},
    ],
    "trusted_base": [
        "fmt %d/%03X, strconv.Atoi/ParseUint: modelled by digit functions; agreement checked by the correspondence on every run",
        "designation pass: go/cmd/c13d reads the board index (.DIR records via encoding/binary into ptttype.FileHeaderRaw) and the board "
        "directory itself and extracts the last line of the stored article; URL_PREFIX and STR_URL_DISPLAYNAME_BIG5 are handed to the "
        "model in the `reset` line (the harness refuses a line that does not state the values the code runs with)",
        "resolveURL/resolveLine (strip display name, URL_PREFIX, board, '.html' or decode the 8 characters) is the reader's side of the "
        "property, not repository code: its Go counterpart in c13d uses the real bbs.ArticleID.ToRaw and is compared with the model on every url line",
        "go/cmd/c13 hands a replay that is a designation history over to the sibling binary c13d (./check routes corpus-recorded replays to the first pass)",
    ],
    "modelled": ["Filename_t.ToAidu/Type/CreateTime/Postfix", "Aidu.ToFN/ToAidc/Type/Time/Postfix", "Aidc.ToAidu",
                 "bbs.ToArticleID", "bbs.ArticleID.ToRaw",
                 "ptt.GetWebURL (both USE_AID_URL values) and the url line ptt.DoPostArticle appends (webURL, urlLine)",
                 "bbs.NewArticleSummaryFromRaw: ArticleID / IsDeleted / Filename of a listing entry and of the answer of CreateArticle / CrossPost (listEntry)",
                 "the #<aidc> reference ptt.crossPostWriteFile prints (aidcText)",
                 "NOT modelled here: the order of steps inside DoPostArticle (Stampfile, StampfileU, rename) — the designate pass observes its "
                 "result (final name vs. name in the stored line) and the property oracle judges it; cursors `time@id` (C06); the listing's paging (C06)"],
    "assumptions": ["creation times in the proved round trip are 10-digit and below 2^31 (Time4 is a signed 32-bit clock)",
                    "designation theorems: the board name contains no '/' (board names are [A-Za-z0-9_.-]); URL_PREFIX and the display name are arbitrary byte strings",
                    "designation histories run at the wall-clock time of the run: names are M.<now..now+3>.A.<random>; G names, the 2^31 boundary and "
                    "out-of-domain names reach GetWebURL / NewArticleSummaryFromRaw only through the pure ops (constructed headers)",
                    "the url line is looked for as the LAST line of the stored article (DoPostArticle appends it last); the copy of a cross-post carries the "
                    "source's url line in its body and none of its own — only its #<aidc> reference is judged"],
}
