CONFIG = {
    "gens": ["Aid"],
    "level": "proof",
    "passes": [
        {"name": "codec", "pkg": "c13", "bin": "c13", "driver": "drv_c13"},
    ],
    "trusted_base": [
        "fmt %d/%03X, strconv.Atoi/ParseUint: modelled by digit functions; agreement checked by the correspondence on every run",
    ],
    "modelled": ["Filename_t.ToAidu/Type/CreateTime/Postfix", "Aidu.ToFN/ToAidc/Type/Time/Postfix", "Aidc.ToAidu",
                 "bbs.ToArticleID", "bbs.ArticleID.ToRaw"],
    "assumptions": ["creation times in the proved round trip are 10-digit and below 2^31 (Time4 is a signed 32-bit clock)"],
}
