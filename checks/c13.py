CONFIG = {
    "gens": ["Aid"],
    "level": "proof",
    "passes": [
        {"name": "codec", "pkg": "c13", "bin": "c13", "driver": "drv_c13"},
        # the designation layer: histories on a private BBSHOME (what a url line / listing id / cross-post
        # reference leads back to); a replay holds the whole history since its `reset`
        {"name": "designate", "pkg": "c13d", "bin": "c13d", "driver": "drv_c13", "reset_prefix": "reset"},
        # the concurrent round trips of the codec pass once more under the Go race detector
        {"name": "race", "pkg": "c13", "bin": "c13race", "driver": "drv_c13", "build_flags": ["-race"], "args": ["-raceonly"],
         "thorough_only": True, "timeout": 900},
    ],
    "trusted_base": [
        "fmt %d/%03X, strconv.Atoi/ParseUint: modelled by digit functions; agreement checked by the correspondence on every run",
        "designation pass: go/cmd/c13d reads the board index (.DIR records via encoding/binary into ptttype.FileHeaderRaw) and the board "
        "directory itself and extracts the last line of the stored article; URL_PREFIX and STR_URL_DISPLAYNAME_BIG5 are handed to the "
        "model in the `reset` line (the harness refuses a line that does not state the values the code runs with)",
        "resolveURL/resolveLine (strip display name, URL_PREFIX, board, '.html' or decode the 8 characters) is the reader's side of the "
        "property, not repository code: its Go counterpart in c13d uses the real bbs.ArticleID.ToRaw and is compared with the model on every url line",
        "purity of the codec functions (a returned value does not change when the function is called again, an argument is not changed, concurrent "
        "callers do not disturb each other) is not a theorem about the Lean model — there the functions are values — but what the tie checks: `hold` keeps "
        "the pointers the real functions return across later calls and re-reads them; `conc` runs goroutines x names in a process of its own (under the "
        "Go race detector in the thorough-only pass `race`); both are judged against the single-call answers",
        "the position cmsys.FindRecordStartIdx proposes is modelled and proved under C06; C13 proves the confirmation step for an ARBITRARY proposal "
        "(resolveId_designates / resolveId_absent) and ties Filename_t.Eq and cmsys.GetRecord (on indexes in time order with one entry per time+suffix) differentially",
    ],
    "modelled": ["Filename_t.ToAidu/Type/CreateTime/Postfix", "Aidu.ToFN/ToAidc/Type/Time/Postfix", "Aidc.ToAidu",
                 "bbs.ToArticleID", "bbs.ArticleID.ToRaw",
                 "ptt.GetWebURL (both USE_AID_URL values) and the url line ptt.DoPostArticle appends (webURL, urlLine)",
                 "bbs.NewArticleSummaryFromRaw: ArticleID / IsDeleted / Filename of a listing entry and of the answer of CreateArticle / CrossPost (listEntry)",
                 "the #<aidc> reference ptt.crossPostWriteFile prints (aidcText)",
                 "Filename_t.Eq (filenameEq) and the confirmation at the end of cmsys.GetRecord (confirmWith / resolveId / lookupId)",
                 "cursor texts: bbs.DeserializeArticleIdxStr / LoadGeneralArticles are driven with malformed cursors and answered by the constant `no-crash` (the parse is modelled under C06)",
                 "NOT modelled here: the order of steps inside DoPostArticle (Stampfile, StampfileU, rename) — the designate pass observes its "
                 "result (final name vs. name in the stored line) and the property oracle judges it; cursors `time@id` (C06); the listing's paging (C06)"],
    "assumptions": ["creation times in the proved round trip are 10-digit and below 2^31 (Time4 is a signed 32-bit clock)",
                    "designation theorems: the board name contains no '/' (board names are [A-Za-z0-9_.-]); URL_PREFIX and the display name are arbitrary byte strings",
                    "designation histories run at the wall-clock time of the run: names are M.<now..now+3>.A.<random>; G names, the 2^31 boundary and "
                    "out-of-domain names reach GetWebURL / NewArticleSummaryFromRaw only through the pure ops (constructed headers)",
                    "lookup ops: the index is in time order and holds one entry per (creation time, suffix) — C06's precondition for GetRecord = lookup; "
                    "`probe` emits the board's lookup only when its index satisfies it",
                    "Filename_t.Eq does not compare the first two bytes (type letter / delete mark): the id of G.<t>.A.<s> addresses the entry M.<t>.A.<s>. "
                    "Recorded as a NOTE on every run (not judged): the clause is about ids that were produced from an article, and no G name is produced by the posting path",
                    "the url line is looked for as the LAST line of the stored article (DoPostArticle appends it last); the copy of a cross-post carries the "
                    "source's url line in its body and none of its own — only its #<aidc> reference is judged"],
}
