import PttVerif.Common
import PttVerif.DriverLoop
import PttVerif.Props.C13
import PttVerif.Props.C18
import PttVerif.Props.C01
import PttVerif.Props.C14
import PttVerif.Props.C20
import PttVerif.Props.C02
