import PttVerif.Common
import PttVerif.DriverLoop
import PttVerif.Props.C13
