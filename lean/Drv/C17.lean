import PttVerif.DriverLoop
import PttVerif.Model.C17
import PttVerif.Gen.Big5
open PttVerif PttVerif.C17

/-
ops:
  wf                                         well-formedness of the two real table files (parsed by the MODELLED parser)
  b2u <hex>                                  Big5ToUtf8 with the real tables
  u2b <hex>                                  Utf8ToBig5 with the real tables
  rt <hex>                                   Utf8ToBig5 (Big5ToUtf8 x) with the real tables
  tbl <b2u-file-hex> <u2b-file-hex> <big5-hex> <utf8-hex>
                                             parse two synthetic table files, then convert one string each way
-/

structure Tables where
  b2uRows : M (List Row)
  u2bRows : M (List Row)
  b2u : Table
  u2b : Table
  ascii : Bool

def mkTables (cb cu : Bytes) : Tables :=
  let rb := parseTable cb
  let ru := parseTable cu
  let mb := match rb with | .ok rows => b2uMap rows | .error _ => ∅
  let mu := match ru with | .ok rows => u2bMap rows | .error _ => ∅
  { b2uRows := rb, u2bRows := ru, b2u := tableOf mb, u2b := tableOf mu,
    ascii := cb.all (· < 128) && cu.all (· < 128) }

def distinctKeys (m : GoMap) : Nat := m.size

def wfLine (t : Tables) : String :=
  match t.b2uRows, t.u2bRows with
  | .ok rb, .ok ru =>
    s!"wf b2u={rb.length}/{(b2uMap rb).size}/{wfB2U rb} u2b={ru.length}/{(u2bMap ru).size}/{wfU2B ru} ascii={t.ascii}"
  | _, _ => "PANIC"

def stepC17 (t : Tables) (ws : List String) : Tables × String :=
  let out := match ws with
    | ["wf"] => wfLine t
    | ["b2u", h] => match parseHex h with
        | some s => showM toHex (big5ToUtf8 t.b2u s)
        | none => "bad-op"
    | ["u2b", h] => match parseHex h with
        | some s => showM toHex (utf8ToBig5 t.u2b s)
        | none => "bad-op"
    | ["rt", h] => match parseHex h with
        | some s => showM toHex (big5ToUtf8 t.b2u s >>= utf8ToBig5 t.u2b)
        | none => "bad-op"
    | ["tbl", fb, fu, hb, hu] =>
        match parseHex fb, parseHex fu, parseHex hb, parseHex hu with
        | some cb, some cu, some sb, some su =>
          let t' := mkTables cb cu
          match t'.b2uRows, t'.u2bRows with
          | .ok _, .ok _ =>
            showM toHex (big5ToUtf8 t'.b2u sb) ++ " " ++ showM toHex (utf8ToBig5 t'.u2b su)
          | _, _ => "PANIC"
        | _, _, _, _ => "bad-op"
    | _ => "bad-op"
  (t, out)

def readBytes (path : System.FilePath) : IO Bytes := do
  let b ← IO.FS.readBinFile path
  pure (b.toList.map UInt8.toNat)

def main : IO Unit := do
  let repo := (← IO.getEnv "VERIF_REPO").getD "/repo"
  let cb ← readBytes (System.FilePath.mk repo / Gen.Big5.b2uPath)
  let cu ← readBytes (System.FilePath.mk repo / Gen.Big5.u2bPath)
  let t := mkTables cb cu
  let inp ← IO.getStdin
  let out ← IO.getStdout
  runLoop { init := t, step := stepC17 } inp out t
