import PttVerif.DriverLoop
import PttVerif.Model.C17
import PttVerif.Gen.Big5
open PttVerif PttVerif.C17

/-
ops:
  wf                                         well-formedness of the two real table files (parsed by the MODELLED parser)
  b2u <hex>                                  Big5ToUtf8 with the real tables
  u2b <hex>                                  Utf8ToBig5 with the real tables
  rt <hex>                                   Utf8ToBig5 (Big5ToUtf8 x) with the real tables
  tbl <b2u-file-hex> <u2b-file-hex> <big5-hex> <utf8-hex>
                                             parse two synthetic table files, then convert one string each way
  cfg <d|m> <b2u|u2b> <hex>                  the conversion after types.InitConfig under an ini file that names the
                                             tables: d = [go-pttbbs:types] of the shipped docker ini (paths rewritten
                                             to <repo>/types/), m = a minimal ini with the two table keys.  The paths
                                             are resolved by the MODELLED config() over Gen.Big5.configReads.
  reset                                      a fresh process: both package-level maps empty, no ini, default paths
  init <var|ini> <specB> <specU>             types.InitConfig after setting the two table paths (var: the variables,
                                             ini: an ini file read through viper). spec: Rb / Ru = the repository's
                                             b2u / u2b file, X = no such file, D = a directory, S<hex> = a file with
                                             this content.  Answer: ok | err | PANIC   (MODELLED initBig5 state machine)
  hb2u <hex> | hu2b <hex> | hrt <hex>        the conversions with the maps as the history left them
  start <specB> <specU> <name-hex>           a FRESH process runs initgin.InitAllConfig under an ini naming the two tables
                                             and the site name; answer: BBSNAME_BIG5 afterwards | INIT-ERR
                                             (MODELLED boot over Gen.Big5.initOrder from empty maps)
-/

structure Tables where
  b2uRows : M (List Row)
  u2bRows : M (List Row)
  b2u : Table
  u2b : Table
  ascii : Bool

def mkTables (cb cu : Bytes) : Tables :=
  let rb := parseTable cb
  let ru := parseTable cu
  let mb := match rb with | .ok rows => b2uMap rows | .error _ => ∅
  let mu := match ru with | .ok rows => u2bMap rows | .error _ => ∅
  { b2uRows := rb, u2bRows := ru, b2u := tableOf mb, u2b := tableOf mu,
    ascii := cb.all (· < 128) && cu.all (· < 128) }

def distinctKeys (m : GoMap) : Nat := m.size

/-- the first line is not a data row (so the loader's unconditional `lines[1:]` loses nothing) and it is the line the
kernel-checked theorem `real_tables_first_line_is_no_row` is about. -/
def headerOK (content gen : Bytes) : Bool :=
  (match parseLine (firstLine content) with
   | .ok none => true
   | _ => false) && firstLine content == gen

def wfLine (t : Tables) (cb cu : Bytes) : String :=
  match t.b2uRows, t.u2bRows with
  | .ok rb, .ok ru =>
    s!"wf b2u={rb.length}/{(b2uMap rb).size}/{wfB2U rb} u2b={ru.length}/{(u2bMap ru).size}/{wfU2B ru} ascii={t.ascii} hdr={headerOK cb Gen.Big5.b2uFirstLine}/{headerOK cu Gen.Big5.u2bFirstLine} dropped={droppedRows cb}/{droppedRows cu}"
  | _, _ => "PANIC"

/-- default tables, and the tables under the two ini variants (`none`: InitConfig fails, a file cannot be read). -/
structure St where
  dflt : Tables
  cfgD : Option Tables
  cfgM : Option Tables
  cb : Bytes                 -- content of the repository's b2u file
  cu : Bytes
  hist : Loader := { b2u := ∅, u2b := ∅ }
  hVars : Env := []
  hIni : Env := []

/-- the file system of a history: a path IS its spec. `none` (outer): not a spec. -/
def specContent (st : St) (spec : String) : Option (Option Bytes) :=
  if spec = "Rb" then some (some st.cb)
  else if spec = "Ru" then some (some st.cu)
  else if spec = "X" ∨ spec = "D" then some none
  else if spec.startsWith "S" then (parseHex (spec.drop 1).toString).map some
  else none

def histInit (st : St) (via b u : String) : St × String :=
  match specContent st b, specContent st u with
  | some _, some _ =>
    let pre := Gen.Big5.configPrefix ++ "."
    let ini := if via = "ini" then [(pre ++ "big5_to_utf8", b), (pre ++ "utf8_to_big5", u)] else st.hIni
    let vars0 : Env := if via = "ini" then
        (if st.hVars.isEmpty then [("BIG5_TO_UTF8", Gen.Big5.b2uPath), ("UTF8_TO_BIG5", Gen.Big5.u2bPath)] else st.hVars)
      else [("BIG5_TO_UTF8", b), ("UTF8_TO_BIG5", u)]
    let env := runConfig Gen.Big5.configReads ini vars0           -- config()
    let pb := cfgVar env "BIG5_TO_UTF8"
    let pu := cfgVar env "UTF8_TO_BIG5"
    let fs : FS := fun p => (specContent st p).join
    let st' := { st with hIni := ini, hVars := [("BIG5_TO_UTF8", pb), ("UTF8_TO_BIG5", pu)] }
    match initBig5 fs pb pu st.hist with                          -- postConfig(): setTimeLocation, initBig5
    | .ok (l, e) => ({ st' with hist := l }, if e then "err" else "ok")
    | .error f => (st', toString f)
  | _, _ => (st, "bad-op")

def convOp (t : Tables) (op h : String) : String :=
  match parseHex h with
  | none => "bad-op"
  | some s =>
    if op = "b2u" then showM toHex (big5ToUtf8 t.b2u s)
    else if op = "u2b" then showM toHex (utf8ToBig5 t.u2b s)
    else "bad-op"

def stepC17 (st : St) (ws : List String) : St × String :=
  let t := st.dflt
  match ws with
  | ["reset"] => ({ st with hist := { b2u := ∅, u2b := ∅ }, hVars := [], hIni := [] }, "ok")
  | ["init", via, b, u] => if via = "var" ∨ via = "ini" then histInit st via b u else (st, "bad-op")
  | ["start", b, u, h] =>
    match specContent st b, specContent st u, parseHex h with
    | some _, some _, some name =>
      let fs : FS := fun p => (specContent st p).join
      let b0 : Boot := { loader := { b2u := ∅, u2b := ∅ } }
      (st, match boot fs b u name Gen.Big5.initOrder b0 with
        | .ok (b', false) => (match b'.bbsnameBig5 with | some r => toHex r | none => "unset")
        | .ok (_, true) => "INIT-ERR"
        | .error f => toString f)
    | _, _, _ => (st, "bad-op")
  | _ =>
  let out := match ws with
    | ["hb2u", h] => match parseHex h with
        | some s => showM toHex (big5ToUtf8 (tableOf st.hist.b2u) s)
        | none => "bad-op"
    | ["hu2b", h] => match parseHex h with
        | some s => showM toHex (utf8ToBig5 (tableOf st.hist.u2b) s)
        | none => "bad-op"
    | ["hrt", h] => match parseHex h with
        | some s => showM toHex (big5ToUtf8 (tableOf st.hist.b2u) s >>= utf8ToBig5 (tableOf st.hist.u2b))
        | none => "bad-op"
    | ["cfg", v, op, h] =>
        if op ≠ "b2u" ∧ op ≠ "u2b" then "bad-op" else
        match parseHex h with
        | none => "bad-op"
        | some _ =>
          if v = "d" then (match st.cfgD with | some t' => convOp t' op h | none => "INIT-ERR")
          else if v = "m" then (match st.cfgM with | some t' => convOp t' op h | none => "INIT-ERR")
          else "bad-op"
    | ["wf"] => wfLine t st.cb st.cu
    | ["b2u", h] => match parseHex h with
        | some s => showM toHex (big5ToUtf8 t.b2u s)
        | none => "bad-op"
    | ["u2b", h] => match parseHex h with
        | some s => showM toHex (utf8ToBig5 t.u2b s)
        | none => "bad-op"
    | ["rt", h] => match parseHex h with
        | some s => showM toHex (big5ToUtf8 t.b2u s >>= utf8ToBig5 t.u2b)
        | none => "bad-op"
    | ["tbl", fb, fu, hb, hu] =>
        match parseHex fb, parseHex fu, parseHex hb, parseHex hu with
        | some cb, some cu, some sb, some su =>
          let t' := mkTables cb cu
          match t'.b2uRows, t'.u2bRows with
          | .ok _, .ok _ =>
            showM toHex (big5ToUtf8 t'.b2u sb) ++ " " ++ showM toHex (utf8ToBig5 t'.u2b su)
          | _, _ => "PANIC"
        | _, _, _, _ => "bad-op"
    | _ => "bad-op"
  (st, out)

def readBytes (path : System.FilePath) : IO Bytes := do
  let b ← IO.FS.readBinFile path
  pure (b.toList.map UInt8.toNat)

/-- the ini the harness writes for a variant: viper key ↦ value. -/
def iniOf (repo : String) (variant : String) : Env :=
  let pre := Gen.Big5.configPrefix ++ "."
  if variant = "d" then
    Gen.Big5.dockerIni.map fun (k, v) =>
      (pre ++ k, if v.startsWith "/etc/go-pttbbs/" then repo ++ "/types/" ++ (v.drop "/etc/go-pttbbs/".length).toString else v)
  else
    [(pre ++ "big5_to_utf8", repo ++ "/" ++ Gen.Big5.b2uPath), (pre ++ "utf8_to_big5", repo ++ "/" ++ Gen.Big5.u2bPath)]

def loadCfg (repo : String) (dflt : Tables) (variant : String) : IO (Option Tables) := do
  let env0 : Env := [("BIG5_TO_UTF8", Gen.Big5.b2uPath), ("UTF8_TO_BIG5", Gen.Big5.u2bPath)]
  let env := runConfig Gen.Big5.configReads (iniOf repo variant) env0
  let pb := cfgVar env "BIG5_TO_UTF8"
  let pu := cfgVar env "UTF8_TO_BIG5"
  if pb = repo ++ "/" ++ Gen.Big5.b2uPath ∧ pu = repo ++ "/" ++ Gen.Big5.u2bPath then
    return some dflt
  -- a relative path is looked up below the child's working directory (a fresh temporary directory): not there
  if !pb.startsWith "/" || !pu.startsWith "/" then return none
  try
    let cb ← readBytes pb
    let cu ← readBytes pu
    return some (mkTables cb cu)
  catch _ => return none

def main : IO Unit := do
  let repo := (← IO.getEnv "VERIF_REPO").getD "/repo"
  let cb ← readBytes (repo ++ "/" ++ Gen.Big5.b2uPath)
  let cu ← readBytes (repo ++ "/" ++ Gen.Big5.u2bPath)
  let t := mkTables cb cu
  let st : St := { dflt := t, cfgD := ← loadCfg repo t "d", cfgM := ← loadCfg repo t "m", cb := cb, cu := cu }
  let inp ← IO.getStdin
  let out ← IO.getStdout
  runLoop { init := st, step := stepC17 } inp out st
