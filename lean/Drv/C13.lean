import PttVerif.DriverLoop
import PttVerif.Model.C13
open PttVerif PttVerif.C13

/-- ops: fn2aidu <hex28> | aidu2fn <dec> | aidu2aidc <dec> | aidc2aidu <hex8> | toaid <hex28> | toraw <hex> -/
def stepC13 (_ : Unit) (ws : List String) : Unit × String :=
  let out := match ws with
    | ["fn2aidu", h] => match parseHex h with
        | some f => toString (fnToAidu f)
        | none => "bad-op"
    | ["aidu2fn", d] => match d.toNat? with
        | some a => toHex (aiduToFN a)
        | none => "bad-op"
    | ["aidu2aidc", d] => match d.toNat? with
        | some a => toHex (aiduToAidc a)
        | none => "bad-op"
    | ["aidc2aidu", h] => match parseHex h with
        | some cs => showM toString (aidcToAidu cs)
        | none => "bad-op"
    | ["toaid", h] => match parseHex h with
        | some f => toHex (toArticleID f)
        | none => "bad-op"
    | ["toraw", h] => match parseHex h with
        | some a => showM toHex (articleIDToRaw a)
        | none => "bad-op"
    | _ => "bad-op"
  ((), out)

def main : IO Unit := runHandler { init := (), step := stepC13 }
