import PttVerif.DriverLoop
import PttVerif.Model.C13
open PttVerif PttVerif.C13

/-- configuration a designation history runs under (set by `reset`): USE_AID_URL, URL_PREFIX,
STR_URL_DISPLAYNAME_BIG5. The codec ops do not read it. -/
structure Cfg where
  useAid : Bool
  pfx : List Nat
  disp : List Nat

def showResolved : Option (List Nat × List Nat) → String
  | none => "none"
  | some (folder, f) => toHex folder ++ "/" ++ toHex f

def showEntry (e : Entry) : String :=
  toHex e.id ++ " " ++ (if e.deleted then "1" else "0") ++ " " ++ toHex e.filename

/-- decimal token of 1..9 digits. -/
def natTok (s : String) : Option Nat :=
  if s.length = 0 ∨ s.length > 9 then none
  else if s.toList.all Char.isDigit then s.toNat? else none

/-- `n` consecutive pieces of `k` bytes. -/
def chunks (k : Nat) (bs : List Nat) : Nat → List (List Nat)
  | 0 => []
  | n + 1 => bs.take k :: chunks k (bs.drop k) n

def byteTok (s : String) : Option Nat := (natTok s).bind fun n => if n < 256 then some n else none

/-- the Brdname array of a board header (`BoardID_t`, IDLEN + 1 bytes); the harness copies the given
bytes into one, as it copies names into a Filename_t. -/
def BRDLEN : Nat := 13

/-- one codec op on one argument (`none`: malformed). -/
def codecOp (op x : String) : Option String :=
  match op with
  | "fn2aidu" => (parseHex x).map fun f => toString (fnToAidu f)
  | "aidu2fn" => x.toNat?.map fun a => toHex (aiduToFN a)
  | "aidu2aidc" => x.toNat?.map fun a => toHex (aiduToAidc a)
  | "aidc2aidu" => (parseHex x).map fun cs => showM toString (aidcToAidu cs)
  | "toaid" => (parseHex x).map fun f => toHex (toArticleID f)
  | "toraw" => (parseHex x).map fun a => showM toHex (articleIDToRaw a)
  | _ => none

/-- the model's functions are values: an answer does not depend on what was computed before or after,
so the answers of a `hold` line are the answers of the single ops. -/
def holdOp (op : String) (xs : List String) : String :=
  match xs.mapM (codecOp op) with
  | some (r :: rs) => " ".intercalate (r :: rs)
  | _ => "bad-op"

/-- pass `codec` — ops: fn2aidu <hex28> | aidu2fn <dec> | aidu2aidc <dec> | aidc2aidu <hex8> | toaid <hex28> | toraw <hex>

pass `designate` — ops: reset <0|1> <prefix-hex> <displayname-hex>
  actions of the history, acknowledged only (what they did is reported by the observation ops):
    post <board-hex> <user-hex> <k> | crowd <board-hex> | del <board-hex> <k> | list <board-hex>
    | xpost <board-hex> <k> <xboard-hex> | probe <board-hex> <k> <variant> <entry point>
  observations:
    url <board-hex> <filename-hex28> <line-hex>   => <the line GetWebURL gives for that record> <what the given line resolves to>
    listid <filename-hex28> <owner0>              => <id> <deleted> <filename>
    xref <filename-hex28>                         => <the 8 characters a cross-post header prints>
  pure forms (ptt.GetWebURL / bbs.NewArticleSummaryFromRaw on a constructed header):
    weburl <board-hex> <filename-hex>             => <url>
    entry <filename-hex> <owner0>                 => <id> <deleted> <filename>
    cursor <text-hex>                             => no-crash   (bbs.DeserializeArticleIdxStr + bbs.LoadGeneralArticles with that cursor text)
    lookup <id-hex> <names-hex, 28 bytes each>    => none | <0-based position>   (cmsys.GetRecord on a .DIR holding these names, in time order)
  both passes: eq <filename-hex> <filename-hex>   => 0 | 1                        (Filename_t.Eq)
  codec pass, result aliasing: hold <op> <x1> … <xn> => the n answers of <op>, all read after the last call; conc <goroutines> <iterations> <seed> => ok -/
def stepC13 (st : Option Cfg) (ws : List String) : Option Cfg × String :=
  match ws with
  | ["reset", a, p, d] =>
      match (if a = "0" then some false else if a = "1" then some true else none), parseHex p, parseHex d with
      | some useAid, some pfx, some disp => (some { useAid, pfx, disp }, "ok")
      | _, _, _ => (st, "bad-op")
  | _ =>
  let out := match ws with
    | "hold" :: op :: xs => holdOp op xs
    | ["conc", g, n, sd] => match natTok g, natTok n, natTok sd with
        | some gn, some _, some _ => if 1 ≤ gn ∧ gn ≤ 256 then "ok" else "bad-op"
        | _, _, _ => "bad-op"
    | ["probe", b, k, v, e] => match st, parseHex b, natTok k, natTok v, natTok e with
        | some _, some _, some _, some _, some _ => "ok"
        | _, _, _, _, _ => "bad-op"
    | ["fn2aidu", h] => match parseHex h with
        | some f => toString (fnToAidu f)
        | none => "bad-op"
    | ["aidu2fn", d] => match d.toNat? with
        | some a => toHex (aiduToFN a)
        | none => "bad-op"
    | ["aidu2aidc", d] => match d.toNat? with
        | some a => toHex (aiduToAidc a)
        | none => "bad-op"
    | ["aidc2aidu", h] => match parseHex h with
        | some cs => showM toString (aidcToAidu cs)
        | none => "bad-op"
    | ["toaid", h] => match parseHex h with
        | some f => toHex (toArticleID f)
        | none => "bad-op"
    | ["toraw", h] => match parseHex h with
        | some a => showM toHex (articleIDToRaw a)
        | none => "bad-op"
    | ["post", b, u, k] => match st, parseHex b, parseHex u, natTok k with
        | some _, some _, some _, some _ => "ok"
        | _, _, _, _ => "bad-op"
    | ["crowd", b] => match st, parseHex b with
        | some _, some _ => "ok"
        | _, _ => "bad-op"
    | ["del", b, k] => match st, parseHex b, natTok k with
        | some _, some _, some _ => "ok"
        | _, _, _ => "bad-op"
    | ["list", b] => match st, parseHex b with
        | some _, some _ => "ok"
        | _, _ => "bad-op"
    | ["xpost", b, k, x] => match st, parseHex b, natTok k, parseHex x with
        | some _, some _, some _, some _ => "ok"
        | _, _, _, _ => "bad-op"
    | ["url", b, f, l] => match st, parseHex b, parseHex f, parseHex l with
        | some c, some board, some fn, some line =>
            toHex (urlLine c.disp (webURL c.useAid c.pfx (copyInto BRDLEN board) (copyInto FNLEN fn))) ++ " " ++
              showM showResolved (resolveLine c.useAid c.disp c.pfx line)
        | _, _, _, _ => "bad-op"
    | ["listid", f, o] => match st, parseHex f, byteTok o with
        | some _, some fn, some owner0 => showEntry (listEntry (copyInto FNLEN fn) owner0)
        | _, _, _ => "bad-op"
    | ["weburl", b, f] => match st, parseHex b, parseHex f with
        | some c, some board, some fn => toHex (webURL c.useAid c.pfx (copyInto BRDLEN board) (copyInto FNLEN fn))
        | _, _, _ => "bad-op"
    | ["entry", f, o] => match st, parseHex f, byteTok o with
        | some _, some fn, some owner0 => showEntry (listEntry (copyInto FNLEN fn) owner0)
        | _, _, _ => "bad-op"
    | ["eq", f, g] => match parseHex f, parseHex g with
        | some a, some b => if filenameEq (copyInto FNLEN a) (copyInto FNLEN b) then "1" else "0"
        | _, _ => "bad-op"
    | ["lookup", i, ns] => match st, parseHex i, parseHex ns with
        | some _, some id, some names =>
            if names.length % FNLEN != 0 then "bad-op"
            else showM (fun r => match r with | none => "none" | some p => toString p) (lookupId (chunks FNLEN names (names.length / FNLEN)) id)
        | _, _, _ => "bad-op"
    | ["cursor", c] => match st, parseHex c with
        | some _, some _ => "no-crash"   -- the parse itself is modelled under C06; here: whatever the text, an answer
        | _, _ => "bad-op"
    | ["xref", f] => match st, parseHex f with
        | some _, some fn => toHex (aidcText (copyInto FNLEN fn))
        | _, _ => "bad-op"
    | _ => "bad-op"
  (st, out)

def main : IO Unit := runHandler { init := none, step := stepC13 }
