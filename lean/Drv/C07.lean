import PttVerif.DriverLoop
import PttVerif.Model.C07
open PttVerif PttVerif.C07 PttVerif.Gen.Perm

/-
ops (see go/cmd/c07/main.go):
  consts | reset | setb <bid> <attr> <level>
  read <entry> <bid> <ulevel> <over18> <uid> <bmcache> <friend> <named>
  list <fn>    <bid> <ulevel> <over18> <uid> <bmcache> <friend> <named>
answers:
  read: allow | deny | err:invalid-bid | err:other | PANIC   + " attr=<n|->"
  list: absent | title | masked | err:invalid-bid | PANIC    + " attr=<n|->"
  xread <entry> <bid> <namebid> ...: the entry point gets the number of board <bid> and the name of board <namebid>
  xreadb: the same while Shm.BBusyState is raised
  users <uid>:<idhex> ...                      the user-id table (uid ↦ id) for the ops below
  sread|slist <entry|fn> <spellhex> <storedlevel> <over18> <bid>
        the caller's id as the CLIENT spelled it; ptt.InitCurrentUser (bbs: UUserID.ToRaw first) decides who that is
  resetbm <bid> <attr> <level> <bmhex>         the board's header is (re)written and cache.ResetBoard(bid) rebuilds its BM cache
  mread|mlist <entry|fn> <bid> <ulevel> <over18> <uid> <friend>
        a read/list whose moderator facts come from the BM cache / BM string left by the resetbm history (ptt layer)
  fexp <entry|fn> <bid> <ulevel> <over18> <listed-at-load> <listed-in-file-now> <aged>   friend list loaded, file changed, list aged
  vmulti <ulevel> <over18> <tok>...            bbs.IsBoardsValidUser; one answer character per request entry (v f -)
  hold <slot> <fn> <bid> <ulevel> <over18> <uid> <bmcache> <friend> <named>   a list op whose returned list is kept (ptt layer)
  recheck <slot>                               what the kept list shows of its board now
  stress <n>                                   n concurrent listings each by a plain user and by SYSOP (bbs layer); "ok"
  nlist <fn> <bid> <ulevel> <over18> <uid> <bmcache> <friend> <idhex> <bmhex>: a list op whose named-moderator fact is
        is_uBM of the raw bytes (≤13 / ≤39)
The first command-line argument selects the layer (ptt | bbs).
-/
namespace C07Drv

def isDigits (ds : List Char) : Bool := !ds.isEmpty && ds.all fun c => '0' ≤ c && c ≤ '9'
def digitsVal (ds : List Char) : Nat := ds.foldl (fun a c => a * 10 + (c.toNat - 48)) 0

def parseU32 (s : String) : Option Nat :=
  let ds := s.toList
  if isDigits ds && ds.length ≤ 10 then
    let v := digitsVal ds
    if v ≤ 4294967295 then some v else none
  else none

def parseI32 (s : String) : Option Int :=
  match s.toList with
  | '-' :: r =>
      (match parseU32 (String.ofList r) with
       | some v => if v ≤ 2147483648 then some (-(v : Int)) else none
       | none => none)
  | _ =>
      (match parseU32 s with
       | some v => if v ≤ 2147483647 then some (v : Int) else none
       | none => none)

def parseBool (s : String) : Option Bool :=
  if s = "0" then some false else if s = "1" then some true else none

def readNames : List String := requiredReaders
def listNames : List String :=
  ["LoadGeneralBoards", "LoadAutoCompleteBoards", "LoadBoardsByBids", "LoadHotBoards", "LoadBoardSummary", "LoadFullClassBoards",
   "LoadClassBoards", "LoadBoardDetail"]

abbrev St := List (Int × BoardView)

def getBoard (st : St) (bid : Int) : Option BoardView :=
  match st with
  | [] => none
  | (k, v) :: rest => if k = bid then some v else getBoard rest bid

def setBoard (st : St) (bid : Int) (v : BoardView) : St :=
  (bid, v) :: st.filter (fun p => p.1 ≠ bid)

def bidValid (bid : Int) : Bool := 1 ≤ bid && bid ≤ (MAX_BOARD : Int)

def noSpace (s : String) : String := String.ofList (s.toList.map fun c => if c = ' ' then '_' else c)

def showRead : ReadOut → String
  | .allow => "allow"
  | .deny => "deny"
  | .invalidBid => "err:invalid-bid"
  | .other _ => "err:other"
  | .panic => "PANIC"
  | .unmodelled x => "unmodelled:" ++ noSpace x

def showList (o : ListOut) : String :=
  match o with
  | .absent => "absent"
  | .present sh => if sh.hasTitle then "title" else "masked"
  | .invalidBid => "err:invalid-bid"
  | .unmodelled x => "unmodelled:" ++ noSpace x

def constsLine : String :=
  let kv : List (String × Nat) := [
    ("PERM_BASIC", PERM_BASIC), ("PERM_LOGINOK", PERM_LOGINOK), ("PERM_BM", PERM_BM), ("PERM_BOARD", PERM_BOARD), ("PERM_SYSOP", PERM_SYSOP),
    ("PERM_POLICE_MAN", PERM_POLICE_MAN), ("PERM_POLICE", PERM_POLICE), ("BRD_GROUPBOARD", BRD_GROUPBOARD), ("BRD_HIDE", BRD_HIDE),
    ("BRD_POSTMASK", BRD_POSTMASK), ("BRD_SYMBOLIC", BRD_SYMBOLIC), ("BRD_OVER18", BRD_OVER18), ("NBRD_INVALID", NBRD_INVALID),
    ("NBRD_FAV", NBRD_FAV), ("NBRD_BOARD", NBRD_BOARD), ("NBRD_LINE", NBRD_LINE), ("NBRD_FOLDER", NBRD_FOLDER),
    ("MAX_BOARD", MAX_BOARD), ("MAX_USERS", MAX_USERS)]
  " ".intercalate (kv.map fun (k, v) => s!"{k}={v}") ++ s!" REALDESC={USE_REAL_DESC_FOR_HIDDEN_BOARD_IN_MYFAV}"

/-- `nameBid`: the board whose NAME the entry point receives (= bid except for xread) -/
def doCall (bbs : Bool) (st : St) (kind entry : String) (bid nameBid : Int) (u : UserView) (r : Relation) (busy : Bool := false) : St × String :=
  let valid := bidValid bid
  match (if !valid then some default else getBoard st bid) with
  | none => (st, "bad-op")
  | some b =>
    if kind = "read" then
      let env : ReadEnv := { u := u, b := b, r := r, bidValid := valid, precheck := false }
      let o :=
        if bbs && entry = "FindArticleStartIdx" then
          -- bbs.LoadGeneralArticles with a cursor: ptt.FindArticleStartIdx, then ptt.LoadGeneralArticles
          (match bbsRead busy (nameBid = bid) "FindArticleStartIdx" env with
           | .allow => runEntry "LoadGeneralArticles" env
           | x => x)
        else if bbs then bbsRead busy (nameBid = bid) entry env
        else runEntry entry env
      (st, showRead o ++ " attr=" ++ (if valid then toString b.attr.toNat else "-"))
    else
      if !valid then
        let o := if entry = "LoadBoardSummary" || entry = "LoadBoardDetail" then "err:invalid-bid" else "absent"
        (st, o ++ " attr=-")
      else
        let (o, b') := listAny entry { u := u, b := b, r := r }
        (setBoard st bid b', showList o ++ " attr=" ++ toString b'.attr.toNat)

def step (bbs : Bool) (st : St) (ws : List String) : St × String :=
  match ws with
  | ["consts"] => (st, constsLine)
  | ["reset"] => ([], "ok")
  | ["setb", bid, attr, level] =>
      (match parseI32 bid, parseU32 attr, parseU32 level with
       | some bid, some attr, some level =>
          if bid = 2 ∨ bid = 4 then (setBoard st bid { attr := w attr, level := w level }, "ok") else (st, "bad-op")
       | _, _, _ => (st, "bad-op"))
  | [kind, entry, bid, ulevel, over18, uid, bmc, friend, named] =>
      if !((kind = "read" && readNames.contains entry) || (kind = "list" && listNames.contains entry)) then (st, "bad-op") else
      (match parseI32 bid, parseU32 ulevel, parseBool over18, parseI32 uid, parseBool bmc, parseBool friend, parseBool named with
       | some bid, some ulevel, some over18, some uid, some bmc, some friend, some named =>
          if friend && uid ≠ 2 then (st, "bad-op")
          else if bbs && uid ≠ 2 then (st, "bad-op")
          else doCall bbs st kind entry bid bid { level := w ulevel, over18 := over18, uid := uid } { bmUid := bmc, friend := friend, namedBM := named }
       | _, _, _, _, _, _, _ => (st, "bad-op"))
  | [xk, entry, bid, nameBid, ulevel, over18, uid, bmc, friend, named] =>
      if xk = "nlist" then
        -- nlist <fn> <bid> <ulevel> <over18> <uid> <bmcache> <friend> <idhex> <bmhex>: the named-moderator fact is computed
        -- by is_uBM from the raw user-id and moderator-string bytes (ptt layer only)
        let (fn, bid, ulevel, over18, uid, bmc, friend, idhex, bmhex) := (entry, bid, nameBid, ulevel, over18, uid, bmc, friend, named)
        if bbs || !listNames.contains fn then (st, "bad-op") else
        (match parseI32 bid, parseU32 ulevel, parseBool over18, parseI32 uid, parseBool bmc, parseBool friend, parseHex idhex, parseHex bmhex with
         | some bid, some ulevel, some over18, some uid, some bmc, some friend, some idb, some bmb =>
            if idb.length > 13 || bmb.length > 39 then (st, "bad-op")
            else if friend && uid ≠ 2 then (st, "bad-op")
            else doCall bbs st "list" fn bid bid { level := w ulevel, over18 := over18, uid := uid }
                   { bmUid := bmc, friend := friend, namedBM := isUBM idb bmb }
         | _, _, _, _, _, _, _, _ => (st, "bad-op"))
      else if !(xk = "xread" || xk = "xreadb") || !readNames.contains entry then (st, "bad-op") else
      (match parseI32 bid, parseI32 nameBid, parseU32 ulevel, parseBool over18, parseI32 uid, parseBool bmc, parseBool friend, parseBool named with
       | some bid, some nameBid, some ulevel, some over18, some uid, some bmc, some friend, some named =>
          if !(nameBid = 2 ∨ nameBid = 3 ∨ nameBid = 4) || !(bid = 2 ∨ bid = 3 ∨ bid = 4) then (st, "bad-op")
          else if bid ≠ 3 && (getBoard st bid).isNone then (st, "bad-op")
          else if friend && uid ≠ 2 then (st, "bad-op")
          else if bbs && uid ≠ 2 then (st, "bad-op")
          else
            -- board 3 is the fixture's public control board: attr 0, level 0, present in every history
            let st' := if bid = 3 then setBoard st 3 default else st
            let (_, o) := doCall bbs st' "read" entry bid nameBid { level := w ulevel, over18 := over18, uid := uid }
                            { bmUid := bmc, friend := friend, namedBM := named } (xk = "xreadb")
            (st, o)
       | _, _, _, _, _, _, _, _ => (st, "bad-op"))
  | _ => (st, "bad-op")

/-! ### accounts and moderator lists (ops users / sread / slist / resetbm / mread / mlist) -/

structure Full where
  held : List (Nat × String) := []      -- slot ↦ what the held listing showed of its board when it was made
  core : St := []
  tbl : Option UserTable := none
  bms : List (Int × List Nat) := []     -- bid ↦ moderator string of the last resetbm (while still in force)
  cache : BMCacheSt := []

def splitColon (s : String) : Option (String × String) :=
  match s.splitOn ":" with
  | [a, b] => some (a, b)
  | _ => none

def parseUsers (ws : List String) : Option UserTable :=
  let rec go : List String → UserTable → Option UserTable
    | [], acc => some acc.reverse
    | t :: ts, acc =>
      match splitColon t with
      | none => none
      | some (a, b) =>
        match parseI32 a, parseHex b with
        | some uid, some id =>
          if !uidValid uid || id.length < 2 || id.length > 12 || !isalpha (id.headD 0) || !id.all isalnum then none
          else if acc.any (fun e => e.1 == uid || caseEq e.2 id) then none
          else go ts ((uid, id) :: acc)
        | _, _ => none
  if ws.isEmpty || ws.length > 50 then none else go ws []

def bmOf (f : Full) (bid : Int) : Option (List Nat) :=
  match f.bms.find? (fun e => e.1 == bid) with
  | some e => some e.2
  | none => none

def dropMod (f : Full) (bid : Int) : Full := { f with bms := f.bms.filter (fun e => e.1 != bid) }

def showLoadedErr : String := "err:user"

def stepFull (bbs : Bool) (f : Full) (ws : List String) : Full × String :=
  match ws with
  | ["reset"] => ({}, "ok")
  | "vmulti" :: ulevel :: over18 :: toks =>
      (match parseU32 ulevel, parseBool over18 with
       | some ulevel, some over18 =>
          if !bbs || toks.isEmpty || toks.length > 8 then (f, "bad-op") else
          let u : UserView := { level := w ulevel, over18 := over18, uid := 2 }
          let r : Relation := { bmUid := false, friend := false, namedBM := false }
          let ans (t : String) : Option MultiAns :=
            let viaBoard (b : BoardView) (matches_ : Bool) : MultiAns :=
              match bbsRead false matches_ "IsBoardValidUser" { u := u, b := b, r := r, bidValid := true, precheck := false } with
              | .allow => .valid
              | .deny => .invalid
              | _ => .none
            if t = "2" || t = "4" then (getBoard f.core (if t = "2" then 2 else 4)).map (fun b => viaBoard b true)
            else if t = "3" || t = "5" then some (viaBoard default true)
            else if t = "x" then some (viaBoard default false)
            else if t = "m" || t = "c" then some (viaBoard ((getBoard f.core 2).getD default) false)
            else if t = "z" then some .none
            else none
          (match toks.mapM ans with
           | some as =>
              let f := toks.foldl (fun f t => if t = "2" then dropMod f 2 else if t = "4" then dropMod f 4 else f) f
              let show1 : MultiAns → Char := fun a => match a with | .valid => 'v' | .invalid => 'f' | .none => '-'
              (f, "res=" ++ String.ofList ((boardsValid id as).map show1))
           | none => (f, "bad-op"))
       | _, _ => (f, "bad-op"))
  | "users" :: rest =>
      (match parseUsers rest with
       | some t => ({ f with tbl := some t, bms := [], cache := [] }, "ok")
       | none => (f, "bad-op"))
  | [k, entry, spellhex, stored, o18, bid] =>
      if !((k = "sread" && readNames.contains entry) || (k = "slist" && listNames.contains entry)) then (f, "bad-op") else
      (match f.tbl, parseHex spellhex, parseU32 stored, parseBool o18, parseI32 bid with
       | some tbl, some sp, some stored, some o18, some bid =>
          if sp.length > 20 || !(bid = 2 ∨ bid = 4) || (getBoard f.core bid).isNone then (f, "bad-op") else
          let f := dropMod f bid
          let raw := toRawUserID sp
          if bbs && !userIDValid raw then (f, showLoadedErr ++ " attr=" ++ toString ((getBoard f.core bid).getD default).attr.toNat) else
          (match initCurrentUser tbl (w stored) o18 raw with
           | .noUser => (f, showLoadedErr ++ " attr=" ++ toString ((getBoard f.core bid).getD default).attr.toNat)
           | .unmodelled e => (f, "unmodelled:" ++ noSpace e)
           | .ok uid _ u =>
              let (core', o) := doCall bbs f.core (if k = "sread" then "read" else "list") entry bid bid u { bmUid := false, friend := false, namedBM := false }
              let _ := uid
              ({ f with core := core' }, o))
       | _, _, _, _, _ => (f, "bad-op"))
  | ["resetbm", bid, attr, level, bmhex] =>
      (match f.tbl, parseI32 bid, parseU32 attr, parseU32 level, parseHex bmhex with
       | some tbl, some bid, some attr, some level, some bm =>
          if !(bid = 2 ∨ bid = 4) || bm.length > 39 then (f, "bad-op") else
          let f := dropMod f bid
          ({ f with core := setBoard f.core bid { attr := w attr, level := w level },
                    bms := (bid, bm) :: f.bms,
                    cache := buildBMCache tbl f.cache bid bm }, "ok")
       | _, _, _, _, _ => (f, "bad-op"))
  | [k, entry, bid, ulevel, over18, uid, friend] =>
      if bbs || !((k = "mread" && readNames.contains entry) || (k = "mlist" && listNames.contains entry)) then (f, "bad-op") else
      (match f.tbl, parseI32 bid, parseU32 ulevel, parseBool over18, parseI32 uid, parseBool friend with
       | some tbl, some bid, some ulevel, some over18, some uid, some friend =>
          (match bmOf f bid, idOf tbl uid, getBoard f.core bid with
           | some bm, some id, some _ =>
              -- the friend-file loader skips the guest account: the fact cannot be arranged
              if friend && caseEq id [103, 117, 101, 115, 116] then (f, "bad-op") else
              let r : Relation := { bmUid := (bmCacheOf f.cache bid).contains uid, friend := friend, namedBM := isUBM id bm }
              let (core', o) := doCall bbs f.core (if k = "mread" then "read" else "list") entry bid bid
                                  { level := w ulevel, over18 := over18, uid := uid } r
              ({ f with core := core' }, o)
           | _, _, _ => (f, "bad-op"))
       | _, _, _, _, _, _ => (f, "bad-op"))
  | ["fexp", entry, bid, ulevel, over18, atLoad, now, aged] =>
      -- the friend list was loaded (reader on it or not), then the file changed, then (aged) the list expired (ptt layer)
      (match parseI32 bid, parseU32 ulevel, parseBool over18, parseBool atLoad, parseBool now, parseBool aged with
       | some bid, some ulevel, some over18, some atLoad, some now, some aged =>
          let kind := if readNames.contains entry then "read" else if listNames.contains entry then "list" else ""
          if bbs || kind = "" || !(bid = 2 ∨ bid = 4) || (getBoard f.core bid).isNone then (f, "bad-op") else
          let f := dropMod f bid
          let friend := (hbflFriend atLoad now aged).1
          let (core', o) := doCall bbs f.core kind entry bid bid { level := w ulevel, over18 := over18, uid := 2 }
                              { bmUid := false, friend := friend, namedBM := false }
          ({ f with core := core' }, o)
       | _, _, _, _, _, _ => (f, "bad-op"))
  | ["hold", slot, fn, bid, ulevel, over18, uid, bmc, friend, named] =>
      -- a list op whose returned list the caller keeps (ptt layer)
      (match parseU32 slot with
       | some k =>
          if bbs || k > 7 || !stepListings.contains fn then (f, "bad-op") else
          let (core', o) := step bbs f.core ["list", fn, bid, ulevel, over18, uid, bmc, friend, named]
          if o = "bad-op" then (f, o) else
          let f' : Full := { f with core := core' }
          let f' := match parseI32 bid with | some b => dropMod f' b | none => f'
          let shape := (o.splitOn " ").headD ""
          ({ f' with held := (k, shape) :: f'.held.filter (fun e => e.1 != k) }, o)
       | none => (f, "bad-op"))
  | ["recheck", slot] =>
      -- what the held list shows NOW: a list made by its own call is not touched by later listings
      (match parseU32 slot with
       | some k =>
          (match f.held.find? (fun e => e.1 == k) with
           | some e =>
              if bbs then (f, "bad-op")
              else if Gen.ReadEntryPoints.showBoardListFresh then (f, e.2)
              else (f, "unmodelled:showBoardList_hands_out_a_shared_list")
           | none => (f, "bad-op"))
       | none => (f, "bad-op"))
  | ["stress", n] =>
      -- concurrent listings of a plain user and the site administrator over a hidden board (bbs layer)
      (match parseU32 n with
       | some n =>
          if !bbs || n = 0 || n > 5000 || (getBoard f.core 2).isNone then (f, "bad-op")
          else if Gen.ReadEntryPoints.showBoardListFresh then (f, "ok")
          else (f, "unmodelled:showBoardList_hands_out_a_shared_list")
       | none => (f, "bad-op"))
  | _ =>
      -- the ops of the decision table; they rewrite the moderator cache and string of the board they address
      let (core', o) := step bbs f.core ws
      let f' : Full := { f with core := core' }
      match ws with
      | k :: _ :: bid :: _ =>
          if k = "read" || k = "list" || k = "nlist" || k = "xread" || k = "xreadb" then
            (match parseI32 bid with
             | some b => (if o = "bad-op" then f' else dropMod f' b, o)
             | none => (f', o))
          else (f', o)
      | _ => (f', o)

end C07Drv

def main (args : List String) : IO Unit :=
  runHandler { init := ({} : C07Drv.Full), step := C07Drv.stepFull (args.head? = some "bbs") }
