import PttVerif.DriverLoop
import PttVerif.Model.C19
open PttVerif PttVerif.C19

/-! line-protocol driver for C19 (see go/cmd/c19/main.go for the op lines) -/

def natTok (s : String) (max : Nat) : Option Nat :=
  if s.isEmpty || !s.all Char.isDigit then none else
  match s.toNat? with
  | some n => if n ≤ max then some n else none
  | none => none

/-- `<tree> := item*`, up to a closing bracket or the end of the line. -/
partial def parseItems (ts : List String) : Option (List Item × List String) :=
  match ts with
  | [] => some ([], [])
  | "]" :: _ => some ([], ts)
  | "B" :: a :: b :: l :: ba :: rest => do
      let a ← natTok a 255
      let b ← natTok b 2147483647
      let l ← natTok l 4294967295
      let ba ← natTok ba 255
      let (its, r) ← parseItems rest
      pure (.board a b l ba :: its, r)
  | "L" :: a :: l :: rest => do
      let a ← natTok a 255
      let l ← natTok l 255
      let (its, r) ← parseItems rest
      pure (.line a l :: its, r)
  | "F" :: a :: f :: t :: "[" :: rest => do
      let a ← natTok a 255
      let f ← natTok f 255
      let t ← parseHex t
      if t.length > TITLE_LEN then none
      let (sub, r) ← parseItems rest
      match r with
      | "]" :: r' =>
          let (its, r'') ← parseItems r'
          pure (.folder a f (copyInto TITLE_LEN t) 0 0 0 sub :: its, r'')
      | _ => none
  | _ => none

def parseTree (ts : List String) : Option (List Item) :=
  match parseItems ts with
  | some (its, []) => some its
  | _ => none

def levelStr (nB nL nF : Nat) (items : List Item) (ds : List String) : String :=
  s!"({nB},{nL},{nF},{cntL items % 256},{cntF items % 256},{favNum items}:" ++ ";".intercalate ds ++ ")"

def dumpItems : List Item → List String
  | [] => []
  | .board a bid lv ba :: rest => s!"B{a}.{bid}.{lv}.{ba}" :: dumpItems rest
  | .line a lid :: rest => s!"L{a}.{lid}" :: dumpItems rest
  | .folder a fid t nB nL nF sub :: rest =>
      (s!"F{a}.{fid}.{toHex t}" ++ levelStr nB nL nF sub (dumpItems sub)) :: dumpItems rest

def dumpFav (f : Fav) : String := levelStr f.nB f.nL f.nF f.items (dumpItems f.items)

def collapse : List String → List String
  | a :: b :: rest => if a = b then collapse (b :: rest) else a :: collapse (b :: rest)
  | l => l

def shapeOf (steps : List Step) : String := ",".intercalate (collapse (steps.map stepShape))

def rtOut (spec : List Item) (counters : Option (Nat × Nat × Nat) := none) (viaGet : Bool := false) : String :=
  match buildItems [] spec emptyFav with
  | .dup => "api-dup"
  | .reject => "api-reject"
  | .built f0 =>
    let f := match counters with
      | some (a, b, c) => { f0 with nB := a, nL := b, nF := c }
      | none => f0
    match saveBytes f with
    | .error e => toString e
    | .ok bytes0 =>
      -- wgt: the bytes travel through GetFavorites (retrieveTS 0, any positive mtime) before they are loaded
      let bytes := if viaGet then ((getFavorites (some (bytes0, 1)) 0).1).getD [] else bytes0
      match load bytes with
      | .error e => toString e
      | .ok none => s!"err {toHex bytes} -"
      | .ok (some g) => s!"ok {toHex bytes} {dumpFav g}"

def fav4Out (bs : List Nat) : String :=
  match fav4Migrate bs with
  | .error e => toString e
  | .ok none => "err"
  | .ok (some b) =>
    match load b with
    | .error e => toString e
    | .ok none => s!"ok {toHex b} err"
    | .ok (some g) => s!"ok {toHex b} {dumpFav g}"

def isSyscall (s : String) : Bool := s = "write" || s = "openat" || s = "renameat"

def stepC19 (_ : Unit) (ws : List String) : Unit × String :=
  let out := match ws with
    | "rt" :: ts => match parseTree ts with
        | some spec => rtOut spec
        | none => "bad-op"
    | "rtp" :: a :: b :: c :: ts =>
        match natTok a 65535, natTok b 255, natTok c 255, parseTree ts with
        | some a, some b, some c, some spec => rtOut spec (some (a, b, c))
        | _, _, _, _ => "bad-op"
    | ["load", h] => match parseHex h with
        | some bs => match load bs with
            | .error e => toString e
            | .ok none => "err"
            | .ok (some f) => dumpFav f
        | none => "bad-op"
    | ["mt", fm, mm] =>
        let fileM : Option (Option Nat) := if fm = "none" then some none else (natTok fm 2147483646).map some
        match fileM, natTok mm 2147483647 with
        | some fileM, some memM => match checkIsToSave fileM memM with
            | .write => "write"
            | .keepSelf => "keepSelf"
            | .reload => "reload"
        | _, _ => "bad-op"
    | "trace" :: "save" :: ts => match parseTree ts with
        | some spec => match buildItems [] spec emptyFav with
            | .built f => match saveBytes f with
                | .ok b => shapeOf (atomicSteps ".fav.tmp" [b])
                | .error e => toString e
            | _ => "child-failed"
        | none => "bad-op"
    | ["trace", "wf", h] => match parseHex h with
        | some b => if b.isEmpty then "bad-op" else shapeOf (atomicSteps ".fav.tmp" [b])
        | none => "bad-op"
    | "crash" :: "save" :: sc :: k :: old :: ts =>
        match natTok k 100000, parseTree ts with
        | some k, some spec =>
          if !isSyscall sc || k = 0 || (old ≠ "none" && (parseHex old).isNone) then "bad-op" else
          match buildItems [] spec emptyFav with
          | .built _ => "old-or-new"
          | _ => "bad-op"
        | _, _ => "bad-op"
    | ["crash", "wf", sc, k, old, new] =>
        match natTok k 100000, parseHex new with
        | some k, some nb =>
          if !isSyscall sc || k = 0 || nb.isEmpty || (old ≠ "none" && (parseHex old).isNone) then "bad-op"
          else "old-or-new"
        | _, _ => "bad-op"
    | "wgt" :: ts => match parseTree ts with
        | some spec => rtOut spec none true
        | none => "bad-op"
    | ["wg", ts, h] =>
        let content : Option (Option (List Nat)) := if h = "none" then some none else (parseHex h).map some
        match natTok ts 2147483647, content with
        | some ts, some c =>
            match getFavorites (c.map fun bs => (bs, 1000000100)) ts with
            | (none, m) => s!"nil {m}"
            | (some bs, m) => s!"{toHex bs} {m}"
        | _, _ => "bad-op"
    | "efbig" :: "save" :: lim :: old :: ts =>
        match natTok lim 1073741824, parseTree ts with
        | some lim, some spec =>
          if old ≠ "none" && (parseHex old).isNone then "bad-op" else
          match buildItems [] spec emptyFav with
          | .built f => match saveBytes f with
              | .ok b => match efbigOutcome lim b.length with
                  | .ok => "ok new"
                  | .err => if old = toHex b then "err new" else "err old"
              | .error _ => "bad-op"
          | _ => "bad-op"
        | _, _ => "bad-op"
    | ["efbig", "wf", lim, old, new] =>
        match natTok lim 1073741824, parseHex new with
        | some lim, some nb =>
          if nb.isEmpty || (old ≠ "none" && (parseHex old).isNone) then "bad-op" else
          match efbigOutcome lim nb.length with
          | .ok => "ok new"
          | .err => if old = toHex nb then "err new" else "err old"
        | _, _ => "bad-op"
    | ["fav4", h] => match parseHex h with
        | some bs => fav4Out bs
        | none => "bad-op"
    | "fav4t" :: ts => match parseTree ts with
        | some spec => fav4Out (hdr (cntB spec % 65536) (cntL spec % 256) (cntF spec % 256) ++ encEntries spec)
        | none => "bad-op"
    | ["conc", nw, ms, sd] =>
        match natTok nw 64, natTok ms 60000, natTok sd 4294967295 with
        | some nw, some ms, some _ => if nw = 0 || ms = 0 then "bad-op" else "whole"
        | _, _, _ => "bad-op"
    | _ => "bad-op"
  ((), out)

def main : IO Unit := runHandler { init := (), step := stepC19 }
