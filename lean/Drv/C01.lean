import PttVerif.DriverLoop
import PttVerif.Model.C01Cfg
open PttVerif PttVerif.C01

/-
C01 driver.  One binary for both build configurations (the Gen data of both is linked in); the first
argument of every op selects it.

  size    <cfg> <Type>                          aligned=<n> packed=<n> align=<n>
  const   <cfg> <NAME>                          <n>
  field   <cfg> <Type> <i>                      <name> aligned=<off> packed=<off> asize=<n> psize=<n> | none
  probe   <cfg> <fn>                            stride=<n|-> offs=<off>+<size>,...   (distinct, sorted)
  upd     <cfg> <fn> <uid> <val> <file>         <file'> | ERR
  updrec  <cfg> <uid> <record> <file>           <file'> | ERR      (cmbbs.PasswdUpdate)
  offconst <cfg> <NAME>                         <Type>.<Field>=<n> | none   (constants defined as unsafe.Offsetof)
  qry     <cfg> <fn> <uid> <file>               <val> | ERR
  qryrec  <cfg> <uid> <file>                    <record> | ERR
  lvl2    <cfg> <ver> <perm> <0|1> <ts> <file|absent>   <file'> | ERR
  getlvl2 <cfg> <file>                          <val> | ERR
  hist    <cfg> <file> <step>...               <K|E per step> <.PASSWDS'> <.post'>
            steps: F[:...] failed write | U:<fn>:<uid>:<val> | R:<uid>:<record> | A:<postlog record>
  newbrd  <cfg> <bid> <record> <.BRD before>     <.BRD after> | ERR   (ptt.NewBoard; bid and record are observed)
  favfile <cfg> <ver> <n> <lastvisit> <attr> <k>  the .fav FavRaw.Save writes for boards 1..n | ERR
  xread   <cfg> <Type> <i> <image>              <val> | ERR      (decode with encoding/binary)
  xover   <cfg> <Type> <i> <image>              <val> | ERR      (struct overlaid on the bytes)
  xwrite  <cfg> <Type> <i> <val> <total>        <image> | ERR    (types.BinWrite of a zero struct with field i set)
-/

def showOpt (o : Option (List Nat)) : String :=
  match o with
  | some b => toHex b
  | none => "ERR"

def insertSorted (x : Nat × Nat) : List (Nat × Nat) → List (Nat × Nat)
  | [] => [x]
  | y :: r =>
    if x = y then y :: r
    else if x.1 < y.1 ∨ (x.1 = y.1 ∧ x.2 < y.2) then x :: y :: r
    else y :: insertSorted x r

def showOffs (l : List (Nat × Nat)) : String :=
  let s := l.foldl (fun acc x => insertSorted x acc) []
  if s.isEmpty then "-" else ",".intercalate (s.map fun (o, n) => s!"{o}+{n}")

def parseInt (s : String) : Option Int :=
  if s.startsWith "-" then (s.drop 1).toNat?.map (fun n => - (n : Int)) else s.toNat?.map Int.ofNat

def parseStep (tok : String) : Option HStep :=
  match tok.splitOn ":" with
  | "F" :: _ => some .fail
  | ["U", fn, uid, val] =>
    match parseInt uid, parseHex val with
    | some u, some v => some (.upd fn u v)
    | _, _ => none
  | ["R", uid, r] =>
    match parseInt uid, parseHex r with
    | some u, some v => some (.whole u v)
    | _, _ => none
  | ["A", r] => (parseHex r).map .app
  | _ => none

def parseSteps : List String → Option (List HStep)
  | [] => some []
  | t :: r => do
      let s ← parseStep t
      let rest ← parseSteps r
      pure (s :: rest)

def stepC01 (_ : Unit) (ws : List String) : Unit × String :=
  let out : String := match ws with
    | op :: cfgName :: rest =>
      match cfgByName cfgName with
      | none => "bad-op"
      | some c =>
        match op, rest with
        | "size", [ty] =>
          match c.ty ty with
          | some t => s!"aligned={sizeA t} packed={sizeP t} align={alignOf t}"
          | none => "none"
        | "const", [n] =>
          match c.const n with
          | some v => toString v
          | none => "none"
        | "field", [ty, i] =>
          match c.ty ty, i.toNat? with
          | some t, some i =>
            match t.aligned[i]?, t.packed[i]? with
            | some (n, oa, sa), some (_, op, sp) => s!"{n} aligned={oa} packed={op} asize={sa} psize={sp}"
            | _, _ => "none"
          | none, some _ => "none"
          | _, none => "bad-op"
        | "probe", [fn] =>
          match c.seek fn with
          | some sk =>
            let st := match sk.stride with
              | some v => toString v
              | none => "-"
            s!"stride={st} offs={showOffs sk.offs}"
          | none => "none"
        | "upd", [fn, uid, val, file] =>
          match parseInt uid, parseHex val, parseHex file with
          | some u, some v, some f => showOpt (passwdWrite c fn f u v)
          | _, _, _ => "bad-op"
        | "updrec", [uid, r, file] =>
          match parseInt uid, parseHex r, parseHex file with
          | some u, some v, some f => showOpt (passwdUpdate c f u v)
          | _, _, _ => "bad-op"
        | "offconst", [n] =>
          match c.offsetConsts.lookup n with
          | some (ty, fld, v) => s!"{ty}.{fld}={v}"
          | none => "none"
        | "hist", file :: steps =>
          match parseHex file, parseSteps steps with
          | some f, some hs =>
            let (oks, s) := runHist c ⟨f, []⟩ hs
            let st := String.ofList (oks.map fun b => if b then 'K' else 'E')
            s!"{if st.isEmpty then "-" else st} {toHex s.passwd} {toHex s.post}"
          | _, _ => "bad-op"
        | "newbrd", [bid, r, before] =>
          match bid.toNat?, parseHex r, parseHex before with
          | some b, some rr, some f => showOpt (brdNew c f b rr)
          | _, _, _ => "bad-op"
        | "favfile", [ver, n, lv, attr, k] =>
          -- k = how many users save at the same time: the image does not depend on it
          match ver.toNat?, n.toNat?, lv.toNat?, attr.toNat?, k.toNat? with
          | some v, some n, some l, some a, some _ => showOpt (favFile c v n l a)
          | _, _, _, _, _ => "bad-op"
        | "qry", [fn, uid, file] =>
          match parseInt uid, parseHex file with
          | some u, some f => showOpt (passwdRead c fn f u)
          | _, _ => "bad-op"
        | "qryrec", [uid, file] =>
          match parseInt uid, parseHex file with
          | some u, some f => showOpt (passwdQuery c f u)
          | _, _ => "bad-op"
        | "lvl2", [ver, perm, isSet, ts, file] =>
          let fo : Option (Option (List Nat)) := if file = "absent" then some none else (parseHex file).map some
          match ver.toNat?, perm.toNat?, isSet, ts.toNat?, fo with
          | some v, some p, "0", some t, some f => showOpt (updateUserLevel2 c v f p false t)
          | some v, some p, "1", some t, some f => showOpt (updateUserLevel2 c v f p true t)
          | _, _, _, _, _ => "bad-op"
        | "getlvl2", [file] =>
          match parseHex file with
          | some f => showOpt (getUserLevel2 c f)
          | none => "bad-op"
        | "xread", [ty, i, img] =>
          match c.ty ty, i.toNat?, parseHex img with
          | some t, some i, some b => showOpt (readFieldPacked t i b)
          | _, _, _ => "bad-op"
        | "xover", [ty, i, img] =>
          match c.ty ty, i.toNat?, parseHex img with
          | some t, some i, some b => showOpt (readFieldAligned t i b)
          | _, _, _ => "bad-op"
        | "multi", [kind, pre, v] =>
          match parseHex pre, parseInt v with
          | some pre, some v =>
            if (kind ≠ "money" && kind ≠ "anon") || pre.length ≠ 4 || v < -2147483648 || v > 2147483647 then "bad-op"
            else
              let m := setMulti pre v
              s!"{toHex m} get={getMulti m}"
          | _, _ => "bad-op"
        | "xwrite", [ty, i, val, total] =>
          match c.ty ty, i.toNat?, parseHex val, total.toNat? with
          | some t, some i, some v, some n => showOpt (writeFieldPacked t i v n)
          | _, _, _, _ => "bad-op"
        | _, _ => "bad-op"
    | _ => "bad-op"
  ((), out)

def main : IO Unit := runHandler { init := (), step := stepC01 }
