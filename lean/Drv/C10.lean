import PttVerif.DriverLoop
import PttVerif.Model.C10
import PttVerif.Gen.PttConfig
open PttVerif PttVerif.C05 PttVerif.C10

/-
ops (one history = everything since the last `reset`), see go/cmd/c10/main.go:
  reset <attr> <old:0|1> <smart:0|1> <autofile:hex> <dir:hex>
  file <name:hex> <hex|absent>
  comment <ptt|bbs> <sysop|user> <userid:hex13> <reqname:hex28> <type:0..255> <text:hex> <ip:hex16> <mtime>
  fcomment <room:0..40> <comment arguments>   the same comment when only <room> more bytes fit into the article
  begin <id> <inproc|foreign> <comment arguments>   phase A of a commenter that then waits on the article's lock ("started")
  append <name:hex> <bytes:hex>    the lock holder (another process) appends to the article
  finish <id>                      its phase B, on whatever the index and the article hold by now
  expire <id>                      the lock is kept beyond its five attempts: the lock error, nothing changes
  par <rounds> <type> <text:hex> <mtime>   <rounds> comments on every entry (concurrent in the implementation)
  redir <dir:hex>                  the board index is rewritten by another tool
  zone <location>                  configured TIME_LOCATION (no effect on the model: the time is a parameter)
  mark <type>
  dump
-/

structure DSt where
  have_ : Bool
  cfg : Cfg
  st : St
  /-- commenters between phase A and phase B: id, the article they hold (if the lookup finds one), their ticket -/
  tickets : List (String × Option Bytes × Except Res Ticket) := []
  /-- what the deployment's configuration sets (sticky, as viper overrides are) -/
  viper : List (String × Bool) := []

def fnvAdd (h : UInt64) (bs : List Nat) : UInt64 :=
  bs.foldl (fun h b => (h ^^^ b.toUInt64) * 1099511628211) h

def fnvInit : UInt64 := 14695981039346656037

def hex64 (h : UInt64) : String := String.ofList (Nat.toDigits 16 h.toNat)

def digest (bs : List Nat) : String := s!"{bs.length}:{hex64 (fnvAdd fnvInit bs)}"

def filesDigest (fs : List (Bytes × Bytes)) : String :=
  let h := fs.foldl (fun h e =>
    let l := e.2.length
    fnvAdd (fnvAdd (fnvAdd (fnvAdd h e.1) [0]) [l % 256, l / 256 % 256, l / 65536 % 256, l / 16777216 % 256]) e.2) fnvInit
  s!"{fs.length}:{hex64 h}"

def stateStr (st : St) : String := s!"dir={digest st.dir.bytes} files={filesDigest st.files}"

def digitsOnly (s : String) : Bool := !s.isEmpty && s.all Char.isDigit

def parseNatMax (s : String) (max : Nat) : Option Nat :=
  if digitsOnly s && s.length ≤ 10 then
    match s.toNat? with
    | some n => if n ≤ max then some n else none
    | none => none
  else none

def parseBit : String → Option Bool
  | "0" => some false
  | "1" => some true
  | _ => none

/-- the harness's hex reader: `-` is empty, otherwise an even, non-zero number of hex digits. -/
def parseHexStrict (s : String) : Option (List Nat) :=
  if s.isEmpty then none else parseHex s

def isUpper (c : Nat) : Bool := 65 ≤ c && c ≤ 90
def isSafeChar (c : Nat) : Bool := isUpper c || (97 ≤ c && c ≤ 122) || (48 ≤ c && c ≤ 57) || c == 46

def safeName (n : Bytes) : Bool :=
  3 ≤ n.length && n.length ≤ Gen.RecFile.lenFilename && isUpper (n.getD 0 0) && n.getD 1 0 == 46 && n.all isSafeChar

/-- bytewise lexicographic `<` (Go's string order). -/
def bytesLt : Bytes → Bytes → Bool
  | [], [] => false
  | [], _ :: _ => true
  | _ :: _, [] => false
  | a :: as, b :: bs => if a < b then true else if b < a then false else bytesLt as bs

def insertFile (fs : List (Bytes × Bytes)) (n c : Bytes) : List (Bytes × Bytes) :=
  match fs with
  | [] => [(n, c)]
  | e :: rest =>
    if e.1 = n then (n, c) :: rest
    else if bytesLt n e.1 then (n, c) :: e :: rest
    else e :: insertFile rest n c

/-- article files created by `reset`: one per distinct safe entry name among the complete entries. -/
def autoFiles (auto : Bytes) : Bytes → Nat → List (Bytes × Bytes) → List (Bytes × Bytes)
  | _, 0, acc => acc
  | rest, fuel + 1, acc =>
    let n := cstr (rest.take Gen.RecFile.lenFilename)
    let acc := if safeName n && (fileGet acc n).isNone then insertFile acc n auto else acc
    autoFiles auto (rest.drop dirSz) fuel acc

def attrAllowed : Nat :=
  Gen.Comment.BRD_NORECOMMEND ||| Gen.Comment.BRD_IPLOGRECMD ||| Gen.Comment.BRD_ALIGNEDCMT ||| Gen.Comment.BRD_NOBOO

def sysopID : Bytes := [83, 89, 83, 79, 80, 0, 0, 0, 0, 0, 0, 0, 0]

/-- `[MG].[01]ddddddddd.A.XXX` followed by NULs -/
def canonName (req : Bytes) : Bool :=
  let n := cstr req
  let hexU (c : Nat) : Bool := (48 ≤ c && c ≤ 57) || (65 ≤ c && c ≤ 70)
  n.length == 18 && (n.getD 0 0 == 77 || n.getD 0 0 == 71) && n.getD 1 0 == 46 &&
  (n.getD 2 0 == 48 || n.getD 2 0 == 49) && ((n.drop 3).take 9).all isDigit &&
  n.getD 12 0 == 46 && n.getD 13 0 == 65 && n.getD 14 0 == 46 && (n.drop 15).all hexU &&
  (req.drop 18).all (· == 0)

def timeToken : Bytes := [48, 48, 47, 48, 48, 32, 48, 48, 58, 48, 48]   -- "00/00 00:00"

def showRes : Res → String
  | .ok _ _ => "ok"
  | .refused => "refused"
  | .params => "err:params"
  | .badText => "err:params"
  | .badName => "err:name"
  | .notFound => "err:notfound"
  | .noFile => "err:nofile"
  | .lockErr => "err:lock"
  | .writeErr => "err:write"
  | .idxErr => "err:idx"
  | .osErr => "err:os"

/-- the arguments of `comment` / `begin`. -/
def parseComment (via lvl user req ct text ip mt : String) : Option Req :=
  match parseHexStrict user, parseHexStrict req, parseNatMax ct 255, parseHexStrict text, parseHexStrict ip,
        parseNatMax mt 2147483647 with
  | some user, some req, some ct, some text, some ip, some mt =>
    if user.length ≠ Gen.Comment.IDLEN + 1 || req.length ≠ Gen.RecFile.lenFilename || ip.length ≠ Gen.Comment.IPV4LEN + 1
        || mt = 0 || text.length > 4096 || (via ≠ "ptt" && via ≠ "bbs" && via ≠ "api") || (lvl ≠ "sysop" && lvl ≠ "user")
        || (cstr user).isEmpty then none
    else if (via = "bbs" || via = "api") && (lvl ≠ "sysop" || user ≠ sysopID || !canonName req) then none
    else some { user, name := req, ctype := ct, text, ip, time := timeToken, mtime := (mt : Int) }
  | _, _, _, _, _, _ => none

def showOutcome (st : St) (res : Res) : String :=
  match res with
  | .ok line idx =>
    s!"ok line={toHex line} rec={idx}:{toHex (record st.dir.bytes dirSz (idx - 1))} mt=ok {stateStr st}"
  | r => showRes r ++ " " ++ stateStr st

def ticketId (s : String) : Bool :=
  !s.isEmpty && s.length ≤ 8 && s.all (fun c => c.isDigit || c.isLower)

/-- the entries a `par` op addresses: the names of all complete entries; `none` unless every one is a safe name
with an article file and the names differ from the third byte on. -/
def parNames (st : St) : Option (List Bytes) :=
  let total := st.dir.bytes.length / dirSz
  let names := (List.range total).map (fun k => (record st.dir.bytes dirSz k).take Gen.RecFile.lenFilename)
  let okOne (n : Bytes) : Bool := safeName (cstr n) && (fileGet st.files (cstr n)).isSome
  let keys := names.map (fun n => (cstr n).drop 2)
  if total = 0 || total > 64 || !names.all okOne || !keys.Pairwise (· ≠ ·) then none else some names

/-- `rounds` comments on each entry, entry after entry: comments on different articles touch different files
and different index entries, so any order gives the same state. -/
def parRun (cfg : Cfg) (st : St) (names : List Bytes) (rounds ctype : Nat) (text : Bytes) (mtime : Int) : St × Nat :=
  names.foldl (fun (acc : St × Nat) n =>
    (List.range rounds).foldl (fun (acc : St × Nat) _ =>
      let q : Req := { user := [65, 49, 0, 0, 0, 0, 0, 0, 0, 0, 0, 0, 0], name := n, ctype := ctype, text := text,
                       ip := [49, 48, 46, 57, 46, 56, 46, 55, 0, 0, 0, 0, 0, 0, 0, 0], time := timeToken, mtime := mtime }
      let (st', res) := recommend findLinear cfg acc.1 q
      (st', acc.2 + (match res with | .ok _ _ => 1 | _ => 0))) acc) (st, 0)

/-- the configuration keys the harness sets (bool switches of ptttype/config.go that the harness itself does not depend on). -/
def confKeys : List String := ["OLDRECOMMEND", "EDITPOST_SMARTMERGE", "GUESTRECOMMEND", "PLAY_ANGEL", "USE_AUTOCPLOG",
  "DEFAULT_AUTOCPLOG", "NOKILLWATERBALL", "ALL_REEDIT_LOG", "MULTI_WELCOME_LOGIN", "BMCHS", "USE_EDIT_HISTORY", "USE_COMMENTD"]

def stepC10 (d : DSt) (ws : List String) : DSt × String :=
  match ws with
  | ["reset", a, o, s, auto, dir] =>
    match parseNatMax a 4294967295, parseBit o, parseBit s, parseHexStrict auto, parseHexStrict dir with
    | some attr, some old, some smart, some auto, some dir =>
      if attr ||| attrAllowed ≠ attrAllowed || dir.length > 1048576 || !d.tickets.isEmpty then (d, "bad-op")
      else
        let st : St := { dir := ⟨true, dir⟩, files := autoFiles auto dir (dir.length / dirSz) [] }
        ({ d with have_ := true, cfg := { attr, oldRecommend := old, smartMerge := smart }, st, tickets := [] }, "ok " ++ stateStr st)
    | _, _, _, _, _ => (d, "bad-op")
  | ["file", n, c] =>
    if !d.have_ || !d.tickets.isEmpty then (d, "bad-op") else
    match parseHexStrict n with
    | some n =>
      if !safeName n then (d, "bad-op")
      else if c = "absent" then
        let st := { d.st with files := d.st.files.filter (fun e => e.1 ≠ n) }
        ({ d with st }, "ok " ++ stateStr st)
      else match parseHexStrict c with
        | some c =>
          let st := { d.st with files := insertFile d.st.files n c }
          ({ d with st }, "ok " ++ stateStr st)
        | none => (d, "bad-op")
    | none => (d, "bad-op")
  | ["mark", t] =>
    match parseNatMax t 255 with
    | some t => (d, toHex (typeBytes t))
    | none => (d, "bad-op")
  | ["dump"] =>
    if !d.have_ then (d, "bad-op") else
    (d, d.st.files.foldl (fun acc e => acc ++ " " ++ toHex e.1 ++ "=" ++ toHex e.2) ("dir=" ++ toHex d.st.dir.bytes))
  | ["comment", via, lvl, user, req, ct, text, ip, mt] =>
    if !d.have_ then (d, "bad-op") else
    match parseComment via lvl user req ct text ip mt with
    | none => (d, "bad-op")
    | some q =>
      let (st, res) := if via = "api" then apiRecommend findLinear d.cfg d.st q else recommend findLinear d.cfg d.st q
      ({ d with st }, showOutcome st res)
  | ["fcomment", room, via, lvl, user, req, ct, text, ip, mt] =>
    if !d.have_ || !d.tickets.isEmpty then (d, "bad-op") else
    match parseNatMax room 40, (if via = "api" then none else parseComment via lvl user req ct text ip mt) with
    | some room, some q =>
      let (st, res) := recommendFault findLinear d.cfg d.st q room
      ({ d with st }, showOutcome st res)
    | _, _ => (d, "bad-op")
  | ["begin", id, holder, via, lvl, user, req, ct, text, ip, mt] =>
    if !d.have_ || (holder ≠ "inproc" && holder ≠ "foreign") then (d, "bad-op") else
    match parseComment via lvl user req ct text ip mt with
    | none => (d, "bad-op")
    | some q =>
      let target := (findLinear d.st.dir.bytes (d.st.dir.bytes.length / dirSz) q.name).map
        (fun k => cstr ((record d.st.dir.bytes dirSz k).take Gen.RecFile.lenFilename))
      if via = "api" || !ticketId id || d.tickets.any (fun e => e.1 == id) || d.tickets.length ≥ 8
          || (target.isSome && d.tickets.any (fun e => e.2.1 == target)) then (d, "bad-op")
      else ({ d with tickets := d.tickets ++ [(id, target, phaseA findLinear d.cfg d.st q)] }, "started")
  | ["par", rounds, ct, text, mt] =>
    if !d.have_ || !d.tickets.isEmpty then (d, "bad-op") else
    match parseNatMax rounds 50, parseNatMax ct 255, parseHexStrict text, parseNatMax mt 2147483647, parNames d.st with
    | some rounds, some ct, some text, some mt, some names =>
      if rounds = 0 || mt = 0 || text.length > 4096 then (d, "bad-op")
      else
        let (st, nok) := parRun d.cfg d.st names rounds ct text (mt : Int)
        ({ d with st }, s!"ok accepted={nok} {stateStr st}")
    | _, _, _, _, _ => (d, "bad-op")
  | ["stamp", days] =>
    match parseNatMax days 400 with
    | some _ => (d, "ok")     -- the stamp of another time: no effect on the board (the time of a line is a parameter)
    | none => (d, "bad-op")
  | ["conf", k, v] =>
    -- the deployment sets [go-pttbbs:ptttype] K = v, then ptttype.InitConfig runs (the lines of config() are regenerated)
    if !d.tickets.isEmpty || !confKeys.contains k then (d, "bad-op") else
    match parseBit v with
    | some b =>
      let viper := setKey d.viper k b
      let cfg := applyConfig Gen.PttConfig.configLines viper d.cfg
      ({ d with viper, cfg }, s!"ok old={if cfg.oldRecommend then 1 else 0} smart={if cfg.smartMerge then 1 else 0}")
    | none => (d, "bad-op")
  | ["zone", z] =>
    -- the time part of a line is a parameter of the model (masked on the implementation side after it was judged)
    if !d.tickets.isEmpty || !(["Asia/Taipei", "UTC", "America/New_York", "Pacific/Kiritimati", "Asia/Kathmandu"].contains z)
    then (d, "bad-op") else (d, "ok")
  | ["redir", dir] =>
    if !d.have_ then (d, "bad-op") else
    match parseHexStrict dir with
    | some dir =>
      if dir.length > 1048576 then (d, "bad-op")
      else
        let st := { d.st with dir := ⟨true, dir⟩ }
        ({ d with st }, "ok " ++ stateStr st)
    | none => (d, "bad-op")
  | ["append", n, bs] =>
    if !d.have_ then (d, "bad-op") else
    match parseHexStrict n, parseHexStrict bs with
    | some n, some bs =>
      if !safeName n || bs.isEmpty || bs.length > 4096 || (fileGet d.st.files n).isNone then (d, "bad-op")
      else
        let st := extAppend d.st n bs
        ({ d with st }, "ok " ++ stateStr st)
    | _, _ => (d, "bad-op")
  | ["expire", id] =>
    if !d.have_ then (d, "bad-op") else
    match d.tickets.find? (fun e => e.1 == id) with
    | none => (d, "bad-op")
    | some e =>
      let tickets := d.tickets.filter (fun e => e.1 != id)
      -- the lock is never obtained: every attempt of doAddRecommend fails, nothing is written
      let r : Res := match e.2.2 with
        | .error r => r
        | .ok t => if (fileGet d.st.files (cstr (field t.copy Gen.RecFile.offFilename Gen.RecFile.lenFilename))).isNone then .noFile else .lockErr
      ({ d with tickets }, showOutcome d.st r)
  | ["finish", id] =>
    if !d.have_ then (d, "bad-op") else
    match d.tickets.find? (fun e => e.1 == id) with
    | none => (d, "bad-op")
    | some e =>
      let tickets := d.tickets.filter (fun e => e.1 != id)
      match e.2.2 with
      | .error r => ({ d with tickets }, showOutcome d.st r)
      | .ok t =>
        let (st, res) := phaseB d.st t
        ({ d with st, tickets }, showOutcome st res)
  | _ => (d, "bad-op")

def main : IO Unit :=
  runHandler { init := { have_ := false, cfg := { attr := 0, oldRecommend := false, smartMerge := false },
                         st := { dir := FS.absent, files := [] } },
               step := stepC10 }
