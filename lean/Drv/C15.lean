import PttVerif.DriverLoop
import PttVerif.Model.C15
open PttVerif PttVerif.C15

def parseNats15 (s : String) : Option (List Nat) :=
  if s = "-" then some [] else (s.splitOn ",").mapM (·.toNat?)

/-- op: reg <cap> <taken: code per slot, 0 = empty> <ids: code per thread> <schedule: t,t,...>
Whether the lookup is repeated under the lock is what the regenerated source facts say. -/
def stepC15 (_ : Unit) (ws : List String) : Unit × String :=
  let out := match ws with
    | ["reg", cap, tk, ids, sc] =>
        match cap.toNat?, parseNats15 tk, parseNats15 ids, parseNats15 sc with
        | some c, some taken, some idl, some sched =>
            if sched.all (· < idl.length) && idl.all (· ≠ 0) then
              runSchedule c taken idl sourceChecksUnderLock sched
            else "bad-op"
        | _, _, _, _ => "bad-op"
    | ["peer", _] => "excluded"   -- mutual exclusion is a theorem (Props.mutual_exclusion); judged on the real code by the oracle
    | ["facts"] => s!"checkUnderLock={sourceChecksUnderLock} wellFormed={wellFormedCalls Gen.Reg.setupNewUserCalls}"
    | _ => "bad-op"
  ((), out)

def main : IO Unit := runHandler { init := (), step := stepC15 }
