import PttVerif.DriverLoop
import PttVerif.Model.C15
open PttVerif PttVerif.C15

def parseNats15 (s : String) : Option (List Nat) :=
  if s = "-" then some [] else (s.splitOn ",").mapM (·.toNat?)

/-- op: regp <cap> <taken> <ids> <procs: process per thread> <schedule: elements, see Model `decodeEv`>
op: reg <cap> <taken: code per slot, 0 = empty> <ids: code per thread> <schedule: t,t,...>
Whether the lookup is repeated under the lock is what the regenerated source facts say. -/
def stepC15 (_ : Unit) (ws : List String) : Unit × String :=
  -- `nregp` / `nregx`: the same histories driven through ptt.NewRegister (the model is the same)
  let ws := match ws with
    | "nregp" :: r => "regp" :: r
    | "nregx" :: r => "regx" :: r
    | "rregp" :: r => "regp" :: r      -- … through ptt.Register
    | "rregx" :: r => "regx" :: r
    | _ => ws
  let out := match ws with
    | ["reg", cap, tk, ids, sc] =>
        match cap.toNat?, parseNats15 tk, parseNats15 ids, parseNats15 sc with
        | some c, some taken, some idl, some sched =>
            if sched.all (· < idl.length) && idl.all (· ≠ 0) then
              runSchedule c taken idl sourceChecksUnderLock sched
            else "bad-op"
        | _, _, _, _ => "bad-op"
    | ["regp", cap, tk, ids, pr, sc] =>
        -- threads in server processes: `pr` = process of every thread (no effect on the model: Props.stepP_ignores_proc)
        match cap.toNat?, parseNats15 tk, parseNats15 ids, parseNats15 pr, parseNats15 sc with
        | some c, some taken, some idl, some procs, some sched =>
            if procs.length == idl.length && idl.all (· ≠ 0) &&
               sched.all (fun e => if e < 50 then e < idl.length else if e < 100 then e - 50 < idl.length else true) then
              runScheduleP c taken idl sourceChecksUnderLock sched
            else "bad-op"
        | _, _, _, _, _ => "bad-op"
    | ["regx", cap, tk, ids, pr, vs, sc] =>
        -- expiry family: the table is full, slot `vs` (0-based) holds an account the clean-up before the lock tears
        -- down; whether that clean-up writes the index is what the regenerated source facts say
        match cap.toNat?, parseNats15 tk, parseNats15 ids, parseNats15 pr, vs.toNat?, parseNats15 sc with
        | some c, some taken, some idl, some procs, some v, some sched =>
            if procs.length == idl.length && idl.all (· ≠ 0) && v < c &&
               sched.all (fun e => if e < 50 then e < idl.length else if e < 100 then e - 50 < idl.length else true) then
              runScheduleX c taken idl sourceChecksUnderLock sourceCleanWritesIndex v sched
            else "bad-op"
        | _, _, _, _, _, _ => "bad-op"
    | ["exited", _] => "sem=1"     -- server processes holding no lock exit: the semaphore stays free (SEM_UNDO counts balance); judged by the oracle
    | ["peer", _] => "excluded"   -- mutual exclusion is a theorem (Props.mutual_exclusion); judged on the real code by the oracle
    | ["facts"] => s!"checkUnderLock={sourceChecksUnderLock} wellFormed={wellFormedCalls Gen.Reg.setupNewUserCalls} cleanWritesIndex={sourceCleanWritesIndex}"
    | _ => "bad-op"
  ((), out)

def main : IO Unit := runHandler { init := (), step := stepC15 }
