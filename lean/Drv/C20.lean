import PttVerif.DriverLoop
import PttVerif.Model.C20
open PttVerif PttVerif.C20

/-
ops:
  layout
  reset <nrec|nofile> <tail> <seed> <shm: MAX int32 values, comma separated> <disk: nrec int32 values | -> [free=<slots>]
        free=: slots that have no registered user id (candidates for a registration; not reachable by syncquery/load)
  newuser <id> <startMoney> <slot> <hex of the registration record>
        ptt.SetupNewUser; <slot> is the slot the id was observed to get (0: the registration was refused)
  config <0|1>                          ptttype.USE_COOLDOWN for the rest of the history (a reset restores `true`)
  loaduhash <0|1>                       0: cache.Shm.Reset() + cache.LoadUHash() (fresh start); 1: cache.LoadUHash() on the
                                        live segment (on-the-fly reload)
  pokerec <uid> <id|-|=> <money>        an external edit of .PASSWDS: user id (`-` empty, `=` unchanged) and Money of a record
  age <uid> <days> <perm> <lastlogin>   an external edit: LastLogin := <lastlogin> (the harness computed now - days), UserLevel := <perm>
  expire <id> <startMoney> <killed slots|-> <slot> <hex record>
                                        ptt.SetupNewUser with a stale .fresh: the clean-up sweep (tryCleanUser → killUser)
                                        removed the accounts in <killed> (observed, ascending); <slot> as for newuser
  resetconc <G> <N> <seed>              concurrent stress (judged by the oracle only; the model answers `done`)
  setuserid <uid> <id>                  cache.SetUserID: rename / re-assign a slot (no balance may move)
  chemail <uid> <text>                  ptt.ChangeEmail: a field writer (the Email field of the record, nothing else)
  resetconcfld <G> <N> <seed>           field writers (ptt.ChangePasswd, ptt.ChangeEmail) racing with money writers on the SAME users
  resetconcrec <G> <N> <seed>           the same with whole-record writers, readers and a registrar
  set <uid> <money> | de <uid> <money> | get <uid>            (int32 decimals)
  syncquery <uid>                       ptt.GetUser -> passwdSyncQuery
  load <uid>                            the same; the caller keeps the returned record as its copy for <uid>
  permupdate <uid> <staleMoney> <perm>  ptt.SetUserPerm with the kept copy (a zero record when none was loaded),
                                        whose Money is first set to <staleMoney>; <perm> is a uint32
answers:
  layout: max=.. sz=.. off=.. fsz=.. lvl=.. bools=..
  reset : ok len=.. shmd=.. rest=..
  op    : <ret|PANIC> <ok|invalid-uid|io|-> shm=<v|-> disk=<hex4|-> len=<n|-> shmd=<fnv64> rest=<fnv64|->
  syncquery/load: <ok|invalid-userid|io|PANIC> money=<v|-> recd=<fnv64 of the other bytes of the record|-> + observation + lvl=<hex4|->
  permupdate    : <perm|PANIC> <class> + observation + lvl=<hex4|->
-/

namespace C20Drv

def isDigits (ds : List Char) : Bool := !ds.isEmpty && ds.all fun c => '0' ≤ c && c ≤ '9'

def digitsVal (ds : List Char) : Nat := ds.foldl (fun a c => a * 10 + (c.toNat - 48)) 0

def parseNat (s : String) (maxDigits : Nat) : Option Nat :=
  let ds := s.toList
  if isDigits ds && ds.length ≤ maxDigits then some (digitsVal ds) else none

/-- optional `-`, 1..10 digits, inside int32. -/
def parseI32 (s : String) : Option Int :=
  let cs := s.toList
  let (neg, ds) := match cs with
    | '-' :: r => (true, r)
    | _ => (false, cs)
  if !(isDigits ds && ds.length ≤ 10) then none else
  let n := digitsVal ds
  if neg then (if n ≤ 2147483648 then some (-(n : Int)) else none)
  else (if n ≤ 2147483647 then some (n : Int) else none)

def parseCsv (s : String) : Option (List Int) :=
  if s = "-" then some [] else (s.splitOn ",").mapM parseI32

def fnvStep (h : UInt64) (b : Nat) : UInt64 := (h ^^^ b.toUInt64) * 1099511628211

def fnv (bs : List Nat) : UInt64 := bs.foldl fnvStep 14695981039346656037

def hex16 (h : UInt64) : String :=
  let n := h.toNat
  String.ofList ((List.range 16).map fun i => hexChar (n / 16 ^ (15 - i) % 16))

/-- the user id the harness registers for slot `u`: "vuNN", NUL padded to the field. -/
def nameOf (u : Nat) : List Nat :=
  let d := toString u
  copyInto Gen.Money.userIDSize ([118, 117] ++ ((if d.length < 2 then "0" ++ d else d).toList.map Char.toNat))

def emptyId : List Nat := List.replicate Gen.Money.userIDSize 0

def idOfSlot (free : List Int) (u : Nat) : List Nat := if free.contains (u : Int) then emptyId else nameOf u

/-- a generated `.PASSWDS`: a 64-bit LCG (top byte of every state) as filler, then the little-endian money of
record `r` at `recSize*r + moneyOffset` for every value given, then the user id of every complete record
that belongs to a slot ("vuNN", or empty for a free slot). -/
def mkFile (seed : Nat) (n : Nat) (vals : List Int) (free : List Int) : List Nat := Id.run do
  let mut x : UInt64 := seed.toUInt64
  let mut a : Array Nat := Array.mkEmpty n
  for _ in [0:n] do
    x := x * 6364136223846793005 + 1442695040888963407
    a := a.push (x >>> 56).toNat
  let mut r := 0
  for v in vals do
    let off := Gen.Money.recSize * r + Gen.Money.moneyOffset
    let bs := le32 v
    for k in [0:4] do
      a := a.setIfInBounds (off + k) (bs.getD k 0)
    r := r + 1
  -- the UserID of every complete record that belongs to a slot
  for u in [1:Gen.Money.maxUsers + 1] do
    if Gen.Money.recSize * u ≤ n then
      let off := Gen.Money.recSize * (u - 1) + Gen.Money.userIDOffset
      let nm := idOfSlot free u
      for k in [0:Gen.Money.userIDSize] do
        a := a.setIfInBounds (off + k) (nm.getD k 0)
  return a.toList

def showErr : Err → String
  | .none => "ok"
  | .invalidUID => "invalid-uid"
  | .invalidUserID => "invalid-userid"
  | .io => "io"

/-- the observation printed after every operation. -/
def observe (s : State) (u : Int) : String :=
  let inArr := 1 ≤ u ∧ u ≤ (Gen.Money.maxUsers : Int)
  let shm := if inArr then (match s.shm[(u - 1).toNat]? with | some v => toString v | none => "-") else "-"
  let shmd := hex16 (fnv (s.shm.flatMap le32))
  match s.file with
  | none => s!"shm={shm} disk=- len=- shmd={shmd} rest=-"
  | some f =>
      let off := Gen.Money.recSize * (u - 1).toNat + Gen.Money.moneyOffset
      if inArr ∧ off + 4 ≤ f.length then
        let b := (f.drop off).take 4
        let rest := f.take off ++ f.drop (off + 4)
        s!"shm={shm} disk={toHex b} len={f.length} shmd={shmd} rest={hex16 (fnv rest)}"
      else
        s!"shm={shm} disk=- len={f.length} shmd={shmd} rest={hex16 (fnv f)}"

def showAns (a : Ans) : String :=
  match a with
  | .ok (v, e) => s!"{v} {showErr e}"
  | .error f => s!"{f} -"

/-- driver state: the model state and the record copies the caller holds (slot ↦ serialised record). -/
structure DState where
  st : Option State := none
  stale : List (Int × List Nat) := []
  ids : List (List Nat) := []    -- Shm.Shm.Userid
  cd : Bool := true              -- ptttype.USE_COOLDOWN
  hm : HashMeta := { number := Gen.Money.maxUsers, loaded := 1 }   -- after the harness loaded its names

def lvlOf (s : State) (u : Int) : String :=
  match s.file with
  | none => "-"
  | some f =>
      let off := Gen.Money.recSize * (u - 1).toNat + Gen.Money.userLevelOffset
      if (1 ≤ u ∧ u ≤ (Gen.Money.maxUsers : Int)) ∧ off + 4 ≤ f.length then toHex ((f.drop off).take 4) else "-"

def observe2 (s : State) (u : Int) : String := observe s u ++ " lvl=" ++ lvlOf s u

def doOp (d : DState) (o : Op) (u : Int) : DState × String :=
  match d.st with
  | none => (d, "bad-op")
  | some s =>
      let (s', a) := step s o
      ({ d with st := some s' }, showAns a ++ " " ++ observe s' u)

def lookupStale (d : DState) (u : Int) : List Nat :=
  match d.stale.lookup u with
  | some r => r
  | none => List.replicate Gen.Money.recSize 0

def putStale (d : DState) (u : Int) (r : List Nat) : DState :=
  { d with stale := (u, r) :: d.stale.filter (fun p => p.1 != u) }

def doQuery (d : DState) (u : Int) (keep : Bool) : DState × String :=
  match d.st with
  | none => (d, "bad-op")
  | some s =>
      if (1 ≤ u ∧ u ≤ (Gen.Money.maxUsers : Int)) ∧ cstr (d.ids.getD (u - 1).toNat []) = [] then (d, "no-name") else
      match passwdSyncQuery s u with
      | .error f => (d, s!"{f} money=- recd=- " ++ observe2 s u)
      | .ok (.error e) => (d, s!"{showErr e} money=- recd=- " ++ observe2 s u)
      | .ok (.ok rec) =>
          let money := match dec32? ((rec.drop MOFF).take 4) with
            | some v => toString v
            | none => "-"
          let others := rec.take MOFF ++ rec.drop (MOFF + 4)
          let d' := if keep then putStale d u rec else d
          (d', s!"ok money={money} recd={hex16 (fnv others)} " ++ observe2 s u)

def doPerm (d : DState) (u m : Int) (perm : Nat) : DState × String :=
  match d.st with
  | none => (d, "bad-op")
  | some s =>
      let rec0 := recSetMoney (lookupStale d u) m
      let (s', a) := step s (.sync u rec0 perm)
      -- the caller's copy afterwards: UserLevel = perm, and Money = MoneyOf(uid) when passwdSyncUpdate got that far
      let rec1 := recSetLevel rec0 perm
      let rec2 := if uidIsValid u then (match moneyOf s u with | .ok v => recSetMoney rec1 v | .error _ => rec1) else rec1
      let d' := putStale { d with st := some s' } u rec2
      (d', showAns a ++ " " ++ observe2 s' u)

def isIdent (s : String) : Bool :=
  let cs := s.toList
  match cs with
  | [] => false
  | c :: rest => c.isAlpha && rest.all Char.isAlphanum && 2 ≤ cs.length && cs.length ≤ 12

def parseFree (s : String) : Option (List Int) :=
  if !s.startsWith "free=" then none else
  match parseCsv (s.drop 5).toString with
  | none => none
  | some l =>
      if l.all (fun u => 1 ≤ u ∧ u ≤ (Gen.Money.maxUsers : Int)) && l.eraseDups.length == l.length && !l.isEmpty
      then some l else none

def doNewUser (d : DState) (idBytes : List Nat) (m u : Int) (rec : List Nat) : DState × String :=
  match d.st with
  | none => (d, "bad-op")
  | some s =>
      if u = 0 then (d, "rejected") else
      let (s', a) := step s (.newuser u rec m)
      let d' := { d with st := some s', ids := d.ids.set (u - 1).toNat (copyInto Gen.Money.userIDSize idBytes) }
      (d', (match a with | .ok (_, e) => showErr e | .error f => toString f) ++ " " ++ observe2 s' u)

def stepC20Reset (st : DState) (nrec tail seed shm disk : String) (free : List Int) : DState × String :=
    let ids0 := (List.range Gen.Money.maxUsers).map fun k => idOfSlot free (k + 1)
    match parseNat tail 6, parseNat seed 19, parseCsv shm, parseCsv disk with
    | some tail, some seed, some shm, some disk =>
        if shm.length ≠ Gen.Money.maxUsers then (st, "bad-op") else
        if nrec = "nofile" then
          if disk.length ≠ 0 ∨ tail ≠ 0 then (st, "bad-op") else
          let s : State := { shm := shm, file := none }
          ({ st := some s, stale := [], ids := ids0, cd := true, hm := { number := Gen.Money.maxUsers, loaded := 1 } }, s!"ok len=- shmd={hex16 (fnv (s.shm.flatMap le32))} rest=-")
        else match parseNat nrec 4 with
          | none => (st, "bad-op")
          | some n =>
              if disk.length ≠ n ∨ n > 2 * Gen.Money.maxUsers ∨ tail ≥ Gen.Money.recSize then (st, "bad-op") else
              let f := mkFile seed (Gen.Money.recSize * n + tail) disk free
              let s : State := { shm := shm, file := some f }
              ({ st := some s, stale := [], ids := ids0, cd := true, hm := { number := Gen.Money.maxUsers, loaded := 1 } }, s!"ok len={f.length} shmd={hex16 (fnv (s.shm.flatMap le32))} rest={hex16 (fnv f)}")
    | _, _, _, _ => (st, "bad-op")

def stepC20 (d : DState) (ws : List String) : DState × String :=
  let st := d
  match ws with
  | ["layout"] =>
      (st, s!"max={Gen.Money.maxUsers} sz={Gen.Money.recSize} off={Gen.Money.moneyOffset} fsz={Gen.Money.moneySize} lvl={Gen.Money.userLevelOffset} bools={if Gen.Money.boolOffsets.isEmpty then "-" else ",".intercalate (Gen.Money.boolOffsets.map toString)}")
  | ["resetconcfld", g, n, seed] =>
      match parseNat g 2, parseNat n 6, parseNat seed 19 with
      | some g, some n, some _ =>
          if 1 ≤ g ∧ 2 * g ≤ Gen.Money.maxUsers ∧ 1 ≤ n ∧ n ≤ 100000 then ({ st := none, stale := [], ids := [], cd := true }, "done")
          else (st, "bad-op")
      | _, _, _ => (st, "bad-op")
  | ["setuserid", u, id] =>
      match st.st, parseI32 u with
      | some s, some u =>
          if ¬ isIdent id then (st, "bad-op") else
          let r := setUserID s u
          let ids' := if r.2 == .none then st.ids.set (u - 1).toNat (copyInto Gen.Money.userIDSize (id.toList.map Char.toNat)) else st.ids
          ({ st with st := some r.1, ids := ids' }, showErr r.2 ++ " " ++ observe2 r.1 u)
      | _, _ => (st, "bad-op")
  | ["chemail", u, text] =>
      match st.st, parseI32 u with
      | some s, some u =>
          let cs := text.toList
          if ¬ (1 ≤ cs.length ∧ cs.length ≤ 40 ∧ cs.all (fun c => c.isAlphanum || c == '@' || c == '.')) then (st, "bad-op") else
          if (1 ≤ u ∧ u ≤ (Gen.Money.maxUsers : Int)) ∧ cstr (st.ids.getD (u - 1).toNat []) = [] then (st, "no-name") else
          let r := fieldWrite s u Gen.Money.emailOffset (copyInto Gen.Money.emailSize (cs.map Char.toNat))
          ({ st with st := some r.1 }, showErr r.2 ++ " " ++ observe2 r.1 u)
      | _, _ => (st, "bad-op")
  | ["resetconcrec", g, n, seed] =>
      match parseNat g 2, parseNat n 6, parseNat seed 19 with
      | some g, some n, some _ =>
          if 1 ≤ g ∧ 2 * g ≤ Gen.Money.maxUsers ∧ 1 ≤ n ∧ n ≤ 100000 then ({ st := none, stale := [], ids := [], cd := true }, "done")
          else (st, "bad-op")
      | _, _, _ => (st, "bad-op")
  | ["resetconc", g, n, seed] =>
      match parseNat g 2, parseNat n 6, parseNat seed 19 with
      | some g, some n, some _ =>
          if 1 ≤ g ∧ 2 * g ≤ Gen.Money.maxUsers ∧ 1 ≤ n ∧ n ≤ 100000 then ({ st := none, stale := [], ids := [], cd := true }, "done")
          else (st, "bad-op")
      | _, _, _ => (st, "bad-op")
  | ["newuser", id, m, u, hex] =>
      match parseI32 m, parseI32 u, parseHex hex with
      | some m, some u, some rec =>
          if isIdent id ∧ rec.length = Gen.Money.recSize ∧ 0 ≤ u then doNewUser st (id.toList.map Char.toNat) m u rec else (st, "bad-op")
      | _, _, _ => (st, "bad-op")
  | ["reset", nrec, tail, seed, shm, disk, free] =>
      match parseFree free with
      | none => (st, "bad-op")
      | some fl => stepC20Reset st nrec tail seed shm disk fl
  | ["reset", nrec, tail, seed, shm, disk] => stepC20Reset st nrec tail seed shm disk []
  | ["config", v] =>
      match st.st with
      | none => (st, "bad-op")
      | some _ => if v = "1" then ({ st with cd := true }, "ok") else if v = "0" then ({ st with cd := false }, "ok") else (st, "bad-op")
  | ["loaduhash", v] =>
      match st.st with
      | none => (st, "bad-op")
      | some s =>
          if v ≠ "0" ∧ v ≠ "1" then (st, "bad-op") else
          -- "0": cache.Shm.Reset() first (Userid empty, Money 0, Number 0, Loaded 0)
          let r := if v = "1" then loadUHashTop st.cd st.hm st.ids s
            else loadUHashTop st.cd { number := 0, loaded := 0 } (List.replicate MAX (List.replicate IDSZ 0))
              { s with shm := List.replicate MAX 0 }
          let s' := r.1.2.2
          let ids' := r.1.2.1
          let cls := match r.2 with | .ok e => showErr e | .error f => toString f
          let filed := match s'.file with | some f => s!"len={f.length} rest={hex16 (fnv f)}" | none => "len=- rest=-"
          ({ st with st := some s', ids := ids', hm := r.1.1 },
           s!"{cls} idd={hex16 (fnv ids'.flatten)} shmd={hex16 (fnv (s'.shm.flatMap le32))} {filed}")
  | ["age", u, days, perm, ll] =>
      match st.st, parseI32 u, parseNat days 5, parseNat perm 10, parseI32 ll with
      | some s, some u, some _, some perm, some ll =>
          match s.file with
          | none => (st, "bad-op")
          | some f =>
              let base := Gen.Money.recSize * (u - 1).toNat
              if ¬ ((1 ≤ u ∧ u ≤ (Gen.Money.maxUsers : Int)) ∧ base + Gen.Money.recSize ≤ f.length ∧ perm < 4294967296) then (st, "bad-op") else
              let f1 := writeAt f (base + Gen.Money.lastLoginOffset) (le32 ll)
              let f2 := writeAt f1 (base + Gen.Money.userLevelOffset) (le32 (Int.ofNat perm))
              let s' : State := { s with file := some f2 }
              ({ st with st := some s' }, "ok " ++ observe2 s' u)
      | _, _, _, _, _ => (st, "bad-op")
  | ["expire", id, m, killed, u, hex] =>
      match st.st, parseI32 m, parseCsv killed, parseI32 u, parseHex hex with
      | some s, some m, some killed, some u, some rec =>
          -- driven on a complete .PASSWDS only
          let complete : Bool := match s.file with
            | some f => f.length == Gen.Money.recSize * Gen.Money.maxUsers
            | none => false
          if ¬ (complete = true ∧ isIdent id ∧ rec.length = Gen.Money.recSize ∧ 0 ≤ u ∧
                killed.all (fun k => 2 ≤ k ∧ k ≤ (Gen.Money.maxUsers : Int))) then (st, "bad-op") else
          -- the sweep: killUser on every expired account, in slot order; a fault ends it
          let r := killed.foldl (fun (acc : State × Option Fault) k =>
              match acc.2 with
              | some _ => acc
              | none => let q := killUser acc.1 k
                        (q.1, match q.2 with | .error e => some e | .ok _ => none)) (s, none)
          match r.2 with
          | some e => ({ st with st := some r.1 }, s!"{e} killed={killed.length}")
          | none =>
              let s1 := r.1
              let shmd := fun (x : State) => hex16 (fnv (x.shm.flatMap le32))
              let filed := fun (x : State) => match x.file with
                | some f => s!"len={f.length} rest={hex16 (fnv f)}"
                | none => "len=- rest=-"
              if u = 0 then ({ st with st := some s1 }, s!"rejected killed={killed.length} shmd={shmd s1} {filed s1}")
              else
                let (s2, a) := step s1 (.newuser u rec m)
                let d' := { st with st := some s2, ids := st.ids.set (u - 1).toNat (copyInto Gen.Money.userIDSize (id.toList.map Char.toNat)) }
                (d', (match a with | .ok (_, e) => showErr e | .error f => toString f) ++
                  s!" killed={killed.length} shmd={shmd s2} {filed s2}")
      | _, _, _, _, _ => (st, "bad-op")
  | ["pokerec", u, id, m] =>
      match st.st, parseI32 u, parseI32 m with
      | some s, some u, some m =>
          match s.file with
          | none => (st, "bad-op")
          | some f =>
              let base := Gen.Money.recSize * (u - 1).toNat
              if ¬ ((1 ≤ u ∧ u ≤ (Gen.Money.maxUsers : Int)) ∧ base + Gen.Money.recSize ≤ f.length) then (st, "bad-op") else
              if ¬ (id = "-" ∨ id = "=" ∨ isIdent id) then (st, "bad-op") else
              let f1 := if id = "=" then f
                else writeAt f (base + Gen.Money.userIDOffset)
                  (if id = "-" then emptyId else copyInto Gen.Money.userIDSize (id.toList.map Char.toNat))
              let f2 := writeAt f1 (base + Gen.Money.moneyOffset) (le32 m)
              let s' : State := { s with file := some f2 }
              ({ st with st := some s' }, "ok " ++ observe2 s' u)
      | _, _, _ => (st, "bad-op")
  | ["set", u, m] =>
      match parseI32 u, parseI32 m with
      | some u, some m => doOp st (.set u m) u
      | _, _ => (st, "bad-op")
  | ["de", u, m] =>
      match parseI32 u, parseI32 m with
      | some u, some m => doOp st (.de u m) u
      | _, _ => (st, "bad-op")
  | ["get", u] =>
      match parseI32 u with
      | some u => doOp st (.get u) u
      | none => (st, "bad-op")
  | ["syncquery", u] =>
      match parseI32 u with
      | some u => doQuery st u false
      | none => (st, "bad-op")
  | ["load", u] =>
      match parseI32 u with
      | some u => doQuery st u true
      | none => (st, "bad-op")
  | ["permupdate", u, m, perm] =>
      match parseI32 u, parseI32 m, parseNat perm 10 with
      | some u, some m, some perm => if perm < 4294967296 then doPerm st u m perm else (st, "bad-op")
      | _, _, _ => (st, "bad-op")
  | _ => (st, "bad-op")

end C20Drv

def main : IO Unit := runHandler { init := ({} : C20Drv.DState), step := C20Drv.stepC20 }
