import PttVerif.DriverLoop
import PttVerif.Model.C20
open PttVerif PttVerif.C20

/-
ops:
  layout
  reset <nrec|nofile> <tail> <seed> <shm: MAX int32 values, comma separated> <disk: nrec int32 values | ->
  set <uid> <money> | de <uid> <money> | get <uid>            (int32 decimals)
answers:
  layout: max=.. sz=.. off=.. fsz=..
  reset : ok len=.. shmd=.. rest=..
  op    : <ret|PANIC> <ok|invalid-uid|io|-> shm=<v|-> disk=<hex4|-> len=<n|-> shmd=<fnv64> rest=<fnv64|->
-/

namespace C20Drv

def isDigits (ds : List Char) : Bool := !ds.isEmpty && ds.all fun c => '0' ≤ c && c ≤ '9'

def digitsVal (ds : List Char) : Nat := ds.foldl (fun a c => a * 10 + (c.toNat - 48)) 0

def parseNat (s : String) (maxDigits : Nat) : Option Nat :=
  let ds := s.toList
  if isDigits ds && ds.length ≤ maxDigits then some (digitsVal ds) else none

/-- optional `-`, 1..10 digits, inside int32. -/
def parseI32 (s : String) : Option Int :=
  let cs := s.toList
  let (neg, ds) := match cs with
    | '-' :: r => (true, r)
    | _ => (false, cs)
  if !(isDigits ds && ds.length ≤ 10) then none else
  let n := digitsVal ds
  if neg then (if n ≤ 2147483648 then some (-(n : Int)) else none)
  else (if n ≤ 2147483647 then some (n : Int) else none)

def parseCsv (s : String) : Option (List Int) :=
  if s = "-" then some [] else (s.splitOn ",").mapM parseI32

def fnvStep (h : UInt64) (b : Nat) : UInt64 := (h ^^^ b.toUInt64) * 1099511628211

def fnv (bs : List Nat) : UInt64 := bs.foldl fnvStep 14695981039346656037

def hex16 (h : UInt64) : String :=
  let n := h.toNat
  String.ofList ((List.range 16).map fun i => hexChar (n / 16 ^ (15 - i) % 16))

/-- a generated `.PASSWDS`: a 64-bit LCG (top byte of every state) as filler, then the little-endian money of
record `r` at `recSize*r + moneyOffset` for every value given. -/
def mkFile (seed : Nat) (n : Nat) (vals : List Int) : List Nat := Id.run do
  let mut x : UInt64 := seed.toUInt64
  let mut a : Array Nat := Array.mkEmpty n
  for _ in [0:n] do
    x := x * 6364136223846793005 + 1442695040888963407
    a := a.push (x >>> 56).toNat
  let mut r := 0
  for v in vals do
    let off := Gen.Money.recSize * r + Gen.Money.moneyOffset
    let bs := le32 v
    for k in [0:4] do
      a := a.setIfInBounds (off + k) (bs.getD k 0)
    r := r + 1
  return a.toList

def showErr : Err → String
  | .none => "ok"
  | .invalidUID => "invalid-uid"
  | .io => "io"

/-- the observation printed after every operation. -/
def observe (s : State) (u : Int) : String :=
  let inArr := 1 ≤ u ∧ u ≤ (Gen.Money.maxUsers : Int)
  let shm := if inArr then (match s.shm[(u - 1).toNat]? with | some v => toString v | none => "-") else "-"
  let shmd := hex16 (fnv (s.shm.flatMap le32))
  match s.file with
  | none => s!"shm={shm} disk=- len=- shmd={shmd} rest=-"
  | some f =>
      let off := Gen.Money.recSize * (u - 1).toNat + Gen.Money.moneyOffset
      if inArr ∧ off + 4 ≤ f.length then
        let b := (f.drop off).take 4
        let rest := f.take off ++ f.drop (off + 4)
        s!"shm={shm} disk={toHex b} len={f.length} shmd={shmd} rest={hex16 (fnv rest)}"
      else
        s!"shm={shm} disk=- len={f.length} shmd={shmd} rest={hex16 (fnv f)}"

def showAns (a : Ans) : String :=
  match a with
  | .ok (v, e) => s!"{v} {showErr e}"
  | .error f => s!"{f} -"

def doOp (st : Option State) (o : Op) (u : Int) : Option State × String :=
  match st with
  | none => (none, "bad-op")
  | some s =>
      let (s', a) := step s o
      (some s', showAns a ++ " " ++ observe s' u)

def stepC20 (st : Option State) (ws : List String) : Option State × String :=
  match ws with
  | ["layout"] =>
      (st, s!"max={Gen.Money.maxUsers} sz={Gen.Money.recSize} off={Gen.Money.moneyOffset} fsz={Gen.Money.moneySize}")
  | ["reset", nrec, tail, seed, shm, disk] =>
      match parseNat tail 6, parseNat seed 19, parseCsv shm, parseCsv disk with
      | some tail, some seed, some shm, some disk =>
          if shm.length ≠ Gen.Money.maxUsers then (st, "bad-op") else
          if nrec = "nofile" then
            if disk.length ≠ 0 ∨ tail ≠ 0 then (st, "bad-op") else
            let s : State := { shm := shm, file := none }
            (some s, s!"ok len=- shmd={hex16 (fnv (s.shm.flatMap le32))} rest=-")
          else match parseNat nrec 4 with
            | none => (st, "bad-op")
            | some n =>
                if disk.length ≠ n ∨ n > 2 * Gen.Money.maxUsers ∨ tail ≥ Gen.Money.recSize then (st, "bad-op") else
                let f := mkFile seed (Gen.Money.recSize * n + tail) disk
                let s : State := { shm := shm, file := some f }
                (some s, s!"ok len={f.length} shmd={hex16 (fnv (s.shm.flatMap le32))} rest={hex16 (fnv f)}")
      | _, _, _, _ => (st, "bad-op")
  | ["set", u, m] =>
      match parseI32 u, parseI32 m with
      | some u, some m => doOp st (.set u m) u
      | _, _ => (st, "bad-op")
  | ["de", u, m] =>
      match parseI32 u, parseI32 m with
      | some u, some m => doOp st (.de u m) u
      | _, _ => (st, "bad-op")
  | ["get", u] =>
      match parseI32 u with
      | some u => doOp st (.get u) u
      | none => (st, "bad-op")
  | _ => (st, "bad-op")

end C20Drv

def main : IO Unit := runHandler { init := (none : Option State), step := C20Drv.stepC20 }
