import PttVerif.DriverLoop
import PttVerif.Model.C18
import PttVerif.Model.C18Ansi
import PttVerif.Model.C18Misc
import PttVerif.Model.C18Alias
import PttVerif.Model.C18Move
open PttVerif PttVerif.C18

/-- two hex fields. -/
def hex2 (a b : String) : Option (List Nat × List Nat) := do
  let x ← parseHex a
  let y ← parseHex b
  pure (x, y)

def hexLines (ls : List (List Nat)) : String :=
  toString ls.length ++ ":" ++ ",".intercalate (ls.map toHex)

def pair2 (p : List Nat × List Nat) : String := toHex p.1 ++ " " ++ toHex p.2

/-- a byte value written in decimal. -/
def byte? (s : String) : Option Nat := match s.toNat? with
  | some n => if n < 256 then some n else none
  | none => none

/-- an argument of a history step: hex literal or `@i` (the first slice held from step i). -/
def parseArg (allowRef : Bool) (w : String) : Option Arg :=
  if w.startsWith "@" then
    if allowRef then (w.drop 1).toString.toNat?.map Arg.ref else none
  else (parseHex w).map Arg.lit

/-- one history step: `sa:<flag>:<arg> | cb:<arg> | lo:<arg> | up:<arg> | tk:<arg>:<sephex> | dt:<arg> | tr:<arg> |
rl:<arg> | nb:<hex> | td:<hex> | sx:<hex65>`. -/
def parseStep (allowRef : Bool) (w : String) : Option Step :=
  match w.splitOn ":" with
  | ["sa", f, a] => do
      let fl ← f.toNat?
      let x ← parseArg allowRef a
      pure (.strip fl x)
  | ["cb", a] => (parseArg allowRef a).map .toBytes
  | ["lo", a] => (parseArg allowRef a).map .lower
  | ["up", a] => (parseArg allowRef a).map .upper
  | ["tk", a, sp] => do
      let x ← parseArg allowRef a
      let sep ← parseHex sp
      pure (.tokenR x sep)
  | ["dt", a] => (parseArg allowRef a).map .dbcsTrim
  | ["tr", a] => (parseArg allowRef a).map .trim
  | ["rl", a] => (parseArg allowRef a).map .lines
  | ["nb", h] => (parseHex h).map .nb5
  | ["td", h] => (parseHex h).map .trimDBCS
  | ["sx", h] => match parseHex h with
      | some b => if b.length = TTLEN + 1 then some (.subject b) else none
      | none => none
  | _ => none

def parseSteps (allowRef : Bool) : List String → Option (List Step)
  | [] => some []
  | w :: ws => do
      let st ← parseStep allowRef w
      let rest ← parseSteps allowRef ws
      pure (st :: rest)

def showHeld (r : Option Nat × List (List Nat)) : String :=
  (match r.1 with | some t => toString t ++ "/" | none => "") ++
  (if r.2.isEmpty then "." else "/".intercalate (r.2.map toHex))

/-- `hist` / `conc`: run the heap model, print everything held as read from the FINAL heap. -/
def runHistOp (allowRef : Bool) (ws : List String) : String :=
  if ws.isEmpty then "bad-op" else
  match parseSteps allowRef ws with
  | none => "bad-op"
  | some steps => match histObserve steps with
    | none => "bad-op"
    | some m => showM (fun rs => ",".intercalate (rs.map showHeld)) m

/-- ops (group 1): cstrlen h | cstrtobytes h | cstrcmp a b | cstrcasecmp a b | cstrstr h n | cstrcasestr h n |
casehasprefix s p | tokenr s sep
(group 2): stripansi <flag> h
(group 3): readlines h | strhash h | strhashbits h | stripnb5 h | dbcsnext <c> <prev> | dbcsstatus <pos> h |
dbcstrim h | trim h | trimdbcs h | subjectex h | startswith str prefix | movecmd h | callin h
(ownership): hist <step>... | conc <step>... (steps: see `parseStep`) -/
def stepC18 (_ : Unit) (ws : List String) : Unit × String :=
  let out := match ws with
    | ["cstrlen", h] => match parseHex h with
        | some s => toString (cstrlen s)
        | none => "bad-op"
    | ["cstrtobytes", h] => match parseHex h with
        | some s => showM toHex (cstrToBytes s)
        | none => "bad-op"
    | ["cstrcmp", a, b] => match hex2 a b with
        | some (x, y) => showM toString (cstrcmp x y)
        | none => "bad-op"
    | ["cstrcasecmp", a, b] => match hex2 a b with
        | some (x, y) => showM toString (cstrcasecmp x y)
        | none => "bad-op"
    | ["cstrstr", a, b] => match hex2 a b with
        | some (x, y) => toString (cstrstr x y)
        | none => "bad-op"
    | ["cstrcasestr", a, b] => match hex2 a b with
        | some (x, y) => toString (cstrcasestr x y)
        | none => "bad-op"
    | ["casehasprefix", a, b] => match hex2 a b with
        | some (x, y) => if cstrCaseHasPrefix x y then "1" else "0"
        | none => "bad-op"
    | ["tokenr", a, b] => match hex2 a b with
        | some (x, y) => showM (fun (p : List Nat × List Nat) => toHex p.1 ++ " " ++ toHex p.2) (cstrTokenR x y)
        | none => "bad-op"
    | ["stripansi", fl, h] => match fl.toNat?, parseHex h with
        | some f, some s => showM toHex (stripAnsi s f)
        | _, _ => "bad-op"
    | ["readlines", h] => match parseHex h with
        | some s => showM hexLines (readLines s)
        | none => "bad-op"
    | ["strhash", h] => match parseHex h with
        | some s => toString (stringHash s)
        | none => "bad-op"
    | ["strhashbits", h] => match parseHex h with
        | some s => toString (stringHashWithHashBits s)
        | none => "bad-op"
    | ["stripnb5", h] => match parseHex h with
        | some s => showM pair2 (stripNoneBig5 s)
        | none => "bad-op"
    | ["dbcsnext", c, st] => match byte? c, st.toNat? with
        | some c, some st => toString (dbcsNextStatus c st)
        | _, _ => "bad-op"
    | ["dbcsstatus", pos, h] => match pos.toInt?, parseHex h with
        | some p, some s => showM toString (dbcsStatus s p)
        | _, _ => "bad-op"
    | ["dbcstrim", h] => match parseHex h with
        | some s => showM toHex (dbcsSafeTrim s)
        | none => "bad-op"
    | ["trim", h] => match parseHex h with
        | some s => showM toHex (trim s)
        | none => "bad-op"
    | ["trimdbcs", h] => match parseHex h with
        | some s => showM pair2 (trimDBCS s)
        | none => "bad-op"
    | ["subjectex", h] => match parseHex h with
        | some s => if s.length = TTLEN + 1 then
            showM (fun (p : Nat × List Nat) => toString p.1 ++ " " ++ toHex p.2) (subjectEx s) else "bad-op"
        | none => "bad-op"
    | ["callin", h] => match parseHex h with
        | some s => showM toHex (lastCallIn s)
        | none => "bad-op"
    | ["movecmd", h] => match parseHex h with
        | some s => showM toHex (stripANSIMoveCmd s)
        | none => "bad-op"
    | ["startswith", a, b] => match hex2 a b with
        | some (x, y) => showM (fun (r : Bool) => if r then "1" else "0") (strcaseStartsWith x y)
        | none => "bad-op"
    | "hist" :: steps => runHistOp true steps
    | "conc" :: steps => runHistOp false steps
    | _ => "bad-op"
  ((), out)

def main : IO Unit := runHandler { init := (), step := stepC18 }
