import PttVerif.DriverLoop
import PttVerif.Model.C18
import PttVerif.Model.C18Ansi
import PttVerif.Model.C18Misc
open PttVerif PttVerif.C18

/-- two hex fields. -/
def hex2 (a b : String) : Option (List Nat × List Nat) := do
  let x ← parseHex a
  let y ← parseHex b
  pure (x, y)

def hexLines (ls : List (List Nat)) : String :=
  toString ls.length ++ ":" ++ ",".intercalate (ls.map toHex)

def pair2 (p : List Nat × List Nat) : String := toHex p.1 ++ " " ++ toHex p.2

/-- a byte value written in decimal. -/
def byte? (s : String) : Option Nat := match s.toNat? with
  | some n => if n < 256 then some n else none
  | none => none

/-- ops (group 1): cstrlen h | cstrtobytes h | cstrcmp a b | cstrcasecmp a b | cstrstr h n | cstrcasestr h n |
casehasprefix s p | tokenr s sep
(group 2): stripansi <flag> h
(group 3): readlines h | strhash h | strhashbits h | stripnb5 h | dbcsnext <c> <prev> | dbcsstatus <pos> h |
dbcstrim h | trim h | trimdbcs h | subjectex h -/
def stepC18 (_ : Unit) (ws : List String) : Unit × String :=
  let out := match ws with
    | ["cstrlen", h] => match parseHex h with
        | some s => toString (cstrlen s)
        | none => "bad-op"
    | ["cstrtobytes", h] => match parseHex h with
        | some s => showM toHex (cstrToBytes s)
        | none => "bad-op"
    | ["cstrcmp", a, b] => match hex2 a b with
        | some (x, y) => showM toString (cstrcmp x y)
        | none => "bad-op"
    | ["cstrcasecmp", a, b] => match hex2 a b with
        | some (x, y) => showM toString (cstrcasecmp x y)
        | none => "bad-op"
    | ["cstrstr", a, b] => match hex2 a b with
        | some (x, y) => toString (cstrstr x y)
        | none => "bad-op"
    | ["cstrcasestr", a, b] => match hex2 a b with
        | some (x, y) => toString (cstrcasestr x y)
        | none => "bad-op"
    | ["casehasprefix", a, b] => match hex2 a b with
        | some (x, y) => if cstrCaseHasPrefix x y then "1" else "0"
        | none => "bad-op"
    | ["tokenr", a, b] => match hex2 a b with
        | some (x, y) => showM (fun (p : List Nat × List Nat) => toHex p.1 ++ " " ++ toHex p.2) (cstrTokenR x y)
        | none => "bad-op"
    | ["stripansi", fl, h] => match fl.toNat?, parseHex h with
        | some f, some s => showM toHex (stripAnsi s f)
        | _, _ => "bad-op"
    | ["readlines", h] => match parseHex h with
        | some s => showM hexLines (readLines s)
        | none => "bad-op"
    | ["strhash", h] => match parseHex h with
        | some s => toString (stringHash s)
        | none => "bad-op"
    | ["strhashbits", h] => match parseHex h with
        | some s => toString (stringHashWithHashBits s)
        | none => "bad-op"
    | ["stripnb5", h] => match parseHex h with
        | some s => showM pair2 (stripNoneBig5 s)
        | none => "bad-op"
    | ["dbcsnext", c, st] => match byte? c, st.toNat? with
        | some c, some st => toString (dbcsNextStatus c st)
        | _, _ => "bad-op"
    | ["dbcsstatus", pos, h] => match pos.toInt?, parseHex h with
        | some p, some s => showM toString (dbcsStatus s p)
        | _, _ => "bad-op"
    | ["dbcstrim", h] => match parseHex h with
        | some s => showM toHex (dbcsSafeTrim s)
        | none => "bad-op"
    | ["trim", h] => match parseHex h with
        | some s => showM toHex (trim s)
        | none => "bad-op"
    | ["trimdbcs", h] => match parseHex h with
        | some s => showM pair2 (trimDBCS s)
        | none => "bad-op"
    | ["subjectex", h] => match parseHex h with
        | some s => if s.length = TTLEN + 1 then
            showM (fun (p : Nat × List Nat) => toString p.1 ++ " " ++ toHex p.2) (subjectEx s) else "bad-op"
        | none => "bad-op"
    | _ => "bad-op"
  ((), out)

def main : IO Unit := runHandler { init := (), step := stepC18 }
