import PttVerif.DriverLoop
import PttVerif.Model.C03
open PttVerif PttVerif.C03

/-
ops (every byte string is a hex token, `-` = empty):
  reset <reserved: hex,hex,…|-> <pool: hex,hex,…> <slots: MAX entries separated by `;`>
        slot entry:  e                      an all-zero record
                     <id13hex>/<pw>/<emailhex>   pw = z (all-zero hash) | g<hex> (GenPasswd of that password)
                                                      | t<hex> (that hash with its last character altered)
  reg <id> <pw> <email> | login <id> <pw> | chk <id> <pw> | chpw <id> <old> <new> | chem <id> <email>
  exists <id> | get <id>
answers:
  reset: ok used=<n> tbl=<fnv64>
  op   : <err> <out,…|~> uid=<n> rec=<id13hex>:<email50hex>:<mask>|- used=<n> sess=<n> tbl=<fnv64> rest=<flags>
         mask  = one character per pool password: 1 = the slot's stored hash verifies it
         flags = one character per slot: `=` the bytes outside UserID/PasswdHash/Email are what they were before the
                 op, `*` they were rewritten
-/

namespace C03Drv

abbrev St := State ideal

structure Ctx where
  reserved : List Bytes
  pool : List Bytes
  st : St
  tick : Nat

def fnvStep (h : UInt64) (b : Nat) : UInt64 := (h ^^^ b.toUInt64) * 1099511628211

def hex16 (h : UInt64) : String :=
  let n := h.toNat
  String.ofList ((List.range 16).map fun i => hexChar (n / 16 ^ (15 - i) % 16))

def parseList (s : String) : Option (List Bytes) :=
  if s = "-" then some [] else (s.splitOn ",").mapM parseHex

def bytesOk (b : Bytes) : Bool := b.all (· < 256)

def maskOf (pool : List Bytes) (h : Option Bytes) : List Nat := pool.map fun q => if ideal.check h q then 1 else 0

def maskStr (m : List Nat) : String := String.ofList (m.map fun b => if b = 1 then '1' else '0')

def tblDigest (pool : List Bytes) (s : St) : UInt64 :=
  s.recs.foldl (fun h r => ((r.id ++ r.email ++ maskOf pool r.hash).foldl fnvStep h)) 14695981039346656037

def used (s : St) : Nat := (s.recs.filter fun r => r.id.headD 0 ≠ 0).length

def parseSlot (i : Nat) (e : String) : Option (Rec ideal) :=
  if e = "e" then some { id := List.replicate IDSZ 0, hash := none, email := List.replicate EMAILSZ 0, rest := i }
  else match e.splitOn "/" with
    | [idh, pw, emh] =>
        match parseHex idh, parseHex emh with
        | some id, some em =>
            if id.length ≠ IDSZ ∨ em.length > EMAILSZ ∨ !bytesOk id ∨ !bytesOk em then none else
            let mk (h : Option Bytes) : Option (Rec ideal) :=
              some { id := id, hash := h, email := copyInto EMAILSZ em, rest := i }
            if pw = "z" then mk none
            else match pw.toList with
              | 'g' :: rest =>
                  match parseHex (String.ofList rest) with
                  | some p => if p.isEmpty ∨ p.headD 0 = 0 ∨ !bytesOk p then none else mk (ideal.gen 0 p)
                  | none => none
              | 't' :: rest =>
                  match parseHex (String.ofList rest) with
                  | some p => if p.isEmpty ∨ p.headD 0 = 0 ∨ !bytesOk p then none else mk none
                  | none => none
              | _ => none
        | _, _ => none
    | _ => none

def parseSlots (es : List String) : Option (List (Rec ideal)) :=
  (es.zipIdx).mapM fun (e, i) => parseSlot i e

def showErr : Err → String
  | .none => "ok"
  | .invalidUserID => "invalid-user-id"
  | .userExists => "user-exists"
  | .invalidUID => "invalid-uid"
  | .newUtmp => "new-utmp"
  | .invalidParams => "invalid-params"
  | .invalidUUserID => "invalid-uuserid"
  | .io => "io"

def showOut (o : List Bytes) : String := if o.isEmpty then "~" else ",".intercalate (o.map toHex)

def flags (before after : St) : String :=
  String.ofList ((before.recs.zip after.recs).map fun (a, b) => if a.rest = b.rest then '=' else '*')

def observe (c : Ctx) (before : St) (q : Bytes) : String :=
  let s := c.st
  let uid := searchUserRaw s (copyInto IDSZ q)
  let recS := if uidValid uid then
      match recOf s uid with
      | some r => s!"{toHex r.id}:{toHex r.email}:{maskStr (maskOf c.pool r.hash)}"
      | none => "-"
    else "-"
  s!"uid={uid} rec={recS} used={used s} sess={s.sess.length} tbl={hex16 (tblDigest c.pool s)} rest={flags before s}"

def doOp (c : Option Ctx) (mk : Nat → Op) (q : Bytes) : Option Ctx × String :=
  match c with
  | none => (none, "bad-op")
  | some c =>
      let o := mk c.tick
      let (s', a) := step c.reserved c.st o
      let c' : Ctx := { c with st := s', tick := c.tick + 1 }
      (some c', s!"{showErr a.err} {showOut a.out} " ++ observe c' c.st q)

def hexArgs (ws : List String) : Option (List Bytes) := do
  let bs ← ws.mapM parseHex
  if bs.all bytesOk then some bs else none

/-! `conc <reps> <group> // <group> // …`, group = `<sub> / <sub> / …`, sub = `chk id pw` | `chpw id old new` |
`login id pw`: the harness runs the groups in concurrent goroutines (each repeats its sub-ops `reps` times, in
order); groups that write address different accounts, so every interleaving must answer like the groups run one
after the other — which is what the model does.  Answer: `conc n=<sub-ops run> ok=<answers without error>
h=<fnv64 of all error names, group-major> used=… sess=… tbl=… rest=…`. -/

def splitTok (sep : String) : List String → List (List String)
  | [] => [[]]
  | w :: ws =>
    match splitTok sep ws with
    | g :: gs => if w = sep then [] :: g :: gs else (w :: g) :: gs
    | [] => [[w]]

def parseSub (ws : List String) : Option (Nat → Op) :=
  match ws with
  | ["chk", id, pw] => match hexArgs [id, pw] with
      | some [i, p] => some fun _ => .checkPasswd i p
      | _ => none
  | ["chpw", id, o, n] => match hexArgs [id, o, n] with
      | some [i, a, b] => some fun t => .changePasswd i a b t
      | _ => none
  | ["login", id, pw] => match hexArgs [id, pw] with
      | some [i, p] => some fun t => .login i p t
      | _ => none
  | _ => none

structure Acc where
  st : St
  tick : Nat
  n : Nat
  ok : Nat
  h : UInt64

def runSubs (rsv : List Bytes) (a : Acc) (subs : List (Nat → Op)) : Acc :=
  subs.foldl (fun a mk =>
    let (s', r) := step rsv a.st (mk a.tick)
    { st := s', tick := a.tick + 1, n := a.n + 1, ok := if r.err = .none then a.ok + 1 else a.ok,
      h := (showErr r.err).toList.foldl (fun h ch => fnvStep h ch.toNat) (fnvStep a.h 32) }) a

def runGroup (rsv : List Bytes) (reps : Nat) (a : Acc) (subs : List (Nat → Op)) : Acc :=
  (List.range reps).foldl (fun a _ => runSubs rsv a subs) a

def doConc (c : Option Ctx) (repsS : String) (rest : List String) : Option Ctx × String :=
  match c, repsS.toNat? with
  | some c, some reps =>
      if reps = 0 ∨ reps > 1000 ∨ repsS.length > 4 then (some c, "bad-op") else
      match (splitTok "//" rest).mapM (fun g => (splitTok "/" g).mapM parseSub) with
      | none => (some c, "bad-op")
      | some groups =>
          if groups.isEmpty ∨ groups.length > 64 ∨ groups.any (fun g => g.isEmpty ∨ g.length > 64) then (some c, "bad-op") else
          let a0 : Acc := { st := c.st, tick := c.tick, n := 0, ok := 0, h := 14695981039346656037 }
          let a := groups.foldl (runGroup c.reserved reps) a0
          let c' : Ctx := { c with st := a.st, tick := a.tick }
          (some c', s!"conc n={a.n} ok={a.ok} h={hex16 a.h} used={used a.st} sess={a.st.sess.length} tbl={hex16 (tblDigest c.pool a.st)} rest={flags c.st a.st}")
  | c, _ => (c, "bad-op")

def stepC03 (c : Option Ctx) (ws : List String) : Option Ctx × String :=
  match ws with
  | "conc" :: reps :: rest => doConc c reps rest
  | ["reset", rsv, pool, slots] =>
      match parseList rsv, parseList pool, parseSlots (slots.splitOn ";") with
      | some rsv, some pool, some recs =>
          if recs.length ≠ MAX ∨ pool.isEmpty ∨ pool.length > 64 ∨ !(rsv.all bytesOk) ∨ !(pool.all bytesOk) ∨
              !(rsv.all fun r => !r.isEmpty && r.all (· > 32)) then (c, "bad-op") else
          let s : St := { recs := recs, sess := [] }
          (some { reserved := rsv, pool := pool, st := s, tick := 1000 },
            s!"ok used={used s} tbl={hex16 (tblDigest pool s)}")
      | _, _, _ => (c, "bad-op")
  | "reg" :: args =>
      match hexArgs args with
      | some [id, pw, em] => doOp c (fun t => .register id pw em t t) id
      | _ => (c, "bad-op")
  | "login" :: args =>
      match hexArgs args with
      | some [id, pw] => doOp c (fun t => .login id pw t) id
      | _ => (c, "bad-op")
  | "chk" :: args =>
      match hexArgs args with
      | some [id, pw] => doOp c (fun _ => .checkPasswd id pw) id
      | _ => (c, "bad-op")
  | "chpw" :: args =>
      match hexArgs args with
      | some [id, old, new] => doOp c (fun t => .changePasswd id old new t) id
      | _ => (c, "bad-op")
  | "chem" :: args =>
      match hexArgs args with
      | some [id, em] => doOp c (fun _ => .changeEmail id em) id
      | _ => (c, "bad-op")
  | "exists" :: args =>
      match hexArgs args with
      | some [id] => doOp c (fun _ => .exists_ id) id
      | _ => (c, "bad-op")
  | "get" :: args =>
      match hexArgs args with
      | some [id] => doOp c (fun _ => .getUser id) id
      | _ => (c, "bad-op")
  | _ => (c, "bad-op")

end C03Drv

def main : IO Unit := runHandler { init := (none : Option C03Drv.Ctx), step := C03Drv.stepC03 }
