import PttVerif.DriverLoop
import PttVerif.Model.C12
open PttVerif PttVerif.C12

/-
ops:
  layout
  reset <users> <letters> <dirs> <pool> <seed> <tail> <nrec> <slot>*nrec
      users   : csv of hex id[=level] (`.` = empty) or `-`         letters : hex of the <c> with boards/<c>, or `-`
      dirs    : csv of hex board-directory names or `-`         pool    : csv of hex names (≤ 13 bytes) or `-`
      slot    : <c|j>:<name hex>:<title hex>:<bm hex>:<attr>:<chess>:<level>:<gid>     (j: LCG filler in every
                other byte, c: zeros)
  busy on|off|<ms>                               Shm.BBusyState held by "another process" (until off / for <ms>)
  newbm <csv of hex ids | ->                      ptttype.NewBM on these UserID_t values: the 39 bytes of the BM_t
  bcreate <userid hex> <cls> <name hex> <class hex> <title hex> <bms csv hex|-> <attr> <level> <chess> <0|1> <autocplog 0|1>   bbs.CreateBoard
  create <user hex> <ulevel> <uid> <cls> <name hex> <class hex> <title hex> <bms hex|nil> <attr> <level> <chess> <0|1> <autocplog 0|1>
answers:
  reset  : ok <observation>
  create : <ok:bid|error class|PANIC|TIMEOUT> <observation>
-/

namespace C12Drv

/-! ### sort.Sort (go1.23 pdqsort_func / zsortinterface.go), on an array of values with `less` on values -/

abbrev Less := Nat → Nat → Bool

@[inline] def lt (less : Less) (d : Array Nat) (i j : Nat) : Bool := less d[i]! d[j]!

def insertionSort (less : Less) (d : Array Nat) (a b : Nat) : Array Nat := Id.run do
  let mut d := d
  for i in [a + 1 : b] do
    let mut j := i
    while j > a && lt less d j (j - 1) do
      d := d.swapIfInBounds j (j - 1)
      j := j - 1
  return d

def siftDown (less : Less) (d : Array Nat) (lo hi first : Nat) : Array Nat := Id.run do
  let mut d := d
  let mut root := lo
  repeat
    let mut child := 2 * root + 1
    if child ≥ hi then break
    if child + 1 < hi && lt less d (first + child) (first + child + 1) then child := child + 1
    if !lt less d (first + root) (first + child) then return d
    d := d.swapIfInBounds (first + root) (first + child)
    root := child
  return d

def heapSort (less : Less) (d : Array Nat) (a b : Nat) : Array Nat := Id.run do
  let mut d := d
  let first := a
  let hi := b - a
  let top := (hi - 1) / 2
  for k in [0 : top + 1] do
    d := siftDown less d (top - k) hi first
  for k in [0 : hi] do
    let i := hi - 1 - k
    d := d.swapIfInBounds first (first + i)
    d := siftDown less d 0 i first
  return d

def bitsLen (n : Nat) : Nat := if n = 0 then 0 else Nat.log2 n + 1

def xorNext (r : UInt64) : UInt64 :=
  let r := r ^^^ (r <<< 13)
  let r := r ^^^ (r >>> 17)
  r ^^^ (r <<< 5)

def breakPatterns (d : Array Nat) (a b : Nat) : Array Nat := Id.run do
  let length := b - a
  if length < 8 then return d
  let mut d := d
  let mut random : UInt64 := length.toUInt64
  let modulus : Nat := 2 ^ bitsLen length
  let lo := a + (length / 4) * 2 - 1
  for idx in [lo : lo + 3] do
    random := xorNext random
    let mut other := random.toNat % modulus     -- & (modulus-1), modulus a power of two
    if other ≥ length then other := other - length
    d := d.swapIfInBounds idx (a + other)
  return d

/-- `order2`: returns (x, y, swaps'). -/
def order2 (less : Less) (d : Array Nat) (a b swaps : Nat) : Nat × Nat × Nat :=
  if lt less d b a then (b, a, swaps + 1) else (a, b, swaps)

def median (less : Less) (d : Array Nat) (a b c swaps : Nat) : Nat × Nat :=
  let (a, b, swaps) := order2 less d a b swaps
  let (b, c, swaps) := order2 less d b c swaps
  let _ := c
  let (_, b, swaps) := order2 less d a b swaps
  (b, swaps)

/-- hints: 0 unknown, 1 increasing, 2 decreasing. -/
def choosePivot (less : Less) (d : Array Nat) (a b : Nat) : Nat × Nat := Id.run do
  let l := b - a
  let mut swaps := 0
  let mut i := a + l / 4 * 1
  let mut j := a + l / 4 * 2
  let mut k := a + l / 4 * 3
  if l ≥ 8 then
    if l ≥ 50 then
      let (i', s1) := median less d (i - 1) i (i + 1) swaps
      i := i'; swaps := s1
      let (j', s2) := median less d (j - 1) j (j + 1) swaps
      j := j'; swaps := s2
      let (k', s3) := median less d (k - 1) k (k + 1) swaps
      k := k'; swaps := s3
    let (j', s4) := median less d i j k swaps
    j := j'; swaps := s4
  if swaps = 0 then return (j, 1)
  else if swaps = 12 then return (j, 2)
  else return (j, 0)

def reverseRange (d : Array Nat) (a b : Nat) : Array Nat := Id.run do
  let mut d := d
  let mut i := a
  let mut j := b - 1
  while i < j do
    d := d.swapIfInBounds i j
    i := i + 1
    j := j - 1
  return d

/-- returns (data, sorted?). -/
def partialInsertionSort (less : Less) (d : Array Nat) (a b : Nat) : Array Nat × Bool := Id.run do
  let mut d := d
  let mut i := a + 1
  for _ in [0 : 5] do
    while i < b && !lt less d i (i - 1) do
      i := i + 1
    if i = b then return (d, true)
    if b - a < 50 then return (d, false)
    d := d.swapIfInBounds i (i - 1)
    if i - a ≥ 2 then
      let mut j := i - 1
      while j ≥ 1 do
        if !lt less d j (j - 1) then break
        d := d.swapIfInBounds j (j - 1)
        j := j - 1
    if b - i ≥ 2 then
      let mut j := i + 1
      while j < b do
        if !lt less d j (j - 1) then break
        d := d.swapIfInBounds j (j - 1)
        j := j + 1
  return (d, false)

/-- `partitionEqual`: returns (data, newpivot).  `j` may step to `a` (never below: `a+1 ≤ i ≤ j+1`). -/
def partitionEqual (less : Less) (d : Array Nat) (a b pivot : Nat) : Array Nat × Nat := Id.run do
  let mut d := d.swapIfInBounds a pivot
  let mut i := a + 1
  let mut j := b - 1
  repeat
    while i ≤ j && !lt less d a i do
      i := i + 1
    while i ≤ j && lt less d a j do
      j := j - 1
    if i > j then break
    d := d.swapIfInBounds i j
    i := i + 1
    j := j - 1
  return (d, i)

/-- `partition`: returns (data, newpivot, alreadyPartitioned). -/
def partition (less : Less) (d : Array Nat) (a b pivot : Nat) : Array Nat × Nat × Bool := Id.run do
  let mut d := d.swapIfInBounds a pivot
  let mut i := a + 1
  let mut j := b - 1
  while i ≤ j && lt less d i a do
    i := i + 1
  while i ≤ j && !lt less d j a do
    j := j - 1
  if i > j then
    d := d.swapIfInBounds j a
    return (d, j, true)
  d := d.swapIfInBounds i j
  i := i + 1
  j := j - 1
  repeat
    while i ≤ j && lt less d i a do
      i := i + 1
    while i ≤ j && !lt less d j a do
      j := j - 1
    if i > j then break
    d := d.swapIfInBounds i j
    i := i + 1
    j := j - 1
  d := d.swapIfInBounds j a
  return (d, j, false)

partial def pdqsort (less : Less) (d : Array Nat) (a b limit : Nat) : Array Nat := Id.run do
  let mut d := d
  let mut a := a
  let mut b := b
  let mut limit := limit
  let mut wasBalanced := true
  let mut wasPartitioned := true
  repeat
    let length := b - a
    if length ≤ 12 then return insertionSort less d a b
    if limit = 0 then return heapSort less d a b
    if !wasBalanced then
      d := breakPatterns d a b
      limit := limit - 1
    let (pivot0, hint0) := choosePivot less d a b
    let mut pivot := pivot0
    let mut hint := hint0
    if hint = 2 then
      d := reverseRange d a b
      pivot := (b - 1) - (pivot - a)
      hint := 1
    if wasBalanced && wasPartitioned && hint = 1 then
      let (d', done) := partialInsertionSort less d a b
      d := d'
      if done then return d
    if a > 0 && !lt less d (a - 1) pivot then
      let (d', mid) := partitionEqual less d a b pivot
      d := d'
      a := mid
      continue
    let (d', mid, already) := partition less d a b pivot
    d := d'
    wasPartitioned := already
    let leftLen := mid - a
    let rightLen := b - mid
    let balanceThreshold := length / 8
    if leftLen < rightLen then
      wasBalanced := leftLen ≥ balanceThreshold
      d := pdqsort less d a mid limit
      a := mid + 1
    else
      wasBalanced := rightLen ≥ balanceThreshold
      d := pdqsort less d (mid + 1) b limit
      b := mid
  return d

/-- `sort.Sort` of `0..n-1` with `Less(i,j) = key data[i] < key data[j]`. -/
def goSort : Sorter := fun key n =>
  if n ≤ 1 then List.range n
  else
    let keys : Array Bytes := (Array.range n).map key
    let less : Less := fun x y => decide (keys[x]! < keys[y]!)
    (pdqsort less (Array.range n) 0 n (bitsLen n)).toList

/-- run-time check of `SortSpec` on one output (adjacent pairs; `<` on keys is transitive). -/
def sortOK (key : Nat → Bytes) (n : Nat) (out : List Nat) : Bool :=
  let seen := out.foldl (fun (a : Array Bool) x => if x < n then a.set! x true else a) (Array.replicate n false)
  out.length == n && seen.all id &&
    (out.zip (out.drop 1)).all fun (x, y) => !decide (key y < key x)

/-! ### tokens -/

def isDigits (ds : List Char) : Bool := !ds.isEmpty && ds.all fun c => '0' ≤ c && c ≤ '9'
def digitsVal (ds : List Char) : Nat := ds.foldl (fun a c => a * 10 + (c.toNat - 48)) 0

def parseNat (s : String) (maxDigits : Nat) : Option Nat :=
  let ds := s.toList
  if isDigits ds && ds.length ≤ maxDigits then some (digitsVal ds) else none

def parseU32 (s : String) : Option Nat :=
  match parseNat s 10 with
  | some n => if n ≤ 4294967295 then some n else none
  | none => none

def parseI32 (s : String) : Option Int :=
  let cs := s.toList
  let (neg, ds) := match cs with
    | '-' :: r => (true, r)
    | _ => (false, cs)
  if !(isDigits ds && ds.length ≤ 10) then none else
  let n := digitsVal ds
  if neg then (if n ≤ 2147483648 then some (-(n : Int)) else none)
  else (if n ≤ 2147483647 then some (n : Int) else none)

/-- hex bytes, `-` = empty, at most `maxLen` bytes. -/
def parseBytes (s : String) (maxLen : Nat) : Option Bytes :=
  if s = "" then none else
  match parseHex s with
  | some bs => if bs.length ≤ maxLen then some bs else none
  | none => none

/-- csv of hex tokens (`.` = the empty byte string inside a list), `-` = the empty list. -/
def parseCsvBytes (s : String) (maxLen : Nat) : Option (List Bytes) :=
  if s = "-" then some []
  else (s.splitOn ",").mapM fun t => if t = "." then some [] else
    (if t = "-" then none else parseBytes t maxLen)

/-- the user column of a reset line: csv of `<hex id>` or `<hex id>=<level>` (`.` = empty slot), `-` = none. -/
def parseUsers (s : String) : Option (List (Bytes × Nat)) :=
  if s = "-" then some []
  else (s.splitOn ",").mapM fun t =>
    if t = "." then some ([], 0) else
    match t.splitOn "=" with
    | [h] => if h = "-" then none else (parseBytes h 13).map fun b => (b, 0)
    | [h, l] => if h = "-" then none else
        match parseBytes h 13, parseU32 l with
        | some b, some l => some (b, l)
        | _, _ => none
    | _ => none

/-! ### record images -/

def fieldOff (name : String) : Nat :=
  match Gen.NewBoard.fields.find? (·.1 = name) with
  | some (_, off, _) => off
  | none => 0

def le32 (v : Nat) : Bytes := [v % 256, v / 256 % 256, v / 65536 % 256, v / 16777216 % 256]
def dec32 (bs : Bytes) : Nat :=
  bs.getD 0 0 + 256 * bs.getD 1 0 + 65536 * bs.getD 2 0 + 16777216 * bs.getD 3 0

def overlay (img : Array Nat) (off : Nat) (bs : Bytes) : Array Nat := Id.run do
  let mut a := img
  let mut k := off
  for b in bs do
    a := a.setIfInBounds k b
    k := k + 1
  return a

def sliceA (img : Array Nat) (off n : Nat) : Bytes := (img.extract off (off + n)).toList

/-- the 256 bytes of a header. -/
def image (r : Rec) : Array Nat :=
  let a := (copyInto 256 r.other).toArray
  let a := overlay a (fieldOff "Brdname") (copyInto 13 r.name)
  let a := overlay a (fieldOff "Title") (copyInto 49 r.title)
  let a := overlay a (fieldOff "BM") (copyInto 39 r.bm)
  let a := overlay a (fieldOff "BrdAttr") (le32 r.attr)
  let a := overlay a (fieldOff "ChessCountry") [r.chess % 256]
  let a := overlay a (fieldOff "Level") (le32 r.level)
  let a := overlay a (fieldOff "Gid") (le32 r.gid)
  overlay a (fieldOff "FirstChild") (copyInto 8 r.fc)

def ofImage (img : Array Nat) : Rec :=
  let o := img
  let o := overlay o (fieldOff "Brdname") (zeros 13)
  let o := overlay o (fieldOff "Title") (zeros 49)
  let o := overlay o (fieldOff "BM") (zeros 39)
  let o := overlay o (fieldOff "BrdAttr") (zeros 4)
  let o := overlay o (fieldOff "ChessCountry") (zeros 1)
  let o := overlay o (fieldOff "Level") (zeros 4)
  let o := overlay o (fieldOff "Gid") (zeros 4)
  let o := overlay o (fieldOff "FirstChild") (zeros 8)
  { name := sliceA img (fieldOff "Brdname") 13, title := sliceA img (fieldOff "Title") 49,
    bm := sliceA img (fieldOff "BM") 39, attr := dec32 (sliceA img (fieldOff "BrdAttr") 4),
    chess := (sliceA img (fieldOff "ChessCountry") 1).getD 0 0, level := dec32 (sliceA img (fieldOff "Level") 4),
    gid := dec32 (sliceA img (fieldOff "Gid") 4), fc := sliceA img (fieldOff "FirstChild") 8, other := o.toList }

def lcgFill (seed : Nat) (n : Nat) : Array Nat := Id.run do
  let mut x : UInt64 := seed.toUInt64
  let mut a : Array Nat := Array.mkEmpty n
  for _ in [0:n] do
    x := x * 6364136223846793005 + 1442695040888963407
    a := a.push (x >>> 56).toNat
  return a

/-! ### digests -/

def fnvStep (h : UInt64) (b : Nat) : UInt64 := (h ^^^ b.toUInt64) * 1099511628211
def fnvInit : UInt64 := 14695981039346656037
def fnvA (bs : Array Nat) : UInt64 := bs.foldl fnvStep fnvInit
def fnvU64 (h : UInt64) (v : UInt64) : UInt64 := Id.run do
  let mut h := h
  for k in [0:8] do
    h := fnvStep h ((v >>> (8 * k).toUInt64).toNat % 256)
  return h

def hex16 (h : UInt64) : String :=
  let n := h.toNat
  String.ofList ((List.range 16).map fun i => hexChar (n / 16 ^ (15 - i) % 16))

/-- digest of a list of records: FNV over the 8 little-endian bytes of each record's FNV, then `extra`. -/
def digestRecs (rs : List Rec) (extra : Bytes) : String :=
  let h := rs.foldl (fun h r => fnvU64 h (fnvA (image r))) fnvInit
  hex16 (extra.foldl fnvStep h)

def csvNat (xs : List Nat) : String := if xs.isEmpty then "-" else ",".intercalate (xs.map toString)
def csvInt (xs : List Int) : String := if xs.isEmpty then "-" else ",".intercalate (xs.map toString)

def bytesLt (a b : Bytes) : Bool := decide (a < b)

def insertSorted (x : Bytes) : List Bytes → List Bytes
  | [] => [x]
  | y :: ys => if bytesLt y x then y :: insertSorted x ys else x :: y :: ys

def sortBytes (xs : List Bytes) : List Bytes := xs.foldl (fun acc x => insertSorted x acc) []

/-! ### driver state -/

structure DS where
  s : State
  pool : List Bytes
  levels : List Nat := []
  busy : Bool := false
  sortBad : Bool := false

/-- the sorter the driver runs the model with: Go's, remembering whether any output broke `SortSpec`
(checked again from the state after every op, see `checkSorted`). -/
def drvSort : Sorter := goSort

def checkSorted (s : State) : Bool :=
  sortOK (nameKeyAt s.cache) s.bnumber (s.sortedN.take s.bnumber) &&
  sortOK (classKeyAt s.cache) s.bnumber (s.sortedC.take s.bnumber)

def changed (old new : List Rec) : List Nat :=
  (List.range (max old.length new.length)).filter fun i => old[i]? != new[i]?

def showRes : Res → String
  | .ok b => s!"ok:{b}"
  | .invalidBid => "invalid-bid"
  | .notPermitted => "not-permitted"
  | .invalidName => "invalid-name"
  | .nameExists => "exists"
  | .mkdirExist => "mkdir-exist"
  | .mkdirNoent => "mkdir-noent"
  | .tooMany => "too-many"
  | .io => "io"

def observe (pool : List Bytes) (old s : State) (slot : Option Nat) : String :=
  let chg := changed old.brd s.brd
  let cchg := changed old.cache s.cache
  let rec_ := match slot with
    | some k => (match s.brd[k]? with | some r => toHex (image r).toList | none => "-")
    | none => "-"
  let cac := match slot with
    | some k => (match s.cache[k]? with | some r => toHex (image r).toList | none => "-")
    | none => "-"
  let bmc := match slot with
    | some k => csvInt (s.bmcache.getD k [])
    | none => "-"
  let idx := pool.map fun p => showM toString (getBid s (copyInto 13 p))
  let bmcd := hex16 ((s.bmcache.flatten.map fun (v : Int) => (v % 4294967296).toNat).foldl
    (fun h v => (le32 v).foldl fnvStep h) fnvInit)
  s!"bn={s.bnumber} nrec={s.brd.length} tail={s.tail.length} chg={csvNat chg} cchg={csvNat cchg} " ++
  s!"brd={digestRecs s.brd s.tail} cached={digestRecs s.cache []} rec={rec_} cache={cac} bmc={bmc} bmcd={bmcd} " ++
  s!"idx={if idx.isEmpty then "-" else ",".intercalate idx} sn={csvNat (s.sortedN.take s.bnumber)} " ++
  s!"sc={csvNat (s.sortedC.take s.bnumber)} dirs={if s.dirs.isEmpty then "-" else ",".intercalate ((sortBytes s.dirs).map toHex)}"

def parseSlot (seed : Nat) (i : Nat) (tok : String) : Option Rec :=
  match tok.splitOn ":" with
  | [fl, nm, ti, bm, at_, ch, lv, gd] =>
      match parseBytes nm 13, parseBytes ti 49, parseBytes bm 39, parseU32 at_, parseNat ch 3, parseU32 lv, parseU32 gd with
      | some nm, some ti, some bm, some at_, some ch, some lv, some gd =>
          if ch > 255 then none else
          if fl ≠ "c" ∧ fl ≠ "j" then none else
          let base : Array Nat := if fl = "j" then lcgFill (seed + 1000003 * (i + 1)) 256 else Array.replicate 256 0
          let r0 := ofImage base
          some { r0 with name := copyInto 13 nm, title := copyInto 49 ti, bm := copyInto 39 bm, attr := at_,
                         chess := ch, level := lv, gid := gd }
      | _, _, _, _, _, _, _ => none
  | _ => none

def layoutLine : String :=
  let f := Gen.NewBoard.fields.map fun (n, o, z) => s!"{n}={o}/{z}"
  s!"max={Gen.NewBoard.maxBoard} idlen={Gen.NewBoard.idLen} maxbms={Gen.NewBoard.maxBMs} maxusers={Gen.NewBoard.maxUsers} " ++
  s!"rec={Gen.NewBoard.recSize} {" ".intercalate f} uidsz={Gen.NewBoard.userIdSize} " ++
  s!"group={Gen.NewBoard.brdGroupBoard} hide={Gen.NewBoard.brdHide} postmask={Gen.NewBoard.brdPostMask} cplog={Gen.NewBoard.brdCpLog} " ++
  s!"basic={Gen.NewBoard.permBasic} loginok={Gen.NewBoard.permLoginOK} bm={Gen.NewBoard.permBM} board={Gen.NewBoard.permBoard} " ++
  s!"sysop={Gen.NewBoard.permSysop} police={Gen.NewBoard.permPolice} policeman={Gen.NewBoard.permPoliceMan} " ++
  s!"autocplog={Gen.NewBoard.defaultAutoCpLog} symg={toHex Gen.NewBoard.symbolGroup} symb={toHex Gen.NewBoard.symbolBoard}"

def emptyState : State :=
  { brd := [], tail := [], cache := List.replicate MAXB Rec.zero, bnumber := 0,
    sortedN := List.replicate MAXB 0, sortedC := List.replicate MAXB 0,
    bmcache := List.replicate MAXB [0, 0, 0, 0], users := [], letters := [], dirs := [] }

def doReset (ws : List String) : Option (DS × String) :=
  match ws with
  | users :: letters :: dirs :: pool :: seed :: tail :: nrec :: slots =>
      match parseUsers users, parseBytes letters 256, parseCsvBytes dirs 13, parseCsvBytes pool 13,
            parseNat seed 19, parseNat tail 3, parseNat nrec 3 with
      | some users, some letters, some dirs, some pool, some seed, some tail, some nrec =>
          if users.length > MAXU ∨ tail ≥ 256 ∨ nrec > 2 * MAXB ∨ slots.length ≠ nrec then none else
          match (slots.zipIdx).mapM (fun (t, i) => parseSlot seed i t) with
          | none => none
          | some recs =>
              let tailBytes := (lcgFill (seed + 7) tail).toList
              let s0 : State := { emptyState with brd := recs, tail := tailBytes, users := users.map (copyInto 13 ·.1),
                                                  letters := letters, dirs := dirs }
              -- ReloadBCache: the whole file (torn tail included) is copied over BCache
              let n := min recs.length MAXB
              let c0 := recs.take MAXB ++ s0.cache.drop n
              let c1 := if tail > 0 ∧ n < MAXB then c0.set n (ofImage (copyInto 256 tailBytes).toArray) else c0
              let s1 := sortBCache drvSort { s0 with cache := c1, bnumber := n }
              let ds : DS := { s := s1, pool := pool, levels := users.map (·.2) }
              some (ds, "ok " ++ observe pool s0 s1 none)
      | _, _, _, _, _, _, _ => none
  | _ => none

def parseReq (ws : List String) : Option Req :=
  match ws with
  | [user, ulevel, uid, cls, name, bclass, btitle, bms, attr, level, chess, g, auto] =>
      match parseBytes user 13, parseU32 ulevel, parseI32 uid, parseI32 cls, parseBytes name 13, parseBytes bclass 64,
            parseBytes btitle 128, (if bms = "nil" then some none else (parseBytes bms 39).map some), parseU32 attr,
            parseU32 level, parseNat chess 3 with
      | some user, some ulevel, some uid, some cls, some name, some bclass, some btitle, some bms, some attr,
        some level, some chess =>
          if chess > 255 ∨ (g ≠ "0" ∧ g ≠ "1") ∨ (auto ≠ "0" ∧ auto ≠ "1") then none else
          some { user := copyInto 13 user, ulevel := ulevel, uid := uid, cls := cls, name := copyInto 13 name,
                 bclass := bclass, btitle := btitle, bms := bms.map (copyInto 39), attr := attr, level := level,
                 chess := chess, isGroup := g = "1", autoCpLog := auto = "1" }
      | _, _, _, _, _, _, _, _, _, _, _ => none
  | _ => none

def parseBbs (ws : List String) : Option BbsArgs :=
  match ws with
  | [user, cls, name, bclass, btitle, bms, attr, level, chess, g, auto] =>
      match parseBytes user 32, parseI32 cls, parseBytes name 32, parseBytes bclass 64, parseBytes btitle 128,
            parseCsvBytes bms 16, parseU32 attr, parseU32 level, parseNat chess 3 with
      | some user, some cls, some name, some bclass, some btitle, some bms, some attr, some level, some chess =>
          if chess > 255 ∨ (g ≠ "0" ∧ g ≠ "1") ∨ (auto ≠ "0" ∧ auto ≠ "1") then none else
          some { userID := user, cls := cls, name := name, bclass := bclass, btitle := btitle, bms := bms,
                 attr := attr, level := level, chess := chess, isGroup := g = "1", autoCpLog := auto = "1" }
      | _, _, _, _, _, _, _, _, _ => none
  | _ => none

def showBbs : BbsRes → String
  | .invalidParams => "invalid-params"
  | .invalidUser => "invalid-user"
  | .inner r => showRes r

def stepC12 (st : Option DS) (ws : List String) : Option DS × String :=
  match ws with
  | ["layout"] => (st, layoutLine)
  | "reset" :: rest =>
      match doReset rest with
      | some (ds, out) => (some ds, if checkSorted ds.s then out else "sortspec-violated " ++ out)
      | none => (st, "bad-op")
  | ["newbm", ids] =>
      match parseCsvBytes ids 13 with
      | some ids => (st, toHex (newBM (ids.map (copyInto 13))))
      | none => (st, "bad-op")
  | ["busy", w] =>
      match st with
      | none => (st, "bad-op")
      | some ds =>
          if w = "on" then (some { ds with busy := true }, "ok")
          else if w = "off" then (some { ds with busy := false }, "ok")
          else match parseNat w 4 with
            | some _ => (st, "ok")      -- a timed window: only requests refused before it matters follow (see gen.go)
            | none => (st, "bad-op")
  | "bcreate" :: rest =>
      match st, parseBbs rest with
      | some ds, some a =>
          if ds.busy then (st, "bad-op") else
          let (s', r) := bbsCreate drvSort ds.s ds.levels a
          let slot := match r with
            | .ok (.inner (.ok b)) => some (b - 1)
            | _ => none
          let out := showM showBbs r ++ " " ++ observe ds.pool ds.s s' slot
          (some { ds with s := s' }, if checkSorted s' || r.toBool = false then out else "sortspec-violated " ++ out)
      | _, _ => (st, "bad-op")
  | "create" :: rest =>
      match st, parseReq rest with
      | some ds, some q =>
          let (s', r) := if ds.busy then newBoardBusy ds.s q else newBoard drvSort ds.s q
          let slot := match r with
            | .ok (.ok b) => some (b - 1)
            | _ => none
          let out := showM showRes r ++ " " ++ observe ds.pool ds.s s' slot
          (some { ds with s := s' }, if ds.busy || checkSorted s' || r.toBool = false then out else "sortspec-violated " ++ out)
      | _, _ => (st, "bad-op")
  | _ => (st, "bad-op")

end C12Drv

def main : IO Unit := runHandler { init := (none : Option C12Drv.DS), step := C12Drv.stepC12 }
