import PttVerif.DriverLoop
import PttVerif.Model.C09
open PttVerif PttVerif.C09

/-!
ops (all byte strings in hex, `-` = empty):
  consts
  reset  b:<name>:<index bytes> (B: = the same with a cold cached total) ...  u:<UserID array>:<uid>:<nickname>:<numposts> ...
  post   <board> <dirBoard> <userID> <flags> <ip> <from> <class> <title> <lines>
         flags ⊆ "raocn" or "-": r = may keep the announcement tag, a = anonymous board, o = open board (ALLPOST copy),
         c = credited, n = not permitted (the request is refused before anything is written)
         lines = "." (none) or comma separated hex lines
  timezone <zone name>   TIME_LOCATION set through the ini file + types.InitConfig; prints the zone in effect
  config <5 bits>    HAVE_ANONYMOUS ALLOW_FREE_TN_ANNOUNCE USE_POST_ENTROPY QUERY_ARTICLE_URL USE_AID_URL for the posts
                     that follow (reset restores the defaults of the source)
  load   <session> <userID>                    keep a freshly loaded user record under a session name
  postas <session> <board> <dirBoard> <flags> <ip> <from> <class> <title> <lines>
                                               ptt.NewPost with the kept (possibly stale) record; prints its NumPosts as cnp=
  postfail <limit> <the nine tokens of post>   the same request while article files cannot grow beyond <limit> bytes
  defuse <line>      ptt.StripANSIMoveCmd
  trim   <line>      cmsys.Trim
Environment choices are instantiated with fixed placeholders; the harness masks the same fields.
-/

def fnv64 (bs : List Nat) : UInt64 :=
  bs.foldl (fun h b => (h ^^^ (UInt64.ofNat b)) * 1099511628211) 14695981039346656037

def hex16 (h : UInt64) : String :=
  let n := h.toNat
  String.ofList ((List.range 16).reverse.map fun i => hexChar (n / 16 ^ i % 16))

def phName : List Nat := "M.TTTTTTTTTT.A.XXX".toList.map Char.toNat
def phEnv : Env :=
  { name := phName, date := "DD/DD".toList.map Char.toNat, mtime := 0,
    ctime := List.replicate 24 67, logDate := 0, xtitle := [], xmtime := 0 }

def parseLines (s : String) : Option (List (List Nat)) :=
  if s = "." then some [] else (s.splitOn ",").mapM parseHex

def parseFlags (s : String) : Option (List Char) :=
  if s = "-" then some []
  else if s.toList.all (fun c => "raocn".toList.contains c) ∧ s.toList.eraseDups.length = s.length then some s.toList
  else none

def parseNat? (s : String) : Option Nat :=
  if s.length = 0 ∨ s.length > 9 then none else s.toNat?

/-- driver state: the model state and, per declared user, uid and nickname. -/
structure DSt where
  st : St
  utab : List (List Nat × Nat × List Nat)
  sessions : List Session := []
  cfg : Cfg := {}
  tz : TZ := ⟨"Asia/Taipei", "Asia/Taipei"⟩

def parseReset (toks : List String) : Option DSt :=
  toks.foldlM (init := ({ st := { boards := [], users := [], postLog := C05.FS.absent }, utab := [] } : DSt)) fun d t =>
    let s := d.st
    match t.splitOn ":" with
    | ["b", n, ix] => do
        let n ← parseHex n
        let ix ← parseHex ix
        if (findBoard s.boards n).isSome then none
        else pure { d with st := { s with boards := s.boards ++ [{ name := n, dir := ⟨true, ix⟩, files := [], total := ix.length / dirSz }] } }
    | ["B", n, ix] => do          -- the same board with a COLD cached total (0: not counted since the last reload)
        let n ← parseHex n
        let ix ← parseHex ix
        if (findBoard s.boards n).isSome then none
        else pure { d with st := { s with boards := s.boards ++ [{ name := n, dir := ⟨true, ix⟩, files := [], total := 0 }] } }
    | ["u", id, uid, nick, np] => do
        let id ← parseHex id
        let uid ← parseNat? uid
        let nick ← parseHex nick
        let np ← parseNat? np
        if (s.users.find? (·.1 == id)).isSome ∨ id.length ≠ ID_SZ then none
        else pure { d with st := { s with users := s.users ++ [(id, np)] }, utab := d.utab ++ [(id, uid, nick)] }
    | _ => none

def showCount (s : St) (n : List Nat) : String :=
  match findBoard s.boards n with
  | some b => toString (b.dir.bytes.length / dirSz)
  | none => "-"

def showDir (s : St) (n : List Nat) : String :=
  match findBoard s.boards n with
  | some b => hex16 (fnv64 b.dir.bytes)
  | none => "-"

def showTotal (s : St) (n : List Nat) : String :=
  match findBoard s.boards n with
  | some b => toString b.total
  | none => "-"

def showNp (s : St) (id : List Nat) : String :=
  match s.users.find? (·.1 == id) with
  | some u => toString u.2
  | none => "-"

def stateLine (s : St) (q : Req) : String :=
  s!"dir={showDir s q.dirBoard} n={showCount s q.dirBoard} total={showTotal s q.board} dtotal={showTotal s q.dirBoard} np={showNp s q.userID} x={showCount s ALLPOST} xt={showTotal s ALLPOST} loglen={s.postLog.bytes.length}"

def b2s (b : Bool) : String := if b then "1" else "0"

def constsLine : String :=
  let g (n : String) (v : List Nat) := n ++ "=" ++ toHex v
  " ".intercalate [
    g "tn" Gen.Post.TN_ANNOUNCE_BIG5, g "a1" Gen.Post.STR_AUTHOR1_BIG5, g "p1" Gen.Post.STR_POST1_BIG5,
    g "ti" Gen.Post.STR_TITLE_BIG5, g "tm" Gen.Post.STR_TIME_BIG5, g "bbs" Gen.Post.STR_BBS_BIG5,
    g "from" Gen.Post.STR_FROM_BIG5, g "url" Gen.Post.STR_URL_DISPLAYNAME_BIG5, g "name" Gen.Post.BBSNAME_BIG5,
    g "host" Gen.Post.MYHOSTNAME, g "pfx" Gen.Post.URL_PREFIX, g "anid" Gen.Post.ANONYMOUS_ID,
    g "annick" Gen.Post.ANONYMOUS_NICKNAME, g "anhost" Gen.Post.ANONYMOUS_HOST,
    g "move" Gen.Post.PATTERN_ANSI_MOVECMD, g "code" Gen.Post.PATTERN_ANSI_CODE,
    s!"ttlen={Gen.Post.TTLEN} idlen={Gen.Post.IDLEN} fanon={Gen.Post.FILE_ANONYMOUS} esc={Gen.Post.ESC_CHR}",
    s!"maxmoney={Gen.Post.MAX_POST_MONEY} entmax={Gen.Post.ENTROPY_MAX} dirsz={dirSz} logsz={logSz}",
    "sw=" ++ b2s Gen.Post.ALLOW_FREE_TN_ANNOUNCE ++ b2s Gen.Post.HAVE_ANONYMOUS ++ b2s Gen.Post.USE_POST_ENTROPY
      ++ b2s Gen.Post.QUERY_ARTICLE_URL ++ b2s Gen.Post.USE_AID_URL]

def lastRecord (f : C05.FS) (sz : Nat) : List Nat :=
  let n := f.bytes.length / sz
  if n = 0 then [] else C05.record f.bytes sz (n - 1)

def parseReq (d : DSt) (toks : List String) : Option (Req × Bool) :=
  match toks with
  | [board, dirBoard, user, flags, ip, frm, cls, title, lines] => do
    let board ← parseHex board
    let dirBoard ← parseHex dirBoard
    let user ← parseHex user
    let (_, uid, nick) ← d.utab.find? (·.1 == user)
    let _ ← findBoard d.st.boards board
    let fl ← parseFlags flags
    let ip ← parseHex ip
    let frm ← parseHex frm
    let cls ← parseHex cls
    let title ← parseHex title
    let lines ← parseLines lines
    pure ({ board := board, dirBoard := dirBoard, userID := user, nick := nick, uid := uid,
            role := fl.contains 'r', anon := fl.contains 'a', isOpen := fl.contains 'o',
            credit := fl.contains 'c', ip := ip, frm := frm, cls := cls, title := title, lines := lines, cfg := d.cfg },
          fl.contains 'n')
  | _ => none

/-- run a post-like session operation and print its canonical line; `sess` ≠ "" adds the caller's copy. -/
def runPostOp (d : DSt) (q : Req) (refused : Bool) (op : SOp) (sess : String) : Option DSt × String :=
  let s := d.st
  let cnp (ss : List Session) : String :=
    if sess = "" then "" else
      match parseHex sess with
      | some n => " cnp=" ++ ((findSession ss n).map (fun x => toString x.numPosts)).getD "-"
      | none => ""
  if refused then (some d, "refused " ++ stateLine s q ++ cnp d.sessions)
  else
    match stepS ⟨d.st, d.sessions⟩ op with
    | .error e => (some d, toString e ++ " " ++ stateLine s q ++ cnp d.sessions)
    | .ok (s', o) =>
      let d' := { d with st := s'.st, sessions := s'.sessions }
      match o with
      | some .badBoardID => (some d', "bad-board-id " ++ stateLine s'.st q ++ cnp s'.sessions)
      | some .noBoard => (some d', "no-board " ++ stateLine s'.st q ++ cnp s'.sessions)
      | some (.posted p) =>
        let xrec := if q.isOpen ∧ (findBoard s.boards ALLPOST).isSome then toHex p.xrecord else "-"
        (some d', s!"ok st={toHex (cstr (p.title.take TITLE_SZ))} rec={toHex p.record} file={toHex p.content} log={toHex p.logRec} xrec={xrec} "
                    ++ stateLine s'.st q ++ cnp s'.sessions)
      | none => (some d', "bad-op")

def stepC09 (st : Option DSt) (ws : List String) : Option DSt × String :=
  match ws with
  | ["consts"] => (st, constsLine)
  | "reset" :: toks =>
    match parseReset toks with
    | some s => (some s, "ok")
    | none => (st, "bad-op")
  | ["timezone", z] =>
    match st, parseHex z with
    | some d, some zb =>
      let name := String.ofList (zb.map Char.ofNat)
      let tz := initConfigTZ d.tz (some name)
      (some { d with tz := tz }, "ok zone=" ++ tz.zone)
    | _, _ => (st, "bad-op")
  | ["config", bits] =>
    match st, bits.toList with
    | some d, [a, b, c, u, v] =>
      if [a, b, c, u, v].all (fun x => x = '0' ∨ x = '1') then
        (some { d with cfg := { haveAnonymous := a = '1', allowFreeTn := b = '1', usePostEntropy := c = '1',
                                queryURL := u = '1', useAidURL := v = '1' } }, "ok")
      else (st, "bad-op")
    | _, _ => (st, "bad-op")
  | ["defuse", h] =>
    match parseHex h with
    | some l => (st, showM toHex (stripANSIMoveCmd l))
    | none => (st, "bad-op")
  | ["trim", h] =>
    match parseHex h with
    | some l => (st, toHex (trim l))
    | none => (st, "bad-op")
  | ["post", board, dirBoard, user, flags, ip, frm, cls, title, lines] =>
    match st with
    | none => (st, "bad-op")
    | some d =>
      match parseReq d [board, dirBoard, user, flags, ip, frm, cls, title, lines] with
      | none => (st, "bad-op")
      | some (q, refused) => runPostOp d q refused (.create q phEnv) ""
  | ["load", sess, user] =>
    match st with
    | none => (st, "bad-op")
    | some d =>
      match parseHex sess, parseHex user with
      | some sess, some user =>
        if (d.utab.find? (·.1 == user)).isNone then (st, "bad-op")
        else match stepS ⟨d.st, d.sessions⟩ (.load sess user) with
          | .ok (s', _) => (some { d with st := s'.st, sessions := s'.sessions },
                            "ok np=" ++ ((findSession s'.sessions sess).map (fun x => toString x.numPosts)).getD "-")
          | .error e => (st, toString e)
      | _, _ => (st, "bad-op")
  | ["postas", sess, board, dirBoard, flags, ip, frm, cls, title, lines] =>
    match st with
    | none => (st, "bad-op")
    | some d =>
      match parseHex sess with
      | none => (st, "bad-op")
      | some sess =>
        match findSession d.sessions sess with
        | none => (st, "bad-op")
        | some x =>
          match parseReq d [board, dirBoard, toHex x.userID, flags, ip, frm, cls, title, lines] with
          | none => (st, "bad-op")
          | some (q, refused) => runPostOp d q refused (.postAs sess q phEnv) (toHex sess)
  | ["postfail", lim, board, dirBoard, user, flags, ip, frm, cls, title, lines] =>
    match st, parseNat? lim with
    | some d, some _ =>
      let s := d.st
      match parseReq d [board, dirBoard, user, flags, ip, frm, cls, title, lines] with
      | none => (st, "bad-op")
      | some (q, refused) =>
        if refused then (st, "refused " ++ stateLine s q)
        else if q.dirBoard ≠ q.board then (st, "bad-board-id " ++ stateLine s q)
        else
          match postWriteFails s q phEnv with
          | .error e => (st, toString e ++ " " ++ stateLine s q)
          | .ok s' => (some { d with st := s' }, "failed " ++ stateLine s' q)
    | _, _ => (st, "bad-op")
  | _ => (st, "bad-op")

def main : IO Unit := runHandler { init := (none : Option DSt), step := stepC09 }
