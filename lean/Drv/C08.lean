import PttVerif.DriverLoop
import PttVerif.Model.C08
open PttVerif PttVerif.C08

/-
ops (every line starts with `reset`: the harness rebuilds its fixture from the line itself):

  reset <op> <facts>                 op ∈ newpost | recommend | editpost | crosspost
  reset witness <name> <op> <facts>  the same, plus: are the facts the Lean witness row of that name?
  reset flood nu=<int32> k=<1..40> bc=<0|1>
                                     k posts in a row by a verified non-sysop user on a plain board with NUser=nu
                                     (bc: BRD_COOLDOWN set), the cool-down word carried from post to post
  reset friends <op> <restricted|hidden> <steps>
                                     a history on the friend list (`visable`) of the written board, which is restricted-post
                                     resp. hidden+postmask; everything else as in the base row.  steps, `/`-separated, ≤ 24, ≥ 1 P:
                                       L:<names>  write the list and call cache.HbflReload      W:<names>  write the list only
                                       X  let the loaded list expire (reload at the next look-up)  D  remove the list file, HbflReload
                                       P  the user performs <op>
                                     names: comma separated, `-` = empty; u U the user, c p k other accounts, g G guest, z unknown id,
                                     e empty first field; `x*n` repeats (n ≤ 120).   answer: one `ok|err:<id>:same|changed` per P
  reset banrec <op> <steps>            a history on the user's ban record for the written board (plain board, base user).  steps ≤ 16, ≥ 1 P:
                                       S:<none|act|exp|junk|empty|dir>  put the record into that state
                                       B  a moderator's session creates the record (empty) and keeps it open     F  it writes the ban
                                          (now+3600) through the handle it holds and closes it
                                       P  the user performs <op>      answer per P: ok|err:<id> : same|changed : none|file|dir (the record afterwards)
  reset bmfield <op> <tokens>        the BM field of the written board is the tokens joined by `/` (≤ 38 bytes), its moderator cache is
                                     rebuilt with cache.ParseBMList; the board demands 2550 login days; the 12-character account
                                     `verifuverifu` (100 days) performs <op>.  tokens: V v Vx Vxx c p k s z e (see bmToken)
  reset bbsid <board> <name hex>     the request id "<bid of board>_<name>" goes through bbs.BBoardID.ToRaw; if accepted, ptt.NewPost
                                     with what it returned.  Board vsrc demands 2550 login days.  answer: err:idmismatch same | <newpost>
  reset thread ao=<self|other> at=<int32> <steps>
                                     a history on ONE article of board vsrc (CPLOG set) written under the id `verifu` (self) or another
                                     id, its entry's Modified starting at `at`.  steps, `/`-separated, ≤ 16, ≥ 1 T:
                                       R  another account comments (Recommend)     C  another account cross-posts it (forward comment)
                                       E  a sysop edits it                         Ta Tb Tl  the account `verifu` with FirstLogin
                                       1000000000 / 1500000000 (= the article's creation) / 1550000000 (a LATER account) tries EditPost
                                     answer: one `<step>:ok|err:<id>:same|changed` per step
  facts                              print the regenerated source-shape facts

<facts> = 34 tokens `key=value` in this order:
  id ul ud ub uo uf   sn sa sl sg sp su sf sm sb   tn ta tl tg tp tu tf tm tb   a0 af an ae ao am at ax   cd pt
  hex: id ul sn sa sl tn ta tl an ae ao ("-" = empty);  decimal: ud ub uf sg sp su tg tp tu am at (int32: the entry's Modified) pt;  0/1: uo sf sm tf tm a0 af ax
  sb/tb ∈ none|act|exp|junk|empty|dir (ban record: absent / expiry now+3600 / now-3600 / unparsable number /
  exists but empty / is a directory);
  cd ∈ exp|act|max|neg|negact (cool-down time part: 0 / now+600 masked / 0x7FFFFFF0 / 0 resp. now+600 with bit 31 of the word set)

answers:  ok|err:<identifier|lookup> same|changed [wit=yes|no]     flood: r1,r2,…,rk pt=<n>
The model's clock is the constant `fixedNow`; only offsets from "now" enter the lines.
-/

namespace C08Drv

def isDigits (ds : List Char) : Bool := !ds.isEmpty && ds.all fun c => '0' ≤ c && c ≤ '9'
def digitsVal (ds : List Char) : Nat := ds.foldl (fun a c => a * 10 + (c.toNat - 48)) 0

def parseNat (s : String) (maxDigits : Nat) (max : Nat) : Option Nat :=
  let ds := s.toList
  if isDigits ds && ds.length ≤ maxDigits then
    let v := digitsVal ds
    if v ≤ max then some v else none
  else none

def parseI32 (s : String) : Option Int :=
  let cs := s.toList
  let (neg, ds) := match cs with
    | '-' :: r => (true, r)
    | _ => (false, cs)
  if !(isDigits ds && ds.length ≤ 10) then none else
  let n := digitsVal ds
  if neg then (if n ≤ 2147483648 then some (-(n : Int)) else none)
  else (if n ≤ 2147483647 then some (n : Int) else none)

def parseBool (s : String) : Option Bool :=
  if s = "0" then some false else if s = "1" then some true else none

/-- lower-case hex, 1..8 digits, as a uint32 -/
def parseHex32 (s : String) : Option UInt32 :=
  let cs := s.toList
  if cs.isEmpty || cs.length > 8 then none else
  if !cs.all (fun c => ('0' ≤ c && c ≤ '9') || ('a' ≤ c && c ≤ 'f')) then none else
  (cs.mapM hexDigitVal).map fun ds => (ds.foldl (fun a d => a * 16 + d) 0).toUInt32

/-- bytes of a name: lower-case hex pairs, at most 40 bytes, no NUL inside -/
def parseName (s : String) : Option (List Nat) :=
  if s = "-" then some [] else
  if !s.toList.all (fun c => ('0' ≤ c && c ≤ '9') || ('a' ≤ c && c ≤ 'f')) then none else
  match parseHexChars s.toList with
  | some bs => if bs.length ≤ 40 && bs.all (· ≠ 0) then some bs else none
  | none => none

/-- (expiry of a readable record, record exists but is unreadable) -/
def parseBan (s : String) : Option (Option Int × Bool) :=
  if s = "none" then some (none, false)
  else if s = "act" then some (some ((fixedNow : Int) + 3600), false)
  else if s = "exp" then some (some ((fixedNow : Int) - 3600), false)
  else if s = "junk" then some (some 0, false)
  else if s = "empty" || s = "dir" then some (none, true)
  else none

def kv (key : String) (tok : String) : Option String :=
  match tok.splitOn "=" with
  | [k, v] => if k = key && v ≠ "" then some v else none
  | _ => none

def parseBoard (p : String) (ts : List String) : Option Board :=
  match ts with
  | [n, a, l, g, q, u, f, m, b] => do
      let name ← (kv (p ++ "n") n) >>= parseName
      let attr ← (kv (p ++ "a") a) >>= parseHex32
      let level ← (kv (p ++ "l") l) >>= parseHex32
      let lg ← (kv (p ++ "g") g) >>= (parseNat · 3 255)
      let lb ← (kv (p ++ "p") q) >>= (parseNat · 3 255)
      let nu ← (kv (p ++ "u") u) >>= parseI32
      let fr ← (kv (p ++ "f") f) >>= parseBool
      let bm ← (kv (p ++ "m") m) >>= parseBool
      let ban ← (kv (p ++ "b") b) >>= parseBan
      pure { name := name, attr := attr, level := level, limitLogins := lg.toUInt8, limitBadpost := lb.toUInt8,
             nuser := nu, friend := fr, inBM := bm, ban := ban.1, banBroken := ban.2 }
  | _ => none

/-- the cool-down word a row describes: exp: time part 0; act: now+600 s; max: the largest time part;
neg / negact: as exp / act with bit 31 set (a negative int32). -/
def cdWord (cd : String) (pt : Nat) : Option UInt32 :=
  let act : UInt32 := (fixedNow + 600).toUInt32 &&& 0x7FFFFFF0
  let t : Option UInt32 :=
    if cd = "exp" then some 0
    else if cd = "act" then some act
    else if cd = "max" then some 0x7FFFFFF0
    else if cd = "neg" then some 0x80000000
    else if cd = "negact" then some (0x80000000 ||| act)
    else none
  t.map (· ||| pt.toUInt32)

def parseRow (ts : List String) : Option Row :=
  if ts.length ≠ 34 then none else
  match ts.take 6, (ts.drop 6).take 9, (ts.drop 15).take 9, (ts.drop 24).take 8, ts.drop 32 with
  | [id, ul, ud, ub, uo, uf], sb, tb, [a0, af, an, ae, ao, am, atk, ax], [cd, pt] => do
      let id ← (kv "id" id) >>= parseName
      let ul ← (kv "ul" ul) >>= parseHex32
      let ud ← (kv "ud" ud) >>= (parseNat · 10 4294967295)
      let ub ← (kv "ub" ub) >>= (parseNat · 3 255)
      let uo ← (kv "uo" uo) >>= parseBool
      let uf ← (kv "uf" uf) >>= parseI32
      let src ← parseBoard "s" sb
      let tgt ← parseBoard "t" tb
      let a0 ← (kv "a0" a0) >>= parseBool
      let af ← (kv "af" af) >>= parseBool
      let an ← (kv "an" an) >>= parseName
      let ae ← (kv "ae" ae) >>= parseName
      let ao ← (kv "ao" ao) >>= parseName
      let am ← (kv "am" am) >>= (parseNat · 3 255)
      let emod ← (kv "at" atk) >>= parseI32
      let ax ← (kv "ax" ax) >>= parseBool
      let cdv ← kv "cd" cd
      let pt ← (kv "pt" pt) >>= (parseNat · 2 15)
      let cdw ← cdWord cdv pt
      pure { u := { id := id, level := ul, loginDays := ud.toUInt32, badPost := ub.toUInt8, over18 := uo, firstLogin := uf },
             src := src, tgt := tgt,
             art := { total0 := a0, found := af, argName := an, entName := ae, entOwner := ao, entMode := am.toUInt8, entModified := emod, fileExists := ax },
             cd := cdw, now := fixedNow }
  | _, _, _, _, _ => none

/-! what the harness fixture can materialise (go/cmd/c08 applies the same test) -/

def srcNames : List (List Nat) := [nameSrc, "SYSOP".toUTF8.toList.map (·.toNat), "SECURITY".toUTF8.toList.map (·.toNat), "ALLPOST".toUTF8.toList.map (·.toNat)]
def tgtNames : List (List Nat) := [nameTgt, "SYSOP".toUTF8.toList.map (·.toNat), "SECURITY".toUTF8.toList.map (·.toNat), "ALLPOST".toUTF8.toList.map (·.toNat)]

def isUpper (c : Nat) : Bool := 65 ≤ c && c ≤ 90
def isDig (c : Nat) : Bool := 48 ≤ c && c ≤ 57
def isHexUp (c : Nat) : Bool := isDig c || (65 ≤ c && c ≤ 70)

/-- requested name: X.<10 digits>.A.<3 hex>, X a capital letter -/
def validArgName (s : List Nat) : Bool :=
  s.length == 18 && (s.take 1).all isUpper && s[1]? == some 46 && s[12]? == some 46 && s[13]? == some 65 && s[14]? == some 46 &&
  ((s.take 12).drop 2).all isDig && (s.drop 15).all isHexUp

/-- entry name: the requested name, possibly with other first two bytes (printable, not '/'), or "M.1", or empty -/
def validEntName (e a : List Nat) : Bool :=
  if e.length == 18 then
    e.drop 2 == a.drop 2 && (e.take 2).all (fun c => c ≠ 47 && c > 32 && c < 127)
  else e == [77, 46, 49] || e == []

def fixtureOK (x : Row) : Bool :=
  x.u.id == idVerif && srcNames.contains x.src.name && tgtNames.contains x.tgt.name && x.src.name != x.tgt.name &&
  validArgName x.art.argName && validEntName x.art.entName x.art.argName && x.art.entOwner.length ≤ 12

def parseOp (s : String) : Option Op :=
  if s = "newpost" then some .newpost
  else if s = "recommend" then some .recommend
  else if s = "editpost" then some .editpost
  else if s = "crosspost" then some .crosspost
  else none

def showOutcome (o : Outcome) : String :=
  (match o.err with
   | none => "ok"
   | some e => "err:" ++ e) ++ (if o.touched then " changed" else " same")

def witnessRow (name : String) : Option Row :=
  if name = "unverified" then some witnessUnverified
  else if name = "coolingdown" then some witnessCoolingDown
  else none

/-- `k` posts in a row; the word after each post is the one the code leaves behind. -/
def flood (u : User) (b : Board) : Nat → UInt32 → List String → List String × UInt32
  | 0, w, acc => (acc.reverse, w)
  | k + 1, w, acc =>
      let x : Row := { u := u, src := b, tgt := plainBoard nameTgt, art := ownArticle, cd := w, now := fixedNow }
      let o := run .newpost x
      let w1 := (checkCooldownW u b w fixedNow).2
      let w2 := if o.err.isNone then afterPost b w1 fixedNow else w1
      flood u b k w2 ((match o.err with | none => "ok" | some e => "err:" ++ e) :: acc)

/-! friend-list histories -/

def theUid : Nat := 40

/-- one name of a list: u/U the user, c p k other accounts, g G guest, z an unknown id, e an empty first field;
`x*n` repeats. -/
def nameUid (c : String) : Option Nat :=
  if c = "u" || c = "U" then some theUid
  else if c = "c" then some 2 else if c = "p" then some 3 else if c = "k" then some 4
  else if c = "g" || c = "G" || c = "z" || c = "e" then some 0
  else none

def parseNames (s : String) : Option (List Nat) :=
  if s = "-" then some [] else
  (s.splitOn ",").foldlM (fun acc t =>
    match t.splitOn "*" with
    | [c] => (nameUid c).map fun u => acc ++ [u]
    | [c, n] => do
        let u ← nameUid c
        let k ← parseNat n 3 120
        if k = 0 then none else pure (acc ++ List.replicate k u)
    | _ => none) []

inductive FStep where
  | load (es : List Nat) | write (es : List Nat) | expire | delete | perform

def parseStep (s : String) : Option FStep :=
  if s = "X" then some .expire else if s = "D" then some .delete else if s = "P" then some .perform
  else match s.splitOn ":" with
    | ["L", l] => (parseNames l).map .load
    | ["W", l] => (parseNames l).map .write
    | _ => none

structure FState where
  row : List Nat
  file : Option (List Nat)
  out : List String

def friendsRow (op : Op) (hidden : Bool) (friend : Bool) : Row :=
  let attr : UInt32 := if hidden then BRD_HIDE ||| BRD_POSTMASK else BRD_RESTRICTEDPOST
  let x : Row := { witnessCoolingDown with cd := 0 }
  match op with
  | .crosspost => { x with tgt := { x.tgt with attr := attr, friend := friend } }
  | _ => { x with src := { x.src with attr := attr, friend := friend } }

def friendsStep (op : Op) (hidden : Bool) (st : FState) : FStep → FState
  | .load es => { st with file := some es, row := hbflReload Gen.WriteGuards.hbflReloadReplacesRow Gen.WriteGuards.hbflMissingFileKeepsRow st.row (some es) fixedNow }
  | .write es => { st with file := some es }
  | .expire => { st with row := (fixedNow - HBFLexpire - 100) :: st.row.drop 1 }
  | .delete => { st with file := none, row := hbflReload Gen.WriteGuards.hbflReloadReplacesRow Gen.WriteGuards.hbflMissingFileKeepsRow st.row none fixedNow }
  | .perform =>
      let (fr, row') := isHiddenBoardFriend Gen.WriteGuards.hbflReloadReplacesRow Gen.WriteGuards.hbflMissingFileKeepsRow st.row st.file theUid fixedNow
      let o := run op (friendsRow op hidden fr)
      { st with row := row', out := st.out ++ [(match o.err with | none => "ok" | some e => "err:" ++ e) ++ (if o.touched then ":changed" else ":same")] }

/-! histories on one article (`reset thread`) -/

def idOther : List Nat := "CodingMan".toUTF8.toList.map (·.toNat)
def idSysop : List Nat := "SYSOP".toUTF8.toList.map (·.toNat)

inductive TStep where
  | recommend | sysopEdit | crosspost | tryEdit (firstLogin : Int)

def parseTStep (s : String) : Option TStep :=
  if s = "R" then some .recommend else if s = "E" then some .sysopEdit else if s = "C" then some .crosspost
  else if s = "Ta" then some (.tryEdit 1000000000) else if s = "Tb" then some (.tryEdit 1500000000)
  else if s = "Tl" then some (.tryEdit 1550000000) else none

def threadStep (st : Article × List String) (t : TStep) : Article × List String :=
  let (a, out) := st
  let base : Row := { witnessCoolingDown with cd := 0, art := a, src := { witnessCoolingDown.src with attr := BRD_CPLOG } }
  let commenter : User := { base.u with id := idOther }
  let (tag, op, u) : String × Op × User := match t with
    | .recommend => ("R", .recommend, commenter)
    | .sysopEdit => ("E", .editpost, { base.u with id := idSysop, level := base.u.level ||| PERM_SYSOP })
    | .crosspost => ("C", .crosspost, commenter)
    | .tryEdit fl => ("T", .editpost, { base.u with firstLogin := fl })
  let o := run op { base with u := u }
  let a' := if o.err.isNone then touch a (fixedNow : Int) else a
  (a', out ++ [tag ++ ":" ++ (match o.err with | none => "ok" | some e => "err:" ++ e) ++ (if o.touched then ":changed" else ":same")])

/-! histories on the ban record (`reset banrec`) -/

/-- the record on disk as the harness sets it: none act exp junk empty dir; `pending`: created empty by a writer that
still holds it open; `lost`: that writer's file has been unlinked under it. -/
inductive BanDisk where
  | none | act | exp | junk | empty | dir | pending | lost
  deriving DecidableEq

def BanDisk.toRec : BanDisk → BanRec
  | .none | .lost => .absent
  | .act => .expiry ((fixedNow : Int) + 3600)
  | .exp => .expiry ((fixedNow : Int) - 3600)
  | .junk => .expiry 0
  | .empty | .dir | .pending => .unreadable

inductive BStep where
  | set (d : BanDisk) | begin | finish | perform

def parseBStep (s : String) : Option BStep :=
  if s = "P" then some .perform else if s = "B" then some .begin else if s = "F" then some .finish
  else if s = "S:none" then some (.set .none) else if s = "S:act" then some (.set .act) else if s = "S:exp" then some (.set .exp)
  else if s = "S:junk" then some (.set .junk) else if s = "S:empty" then some (.set .empty) else if s = "S:dir" then some (.set .dir)
  else none

def banStep (op : Op) (st : BanDisk × List String) : BStep → BanDisk × List String
  | .set d => (d, st.2)
  | .begin => (.pending, st.2)
  | .finish => (match st.1 with | .pending => .act | .lost => .none | d => d, st.2)
  | .perform =>
      let d := st.1
      let (e, after) := isBannedByRec Gen.WriteGuards.banCleanupOnReadError d.toRec fixedNow
      let b : Board := match (if e > (fixedNow : Int) then BanDisk.act else BanDisk.none) with
        | .act => { plainBoard nameSrc with ban := some e }
        | _ => plainBoard nameSrc
      let x : Row := { witnessCoolingDown with cd := 0 }
      let x := match op with
        | .crosspost => { x with tgt := { b with name := nameTgt } }
        | _ => { x with src := b }
      let o := run op x
      let d' : BanDisk := match after with
        | .absent => (match d with | .pending => .lost | .lost => .lost | _ => .none)
        | _ => d
      let kind := match d' with
        | .none | .lost => "none"
        | .dir => "dir"
        | _ => "file"
      (d', st.2 ++ [(match o.err with | none => "ok" | some e => "err:" ++ e) ++ (if o.touched then ":changed" else ":same") ++ ":" ++ kind])

/-! the BM field of a board (`reset bmfield`) and bbs-level board ids (`reset bbsid`) -/

def idV12 : List Nat := "verifuverifu".toUTF8.toList.map (·.toNat)

/-- a `/`-token of the BM field: (names an account at all, names the 12-character account `verifuverifu`).
V the id, v the id in other case, Vx / Vxx the id followed by one / four more characters (no account: a UserID_t
holds 13 bytes, so the token fills it without a NUL), c p k s other accounts, z no account, e empty. -/
def bmToken (t : String) : Option (Bool × Bool) :=
  if t = "V" || t = "v" then some (true, true)
  else if t = "c" || t = "p" || t = "k" || t = "s" then some (true, false)
  else if t = "Vx" || t = "Vxx" || t = "z" || t = "e" then some (false, false)
  else none

def bmTokenLen (t : String) : Nat :=
  if t = "V" || t = "v" then 12 else if t = "Vx" then 13 else if t = "Vxx" then 16 else if t = "c" then 9
  else if t = "p" || t = "k" || t = "s" then 5 else if t = "z" then 10 else 0

/-- cache.ParseBMList: the first MAX_BMs (4) tokens that name an account are the moderators. -/
def bmListed (ts : List (Bool × Bool)) : Bool := ((ts.filter (·.1)).take 4).any (·.2)

def fixtureBoards : List String := ["SYSOP", "SECURITY", "ALLPOST", "ALLHIDPOST", "NEWIDPOST", "UnAnonymous", "vsrc", "vtgt", "vsrc2"]

def step (_ : Unit) (ws : List String) : Unit × String :=
  let out := match ws with
    | ["facts"] =>
        s!"newPostDelegates={Gen.WriteGuards.newPostDelegates} postperm2={Gen.WriteGuards.checkPostPerm2IsPostpermMsg} " ++
        s!"banCleanupOnReadError={Gen.WriteGuards.banCleanupOnReadError} hbflReplaces={Gen.WriteGuards.hbflReloadReplacesRow} hbflMissingKeeps={Gen.WriteGuards.hbflMissingFileKeepsRow} maxFriend={Gen.WriteGuards.MAX_FRIEND} " ++
        s!"guardsFirst={guardsFirst Gen.WriteGuards.newpost},{guardsFirst Gen.WriteGuards.recommend},{guardsFirst Gen.WriteGuards.editpost},{guardsFirst Gen.WriteGuards.crosspost}"
    | ["reset", "flood", nu, k, bc] =>
        match (kv "nu" nu) >>= parseI32, (kv "k" k) >>= (parseNat · 2 40), (kv "bc" bc) >>= parseBool with
        | some nu, some k, some bc =>
            if k = 0 then "bad-op" else
            let b := { plainBoard nameSrc with nuser := nu, attr := if bc then BRD_COOLDOWN else 0 }
            let u := witnessCoolingDown.u
            let (rs, w) := flood u b k 0 []
            ",".intercalate rs ++ s!" pt={(posttimesOf w).toNat}"
        | _, _, _ => "bad-op"
    | ["reset", "bmfield", op, toks] =>
        match parseOp op, (toks.splitOn ",").mapM bmToken with
        | some op, some ts =>
            let len := ((toks.splitOn ",").map bmTokenLen).foldl (· + ·) 0 + (toks.splitOn ",").length - 1
            if len > 38 then "bad-op" else
            let u : User := { witnessCoolingDown.u with id := idV12 }
            let a : Article := { ownArticle with entOwner := idV12 }
            let x : Row := { witnessCoolingDown with cd := 0, u := u, art := a }
            let x := match op with
              | .crosspost => { x with tgt := { x.tgt with limitLogins := 255, inBM := bmListed ts } }
              | _ => { x with src := { x.src with limitLogins := 255, inBM := bmListed ts } }
            showOutcome (run op x)
        | _, _ => "bad-op"
    | ["reset", "bbsid", bidName, req] =>
        -- bbs.BBoardID("<bid of bidName>_<req>").ToRaw(), then ptt.NewPost as the bbs layer does; board vsrc demands 2550
        -- login days, every other board is plain
        match parseName req with
        | some r =>
            if !fixtureBoards.contains bidName || r.any (fun c => c == 95 || c == 47 || c ≤ 32) || r.length > 12 then "bad-op" else
            if r ≠ bidName.toUTF8.toList.map (·.toNat) then "err:idmismatch same" else
            let x : Row := { witnessCoolingDown with cd := 0 }
            let b : Board := { plainBoard r with limitLogins := if bidName = "vsrc" then 255 else 0 }
            showOutcome (run .newpost { x with src := b })
        | none => "bad-op"
    | ["reset", "banrec", op, steps] =>
        match parseOp op, (steps.splitOn "/").mapM parseBStep with
        | some op, some sts =>
            if sts.length > 16 || !sts.any (fun s => match s with | .perform => true | _ => false) then "bad-op" else
            ",".intercalate (sts.foldl (banStep op) (BanDisk.none, [])).2
        | _, _ => "bad-op"
    | ["reset", "thread", ao, atk, steps] =>
        match kv "ao" ao, (kv "at" atk) >>= parseI32, (steps.splitOn "/").mapM parseTStep with
        | some ao, some emod, some sts =>
            if (ao ≠ "self" && ao ≠ "other") || sts.length > 16 || !sts.any (fun s => match s with | .tryEdit _ => true | _ => false) then "bad-op" else
            let a : Article := { ownArticle with entOwner := if ao = "self" then idVerif else idOther, entModified := emod }
            ",".intercalate (sts.foldl threadStep (a, [])).2
        | _, _, _ => "bad-op"
    | ["reset", "friends", op, kind, steps] =>
        match parseOp op, (steps.splitOn "/").mapM parseStep with
        | some op, some sts =>
            if (kind ≠ "restricted" && kind ≠ "hidden") || sts.length > 24 || !sts.any (fun s => match s with | .perform => true | _ => false) then "bad-op" else
            let st := sts.foldl (friendsStep op (kind = "hidden")) { row := hbflFresh fixedNow, file := none, out := [] }
            ",".intercalate st.out
        | _, _ => "bad-op"
    | "reset" :: "witness" :: name :: op :: facts =>
        match witnessRow name, parseOp op, parseRow facts with
        | some w, some op, some x =>
            if fixtureOK x then showOutcome (run op x) ++ (if x = w then " wit=yes" else " wit=no") else "bad-op"
        | _, _, _ => "bad-op"
    | "reset" :: op :: facts =>
        match parseOp op, parseRow facts with
        | some op, some x => if fixtureOK x then showOutcome (run op x) else "bad-op"
        | _, _ => "bad-op"
    | _ => "bad-op"
  ((), out)

end C08Drv

def main : IO Unit := runHandler { init := (), step := C08Drv.step }
