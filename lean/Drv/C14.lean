import PttVerif.DriverLoop
import PttVerif.Model.C14
open PttVerif PttVerif.C14

def parseNats (s : String) : Option (List Nat) :=
  if s = "-" then some [] else (s.splitOn ",").mapM (·.toNat?)

/-- op: sched <procs: p0,p1,..> <n0> <schedule: t,t,t,...>   (thread t belongs to process procs[t]) -/
def stepC14 (_ : Unit) (ws : List String) : Unit × String :=
  let out := match ws with
    | ["sched", ps, n0, sc] =>
        match parseNats ps, n0.toNat?, parseNats sc with
        | some procs, some n, some sched =>
            if sched.all (fun t => t < procs.length || 100 ≤ t) then runSchedule sourceCleansUp procs n sched else "bad-op"
        | _, _, _ => "bad-op"
    | ["after", _] => "append-ok"     -- locks are released when every call has returned (Props.locks_released, later_append_succeeds)
    | ["longhold", _] => "excluded"   -- mutual exclusion holds in every reachable state, whatever time passes (Props.mutual_exclusion)
    | ["stress", _, _, _] => "consistent"   -- judged by the property oracle on the real file, not by the model
    | ["hdr", n0, hold, nw] =>               -- header writers on .post; the fallback writer, if the source has one, is followed
        match n0.toNat?, hold.toNat?, nw.toNat? with
        | some n, some h, some w => if 1 ≤ h && h ≤ 4 && w ≤ 8 then runHdr sourceCleansUp sourceBypass n h w else "bad-op"
        | _, _, _ => "bad-op"
    | ["postlog", _, _] => "consistent"     -- header writers released together: judged by the property oracle
    | ["logposts", _, _] => "consistent"    -- the same with the log board's index missing at the start
    | ["posts", _, _] => "consistent"       -- real posts + a second process appending to the board's .DIR: judged by the property oracle
    | ["mix", _, _, _, _] => "consistent"   -- commenters + appenders + a second process: judged by the property oracle
    | _ => "bad-op"
  ((), out)

def main : IO Unit := runHandler { init := (), step := stepC14 }
