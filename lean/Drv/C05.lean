import PttVerif.DriverLoop
import PttVerif.Model.C05
open PttVerif PttVerif.C05

/-
ops (one history = everything since the last `reset`):
  reset <stride> <hexfile|absent>
  append <dir|brd|pw|post|raw> <heximage>          typed kinds use the stride constant of their type
  subst  <dir|brd|pw|post|raw> <int32 idx> <heximage>
  delete <idx>
  num
  get <start> <n> <asc|desc>
  modify <idx> <name> <mtime> <title|nil> <owner|nil> <date|nil> <recommend> <multi|nil> <enable> <disable>
  dump
  reset-brd <hex.BRD> | newboard <name13hex> <image256hex> | brd-dump              (ptt.NewBoard → addBoardRecord)
  reset-bottom <hex|absent> | coldread <total|general> | loadbottom | bottom-dump  (.DIR.bottom behind the board cache)
  reset-dir <hex|absent> | stale-file <name28> | recommend <name28> <1|2|3> <mtime> | delete-article <aidhex>
    | editpost <name28> | crosspost <name28> | dir-dump                            (request layer on one board's .DIR)
  reset-pw <hex|absent> | pw <update|passwd|email> <uid> <hex> | pwq <whole|passwd|level> <uid>   (.PASSWDS accessors of cmbbs)
  pwcu <uid> <userid13hex> <shm money> | pw-money <uid>=<money>,…   (session read-modify-write; concurrent money batch)
  pw-store <uid> <money> <perm>   (load; acknowledged money modify; whole-record store of the earlier copy)
Mutating ops answer `<result> <state>` with state = `absent` or `<length>:<fnv1a-64 of the bytes>`.
-/

structure St where
  stride : Nat
  fs : FS
  brd : FS := FS.absent                     -- BBSHOME/.BRD (callers layer)
  bottom : Bottom := ⟨FS.absent, 0, true⟩   -- one board's .DIR.bottom and its cached count
  dirf : FS := FS.absent                     -- one board's .DIR (request layer)
  pw : FS := FS.absent                       -- BBSHOME/.PASSWDS

def fnv (bs : List Nat) : UInt64 :=
  bs.foldl (fun h b => (h ^^^ b.toUInt64) * 1099511628211) 14695981039346656037

def hex64 (h : UInt64) : String := String.ofList (Nat.toDigits 16 h.toNat)

def showState (s : FS) : String :=
  if s.present then s!"{s.bytes.length}:{hex64 (fnv s.bytes)}" else "absent"

def showErr : Err → String
  | .ok => "ok"
  | .err => "err"
  | .invalidIdx => "invalid-idx"

def showOut : Out → String
  | .unit e => showErr e
  | .idx e i => s!"{showErr e} {i}"
  | .count n => toString n
  | .recs e rs => rs.foldl (fun acc r => acc ++ s!" {r.1}={toHex r.2}") s!"{showErr e} {rs.length}"
  | .panic => "PANIC"

def digitsOnly (s : String) : Bool := !s.isEmpty && s.all Char.isDigit

/-- decimal integer with optional `-`, within `[lo, hi]`. -/
def parseIntIn (s : String) (lo hi : Int) : Option Int :=
  let v : Option Int :=
    if s.startsWith "-" then
      let t := (s.drop 1).toString
      if digitsOnly t then t.toNat?.map (fun n => - (n : Int)) else none
    else if digitsOnly s then s.toNat?.map (fun n => (n : Int)) else none
  match v with
  | some i => if lo ≤ i ∧ i ≤ hi then some i else none
  | none => none

def i64lo : Int := -9223372036854775808
def i64hi : Int := 9223372036854775807

def kindStride (st : St) : String → Option Nat
  | "dir" => some Gen.RecFile.FILE_HEADER_RAW_SZ
  | "brd" => some Gen.RecFile.BOARD_HEADER_RAW_SZ
  | "pw" => some Gen.RecFile.USEREC_RAW_SZ
  | "post" => some Gen.RecFile.POSTLOG_SZ
  | "raw" => some st.stride
  | _ => none

/-- a typed image is what encoding/binary produces for the struct: exactly its packed size. -/
def imageOk (k : String) (img : List Nat) : Bool :=
  match k with
  | "dir" => img.length == Gen.RecFile.packedFileHeaderRaw
  | "brd" => img.length == Gen.RecFile.packedBoardHeaderRaw
  | "pw" => img.length == Gen.RecFile.packedUserecRaw
  | "post" => img.length == Gen.RecFile.packedPostLog
  | _ => true

/-- `nil` or a hex string of exactly `len` bytes. -/
def parseOptField (s : String) (len : Nat) : Option (Option (List Nat)) :=
  if s = "nil" then some none
  else match parseHex s with
    | some bs => if bs.length = len then some (some bs) else none
    | none => none

def parseOptBytes (s : String) : Option (Option (List Nat)) :=
  if s = "nil" then some none else (parseHex s).map some

def parseModify (ws : List String) : Option (Int × ModArgs) :=
  match ws with
  | [idx, name, mtime, title, owner, date, rec, multi, en, dis] => do
    let idx ← parseIntIn idx i64lo i64hi
    let name ← parseHex name
    if name.length ≠ Gen.RecFile.lenFilename then none
    let mtime ← parseIntIn mtime (-2147483648) 2147483647
    let title ← parseOptField title Gen.RecFile.lenTitle
    let owner ← parseOptField owner Gen.RecFile.lenOwner
    let date ← parseOptField date Gen.RecFile.lenDate
    let rec ← parseIntIn rec (-128) 127
    let multi ← parseOptBytes multi
    let en ← parseIntIn en 0 255
    let dis ← parseIntIn dis 0 255
    pure (idx, { name, mtime, title, owner, date, recommend := rec, multi, enable := en.toNat, disable := dis.toNat })
  | _ => none

def parseOp (st : St) (ws : List String) : Option Op :=
  match ws with
  | ["append", k, h] => do
    let sz ← kindStride st k
    let img ← parseHex h
    if !imageOk k img then none
    pure (.append sz img)
  | ["subst", k, i, h] => do
    let sz ← kindStride st k
    let i ← parseIntIn i (-2147483648) 2147483647
    let img ← parseHex h
    if !imageOk k img then none
    pure (.subst sz i img)
  | ["delete", i] => do
    let i ← parseIntIn i i64lo i64hi
    pure (.delete st.stride i)
  | ["num"] => some (.num st.stride)
  | ["get", s, n, d] => do
    let s ← parseIntIn s i64lo i64hi
    let n ← parseIntIn n i64lo 1000000     -- GetRecords allocates cap n up front: larger n is not exercised
    let d ← (if d = "asc" then some false else if d = "desc" then some true else none)
    pure (.get s n d)
  | "modify" :: rest => do
    let (idx, a) ← parseModify rest
    pure (.modify idx a)
  | _ => none

def isMutating : Op → Bool
  | .num _ => false
  | .get _ _ _ => false
  | _ => true

def stepC05 (st : St) (ws : List String) : St × String :=
  match ws with
  | ["reset", sz, h] =>
    match (if digitsOnly sz then sz.toNat? else none),
          (if h = "absent" then some FS.absent else (parseHex h).map (fun b => ⟨true, b⟩)) with
    | some n, some fs => if n ≤ 1048576 then ({ stride := n, fs }, "ok") else (st, "bad-op")
    | _, _ => (st, "bad-op")
  | ["dump"] => (st, if st.fs.present then toHex st.fs.bytes else "absent")
  -- callers layer: ptt.NewBoard → addBoardRecord on .BRD
  | ["reset-brd", h] =>
    match parseHex h with
    | some b => ({ st with brd := ⟨true, b⟩ }, "ok")
    | none => (st, "bad-op")
  | ["newboard", name, h] =>
    match parseHex name, parseHex h with
    | some nm, some img =>
      if nm.length ≠ 13 ∨ img.take 13 ≠ nm ∨ img.length ≠ Gen.RecFile.packedBoardHeaderRaw then (st, "bad-op")
      else
        let (fs, out) := addBoardRecord st.brd img
        ({ st with brd := fs }, s!"{showOut out} {showState fs}")
    | _, _ => (st, "bad-op")
  | ["brd-dump"] => (st, if st.brd.present then toHex st.brd.bytes else "absent")
  -- .PASSWDS accessors of cmbbs
  | ["reset-pw", h] =>
    match (if h = "absent" then some FS.absent else (parseHex h).map (fun b => ⟨true, b⟩)) with
    | some fs => ({ st with pw := fs }, "ok")
    | none => (st, "bad-op")
  | ["pw", what, u, h] =>
    match parseIntIn u (-2147483648) 2147483647, parseHex h with
    | some uid, some bs =>
      let spec : Option (Nat × Nat) :=
        if what = "update" then some (0, Gen.RecFile.packedUserecRaw)
        else if what = "passwd" then some (Gen.RecFile.pwOffPasswdHash, Gen.RecFile.pwLenPasswdHash)
        else if what = "email" then some (Gen.RecFile.pwOffEmail, Gen.RecFile.pwLenEmail)
        else none
      match spec with
      | some (off, len) =>
        if bs.length ≠ len then (st, "bad-op")
        else
          let (fs, out) := passwdUpdate st.pw uid off bs
          ({ st with pw := fs }, s!"{showOut out} {showState fs}")
      | none => (st, "bad-op")
    | _, _ => (st, "bad-op")
  | ["pwcu", u, n, m] =>
    match parseIntIn u (-2147483648) 2147483647, parseHex n, parseIntIn m (-2147483648) 2147483647 with
    | some uid, some nm, some money =>
      if nm.length ≠ Gen.RecFile.pwLenUserID then (st, "bad-op")
      else
        let (fs, _) := pwcuModify st.pw uid nm money
        ({ st with pw := fs }, showState fs)
    | _, _, _ => (st, "bad-op")
  | ["pw-store", u, m, pm] =>
    match parseIntIn u (-2147483648) 2147483647, parseIntIn m (-2147483648) 2147483647, parseIntIn pm 0 4294967295 with
    | some uid, some money, some perm =>
      let fs := storeEarlierCopy st.pw uid money perm.toNat
      ({ st with pw := fs }, showState fs)
    | _, _, _ => (st, "bad-op")
  | ["pw-money", l] =>
    let parts := (l.splitOn ",").map (fun p => p.splitOn "=")
    let us : Option (List (Int × Int)) := parts.mapM fun p =>
      match p with
      | [a, b] => do
        let u ← parseIntIn a (-2147483648) 2147483647
        let v ← parseIntIn b (-2147483648) 2147483647
        pure (u, v)
      | _ => none
    match us with
    | some us =>
      let fs := moneyBatch st.pw us
      ({ st with pw := fs }, showState fs)
    | none => (st, "bad-op")
  | ["pwq", what, u] =>
    match parseIntIn u (-2147483648) 2147483647 with
    | some uid =>
      let spec : Option (Nat × Nat) :=
        if what = "whole" then some (0, Gen.RecFile.packedUserecRaw)
        else if what = "passwd" then some (Gen.RecFile.pwOffPasswdHash, Gen.RecFile.pwLenPasswdHash)
        else if what = "level" then some (Gen.RecFile.pwOffUserLevel, Gen.RecFile.pwLenUserLevel)
        else none
      match spec with
      | some (off, len) => (st, showOut (passwdQuery st.pw uid off len))
      | none => (st, "bad-op")
    | none => (st, "bad-op")
  -- request layer: name / id → record, confirmed, then modified or delete-marked
  | ["reset-dir", h] =>
    match (if h = "absent" then some FS.absent else (parseHex h).map (fun b => ⟨true, b⟩)) with
    | some fs => ({ st with dirf := fs }, "ok")
    | none => (st, "bad-op")
  | ["stale-file", n] =>
    match parseHex n with
    | some nm => if nm.length = Gen.RecFile.lenFilename then (st, "ok") else (st, "bad-op")
    | none => (st, "bad-op")
  | ["recommend", n, ct, mt] =>
    match parseHex n, parseIntIn ct 1 3, parseIntIn mt (-2147483648) 2147483647 with
    | some nm, some c, some m =>
      if nm.length ≠ Gen.RecFile.lenFilename then (st, "bad-op")
      else
        let (fs, out) := recommendReq st.dirf nm c.toNat m
        ({ st with dirf := fs }, s!"{showOut out} {showState fs}")
    | _, _, _ => (st, "bad-op")
  | ["delete-article", a] =>
    match parseHex a with
    | some aid =>
      let (fs, out) := deleteReq st.dirf aid
      ({ st with dirf := fs }, s!"{showOut out} {showState fs}")
    | none => (st, "bad-op")
  | [op, n] =>
    if op = "editpost" ∨ op = "crosspost" then
      match parseHex n with
      | some nm =>
        if nm.length ≠ Gen.RecFile.lenFilename then (st, "bad-op")
        else (st, match getRecordReq st.dirf nm with | .hit _ _ => "hit" | .miss => "miss" | .fault => "PANIC")
      | none => (st, "bad-op")
    else if op = "reset-bottom" then
      match (if n = "absent" then some FS.absent else (parseHex n).map (fun b => ⟨true, b⟩)) with
      | some fs =>
        let b := reloadBottom fs
        ({ st with bottom := b }, s!"nbottom={b.nBottom}")
      | none => (st, "bad-op")
    else if op = "coldread" then
      if n = "total" ∨ n = "general" then
        let b := coldRead st.bottom
        ({ st with bottom := b }, s!"nbottom={b.nBottom} {showState b.file}")
      else (st, "bad-op")
    else
      match parseOp st [op, n] with
      | none => (st, "bad-op")
      | some o =>
        let (fs, out) := step st.fs o
        ({ st with fs }, if isMutating o then s!"{showOut out} {showState fs}" else showOut out)
  | ["dir-dump"] => (st, if st.dirf.present then toHex st.dirf.bytes else "absent")
  -- callers layer: .DIR.bottom behind the board cache
  | ["loadbottom"] => (st, showOut (loadBottom st.bottom))
  | ["bottom-dump"] => (st, if st.bottom.file.present then toHex st.bottom.file.bytes else "absent")
  | _ =>
    match parseOp st ws with
    | none => (st, "bad-op")
    | some op =>
      let (fs, out) := step st.fs op
      ({ st with fs }, if isMutating op then s!"{showOut out} {showState fs}" else showOut out)

def main : IO Unit := runHandler { init := { stride := 128, fs := FS.absent }, step := stepC05 }
