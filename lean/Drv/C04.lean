import PttVerif.DriverLoop
import PttVerif.Model.C04
open PttVerif PttVerif.C04

/-- driver state: the segment and what is on disk in .PASSWDS -/
structure DS where
  s : St (List Nat)
  file : PwFile (List Nat)
  expirable : List Nat := []

def env := realEnv
def maxU : Nat := env.MAX

def parseId (h : String) : Option (List Nat) :=
  match parseHex h with
  | some bs => if bs.length = idSize ∧ bs.all (· < 256) then some bs else none
  | none => none

def parseIds : List String → Option (List (List Nat))
  | [] => some []
  | w :: ws => do
    let a ← parseId w
    let r ← parseIds ws
    pure (a :: r)

def withDump (d : DS) (r : M (St (List Nat) × String)) : DS × String :=
  match r with
  | .ok (s', out) => ({ d with s := s' }, out ++ " | " ++ dumpSt s' maxU)
  | .error f => (d, toString f)

/-- lookups do not change the state: answer only -/
def noDump (d : DS) (r : M String) : DS × String :=
  match r with
  | .ok out => (d, out)
  | .error f => (d, toString f)

def showRid : Option (List Nat) → String
  | none => "~"
  | some a => toHex a

/-- ops: reset | file none | file <0|1> <id>* | load | add <k> <id> | remove <k> | set <uid> <id> |
search <id> | dosearch <id> | getuserid <uid> | lookupall | exists <hex name, 0..24 bytes> | register <id> <fault 0|1> [sweep] | expire <slot> | restart create|open load|noload | poke head|next <i> <v> | attach <v> <s> <V> <S> |
peer <add|remove|set|search|dosearch|getuserid|lookupall …> -/
def showAll (l : List (Nat × List Int)) : String :=
  if l.isEmpty then "-" else
  " ".intercalate (l.map fun (k, us) => toString k ++ ":" ++ ",".intercalate (us.map toString))

/-- `peer <op>`: the same operation executed by the second process attached to the segment — the segment is the only
state of the index, so the model runs the op on the one state. -/
def peerOps : List String := ["add", "remove", "set", "search", "dosearch", "getuserid", "lookupall"]

def stepCore (d : DS) (ws : List String) : DS × String :=
  match ws with
  | ["lookupall"] => noDump d (do let l ← lookupAll d.s; pure (showAll l))
  | ["exists", h] =>
    match parseHex h with
    | some name => if name.all (· < 256) ∧ name.length ≤ 24 then noDump d (checkExistsUser d.s name) else (d, "bad-op")
    | none => (d, "bad-op")
  | ["expire", k] =>
    match k.toNat? with
    | some k =>
      match d.file with
      | some (recs, _) => if k < recs.length then ({ d with expirable := k :: d.expirable }, "ok") else (d, "ok")
      | none => (d, "ok")
    | none => (d, "bad-op")
  | ["register", h, "0", "sweep"] =>
    match d.file, parseId h with
    | some (recs, false), some id =>
      if recs.length = maxU then
        match setupNewUserSweep env d.s recs d.expirable id with
        | .ok (s', r, uid, recs') =>
          let k := (uid - 1).toNat
          let (recs'', ex') := if r = .ok then (recs'.set k id, d.expirable.filter (· ≠ k)) else (recs', d.expirable)
          ({ d with s := s', file := some (recs'', false), expirable := ex' },
            showRet r ++ " " ++ toString uid ++ " | " ++ dumpSt s' maxU)
        | .error f => (d, toString f)
      else (d, "bad-op")
    | _, _ => (d, "bad-op")
  | ["register", h, fault] =>
    match parseId h with
    | some id =>
      if fault = "0" ∨ fault = "1" then
        let canWrite := fault = "0" ∧ d.file.isSome
        match setupNewUser env d.s id canWrite with
        | .ok (s', r, uid) =>
          -- a successful registration writes record uid-1 of .PASSWDS (the file grows when the slot is past its end)
          let file' := match r, d.file with
            | .ok, some (recs, torn) =>
              let k := (uid - 1).toNat
              let recs' := if k < recs.length then recs else recs ++ List.replicate (k + 1 - recs.length) env.zero
              some (recs'.set k id, if k < recs.length then torn else false)
            | _, f => f
          let ex' := if r = .ok then d.expirable.filter (· ≠ (uid - 1).toNat) else d.expirable
          ({ d with s := s', file := file', expirable := ex' }, showRet r ++ " " ++ toString uid ++ " | " ++ dumpSt s' maxU)
        | .error f => (d, toString f)
      else (d, "bad-op")
    | none => (d, "bad-op")
  | ["restart", how, what] =>
    if (how = "create" ∨ how = "open") ∧ (what = "load" ∨ what = "noload") then
      -- the harness's segment always carries the right header words (the `attach` op restores them)
      withDump d (do
        let (sg, ar, isNew, lr) ← restart env 0 0 (some { version := 0, size := 0, st := d.s }) d.file
          (how = "create") (what = "load")
        let s' := match sg with | some g => g.st | none => d.s
        pure (s', showAttach ar ++ " " ++ (if isNew then "1" else "0") ++ " " ++
          (match lr with | some r => showRet r | none => "-")))
    else (d, "bad-op")
  | ["reset"] => ({ d with s := resetSt env }, "ok")
  | ["file", "none"] => ({ d with file := none, expirable := [] }, "ok")
  | "file" :: t :: ids =>
    if t = "0" ∨ t = "1" then
      match parseIds ids with
      | some l => ({ d with file := some (l, t = "1"), expirable := [] }, "ok")
      | none => (d, "bad-op")
    else (d, "bad-op")
  | ["load"] => withDump d (do let (s, r) ← loadUHash env d.s d.file; pure (s, showRet r))
  | ["add", k, h] =>
    match k.toInt?, parseId h with
    | some k, some id => withDump d (do let (s, r) ← addToUHash env d.s k id; pure (s, showRet r))
    | _, _ => (d, "bad-op")
  | ["remove", k] =>
    match k.toInt? with
    | some k => withDump d (do let (s, r) ← removeFromUHash env d.s k; pure (s, showRet r))
    | none => (d, "bad-op")
  | ["set", u, h] =>
    match u.toInt?, parseId h with
    | some u, some id => withDump d (do let (s, r) ← setUserID env d.s u id; pure (s, showRet r))
    | _, _ => (d, "bad-op")
  | ["search", h] =>
    match parseId h with
    | some q => noDump d (do let (u, r) ← searchUserRaw env d.s q; pure (toString u ++ " " ++ showRid r))
    | none => (d, "bad-op")
  | ["dosearch", h] =>
    match parseId h with
    | some q => noDump d (do let (u, r) ← doSearchUserRaw env d.s q; pure (toString u ++ " " ++ showRid r))
    | none => (d, "bad-op")
  | ["getuserid", u] =>
    match u.toInt? with
    | some u => noDump d (do let r ← getUserID env d.s u; pure (match r with | none => "errinvaliduid" | some a => toHex a))
    | none => (d, "bad-op")
  | ["poke", which, i, v] =>
    match i.toNat?, v.toInt? with
    | some i, some v =>
      if which = "head" then withDump d (do let a ← setM d.s.head i v; pure ({ d.s with head := a }, "ok"))
      else if which = "next" then withDump d (do let a ← setM d.s.next i v; pure ({ d.s with next := a }, "ok"))
      else (d, "bad-op")
    | _, _ => (d, "bad-op")
  | ["attach", v, s, wv, wsz] =>
    match v.toInt?, s.toInt?, wv.toInt?, wsz.toInt? with
    | some v, some s, some wv, some wsz => (d, handshake v s wv wsz)
    | _, _, _, _ => (d, "bad-op")
  | _ => (d, "bad-op")

def stepC04 (d : DS) (ws : List String) : DS × String :=
  match ws with
  | "peer" :: op :: rest => if peerOps.contains op then stepCore d (op :: rest) else (d, "bad-op")
  | _ => stepCore d ws

def main : IO Unit := runHandler { init := { s := resetSt env, file := none }, step := stepC04 }
