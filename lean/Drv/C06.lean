import PttVerif.DriverLoop
import PttVerif.Model.C06
open PttVerif PttVerif.C06

/-
ops (state = the current index, set by `idx`):
  idx <hex,hex,...|->                    the .DIR: one C-string name per entry (zero padded to 28 bytes)
  find <total> <ct> <namehex|nil> <asc|desc>
  get <total> <namehex>
  recs <start> <n> <asc|desc>
  pwalk <n> <asc|desc> <total>           ptt-level client loop (LoadGeneralArticles + FindArticleStartIdx)
  walk <n> <asc|desc> <cached>           bbs.LoadGeneralArticles client loop
  ser <namehex> | deser <hex>
  history ops on the cached total (state: names, cached; `idx` sets cached := len):
  setcached <n> | list | append <namehex> | post <namehex> | findlast <asc|desc>
  pwalk/walk with `cur` as last argument use (and may refresh) the cached total of the state
-/

structure St where
  names : List Name := []
  idx : Index := []
  cached : Int := 0
  logLen : Nat := 0        -- ALLPOST: records of its .DIR (emptied by `idx`)
  logCached : Int := 0     -- ALLPOST: cached total

def parseNames (s : String) : Option (List Name) :=
  if s = "-" then some []
  else (s.splitOn ",").mapM (fun h => (parseHex h).map (copyInto 28))

def parseDir : String → Option Bool
  | "asc" => some false
  | "desc" => some true
  | _ => none

def showTimes (idx : Index) : String :=
  ",".intercalate (idx.map fun e => match e.time? with | some t => toString t | none => "x")

def showR {α} (f : α → String) : R α → String
  | .ok a => f a
  | .error e => toString e

def showInts (l : List Int) : String := if l.isEmpty then "-" else ",".intercalate (l.map toString)

def showPages (ps : List (List Int)) : String := "|".intercalate (ps.map showInts)

def showBbsPage (p : BbsPage) : String :=
  s!"{p.start}:{if p.isNewest then 1 else 0}:{showInts p.items}:{toHex p.nextIdx}"

/-- the ptt-level client: like `walkFrom` but reporting the pages seen before an error. -/
def pwalk (idx : Index) (total : Int) (n : Nat) (isDesc : Bool) : Nat → Int → List (List Int) × String
  | 0, _ => ([], "cap")
  | f + 1, start =>
    match pttLoad idx total start n isDesc with
    | .error e => ([], toString e)
    | .ok p =>
      let page := p.items.map (·.1)
      match p.next with
      | none => ([page], "end")
      | some (_, e) =>
        match e.time? with
        | none => ([page], toString Err.atoi)
        | some t =>
          match pttFindStart idx total t (some e.key) isDesc with
          | .error err => ([page], toString err)
          | .ok s =>
            let (ps, fin) := pwalk idx total n isDesc f s
            (page :: ps, fin)

def stepC06 (st : St) (ws : List String) : St × String :=
  match ws with
  | ["idx", s] => match parseNames s with
      | some ns =>
        let idx := ns.map absEntry
        ({ names := ns, idx := idx, cached := ns.length, logLen := 0, logCached := 0 }, s!"n={ns.length} {showTimes idx}")
      | none => (st, "bad-op")
  | ["find", tot, ct, nm, d] =>
      match tot.toInt?, ct.toInt?, parseDir d with
      | some tot, some ct, some d =>
        let fn : Option (Option (List Nat)) :=
          if nm = "nil" then some none else (parseHex nm).map fun b => some (absEntry (copyInto 28 b)).key
        match fn with
        | some fn => (st, showR (fun i => s!"ok {i}") (findRecordStartIdx st.idx tot ct fn d))
        | none => (st, "bad-op")
      | _, _, _ => (st, "bad-op")
  | ["get", tot, nm] =>
      match tot.toInt?, parseHex nm with
      | some tot, some b =>
        (st, showR (fun (p : Int × Entry) => s!"ok {p.1} {toHex p.2.key}") (getRecord st.idx (absEntry (copyInto 28 b)) tot))
      | _, _ => (st, "bad-op")
  | ["recs", s, n, d] =>
      match s.toInt?, n.toInt?, parseDir d with
      | some s, some n, some d =>
        (st, showR (fun l => "ok " ++ (if l.isEmpty then "-" else
            ",".intercalate (l.map fun (p : Int × Entry) => s!"{p.1}:{toHex p.2.key}"))) (getRecords st.idx s n d))
      | _, _, _ => (st, "bad-op")
  | ["setcached", c] => match c.toInt? with
      | some c => ({ st with cached := c }, s!"total={c}")
      | none => (st, "bad-op")
  | ["list"] =>
      let (_, c) := getBTotalWithRetry st.names st.cached
      ({ st with cached := c }, s!"total={c}")
  | ["append", nm] => match parseHex nm with
      | some b =>
        let (ns, c) := appendOnly st.names st.cached (copyInto 28 b)
        ({ st with names := ns, idx := ns.map absEntry, cached := c }, s!"len={ns.length} total={c}")
      | none => (st, "bad-op")
  | ["reload"] =>
      ({ st with cached := reloadTotal st.cached, logCached := reloadTotal st.logCached }, "total=0 allpost=0")
  | ["post", nm] => match parseHex nm with
      | some b =>
        let (r, ns, c) := postArticle st.names st.cached (copyInto 28 b)
        match r with
        | .ok _ =>
          let (ll, lc) := logCopy st.logLen st.logCached
          ({ names := ns, idx := ns.map absEntry, cached := c, logLen := ll, logCached := lc },
            s!"len={ns.length} total={c} allpost={ll}:{lc}")
        | .error e => ({ st with names := ns, idx := ns.map absEntry, cached := c }, toString e)
      | none => (st, "bad-op")
  | ["nlookup", how, nm] => match parseHex nm with
      | some b =>
        let (r, c) := lookupByName st.names st.cached (copyInto 28 b)
        let out := match how, r with
          | "edit", .ok _ => some "found"
          | "edit", .error e => some (toString e)
          | "cross", .ok _ => some "found"
          | "cross", .error _ => some "err:lookup"     -- CrossPost maps every lookup error to ErrInvalidFilename
          | _, _ => none
        match out with
        | some o => ({ st with cached := c }, o)
        | none => (st, "bad-op")
      | none => (st, "bad-op")
  | ["findlast", d] => match parseDir d with
      | some d =>
        let (r, c) := findNewest st.names st.cached d
        ({ st with cached := c }, showR (fun i => s!"ok {i}") r)
      | none => (st, "bad-op")
  | ["pwalk", n, d, "cur"] =>
      match n.toNat?, parseDir d with
      | some n, some d =>
        match getBTotalWithRetry st.names st.cached with
        | (.error e, c) => ({ st with cached := c }, "- " ++ toString e)
        | (.ok tot, c) =>
          let (ps, fin) := pwalk st.idx tot n d (2 * st.idx.length + 4) (if d then 0 else 1)
          ({ st with cached := c }, (if ps.isEmpty then "-" else showPages ps) ++ " " ++ fin)
      | _, _ => (st, "bad-op")
  | ["walk", n, d, "cur"] =>
      match n.toInt?, parseDir d with
      | some n, some d =>
        let (ps, fin) := bbsWalk st.names n d (2 * st.names.length + 4) st.cached []
        let c := if n < 1 then st.cached else (getBTotalWithRetry st.names st.cached).2
        ({ st with cached := c }, (if ps.isEmpty then "-" else "|".intercalate (ps.map showBbsPage)) ++ " " ++ fin)
      | _, _ => (st, "bad-op")
  | ["pwalk", n, d, tot] =>
      match n.toNat?, parseDir d, tot.toInt? with
      | some n, some d, some tot =>
        let (ps, fin) := pwalk st.idx tot n d (2 * st.idx.length + 4) (if d then 0 else 1)
        (st, (if ps.isEmpty then "-" else showPages ps) ++ " " ++ fin)
      | _, _, _ => (st, "bad-op")
  | ["walk", n, d, c] =>
      match n.toInt?, parseDir d, c.toInt? with
      | some n, some d, some c =>
        let (ps, fin) := bbsWalk st.names n d (2 * st.names.length + 4) c []
        (st, (if ps.isEmpty then "-" else "|".intercalate (ps.map showBbsPage)) ++ " " ++ fin)
      | _, _, _ => (st, "bad-op")
  | ["ser", nm] => match parseHex nm with
      | some b => (st, toHex (serializeIdx (copyInto 28 b)))
      | none => (st, "bad-op")
  | ["deser", h] => match parseHex h with
      | some b => (st, showR (fun (p : Int × Name) => s!"ok {p.1} {toHex (cstr p.2)}") (deserializeIdx b))
      | none => (st, "bad-op")
  | _ => (st, "bad-op")

def main : IO Unit := runHandler { init := ({} : St), step := stepC06 }
