import PttVerif.DriverLoop
import PttVerif.Model.C02
import PttVerif.Model.C02Spec
open PttVerif PttVerif.C02

/-- ops: fcrypt <pw-hex> <salt-hex> | spec <pw-hex> <two-salt-chars-hex> (the textbook `Spec.crypt3`) | gen <num-dec> <pw-hex> <seed-dec> | check <expected-hex> <input-hex> <accept|reject|any>.
The seed (how the harness made `rand.Intn` return `num`) and the oracle tag are validated and otherwise ignored. -/
def stepC02 (_ : Unit) (ws : List String) : Unit × String :=
  let out := match ws with
    | ["fcrypt", p, s] => match parseHex p, parseHex s with
        | some p, some s => showM toHex (Fcrypt p s)
        | _, _ => "bad-op"
    | ["spec", p, s] => match parseHex p, parseHex s with
        | some p, some [c0, c1] => toHex (Spec.crypt3 p c0 c1)
        | _, _ => "bad-op"
    -- purity ops: the model is a pure function, so two results never share state; these ops tie exactly that
    | ["retain", p1, s1, p2, s2] => match parseHex p1, parseHex s1, parseHex p2, parseHex s2 with
        | some p1, some s1, some p2, some s2 =>
            showM (fun (hh : List Nat × List Nat) => toHex hh.1 ++ " " ++ toHex hh.2)
              (do let h1 ← Fcrypt p1 s1; let h2 ← Fcrypt p2 s2; pure (h1, h2))
        | _, _, _, _ => "bad-op"
    | ["checkfc", p, s, q, w] => match parseHex p, parseHex s, parseHex q, (w = "accept" ∨ w = "reject" : Bool) with
        | some p, some s, some q, true =>
            showM (fun b => if b then "true" else "false") (do let h ← Fcrypt p s; CheckPasswd h q)
        | _, _, _, _ => "bad-op"
    | ["conc", n, k] => match n.toNat?, k.toNat? with
        | some _, some _ => "done"
        | _, _ => "bad-op"
    | ["gen", n, p, k] => match n.toNat?, parseHex p, k.toNat? with
        | some n, some p, some _ => showM toHex (GenPasswdWith n p)
        | _, _, _ => "bad-op"
    | ["check", e, p, w] => match parseHex e, parseHex p, (w = "accept" ∨ w = "reject" ∨ w = "any" : Bool) with
        | some e, some p, true => showM (fun b => if b then "true" else "false") (CheckPasswd e p)
        | _, _, _ => "bad-op"
    | _ => "bad-op"
  ((), out)

def main : IO Unit := runHandler { init := (), step := stepC02 }
