import PttVerif.DriverLoop
import PttVerif.Model.C02
import PttVerif.Model.C02Spec
open PttVerif PttVerif.C02

/-- ops: fcrypt <pw-hex> <salt-hex> | spec <pw-hex> <two-salt-chars-hex> (the textbook `Spec.crypt3`) | gen <num-dec> <pw-hex> <seed-dec> | check <expected-hex> <input-hex> <accept|reject|any>.
The seed (how the harness made `rand.Intn` return `num`) and the oracle tag are validated and otherwise ignored. -/
def stepC02 (_ : Unit) (ws : List String) : Unit × String :=
  let out := match ws with
    | ["fcrypt", p, s] => match parseHex p, parseHex s with
        | some p, some s => showM toHex (Fcrypt p s)
        | _, _ => "bad-op"
    | ["spec", p, s] => match parseHex p, parseHex s with
        | some p, some [c0, c1] => toHex (Spec.crypt3 p c0 c1)
        | _, _ => "bad-op"
    | ["gen", n, p, k] => match n.toNat?, parseHex p, k.toNat? with
        | some n, some p, some _ => showM toHex (GenPasswdWith n p)
        | _, _, _ => "bad-op"
    | ["check", e, p, w] => match parseHex e, parseHex p, (w = "accept" ∨ w = "reject" ∨ w = "any" : Bool) with
        | some e, some p, true => showM (fun b => if b then "true" else "false") (CheckPasswd e p)
        | _, _, _ => "bad-op"
    | _ => "bad-op"
  ((), out)

def main : IO Unit := runHandler { init := (), step := stepC02 }
