import PttVerif.DriverLoop
import PttVerif.Model.C02
import PttVerif.Model.C02Spec
import PttVerif.Model.C02Login
import PttVerif.Gen.LoginSave
open PttVerif PttVerif.C02 PttVerif.C02.Login

/-- ops: fcrypt <pw-hex> <salt-hex> | spec <pw-hex> <two-salt-chars-hex> (the textbook `Spec.crypt3`) | gen <num-dec> <pw-hex> <seed-dec> | check <expected-hex> <input-hex> <accept|reject|any>.
The seed (how the harness made `rand.Intn` return `num`) and the oracle tag are validated and otherwise ignored. -/
def showOut : Out → String
  | .ok => "ok"
  | .refused => "refused"
  | .hash h => toHex h
  | .fault => "PANIC"

def wantOK (w : String) : Bool := w = "accept" || w = "reject" || w = "any"

/-- the login-history ops (pass `login`): reset <u1,u2,…> | sethash <u> <hash> | login|loginfull|checkpw <u> <pw> <want> |
chpw <u> <old> <new> <num> <seed> <want> | stored <u>; blogin / bcheckpw / bchpw are the string-taking entry points of
the bbs layer, which hand the bytes on unchanged: the same model steps.  State: the store user ↦ hash; `reset` lists the users that
exist (their hashes are then set by `sethash`). -/
def stepLogin (st : Store) (ws : List String) : Option (Store × String) :=
  match ws with
  | ["reset", us] =>
      match (us.splitOn ",").mapM parseHex with
      | some l => some (l.map (fun u => (u, List.replicate 14 0)), "ok")
      | none => some (st, "bad-op")
  | ["sethash", u, h] => match parseHex u, parseHex h with
      | some u, some h => let (s, o) := step st (.sethash u h); some (s, showOut o)
      | _, _ => some (st, "bad-op")
  | [k, u, p, w] =>
      if k = "login" || k = "loginfull" || k = "checkpw" || k = "blogin" || k = "bcheckpw" then
        match parseHex u, parseHex p, wantOK w with
        | some u, some p, true => let (s, o) := step st (.login u p); some (s, showOut o)
        | _, _, _ => some (st, "bad-op")
      else none
  | ["lrace", u, hA, a, b, num, k] =>
      -- `sethash u hA`, then a full ptt.Login(u, a) with ptt.ChangePasswd(u, a -> b) completing between its halves
      -- (schedule point login.afterQuery); the write-back rule of the second half is the one read from the source
      match parseHex u, parseHex hA, parseHex a, parseHex b, num.toNat?, k.toNat? with
      | some u, some hA, some a, some b, some num, some _ =>
          let (s1, o1) := step st (.sethash u hA)
          if o1 != Out.ok then some (s1, "refused") else
          let (s2, ol, os) := loginInFlight PttVerif.Gen.LoginSave.loginSaveRereads s1 u a [.chpw u a b num]
          let hs := match lookup s2 u with | some h => toHex h | none => "none"
          some (s2, showOut ol ++ "," ++ ",".intercalate (os.map showOut) ++ "," ++ hs)
      | _, _, _, _, _, _ => some (st, "bad-op")
  | [c, u, o, n, num, k, w] =>
      if c ≠ "chpw" && c ≠ "bchpw" then none else
      match parseHex u, parseHex o, parseHex n, num.toNat?, k.toNat?, wantOK w with
      | some u, some o, some n, some num, some _, true => let (s, r) := step st (.chpw u o n num); some (s, showOut r)
      | _, _, _, _, _, _ => some (st, "bad-op")
  | ["race", u, hA, a, b, num, k, t] =>
      -- a login in flight never writes the hash: the outcome is that of `sethash u hA; chpw u a b num`
      match parseHex u, parseHex hA, parseHex a, parseHex b, num.toNat?, k.toNat?, t.toNat? with
      | some u, some hA, some a, some b, some num, some _, some _ =>
          let (s1, o1) := step st (.sethash u hA)
          if o1 != Out.ok then some (s1, "refused") else
          let (s2, r) := step s1 (.chpw u a b num)
          some (s2, showOut r)
      | _, _, _, _, _, _, _ => some (st, "bad-op")
  | ["parcheck", r, ps] =>
      -- several users check their passwords at once: each answer is that of a login on the store as it is
      match r.toNat? with
      | some n =>
        if n < 1 || n > 5000 then some (st, "bad-op") else
        let pairs := (ps.splitOn ",").map (fun p => match p.splitOn ":" with
          | [u, w] => (match parseHex u, parseHex w with | some u, some w => some (u, w) | _, _ => none)
          | _ => none)
        if pairs.length > 16 || pairs.any Option.isNone then some (st, "bad-op") else
        some (st, ",".intercalate (pairs.filterMap (fun p => p.map (fun (u, w) => showOut (step st (.login u w)).2))))
      | none => some (st, "bad-op")
  | ["stored", u] => match parseHex u with
      | some u => let (s, o) := step st (.stored u); some (s, showOut o)
      | none => some (st, "bad-op")
  | _ => none

def stepC02 (st : Store) (ws : List String) : Store × String :=
  match stepLogin st ws with
  | some r => r
  | none =>
  let out := match ws with
    | ["fcrypt", p, s] => match parseHex p, parseHex s with
        | some p, some s => showM toHex (Fcrypt p s)
        | _, _ => "bad-op"
    | ["spec", p, s] => match parseHex p, parseHex s with
        | some p, some [c0, c1] => toHex (Spec.crypt3 p c0 c1)
        | _, _ => "bad-op"
    -- purity ops: the model is a pure function, so two results never share state; these ops tie exactly that
    | ["retain", p1, s1, p2, s2] => match parseHex p1, parseHex s1, parseHex p2, parseHex s2 with
        | some p1, some s1, some p2, some s2 =>
            showM (fun (hh : List Nat × List Nat) => toHex hh.1 ++ " " ++ toHex hh.2)
              (do let h1 ← Fcrypt p1 s1; let h2 ← Fcrypt p2 s2; pure (h1, h2))
        | _, _, _, _ => "bad-op"
    | ["checkfc", p, s, q, w] => match parseHex p, parseHex s, parseHex q, (w = "accept" ∨ w = "reject" : Bool) with
        | some p, some s, some q, true =>
            showM (fun b => if b then "true" else "false") (do let h ← Fcrypt p s; CheckPasswd h q)
        | _, _, _, _ => "bad-op"
    | ["conc", n, k] => match n.toNat?, k.toNat? with
        | some _, some _ => "done"
        | _, _ => "bad-op"
    | ["gen", n, p, k] => match n.toNat?, parseHex p, k.toNat? with
        | some n, some p, some _ => showM toHex (GenPasswdWith n p)
        | _, _, _ => "bad-op"
    | ["check", e, p, w] => match parseHex e, parseHex p, (w = "accept" ∨ w = "reject" ∨ w = "any" : Bool) with
        | some e, some p, true => showM (fun b => if b then "true" else "false") (CheckPasswd e p)
        | _, _, _ => "bad-op"
    | _ => "bad-op"
  (st, out)

def main : IO Unit := runHandler { init := ([] : Store), step := stepC02 }
