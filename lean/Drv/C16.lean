import PttVerif.DriverLoop
import PttVerif.Model.C16
open PttVerif PttVerif.C16

/-!
Line protocol of C16.  A presented token is one word:

  E                                     the empty string
  M                                     a string the library's ParseUnverified refuses
  T,<alg>,<sig>,<cli>,<sub>,<exp>,<typ>,<ctx>,<eml>,<iat>,<nbf>
        alg  hs256|hs384|hs512|none|asym
        sig  three bits: the harness's own HMAC check (crypto/hmac) of the signature under JWT_SECRET,
             REFRESH_JWT_SECRET, EMAIL_JWT_SECRET — the oracle value of the uninterpreted predicate
        claim  a | s:<hex> | nr:<d>[+] | na:<v>[+] | o   (a number is its floor, `+` = it has a fractional part;
               `nr` is relative to the clock)

optionally followed by `@<recipe>` (how the harness rebuilds the concrete string on a replay; ignored here).
The model runs at the nominal wall-clock second `T0`; the harness at the real one; both print expiry times
relative to their clock when they are within 10^8 s of it.
-/

def T0 : Int := 1800000000

def bound53 : Int := 9007199254740992

/-- `<int>` or `<int>+` (floor, has-fraction), |floor| < 2^53 -/
def parseNum16 (d : String) : Option (Int × Bool) :=
  let frac := d.endsWith "+"
  let body := if frac then (d.dropEnd 1).toString else d
  body.toInt?.bind fun x => if -bound53 < x ∧ x < bound53 then some (x, frac) else none

def parseClaim16 (s : String) : Option Claim :=
  if s = "a" then some .absent
  else if s = "o" then some .other
  else match s.splitOn ":" with
    | ["s", h] => (parseHex h).map .str
    | ["nr", d] => (parseNum16 d).map fun (x, f) => .num (T0 + x) f
    | ["na", d] => (parseNum16 d).map fun (x, f) => .num x f
    | _ => none

def parseAlg16 : String → Option Alg
  | "hs256" => some .hs256 | "hs384" => some .hs384 | "hs512" => some .hs512
  | "none" => some .none | "asym" => some .asym | _ => none

def parseBits16 (s : String) : Option (Bool × Bool × Bool) :=
  match s.toList with
  | [a, b, c] =>
      if (a = '0' ∨ a = '1') ∧ (b = '0' ∨ b = '1') ∧ (c = '0' ∨ c = '1') then some (a = '1', b = '1', c = '1') else none
  | _ => none

/-- the oracle as a function of the key: the three bits belong to the three secret variables of the source -/
def oracle16 (secs : Bytes × Bytes × Bytes) (b : Bool × Bool × Bool) : Secret → Bool := fun k =>
  (k == secs.1 && b.1) || (k == secs.2.1 && b.2.1) || (k == secs.2.2 && b.2.2)

def parseRaw16 (secs : Bytes × Bytes × Bytes) (w : String) : Option Raw :=
  let body := (w.splitOn "@").headD ""
  if body = "E" then some .empty
  else if body = "M" then some .malformed
  else match body.splitOn "," with
    | ["T", alg, sig, cli, sub, exp, typ, ctx, eml, iat, nbf] => do
        let a ← parseAlg16 alg
        let b ← parseBits16 sig
        let cli ← parseClaim16 cli
        let sub ← parseClaim16 sub
        let exp ← parseClaim16 exp
        let typ ← parseClaim16 typ
        let ctx ← parseClaim16 ctx
        let eml ← parseClaim16 eml
        let iat ← parseClaim16 iat
        let nbf ← parseClaim16 nbf
        pure (.tok { alg := a, hmacOK := oracle16 secs b, cli, sub, exp, typ, ctx, eml, iat, nbf })
    | _ => none

def showTime16 (e : Int) : String :=
  let d := e - T0
  if -100000000 < d ∧ d < 100000000 then s!"r{d}" else s!"a{e}"

def showErr16 : Err → String
  | .invalidToken => "invalid-token"
  | .invalidUser => "invalid-user"
  | .invalidRemoteAddr => "invalid-remote-addr"

def showIdent16 (i : Ident) : String := s!"user={toHex i.user} exp={showTime16 i.exp} cli={toHex i.cli}"

def showClaim16 : Claim → String
  | .absent => "a"
  | .other => "o"
  | .str s => s!"s:{toHex s}"
  | .num fl frac =>
      let d := fl - T0
      let f := if frac then "+" else ""
      if -100000000 < d ∧ d < 100000000 then s!"nr:{d}{f}" else s!"na:{fl}{f}"

def showAlg16 : Alg → String
  | .hs256 => "hs256" | .hs384 => "hs384" | .hs512 => "hs512" | .none => "none" | .asym => "asym"

def bit16 (b : Bool) : String := if b then "1" else "0"

def showToken16 (secs : Bytes × Bytes × Bytes) (t : Token) : String :=
  let sig := bit16 (t.hmacOK secs.1) ++ bit16 (t.hmacOK secs.2.1) ++ bit16 (t.hmacOK secs.2.2)
  s!"T,{showAlg16 t.alg},{sig},{showClaim16 t.cli},{showClaim16 t.sub},{showClaim16 t.exp},{showClaim16 t.typ},{showClaim16 t.ctx},{showClaim16 t.eml},{showClaim16 t.iat},{showClaim16 t.nbf}"

/-- the ideal signature: what is signed with `K` verifies under exactly the keys equal to `K` -/
def signedBy16 (K : Secret) : Secret → Bool := fun k => k == K

/-- `<n>` or `<n>@<header shape>` -/
def nfield16 (w : String) : Option Nat := ((w.splitOn "@").headD "").toNat?

def flag16 (s : String) : Option Bool := if s = "1" then some true else if s = "0" then some false else none

def httpErr16 : Err → String
  | .invalidToken => "401 invalid-token"
  | .invalidUser => "403 invalid-user"
  | .invalidRemoteAddr => "400 invalid-remote-addr"

/-- driver state: the variables of package api (initially the source defaults: the harness's first pass does
not call InitConfig), the configuration the functions see, the three secret variables -/
structure St16 where
  env : Env
  cfg : Cfg
  secs : Bytes × Bytes × Bytes

def var16 (env : Env) (n : String) : Bytes := (lookupVar env n).getD []

def mkSt16 (env : Env) : Option St16 :=
  (cfgOfEnv env).map fun c => { env := env, cfg := c, secs := (var16 env "JWT_SECRET", var16 env "REFRESH_JWT_SECRET", var16 env "EMAIL_JWT_SECRET") }

def init16 : St16 :=
  { env := Gen.Token.initialVars, cfg := srcCfg,
    secs := (Gen.Token.jwtSecret, Gen.Token.refreshJwtSecret, Gen.Token.emailJwtSecret) }

def showCfg16 (st : St16) : String :=
  let c := st.cfg
  s!"jwt={toHex st.secs.1} refresh={toHex st.secs.2.1} email={toHex st.secs.2.2} " ++
  s!"ttl={decToInt (var16 st.env "JWT_TOKEN_EXPIRE_TS")},{decToInt (var16 st.env "REFRESH_JWT_TOKEN_EXPIRE_TS")},{decToInt (var16 st.env "EMAIL_JWT_TOKEN_EXPIRE_TS")} eps={c.eps} " ++
  s!"guest={toHex c.guest} typ={toHex c.refreshType} ctx={toHex Gen.Token.contextChangeEmail},{toHex Gen.Token.contextSetIDEmail}"

def stepC16 (st : St16) (ws : List String) : St16 × String :=
  match ws with
  | ["useini", path] =>
      -- InitConfig() with one of the shipped ini files (or `none`: no [go-pttbbs:api] entry at all)
      let ini? : Option Env :=
        if path = "none" then some []
        else if path.startsWith "inline:" then
          -- an ini file written by the harness: inline:<key>=<hex>;<key>=<hex>…
          ((path.drop 7).toString.splitOn ";").mapM fun kv =>
            match kv.splitOn "=" with
            | [k, h] => (parseHex h).map fun v => (k, v)
            | _ => none
        else (Gen.Token.iniFiles.find? (·.1 == path)).map (·.2)
      match ini? with
      | none => (st, "bad-op")
      | some ini =>
        match (effEnv ini).bind mkSt16 with
        | none => (st, "bad-config")
        | some st' => (st', showCfg16 st' ++ s!" distinct={pairwiseDistinct st'.secs}")
  | _ =>
  let c := st.cfg
  let parseRaw16 := parseRaw16 st.secs
  let showToken16 := showToken16 st.secs
  let out := match ws with
    | ["config"] => showCfg16 st
    | ["vjwt", r, chk] =>
        match parseRaw16 r, flag16 chk with
        | some raw, some b => (match verifyJwt c T0 raw b with
            | .ok i => "ok " ++ showIdent16 i
            | .error e => "err " ++ showErr16 e)
        | _, _ => "bad-op"
    | ["vrefresh", r] =>
        match parseRaw16 r with
        | some raw => (match verifyRefreshJwt c T0 raw with
            | .ok i => "ok " ++ showIdent16 i
            | .error e => "err " ++ showErr16 e)
        | none => "bad-op"
    | ["vemail", r, ctx] =>
        match parseRaw16 r, parseHex ctx with
        | some raw, some cx => (match verifyEmailJwt c T0 raw cx with
            | .ok (i, eml) => "ok " ++ showIdent16 i ++ s!" eml={toHex eml}"
            | .error e => "err " ++ showErr16 e)
        | _, _ => "bad-op"
    | ["create", "access", u, cl] =>
        match parseHex u, parseHex cl with
        | some u, some cl =>
            let (tk, e) := createToken c T0 u cl (signedBy16 c.sAccess)
            s!"exp={showTime16 e} {showToken16 tk}"
        | _, _ => "bad-op"
    | ["create", "refresh", u, cl] =>
        match parseHex u, parseHex cl with
        | some u, some cl =>
            let (tk, e) := createRefreshToken c T0 u cl (signedBy16 c.sRefresh)
            s!"exp={showTime16 e} {showToken16 tk}"
        | _, _ => "bad-op"
    | ["chgemail", uu, q, r] =>
        -- ChangeEmail: context CONTEXT_CHANGE_EMAIL, sysops not allowed
        match parseHex uu, parseHex q, parseRaw16 r with
        | some uu, some q, some raw =>
            (match emailUserOK c T0 Gen.Token.strGuest uu q raw Gen.Token.contextChangeEmail false false with
            | some eml => s!"valid eml={toHex eml}"
            | none => "invalid")
        | _, _, _ => "bad-op"
    | [op, addr, nf, r] =>
        if op = "auth" ∨ op = "authp" then
          match flag16 addr, nfield16 nf, parseRaw16 r with
          | some a, some n, some raw => (match loginRequired c T0 a n raw with
              | .ok u => s!"200 user={toHex u}"
              | .error e => httpErr16 e)
          | _, _, _ => "bad-op"
        else if op = "tokinfo" ∨ op = "rtokinfo" then
          -- tokinfo <nfields> <header token> <body token>
          match nfield16 addr, parseRaw16 nf, parseRaw16 r with
          | some n, some hdr, some body =>
              let u := authAs c T0 n hdr
              let res := if op = "tokinfo" then getTokenInfo c T0 u body else getRefreshTokenInfo c T0 u body
              (match res with
              | .ok i => "200 " ++ showIdent16 i
              | .error e => httpErr16 e)
          | _, _, _ => "bad-op"
        else "bad-op"
    | ["emailinfo", nf, hdr, body, cx, sys] =>
        -- GetEmailTokenInfo through LoginRequiredJSON; <sys> is the answer of bbs.IsSysop for the authenticated user
        match nfield16 nf, parseRaw16 hdr, parseRaw16 body, parseHex cx, flag16 sys with
        | some n, some h, some b, some cx, some sy =>
            let u := authAs c T0 n h
            (match getEmailTokenInfo c T0 Gen.Token.strGuest u b cx sy with
            | .ok (i, eml) => "200 " ++ showIdent16 i ++ s!" eml={toHex eml}"
            | .error e => httpErr16 e)
        | _, _, _, _, _ => "bad-op"
    | ["refresh", nf, hdr, pcli, pr] =>
        match nfield16 nf, parseRaw16 hdr, parseHex pcli, parseRaw16 pr with
        | some n, some h, some pc, some r =>
            (match refresh c T0 n h pc r (signedBy16 c.sAccess) (signedBy16 c.sRefresh) with
            | .ok o => s!"200 user={toHex o.user} aexp={showTime16 o.accessExpire} rexp={showTime16 o.refreshExpire} access={showToken16 o.access} refresh={showToken16 o.refresh}"
            | .error e => httpErr16 e)
        | _, _, _, _ => "bad-op"
    | ["create", "email", u, cl, em, cx] =>
        match parseHex u, parseHex cl, parseHex em, parseHex cx with
        | some u, some cl, some em, some cx => showToken16 (createEmailToken c T0 u cl em cx (signedBy16 c.sEmail))
        | _, _, _, _ => "bad-op"
    | ["setidemail", uu, q, r, sys] =>
        -- SetIDEmail: context CONTEXT_SET_ID_EMAIL, sysops allowed; <sys> is the answer of bbs.IsSysop for the requester
        match parseHex uu, parseHex q, parseRaw16 r, flag16 sys with
        | some uu, some q, some raw, some sy =>
            (match emailUserOK c T0 Gen.Token.strGuest uu q raw Gen.Token.contextSetIDEmail true sy with
            | some _ => "valid"
            | none => "invalid")
        | _, _, _, _ => "bad-op"
    | _ => "bad-op"
  (st, out)

def main : IO Unit := runHandler { init := init16, step := stepC16 }
