import PttVerif.DriverLoop
import PttVerif.Model.C11
open PttVerif PttVerif.C18 PttVerif.C11

/-
ops (state = the current board table, set by `reset`):
  reset <maxBoard> <nameLen> <boards> <byName> <byClass>
        boards  = `-` | name:title8:g[:gid:childCount] , ...  (hex Brdname, hex Title[:8], g = 1 for a group/symbolic board)
        byName / byClass = `-` | decimal BSorted entries (the REAL arrays after ReloadBCache: sort.Sort is trusted,
        the model takes any permutation; the answer says whether each is sorted under the model's `Less`)
  busy <0|1>                                 Shm.BBusyState := v (1 stands for a loader that died holding the flag)
  bid <qhex>                                 cache.GetBid
  find name <asc|desc> <qhex>                cache.FindBoardIdxByName
  find class <asc|desc> <clshex> <qhex>      cache.FindBoardIdxByClass
  ac <asc|desc> <kwhex>                      cache.FindBoardAutoCompleteStartIdx
  page <name|class> <asc|desc> <n> <cursor>  bbs.LoadGeneralBoards     cursor = `-` | clshex:namehex
  apage <asc|desc> <n> <kwhex> <cursor>      bbs.LoadAutoCompleteBoards
  fpage <startBid> <n>                       bbs.LoadFullClassBoards
  fwalk <n>                                  client loop over bbs.LoadFullClassBoards (next_bid)
  children <classBid> <name|class>           bbs.LoadClassBoards
  dpage <name|class> <asc|desc> <n> <cursor> bbs.LoadGeneralBoardDetails
  dwalk <name|class> <asc|desc> <n>          client loop over bbs.LoadGeneralBoardDetails
  walk <name|class> <asc|desc> <n>           client loop over bbs.LoadGeneralBoards
  awalk <asc|desc> <n> <kwhex>               client loop over bbs.LoadAutoCompleteBoards
-/

structure St where
  t : Tbl := ⟨0, 13, [], []⟩
  slots : List Entry := []
  cls : ClsState := ⟨[], []⟩
  busy : Bool := false

def parseDir : String → Option Bool
  | "asc" => some true
  | "desc" => some false
  | _ => none

def parseBy : String → Option SortBy
  | "name" => some .name
  | "class" => some .cls
  | _ => none

def parseBoard3 (n t g : String) : Option Board :=
  match parseHex n, parseHex t, g with
  | some n, some t, "0" => some ⟨n, t, false⟩
  | some n, some t, "1" => some ⟨n, t, true⟩
  | _, _, _ => none

/-- `name:title8:g` or `name:title8:g:gid:childCount`. -/
def parseBoard (s : String) : Option (Board × Nat × Nat) :=
  match s.splitOn ":" with
  | [n, t, g] => (parseBoard3 n t g).map fun b => (b, 0, 0)
  | [n, t, g, gid, cc] =>
    match parseBoard3 n t g, gid.toNat?, cc.toNat? with
    | some b, some gid, some cc => some (b, gid, cc)
    | _, _, _ => none
  | _ => none

def parseList {α} (f : String → Option α) (s : String) : Option (List α) :=
  if s = "-" then some [] else (s.splitOn ",").mapM f

def isPerm (l : List Nat) (n : Nat) : Bool :=
  l.length == n && (List.range n).all (fun i => l.contains i)

def mkView (bs : List Board) (p : List Nat) : List Entry := p.map fun i => ⟨i, bs.getD i default⟩

/-- `shmBoardByName.Less` / `shmBoardByClass.Less`. -/
def lessName (a b : Entry) : Bool :=
  match cstrcasecmp a.b.name b.b.name with
  | .ok v => v < 0
  | .error _ => false

def lessClass (a b : Entry) : Bool :=
  match cstrcmp (class4 a.b.title) (class4 b.b.title) with
  | .ok c => if c ≠ 0 then c < 0 else lessName a b
  | .error _ => false

/-- what sort.Sort guarantees: no element is `Less` than its predecessor. -/
def sortedAdj (less : Entry → Entry → Bool) : List Entry → Bool
  | a :: b :: rest => !less b a && sortedAdj less (b :: rest)
  | _ => true

def parseCursor (s : String) : Option (Option Cursor) :=
  if s = "-" then some none
  else match s.splitOn ":" with
    | [c, n] => match parseHex c, parseHex n with
      | some c, some n => some (some ⟨c, n⟩)
      | _, _ => none
    | _ => none

/-- the empty cursor string means "from the start": for by-name listings that is the cursor with an empty name. -/
def normCursor (by_ : SortBy) (c : Option Cursor) : Option Cursor :=
  match by_, c with
  | .name, some c => if c.name.isEmpty then none else some c
  | _, c => c

def showBids (l : List Entry) : String :=
  if l.isEmpty then "-" else ",".intercalate (l.map fun e => toString (e.bid + 1))

def showCursor (c : Option Cursor) : String :=
  match c with
  | none => "-"
  | some c => s!"{toHex c.cls}:{toHex c.name}"

def showR {α} (f : α → String) : R α → String
  | .ok a => f a
  | .error (.fault e) => toString e
  | .error .invalidParams => "invalid-params"
  | .error .invalidBid => "invalid-bid"

/-- a by-name cursor string does not carry the class: printed as `*`. -/
def showNext (by_ : SortBy) (c : Option Cursor) : String :=
  match by_, c with
  | .name, some c => s!"*:{toHex c.name}"
  | _, c => showCursor c

def showPage (by_ : SortBy) (p : Page) : String :=
  s!"ok {showBids p.items} next={showNext by_ (nextCursor by_ p)}"

def showPages (ps : List (List Entry)) : String := "ok " ++ "/".intercalate (ps.map showBids)

def bytesOK (l : List Nat) : Bool := l.all (· < 256)

/-- `over=<k>`: k more records in the file than the line shows. -/
def parseOver (s : String) : Option Nat :=
  if s.startsWith "over=" then (s.drop 5).toNat? else none

def doReset (st : St) (busyTok : Bool) (over : Nat) (mb nl bs bn bc : String) : St × String :=
  let st := if busyTok then { st with busy := true } else st
  let t := st.t
  match (["reset", mb, nl, bs, bn, bc] : List String) with
  | ["reset", mb, nl, bs, bn, bc] =>
    match mb.toNat?, nl.toNat?, parseList parseBoard bs, parseList String.toNat? bn, parseList String.toNat? bc with
    | some mb, some nl, some bl, some bn, some bc =>
      let bs := bl.map (·.1)
      if isPerm bn bs.length && isPerm bc bs.length && bs.all (fun b => b.name.length == nl && b.title.length == 8) then
        let t : Tbl := ⟨mb, nl, mkView bs bn, mkView bs bc⟩
        let s1 := if sortedAdj lessName t.byName then 1 else 0
        let s2 := if sortedAdj lessClass t.byClass then 1 else 0
        -- `over`: records written to .BRD behind the ones of this line (an oversized file)
        let ld := reloadBCache mb ⟨st.busy, [], false⟩ (bs ++ List.replicate over default)
        ({ t := t, slots := mkView bs (List.range bs.length), cls := ClsState.fresh (bl.map (·.2)), busy := ld.busy },
          s!"n={ld.boards.length} sorted={s1},{s2} busy={if ld.busy then 1 else 0} resorted={if ld.sorted then 1 else 0}")
      else (st, "bad-op")
    | _, _, _, _, _ => (st, "bad-op")
  | _ => (st, "bad-op")

def stepC11 (st : St) (ws : List String) : St × String :=
  let t := st.t
  match ws with
  | ["reset", mb, nl, bs, bn, bc] => doReset st false 0 mb nl bs bn bc
  | ["reset", mb, nl, bs, bn, bc, o] =>
    match parseOver o with
    | some k => doReset st false k mb nl bs bn bc
    | none => if o = "busy" then doReset st true 0 mb nl bs bn bc else (st, "bad-op")
  | ["busy", "1"] => ({ st with busy := true }, "ok")     -- a loader died holding BBusyState
  | ["busy", "0"] => ({ st with busy := false }, "ok")
  | ["bid", q] =>
    match parseHex q with
    | some q => (st, showM toString (getBid t.byName (copyInto t.nameLen q)))
    | none => (st, "bad-op")
  | ["find", "name", d, q] =>
    match parseDir d, parseHex q with
    | some d, some q => (st, showM toString (findIdx t.maxBoard (cmpName (copyInto t.nameLen q)) t.byName d))
    | _, _ => (st, "bad-op")
  | ["find", "class", d, c, q] =>
    match parseDir d, parseHex c, parseHex q with
    | some d, some c, some q =>
      (st, showM toString (findIdx t.maxBoard (cmpClass c (copyInto t.nameLen q)) t.byClass d))
    | _, _, _ => (st, "bad-op")
  | ["ac", d, k] =>
    match parseDir d, parseHex k with
    | some d, some k => (st, showM toString (autoStart t.maxBoard t.nameLen t.byName k d))
    | _, _ => (st, "bad-op")
  | ["page", b, d, n, c] =>
    match parseBy b, parseDir d, n.toInt?, parseCursor c with
    | some b, some d, some n, some c => (st, showR (showPage b) (loadGeneral t b (normCursor b c) n d))
    | _, _, _, _ => (st, "bad-op")
  | ["apage", d, n, k, c] =>
    match parseDir d, n.toInt?, parseHex k, parseCursor c with
    | some d, some n, some k, some c => (st, showR (showPage .name) (loadAuto t (normCursor .name c) n k d))
    | _, _, _, _ => (st, "bad-op")
  | ["fpage", b, n] =>
    match b.toInt?, n.toInt? with
    | some b, some n =>
      (st, showR (fun p => s!"ok {showBids p.items} next={match p.next with | none => 0 | some e => e.bid + 1}")
        (loadFullClass t.maxBoard st.slots b n))
    | _, _ => (st, "bad-op")
  | ["fwalk", n] =>
    match n.toInt? with
    | some n => (st, showR showPages (walkFullClass t.maxBoard st.slots n))
    | none => (st, "bad-op")
  | ["children", c, b] =>
    match c.toInt?, parseBy b with
    | some c, some b =>
      if Int.ofNat st.slots.length < c ∧ c ≤ Int.ofNat t.maxBoard then (st, "beyond-table")
      else
        match loadClassBoards t st.cls c b with
        | .ok (l, cls') => ({ st with cls := cls' }, s!"ok {showBids l}")
        | .error e => (st, showR (fun (_ : Unit) => "") (.error e))
    | _, _ => (st, "bad-op")
  | ["dpage", b, d, n, c] =>
    match parseBy b, parseDir d, n.toInt?, parseCursor c with
    | some b, some d, some n, some c => (st, showR (showPage b) (loadDetails t b (normCursor b c) n d))
    | _, _, _, _ => (st, "bad-op")
  | ["dwalk", b, d, n] =>
    match parseBy b, parseDir d, n.toInt? with
    | some b, some d, some n => (st, showR showPages (walkDetails t b n d))
    | _, _, _ => (st, "bad-op")
  | ["walk", b, d, n] =>
    match parseBy b, parseDir d, n.toInt? with
    | some b, some d, some n => (st, showR showPages (walkGeneral t b n d))
    | _, _, _ => (st, "bad-op")
  | ["awalk", d, n, k] =>
    match parseDir d, n.toInt?, parseHex k with
    | some d, some n, some k => (st, showR showPages (walkAuto t n k d))
    | _, _, _ => (st, "bad-op")
  | _ => (st, "bad-op")

def main : IO Unit := runHandler { init := {}, step := stepC11 }
