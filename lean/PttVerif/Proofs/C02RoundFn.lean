import PttVerif.Proofs.C02Salt
import PttVerif.Proofs.C02
/-
C02, stage 4 — one call of `dEncrypt` is one textbook Feistel half-round: `L ^ rho (f(R, K))`.
-/
namespace PttVerif.C02.Lin
open PttVerif PttVerif.C02 PttVerif.Gen.CryptTables

theorem rho_lt (x : Nat) (hx : x < 2 ^ 32) : rho x < 2 ^ 32 := by
  have := le_sub 32 (rhoE LE.inp) (by decide +kernel) x hx
  have e : supp (2 ^ 32 - 1) (rhoE LE.inp) = 2 ^ 32 - 1 := by decide +kernel
  rw [e] at this
  exact lt_of_sub this

theorem rho_xor (x y : Nat) (hx : x < 2 ^ 32) (hy : y < 2 ^ 32) : rho (x ^^^ y) = rho x ^^^ rho y :=
  le_lin 32 (rhoE LE.inp) (by decide +kernel) x y hx hy

theorem rho_zero : rho 0 = 0 := by decide +kernel

theorem kw1_lt (K : Nat) (hK : K < 2 ^ 48) : kw1 K < 2 ^ 32 := by
  have := le_sub 48 (kw1E LE.inp) (by decide +kernel) K hK
  exact Nat.lt_of_le_of_lt (sub_le this) (by decide +kernel)

/-- `(t >> 4) | (t << 28)`. -/
def rotr4 (w : Nat) : Nat := shr w 4 ||| shl w 28

theorem rotr4_xor (x y : Nat) (hx : x < 2 ^ 32) (hy : y < 2 ^ 32) : rotr4 (x ^^^ y) = rotr4 x ^^^ rotr4 y :=
  le_lin 32 (rotr4E LE.inp) (by decide +kernel) x y hx hy

theorem rotr4_eq_xor (x : Nat) (hx : x < 2 ^ 32) : rotr4 x = shr x 4 ^^^ shl x 28 :=
  le_ext 32 (rotr4E LE.inp) (LE.xor (LE.shr LE.inp 4) (LE.shl LE.inp 28)) (by decide +kernel) (by decide +kernel)
    (by decide +kernel) x hx

theorem shl_lt (a n : Nat) : shl a n < 2 ^ 32 := Nat.mod_lt _ (by decide)

/-- the S-box index `dEncrypt` uses for box `b`, from the words `u` and (rotated) `t`. -/
def mIdx (b u t : Nat) : Nat := if b % 2 = 0 then shr u (8 * (b / 2)) &&& 0x3f else shr t (8 * (b / 2)) &&& 0x3f

/-- the two words of `dEncrypt`. -/
def uWord (r k0 E0 : Nat) : Nat :=
  let t := r ^^^ shr r 16
  let u := t &&& E0
  (u ^^^ shl u 16) ^^^ r ^^^ k0

def tWord (r k1 E1 : Nat) : Nat :=
  let t := r ^^^ shr r 16
  let t := t &&& E1
  let t := (t ^^^ shl t 16) ^^^ r ^^^ k1
  shr t 4 ||| shl t 28

theorem dEncrypt_eq (L R S E0 E1 : Nat) (s : List Nat) :
    dEncrypt L R S E0 E1 s =
      L ^^^ (tbl SPtrans 1 (mIdx 1 (uWord R (s.getD S 0) E0) (tWord R (s.getD (S + 1) 0) E1)) |||
        tbl SPtrans 3 (mIdx 3 (uWord R (s.getD S 0) E0) (tWord R (s.getD (S + 1) 0) E1)) |||
        tbl SPtrans 5 (mIdx 5 (uWord R (s.getD S 0) E0) (tWord R (s.getD (S + 1) 0) E1)) |||
        tbl SPtrans 7 (mIdx 7 (uWord R (s.getD S 0) E0) (tWord R (s.getD (S + 1) 0) E1)) |||
        tbl SPtrans 0 (mIdx 0 (uWord R (s.getD S 0) E0) (tWord R (s.getD (S + 1) 0) E1)) |||
        tbl SPtrans 2 (mIdx 2 (uWord R (s.getD S 0) E0) (tWord R (s.getD (S + 1) 0) E1)) |||
        tbl SPtrans 4 (mIdx 4 (uWord R (s.getD S 0) E0) (tWord R (s.getD (S + 1) 0) E1)) |||
        tbl SPtrans 6 (mIdx 6 (uWord R (s.getD S 0) E0) (tWord R (s.getD (S + 1) 0) E1))) := by
  simp [dEncrypt, mIdx, uWord, tWord, shr]

theorem idx3 (a b c n : Nat) :
    shr (a ^^^ b ^^^ c) n &&& 0x3f = (shr a n &&& 0x3f) ^^^ (shr b n &&& 0x3f) ^^^ (shr c n &&& 0x3f) := by
  simp [shr, Nat.shiftRight_xor_distrib, Nat.and_xor_distrib_right]

theorem and_lt32 (x m : Nat) (hm : m < 2 ^ 32) : x &&& m < 2 ^ 32 := Nat.lt_of_le_of_lt Nat.and_le_right hm

theorem idx_even (j r k0 E0 : Nat) :
    shr (uWord r k0 E0) (8 * j) &&& 0x3f =
      (shr (((r ^^^ shr r 16) &&& E0) ^^^ shl ((r ^^^ shr r 16) &&& E0) 16) (8 * j) &&& 0x3f) ^^^
        (shr r (8 * j) &&& 0x3f) ^^^ (shr k0 (8 * j) &&& 0x3f) := by
  unfold uWord; exact idx3 _ _ _ _

theorem idx_odd (j r k1 E1 : Nat) (hr : r < 2 ^ 32) (hk : k1 < 2 ^ 32) (hE : E1 < 2 ^ 32) :
    shr (tWord r k1 E1) (8 * j) &&& 0x3f =
      (shr (shr (((r ^^^ shr r 16) &&& E1) ^^^ shl ((r ^^^ shr r 16) &&& E1) 16) 4 ^^^
            shl (((r ^^^ shr r 16) &&& E1) ^^^ shl ((r ^^^ shr r 16) &&& E1) 16) 28) (8 * j) &&& 0x3f) ^^^
        (shr (rotr4 r) (8 * j) &&& 0x3f) ^^^ (shr (rotr4 k1) (8 * j) &&& 0x3f) := by
  have hq : (r ^^^ shr r 16) &&& E1 < 2 ^ 32 := and_lt32 _ _ hE
  have hA : ((r ^^^ shr r 16) &&& E1) ^^^ shl ((r ^^^ shr r 16) &&& E1) 16 < 2 ^ 32 :=
    Nat.xor_lt_two_pow hq (shl_lt _ _)
  have : tWord r k1 E1 = rotr4 ((((r ^^^ shr r 16) &&& E1) ^^^ shl ((r ^^^ shr r 16) &&& E1) 16) ^^^ r ^^^ k1) := rfl
  rw [this, rotr4_xor _ _ (Nat.xor_lt_two_pow hA hr) hk, rotr4_xor _ _ hA hr, rotr4_eq_xor _ hA]
  exact idx3 _ _ _ _

theorem dataIdx_even (R j : Nat) : dataIdx R (2 * j) = shr (rho R) (8 * j) &&& 0x3f := by
  unfold dataIdx dataIdxE
  rw [if_pos (by omega), show 2 * j / 2 = j by omega]; rfl

theorem dataIdx_odd (R j : Nat) : dataIdx R (2 * j + 1) = shr (rotr4 (rho R)) (8 * j) &&& 0x3f := by
  unfold dataIdx dataIdxE
  rw [if_neg (by omega), show (2 * j + 1) / 2 = j by omega]; rfl

theorem keyIdx_even (K j : Nat) : keyIdx K (2 * j) = shr (kw0 K) (8 * j) &&& 0x3f := by
  unfold keyIdx keyIdxE
  rw [if_pos (by omega), show 2 * j / 2 = j by omega]; rfl

theorem keyIdx_odd (K j : Nat) : keyIdx K (2 * j + 1) = shr (rotr4 (kw1 K)) (8 * j) &&& 0x3f := by
  unfold keyIdx keyIdxE
  rw [if_neg (by omega), show (2 * j + 1) / 2 = j by omega]; rfl

theorem eval_tt (R : Nat) : eval R ttE = rho R ^^^ shr (rho R) 16 := rfl

theorem fsRE_even (R j E0 E1 : Nat) : eval R (fsRE (2 * j) E0 E1) =
    shr (((rho R ^^^ shr (rho R) 16) &&& E0) ^^^ shl ((rho R ^^^ shr (rho R) 16) &&& E0) 16) (8 * j) &&& 0x3f := by
  unfold fsRE fsCore
  rw [if_pos (by omega), if_pos (by omega), show 2 * j / 2 = j by omega]
  simp only [eval, eval_tt]; rfl

theorem fsRE_odd (R j E0 E1 : Nat) : eval R (fsRE (2 * j + 1) E0 E1) =
    shr (shr (((rho R ^^^ shr (rho R) 16) &&& E1) ^^^ shl ((rho R ^^^ shr (rho R) 16) &&& E1) 16) 4 ^^^
      shl (((rho R ^^^ shr (rho R) 16) &&& E1) ^^^ shl ((rho R ^^^ shr (rho R) 16) &&& E1) 16) 28) (8 * j) &&& 0x3f := by
  unfold fsRE fsCore
  rw [if_neg (by omega), if_neg (by omega), show (2 * j + 1) / 2 = j by omega]
  simp only [eval, eval_tt]; rfl

theorem mIdx_even (j u t : Nat) : mIdx (2 * j) u t = shr u (8 * j) &&& 0x3f := by
  unfold mIdx; rw [if_pos (by omega), show 2 * j / 2 = j by omega]

theorem mIdx_odd (j u t : Nat) : mIdx (2 * j + 1) u t = shr t (8 * j) &&& 0x3f := by
  unfold mIdx; rw [if_neg (by omega), show (2 * j + 1) / 2 = j by omega]

/-- the index `dEncrypt` uses for box `b` splits into salt part, data part and key part. -/
theorem mIdx_split (b R K E0 E1 : Nat) (hR : R < 2 ^ 32) (hK : K < 2 ^ 48) (hE : E1 < 2 ^ 32) :
    mIdx b (uWord (rho R) (kw0 K) E0) (tWord (rho R) (kw1 K) E1) =
      eval R (fsRE b E0 E1) ^^^ dataIdx R b ^^^ keyIdx K b := by
  have hr := rho_lt R hR
  have hk := kw1_lt K hK
  rcases Nat.mod_two_eq_zero_or_one b with h | h
  · obtain ⟨j, rfl⟩ : ∃ j, b = 2 * j := ⟨b / 2, by omega⟩
    rw [mIdx_even, fsRE_even, dataIdx_even, keyIdx_even]
    exact idx_even j _ _ _
  · obtain ⟨j, rfl⟩ : ∃ j, b = 2 * j + 1 := ⟨b / 2, by omega⟩
    rw [mIdx_odd, fsRE_odd, dataIdx_odd, keyIdx_odd]
    exact idx_odd j _ _ _ hr hk hE

/-- block `b+1` (bits 6b+1 … 6b+6) of a 48-bit value. -/
def sch (b x : Nat) : Nat := (x >>> (6 * (7 - b))) &&& 63

theorem sch_xor (b x y : Nat) : sch b (x ^^^ y) = sch b x ^^^ sch b y := by
  simp [sch, Nat.shiftRight_xor_distrib, Nat.and_xor_distrib_right]

theorem gsRE_eval (b m R : Nat) :
    eval R (gsRE b m) =
      Spec.revBits 6 (sch b ((((Spec.permF Spec.E 32 R) ^^^ (Spec.permF Spec.E 32 R) >>> 24) &&& m) ^^^
        ((((Spec.permF Spec.E 32 R) ^^^ (Spec.permF Spec.E 32 R) >>> 24) &&& m) <<< 24))) := rfl

theorem saltE_eq (m R : Nat) : Spec.saltE m R =
    Spec.permF Spec.E 32 R ^^^ ((Spec.permF Spec.E 32 R ^^^ Spec.permF Spec.E 32 R >>> 24) &&& m) ^^^
      (((Spec.permF Spec.E 32 R ^^^ Spec.permF Spec.E 32 R >>> 24) &&& m) <<< 24) := rfl

theorem sch_split_aux (b e D K : Nat) :
    Spec.revBits 6 (sch b (e ^^^ D ^^^ (D <<< 24) ^^^ K)) =
      Spec.revBits 6 (sch b (D ^^^ (D <<< 24))) ^^^ Spec.revBits 6 (sch b e) ^^^ Spec.revBits 6 (sch b K) := by
  rw [Nat.xor_assoc e, sch_xor, sch_xor, revBits_xor, revBits_xor]
  generalize Spec.revBits 6 (sch b e) = x
  generalize Spec.revBits 6 (sch b (D ^^^ D <<< 24)) = y
  generalize Spec.revBits 6 (sch b K) = z
  rw [Nat.xor_comm x y]

/-- block `b` of the textbook pre-S-box value `saltE(R) ⊕ K`, bit-reversed, splits the same way. -/
theorem sch_split (b m R K : Nat) (hb : b < 8) (hR : R < 2 ^ 32) (hK : K < 2 ^ 48) :
    Spec.revBits 6 (sch b (Spec.saltE m R ^^^ K)) = eval R (gsRE b m) ^^^ dataIdx R b ^^^ keyIdx K b := by
  rw [dataIdx_eq_Eblock R b hR hb, keyIdx_eq_block K b hK hb, gsRE_eval, saltE_eq]
  generalize Spec.permF Spec.E 32 R = e
  exact sch_split_aux b e _ K

/-- the index `dEncrypt` feeds to `SPtrans[b]` is block `b+1` of the textbook `saltE(R) ⊕ K`, first bit least
significant — for every half, round key and salt. -/
theorem mIdx_eq (b R K σ : Nat) (hb : b < 8) (hR : R < 2 ^ 32) (hK : K < 2 ^ 48) (hσ : σ < 2 ^ 12) :
    mIdx b (uWord (rho R) (kw0 K) (σ &&& 63)) (tWord (rho R) (kw1 K) (shl (σ >>> 6) 4)) =
      Spec.revBits 6 (sch b (Spec.saltE (Spec.saltMaskOf (σ &&& 63) (σ >>> 6)) R ^^^ K)) := by
  rw [mIdx_split b R K _ _ hR hK (shl_lt _ _), sch_split b _ R K hb hR hK, fs_eq_gs b R σ hb hR hσ]

end PttVerif.C02.Lin
