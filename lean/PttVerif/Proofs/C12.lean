import PttVerif.Model.C12
/-
C12 — helper lemmas.  Part 1: C strings, Cstrcmp / Cstrcasecmp and their reading as the lexicographic order
of the lower-cased C strings; BoardID_t.IsValid.
-/
namespace PttVerif.C12
open PttVerif

/-! ### facts of the source -/

theorem gen_subst : Gen.NewBoard.substituteIndex = "zeroBased" := by decide
theorem gen_isValidIndex : Gen.NewBoard.isValidIndex = "b[idx]" := by decide
theorem gen_rmdir : rmdirOnFail = true := by decide

/-! ### C strings -/

theorem cstr_nil : cstr ([] : Bytes) = [] := rfl

theorem cstr_cons (x : Nat) (xs : Bytes) : cstr (x :: xs) = if x = 0 then [] else x :: cstr xs := by
  unfold cstr
  by_cases h : x = 0
  · simp [h]
  · simp [h]

theorem lower_eq_zero (c : Nat) : lower c = 0 ↔ c = 0 := by
  unfold lower
  split <;> omega

theorem cstr_map_lower (a : Bytes) : cstr (a.map lower) = (cstr a).map lower := by
  induction a with
  | nil => rfl
  | cons x xs ih =>
      rw [List.map_cons, cstr_cons, cstr_cons]
      by_cases h : x = 0
      · simp [h, lower]
      · have : lower x ≠ 0 := fun h' => h ((lower_eq_zero x).mp h')
        simp [h, this, ih]

theorem cstr_zeros (n : Nat) : cstr (zeros n) = [] := by
  cases n with
  | zero => rfl
  | succ n => simp [zeros, List.replicate_succ, cstr_cons]

theorem nameKey_zeros (n : Nat) : nameKey (zeros n) = [] := by simp [nameKey, cstr_zeros]

/-! ### Cstrcmp is the three-way lexicographic comparison of the C strings (any lengths) -/

theorem cstrcmp_sign (a b : Bytes) :
    (cstrcmp a b = 0 ↔ cstr a = cstr b) ∧ (cstrcmp a b < 0 ↔ cstr a < cstr b) ∧
    (0 < cstrcmp a b ↔ cstr b < cstr a) := by
  induction a generalizing b with
  | nil =>
      cases b with
      | nil => simp [cstrcmp, cstr_nil]
      | cons y ys =>
          simp only [cstrcmp, cstr_nil, cstr_cons]
          by_cases hy : y = 0
          · simp [hy]
          · simp [hy]; omega
  | cons x xs ih =>
      cases b with
      | nil =>
          simp only [cstrcmp, cstr_nil, cstr_cons]
          by_cases hx : x = 0
          · simp [hx]
          · simp [hx]; omega
      | cons y ys =>
          simp only [cstrcmp, cstr_cons]
          by_cases hx : x = 0
          · by_cases hy : y = 0
            · simp [hx, hy]
            · simp [hx, hy]; omega
          · by_cases hy : y = 0
            · have hxy : x ≠ y := by omega
              simp [hx, hy]; omega
            · by_cases hxy : x = y
              · subst hxy
                have := ih ys
                simp [hx, List.cons_lt_cons_iff, this]
              · simp [hx, hy, hxy, List.cons_lt_cons_iff]
                omega

/-- `Cstrcasecmp(a, b) == 0` iff the lower-cased C strings are equal. -/
theorem ccmp_eq_zero_iff (a b : Bytes) : ccmp a b = 0 ↔ nameKey a = nameKey b := by
  unfold ccmp nameKey
  rw [(cstrcmp_sign _ _).1, cstr_map_lower, cstr_map_lower]

theorem ccmp_neg_iff (a b : Bytes) : ccmp a b < 0 ↔ nameKey a < nameKey b := by
  unfold ccmp nameKey
  rw [(cstrcmp_sign _ _).2.1, cstr_map_lower, cstr_map_lower]

theorem ccmp_pos_iff (a b : Bytes) : 0 < ccmp a b ↔ nameKey b < nameKey a := by
  unfold ccmp nameKey
  rw [(cstrcmp_sign _ _).2.2, cstr_map_lower, cstr_map_lower]

theorem key_eq_of_not_lt {a b : Bytes} (h1 : ¬ a < b) (h2 : ¬ b < a) : a = b :=
  List.le_antisymm (List.not_lt.mp h2) (List.not_lt.mp h1)

theorem key_not_lt_of_lt {a b : Bytes} (h : a < b) : ¬ b < a := List.lt_asymm h

theorem key_lt_of_lt_of_not_lt {a b c : Bytes} (h1 : a < b) (h2 : ¬ c < b) : a < c := by
  by_cases h : a < c
  · exact h
  · -- c ≤ a < b, so c < b
    exfalso
    apply h2
    by_cases hca : c < a
    · exact List.lt_trans hca h1
    · have : c = a := key_eq_of_not_lt hca h
      subst this; exact h1

theorem key_lt_of_not_lt_of_lt {a b c : Bytes} (h1 : ¬ b < a) (h2 : b < c) : a < c := by
  by_cases h : a < c
  · exact h
  · exfalso
    apply h1
    by_cases hca : c < a
    · exact List.lt_trans h2 hca
    · have : c = a := key_eq_of_not_lt hca h
      subst this; exact h2

/-! ### BoardID_t.IsValid -/

theorem getElem?_cstr (b : Bytes) (i : Nat) (h : i < (cstr b).length) : b[i]? = (cstr b)[i]? := by
  induction b generalizing i with
  | nil => simp [cstr_nil] at h
  | cons x xs ih =>
      rw [cstr_cons] at h ⊢
      by_cases hx : x = 0
      · simp [hx] at h
      · simp only [hx, if_false] at h ⊢
        cases i with
        | zero => rfl
        | succ i => simpa using ih i (by simpa using h)

theorem idx_cstr (b : Bytes) (i : Nat) (c : Nat) (h : (cstr b)[i]? = some c) : idx b i = .ok c := by
  have hi : i < (cstr b).length := by
    rcases Nat.lt_or_ge i (cstr b).length with h' | h'
    · exact h'
    · rw [List.getElem?_eq_none h'] at h; cases h
  unfold idx
  rw [getElem?_cstr b i hi, h]

theorem okChar_eq (x : Nat) : okChar x = (isAlnum x || x = 95 || x = 45 || x = 46) := by
  have : Gen.NewBoard.isValidExtraChars = [95, 45, 46] := rfl
  unfold okChar
  rw [this]
  by_cases h1 : x = 95 <;> by_cases h2 : x = 45 <;> by_cases h3 : x = 46 <;> simp [h1, h2, h3]

theorem validLoop_eq (b : Bytes) (ch0 : Nat) (n i : Nat) (h : i + n ≤ (cstr b).length) :
    validLoop b ch0 n i = .ok ((((cstr b).drop i).take n).all okChar) := by
  induction n generalizing i with
  | zero => simp [validLoop]; rfl
  | succ n ih =>
      have hi : i < (cstr b).length := by omega
      have hc : (cstr b)[i]? = some ((cstr b)[i]) := List.getElem?_eq_getElem hi
      have hdrop : (cstr b).drop i = (cstr b)[i] :: (cstr b).drop (i + 1) := (List.drop_eq_getElem_cons hi)
      unfold validLoop
      rw [if_pos gen_isValidIndex, idx_cstr b i _ hc, hdrop]
      simp only [List.take_succ_cons, List.all_cons]
      by_cases hk : okChar ((cstr b)[i]) = true
      · rw [ih (i + 1) (by omega)]
        simp [hk, bind, Except.bind]
      · simp [hk, bind, Except.bind, pure, Except.pure]

/-- `BoardID_t.IsValid` is the declarative predicate, for every byte array. -/
theorem isValidName_eq (b : Bytes) : isValidName b = .ok (validNameSpec b) := by
  have hlo : Gen.NewBoard.isValidLenLo = 2 := rfl
  have hhi : Gen.NewBoard.isValidLenHi = 12 := rfl
  have hst : Gen.NewBoard.isValidLoopStart = 1 := rfl
  unfold isValidName validNameSpec
  rw [hlo, hhi, hst]
  cases hcs : cstr b with
  | nil => simp [pure, Except.pure]
  | cons c rest =>
      simp only [List.length_cons]
      by_cases hlen : rest.length + 1 < 2 ∨ rest.length + 1 > 12
      · rw [if_pos hlen]
        have : (decide (2 ≤ rest.length + 1) && decide (rest.length + 1 ≤ 12)) = false := by
          rcases hlen with h | h
          · simp; omega
          · simp; omega
        rw [this]
        simp [pure, Except.pure]
      · rw [if_neg hlen]
        have h0 : (cstr b)[0]? = some c := by rw [hcs]; rfl
        rw [idx_cstr b 0 c h0]
        have h2 : (decide (2 ≤ rest.length + 1) && decide (rest.length + 1 ≤ 12)) = true := by
          simp; omega
        by_cases ha : isAlpha c = true
        · have hl := validLoop_eq b c (rest.length + 1 - 1) 1 (by rw [hcs]; simp; omega)
          rw [hcs] at hl
          simp only [List.drop_succ_cons, List.drop_zero, Nat.add_sub_cancel, List.take_length] at hl
          simp only [bind, Except.bind, ha, Bool.not_true, Bool.false_eq_true, if_false]
          rw [Nat.add_sub_cancel, hl, h2]
          have : (rest.all okChar) = rest.all (fun x => isAlnum x || x = 95 || x = 45 || x = 46) := by
            congr 1; funext x; rw [okChar_eq]
          simp [this]
        · simp [bind, Except.bind, ha, pure, Except.pure, h2]

end PttVerif.C12
