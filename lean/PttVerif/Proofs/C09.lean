import PttVerif.Model.C09
import PttVerif.Props.C05
import PttVerif.Props.C13
/-
C09 — helper lemmas (text pipeline, record layout, state updates).
-/
namespace PttVerif.C09
open PttVerif

/-! ### facts about the regenerated constants (re-checked whenever ptttype changes) -/

theorem esc_ne_s : (115 : Nat) ≠ ESC := by decide
theorem isCode_esc : isCode ESC = false := by decide
theorem isMove_esc : isMove ESC = false := by decide
theorem isCode_s : isCode 115 = false := by decide
theorem isMove_s : isMove 115 = false := by decide

theorem code_move_disjoint_list : Gen.Post.PATTERN_ANSI_CODE.all (fun c => !isMove c) = true := by decide

theorem code_not_move (c : Nat) (h : isCode c = true) : isMove c = false := by
  have := List.all_eq_true.mp code_move_disjoint_list c (by simpa [isCode] using h)
  simpa using this

theorem code_ne_esc (c : Nat) (h : isCode c = true) : c ≠ ESC := by
  intro e; subst e; rw [isCode_esc] at h; cases h

/-! ### hasPrefix / tnSafeStrip -/

theorem hasPrefix_iff (a b : Bytes) : hasPrefix a b = true ↔ ∃ r, a = b ++ r := by
  induction b generalizing a with
  | nil => cases a <;> simp [hasPrefix]
  | cons x xs ih =>
    cases a with
    | nil => simp [hasPrefix]
    | cons y ys =>
      simp only [hasPrefix, Bool.and_eq_true, beq_iff_eq, ih, List.cons_append, List.cons.injEq]
      constructor
      · rintro ⟨rfl, r, rfl⟩; exact ⟨r, rfl, rfl⟩
      · rintro ⟨r, rfl, rfl⟩; exact ⟨rfl, r, rfl⟩

theorem hasPrefix_length (a b : Bytes) (h : hasPrefix a b = true) : b.length ≤ a.length := by
  obtain ⟨r, rfl⟩ := (hasPrefix_iff a b).mp h
  simp

/-! ### trimRight -/

theorem trimRight_spec (s : Bytes) :
    (∃ k, s = trimRight s ++ List.replicate k 32) ∧ (trimRight s).getLast? ≠ some 32 := by
  induction s with
  | nil => exact ⟨⟨0, rfl⟩, by simp [trimRight]⟩
  | cons c cs ih =>
    obtain ⟨⟨k, hk⟩, hl⟩ := ih
    by_cases h : c = 32 ∧ trimRight cs = []
    · refine ⟨⟨k + 1, ?_⟩, by simp [trimRight, h]⟩
      obtain ⟨hc, hr⟩ := h
      subst hc
      simp only [trimRight, hr, and_self, if_true, List.nil_append]
      rw [hr] at hk
      rw [List.replicate_succ]
      simpa using hk
    · refine ⟨⟨k, ?_⟩, ?_⟩
      · simp only [trimRight, h, if_false, List.cons_append]
        rw [← hk]
      · simp only [trimRight, h, if_false]
        cases hr : trimRight cs with
        | nil =>
          simp only [List.getLast?_singleton, ne_eq, Option.some.injEq]
          intro e; exact h ⟨e, hr⟩
        | cons d ds =>
          rw [hr] at hl
          rw [List.getLast?_cons_cons]; exact hl

theorem trimRight_sublist_mem (s : Bytes) : ∀ c ∈ trimRight s, c ∈ s := by
  obtain ⟨⟨k, hk⟩, _⟩ := trimRight_spec s
  intro c hc
  rw [hk]; exact List.mem_append_left _ hc

theorem cstr_no_nul (s : Bytes) : ∀ c ∈ cstr s, c ≠ 0 := by
  induction s with
  | nil => simp [cstr]
  | cons a as ih =>
    intro c hc
    by_cases ha : a = 0
    · simp [cstr, List.takeWhile_cons, ha] at hc
    · simp only [cstr, List.takeWhile_cons, ne_eq, ha, not_false_eq_true, decide_true, if_true, List.mem_cons] at hc
      rcases hc with rfl | hc
      · exact ha
      · exact ih c hc

theorem cstr_append_zero (a b : Bytes) (h : ∀ c ∈ a, c ≠ 0) : cstr (a ++ 0 :: b) = a := by
  induction a with
  | nil => simp [cstr]
  | cons x xs ih =>
    have hx : x ≠ 0 := h x (by simp)
    have := ih (fun c hc => h c (by simp [hc]))
    unfold cstr at *
    rw [List.cons_append, List.takeWhile_cons]
    simp only [ne_eq, hx, not_false_eq_true, decide_true, if_true]
    rw [this]

/-! ### StripANSIMoveCmd: the loop computes the automaton -/

theorem scan_length : ∀ (m : Bool) (l : Bytes), (scan m l).length = l.length := by
  intro m l
  induction l generalizing m with
  | nil => cases m <;> simp [scan]
  | cons c cs ih =>
    cases m
    · simp only [scan]; split <;> simp [ih]
    · simp only [scan]; split
      · simp [ih]
      · split
        · simp [ih]
        · split <;> simp [ih]

theorem skipCode_append (l : Bytes) : (skipCode l).1 ++ (skipCode l).2 = l := by
  induction l with
  | nil => simp [skipCode]
  | cons c cs ih =>
    simp only [skipCode]
    split
    · simp [ih]
    · simp

theorem skipCode_snd_length (l : Bytes) : (skipCode l).2.length ≤ l.length := by
  have := congrArg List.length (skipCode_append l)
  simp at this; omega

theorem scan_false_cons (c : Nat) (cs : Bytes) :
    scan false (c :: cs) = if c = ESC then c :: scan true cs else c :: scan false cs := by rw [scan]

theorem scan_true_cons (c : Nat) (cs : Bytes) :
    scan true (c :: cs) = if isCode c then c :: scan true cs
      else if isMove c then 115 :: scan false cs
      else if c = ESC then c :: scan true cs
      else c :: scan false cs := by rw [scan]

/-- what the automaton does after an ESC, in terms of the loop's `skipCode`. -/
theorem scan_true_eq (l : Bytes) :
    scan true l = (skipCode l).1 ++
      (match (skipCode l).2 with
       | [] => []
       | c :: cs => scan false ((if isMove c then 115 else c) :: cs)) := by
  induction l with
  | nil => simp [scan, skipCode]
  | cons c cs ih =>
    rw [scan_true_cons]
    by_cases hc : isCode c = true
    · simp only [skipCode, hc, if_true, List.cons_append]
      rw [ih]
    · simp only [skipCode, hc, if_false, Bool.false_eq_true, List.nil_append]
      by_cases hm : isMove c = true
      · simp only [hm, if_true]
        rw [scan_false_cons, if_neg esc_ne_s]
      · simp only [hm, if_false, Bool.false_eq_true]
        rw [scan_false_cons]

theorem scan_false_of_none : ∀ l, indexEsc l = none → scan false l = l := by
  intro l
  induction l with
  | nil => simp [scan]
  | cons c cs ih =>
    intro h
    simp only [indexEsc] at h
    split at h
    · cases h
    · rename_i hne
      simp only [scan, hne, if_false]
      rw [ih (by simpa using h)]

theorem scan_false_of_some : ∀ l i, indexEsc l = some i →
    i < l.length ∧ scan false l = l.take (i + 1) ++ scan true (l.drop (i + 1)) := by
  intro l
  induction l with
  | nil => intro i h; simp [indexEsc] at h
  | cons c cs ih =>
    intro i h
    simp only [indexEsc] at h
    split at h
    · rename_i he
      cases h
      simp [scan, he]
    · rename_i hne
      simp only [Option.map_eq_some_iff] at h
      obtain ⟨j, hj, rfl⟩ := h
      obtain ⟨h1, h2⟩ := ih j hj
      refine ⟨by simp; omega, ?_⟩
      simp only [scan, hne, if_false, List.take_succ_cons, List.drop_succ_cons, List.cons_append]
      rw [h2]

theorem defuseLoop_eq : ∀ (fuel : Nat) (l : Bytes), l.length < fuel → defuseLoop fuel l = .ok (scan false l) := by
  intro fuel
  induction fuel with
  | zero => intro l h; omega
  | succ fuel ih =>
    intro l hl
    unfold defuseLoop
    cases hi : indexEsc l with
    | none => simp only; rw [scan_false_of_none l hi]; rfl
    | some i =>
      obtain ⟨hlt, hs⟩ := scan_false_of_some l i hi
      simp only
      have hsc := scan_true_eq (l.drop (i + 1))
      have hlen := skipCode_snd_length (l.drop (i + 1))
      have happ := skipCode_append (l.drop (i + 1))
      cases hr : (skipCode (l.drop (i + 1))).2 with
      | nil =>
        simp only
        rw [hr] at hsc happ
        rw [hs, hsc]
        simp only [List.append_nil] at happ ⊢
        rw [happ, List.take_append_drop]; rfl
      | cons c cs =>
        simp only
        rw [hr] at hsc hlen
        have hfl : ((if isMove c = true then 115 else c) :: cs).length < fuel := by
          simp only [List.length_cons] at hlen ⊢
          simp only [List.length_drop] at hlen
          omega
        rw [ih _ hfl]
        simp only [bind, Except.bind, pure, Except.pure]
        rw [hs, hsc, List.append_assoc]

theorem stripANSIMoveCmd_eq (l : Bytes) : stripANSIMoveCmd l = .ok (scan false l) := by
  unfold stripANSIMoveCmd
  split
  · exact defuseLoop_eq _ _ (by omega)
  · have : l = [] := by
      cases l with
      | nil => rfl
      | cons _ _ => simp at *
    subst this; rfl

/-! ### the lexer specification -/

theorem startsMove_iff (l : Bytes) :
    startsMove l = true ↔ ∃ codes c post, l = codes ++ c :: post ∧ (∀ x ∈ codes, isCode x = true) ∧ isMove c = true := by
  induction l with
  | nil => simp [startsMove]
  | cons a as ih =>
    simp only [startsMove, Bool.or_eq_true, Bool.and_eq_true, ih]
    constructor
    · rintro (h | ⟨ha, codes, c, post, rfl, hc, hm⟩)
      · exact ⟨[], a, as, rfl, by simp, h⟩
      · exact ⟨a :: codes, c, post, rfl, by simpa [ha] using hc, hm⟩
    · rintro ⟨codes, c, post, he, hc, hm⟩
      cases codes with
      | nil =>
        simp only [List.nil_append, List.cons.injEq] at he
        left; rw [he.1]; exact hm
      | cons x xs =>
        simp only [List.cons_append, List.cons.injEq] at he
        right
        refine ⟨by rw [he.1]; exact hc x (by simp), xs, c, post, he.2, fun y hy => hc y (by simp [hy]), hm⟩

theorem hasMove_iff (l : Bytes) :
    hasMove l = true ↔ ∃ pre codes c post, l = pre ++ ESC :: (codes ++ c :: post) ∧
      (∀ x ∈ codes, isCode x = true) ∧ isMove c = true := by
  induction l with
  | nil => simp [hasMove]
  | cons a as ih =>
    simp only [hasMove, Bool.or_eq_true, Bool.and_eq_true, beq_iff_eq, ih, startsMove_iff]
    constructor
    · rintro (⟨rfl, codes, c, post, rfl, hc, hm⟩ | ⟨pre, codes, c, post, rfl, hc, hm⟩)
      · exact ⟨[], codes, c, post, rfl, hc, hm⟩
      · exact ⟨a :: pre, codes, c, post, rfl, hc, hm⟩
    · rintro ⟨pre, codes, c, post, he, hc, hm⟩
      cases pre with
      | nil =>
        simp only [List.nil_append, List.cons.injEq] at he
        left; exact ⟨he.1, codes, c, post, he.2, hc, hm⟩
      | cons x xs =>
        simp only [List.cons_append, List.cons.injEq] at he
        right; exact ⟨xs, codes, c, post, he.2, hc, hm⟩

theorem scan_no_move (l : Bytes) :
    hasMove (scan false l) = false ∧ hasMove (scan true l) = false ∧ startsMove (scan true l) = false := by
  induction l with
  | nil => simp [scan, hasMove, startsMove]
  | cons c cs ih =>
    obtain ⟨h1, h2, h3⟩ := ih
    refine ⟨?_, ?_, ?_⟩
    · by_cases he : c = ESC
      · simp [scan, he, hasMove, h2, h3]
      · simp [scan, he, hasMove, h1]
    · by_cases hc : isCode c = true
      · simp [scan, hc, hasMove, h2, code_ne_esc c hc]
      · by_cases hm : isMove c = true
        · simp only [scan, hc, hm, if_true, if_false, Bool.false_eq_true, hasMove, h1, Bool.or_false,
            Bool.and_eq_false_imp, beq_iff_eq]
          intro e; exact absurd e esc_ne_s
        · by_cases he : c = ESC
          · simp [scan, hc, hm, he, hasMove, h2, h3, isCode_esc, isMove_esc]
          · simp [scan, hc, hm, he, hasMove, h1]
    · by_cases hc : isCode c = true
      · simp [scan, hc, startsMove, h3, code_not_move c hc]
      · by_cases hm : isMove c = true
        · simp [scan, hc, hm, startsMove, isMove_s, isCode_s]
        · by_cases he : c = ESC
          · simp [scan, hc, hm, he, startsMove, isCode_esc, isMove_esc]
          · simp [scan, hc, hm, he, startsMove]

theorem scan_idem (l : Bytes) :
    scan false (scan false l) = scan false l ∧ scan true (scan true l) = scan true l := by
  induction l with
  | nil => simp [scan]
  | cons c cs ih =>
    obtain ⟨h1, h2⟩ := ih
    refine ⟨?_, ?_⟩
    · by_cases he : c = ESC
      · simp [scan, he, h2]
      · simp [scan, he, h1]
    · by_cases hc : isCode c = true
      · simp [scan, hc, h2]
      · by_cases hm : isMove c = true
        · simp [scan, hc, hm, isCode_s, isMove_s, esc_ne_s, h1]
        · by_cases he : c = ESC
          · simp [scan, hc, hm, he, isCode_esc, isMove_esc, h2]
          · simp [scan, hc, hm, he, h1]

/-- position by position the output is the input, except that movement finals may have become 's'. -/
theorem scan_pointwise (m : Bool) (l : Bytes) (i : Nat) :
    (scan m l)[i]? = l[i]? ∨ (∃ c, l[i]? = some c ∧ isMove c = true ∧ (scan m l)[i]? = some 115) := by
  induction l generalizing m i with
  | nil => cases m <;> simp [scan]
  | cons c cs ih =>
    cases i with
    | zero =>
      cases m
      · simp only [scan]; split <;> simp
      · simp only [scan]
        split
        · simp
        · split
          · rename_i hm; right; exact ⟨c, by simp, hm, by simp⟩
          · split <;> simp
    | succ j =>
      cases m
      · simp only [scan]; split <;> simpa using ih _ j
      · simp only [scan]
        split
        · simpa using ih _ j
        · split
          · simpa using ih _ j
          · split <;> simpa using ih _ j

/-- a line without a movement sequence is left exactly as it is. -/
theorem scan_id_of_no_move (l : Bytes) :
    (hasMove l = false → scan false l = l) ∧ (hasMove l = false → startsMove l = false → scan true l = l) := by
  induction l with
  | nil => simp [scan]
  | cons c cs ih =>
    obtain ⟨h1, h2⟩ := ih
    refine ⟨?_, ?_⟩
    · intro h
      simp only [hasMove, Bool.or_eq_false_iff, Bool.and_eq_false_imp, beq_iff_eq] at h
      by_cases he : c = ESC
      · simp [scan, he, h2 h.2 (h.1 he)]
      · simp [scan, he, h1 h.2]
    · intro h hs
      simp only [hasMove, Bool.or_eq_false_iff, Bool.and_eq_false_imp, beq_iff_eq] at h
      simp only [startsMove, Bool.or_eq_false_iff, Bool.and_eq_false_imp] at hs
      by_cases hc : isCode c = true
      · simp [scan, hc, h2 h.2 (hs.2 hc)]
      · have hm : isMove c = false := hs.1
        by_cases he : c = ESC
        · subst he
          simp [scan, isCode_esc, isMove_esc, h2 h.2 (h.1 rfl)]
        · simp [scan, hc, hm, he, h1 h.2]

/-! ### the pure reading of the text pipeline -/

/-- the announcement tag stays: free-for-all switch, privileged author, or no tag at the front. -/
def tnKeeps (c : Cfg) (role : Bool) (t : Bytes) : Bool := c.allowFreeTn || role || !hasPrefix t TN

/-- the published title. -/
def pTitle (q : Req) : Bytes :=
  let f := fullTitle q.cls q.title
  if tnKeeps q.cfg q.role f then f else f.drop TN.length

theorem slice_drop (a : Bytes) (n : Nat) (h : n ≤ a.length) : slice a n a.length = .ok (a.drop n) := by
  simp [slice, h]

theorem tnSafeStrip_eq (c : Cfg) (role : Bool) (t : Bytes) :
    tnSafeStrip c role t = .ok (if tnKeeps c role t then t else t.drop TN.length) := by
  unfold tnSafeStrip tnSafeStripWith isTnAllowedWith tnKeeps isTnAnnounce
  cases hA : c.allowFreeTn
  · cases role
    · cases hp : hasPrefix t TN
      · simp [bind, Except.bind, pure, Except.pure]
      · simp only [bind, Except.bind, pure, Except.pure, Bool.false_eq_true, if_false, Bool.not_true, Bool.or_false]
        exact slice_drop t _ (hasPrefix_length t TN hp)
    · simp [bind, Except.bind, pure, Except.pure]
  · simp [bind, Except.bind, pure, Except.pure]

theorem postTitle_eq (q : Req) : postTitle q.cfg q.role q.cls q.title = .ok (pTitle q) := by
  unfold postTitle pTitle; exact tnSafeStrip_eq _ _ _

/-- the lines the loop of WriteFile writes: all of them, except a last line that is empty. -/
def keptLines : List Bytes → List Bytes
  | [] => []
  | l :: rest => if rest.isEmpty ∧ l.length = 0 then [] else l :: keptLines rest

def pLine (l : Bytes) : Bytes := scan false (trim l)

def pBody (ls : List Bytes) : Bytes := (keptLines ls).flatMap fun l => pLine l ++ [10]

def pEntropyFrom (e : Nat) (ls : List Bytes) : Nat := (keptLines ls).foldl (fun e l => addEntropy e (pLine l)) e

theorem processLine_eq (l : Bytes) : processLine l = .ok (pLine l) := stripANSIMoveCmd_eq _

theorem writeLines_eq : ∀ (ls : List Bytes) (e : Nat), writeLines ls e = .ok (pBody ls, pEntropyFrom e ls) := by
  intro ls
  induction ls with
  | nil => intro e; rfl
  | cons l rest ih =>
    intro e
    unfold writeLines
    by_cases h : rest.isEmpty ∧ l.length = 0
    · simp [h, pBody, pEntropyFrom, keptLines, pure, Except.pure]
    · rw [if_neg h, processLine_eq]
      simp only [bind, Except.bind, ih, pure, Except.pure, pBody, pEntropyFrom, keptLines, h, if_false,
        List.flatMap_cons, List.foldl_cons, List.append_assoc]

theorem keptLines_spec (ls : List Bytes) :
    keptLines ls = if ls.getLast? = some [] then ls.dropLast else ls := by
  induction ls with
  | nil => simp [keptLines]
  | cons l rest ih =>
    cases rest with
    | nil =>
      by_cases hl : l = []
      · simp [keptLines, hl]
      · simp [keptLines, hl]
    | cons r rs =>
      simp only [keptLines, List.isEmpty_cons, Bool.false_eq_true, false_and, if_false] at ih ⊢
      rw [ih]
      simp only [List.getLast?_cons_cons]
      split <;> simp

/-- the article file. -/
def pContent (q : Req) (e : Env) : Bytes :=
  header q.cfg q.anon q.userID q.nick q.board (pTitle q) e.ctime ++ pBody q.lines ++ signature (useAnony q.cfg q.anon) q.ip q.frm
    ++ urlLine q.cfg q.board e.name

def pEntropy (q : Req) : Nat := pEntropyFrom (initEntropy q.cfg) q.lines
def pMoney (q : Req) : Nat := postMoney q (pEntropy q)
def pRecord (q : Req) (e : Env) : Bytes := postRecord q e (pTitle q) (pMoney q)
def pCross (q : Req) (e : Env) : Bytes := crossRecord q e (pMoney q)
def pLog (q : Req) (e : Env) : Bytes := postLogImage (headerAuthor q.cfg q.anon q.userID q.nick).1 q.board (pTitle q) e.logDate

theorem articleFile_eq (q : Req) (e : Env) : articleFile q e (pTitle q) = .ok (pContent q e, pEntropy q) := by
  unfold articleFile
  rw [writeLines_eq]
  rfl

/-! ### the index record -/

theorem le32_length (n : Nat) : (le32 n).length = 4 := rfl

theorem field_mid (a x b : Bytes) (off len : Nat) (ha : a.length = off) (hx : x.length = len) :
    C05.field (a ++ x ++ b) off len = x := by
  unfold C05.field
  rw [List.append_assoc, ← ha, List.drop_left, ← hx, List.take_left]

theorem recordImage_length (name : Bytes) (mtime : Nat) (owner date title : Bytes) (multi fm : Nat) :
    (recordImage name mtime owner date title multi fm).length = dirSz := by
  simp [recordImage, le32_length, dirSz]
  decide

theorem recordImage_filename (name : Bytes) (mtime : Nat) (owner date title : Bytes) (multi fm : Nat) :
    C05.field (recordImage name mtime owner date title multi fm) Gen.RecFile.offFilename Gen.RecFile.lenFilename
      = copyInto Gen.RecFile.lenFilename name := by
  unfold recordImage
  simp only [List.append_assoc]
  exact field_mid [] _ _ _ _ rfl (copyInto_length _ _)

theorem recordImage_owner (name : Bytes) (mtime : Nat) (owner date title : Bytes) (multi fm : Nat) :
    C05.field (recordImage name mtime owner date title multi fm) Gen.RecFile.offOwner Gen.RecFile.lenOwner
      = copyInto Gen.RecFile.lenOwner owner := by
  unfold recordImage
  simp only [List.append_assoc]
  rw [← List.append_assoc (copyInto _ name), ← List.append_assoc _ (List.replicate _ 0), ← List.append_assoc _ (copyInto _ owner)]
  exact field_mid _ _ _ _ _ (by simp [le32_length]; decide) (by simp)

theorem recordImage_title (name : Bytes) (mtime : Nat) (owner date title : Bytes) (multi fm : Nat) :
    C05.field (recordImage name mtime owner date title multi fm) Gen.RecFile.offTitle Gen.RecFile.lenTitle
      = copyInto Gen.RecFile.lenTitle title := by
  unfold recordImage
  simp only [List.append_assoc]
  rw [← List.append_assoc (copyInto _ name), ← List.append_assoc _ (List.replicate _ 0), ← List.append_assoc _ (copyInto _ owner),
    ← List.append_assoc _ (copyInto _ date), ← List.append_assoc _ (copyInto _ title)]
  exact field_mid _ _ _ _ _ (by simp [le32_length]; decide) (by simp)

theorem recordImage_date (name : Bytes) (mtime : Nat) (owner date title : Bytes) (multi fm : Nat) :
    C05.field (recordImage name mtime owner date title multi fm) Gen.RecFile.offDate Gen.RecFile.lenDate
      = copyInto Gen.RecFile.lenDate date := by
  unfold recordImage
  simp only [List.append_assoc]
  rw [← List.append_assoc (copyInto _ name), ← List.append_assoc _ (List.replicate _ 0), ← List.append_assoc _ (copyInto _ owner),
    ← List.append_assoc _ (copyInto _ date)]
  exact field_mid _ _ _ _ _ (by simp [le32_length]; decide) (by simp)

theorem recordImage_multi (name : Bytes) (mtime : Nat) (owner date title : Bytes) (multi fm : Nat) :
    C05.field (recordImage name mtime owner date title multi fm) Gen.RecFile.offMulti Gen.RecFile.lenMulti
      = le32 multi := by
  unfold recordImage
  simp only [List.append_assoc]
  rw [← List.append_assoc (copyInto _ name), ← List.append_assoc _ (List.replicate _ 0), ← List.append_assoc _ (copyInto _ owner),
    ← List.append_assoc _ (copyInto _ date), ← List.append_assoc _ (copyInto _ title), ← List.append_assoc _ (List.replicate _ 0),
    ← List.append_assoc _ (le32 multi)]
  exact field_mid _ _ _ _ _ (by simp [le32_length]; decide) (le32_length _)

theorem recordImage_filemode (name : Bytes) (mtime : Nat) (owner date title : Bytes) (multi fm : Nat) :
    C05.field (recordImage name mtime owner date title multi fm) Gen.RecFile.offFilemode Gen.RecFile.lenFilemode
      = [fm] := by
  unfold recordImage
  simp only [List.append_assoc]
  rw [← List.append_assoc (copyInto _ name), ← List.append_assoc _ (List.replicate _ 0), ← List.append_assoc _ (copyInto _ owner),
    ← List.append_assoc _ (copyInto _ date), ← List.append_assoc _ (copyInto _ title), ← List.append_assoc _ (List.replicate _ 0),
    ← List.append_assoc _ (le32 multi), ← List.append_assoc _ [fm]]
  exact field_mid _ _ _ _ _ (by simp [le32_length]; decide) rfl

theorem postRecord_length (q : Req) (e : Env) (t : Bytes) (m : Nat) : (postRecord q e t m).length = dirSz := by
  unfold postRecord; split <;> exact recordImage_length ..

theorem crossRecord_length (q : Req) (e : Env) (m : Nat) : (crossRecord q e m).length = dirSz := by
  unfold crossRecord; split <;> exact recordImage_length ..

theorem dirSz_pos : 0 < dirSz := by decide

/-! ### board table updates -/

theorem findBoard_name (bs : List BoardSt) (n : Bytes) (b : BoardSt) (h : findBoard bs n = some b) : b.name = n := by
  have := List.find?_some h
  simpa using this

theorem updBoard_cons (b : BoardSt) (rest : List BoardSt) (n : Bytes) (f : BoardSt → BoardSt) :
    updBoard (b :: rest) n f = (if b.name == n then f b else b) :: updBoard rest n f := rfl

theorem findBoard_cons (b : BoardSt) (rest : List BoardSt) (m : Bytes) :
    findBoard (b :: rest) m = if b.name == m then some b else findBoard rest m := by
  unfold findBoard
  rw [List.find?_cons]
  cases (b.name == m) <;> rfl

theorem findBoard_updBoard (bs : List BoardSt) (n m : Bytes) (f : BoardSt → BoardSt)
    (hf : ∀ b ∈ bs, b.name = n → (f b).name = n) :
    findBoard (updBoard bs n f) m = if m = n then (findBoard bs n).map f else findBoard bs m := by
  induction bs with
  | nil => simp [findBoard, updBoard]
  | cons b rest ih =>
    have ih' := ih (fun x hx => hf x (List.mem_cons_of_mem _ hx))
    rw [updBoard_cons, findBoard_cons, findBoard_cons b rest n, findBoard_cons b rest m, ih']
    by_cases hb : b.name = n
    · have hfb := hf b (by simp) hb
      by_cases hm : m = n
      · subst hm; simp [hb, hfb]
      · have h2 : ¬ n = m := fun e => hm e.symm
        simp [hb, hfb, hm, h2]
    · by_cases hbm : b.name = m
      · have hm : ¬ m = n := fun e => hb (hbm.trans e)
        simp [hb, hbm, hm]
      · by_cases hm : m = n
        · subst hm; simp [hb]
        · simp [hb, hbm, hm]

/-- the state after an accepted post, as a pure function of the state, the request and the environment. -/
def nextSt (s : St) (q : Req) (e : Env) (b : BoardSt) : St :=
  let pb := b.publish e.name (pContent q e) (pRecord q e)
  let boards0 := updBoard s.boards q.dirBoard fun _ => pb.1
  let boards1 := updBoard boards0 q.board BoardSt.setTotal
  let boards2 := if q.isOpen then updBoard boards1 ALLPOST fun x => x.crossPublish e.name (pContent q e) (pCross q e) else boards1
  { boards := boards2,
    users := if useAnony q.cfg q.anon then s.users else bumpUser s.users q.userID q.callerNp,
    postLog := (C05.appendRecord s.postLog logSz (pLog q e)).1 }

def nextPosted (q : Req) (e : Env) (b : BoardSt) : Posted :=
  { idx := b.dir.bytes.length / dirSz + 1, title := pTitle q, record := pRecord q e, content := pContent q e,
    money := pMoney q, logRec := pLog q e, xrecord := pCross q e }

theorem publish_eq (b : BoardSt) (name content record : Bytes) (hr : record.length = dirSz) :
    b.publish name content record =
      ({ b with dir := ⟨true, b.dir.bytes.take (b.dir.bytes.length / dirSz * dirSz) ++ record⟩,
                files := (name, content) :: b.files }, .idx .ok (b.dir.bytes.length / dirSz + 1)) := by
  unfold BoardSt.publish
  rw [C05.Props.append_spec b.dir dirSz record dirSz_pos hr]

theorem post_eq (s : St) (q : Req) (e : Env) (b : BoardSt) (h : findBoard s.boards q.dirBoard = some b) :
    post s q e = .ok (nextSt s q e b, .posted (nextPosted q e b)) := by
  unfold post
  rw [h]
  simp only [postTitle_eq, articleFile_eq, bind, Except.bind, pure, Except.pure]
  have hp := publish_eq b e.name (pContent q e) (postRecord q e (pTitle q) (postMoney q (pEntropy q))) (postRecord_length ..)
  simp only [nextSt, nextPosted, pRecord, pMoney, pCross, pLog, hp]

theorem post_noBoard (s : St) (q : Req) (e : Env) (h : findBoard s.boards q.dirBoard = none) :
    post s q e = .ok (s, .noBoard) := by
  unfold post; rw [h]; rfl

/-- the board entry of name `m` after an accepted well-formed post to `n ≠ ALLPOST`. -/
theorem nextSt_board (s : St) (q : Req) (e : Env) (b : BoardSt) (h : findBoard s.boards q.board = some b)
    (hwf : q.dirBoard = q.board) (hx : q.board ≠ ALLPOST) (m : Bytes) :
    findBoard (nextSt s q e b).boards m =
      if m = q.board then some (b.publish e.name (pContent q e) (pRecord q e)).1.setTotal
      else if m = ALLPOST ∧ q.isOpen = true then
        (findBoard s.boards ALLPOST).map fun x => x.crossPublish e.name (pContent q e) (pCross q e)
      else findBoard s.boards m := by
  have hbn := findBoard_name _ _ _ h
  have h0 : ∀ m, findBoard (updBoard s.boards q.board fun _ => (b.publish e.name (pContent q e) (pRecord q e)).1) m =
      if m = q.board then some (b.publish e.name (pContent q e) (pRecord q e)).1 else findBoard s.boards m := by
    intro m
    rw [findBoard_updBoard _ _ _ _ (fun x _ _ => by simp [BoardSt.publish, hbn]), h]; rfl
  have h1 : ∀ m, findBoard (updBoard (updBoard s.boards q.board fun _ => (b.publish e.name (pContent q e) (pRecord q e)).1)
        q.board BoardSt.setTotal) m =
      if m = q.board then some (b.publish e.name (pContent q e) (pRecord q e)).1.setTotal else findBoard s.boards m := by
    intro m
    rw [findBoard_updBoard _ _ _ _ (fun x _ hx => by simp [BoardSt.setTotal, hx]), h0 q.board, h0 m]
    by_cases hm : m = q.board <;> simp [hm]
  unfold nextSt
  simp only [hwf]
  cases ho : q.isOpen
  · simp only [Bool.false_eq_true, if_false, and_false]
    exact h1 m
  · simp only [if_true, and_true]
    rw [findBoard_updBoard _ _ _ _ (fun x _ hx => by simp [BoardSt.crossPublish, hx]), h1 m, h1 ALLPOST]
    by_cases hm : m = q.board
    · have : ¬ m = ALLPOST := fun e => hx (hm.symm.trans e)
      simp [hm, this, hx]
    · have hx' : ¬ ALLPOST = q.board := fun e => hx e.symm
      by_cases ha : m = ALLPOST <;> simp [hm, ha, hx']

theorem numPostsOf_cons (x : Bytes × Nat) (rest : List (Bytes × Nat)) (u : Bytes) :
    numPostsOf (x :: rest) u = if x.1 == u then some x.2 else numPostsOf rest u := by
  unfold numPostsOf
  rw [List.find?_cons]
  cases (x.1 == u) <;> rfl

theorem bumpUser_cons (x : Bytes × Nat) (rest : List (Bytes × Nat)) (id : Bytes) (c : Nat) :
    bumpUser (x :: rest) id c = (if x.1 == id then (x.1, x.2 + 1) else x) :: bumpUser rest id c := rfl

theorem bumpUser_lookup (us : List (Bytes × Nat)) (id u : Bytes) (c : Nat) :
    numPostsOf (bumpUser us id c) u = (numPostsOf us u).map fun n => if u = id then n + 1 else n := by
  induction us with
  | nil => simp [bumpUser, numPostsOf]
  | cons x rest ih =>
    rw [bumpUser_cons, numPostsOf_cons, numPostsOf_cons x rest u, ih]
    by_cases hx : x.1 = id
    · by_cases hu : x.1 = u
      · have : u = id := hu.symm.trans hx
        simp [hx, hu, this]
      · have hne : ¬ id = u := fun e => hu (hx.trans e)
        simp [hx, hne]
    · by_cases hu : x.1 = u
      · have : ¬ u = id := fun e => hx (hu.trans e)
        simp [hx, hu, this]
      · simp [hx, hu]

end PttVerif.C09
