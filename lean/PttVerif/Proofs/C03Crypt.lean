import PttVerif.Props.C02
import PttVerif.Proofs.C03
/-
C03 — the hashing interface `Crypto` instantiated with the DES model of property C02 (cmbbs.GenPasswd with the drawn
salt number as a parameter, cmbbs.CheckPasswd), and its laws from the theorems C02 proves.
-/
namespace PttVerif.C03
open PttVerif

/-- the effective key of the interface is C02's. -/
theorem effKey8_eq (p : Bytes) : effKey8 p = C02.effKey8 p := rfl

/-- GenPasswd / CheckPasswd of the C02 model (both are total on the arguments that occur: see `des_gen_total`,
and CheckPasswd on a stored hash produced by GenPasswd). -/
def des : Crypto where
  H := List Nat
  zero := List.replicate 14 0
  gen := fun r p => match C02.GenPasswdWith r p with
    | .ok h => h
    | .error _ => []
  check := fun h q => match C02.CheckPasswd h q with
    | .ok b => b
    | .error _ => false

theorem des_lawful : Lawful des := by
  refine ⟨?_, ?_, ?_⟩
  · intro r p hp h0
    have h0' : p[0]? ≠ some 0 := by
      cases p with
      | nil => exact absurd rfl hp
      | cons x xs => simpa using h0
    obtain ⟨h, hg, hc⟩ := C02.Props.check_gen r p hp h0'
    show (match C02.CheckPasswd (match C02.GenPasswdWith r p with | .ok h => h | .error _ => []) p with
      | .ok b => b | .error _ => false) = true
    rw [hg]; simp only []; rw [hc]
  · intro h p q e
    show (match C02.CheckPasswd h p with | .ok b => b | .error _ => false) =
      (match C02.CheckPasswd h q with | .ok b => b | .error _ => false)
    rw [C02.Props.checkPasswd_same_key h p q e]
  · intro q
    show (match C02.CheckPasswd (List.replicate 14 0) q with | .ok b => b | .error _ => false) = false
    rw [(C02.Props.empty_hash_never_verifies 0 [] q (Or.inl rfl)).2]

/-- the model's `genPasswd` on the DES instance IS the C02 model of cmbbs.GenPasswd, for every password and every
drawn number. -/
theorem des_gen_total (r : Nat) (p : Bytes) : C02.GenPasswdWith r p = .ok (genPasswd des r p) := by
  unfold genPasswd
  by_cases hz : p.length = 0 ∨ p.headD 0 = 0
  · rw [if_pos hz]
    have hz' : p = [] ∨ p[0]? = some 0 := by
      cases p with
      | nil => exact Or.inl rfl
      | cons x xs => right; rcases hz with h | h <;> simp at h ⊢; exact h
    exact (C02.Props.empty_hash_never_verifies r p [] hz').1
  · rw [if_neg hz]
    obtain ⟨h, hh⟩ := C02.Props.genPasswd_total r p
    show C02.GenPasswdWith r p = .ok (match C02.GenPasswdWith r p with | .ok h => h | .error _ => [])
    rw [hh]

end PttVerif.C03
