import PttVerif.Proofs.C02Key
/-
C02, stage 4 — key schedule, assembly: `desSetKey` = textbook `Spec.keySchedule`, for all keys.
-/
namespace PttVerif.C02.Lin
open PttVerif PttVerif.C02 PttVerif.Gen.CryptTables

theorem eval_kw0E (X : Nat) (k : LE) : eval X (kw0E k) = kw0 (eval X k) := rfl
theorem eval_kw1E (X : Nat) (k : LE) : eval X (kw1E k) = kw1 (eval X k) := rfl

theorem pack_hi (C D : Nat) (hD : D < 2 ^ 28) : (C * 268435456 + D) >>> 28 = C := by
  rw [Nat.shiftRight_eq_div_pow]; omega

theorem pack_lo (C D : Nat) (hD : D < 2 ^ 28) : (C * 268435456 + D) &&& 0x0fffffff = D := by
  rw [show (0x0fffffff : Nat) = 2 ^ 28 - 1 from rfl, Nat.and_two_pow_sub_one_eq_mod]; omega

theorem pack_or (C D : Nat) (hD : D < 2 ^ 28) : (C <<< 28) ||| D = C * 268435456 + D := by
  rw [Nat.shiftLeft_eq, Nat.mul_comm, ← Nat.two_pow_add_eq_or_of_lt hD]

theorem rotl28_lt (x n : Nat) : Spec.rotl28 x n < 2 ^ 28 := Nat.mod_lt _ (by decide)

theorem shifts_facts : ∀ i : Fin 16,
    ((shifts2.getD i.val 0 ≠ 0) ↔ Spec.shifts.getD i.val 0 = 2) ∧
      (Spec.shifts.getD i.val 0 = 1 ∨ Spec.shifts.getD i.val 0 = 2) := by decide +kernel

/-- one iteration of the key-schedule loop is the textbook step: rotate C and D left, apply PC-2. -/
theorem ksStep_spec (C D i : Nat) (hC : C < 2 ^ 28) (hD : D < 2 ^ 28) (hi : i < 16) :
    ksStep (Spec.revBits 28 C) (Spec.revBits 28 D) i =
      (Spec.revBits 28 (Spec.rotl28 C (Spec.shifts.getD i 0)), Spec.revBits 28 (Spec.rotl28 D (Spec.shifts.getD i 0)),
        kw0 (Spec.permF Spec.PC2 56
          (Spec.rotl28 C (Spec.shifts.getD i 0) * 268435456 + Spec.rotl28 D (Spec.shifts.getD i 0))),
        kw1 (Spec.permF Spec.PC2 56
          (Spec.rotl28 C (Spec.shifts.getD i 0) * 268435456 + Spec.rotl28 D (Spec.shifts.getD i 0)))) := by
  obtain ⟨hflag, hn⟩ := shifts_facts ⟨i, hi⟩
  simp only at hflag hn
  generalize Spec.shifts.getD i 0 = n at *
  have hX : C * 268435456 + D < 2 ^ 56 := by
    have : C * 268435456 ≤ (2 ^ 28 - 1) * 268435456 := Nat.mul_le_mul_right _ (by omega)
    omega
  have eC : eval (C * 268435456 + D) mC = Spec.revBits 28 C := by
    show Spec.revBits 28 ((C * 268435456 + D) >>> 28) = _; rw [pack_hi C D hD]
  have eD : eval (C * 268435456 + D) mD = Spec.revBits 28 D := by
    show Spec.revBits 28 ((C * 268435456 + D) &&& 0x0fffffff) = _; rw [pack_lo C D hD]
  have erot : ∀ (x : LE) (v : Nat), eval (C * 268435456 + D) x = v →
      eval (C * 268435456 + D) (rotlE n x) = Spec.rotl28 v n := by
    intro x v hv
    show ((eval _ x <<< n) ||| (eval _ x >>> (28 - n))) &&& 0x0fffffff = _
    rw [hv, show (0x0fffffff : Nat) = 2 ^ 28 - 1 from rfl, Nat.and_two_pow_sub_one_eq_mod]; rfl
  have eC' := erot xC C (pack_hi C D hD)
  have eD' := erot xD D (pack_lo C D hD)
  have eK : eval (C * 268435456 + D) (specKE n) =
      Spec.permF Spec.PC2 56 (Spec.rotl28 C n * 268435456 + Spec.rotl28 D n) := by
    show Spec.permF Spec.PC2 56 ((eval _ (rotlE n xC) <<< 28) ||| eval _ (rotlE n xD)) = _
    rw [eC', eD', pack_or _ _ (rotl28_lt D n)]
  have key : ∀ two : Bool, (n = 2 ↔ two = true) →
      ksStep (Spec.revBits 28 C) (Spec.revBits 28 D) i =
        (eval (C * 268435456 + D) (LE.rev 28 (rotlE n xC)), eval (C * 268435456 + D) (LE.rev 28 (rotlE n xD)),
          eval (C * 268435456 + D) (kw0E (specKE n)), eval (C * 268435456 + D) (kw1E (specKE n))) := by
    intro two htwo
    have hn' : n = if two then 2 else 1 := by
      cases two
      · rcases hn with h | h
        · simpa using h
        · exact absurd (htwo.mp h) (by simp)
      · simpa using htwo.mpr rfl
    have hm := ksStep_eval (C * 268435456 + D) mC mD i two (hflag.trans htwo)
    rw [eC, eD] at hm
    rw [hm]
    have hok := step_ok two
    have hsp := step_spec_ok n hn
    have hb := step_basis two
    simp only [Bool.and_eq_true] at hok hsp hb
    rw [← hn'] at hb
    have e1 := le_ext 56 _ _ hok.1.1.1 hsp.1.1.1 hb.1.1.1 _ hX
    have e2 := le_ext 56 _ _ hok.1.1.2 hsp.1.1.2 hb.1.1.2 _ hX
    have e3 := le_ext 56 _ _ hok.1.2 hsp.1.2 hb.1.2 _ hX
    have e4 := le_ext 56 _ _ hok.2 hsp.2 hb.2 _ hX
    show (eval _ (stepM two).1, eval _ (stepM two).2.1, eval _ (stepM two).2.2.1, eval _ (stepM two).2.2.2) = _
    rw [e1, e2, e3, e4]
  rw [key (decide (n = 2)) (by simp)]
  rw [eval_kw0E, eval_kw1E, eK]
  show (Spec.revBits 28 (eval _ (rotlE n xC)), Spec.revBits 28 (eval _ (rotlE n xD)), _, _) = _
  rw [eC', eD']

end PttVerif.C02.Lin

namespace PttVerif.C02.Lin
open PttVerif PttVerif.C02 PttVerif.Gen.CryptTables

theorem Spec_permF_lt56 (K : Nat) : Spec.permF Spec.PC1 64 K < 2 ^ 56 := permF_lt Spec.PC1 64 K
theorem iterations_eq' : ITERATIONS = 16 := by decide +kernel

/-- the 32 schedule words of a list of 48-bit round keys. -/
def ksWords : List Nat → List Nat
  | [] => []
  | K :: Ks => kw0 K :: kw1 K :: ksWords Ks

theorem ksLoop_spec (is : List Nat) (his : ∀ i ∈ is, i < 16) (C D : Nat) (hC : C < 2 ^ 28) (hD : D < 2 ^ 28) :
    ksLoop is (Spec.revBits 28 C) (Spec.revBits 28 D) =
      ksWords (Spec.keyScheduleAux (is.map (Spec.shifts.getD · 0)) C D) := by
  induction is generalizing C D with
  | nil => rfl
  | cons i is ih =>
    have hi := his i (by simp)
    simp only [ksLoop, List.map_cons, Spec.keyScheduleAux, ksWords]
    rw [ksStep_spec C D i hC hD hi]
    simp only []
    rw [ih (fun j hj => his j (by simp [hj])) _ _ (rotl28_lt _ _) (rotl28_lt _ _)]

theorem shifts_range : (List.range ITERATIONS).map (Spec.shifts.getD · 0) = Spec.shifts := by decide +kernel

/-- the key schedule of the implementation is the textbook one, for every 64-bit key: word `2i` / `2i+1` of the
schedule hold round key `K_{i+1}` in the layout `kw0` / `kw1`. -/
theorem desSetKey_eq_keySchedule (K : Nat) (hK : K < 2 ^ 64) :
    desSetKey (bytesBE K) = ksWords (Spec.keySchedule K) := by
  unfold desSetKey
  rw [pc1_eq_PC1 K hK]
  simp only []
  have hcd : Spec.permF Spec.PC1 64 K < 2 ^ 56 := Spec_permF_lt56 K
  rw [show (0x0fffffff : Nat) = 2 ^ 28 - 1 from rfl, Nat.and_two_pow_sub_one_eq_mod, Nat.shiftRight_eq_div_pow]
  rw [ksLoop_spec _ (by intro i hi; have := List.mem_range.mp hi; rw [iterations_eq'] at this; exact this) _ _
    (by omega) (Nat.mod_lt _ (by decide)), shifts_range]
  rfl

end PttVerif.C02.Lin
