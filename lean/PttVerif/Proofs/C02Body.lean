import PttVerif.Proofs.C02RoundFn2
/-
C02, stage 4 — `body`: sixteen rounds, twenty-five passes, final permutation = 25 textbook salted DES encryptions
of the zero block.
-/
namespace PttVerif.C02.Lin
open PttVerif PttVerif.C02 PttVerif.Gen.CryptTables

theorem f_lt (m R K : Nat) : Spec.f m R K < 2 ^ 32 := permF_lt Spec.P 32 _

section
variable (σ : Nat)

/-- `Eswap0`, `Eswap1` and the textbook salt mask of the packed salt `σ = v0 + 64·v1`. -/
abbrev E0 := σ &&& 63
abbrev E1 := shl (σ >>> 6) 4
abbrev sm := Spec.saltMaskOf (σ &&& 63) (σ >>> 6)

theorem roundPair_spec (hσ : σ < 2 ^ 12) (s : List Nat) (i L R Ka Kb : Nat) (hL : L < 2 ^ 32) (hR : R < 2 ^ 32)
    (hKa : Ka < 2 ^ 48) (hKb : Kb < 2 ^ 48)
    (h0 : s.getD i 0 = kw0 Ka) (h1 : s.getD (i + 1) 0 = kw1 Ka)
    (h2 : s.getD (i + 2) 0 = kw0 Kb) (h3 : s.getD (i + 2 + 1) 0 = kw1 Kb) :
    roundPair s (E0 σ) (E1 σ) (rho L, rho R) i =
      (rho (Spec.rounds (sm σ) [Ka, Kb] (L, R)).1, rho (Spec.rounds (sm σ) [Ka, Kb] (L, R)).2) := by
  unfold roundPair
  simp only [Spec.rounds]
  rw [dEncrypt_spec (rho L) R Ka σ i s hR hKa hσ h0 h1, ← rho_xor L _ hL (f_lt _ _ _)]
  rw [dEncrypt_spec (rho R) (L ^^^ Spec.f (sm σ) R Ka) Kb σ (i + 2) s (Nat.xor_lt_two_pow hL (f_lt _ _ _)) hKb hσ h2 h3,
    ← rho_xor R _ hR (f_lt _ _ _)]

theorem rounds_lt (m : Nat) : ∀ (KS : List Nat) (L R : Nat), L < 2 ^ 32 → R < 2 ^ 32 →
    (Spec.rounds m KS (L, R)).1 < 2 ^ 32 ∧ (Spec.rounds m KS (L, R)).2 < 2 ^ 32 := by
  intro KS
  induction KS with
  | nil => intro L R hL hR; exact ⟨hL, hR⟩
  | cons K KS ih =>
    intro L R hL hR
    simp only [Spec.rounds]
    exact ih R _ hR (Nat.xor_lt_two_pow hL (f_lt _ _ _))

theorem rounds_append (m : Nat) : ∀ (A B : List Nat) (lr : Nat × Nat),
    Spec.rounds m (A ++ B) lr = Spec.rounds m B (Spec.rounds m A lr) := by
  intro A
  induction A with
  | nil => intro B lr; rfl
  | cons K A ih => intro B (l, r); simp only [List.cons_append, Spec.rounds]; exact ih B _

theorem ksWords_getD : ∀ (KS : List Nat) (t : Nat), t < KS.length →
    (ksWords KS).getD (2 * t) 0 = kw0 (KS.getD t 0) ∧ (ksWords KS).getD (2 * t + 1) 0 = kw1 (KS.getD t 0) := by
  intro KS
  induction KS with
  | nil => intro t h; simp at h
  | cons K KS ih =>
    intro t h
    cases t with
    | zero => simp [ksWords]
    | succ t =>
      have := ih t (by simpa using h)
      rw [show 2 * (t + 1) = 2 * t + 1 + 1 by omega]
      simpa [ksWords] using this

/-- the inner loop over any even number of round keys laid out from word `off` on. -/
theorem inner_spec (hσ : σ < 2 ^ 12) (s : List Nat) : ∀ (n : Nat) (KS : List Nat) (off L R : Nat), KS.length = 2 * n →
    (∀ K ∈ KS, K < 2 ^ 48) → L < 2 ^ 32 → R < 2 ^ 32 →
    (∀ t, t < KS.length → s.getD (off + 2 * t) 0 = kw0 (KS.getD t 0) ∧ s.getD (off + 2 * t + 1) 0 = kw1 (KS.getD t 0)) →
    ((List.range n).map (fun k => off + 4 * k)).foldl (roundPair s (E0 σ) (E1 σ)) (rho L, rho R) =
      (rho (Spec.rounds (sm σ) KS (L, R)).1, rho (Spec.rounds (sm σ) KS (L, R)).2) := by
  intro n
  induction n with
  | zero =>
    intro KS off L R hl _ _ _ _
    have : KS = [] := List.eq_nil_of_length_eq_zero (by omega)
    subst this; rfl
  | succ n ih =>
    intro KS off L R hl hK hL hR hs
    match KS, hl with
    | Ka :: Kb :: rest, hl =>
      have hKa := hK Ka (by simp)
      have hKb := hK Kb (by simp)
      have s0 := hs 0 (by simp)
      have s1 := hs 1 (by simp)
      simp only [Nat.mul_zero, Nat.add_zero, List.getD_cons_zero, Nat.mul_one, List.getD_cons_succ] at s0 s1
      rw [List.range_succ_eq_map, List.map_cons, List.foldl_cons, List.map_map]
      simp only [Nat.mul_zero, Nat.add_zero]
      rw [roundPair_spec σ hσ s off L R Ka Kb hL hR hKa hKb s0.1 s0.2 s1.1 s1.2]
      have hb := rounds_lt (sm σ) [Ka, Kb] L R hL hR
      have e : ((fun k => off + 4 * k) ∘ Nat.succ) = fun k => (off + 4) + 4 * k := by
        funext k; simp only [Function.comp]; omega
      rw [e, ih rest (off + 4) _ _ (by simp at hl; omega) (fun K hK' => hK K (by simp [hK'])) hb.1 hb.2]
      · rw [show Ka :: Kb :: rest = [Ka, Kb] ++ rest from rfl, rounds_append]
      · intro t ht
        have := hs (t + 2) (by simp; omega)
        simp only [List.getD_cons_succ] at this
        rw [show off + 4 + 2 * t = off + 2 * (t + 2) by omega]
        exact this


end
end PttVerif.C02.Lin
