import PttVerif.Proofs.C02RoundFn
/-
C02, stage 4 — `dEncrypt` = `L ^ rho (f(R,K))`: table exactness + recombination.
-/
namespace PttVerif.C02.Lin
open PttVerif PttVerif.C02 PttVerif.Gen.CryptTables

theorem rev6_rev6 : ∀ c : Fin 64, Spec.revBits 6 (Spec.revBits 6 c.val) = c.val := by decide +kernel

theorem sbox_lt : ∀ b : Fin 8, ∀ c : Fin 64, Spec.sbox b.val c.val < 16 := by decide +kernel

/-- the contribution of S-box `b+1` with input block `c` to `rho (P (…))`. -/
def spTerm (b c : Nat) : Nat := rho (Spec.permF Spec.P 32 (Spec.sbox b c * 2 ^ (4 * (7 - b))))

theorem rho_eq_rotl1 (y : Nat) : rho y = Spec.rotl1 (Spec.revBits 32 y) := rfl

/-- table exactness, as `dEncrypt` uses it: the entry at the bit-reversed block is the S-box contribution. -/
theorem sp_lookup (b c : Nat) (hb : b < 8) (hc : c < 64) : tbl SPtrans b (Spec.revBits 6 c) = spTerm b c := by
  rw [SPtrans_table, tbl_map_range _ b _ hb (revBits_lt 6 c)]
  unfold Spec.spEntry spTerm
  rw [rev6_rev6 ⟨c, hc⟩, rho_eq_rotl1]

theorem sch_lt (b x : Nat) : sch b x < 64 := by
  unfold sch
  rw [show (63 : Nat) = 2 ^ 6 - 1 from rfl, Nat.and_two_pow_sub_one_eq_mod]; exact Nat.mod_lt _ (by decide)

theorem sch_eq_div (b x : Nat) : sch b x = x / 2 ^ (6 * (7 - b)) % 64 := by
  unfold sch
  rw [show (63 : Nat) = 2 ^ 6 - 1 from rfl, Nat.and_two_pow_sub_one_eq_mod, Nat.shiftRight_eq_div_pow]

theorem sboxes_unfold (x : Nat) : Spec.sboxes x =
    16 * (16 * (16 * (16 * (16 * (16 * (16 * (16 * 0 + Spec.sbox 0 (sch 0 x)) + Spec.sbox 1 (sch 1 x)) +
      Spec.sbox 2 (sch 2 x)) + Spec.sbox 3 (sch 3 x)) + Spec.sbox 4 (sch 4 x)) + Spec.sbox 5 (sch 5 x)) +
      Spec.sbox 6 (sch 6 x)) + Spec.sbox 7 (sch 7 x) := by
  simp only [sch_eq_div]; rfl

theorem sboxes_lt (x : Nat) : Spec.sboxes x < 2 ^ 32 := by
  rw [sboxes_unfold]
  have h := fun b (hb : b < 8) => sbox_lt ⟨b, hb⟩ ⟨sch b x, sch_lt b x⟩
  have h0 := h 0 (by decide); have h1 := h 1 (by decide); have h2 := h 2 (by decide); have h3 := h 3 (by decide)
  have h4 := h 4 (by decide); have h5 := h 5 (by decide); have h6 := h 6 (by decide); have h7 := h 7 (by decide)
  simp only at h0 h1 h2 h3 h4 h5 h6 h7
  omega

/-- nibble `b` of `sboxes x` is the output of S-box `b+1` on block `b+1`. -/
theorem sboxes_nibble (b x : Nat) (hb : b < 8) :
    ((Spec.sboxes x >>> (4 * (7 - b))) &&& 15) <<< (4 * (7 - b)) = Spec.sbox b (sch b x) * 2 ^ (4 * (7 - b)) := by
  rw [Nat.shiftLeft_eq]
  congr 1
  rw [sboxes_unfold, show (15 : Nat) = 2 ^ 4 - 1 from rfl, Nat.and_two_pow_sub_one_eq_mod, Nat.shiftRight_eq_div_pow]
  have h := fun b (hb : b < 8) => sbox_lt ⟨b, hb⟩ ⟨sch b x, sch_lt b x⟩
  have h0 := h 0 (by decide); have h1 := h 1 (by decide); have h2 := h 2 (by decide); have h3 := h 3 (by decide)
  have h4 := h 4 (by decide); have h5 := h 5 (by decide); have h6 := h 6 (by decide); have h7 := h 7 (by decide)
  simp only at h0 h1 h2 h3 h4 h5 h6 h7
  rcases b_cases hb with rfl | rfl | rfl | rfl | rfl | rfl | rfl | rfl <;>
  ( generalize Spec.sbox 0 (sch 0 x) = s0 at *
    generalize Spec.sbox 1 (sch 1 x) = s1 at *
    generalize Spec.sbox 2 (sch 2 x) = s2 at *
    generalize Spec.sbox 3 (sch 3 x) = s3 at *
    generalize Spec.sbox 4 (sch 4 x) = s4 at *
    generalize Spec.sbox 5 (sch 5 x) = s5 at *
    generalize Spec.sbox 6 (sch 6 x) = s6 at *
    generalize Spec.sbox 7 (sch 7 x) = s7 at *
    simp only [Nat.reduceSub, Nat.reduceMul, Nat.reducePow]
    omega )

theorem spOf_eval (b y : Nat) :
    eval y (spOfE b) = rho (Spec.permF Spec.P 32 (((y >>> (4 * (7 - b))) &&& 15) <<< (4 * (7 - b)))) := rfl

theorem spOf_sboxes (b x : Nat) (hb : b < 8) : eval (Spec.sboxes x) (spOfE b) = spTerm b (sch b x) := by
  rw [spOf_eval, sboxes_nibble b x hb]; rfl

/-- one call of `dEncrypt` with the schedule words of round key `K` is one textbook half-round on the halves held in
the implementation's representation: `L ^ rho (f(R, K))`, for every half, round key and salt. -/
theorem dEncrypt_spec (L R K σ S : Nat) (s : List Nat) (hR : R < 2 ^ 32) (hK : K < 2 ^ 48) (hσ : σ < 2 ^ 12)
    (h0 : s.getD S 0 = kw0 K) (h1 : s.getD (S + 1) 0 = kw1 K) :
    dEncrypt L (rho R) S (σ &&& 63) (shl (σ >>> 6) 4) s =
      L ^^^ rho (Spec.f (Spec.saltMaskOf (σ &&& 63) (σ >>> 6)) R K) := by
  rw [dEncrypt_eq, h0, h1, show Spec.f (Spec.saltMaskOf (σ &&& 63) (σ >>> 6)) R K =
    Spec.permF Spec.P 32 (Spec.sboxes (Spec.saltE (Spec.saltMaskOf (σ &&& 63) (σ >>> 6)) R ^^^ K)) from rfl]
  have hi := fun b (hb : b < 8) => mIdx_eq b R K σ hb hR hK hσ
  rw [hi 0 (by decide), hi 1 (by decide), hi 2 (by decide), hi 3 (by decide), hi 4 (by decide), hi 5 (by decide),
    hi 6 (by decide), hi 7 (by decide)]
  generalize Spec.saltE (Spec.saltMaskOf (σ &&& 63) (σ >>> 6)) R ^^^ K = x
  have hs := fun b (hb : b < 8) => sp_lookup b (sch b x) hb (sch_lt b x)
  rw [hs 0 (by decide), hs 1 (by decide), hs 2 (by decide), hs 3 (by decide), hs 4 (by decide), hs 5 (by decide),
    hs 6 (by decide), hs 7 (by decide)]
  have ho := fun b (hb : b < 8) => spOf_sboxes b x hb
  rw [← ho 0 (by decide), ← ho 1 (by decide), ← ho 2 (by decide), ← ho 3 (by decide), ← ho 4 (by decide),
    ← ho 5 (by decide), ← ho 6 (by decide), ← ho 7 (by decide)]
  have := recomb (Spec.sboxes x) (sboxes_lt x)
  rw [show eval (Spec.sboxes x) recombE =
    (eval (Spec.sboxes x) (spOfE 1) ||| eval (Spec.sboxes x) (spOfE 3) ||| eval (Spec.sboxes x) (spOfE 5) |||
      eval (Spec.sboxes x) (spOfE 7) ||| eval (Spec.sboxes x) (spOfE 0) ||| eval (Spec.sboxes x) (spOfE 2) |||
      eval (Spec.sboxes x) (spOfE 4) ||| eval (Spec.sboxes x) (spOfE 6)) from rfl] at this
  rw [this]

end PttVerif.C02.Lin
