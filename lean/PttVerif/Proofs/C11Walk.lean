import PttVerif.Proofs.C11Auto
/-
C11 — helper lemmas, part 3: the listing loops and the page walk.
-/
namespace PttVerif.C11
open PttVerif PttVerif.C18

/-! ### cutting a listing into pages -/

/-- `l` cut into pages of `n` (the last one may be shorter; an empty listing is one empty page). -/
def pagesOf {α : Type} (n : Nat) : Nat → List α → List (List α)
  | 0, l => [l]
  | f + 1, l => if l.length ≤ n then [l] else l.take n :: pagesOf n f (l.drop n)

theorem pagesOf_flatten {α : Type} (n f : Nat) (l : List α) : (pagesOf n f l).flatten = l := by
  induction f generalizing l with
  | zero => simp [pagesOf]
  | succ f ih =>
    unfold pagesOf
    split
    · simp
    · simp [ih]

theorem pagesOf_fuel {α : Type} (n : Nat) (hn : 1 ≤ n) (f g : Nat) (l : List α) (hf : l.length ≤ f) (hg : l.length ≤ g) :
    pagesOf n f l = pagesOf n g l := by
  induction f generalizing g l with
  | zero =>
    have : l = [] := List.length_eq_zero_iff.mp (by omega)
    subst this
    cases g <;> simp [pagesOf]
  | succ f ih =>
    cases g with
    | zero =>
      have : l = [] := List.length_eq_zero_iff.mp (by omega)
      subst this
      simp [pagesOf]
    | succ g =>
      unfold pagesOf
      by_cases h : l.length ≤ n
      · rw [if_pos h, if_pos h]
      · rw [if_neg h, if_neg h, ih g (l.drop n) (by simp; omega) (by simp; omega)]

/-- every page but the last has exactly `n` entries, the last between 1 and `n` (0 only for the empty listing). -/
theorem pagesOf_sizes {α : Type} (n : Nat) (hn : 1 ≤ n) (f : Nat) (l : List α) (hf : l.length ≤ f) :
    ∀ p ∈ (pagesOf n f l).dropLast, p.length = n := by
  induction f generalizing l with
  | zero => simp [pagesOf]
  | succ f ih =>
    unfold pagesOf
    split
    · simp
    · rename_i h
      intro p hp
      have hne : pagesOf n f (l.drop n) ≠ [] := by
        cases f <;> simp [pagesOf]; split <;> simp
      rw [List.dropLast_cons_of_ne_nil hne] at hp
      rcases List.mem_cons.mp hp with rfl | hp
      · simp; omega
      · exact ih (l.drop n) (by simp; omega) p hp

/-! ### the collecting loop -/

theorem gather_eq (stop ok : Entry → Bool) (l : List Entry) (cap : Nat) :
    gather stop ok l cap = ((l.takeWhile (fun e => !stop e)).filter ok).take cap := by
  induction l generalizing cap with
  | nil => cases cap <;> simp [gather]
  | cons e rest ih =>
    cases cap with
    | zero => simp [gather]
    | succ cap =>
      unfold gather
      by_cases hs : stop e = true
      · simp [hs]
      · have hs' : stop e = false := by simpa using hs
        by_cases ho : ok e = true
        · simp [hs', ho, ih]
        · have ho' : ok e = false := by simpa using ho
          simp [hs', ho', ih]

/-- the page record built from `nBoards + 1` collected entries. -/
theorem split_page (V : List Entry) (n : Nat) :
    (if ((V.take (n + 1)).length : Int) = (n : Int) + 1 then
        (⟨(V.take (n + 1)).take n, (V.take (n + 1))[n]?⟩ : Page)
      else ⟨V.take (n + 1), none⟩) = ⟨V.take n, V[n]?⟩ := by
  by_cases h : n + 1 ≤ V.length
  · have : (V.take (n + 1)).length = n + 1 := by simp; omega
    rw [if_pos (by rw [this]; simp)]
    congr 1
    · rw [List.take_take]; congr 1; omega
    · rw [List.getElem?_take]; simp
  · have hl : V.length ≤ n := by omega
    have : (V.take (n + 1)).length = V.length := by simp; omega
    rw [if_neg (by rw [this]; omega)]
    congr 1
    · rw [List.take_of_length_le (by omega), List.take_of_length_le hl]
    · rw [List.getElem?_eq_none hl]

/-- where the `m`-th kept element of a filtered list sits in the list, and what follows it. -/
theorem filter_position (ok : Entry → Bool) (os : List Entry) (m : Nat) (hm : m < (os.filter ok).length) :
    ∃ p, ∃ hp : p < os.length, os[p] = (os.filter ok)[m] ∧ (os.drop p).filter ok = (os.filter ok).drop m := by
  induction os generalizing m with
  | nil => simp at hm
  | cons e rest ih =>
    by_cases ho : ok e = true
    · cases m with
      | zero =>
        refine ⟨0, by simp, ?_, by simp⟩
        simp [List.filter_cons, ho]
      | succ m =>
        have hm' : m < (rest.filter ok).length := by
          simp only [List.filter_cons, ho, if_true, List.length_cons] at hm; omega
        obtain ⟨p, hp, h1, h2⟩ := ih m hm'
        refine ⟨p + 1, by simp; omega, ?_, ?_⟩
        · simp only [List.getElem_cons_succ, h1]
          simp [List.filter_cons, ho]
        · simp only [List.drop_succ_cons, h2]
          simp [List.filter_cons, ho]
    · have ho' : ok e = false := by simpa using ho
      have hm' : m < (rest.filter ok).length := by
        simpa [List.filter_cons, ho'] using hm
      obtain ⟨p, hp, h1, h2⟩ := ih m hm'
      refine ⟨p + 1, by simp; omega, ?_, ?_⟩
      · simp only [List.getElem_cons_succ, h1]
        simp [List.filter_cons, ho']
      · simp only [List.drop_succ_cons, h2]
        simp [List.filter_cons, ho']

/-! ### the client loop -/

/-- if the first page and the page behind every cursor are the corresponding windows of `V`, the walk returns `V`
cut into pages, and ends. -/
theorem walkFrom_pages (load : Option Cursor → R Page) (by_ : SortBy) (V : List Entry) (n : Nat) (hn : 1 ≤ n)
    (H1 : ∀ m (hm : m < V.length), load (some (cursorOf V[m])) = .ok ⟨(V.drop m).take n, (V.drop m)[n]?⟩)
    (Hc : ∀ e ∈ V, ∀ items, nextCursor by_ ⟨items, some e⟩ = some (cursorOf e)) :
    ∀ fuel m c, m ≤ V.length → (V.length - m) + 1 ≤ fuel →
      load c = .ok ⟨(V.drop m).take n, (V.drop m)[n]?⟩ →
      walkFrom load by_ fuel c = .ok (pagesOf n (V.length - m) (V.drop m)) := by
  intro fuel
  induction fuel with
  | zero => intro m c _ hf; omega
  | succ f ih =>
    intro m c hm hf hload
    unfold walkFrom
    rw [hload]
    simp only [bind, Except.bind]
    by_cases hlast : (V.drop m).length ≤ n
    · have hnone : (V.drop m)[n]? = none := List.getElem?_eq_none hlast
      rw [hnone]
      simp only [nextCursor, pure, Except.pure]
      rw [List.take_of_length_le hlast]
      cases hk : V.length - m with
      | zero => simp [pagesOf]
      | succ k => unfold pagesOf; rw [if_pos hlast]
    · have hlen : (V.drop m).length = V.length - m := by simp
      have hmn : m + n < V.length := by omega
      have hsome : (V.drop m)[n]? = some V[m + n] := by
        rw [List.getElem?_drop, List.getElem?_eq_getElem hmn]
      rw [hsome, Hc _ (List.getElem_mem hmn)]
      simp only
      rw [ih (m + n) (some (cursorOf V[m + n])) (by omega) (by omega)
        (by have := H1 (m + n) hmn; exact this)]
      simp only [pure, Except.pure]
      congr 1
      cases hk : V.length - m with
      | zero => omega
      | succ k =>
        have e : pagesOf n (k + 1) (V.drop m) = (V.drop m).take n :: pagesOf n k ((V.drop m).drop n) := by
          rw [pagesOf, if_neg hlast]
        rw [e, List.drop_drop]
        congr 1
        apply pagesOf_fuel n hn
        · simp
        · simp; omega

/-! ### one page of a listing -/

/-- the order in which a listing visits the sorted array. -/
def oriented (es : List Entry) (isAsc : Bool) : List Entry := if isAsc then es else es.reverse

/-- position `p` of the sorted array, as a position of the visiting order. -/
def opos (es : List Entry) (isAsc : Bool) (p : Nat) : Nat := if isAsc then p else es.length - 1 - p

/-- what a page starting at visiting position `k` contains: the kept boards from there up to the first `stop`. -/
def windowG (ok : Entry → Bool) (es : List Entry) (stop : Entry → Bool) (isAsc : Bool) (k : Nat) : List Entry :=
  (((oriented es isAsc).drop k).takeWhile (fun e => !stop e)).filter ok

theorem pttLoadG_at (ok : Entry → Bool) (es : List Entry) (stop : Entry → Bool) (p : Nat) (hp : p < es.length) (n : Nat) (isAsc : Bool) :
    pttLoadG (gather stop ok) es (Int.ofNat p + 1) (n : Int) isAsc =
      .ok ⟨(windowG ok es stop isAsc (opos es isAsc p)).take n, (windowG ok es stop isAsc (opos es isAsc p))[n]?⟩ := by
  unfold pttLoadG windowG opos oriented
  simp only [Int.ofNat_eq_natCast]
  have h1 : ¬ ((p : Int) + 1 = 0 ∧ ¬ isAsc = true) := by omega
  rw [if_neg h1]
  have h2 : ¬ ((n : Int) + 1 < 0) := by omega
  rw [if_neg h2]
  have h3 : ¬ ((p : Int) + 1 - 1 < 0) := by omega
  have h4 : ((p : Int) + 1 - 1).toNat = p := by omega
  have h5 : ((n : Int) + 1).toNat = n + 1 := by omega
  have h6 : ¬ ((n : Int) < 0) := by omega
  have h7 : (n : Int).toNat = n := by omega
  cases isAsc with
  | true =>
    simp only [if_true, h3, if_false, bind, Except.bind, pure, Except.pure, h4, h5, h6, h7]
    rw [gather_eq]
    have := split_page (((es.drop p).takeWhile (fun e => !stop e)).filter ok) n
    rw [← this]; split <;> rfl
  | false =>
    simp only [Bool.false_eq_true, if_false, h3, bind, Except.bind, pure, Except.pure, h4, h5, h6, h7]
    rw [gather_eq, downFrom_eq es p hp]
    have := split_page (((es.reverse.drop (es.length - 1 - p)).takeWhile (fun e => !stop e)).filter ok) n
    rw [← this]; split <;> rfl

/-- the first page (`startIdxStr == ""`: start 1 ascending, 0 = "from the last" descending). -/
theorem pttLoadG_first (ok : Entry → Bool) (es : List Entry) (stop : Entry → Bool) (n : Nat) (isAsc : Bool) :
    pttLoadG (gather stop ok) es (if isAsc then 1 else 0) (n : Int) isAsc =
      .ok ⟨(windowG ok es stop isAsc 0).take n, (windowG ok es stop isAsc 0)[n]?⟩ := by
  cases hes : es with
  | nil =>
    have h2 : ¬ ((n : Int) + 1 < 0) := by omega
    have h0 : ¬ ((0 : Int) = (n : Int) + 1) := by omega
    cases isAsc
    · simp [pttLoadG, windowG, oriented, gather, h2, h0]; rfl
    · simp [pttLoadG, windowG, oriented, gather, h2, h0]; rfl
  | cons e0 rest =>
    rw [← hes]
    have hl : 0 < es.length := by rw [hes]; simp
    cases isAsc with
    | true =>
      have := pttLoadG_at ok es stop 0 hl n true
      simp only [opos, if_true] at this
      simpa using this
    | false =>
      have := pttLoadG_at ok es stop (es.length - 1) (by omega) n false
      simp only [opos, Bool.false_eq_true, if_false] at this
      have e : es.length - 1 - (es.length - 1) = 0 := by omega
      rw [e] at this
      rw [← this]
      have e1 : (if (if false = true then (1 : Int) else 0) = 0 ∧ ¬ false = true then Int.ofNat es.length
          else if false = true then 1 else 0) = Int.ofNat es.length := by simp
      have e2 : (if Int.ofNat (es.length - 1) + 1 = 0 ∧ ¬ false = true then Int.ofNat es.length
          else Int.ofNat (es.length - 1) + 1) = Int.ofNat es.length := by
        simp only [Int.ofNat_eq_natCast]; split <;> omega
      unfold pttLoadG
      simp only [e1, e2]

/-! ### following the cursors -/

theorem findIdx_self (maxBoard : Nat) (cmp : Entry → M Int) (c : Entry → Int) (hc : ∀ e, cmp e = .ok (c e))
    (es : List Entry) (Mn : Mono c es) (hv : ∀ e ∈ es, e.bid + 1 ≤ maxBoard) (U : Unique0 c es)
    (p : Nat) (hp : p < es.length) (h0 : c es[p] = 0) (isAsc : Bool) :
    findIdx maxBoard cmp es isAsc = .ok (Int.ofNat p + 1) := by
  obtain ⟨r, hr, h⟩ := findIdx_post maxBoard cmp c hc es Mn hv isAsc
  rw [hr]
  rcases h with ⟨i, hi, rfl, hi0⟩ | ⟨hnz, _⟩
  · rw [U i p hi hp hi0 h0]
  · exact absurd h0 (hnz _ (List.getElem_mem hp))

theorem takeWhile_drop {α : Type} (q : α → Bool) (l : List α) (j : Nat) (hj : j ≤ (l.takeWhile q).length) :
    (l.drop j).takeWhile q = (l.takeWhile q).drop j := by
  induction l generalizing j with
  | nil => simp
  | cons a rest ih =>
    cases j with
    | zero => simp
    | succ j =>
      by_cases ha : q a = true
      · simp only [List.takeWhile_cons, ha, if_true, List.length_cons] at hj ⊢
        simp only [List.drop_succ_cons]
        exact ih j (by omega)
      · simp [List.takeWhile_cons, ha] at hj

/-- the window behind the `m`-th entry of a window. -/
theorem window_shiftG (ok : Entry → Bool) (es : List Entry) (stop : Entry → Bool) (isAsc : Bool) (k0 m : Nat)
    (hm : m < (windowG ok es stop isAsc k0).length) :
    ∃ p', ∃ hp' : p' < (oriented es isAsc).length, (oriented es isAsc)[p'] = (windowG ok es stop isAsc k0)[m] ∧
      windowG ok es stop isAsc p' = (windowG ok es stop isAsc k0).drop m := by
  unfold windowG at hm ⊢
  generalize hos : oriented es isAsc = os at hm ⊢
  obtain ⟨j, hj, h1, h2⟩ := filter_position ok ((os.drop k0).takeWhile (fun e => !stop e)) m hm
  have hjl : j < (os.drop k0).length := Nat.lt_of_lt_of_le hj (List.takeWhile_sublist _).length_le
  have hkj : k0 + j < os.length := by simp at hjl; omega
  refine ⟨k0 + j, hkj, ?_, ?_⟩
  · rw [← h1, (List.takeWhile_prefix (fun e => !stop e)).getElem hj]
    simp
  · rw [← h2, ← takeWhile_drop _ _ j (Nat.le_of_lt hj), List.drop_drop]

theorem liftM_ok {α : Type} (x : M α) (a : α) (h : x = .ok a) : liftM x = .ok a := by rw [h]; rfl

/-- a listing whose first page is the window at visiting position `k0`, and whose page behind the cursor of the
entry at sorted position `p` is `pttLoad` from `p + 1`, pages through exactly that window. -/
theorem walk_listingG (ok : Entry → Bool) (es : List Entry) (stop : Entry → Bool) (load : Option Cursor → R Page) (by_ : SortBy)
    (isAsc : Bool) (n : Nat) (hn : 1 ≤ n) (k0 : Nat)
    (hfirst : load none = .ok ⟨(windowG ok es stop isAsc k0).take n, (windowG ok es stop isAsc k0)[n]?⟩)
    (hat : ∀ p (hp : p < es.length), ok es[p] = true →
      load (some (cursorOf es[p])) = liftM (pttLoadG (gather stop ok) es (Int.ofNat p + 1) (n : Int) isAsc))
    (Hc : ∀ e ∈ es, ok e = true → ∀ items, nextCursor by_ ⟨items, some e⟩ = some (cursorOf e)) :
    walkFrom load by_ (walkFuel es.length) none =
      .ok (pagesOf n (windowG ok es stop isAsc k0).length (windowG ok es stop isAsc k0)) := by
  generalize hV : windowG ok es stop isAsc k0 = V at hfirst ⊢
  have hsub : ∀ e ∈ V, e ∈ es ∧ ok e = true := by
    intro e he
    rw [← hV] at he
    unfold windowG at he
    have h1 := List.mem_filter.mp he
    refine ⟨?_, h1.2⟩
    have h2 := List.mem_of_mem_drop ((List.takeWhile_sublist _).subset h1.1)
    unfold oriented at h2
    split at h2
    · exact h2
    · exact List.mem_reverse.mp h2
  have hlen : V.length ≤ es.length := by
    rw [← hV]
    unfold windowG
    calc _ ≤ ((oriented es isAsc).drop k0 |>.takeWhile (fun e => !stop e)).length := List.length_filter_le _ _
      _ ≤ ((oriented es isAsc).drop k0).length := (List.takeWhile_sublist _).length_le
      _ ≤ (oriented es isAsc).length := by simp
      _ = es.length := by unfold oriented; split <;> simp
  have := walkFrom_pages load by_ V n hn ?_ ?_ (walkFuel es.length) 0 none (Nat.zero_le _)
    (by unfold walkFuel; omega) (by simpa using hfirst)
  · simpa using this
  · -- the page behind the cursor of `V[m]`
    intro m hm
    have hm' : m < (windowG ok es stop isAsc k0).length := by rw [hV]; exact hm
    obtain ⟨p', hp', h1, h2⟩ := window_shiftG ok es stop isAsc k0 m hm'
    have hVm : (windowG ok es stop isAsc k0)[m] = V[m] := by simp [hV]
    rw [hVm] at h1
    rw [hV] at h2
    have hos : (oriented es isAsc).length = es.length := by unfold oriented; split <;> simp
    -- the sorted position of that entry
    obtain ⟨p, hp, hpe, hop⟩ : ∃ p, ∃ hp : p < es.length, es[p] = V[m] ∧ opos es isAsc p = p' := by
      cases isAsc with
      | true =>
        refine ⟨p', by simpa [oriented] using hp', ?_, by simp [opos]⟩
        simpa [oriented] using h1
      | false =>
        have hp2 : p' < es.length := by simpa [oriented] using hp'
        refine ⟨es.length - 1 - p', by omega, ?_, by simp [opos]; omega⟩
        have : (oriented es false)[p'] = es[es.length - 1 - p'] := by
          simp only [oriented, Bool.false_eq_true, if_false]
          rw [List.getElem_reverse]
        rw [← this]; exact h1
    have hl := (hsub _ (List.getElem_mem hm)).2
    rw [← hpe] at hl ⊢
    rw [hat p hp hl, liftM_ok _ _ (pttLoadG_at ok es stop p hp n isAsc), hop, h2]
  · intro e he items
    exact Hc e (hsub e he).1 (hsub e he).2 items

/-! the instances for ptt.LoadGeneralBoards / LoadAutoCompleteBoards (`ok = listable`) -/

def window (es : List Entry) (stop : Entry → Bool) (isAsc : Bool) (k : Nat) : List Entry :=
  windowG listable es stop isAsc k

theorem pttLoad_at (es : List Entry) (stop : Entry → Bool) (p : Nat) (hp : p < es.length) (n : Nat) (isAsc : Bool) :
    pttLoad es stop (Int.ofNat p + 1) (n : Int) isAsc =
      .ok ⟨(window es stop isAsc (opos es isAsc p)).take n, (window es stop isAsc (opos es isAsc p))[n]?⟩ :=
  pttLoadG_at listable es stop p hp n isAsc

theorem pttLoad_first (es : List Entry) (stop : Entry → Bool) (n : Nat) (isAsc : Bool) :
    pttLoad es stop (if isAsc then 1 else 0) (n : Int) isAsc =
      .ok ⟨(window es stop isAsc 0).take n, (window es stop isAsc 0)[n]?⟩ :=
  pttLoadG_first listable es stop n isAsc

theorem walk_listing (es : List Entry) (stop : Entry → Bool) (load : Option Cursor → R Page) (by_ : SortBy)
    (isAsc : Bool) (n : Nat) (hn : 1 ≤ n) (k0 : Nat)
    (hfirst : load none = .ok ⟨(window es stop isAsc k0).take n, (window es stop isAsc k0)[n]?⟩)
    (hat : ∀ p (hp : p < es.length), listable es[p] = true →
      load (some (cursorOf es[p])) = liftM (pttLoad es stop (Int.ofNat p + 1) (n : Int) isAsc))
    (Hc : ∀ e ∈ es, listable e = true → ∀ items, nextCursor by_ ⟨items, some e⟩ = some (cursorOf e)) :
    walkFrom load by_ (walkFuel es.length) none =
      .ok (pagesOf n (window es stop isAsc k0).length (window es stop isAsc k0)) :=
  walk_listingG listable es stop load by_ isAsc n hn k0 hfirst hat Hc

/-! ### the by-name and by-class listings -/

/-- the boards a complete walk must return, in the order it must return them. -/
def visible (es : List Entry) (isAsc : Bool) : List Entry := (oriented es isAsc).filter listable

theorem window_nostop (es : List Entry) (isAsc : Bool) : window es (fun _ => false) isAsc 0 = visible es isAsc := by
  unfold window windowG visible
  have : ∀ l : List Entry, l.takeWhile (fun _ => true) = l := by
    intro l; induction l with
    | nil => rfl
    | cons a r ih => simp [List.takeWhile_cons, ih]
  simp [this]

theorem listable_cstr_ne (e : Entry) (h : listable e = true) : cstr e.b.name ≠ [] := by
  unfold listable at h
  simp only [Bool.and_eq_true, bne_iff_ne, ne_eq] at h
  intro hc
  cases hn : e.b.name with
  | nil => rw [hn] at h; simp at h
  | cons x xs =>
    rw [hn] at h hc
    rw [cstr_cons] at hc
    simp only [List.getD_cons_zero] at h
    rw [if_neg h.1] at hc
    cases hc

theorem listable_nkey_ne (e : Entry) (h : listable e = true) : nkey e ≠ [] := by
  have := listable_cstr_ne e h
  unfold nkey low
  intro hc
  exact this (List.map_eq_nil_iff.mp hc)

theorem low_cursor_name (nameLen : Nat) (e : Entry) (hl : e.b.name.length = nameLen) :
    low (copyInto nameLen (cstr e.b.name)) = nkey e := by
  unfold low nkey low
  rw [cstr_copyInto nameLen (cstr e.b.name) (cstr_nonzero _) (by rw [← hl]; exact cstr_length_le _)]
  try rw [cstr_idem]

theorem unique0_of_key (c : Entry → Int) (es : List Entry) (K : List Nat) (hK : K ≠ [])
    (h : ∀ e ∈ es, c e = 0 → nkey e = K) (D : DistinctNames es) : Unique0 c es := by
  intro i j hi hj h1 h2
  have e1 := h _ (List.getElem_mem hi) h1
  have e2 := h _ (List.getElem_mem hj) h2
  have D' := List.pairwise_iff_getElem.mp D
  rcases Nat.lt_trichotomy i j with hlt | heq | hlt
  · have := D' i j hi hj hlt (by rw [e1, e2])
    rw [e1] at this; exact absurd this hK
  · exact heq
  · have := D' j i hj hi hlt (by rw [e1, e2])
    rw [e2] at this; exact absurd this hK

theorem nextCursor_name (e : Entry) (h : listable e = true) (items : List Entry) :
    nextCursor .name ⟨items, some e⟩ = some (cursorOf e) := by
  simp only [nextCursor]
  rw [if_neg (listable_cstr_ne e h)]

/-- paging the by-name listing. -/
theorem walkGeneral_name (t : Tbl) (hn : NamesLen t.nameLen t.byName) (hv : ∀ e ∈ t.byName, e.bid + 1 ≤ t.maxBoard)
    (S : SortedBy lexCmp nkey t.byName) (D : DistinctNames t.byName) (n : Nat) (h1 : 1 ≤ n) (isAsc : Bool) :
    walkGeneral t .name (n : Int) isAsc =
      .ok (pagesOf n (visible t.byName isAsc).length (visible t.byName isAsc)) := by
  unfold walkGeneral
  show walkFrom _ .name (walkFuel t.byName.length) none = _
  rw [← window_nostop]
  apply walk_listing t.byName (fun _ => false) _ .name isAsc n h1 0
  · -- first page
    show loadGeneral t .name none (n : Int) isAsc = _
    unfold loadGeneral startOfCursor
    simp only [bind, Except.bind, pure, Except.pure]
    rw [if_neg (by split <;> omega)]
    exact liftM_ok _ _ (pttLoad_first t.byName (fun _ => false) n isAsc)
  · intro p hp hl
    show loadGeneral t .name (some (cursorOf t.byName[p])) (n : Int) isAsc = _
    obtain ⟨q, hq⟩ : ∃ q, q = copyInto t.nameLen (cursorOf t.byName[p]).name := ⟨_, rfl⟩
    have hlow : low q = nkey t.byName[p] := by
      rw [hq]; exact low_cursor_name t.nameLen _ (hn _ (List.getElem_mem hp))
    have Mn : Mono (cmpNameP q) t.byName :=
      mono_of_sorted lexLaws nkey (low q) (cmpNameP q) t.byName (fun e _ => cmpNameP_sign q e) S
    have U : Unique0 (cmpNameP q) t.byName := by
      apply unique0_of_key _ _ (nkey t.byName[p]) (listable_nkey_ne _ hl) _ D
      intro e _ h0
      have := (lexCmp_eq_iff _ _).mp ((cmpNameP_sign q e).2.1.mp h0)
      rw [← this, hlow]
    have h0 : cmpNameP q t.byName[p] = 0 := by
      apply (cmpNameP_sign q _).2.1.mpr
      rw [hlow]; exact lexCmp_refl _
    have hf := findIdx_self t.maxBoard (cmpName q) (cmpNameP q) (cmpName_eq q) t.byName Mn hv U p hp h0 isAsc
    unfold loadGeneral startOfCursor
    simp only [bind, Except.bind, pure, Except.pure]
    rw [← hq, liftM_ok _ _ hf]
    simp only
    rw [if_neg (by simp only [Int.ofNat_eq_natCast]; omega)]
    rfl
  · intro e _ hl items
    exact nextCursor_name e hl items

/-- the hypotheses on a by-class view. -/
structure ClassView (t : Tbl) : Prop where
  names : NamesLen t.nameLen t.byClass
  valid : ∀ e ∈ t.byClass, e.bid + 1 ≤ t.maxBoard
  sorted : SortedBy cmpC ckey t.byClass
  distinct : DistinctNames t.byClass
  classOK : ∀ e ∈ t.byClass, ClassOK e
  noAt : ∀ e ∈ t.byClass, (cstr e.b.name).contains 64 = false

/-- paging the by-class listing. -/
theorem walkGeneral_class (t : Tbl) (H : ClassView t) (n : Nat) (h1 : 1 ≤ n) (isAsc : Bool) :
    walkGeneral t .cls (n : Int) isAsc =
      .ok (pagesOf n (visible t.byClass isAsc).length (visible t.byClass isAsc)) := by
  unfold walkGeneral
  show walkFrom _ .cls (walkFuel t.byClass.length) none = _
  rw [← window_nostop]
  apply walk_listing t.byClass (fun _ => false) _ .cls isAsc n h1 0
  · show loadGeneral t .cls none (n : Int) isAsc = _
    unfold loadGeneral startOfCursor
    simp only [bind, Except.bind, pure, Except.pure]
    rw [if_neg (by split <;> omega)]
    exact liftM_ok _ _ (pttLoad_first t.byClass (fun _ => false) n isAsc)
  · intro p hp hl
    show loadGeneral t .cls (some (cursorOf t.byClass[p])) (n : Int) isAsc = _
    obtain ⟨q, hq⟩ : ∃ q, q = copyInto t.nameLen (cursorOf t.byClass[p]).name := ⟨_, rfl⟩
    obtain ⟨cls, hcls⟩ : ∃ cls, cls = (cursorOf t.byClass[p]).cls := ⟨_, rfl⟩
    have hlow : low q = nkey t.byClass[p] := by
      rw [hq]; exact low_cursor_name t.nameLen _ (H.names _ (List.getElem_mem hp))
    have hQ : (cstr cls, low q) = ckey t.byClass[p] := by
      rw [hcls, hlow]; unfold ckey cursorOf nkey; simp only [cstr_idem]
    have hs : ∀ e ∈ t.byClass, (cmpClassP cls q e < 0 ↔ cmpC (cstr cls, low q) (ckey e) = .lt) ∧
        (cmpClassP cls q e = 0 ↔ cmpC (cstr cls, low q) (ckey e) = .eq) ∧
        (0 < cmpClassP cls q e ↔ cmpC (cstr cls, low q) (ckey e) = .gt) :=
      fun e he => cmpClassP_sign cls q e (H.classOK e he)
    have Mn : Mono (cmpClassP cls q) t.byClass :=
      mono_of_sorted classLaws ckey (cstr cls, low q) (cmpClassP cls q) t.byClass hs H.sorted
    have U : Unique0 (cmpClassP cls q) t.byClass := by
      apply unique0_of_key _ _ (nkey t.byClass[p]) (listable_nkey_ne _ hl) _ H.distinct
      intro e he h0
      have := (classLaws.eq_iff _ _).mp ((hs e he).2.1.mp h0)
      rw [hQ] at this
      have h2 : (ckey t.byClass[p]).2 = (ckey e).2 := by rw [this]
      exact h2.symm
    have h0 : cmpClassP cls q t.byClass[p] = 0 := by
      apply (hs _ (List.getElem_mem hp)).2.1.mpr
      rw [hQ]; exact classLaws.refl _
    have hf := findIdx_self t.maxBoard (cmpClass cls q) (cmpClassP cls q) (cmpClass_eq cls q) t.byClass Mn H.valid U p hp
      h0 isAsc
    unfold loadGeneral startOfCursor
    simp only [bind, Except.bind, pure, Except.pure]
    have hna : (cursorOf t.byClass[p]).name.contains 64 = false := H.noAt _ (List.getElem_mem hp)
    rw [hna]
    simp only [Bool.false_eq_true, if_false]
    rw [← hq, ← hcls, liftM_ok _ _ hf]
    simp only
    rw [if_neg (by simp only [Int.ofNat_eq_natCast]; omega)]
    rfl
  · intro e _ _ items
    rfl

/-! ### the auto-complete listing -/

/-- the cursor of a listable board of the by-name view resolves to that board's position. -/
theorem startOfCursor_name_self (t : Tbl) (hn : NamesLen t.nameLen t.byName)
    (hv : ∀ e ∈ t.byName, e.bid + 1 ≤ t.maxBoard) (S : SortedBy lexCmp nkey t.byName) (D : DistinctNames t.byName)
    (p : Nat) (hp : p < t.byName.length) (hne : nkey t.byName[p] ≠ []) (isAsc : Bool) :
    startOfCursor t .name (some (cursorOf t.byName[p])) isAsc = .ok (Int.ofNat p + 1) := by
  obtain ⟨q, hq⟩ : ∃ q, q = copyInto t.nameLen (cursorOf t.byName[p]).name := ⟨_, rfl⟩
  have hlow : low q = nkey t.byName[p] := by
    rw [hq]; exact low_cursor_name t.nameLen _ (hn _ (List.getElem_mem hp))
  have Mn : Mono (cmpNameP q) t.byName :=
    mono_of_sorted lexLaws nkey (low q) (cmpNameP q) t.byName (fun e _ => cmpNameP_sign q e) S
  have U : Unique0 (cmpNameP q) t.byName := by
    apply unique0_of_key _ _ (nkey t.byName[p]) hne _ D
    intro e _ h0
    have := (lexCmp_eq_iff _ _).mp ((cmpNameP_sign q e).2.1.mp h0)
    rw [← this, hlow]
  have h0 : cmpNameP q t.byName[p] = 0 := by
    apply (cmpNameP_sign q _).2.1.mpr
    rw [hlow]; exact lexCmp_refl _
  have hf := findIdx_self t.maxBoard (cmpName q) (cmpNameP q) (cmpName_eq q) t.byName Mn hv U p hp h0 isAsc
  unfold startOfCursor
  simp only
  rw [← hq, liftM_ok _ _ hf]

/-- in a sorted view the boards carrying a prefix are consecutive. -/
theorem pref_contiguous (kw : List Nat) (h0 : ∀ x ∈ kw, x ≠ 0) (es : List Entry) (S : SortedBy lexCmp nkey es)
    (i j k : Nat) (hij : i < j) (hjk : j < k) (hk : k < es.length)
    (hi : pref kw (es[i]'(by omega)) = true) (hkp : pref kw es[k] = true) : pref kw (es[j]'(by omega)) = true := by
  have S' := List.pairwise_iff_getElem.mp S
  rw [pref_iff kw h0] at hi hkp ⊢
  have h1 := lexLaws.le_trans _ _ _ (le_of_hasPrefix _ _ hi) (S' i j (by omega) (by omega) hij)
  cases hp : hasPrefix (nkey (es[j]'(by omega))) (low kw) with
  | true => rfl
  | false =>
    exfalso
    cases hc : lexCmp (low kw) (nkey (es[j]'(by omega))) with
    | gt => exact h1 hc
    | eq =>
      have := (lexCmp_eq_iff _ _).mp hc
      rw [← this] at hp
      have : hasPrefix (low kw) (low kw) = true := by rw [hasPrefix_iff]; exact List.prefix_refl _
      rw [this] at hp; cases hp
    | lt =>
      have := no_prefix_above _ _ _ hc hp (S' j k (by omega) hk hjk)
      rw [this] at hkp; cases hkp

theorem mem_takeWhile_true {α : Type} (q : α → Bool) (l : List α) (x : α) (h : x ∈ l.takeWhile q) : q x = true := by
  induction l with
  | nil => simp at h
  | cons a r ih =>
    by_cases ha : q a = true
    · simp only [List.takeWhile_cons, ha, if_true] at h
      rcases List.mem_cons.mp h with rfl | h
      · exact ha
      · exact ih h
    · simp [List.takeWhile_cons, ha] at h

theorem dropWhile_eq_drop {α : Type} (q : α → Bool) (l : List α) : l.dropWhile q = l.drop (l.takeWhile q).length := by
  induction l with
  | nil => rfl
  | cons a r ih =>
    by_cases ha : q a = true
    · simp [List.dropWhile_cons, List.takeWhile_cons, ha, ih]
    · simp [List.dropWhile_cons, List.takeWhile_cons, ha]

theorem dropWhile_head_false {α : Type} (q : α → Bool) (l : List α) (r0 : α) (rest : List α)
    (h : l.dropWhile q = r0 :: rest) : q r0 = false := by
  induction l with
  | nil => simp at h
  | cons a r ih =>
    by_cases ha : q a = true
    · simp only [List.dropWhile_cons, ha, if_true] at h
      exact ih h
    · simp only [List.dropWhile_cons, ha] at h
      simp only [Bool.false_eq_true, if_false] at h
      injection h with h1 _
      rw [← h1]; simpa using ha

/-- from the first position carrying `q`, "while `q`" collects exactly the elements carrying `q`. -/
theorem takeWhile_filter_block (q ok : Entry → Bool) (os : List Entry) (k0 : Nat) (hk0 : k0 < os.length)
    (hq0 : q os[k0] = true) (hbefore : ∀ k (hk : k < os.length), k < k0 → q os[k] = false)
    (hcont : ∀ i j k (hij : i < j) (hjk : j < k) (hk : k < os.length),
      q (os[i]'(by omega)) = true → q os[k] = true → q (os[j]'(by omega)) = true) :
    ((os.drop k0).takeWhile q).filter ok = os.filter (fun e => q e && ok e) := by
  have hsplit : os = os.take k0 ++ os.drop k0 := (List.take_append_drop k0 os).symm
  have hA : (os.take k0).filter (fun e => q e && ok e) = [] := by
    apply List.filter_eq_nil_iff.mpr
    intro e he
    obtain ⟨k, hk, rfl⟩ := List.getElem_of_mem he
    simp only [List.length_take] at hk
    rw [List.getElem_take, hbefore k (by omega) (by omega)]
    simp
  have hB : (os.drop k0) = (os.drop k0).takeWhile q ++ (os.drop k0).dropWhile q :=
    List.takeWhile_append_dropWhile.symm
  have hT : ((os.drop k0).takeWhile q).filter (fun e => q e && ok e) = ((os.drop k0).takeWhile q).filter ok := by
    apply List.filter_congr
    intro e he
    rw [mem_takeWhile_true q _ e he]
    simp
  obtain ⟨tl, htl⟩ : ∃ tl, tl = ((os.drop k0).takeWhile q).length := ⟨_, rfl⟩
  have hTpos : 0 < tl := by
    rw [htl, List.drop_eq_getElem_cons hk0, List.takeWhile_cons, if_pos hq0]
    simp
  have hRd : (os.drop k0).dropWhile q = os.drop (k0 + tl) := by
    rw [dropWhile_eq_drop, List.drop_drop, htl]
  have hR : ((os.drop k0).dropWhile q).filter (fun e => q e && ok e) = [] := by
    apply List.filter_eq_nil_iff.mpr
    intro e he
    rw [hRd] at he
    obtain ⟨d, hd, hde⟩ := List.getElem_of_mem he
    simp only [List.length_drop] at hd
    rw [List.getElem_drop] at hde
    have hj : k0 + tl < os.length := by omega
    -- the element at `k0 + tl` is the first one behind the block: it does not carry `q`
    have hr0 : q os[k0 + tl] = false := by
      have hne : os.drop (k0 + tl) = os[k0 + tl] :: os.drop (k0 + tl + 1) := List.drop_eq_getElem_cons hj
      exact dropWhile_head_false q (os.drop k0) _ _ (by rw [hRd]; exact hne)
    cases hqe : q e with
    | false => simp
    | true =>
      exfalso
      cases d with
      | zero =>
        simp only [Nat.add_zero] at hde
        rw [← hde, hr0] at hqe; cases hqe
      | succ d =>
        have := hcont k0 (k0 + tl) (k0 + tl + (d + 1)) (by omega) (by omega) (by omega) hq0 (by rw [hde]; exact hqe)
        rw [hr0] at this; cases this
  conv => rhs; rw [hsplit, List.filter_append, hA, List.nil_append, hB, List.filter_append, hT, hR, List.append_nil]

/-- the boards a complete auto-complete walk must return. -/
def visibleAuto (kw : List Nat) (es : List Entry) (isAsc : Bool) : List Entry :=
  (oriented es isAsc).filter (fun e => pref kw e && listable e)

theorem oriented_length (es : List Entry) (isAsc : Bool) : (oriented es isAsc).length = es.length := by
  unfold oriented; split <;> simp

theorem oriented_getElem (es : List Entry) (isAsc : Bool) (k : Nat) (hk : k < es.length) :
    (oriented es isAsc)[k]'(by rw [oriented_length]; exact hk) = es[opos es isAsc k]'(by unfold opos; split <;> omega) := by
  cases isAsc with
  | true => simp [oriented, opos]
  | false =>
    simp only [oriented, opos, Bool.false_eq_true, if_false]
    rw [List.getElem_reverse]

theorem pref_contiguous_oriented (kw : List Nat) (h0 : ∀ x ∈ kw, x ≠ 0) (es : List Entry)
    (S : SortedBy lexCmp nkey es) (isAsc : Bool)
    (i j k : Nat) (hij : i < j) (hjk : j < k) (hk : k < (oriented es isAsc).length)
    (hi : pref kw ((oriented es isAsc)[i]'(by omega)) = true) (hkp : pref kw (oriented es isAsc)[k] = true) :
    pref kw ((oriented es isAsc)[j]'(by omega)) = true := by
  have hl := oriented_length es isAsc
  rw [oriented_getElem es isAsc i (by omega)] at hi
  rw [oriented_getElem es isAsc k (by omega)] at hkp
  rw [oriented_getElem es isAsc j (by omega)]
  cases isAsc with
  | true =>
    simp only [opos, if_true] at hi hkp ⊢
    exact pref_contiguous kw h0 es S i j k hij hjk (by omega) hi hkp
  | false =>
    simp only [opos, Bool.false_eq_true, if_false] at hi hkp ⊢
    exact pref_contiguous kw h0 es S (es.length - 1 - k) (es.length - 1 - j) (es.length - 1 - i) (by omega) (by omega)
      (by omega) hkp hi

theorem loadAuto_cursor (t : Tbl) (hn : NamesLen t.nameLen t.byName)
    (hv : ∀ e ∈ t.byName, e.bid + 1 ≤ t.maxBoard) (S : SortedBy lexCmp nkey t.byName) (D : DistinctNames t.byName)
    (kw : List Nat) (n : Nat) (isAsc : Bool) (p : Nat) (hp : p < t.byName.length) (hl : listable t.byName[p] = true) :
    loadAuto t (some (cursorOf t.byName[p])) (n : Int) kw isAsc =
      liftM (pttLoad t.byName (notPrefixed kw) (Int.ofNat p + 1) (n : Int) isAsc) := by
  unfold loadAuto
  simp only [bind, Except.bind, pure, Except.pure]
  rw [startOfCursor_name_self t hn hv S D p hp (listable_nkey_ne _ hl) isAsc]
  simp only
  rw [if_neg (by simp only [Int.ofNat_eq_natCast]; omega)]

/-- paging the auto-complete listing, given that the start search found the first (last) board with the prefix. -/
theorem walkAuto_found (t : Tbl) (kw : List Nat) (h0 : ∀ x ∈ kw, x ≠ 0) (hn : NamesLen t.nameLen t.byName)
    (hv : ∀ e ∈ t.byName, e.bid + 1 ≤ t.maxBoard) (S : SortedBy lexCmp nkey t.byName) (D : DistinctNames t.byName)
    (n : Nat) (h1 : 1 ≤ n) (isAsc : Bool) (f : Nat) (hf : f < t.byName.length)
    (hstart : autoStart t.maxBoard t.nameLen t.byName kw isAsc = .ok (Int.ofNat f + 1))
    (hpf : pref kw t.byName[f] = true)
    (hbefore : ∀ k (hk : k < t.byName.length), k < opos t.byName isAsc f →
      pref kw ((oriented t.byName isAsc)[k]'(by rw [oriented_length]; exact hk)) = false) :
    walkAuto t (n : Int) kw isAsc =
      .ok (pagesOf n (visibleAuto kw t.byName isAsc).length (visibleAuto kw t.byName isAsc)) := by
  have hk0 : opos t.byName isAsc f < (oriented t.byName isAsc).length := by
    rw [oriented_length]; unfold opos; split <;> omega
  have hk0' : opos t.byName isAsc f < t.byName.length := by rw [← oriented_length t.byName isAsc]; exact hk0
  have hoo : opos t.byName isAsc (opos t.byName isAsc f) = f := by unfold opos; split <;> omega
  have hW : window t.byName (notPrefixed kw) isAsc (opos t.byName isAsc f) = visibleAuto kw t.byName isAsc := by
    unfold window windowG visibleAuto
    have hfun : (fun e => !notPrefixed kw e) = pref kw := by
      funext e; simp [notPrefixed_eq]
    rw [hfun]
    apply takeWhile_filter_block (pref kw) listable (oriented t.byName isAsc) (opos t.byName isAsc f) hk0
    · rw [oriented_getElem t.byName isAsc _ hk0']
      simp only [hoo]; exact hpf
    · intro k hk hlt
      exact hbefore k (by rw [← oriented_length t.byName isAsc]; exact hk) hlt
    · intro i j k hij hjk hk hi hkp
      exact pref_contiguous_oriented kw h0 t.byName S isAsc i j k hij hjk hk hi hkp
  rw [← hW]
  unfold walkAuto
  apply walk_listing t.byName (notPrefixed kw) _ .name isAsc n h1 (opos t.byName isAsc f)
  · show loadAuto t none (n : Int) kw isAsc = _
    unfold loadAuto
    simp only [bind, Except.bind, pure, Except.pure]
    rw [liftM_ok _ _ hstart]
    simp only
    rw [if_neg (by simp only [Int.ofNat_eq_natCast]; omega)]
    exact liftM_ok _ _ (pttLoad_at t.byName (notPrefixed kw) f hf n isAsc)
  · intro p hp hl
    exact loadAuto_cursor t hn hv S D kw n isAsc p hp hl
  · intro e _ hl items
    exact nextCursor_name e hl items

/-- nothing carries the prefix: one empty page. -/
theorem walkAuto_none (t : Tbl) (kw : List Nat) (n : Nat) (isAsc : Bool)
    (hstart : autoStart t.maxBoard t.nameLen t.byName kw isAsc = .ok (-1))
    (hno : ∀ e ∈ t.byName, pref kw e = false) :
    walkAuto t (n : Int) kw isAsc =
      .ok (pagesOf n (visibleAuto kw t.byName isAsc).length (visibleAuto kw t.byName isAsc)) := by
  have hV : visibleAuto kw t.byName isAsc = [] := by
    unfold visibleAuto
    apply List.filter_eq_nil_iff.mpr
    intro e he
    have : e ∈ t.byName := by
      unfold oriented at he
      split at he
      · exact he
      · exact List.mem_reverse.mp he
    rw [hno e this]; simp
  rw [hV]
  unfold walkAuto walkFuel
  rw [walkFrom]
  unfold loadAuto
  simp only [bind, Except.bind, pure, Except.pure]
  rw [liftM_ok _ _ hstart]
  rfl

/-- paging the auto-complete listing: every listable board carrying the prefix, once, in order. -/
theorem walkAuto_eq (t : Tbl) (kw : List Nat) (h0 : ∀ x ∈ kw, x ≠ 0) (hn : NamesLen t.nameLen t.byName)
    (hv : ∀ e ∈ t.byName, e.bid + 1 ≤ t.maxBoard) (S : SortedBy lexCmp nkey t.byName) (D : DistinctNames t.byName)
    (n : Nat) (h1 : 1 ≤ n) (isAsc : Bool)
    (hstart : autoStart t.maxBoard t.nameLen t.byName kw isAsc = .ok (specAuto kw t.byName isAsc)) :
    walkAuto t (n : Int) kw isAsc =
      .ok (pagesOf n (visibleAuto kw t.byName isAsc).length (visibleAuto kw t.byName isAsc)) := by
  cases isAsc with
  | true =>
    rcases scanFirst_spec (pref kw) t.byName 0 with ⟨h1', h2⟩ | ⟨f, hf, h1', h2, h3⟩
    · apply walkAuto_none t kw n true _ h2
      rw [hstart]; simp [specAuto, h1']
    · apply walkAuto_found t kw h0 hn hv S D n h1 true f hf _ h2
      · intro k hk hlt
        simp only [opos, if_true] at hlt
        simpa [oriented] using h3 k hlt
      · rw [hstart]
        simp only [specAuto, if_true, h1', Nat.zero_add]
        rw [if_neg (by simp only [Int.ofNat_eq_natCast]; omega)]
  | false =>
    rcases scanLast_spec (pref kw) t.byName with ⟨h1', h2⟩ | ⟨f, hf, h1', h2, h3⟩
    · apply walkAuto_none t kw n false _ h2
      rw [hstart]; simp [specAuto, h1']
    · apply walkAuto_found t kw h0 hn hv S D n h1 false f hf _ h2
      · intro k hk hlt
        simp only [opos, Bool.false_eq_true, if_false] at hlt
        have := oriented_getElem t.byName false k hk
        rw [this]
        simp only [opos, Bool.false_eq_true, if_false]
        exact h3 _ (by omega) (by omega)
      · rw [hstart]
        simp only [specAuto, Bool.false_eq_true, if_false, h1']
        rw [if_neg (by simp only [Int.ofNat_eq_natCast]; omega)]

/-! ### the cursor of a board resolves to that board (by class); bbs.LoadGeneralBoardDetails -/

/-- the by-class cursor `(C string of Title[:4], name)` that the bbs layer serialises for the board at position `p`
of the by-class view resolves to `p + 1`, in both directions. -/
theorem startOfCursor_class_self (t : Tbl) (H : ClassView t) (p : Nat) (hp : p < t.byClass.length)
    (hne : nkey t.byClass[p] ≠ []) (isAsc : Bool) :
    startOfCursor t .cls (some (cursorOf t.byClass[p])) isAsc = .ok (Int.ofNat p + 1) := by
  obtain ⟨q, hq⟩ : ∃ q, q = copyInto t.nameLen (cursorOf t.byClass[p]).name := ⟨_, rfl⟩
  obtain ⟨cls, hcls⟩ : ∃ cls, cls = (cursorOf t.byClass[p]).cls := ⟨_, rfl⟩
  have hlow : low q = nkey t.byClass[p] := by
    rw [hq]; exact low_cursor_name t.nameLen _ (H.names _ (List.getElem_mem hp))
  have hQ : (cstr cls, low q) = ckey t.byClass[p] := by
    rw [hcls, hlow]; unfold ckey cursorOf nkey; simp only [cstr_idem]
  have hs : ∀ e ∈ t.byClass, (cmpClassP cls q e < 0 ↔ cmpC (cstr cls, low q) (ckey e) = .lt) ∧
      (cmpClassP cls q e = 0 ↔ cmpC (cstr cls, low q) (ckey e) = .eq) ∧
      (0 < cmpClassP cls q e ↔ cmpC (cstr cls, low q) (ckey e) = .gt) :=
    fun e he => cmpClassP_sign cls q e (H.classOK e he)
  have Mn : Mono (cmpClassP cls q) t.byClass :=
    mono_of_sorted classLaws ckey (cstr cls, low q) (cmpClassP cls q) t.byClass hs H.sorted
  have U : Unique0 (cmpClassP cls q) t.byClass := by
    apply unique0_of_key _ _ (nkey t.byClass[p]) hne _ H.distinct
    intro e he h0
    have := (classLaws.eq_iff _ _).mp ((hs e he).2.1.mp h0)
    rw [hQ] at this
    have h2 : (ckey t.byClass[p]).2 = (ckey e).2 := by rw [this]
    exact h2.symm
  have h0 : cmpClassP cls q t.byClass[p] = 0 := by
    apply (hs _ (List.getElem_mem hp)).2.1.mpr
    rw [hQ]; exact classLaws.refl _
  have hf := findIdx_self t.maxBoard (cmpClass cls q) (cmpClassP cls q) (cmpClass_eq cls q) t.byClass Mn H.valid U p hp
    h0 isAsc
  unfold startOfCursor
  simp only
  have hna : (cursorOf t.byClass[p]).name.contains 64 = false := H.noAt _ (List.getElem_mem hp)
  rw [hna]
  simp only [Bool.false_eq_true, if_false]
  rw [← hq, ← hcls, liftM_ok _ _ hf]

theorem mem_oriented {es : List Entry} {isAsc : Bool} {e : Entry} (h : e ∈ oriented es isAsc) : e ∈ es := by
  unfold oriented at h
  split at h
  · exact h
  · exact List.mem_reverse.mp h

theorem detailOK_cstr_ne (maxBoard : Nat) (e : Entry) (h : detailOK maxBoard e = true) : cstr e.b.name ≠ [] := by
  unfold detailOK at h
  simp only [Bool.and_eq_true, bne_iff_ne, ne_eq] at h
  intro hc
  cases hn : e.b.name with
  | nil => rw [hn] at h; simp at h
  | cons x xs =>
    rw [hn] at h hc
    rw [cstr_cons] at hc
    simp only [List.getD_cons_zero] at h
    rw [if_neg h.2] at hc
    cases hc

theorem detailOK_nkey_ne (maxBoard : Nat) (e : Entry) (h : detailOK maxBoard e = true) : nkey e ≠ [] := by
  have := detailOK_cstr_ne maxBoard e h
  unfold nkey low
  intro hc
  exact this (List.map_eq_nil_iff.mp hc)

/-- the slots a complete walk of LoadGeneralBoardDetails must return: every non-vacated slot, in visiting order. -/
def visibleDetails (maxBoard : Nat) (es : List Entry) (isAsc : Bool) : List Entry :=
  (oriented es isAsc).filter (detailOK maxBoard)

/-- paging bbs.LoadGeneralBoardDetails (code after 6f287ee): if the cursor of every non-vacated slot resolves to that
slot, the walk returns every non-vacated slot of the view once, in visiting order, and ends — vacated slots may sit
anywhere in the view. -/
theorem walk_details (t : Tbl) (by_ : SortBy)
    (hres : ∀ p (hp : p < (t.view by_).length), nkey (t.view by_)[p] ≠ [] → ∀ (isAsc : Bool),
      startOfCursor t by_ (some (cursorOf (t.view by_)[p])) isAsc = .ok (Int.ofNat p + 1))
    (n : Nat) (h1 : 1 ≤ n) (isAsc : Bool) :
    walkDetails t by_ (n : Int) isAsc =
      .ok (pagesOf n (visibleDetails t.maxBoard (t.view by_) isAsc).length (visibleDetails t.maxBoard (t.view by_) isAsc)) := by
  generalize hes : t.view by_ = es at hres ⊢
  have hw : windowG (detailOK t.maxBoard) es (fun _ => false) isAsc 0 = visibleDetails t.maxBoard es isAsc := by
    unfold windowG visibleDetails
    have : ∀ l : List Entry, l.takeWhile (fun _ => true) = l := by
      intro l; induction l with
      | nil => rfl
      | cons a r ih => simp [List.takeWhile_cons, ih]
    simp [this]
  unfold walkDetails
  rw [hes, ← hw]
  apply walk_listingG (detailOK t.maxBoard) es (fun _ => false) _ by_ isAsc n h1 0
  · show loadDetails t by_ none (n : Int) isAsc = _
    unfold loadDetails startOfCursor
    simp only [bind, Except.bind, pure, Except.pure]
    rw [if_neg (by split <;> omega), hes]
    exact liftM_ok _ _ (pttLoadG_first (detailOK t.maxBoard) es (fun _ => false) n isAsc)
  · intro p hp hok
    show loadDetails t by_ (some (cursorOf es[p])) (n : Int) isAsc = _
    unfold loadDetails
    simp only [bind, Except.bind, pure, Except.pure]
    rw [hres p hp (detailOK_nkey_ne _ _ hok) isAsc]
    simp only
    rw [if_neg (by simp only [Int.ofNat_eq_natCast]; omega), hes]
    rfl
  · intro e _ hok items
    cases by_ with
    | name => simp only [nextCursor]; rw [if_neg (detailOK_cstr_ne _ e hok)]
    | cls => rfl

/-! ### the class listings: slot order, paged by bid -/

theorem takeWhile_const_true (l : List Entry) : l.takeWhile (fun _ => true) = l := by
  induction l with
  | nil => rfl
  | cons a r ih => simp [List.takeWhile_cons, ih]

theorem takeWhile_nostop (l : List Entry) : l.takeWhile (fun e => !((fun _ => false) e)) = l := by
  simpa using takeWhile_const_true l

theorem windowG_nostop_asc (ok : Entry → Bool) (es : List Entry) (k : Nat) :
    windowG ok es (fun _ => false) true k = (es.drop k).filter ok := by
  unfold windowG oriented
  simp [takeWhile_const_true]

/-- the client loop over `next_bid`: if the page from bid 1 and the page from the bid of every entry of `V` are the
corresponding windows of `V`, the walk returns `V` cut into pages, and ends. -/
theorem walkBid_pages (load : Int → R Page) (V : List Entry) (n : Nat) (hn : 1 ≤ n)
    (H1 : ∀ m (hm : m < V.length), load (Int.ofNat V[m].bid + 1) = .ok ⟨(V.drop m).take n, (V.drop m)[n]?⟩) :
    ∀ fuel m b, m ≤ V.length → (V.length - m) + 1 ≤ fuel →
      load b = .ok ⟨(V.drop m).take n, (V.drop m)[n]?⟩ →
      walkBid load fuel b = .ok (pagesOf n (V.length - m) (V.drop m)) := by
  intro fuel
  induction fuel with
  | zero => intro m b _ hf; omega
  | succ f ih =>
    intro m b hm hf hload
    unfold walkBid
    rw [hload]
    simp only [bind, Except.bind]
    by_cases hlast : (V.drop m).length ≤ n
    · have hnone : (V.drop m)[n]? = none := List.getElem?_eq_none hlast
      rw [hnone]
      simp only [pure, Except.pure]
      rw [List.take_of_length_le hlast]
      cases hk : V.length - m with
      | zero => simp [pagesOf]
      | succ k => unfold pagesOf; rw [if_pos hlast]
    · have hlen : (V.drop m).length = V.length - m := by simp
      have hmn : m + n < V.length := by omega
      have hsome : (V.drop m)[n]? = some V[m + n] := by
        rw [List.getElem?_drop, List.getElem?_eq_getElem hmn]
      rw [hsome]
      simp only
      rw [ih (m + n) _ (by omega) (by omega) (H1 (m + n) hmn)]
      simp only [pure, Except.pure]
      congr 1
      cases hk : V.length - m with
      | zero => omega
      | succ k =>
        have e : pagesOf n (k + 1) (V.drop m) = (V.drop m).take n :: pagesOf n k ((V.drop m).drop n) := by
          rw [pagesOf, if_neg hlast]
        rw [e, List.drop_drop]
        congr 1
        apply pagesOf_fuel n hn
        · simp
        · simp; omega

/-- paging bbs.LoadFullClassBoards through `next_bid`: every class of the board table — in whichever slot it sits,
the last one included — exactly once, in slot order. -/
theorem walkFullClass_eq (maxBoard : Nat) (slots : List Entry) (hb : ∀ i (h : i < slots.length), slots[i].bid = i)
    (hlen : slots.length ≤ maxBoard) (hmb : 1 ≤ maxBoard) (n : Nat) (h1 : 1 ≤ n) :
    walkFullClass maxBoard slots (n : Int) =
      .ok (pagesOf n (slots.filter isClass).length (slots.filter isClass)) := by
  have hvalid : ∀ p : Nat, p < max slots.length 1 →
      ¬ ¬ (1 ≤ (Int.ofNat p + 1) ∧ (Int.ofNat p + 1) ≤ Int.ofNat maxBoard) := by
    intro p hp; simp only [Int.ofNat_eq_natCast]; omega
  have := walkBid_pages (fun b => loadFullClass maxBoard slots b (n : Int)) (slots.filter isClass) n h1 ?_
    (walkFuel slots.length) 0 1 (Nat.zero_le _) ?_ ?_
  · simpa [walkFullClass] using this
  · intro m hm
    obtain ⟨p, hp, h1', h2⟩ := filter_position isClass slots m hm
    rw [← h1', hb p hp]
    show loadFullClass maxBoard slots (Int.ofNat p + 1) (n : Int) = _
    unfold loadFullClass
    rw [if_neg (hvalid p (by omega))]
    have := pttLoadG_at isClass slots (fun _ => false) p hp n true
    simp only [opos, if_true] at this
    rw [liftM_ok _ _ this, windowG_nostop_asc, h2]
  · have := List.length_filter_le isClass slots
    unfold walkFuel; omega
  · show loadFullClass maxBoard slots 1 (n : Int) = _
    unfold loadFullClass
    have hv1 : ¬ ¬ ((1 : Int) ≤ 1 ∧ (1 : Int) ≤ Int.ofNat maxBoard) := by
      simp only [Int.ofNat_eq_natCast]; omega
    rw [if_neg hv1]
    have := pttLoadG_first isClass slots (fun _ => false) n true
    simp only [if_true] at this
    rw [liftM_ok _ _ this, windowG_nostop_asc]
    simp

/-! ### bbs.LoadClassBoards: histories of requests on one table -/

/-- the sub-classes of a class: what LoadClassBoards must return. -/
def subclasses (t : Tbl) (links : List (Nat × Nat)) (c : Int) (by' : SortBy) : List Entry :=
  (childrenOf t links c by').filter isClass

def byOf (c : Int) (by_ : SortBy) : SortBy := if c = 1 then SortBy.cls else by_

def SameGids (a b : List (Nat × Nat)) : Prop := ∀ j, (a.getD j (0, 0)).1 = (b.getD j (0, 0)).1

theorem childrenOf_congr (t : Tbl) (a b : List (Nat × Nat)) (h : SameGids a b) (c : Int) (by' : SortBy) :
    childrenOf t a c by' = childrenOf t b c by' := by
  unfold childrenOf
  apply List.filter_congr
  intro e _
  rw [h e.bid]

theorem getD_set (l : List (Nat × Nat)) (i j : Nat) (v : Nat × Nat) :
    (l.set i v).getD j (0, 0) = if i = j ∧ i < l.length then v else l.getD j (0, 0) := by
  simp only [List.getD_eq_getElem?_getD, List.getElem?_set]
  by_cases h : i = j
  · subst h
    by_cases hl : i < l.length
    · simp [hl]
    · simp [hl]
  · simp [h]

theorem sameGids_setChildCount (st : ClsState) (i c : Nat) : SameGids (st.setChildCount i c).links st.links := by
  intro j
  unfold ClsState.setChildCount
  simp only [getD_set]
  split
  · rename_i h; rw [← h.1]
  · rfl

theorem childCount_setChildCount (st : ClsState) (i c j : Nat) :
    (st.setChildCount i c).childCount j = if i = j ∧ i < st.links.length then c else st.childCount j := by
  unfold ClsState.setChildCount ClsState.childCount
  simp only [getD_set]
  split <;> rfl

theorem markFirst_links (st : ClsState) (i : Nat) (b : SortBy) : (st.markFirst i b).links = st.links := by
  cases b <;> rfl

theorem markFirst_childCount (st : ClsState) (i j : Nat) (b : SortBy) : (st.markFirst i b).childCount j = st.childCount j := by
  cases b <;> rfl

theorem firstSet_setChildCount (st : ClsState) (i c j : Nat) (b : SortBy) :
    (st.setChildCount i c).firstSet j b = st.firstSet j b := by cases b <;> rfl

theorem firstSet_markFirst_ne (st : ClsState) (i j : Nat) (b b' : SortBy) (h : i ≠ j) :
    (st.markFirst i b).firstSet j b' = st.firstSet j b' := by
  cases b <;> cases b' <;> simp [ClsState.markFirst, ClsState.firstSet, List.getD_eq_getElem?_getD, List.getElem?_set, h]

/-- every class whose child links are in place has the right `ChildCount` (or 0, which forces a new resolve). -/
def ClsInv (t : Tbl) (st : ClsState) : Prop :=
  ∀ (c : Int) (b : SortBy), 1 ≤ c → st.firstSet (c - 1).toNat b = true →
    st.childCount (c - 1).toNat = 0 ∨ ∀ b', st.childCount (c - 1).toNat = (childrenOf t st.links c b').length

theorem clsInv_fresh (t : Tbl) (links : List (Nat × Nat)) : ClsInv t (ClsState.fresh links) := by
  intro c b _ h
  exfalso
  revert h
  generalize (c - 1).toNat = i
  intro h
  cases b <;>
    (simp only [ClsState.fresh, ClsState.firstSet, List.getD_eq_getElem?_getD, List.getElem?_map] at h
     cases hh : links[i]? <;> simp [hh] at h)

/-- one request: the complete list of sub-classes, and the invariant is kept. -/
theorem loadClassBoards_step (t : Tbl) (st : ClsState) (c : Int) (by_ : SortBy)
    (hv : 1 ≤ c ∧ c ≤ Int.ofNat t.maxBoard) (hi : (c - 1).toNat < st.links.length)
    (hlen : ∀ c' b b', (childrenOf t st.links c' b).length = (childrenOf t st.links c' b').length)
    (I : ClsInv t st) :
    ∃ st', loadClassBoards t st c by_ = .ok (subclasses t st.links c (byOf c by_), st') ∧ ClsInv t st' ∧
      SameGids st'.links st.links ∧ st'.links.length = st.links.length := by
  obtain ⟨i, hidef⟩ : ∃ i, i = (c - 1).toNat := ⟨_, rfl⟩
  obtain ⟨b', hb'⟩ : ∃ b', b' = byOf c by_ := ⟨_, rfl⟩
  obtain ⟨ch, hch⟩ : ∃ ch, ch = childrenOf t st.links c b' := ⟨_, rfl⟩
  have hsub : (ch.filter isClass).length ≤ ch.length := List.length_filter_le _ _
  have hgather : ∀ cap, ch.length ≤ cap → gather (fun _ => false) isClass ch (cap + 5) = ch.filter isClass := by
    intro cap hcap
    rw [gather_eq, takeWhile_nostop]
    exact List.take_of_length_le (by omega)
  unfold loadClassBoards
  rw [if_neg (by simpa using hv)]
  simp only [pure, Except.pure]
  rw [← hidef]
  have hby : (if c = 1 then SortBy.cls else by_) = b' := by rw [hb']; rfl
  rw [hby, ← hch]
  by_cases hres : (!st.firstSet i b' || st.childCount i == 0) = true
  · -- ResolveBoardGroup
    rw [if_pos hres]
    obtain ⟨s1, hs1⟩ : ∃ s1, s1 = (if ch.isEmpty then st.setChildCount i ch.length
        else (st.setChildCount i ch.length).markFirst i b') := ⟨_, rfl⟩
    rw [← hs1]
    have hcc1 : s1.childCount i = ch.length := by
      rw [hs1]; split
      · rw [childCount_setChildCount, if_pos ⟨rfl, by rw [hidef]; exact hi⟩]
      · rw [markFirst_childCount, childCount_setChildCount, if_pos ⟨rfl, by rw [hidef]; exact hi⟩]
    have hl1 : s1.links = (st.setChildCount i ch.length).links := by
      rw [hs1]; split
      · rfl
      · exact markFirst_links _ _ _
    rw [hcc1, hgather ch.length (Nat.le_refl _), if_neg (by omega)]
    have hsg : SameGids s1.links st.links := by rw [hl1]; exact sameGids_setChildCount st i ch.length
    refine ⟨s1, by rw [hch, hb']; rfl, ?_, hsg, by rw [hl1]; simp [ClsState.setChildCount]⟩
    -- the invariant
    intro c2 b2 hc2 hf2
    by_cases hci : (c2 - 1).toNat = i
    · right
      intro b3
      have hc : c2 = c := by omega
      rw [hci, hcc1, hc, childrenOf_congr t s1.links st.links hsg, hch]
      exact hlen c b' b3
    · have hcc : s1.childCount (c2 - 1).toNat = st.childCount (c2 - 1).toNat := by
        rw [hs1]; split
        · rw [childCount_setChildCount, if_neg (fun h => hci h.1.symm)]
        · rw [markFirst_childCount, childCount_setChildCount, if_neg (fun h => hci h.1.symm)]
      have hff : s1.firstSet (c2 - 1).toNat b2 = st.firstSet (c2 - 1).toNat b2 := by
        rw [hs1]; split
        · exact firstSet_setChildCount _ _ _ _ _
        · rw [firstSet_markFirst_ne _ _ _ _ _ (fun h => hci h.symm)]; exact firstSet_setChildCount _ _ _ _ _
      rw [hff] at hf2
      rw [hcc]
      rcases I c2 b2 hc2 hf2 with h | h
      · left; exact h
      · right; intro b3; rw [childrenOf_congr t s1.links st.links hsg]; exact h b3
  · -- the links are in place and ChildCount is not 0
    rw [if_neg hres]
    have hfs : st.firstSet i b' = true := by
      cases h : st.firstSet i b' <;> simp [h] at hres ⊢
    have hcc0 : st.childCount i ≠ 0 := by
      intro h; simp [h] at hres
    have hcceq : st.childCount i = ch.length := by
      rcases I c b' hv.1 (by rw [← hidef]; exact hfs) with h | h
      · rw [← hidef] at h; exact absurd h hcc0
      · rw [hidef, hch]; exact h b'
    rw [hcceq, hgather ch.length (Nat.le_refl _), if_neg (by omega)]
    exact ⟨st, by rw [hch, hb']; rfl, I, fun _ => rfl, rfl⟩

/-- a history of requests on one (unchanging) table. -/
def runCalls (t : Tbl) : ClsState → List (Int × SortBy) → R (List (List Entry))
  | _, [] => pure []
  | st, (c, b) :: rest => do
    let (l, st') ← loadClassBoards t st c b
    let ls ← runCalls t st' rest
    pure (l :: ls)

theorem runCalls_eq (t : Tbl) (links : List (Nat × Nat)) (st : ClsState) (calls : List (Int × SortBy))
    (hsg : SameGids st.links links) (hl : st.links.length = links.length)
    (hv : ∀ cb ∈ calls, 1 ≤ cb.1 ∧ cb.1 ≤ Int.ofNat t.maxBoard ∧ (cb.1 - 1).toNat < links.length)
    (hlen : ∀ c' b b', (childrenOf t links c' b).length = (childrenOf t links c' b').length)
    (I : ClsInv t st) :
    runCalls t st calls = .ok (calls.map fun cb => subclasses t links cb.1 (byOf cb.1 cb.2)) := by
  induction calls generalizing st with
  | nil => rfl
  | cons cb rest ih =>
    obtain ⟨c, b⟩ := cb
    have hv0 := hv (c, b) (by simp)
    have hlen' : ∀ c' b b', (childrenOf t st.links c' b).length = (childrenOf t st.links c' b').length := by
      intro c' b1 b2
      rw [childrenOf_congr t st.links links hsg, childrenOf_congr t st.links links hsg]; exact hlen c' b1 b2
    obtain ⟨st', h1, I', hsg', hl'⟩ := loadClassBoards_step t st c b ⟨hv0.1, hv0.2.1⟩ (by rw [hl]; exact hv0.2.2) hlen' I
    unfold runCalls
    rw [h1]
    simp only [bind, Except.bind]
    rw [ih st' (fun j => (hsg' j).trans (hsg j)) (hl'.trans hl) (fun cb hcb => hv cb (by simp [hcb])) I']
    simp only [pure, Except.pure, List.map_cons]
    unfold subclasses
    rw [childrenOf_congr t st.links links hsg]

end PttVerif.C11
