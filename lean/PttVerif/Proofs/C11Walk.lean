import PttVerif.Proofs.C11Auto
/-
C11 — helper lemmas, part 3: the listing loops and the page walk.
-/
namespace PttVerif.C11
open PttVerif PttVerif.C18

/-! ### cutting a listing into pages -/

/-- `l` cut into pages of `n` (the last one may be shorter; an empty listing is one empty page). -/
def pagesOf {α : Type} (n : Nat) : Nat → List α → List (List α)
  | 0, l => [l]
  | f + 1, l => if l.length ≤ n then [l] else l.take n :: pagesOf n f (l.drop n)

theorem pagesOf_flatten {α : Type} (n f : Nat) (l : List α) : (pagesOf n f l).flatten = l := by
  induction f generalizing l with
  | zero => simp [pagesOf]
  | succ f ih =>
    unfold pagesOf
    split
    · simp
    · simp [ih]

theorem pagesOf_fuel {α : Type} (n : Nat) (hn : 1 ≤ n) (f g : Nat) (l : List α) (hf : l.length ≤ f) (hg : l.length ≤ g) :
    pagesOf n f l = pagesOf n g l := by
  induction f generalizing g l with
  | zero =>
    have : l = [] := List.length_eq_zero_iff.mp (by omega)
    subst this
    cases g <;> simp [pagesOf]
  | succ f ih =>
    cases g with
    | zero =>
      have : l = [] := List.length_eq_zero_iff.mp (by omega)
      subst this
      simp [pagesOf]
    | succ g =>
      unfold pagesOf
      by_cases h : l.length ≤ n
      · rw [if_pos h, if_pos h]
      · rw [if_neg h, if_neg h, ih g (l.drop n) (by simp; omega) (by simp; omega)]

/-- every page but the last has exactly `n` entries, the last between 1 and `n` (0 only for the empty listing). -/
theorem pagesOf_sizes {α : Type} (n : Nat) (hn : 1 ≤ n) (f : Nat) (l : List α) (hf : l.length ≤ f) :
    ∀ p ∈ (pagesOf n f l).dropLast, p.length = n := by
  induction f generalizing l with
  | zero => simp [pagesOf]
  | succ f ih =>
    unfold pagesOf
    split
    · simp
    · rename_i h
      intro p hp
      have hne : pagesOf n f (l.drop n) ≠ [] := by
        cases f <;> simp [pagesOf]; split <;> simp
      rw [List.dropLast_cons_of_ne_nil hne] at hp
      rcases List.mem_cons.mp hp with rfl | hp
      · simp; omega
      · exact ih (l.drop n) (by simp; omega) p hp

/-! ### the collecting loop -/

theorem gather_eq (stop ok : Entry → Bool) (l : List Entry) (cap : Nat) :
    gather stop ok l cap = ((l.takeWhile (fun e => !stop e)).filter ok).take cap := by
  induction l generalizing cap with
  | nil => cases cap <;> simp [gather]
  | cons e rest ih =>
    cases cap with
    | zero => simp [gather]
    | succ cap =>
      unfold gather
      by_cases hs : stop e = true
      · simp [hs]
      · have hs' : stop e = false := by simpa using hs
        by_cases ho : ok e = true
        · simp [hs', ho, ih]
        · have ho' : ok e = false := by simpa using ho
          simp [hs', ho', ih]

/-- the page record built from `nBoards + 1` collected entries. -/
theorem split_page (V : List Entry) (n : Nat) :
    (if ((V.take (n + 1)).length : Int) = (n : Int) + 1 then
        (⟨(V.take (n + 1)).take n, (V.take (n + 1))[n]?⟩ : Page)
      else ⟨V.take (n + 1), none⟩) = ⟨V.take n, V[n]?⟩ := by
  by_cases h : n + 1 ≤ V.length
  · have : (V.take (n + 1)).length = n + 1 := by simp; omega
    rw [if_pos (by rw [this]; simp)]
    congr 1
    · rw [List.take_take]; congr 1; omega
    · rw [List.getElem?_take]; simp
  · have hl : V.length ≤ n := by omega
    have : (V.take (n + 1)).length = V.length := by simp; omega
    rw [if_neg (by rw [this]; omega)]
    congr 1
    · rw [List.take_of_length_le (by omega), List.take_of_length_le hl]
    · rw [List.getElem?_eq_none hl]

/-- where the `m`-th kept element of a filtered list sits in the list, and what follows it. -/
theorem filter_position (ok : Entry → Bool) (os : List Entry) (m : Nat) (hm : m < (os.filter ok).length) :
    ∃ p, ∃ hp : p < os.length, os[p] = (os.filter ok)[m] ∧ (os.drop p).filter ok = (os.filter ok).drop m := by
  induction os generalizing m with
  | nil => simp at hm
  | cons e rest ih =>
    by_cases ho : ok e = true
    · cases m with
      | zero =>
        refine ⟨0, by simp, ?_, by simp⟩
        simp [List.filter_cons, ho]
      | succ m =>
        have hm' : m < (rest.filter ok).length := by
          simp only [List.filter_cons, ho, if_true, List.length_cons] at hm; omega
        obtain ⟨p, hp, h1, h2⟩ := ih m hm'
        refine ⟨p + 1, by simp; omega, ?_, ?_⟩
        · simp only [List.getElem_cons_succ, h1]
          simp [List.filter_cons, ho]
        · simp only [List.drop_succ_cons, h2]
          simp [List.filter_cons, ho]
    · have ho' : ok e = false := by simpa using ho
      have hm' : m < (rest.filter ok).length := by
        simpa [List.filter_cons, ho'] using hm
      obtain ⟨p, hp, h1, h2⟩ := ih m hm'
      refine ⟨p + 1, by simp; omega, ?_, ?_⟩
      · simp only [List.getElem_cons_succ, h1]
        simp [List.filter_cons, ho']
      · simp only [List.drop_succ_cons, h2]
        simp [List.filter_cons, ho']

/-! ### the client loop -/

/-- if the first page and the page behind every cursor are the corresponding windows of `V`, the walk returns `V`
cut into pages, and ends. -/
theorem walkFrom_pages (load : Option Cursor → R Page) (by_ : SortBy) (V : List Entry) (n : Nat) (hn : 1 ≤ n)
    (H1 : ∀ m (hm : m < V.length), load (some (cursorOf V[m])) = .ok ⟨(V.drop m).take n, (V.drop m)[n]?⟩)
    (Hc : ∀ e ∈ V, ∀ items, nextCursor by_ ⟨items, some e⟩ = some (cursorOf e)) :
    ∀ fuel m c, m ≤ V.length → (V.length - m) + 1 ≤ fuel →
      load c = .ok ⟨(V.drop m).take n, (V.drop m)[n]?⟩ →
      walkFrom load by_ fuel c = .ok (pagesOf n (V.length - m) (V.drop m)) := by
  intro fuel
  induction fuel with
  | zero => intro m c _ hf; omega
  | succ f ih =>
    intro m c hm hf hload
    unfold walkFrom
    rw [hload]
    simp only [bind, Except.bind]
    by_cases hlast : (V.drop m).length ≤ n
    · have hnone : (V.drop m)[n]? = none := List.getElem?_eq_none hlast
      rw [hnone]
      simp only [nextCursor, pure, Except.pure]
      rw [List.take_of_length_le hlast]
      cases hk : V.length - m with
      | zero => simp [pagesOf]
      | succ k => unfold pagesOf; rw [if_pos hlast]
    · have hlen : (V.drop m).length = V.length - m := by simp
      have hmn : m + n < V.length := by omega
      have hsome : (V.drop m)[n]? = some V[m + n] := by
        rw [List.getElem?_drop, List.getElem?_eq_getElem hmn]
      rw [hsome, Hc _ (List.getElem_mem hmn)]
      simp only
      rw [ih (m + n) (some (cursorOf V[m + n])) (by omega) (by omega)
        (by have := H1 (m + n) hmn; exact this)]
      simp only [pure, Except.pure]
      congr 1
      cases hk : V.length - m with
      | zero => omega
      | succ k =>
        have e : pagesOf n (k + 1) (V.drop m) = (V.drop m).take n :: pagesOf n k ((V.drop m).drop n) := by
          rw [pagesOf, if_neg hlast]
        rw [e, List.drop_drop]
        congr 1
        apply pagesOf_fuel n hn
        · simp
        · simp; omega

/-! ### one page of a listing -/

/-- the order in which a listing visits the sorted array. -/
def oriented (es : List Entry) (isAsc : Bool) : List Entry := if isAsc then es else es.reverse

/-- position `p` of the sorted array, as a position of the visiting order. -/
def opos (es : List Entry) (isAsc : Bool) (p : Nat) : Nat := if isAsc then p else es.length - 1 - p

/-- what a page starting at visiting position `k` contains: the listable boards from there up to the first `stop`. -/
def window (es : List Entry) (stop : Entry → Bool) (isAsc : Bool) (k : Nat) : List Entry :=
  (((oriented es isAsc).drop k).takeWhile (fun e => !stop e)).filter listable

theorem pttLoad_at (es : List Entry) (stop : Entry → Bool) (p : Nat) (hp : p < es.length) (n : Nat) (isAsc : Bool) :
    pttLoad es stop (Int.ofNat p + 1) (n : Int) isAsc =
      .ok ⟨(window es stop isAsc (opos es isAsc p)).take n, (window es stop isAsc (opos es isAsc p))[n]?⟩ := by
  unfold pttLoad window opos oriented
  simp only [Int.ofNat_eq_natCast]
  have h1 : ¬ ((p : Int) + 1 = 0 ∧ ¬ isAsc = true) := by omega
  rw [if_neg h1]
  have h2 : ¬ ((n : Int) + 1 < 0) := by omega
  rw [if_neg h2]
  have h3 : ¬ ((p : Int) + 1 - 1 < 0) := by omega
  have h4 : ((p : Int) + 1 - 1).toNat = p := by omega
  have h5 : ((n : Int) + 1).toNat = n + 1 := by omega
  have h6 : ¬ ((n : Int) < 0) := by omega
  have h7 : (n : Int).toNat = n := by omega
  cases isAsc with
  | true =>
    simp only [if_true, h3, if_false, bind, Except.bind, pure, Except.pure, h4, h5, h6, h7]
    rw [gather_eq]
    have := split_page (((es.drop p).takeWhile (fun e => !stop e)).filter listable) n
    rw [← this]; split <;> rfl
  | false =>
    simp only [Bool.false_eq_true, if_false, h3, bind, Except.bind, pure, Except.pure, h4, h5, h6, h7]
    rw [gather_eq, downFrom_eq es p hp]
    have := split_page (((es.reverse.drop (es.length - 1 - p)).takeWhile (fun e => !stop e)).filter listable) n
    rw [← this]; split <;> rfl

/-- the first page (`startIdxStr == ""`: start 1 ascending, 0 = "from the last" descending). -/
theorem pttLoad_first (es : List Entry) (stop : Entry → Bool) (n : Nat) (isAsc : Bool) :
    pttLoad es stop (if isAsc then 1 else 0) (n : Int) isAsc =
      .ok ⟨(window es stop isAsc 0).take n, (window es stop isAsc 0)[n]?⟩ := by
  cases hes : es with
  | nil =>
    have h2 : ¬ ((n : Int) + 1 < 0) := by omega
    have h0 : ¬ ((0 : Int) = (n : Int) + 1) := by omega
    cases isAsc
    · simp [pttLoad, window, oriented, gather, h2, h0]; rfl
    · simp [pttLoad, window, oriented, gather, h2, h0]; rfl
  | cons e0 rest =>
    rw [← hes]
    have hl : 0 < es.length := by rw [hes]; simp
    cases isAsc with
    | true =>
      have := pttLoad_at es stop 0 hl n true
      simp only [opos, if_true] at this
      simpa using this
    | false =>
      have := pttLoad_at es stop (es.length - 1) (by omega) n false
      simp only [opos, Bool.false_eq_true, if_false] at this
      have e : es.length - 1 - (es.length - 1) = 0 := by omega
      rw [e] at this
      rw [← this]
      have e1 : (if (if false = true then (1 : Int) else 0) = 0 ∧ ¬ false = true then Int.ofNat es.length
          else if false = true then 1 else 0) = Int.ofNat es.length := by simp
      have e2 : (if Int.ofNat (es.length - 1) + 1 = 0 ∧ ¬ false = true then Int.ofNat es.length
          else Int.ofNat (es.length - 1) + 1) = Int.ofNat es.length := by
        simp only [Int.ofNat_eq_natCast]; split <;> omega
      unfold pttLoad
      simp only [e1, e2]

/-! ### following the cursors -/

theorem findIdx_self (maxBoard : Nat) (cmp : Entry → M Int) (c : Entry → Int) (hc : ∀ e, cmp e = .ok (c e))
    (es : List Entry) (Mn : Mono c es) (hv : ∀ e ∈ es, e.bid + 1 ≤ maxBoard) (U : Unique0 c es)
    (p : Nat) (hp : p < es.length) (h0 : c es[p] = 0) (isAsc : Bool) :
    findIdx maxBoard cmp es isAsc = .ok (Int.ofNat p + 1) := by
  obtain ⟨r, hr, h⟩ := findIdx_post maxBoard cmp c hc es Mn hv isAsc
  rw [hr]
  rcases h with ⟨i, hi, rfl, hi0⟩ | ⟨hnz, _⟩
  · rw [U i p hi hp hi0 h0]
  · exact absurd h0 (hnz _ (List.getElem_mem hp))

theorem takeWhile_drop {α : Type} (q : α → Bool) (l : List α) (j : Nat) (hj : j ≤ (l.takeWhile q).length) :
    (l.drop j).takeWhile q = (l.takeWhile q).drop j := by
  induction l generalizing j with
  | nil => simp
  | cons a rest ih =>
    cases j with
    | zero => simp
    | succ j =>
      by_cases ha : q a = true
      · simp only [List.takeWhile_cons, ha, if_true, List.length_cons] at hj ⊢
        simp only [List.drop_succ_cons]
        exact ih j (by omega)
      · simp [List.takeWhile_cons, ha] at hj

/-- the window behind the `m`-th entry of a window. -/
theorem window_shift (es : List Entry) (stop : Entry → Bool) (isAsc : Bool) (k0 m : Nat)
    (hm : m < (window es stop isAsc k0).length) :
    ∃ p', ∃ hp' : p' < (oriented es isAsc).length, (oriented es isAsc)[p'] = (window es stop isAsc k0)[m] ∧
      window es stop isAsc p' = (window es stop isAsc k0).drop m := by
  unfold window at hm ⊢
  generalize hos : oriented es isAsc = os at hm ⊢
  obtain ⟨j, hj, h1, h2⟩ := filter_position listable ((os.drop k0).takeWhile (fun e => !stop e)) m hm
  have hjl : j < (os.drop k0).length := Nat.lt_of_lt_of_le hj (List.takeWhile_sublist _).length_le
  have hkj : k0 + j < os.length := by simp at hjl; omega
  refine ⟨k0 + j, hkj, ?_, ?_⟩
  · rw [← h1, (List.takeWhile_prefix (fun e => !stop e)).getElem hj]
    simp
  · rw [← h2, ← takeWhile_drop _ _ j (Nat.le_of_lt hj), List.drop_drop]

theorem liftM_ok {α : Type} (x : M α) (a : α) (h : x = .ok a) : liftM x = .ok a := by rw [h]; rfl

/-- a listing whose first page is the window at visiting position `k0`, and whose page behind the cursor of the
entry at sorted position `p` is `pttLoad` from `p + 1`, pages through exactly that window. -/
theorem walk_listing (es : List Entry) (stop : Entry → Bool) (load : Option Cursor → R Page) (by_ : SortBy)
    (isAsc : Bool) (n : Nat) (hn : 1 ≤ n) (k0 : Nat)
    (hfirst : load none = .ok ⟨(window es stop isAsc k0).take n, (window es stop isAsc k0)[n]?⟩)
    (hat : ∀ p (hp : p < es.length), listable es[p] = true →
      load (some (cursorOf es[p])) = liftM (pttLoad es stop (Int.ofNat p + 1) (n : Int) isAsc))
    (Hc : ∀ e ∈ es, listable e = true → ∀ items, nextCursor by_ ⟨items, some e⟩ = some (cursorOf e)) :
    walkFrom load by_ (walkFuel es.length) none =
      .ok (pagesOf n (window es stop isAsc k0).length (window es stop isAsc k0)) := by
  generalize hV : window es stop isAsc k0 = V at hfirst ⊢
  have hsub : ∀ e ∈ V, e ∈ es ∧ listable e = true := by
    intro e he
    rw [← hV] at he
    unfold window at he
    have h1 := List.mem_filter.mp he
    refine ⟨?_, h1.2⟩
    have h2 := List.mem_of_mem_drop ((List.takeWhile_sublist _).subset h1.1)
    unfold oriented at h2
    split at h2
    · exact h2
    · exact List.mem_reverse.mp h2
  have hlen : V.length ≤ es.length := by
    rw [← hV]
    unfold window
    calc _ ≤ ((oriented es isAsc).drop k0 |>.takeWhile (fun e => !stop e)).length := List.length_filter_le _ _
      _ ≤ ((oriented es isAsc).drop k0).length := (List.takeWhile_sublist _).length_le
      _ ≤ (oriented es isAsc).length := by simp
      _ = es.length := by unfold oriented; split <;> simp
  have := walkFrom_pages load by_ V n hn ?_ ?_ (walkFuel es.length) 0 none (Nat.zero_le _)
    (by unfold walkFuel; omega) (by simpa using hfirst)
  · simpa using this
  · -- the page behind the cursor of `V[m]`
    intro m hm
    have hm' : m < (window es stop isAsc k0).length := by rw [hV]; exact hm
    obtain ⟨p', hp', h1, h2⟩ := window_shift es stop isAsc k0 m hm'
    have hVm : (window es stop isAsc k0)[m] = V[m] := by simp [hV]
    rw [hVm] at h1
    rw [hV] at h2
    have hos : (oriented es isAsc).length = es.length := by unfold oriented; split <;> simp
    -- the sorted position of that entry
    obtain ⟨p, hp, hpe, hop⟩ : ∃ p, ∃ hp : p < es.length, es[p] = V[m] ∧ opos es isAsc p = p' := by
      cases isAsc with
      | true =>
        refine ⟨p', by simpa [oriented] using hp', ?_, by simp [opos]⟩
        simpa [oriented] using h1
      | false =>
        have hp2 : p' < es.length := by simpa [oriented] using hp'
        refine ⟨es.length - 1 - p', by omega, ?_, by simp [opos]; omega⟩
        have : (oriented es false)[p'] = es[es.length - 1 - p'] := by
          simp only [oriented, Bool.false_eq_true, if_false]
          rw [List.getElem_reverse]
        rw [← this]; exact h1
    have hl := (hsub _ (List.getElem_mem hm)).2
    rw [← hpe] at hl ⊢
    rw [hat p hp hl, liftM_ok _ _ (pttLoad_at es stop p hp n isAsc), hop, h2]
  · intro e he items
    exact Hc e (hsub e he).1 (hsub e he).2 items

end PttVerif.C11
