import PttVerif.Model.C17
/-
C17 — helper lemmas: the loops equal their closed forms, bit arithmetic of the hand encoder,
well-formed UTF-8, the Go map as "last row wins".
-/
namespace PttVerif.C17
open PttVerif Std

set_option linter.unusedVariables false

/-! ### loops -/

theorem b2uBody_cons (b2u : Table) (a : Nat) (rest out : Bytes) :
    b2uBody b2u (a :: rest) out =
      if a < 0x80 then .ok (.next rest (out ++ [a]))
      else match rest with
        | [] => .ok (.stop out)
        | b :: r => .ok (.next r (out ++ (b2u [a, b]).getD [])) := by
  unfold b2uBody
  cases rest with
  | nil => simp [idx, sliceFrom, slice, bind, Except.bind, pure, Except.pure]
  | cons b r =>
    have : ¬ (r.length + 1 + 1 < 2) := by omega
    simp [idx, sliceFrom, slice, bind, Except.bind, pure, Except.pure, this]

@[simp] theorem b2uSpec_nil (b2u : Table) : b2uSpec b2u [] = [] := by rw [b2uSpec]
theorem b2uSpec_ascii (b2u : Table) (a : Nat) (rest : Bytes) (h : a < 0x80) :
    b2uSpec b2u (a :: rest) = a :: b2uSpec b2u rest := by
  conv => lhs; rw [b2uSpec.eq_def]
  simp [h]
theorem b2uSpec_lone (b2u : Table) (a : Nat) (h : ¬ a < 0x80) : b2uSpec b2u [a] = [] := by
  rw [b2uSpec]; simp [h]
theorem b2uSpec_pair (b2u : Table) (a b : Nat) (rest : Bytes) (h : ¬ a < 0x80) :
    b2uSpec b2u (a :: b :: rest) = (b2u [a, b]).getD [] ++ b2uSpec b2u rest := by
  rw [b2uSpec]; simp [h]

theorem goFor_b2u (b2u : Table) : ∀ (fuel : Nat) (p out : Bytes), p.length < fuel →
    goFor (b2uBody b2u) fuel p out = .ok (out ++ b2uSpec b2u p) := by
  intro fuel
  induction fuel with
  | zero => intro p out h; omega
  | succ n ih =>
    intro p out h
    cases p with
    | nil => simp [goFor]
    | cons a rest =>
      simp only [goFor, List.length_cons, Nat.zero_lt_succ, if_true, b2uBody_cons]
      by_cases ha : a < 0x80
      · simp only [ha, if_true]
        rw [ih rest _ (by simp at h; omega), b2uSpec_ascii _ _ _ ha]
        simp
      · simp only [ha, if_false]
        cases rest with
        | nil => simp [b2uSpec_lone _ _ ha]
        | cons b r =>
          simp only
          rw [ih r _ (by simp at h; omega), b2uSpec_pair _ _ _ _ ha]
          simp

theorem u2bBody_cons (u2b : Table) (c : Nat) (rest out : Bytes) :
    u2bBody u2b (c :: rest) out =
      if c < 0x80 then .ok (.next rest (out ++ [c]))
      else if rest.length ≥ 1 ∧ c &&& 0xe0 = 0xc0 then
        .ok (.next (rest.drop 1) (out ++ (u2b (c :: rest.take 1)).getD repl))
      else if rest.length ≥ 2 ∧ c &&& 0xf0 = 0xe0 then
        .ok (.next (rest.drop 2) (out ++ (u2b (c :: rest.take 2)).getD repl))
      else .ok (.next rest (out ++ repl)) := by
  unfold u2bBody
  simp only [idx, sliceFrom, slice, bind, Except.bind, pure, Except.pure, List.length_cons, List.getElem?_cons_zero]
  by_cases h0 : c < 0x80
  · simp [h0]
  · simp only [h0, if_false]
    by_cases h1 : rest.length ≥ 1 ∧ c &&& 0xe0 = 0xc0
    · have : rest.length + 1 ≥ 2 ∧ c &&& 0xe0 = 0xc0 := ⟨by omega, h1.2⟩
      have h2 : 2 ≤ rest.length + 1 := by omega
      simp [h1, this]
    · have : ¬ (rest.length + 1 ≥ 2 ∧ c &&& 0xe0 = 0xc0) := by
        intro h; exact h1 ⟨by omega, h.2⟩
      simp only [h1, this, if_false]
      by_cases h3 : rest.length ≥ 2 ∧ c &&& 0xf0 = 0xe0
      · have : rest.length + 1 ≥ 3 ∧ c &&& 0xf0 = 0xe0 := ⟨by omega, h3.2⟩
        have h2 : 3 ≤ rest.length + 1 := by omega
        simp [h3, this]
      · have : ¬ (rest.length + 1 ≥ 3 ∧ c &&& 0xf0 = 0xe0) := by
          intro h; exact h3 ⟨by omega, h.2⟩
        simp [h3]

theorem u2bSpec_cons (u2b : Table) (c : Nat) (rest : Bytes) :
    u2bSpec u2b (c :: rest) =
      if c < 0x80 then c :: u2bSpec u2b rest
      else if rest.length ≥ 1 ∧ c &&& 0xe0 = 0xc0 then
        (u2b (c :: rest.take 1)).getD repl ++ u2bSpec u2b (rest.drop 1)
      else if rest.length ≥ 2 ∧ c &&& 0xf0 = 0xe0 then
        (u2b (c :: rest.take 2)).getD repl ++ u2bSpec u2b (rest.drop 2)
      else repl ++ u2bSpec u2b rest := by
  rw [u2bSpec]

@[simp] theorem u2bSpec_nil (u2b : Table) : u2bSpec u2b [] = [] := by rw [u2bSpec]

theorem goFor_u2b (u2b : Table) : ∀ (fuel : Nat) (p out : Bytes), p.length < fuel →
    goFor (u2bBody u2b) fuel p out = .ok (out ++ u2bSpec u2b p) := by
  intro fuel
  induction fuel with
  | zero => intro p out h; omega
  | succ n ih =>
    intro p out h
    cases p with
    | nil => simp [goFor]
    | cons c rest =>
      simp only [List.length_cons] at h
      simp only [goFor, List.length_cons, Nat.zero_lt_succ, if_true, u2bBody_cons, u2bSpec_cons]
      by_cases h0 : c < 0x80
      · simp only [h0, if_true]; rw [ih rest _ (by omega)]; simp
      · simp only [h0, if_false]
        by_cases h1 : rest.length ≥ 1 ∧ c &&& 0xe0 = 0xc0
        · simp only [h1, and_self, if_true]; rw [ih _ _ (by simp; omega)]; simp
        · simp only [h1, if_false]
          by_cases h2 : rest.length ≥ 2 ∧ c &&& 0xf0 = 0xe0
          · simp only [h2, and_self, if_true]; rw [ih _ _ (by simp; omega)]; simp
          · simp only [h2, if_false]; rw [ih rest _ (by omega)]; simp

theorem or192 : ∀ x, x < 32 → 192 ||| x = 192 + x := by decide
theorem or128 : ∀ x, x < 64 → 128 ||| x = 128 + x := by decide
theorem or224 : ∀ x, x < 16 → 224 ||| x = 224 + x := by decide

theorem and63 (x : Nat) : x &&& 63 = x % 64 := Nat.and_two_pow_sub_one_eq_mod x 6

theorem andF800 (cp : Nat) (h : cp < 0x10000) : (cp &&& 0xF800 = 0) ↔ cp < 0x800 := by
  have hd : (cp &&& 0xF800) / 2 ^ 11 = cp / 2 ^ 11 := by
    rw [Nat.and_div_two_pow]
    have : cp / 2 ^ 11 < 2 ^ 5 := by omega
    exact Nat.and_two_pow_sub_one_of_lt_two_pow this
  have hm : (cp &&& 0xF800) % 2 ^ 11 = 0 := by
    rw [Nat.and_mod_two_pow]; simp
  constructor
  · intro h0; rw [h0] at hd; simp at hd; omega
  · intro hlt
    have : cp / 2 ^ 11 = 0 := by omega
    rw [this] at hd
    omega

theorem encodeUcs2_two (cp : Nat) (h1 : 0x80 ≤ cp) (h2 : cp < 0x800) :
    encodeUcs2 cp = [192 + cp / 64, 128 + cp % 64] := by
  unfold encodeUcs2
  have h7 : ¬ (cp >>> 7 = 0) := by rw [Nat.shiftRight_eq_div_pow]; omega
  have hF : cp &&& 0xF800 = 0 := (andF800 cp (by omega)).2 h2
  simp only [h7, hF, if_true, if_false]
  rw [Nat.shiftRight_eq_div_pow, and63, or192 _ (by omega), or128 _ (by omega)]
  congr 1
  · omega
  · congr 1; omega

theorem encodeUcs2_three (cp : Nat) (h1 : 0x800 ≤ cp) (h2 : cp < 0x10000) :
    encodeUcs2 cp = [224 + cp / 4096, 128 + cp / 64 % 64, 128 + cp % 64] := by
  unfold encodeUcs2
  have h7 : ¬ (cp >>> 7 = 0) := by rw [Nat.shiftRight_eq_div_pow]; omega
  have hF : ¬ (cp &&& 0xF800 = 0) := fun h => by have := (andF800 cp h2).1 h; omega
  simp only [h7, hF, if_false]
  rw [Nat.shiftRight_eq_div_pow, Nat.shiftRight_eq_div_pow, and63, and63, or224 _ (by omega), or128 _ (by omega),
    or128 _ (by omega)]
  congr 1
  · omega
  · congr 1
    · omega
    · congr 1; omega

theorem validUtf8_cons (a : Nat) (rest : Bytes) : validUtf8 (a :: rest) =
    if a < 0x80 then validUtf8 rest
    else if 0xC2 ≤ a ∧ a ≤ 0xDF then
      match rest with
      | b :: r => isCont b && validUtf8 r
      | _ => false
    else if 0xE0 ≤ a ∧ a ≤ 0xEF then
      match rest with
      | b :: c :: r =>
        isCont b && isCont c && (a != 0xE0 || decide (0xA0 ≤ b)) && (a != 0xED || decide (b ≤ 0x9F)) && validUtf8 r
      | _ => false
    else if 0xF0 ≤ a ∧ a ≤ 0xF4 then
      match rest with
      | b :: c :: d :: r =>
        isCont b && isCont c && isCont d && (a != 0xF0 || decide (0x90 ≤ b)) && (a != 0xF4 || decide (b ≤ 0x8F)) && validUtf8 r
      | _ => false
    else false := by
  conv => lhs; rw [validUtf8.eq_def]
  rfl

theorem isCont_add (x : Nat) (h : x < 64) : isCont (128 + x) = true := by
  simp [isCont]; omega

theorem validUtf8_utf8enc_append (cp : Nat) (rest : Bytes) (h : cp < 0x110000) (hs : isSurrogate cp = false) :
    validUtf8 (utf8enc cp ++ rest) = validUtf8 rest := by
  have hs' : ¬ (0xD800 ≤ cp ∧ cp ≤ 0xDFFF) := by
    simpa [isSurrogate] using hs
  unfold utf8enc
  by_cases h1 : cp < 0x80
  · simp [h1, validUtf8_cons]
  · by_cases h2 : cp < 0x800
    · have ha : ¬ (192 + cp / 64 < 128) := by omega
      have hb : 194 ≤ 192 + cp / 64 ∧ 192 + cp / 64 ≤ 223 := by omega
      simp [h1, h2, validUtf8_cons, ha, hb, isCont_add (cp % 64) (by omega)]
    · by_cases h3 : cp < 0x10000
      · have ha : ¬ (224 + cp / 4096 < 128) := by omega
        have hb : ¬ (194 ≤ 224 + cp / 4096 ∧ 224 + cp / 4096 ≤ 223) := by omega
        have hc : 224 ≤ 224 + cp / 4096 ∧ 224 + cp / 4096 ≤ 239 := by omega
        have hd : (224 + cp / 4096 != 224 || decide (160 ≤ 128 + cp / 64 % 64)) = true := by
          simp; omega
        have he : (224 + cp / 4096 != 237 || decide (128 + cp / 64 % 64 ≤ 159)) = true := by
          simp; omega
        simp [h1, h2, h3, validUtf8_cons, ha, hb, hc, hd, he, isCont_add (cp % 64) (by omega),
          isCont_add (cp / 64 % 64) (by omega)]
      · have ha : ¬ (240 + cp / 262144 % 8 < 128) := by omega
        have hb : ¬ (194 ≤ 240 + cp / 262144 % 8 ∧ 240 + cp / 262144 % 8 ≤ 223) := by omega
        have hc : ¬ (224 ≤ 240 + cp / 262144 % 8 ∧ 240 + cp / 262144 % 8 ≤ 239) := by omega
        have hc' : 240 ≤ 240 + cp / 262144 % 8 ∧ 240 + cp / 262144 % 8 ≤ 244 := by omega
        have hd : (240 + cp / 262144 % 8 != 240 || decide (144 ≤ 128 + cp / 4096 % 64)) = true := by
          simp; omega
        have he : (240 + cp / 262144 % 8 != 244 || decide (128 + cp / 4096 % 64 ≤ 143)) = true := by
          simp; omega
        simp [h1, h2, h3, validUtf8_cons, ha, hb, hc, hc', hd, he, isCont_add (cp % 64) (by omega),
          isCont_add (cp / 64 % 64) (by omega), isCont_add (cp / 4096 % 64) (by omega)]

theorem validUtf8_surrogate (cp : Nat) (hs : isSurrogate cp = true) : validUtf8 (utf8enc cp) = false := by
  have hs' : 0xD800 ≤ cp ∧ cp ≤ 0xDFFF := by simpa [isSurrogate] using hs
  unfold utf8enc
  have h1 : ¬ cp < 0x80 := by omega
  have h2 : ¬ cp < 0x800 := by omega
  have h3 : cp < 0x10000 := by omega
  have e1 : cp / 4096 = 13 := by omega
  simp [h1, h2, h3, validUtf8_cons, e1]
  omega

theorem validUtf8_append : ∀ (n : Nat) (a b : Bytes), a.length ≤ n → validUtf8 a = true → validUtf8 b = true →
    validUtf8 (a ++ b) = true := by
  intro n
  induction n with
  | zero =>
    intro a b h ha hb
    have : a = [] := by cases a <;> simp_all
    subst this; simpa using hb
  | succ n ih =>
    intro a b h ha hb
    match a, h, ha with
    | [], _, _ => simpa using hb
    | x :: rest, h, ha =>
      simp only [List.length_cons] at h
      rw [validUtf8_cons] at ha
      rw [List.cons_append, validUtf8_cons]
      by_cases h1 : x < 0x80
      · simp only [h1, if_true] at ha ⊢
        exact ih rest b (by omega) ha hb
      · simp only [h1, if_false] at ha ⊢
        by_cases h2 : 0xC2 ≤ x ∧ x ≤ 0xDF
        · simp only [h2, and_self, if_true] at ha ⊢
          match rest, h, ha with
          | [], _, ha => simp at ha
          | y :: r, h, ha =>
            simp only [Bool.and_eq_true, List.cons_append] at ha ⊢
            simp only [List.length_cons] at h
            exact ⟨ha.1, ih r b (by omega) ha.2 hb⟩
        · simp only [h2, if_false] at ha ⊢
          by_cases h3 : 0xE0 ≤ x ∧ x ≤ 0xEF
          · simp only [h3, and_self, if_true] at ha ⊢
            match rest, h, ha with
            | [], _, ha => simp at ha
            | [_], _, ha => simp at ha
            | y :: z :: r, h, ha =>
              simp only [Bool.and_eq_true, List.cons_append] at ha ⊢
              simp only [List.length_cons] at h
              exact ⟨ha.1, ih r b (by omega) ha.2 hb⟩
          · simp only [h3, if_false] at ha ⊢
            by_cases h4 : 0xF0 ≤ x ∧ x ≤ 0xF4
            · simp only [h4, and_self, if_true] at ha ⊢
              match rest, h, ha with
              | [], _, ha => simp at ha
              | [_], _, ha => simp at ha
              | [_, _], _, ha => simp at ha
              | y :: z :: w :: r, h, ha =>
                simp only [Bool.and_eq_true, List.cons_append] at ha ⊢
                simp only [List.length_cons] at h
                exact ⟨ha.1, ih r b (by omega) ha.2 hb⟩
            · simp [h4] at ha

theorem foldl_insert_get (kf vf : Row → Bytes) : ∀ (rows : List Row) (m0 : GoMap) (k : Bytes),
    (rows.foldl (fun m r => m.insert (kf r) (vf r)) m0)[k]? =
      match rows.reverse.find? (fun r => kf r == k) with
      | some r => some (vf r)
      | none => m0[k]? := by
  intro rows
  induction rows with
  | nil => intro m0 k; simp
  | cons r rs ih =>
    intro m0 k
    simp only [List.foldl_cons, List.reverse_cons, List.find?_append]
    rw [ih]
    cases hf : rs.reverse.find? (fun r => kf r == k) with
    | some r' => simp
    | none =>
      simp only [Option.none_or, List.find?_cons, List.find?_nil]
      rw [HashMap.getElem?_insert]
      by_cases hk : kf r == k
      · simp [hk]
      · simp [hk]

/-- the code point of the last row with Big5 key `k` (a later row overwrites an earlier one). -/
def lastByKey (rows : List Row) (k : Bytes) : Option Nat :=
  (rows.reverse.find? (fun r => r.1 == k)).map (·.2)

/-- the Big5 bytes of the last row whose code point encodes to `u`. -/
def lastByUtf8 (rows : List Row) (u : Bytes) : Option Bytes :=
  (rows.reverse.find? (fun r => encodeUcs2 r.2 == u)).map (·.1)

theorem tableOf_b2uMap (rows : List Row) (k : Bytes) :
    tableOf (b2uMap rows) k = (lastByKey rows k).map encodeUcs2 := by
  unfold tableOf b2uMap lastByKey
  rw [foldl_insert_get (fun r => r.1) (fun r => encodeUcs2 r.2)]
  cases rows.reverse.find? (fun r => r.1 == k) <;> simp

theorem tableOf_u2bMap (rows : List Row) (u : Bytes) :
    tableOf (u2bMap rows) u = lastByUtf8 rows u := by
  unfold tableOf u2bMap lastByUtf8
  rw [foldl_insert_get (fun r => encodeUcs2 r.2) (fun r => r.1)]
  cases rows.reverse.find? (fun r => encodeUcs2 r.2 == u) <;> simp

set_option maxRecDepth 4000 in
theorem lead2_iff : ∀ c, c < 256 → (c &&& 0xe0 = 0xc0 ↔ (0xC0 ≤ c ∧ c < 0xE0)) := by decide
set_option maxRecDepth 4000 in
theorem lead3_iff : ∀ c, c < 256 → (c &&& 0xf0 = 0xe0 ↔ (0xE0 ≤ c ∧ c < 0xF0)) := by decide

theorem u2bSpec_ascii (u2b : Table) (c : Nat) (rest : Bytes) (h : c < 0x80) :
    u2bSpec u2b (c :: rest) = c :: u2bSpec u2b rest := by
  rw [u2bSpec_cons]; simp [h]

theorem u2bSpec_two (u2b : Table) (c d : Nat) (rest : Bytes) (h1 : 0xC0 ≤ c) (h2 : c < 0xE0) :
    u2bSpec u2b (c :: d :: rest) = (u2b [c, d]).getD repl ++ u2bSpec u2b rest := by
  rw [u2bSpec_cons]
  have h0 : ¬ c < 0x80 := by omega
  have hl := (lead2_iff c (by omega)).2 ⟨h1, h2⟩
  simp [h0, hl]

theorem u2bSpec_three (u2b : Table) (c d e : Nat) (rest : Bytes) (h1 : 0xE0 ≤ c) (h2 : c < 0xF0) :
    u2bSpec u2b (c :: d :: e :: rest) = (u2b [c, d, e]).getD repl ++ u2bSpec u2b rest := by
  rw [u2bSpec_cons]
  have h0 : ¬ c < 0x80 := by omega
  have hl : ¬ (c &&& 0xe0 = 0xc0) := fun h => by have := (lead2_iff c (by omega)).1 h; omega
  have hl3 := (lead3_iff c (by omega)).2 ⟨h1, h2⟩
  simp [h0, hl, hl3]

/-- a byte that is neither ASCII nor a 2- or 3-byte lead: continuation bytes 80..BF and F0..FF. -/
theorem u2bSpec_bad (u2b : Table) (c : Nat) (rest : Bytes) (h : (0x80 ≤ c ∧ c < 0xC0) ∨ (0xF0 ≤ c ∧ c < 256)) :
    u2bSpec u2b (c :: rest) = repl ++ u2bSpec u2b rest := by
  rw [u2bSpec_cons]
  have h0 : ¬ c < 0x80 := by omega
  have hl : ¬ (c &&& 0xe0 = 0xc0) := fun h' => by have := (lead2_iff c (by omega)).1 h'; omega
  have hl3 : ¬ (c &&& 0xf0 = 0xe0) := fun h' => by have := (lead3_iff c (by omega)).1 h'; omega
  simp [h0, hl, hl3]

/-- a 2-byte lead that is the last byte. -/
theorem u2bSpec_trunc2 (u2b : Table) (c : Nat) (h1 : 0xC0 ≤ c) (h2 : c < 0xE0) :
    u2bSpec u2b [c] = repl := by
  rw [u2bSpec_cons]
  have h0 : ¬ c < 0x80 := by omega
  have hl3 : ¬ (c &&& 0xf0 = 0xe0) := fun h' => by have := (lead3_iff c (by omega)).1 h'; omega
  simp [h0, hl3]

/-- a 3-byte lead with fewer than two bytes after it. -/
theorem u2bSpec_trunc3 (u2b : Table) (c : Nat) (rest : Bytes) (h1 : 0xE0 ≤ c) (h2 : c < 0xF0) (hr : rest.length < 2) :
    u2bSpec u2b (c :: rest) = repl ++ u2bSpec u2b rest := by
  rw [u2bSpec_cons]
  have h0 : ¬ c < 0x80 := by omega
  have hl : ¬ (c &&& 0xe0 = 0xc0) := fun h' => by have := (lead2_iff c (by omega)).1 h'; omega
  have hr' : ¬ rest.length ≥ 2 := by omega
  simp [h0, hl, hr']

theorem utf8enc_two (cp : Nat) (h1 : 0x80 ≤ cp) (h2 : cp < 0x800) : utf8enc cp = [192 + cp / 64, 128 + cp % 64] := by
  unfold utf8enc; simp [show ¬ cp < 0x80 by omega, h2]
theorem utf8enc_three (cp : Nat) (h1 : 0x800 ≤ cp) (h2 : cp < 0x10000) :
    utf8enc cp = [224 + cp / 4096, 128 + cp / 64 % 64, 128 + cp % 64] := by
  unfold utf8enc; simp [show ¬ cp < 0x80 by omega, show ¬ cp < 0x800 by omega, h2]

theorem utf8enc_injective (cp cp' : Nat) (h1 : 0x80 ≤ cp) (h2 : cp < 0x10000) (h1' : 0x80 ≤ cp') (h2' : cp' < 0x10000)
    (e : utf8enc cp = utf8enc cp') : cp = cp' := by
  by_cases a : cp < 0x800 <;> by_cases a' : cp' < 0x800
  · rw [utf8enc_two cp h1 a, utf8enc_two cp' h1' a'] at e
    simp at e; omega
  · rw [utf8enc_two cp h1 a, utf8enc_three cp' (by omega) h2'] at e
    simp at e
  · rw [utf8enc_three cp (by omega) h2, utf8enc_two cp' h1' a'] at e
    simp at e
  · rw [utf8enc_three cp (by omega) h2, utf8enc_three cp' (by omega) h2'] at e
    simp at e; omega

/-- the converter's image of one encoded BMP code point followed by anything. -/
theorem u2bSpec_utf8enc (u2b : Table) (cp : Nat) (rest : Bytes) (h1 : 0x80 ≤ cp) (h2 : cp < 0x10000) :
    u2bSpec u2b (utf8enc cp ++ rest) = (u2b (utf8enc cp)).getD repl ++ u2bSpec u2b rest := by
  by_cases a : cp < 0x800
  · rw [utf8enc_two cp h1 a]
    exact u2bSpec_two u2b _ _ rest (by omega) (by omega)
  · rw [utf8enc_three cp (by omega) h2]
    exact u2bSpec_three u2b _ _ _ rest (by omega) (by omega)

/-! ### unit boundaries: the scanners are compositional -/

/-- `pre` ends at a unit boundary of the Big5 scanner (no lead byte left dangling at the end). -/
def b2uAligned : Bytes → Bool
  | [] => true
  | a :: rest =>
    if a < 0x80 then b2uAligned rest
    else match rest with
      | [] => false
      | _ :: r => b2uAligned r

/-- `pre` ends at a unit boundary of the UTF-8 scanner: every 2- or 3-byte lead has its bytes inside `pre`. -/
def u2bAligned : Bytes → Bool
  | [] => true
  | c :: rest =>
    if c < 0x80 then u2bAligned rest
    else if c &&& 0xe0 = 0xc0 then decide (rest.length ≥ 1) && u2bAligned (rest.drop 1)
    else if c &&& 0xf0 = 0xe0 then decide (rest.length ≥ 2) && u2bAligned (rest.drop 2)
    else u2bAligned rest
termination_by s => s.length
decreasing_by all_goals (simp; try omega)

theorem b2uAligned_cons (a : Nat) (rest : Bytes) : b2uAligned (a :: rest) =
    if a < 0x80 then b2uAligned rest
    else match rest with
      | [] => false
      | _ :: r => b2uAligned r := by
  conv => lhs; rw [b2uAligned.eq_def]
  rfl

theorem b2uSpec_append_aux (b2u : Table) : ∀ (n : Nat) (pre post : Bytes), pre.length ≤ n → b2uAligned pre = true →
    b2uSpec b2u (pre ++ post) = b2uSpec b2u pre ++ b2uSpec b2u post := by
  intro n
  induction n with
  | zero =>
    intro pre post h _
    have : pre = [] := by cases pre <;> simp_all
    subst this; simp
  | succ n ih =>
    intro pre post h hal
    match pre, h, hal with
    | [], _, _ => simp
    | a :: rest, h, hal =>
      simp only [List.length_cons] at h
      rw [b2uAligned_cons] at hal
      by_cases ha : a < 0x80
      · simp only [ha, if_true] at hal
        rw [List.cons_append, b2uSpec_ascii _ _ _ ha, b2uSpec_ascii _ _ _ ha, ih rest post (by omega) hal]
        simp
      · simp only [ha, if_false] at hal
        match rest, h, hal with
        | [], _, hal => simp at hal
        | b :: r, h, hal =>
          simp only [List.length_cons] at h
          simp only at hal
          rw [List.cons_append, List.cons_append, b2uSpec_pair _ _ _ _ ha, b2uSpec_pair _ _ _ _ ha,
            ih r post (by omega) hal]
          simp

theorem u2bAligned_cons (c : Nat) (rest : Bytes) : u2bAligned (c :: rest) =
    if c < 0x80 then u2bAligned rest
    else if c &&& 0xe0 = 0xc0 then decide (rest.length ≥ 1) && u2bAligned (rest.drop 1)
    else if c &&& 0xf0 = 0xe0 then decide (rest.length ≥ 2) && u2bAligned (rest.drop 2)
    else u2bAligned rest := by
  rw [u2bAligned]

theorem u2bSpec_append_aux (u2b : Table) : ∀ (n : Nat) (pre post : Bytes), pre.length ≤ n → u2bAligned pre = true →
    u2bSpec u2b (pre ++ post) = u2bSpec u2b pre ++ u2bSpec u2b post := by
  intro n
  induction n with
  | zero =>
    intro pre post h _
    have : pre = [] := by cases pre <;> simp_all
    subst this; simp
  | succ n ih =>
    intro pre post h hal
    match pre, h, hal with
    | [], _, _ => simp
    | c :: rest, h, hal =>
      simp only [List.length_cons] at h
      rw [u2bAligned_cons] at hal
      rw [List.cons_append, u2bSpec_cons, u2bSpec_cons]
      by_cases h0 : c < 0x80
      · simp only [h0, if_true] at hal ⊢
        rw [ih rest post (by omega) hal]; simp
      · simp only [h0, if_false] at hal ⊢
        by_cases h1 : c &&& 0xe0 = 0xc0
        · simp only [h1, if_true, Bool.and_eq_true, decide_eq_true_eq] at hal
          have hl : rest.length ≥ 1 := hal.1
          have hl' : (rest ++ post).length ≥ 1 := by simp; omega
          simp only [h1, hl, hl', and_self, if_true]
          rw [List.take_append_of_le_length hl, List.drop_append_of_le_length hl,
            ih _ post (by simp; omega) hal.2]
          simp
        · simp only [h1, if_false, and_false] at hal ⊢
          by_cases h2 : c &&& 0xf0 = 0xe0
          · simp only [h2, if_true, Bool.and_eq_true, decide_eq_true_eq] at hal
            have hl : rest.length ≥ 2 := hal.1
            have hl' : (rest ++ post).length ≥ 2 := by simp; omega
            simp only [h2, hl, hl', and_self, if_true]
            rw [List.take_append_of_le_length hl, List.drop_append_of_le_length hl,
              ih _ post (by simp; omega) hal.2]
            simp
          · simp only [h2, if_false, and_false] at hal ⊢
            rw [ih rest post (by omega) hal]; simp

/-! ### tables -/

/-- every value of the table is well-formed UTF-8. -/
def TableValid (t : Table) : Prop := ∀ k v, t k = some v → validUtf8 v = true

theorem validUtf8_append' (a b : Bytes) (ha : validUtf8 a = true) (hb : validUtf8 b = true) :
    validUtf8 (a ++ b) = true := validUtf8_append a.length a b (Nat.le_refl _) ha hb

theorem b2uSpec_valid_aux (b2u : Table) (hT : TableValid b2u) : ∀ (n : Nat) (s : Bytes), s.length ≤ n →
    validUtf8 (b2uSpec b2u s) = true := by
  intro n
  induction n with
  | zero =>
    intro s h
    have : s = [] := by cases s <;> simp_all
    subst this; simp [validUtf8]
  | succ n ih =>
    intro s h
    match s, h with
    | [], _ => simp [validUtf8]
    | a :: rest, h =>
      simp only [List.length_cons] at h
      by_cases ha : a < 0x80
      · rw [b2uSpec_ascii _ _ _ ha, validUtf8_cons]
        simp only [ha, if_true]
        exact ih rest (by omega)
      · match rest, h with
        | [], _ => rw [b2uSpec_lone _ _ ha]; simp [validUtf8]
        | b :: r, h =>
          simp only [List.length_cons] at h
          rw [b2uSpec_pair _ _ _ _ ha]
          apply validUtf8_append'
          · cases hv : b2u [a, b] with
            | none => simp [validUtf8]
            | some v => simpa using hT _ _ hv
          · exact ih r (by omega)

theorem lastByKey_mem (rows : List Row) (k : Bytes) (cp : Nat) (h : lastByKey rows k = some cp) :
    (k, cp) ∈ rows := by
  unfold lastByKey at h
  cases hf : rows.reverse.find? (fun r => r.1 == k) with
  | none => simp [hf] at h
  | some r =>
    simp [hf] at h
    have hm := List.mem_of_find?_eq_some hf
    have hp := List.find?_some hf
    simp at hp hm
    have : r = (k, cp) := by cases r; simp_all
    rw [← this]; exact hm

theorem lastByUtf8_mem (rows : List Row) (u k : Bytes) (h : lastByUtf8 rows u = some k) :
    ∃ cp, (k, cp) ∈ rows ∧ encodeUcs2 cp = u := by
  unfold lastByUtf8 at h
  cases hf : rows.reverse.find? (fun r => encodeUcs2 r.2 == u) with
  | none => simp [hf] at h
  | some r =>
    simp [hf] at h
    have hm := List.mem_of_find?_eq_some hf
    have hp := List.find?_some hf
    simp at hp hm
    refine ⟨r.2, ?_, hp⟩
    have : r = (k, r.2) := by cases r; simp_all
    rw [← this]; exact hm

theorem wfB2URow_iff (r : Row) : wfB2URow r = true ↔
    (r.1.length = 2 ∧ 0x80 ≤ r.1.headD 0 ∧ 0x80 ≤ r.2 ∧ r.2 < 0x10000 ∧ isSurrogate r.2 = false) := by
  simp [wfB2URow, and_assoc]

theorem wfU2BRow_iff (r : Row) : wfU2BRow r = true ↔ (r.1.length = 2 ∧ 0x80 ≤ r.2 ∧ r.2 < 0x10000) := by
  simp [wfU2BRow, and_assoc]

theorem encodeUcs2_eq (cp : Nat) (h1 : 0x80 ≤ cp) (h2 : cp < 0x10000) : encodeUcs2 cp = utf8enc cp := by
  by_cases a : cp < 0x800
  · rw [encodeUcs2_two cp h1 a, utf8enc_two cp h1 a]
  · rw [encodeUcs2_three cp (by omega) h2, utf8enc_three cp (by omega) h2]

/-! ### the table-file parser on files in the UAO format -/

theorem splitAux_acc (sep : Nat) : ∀ (s cur : Bytes) (acc : List Bytes),
    splitAux sep s cur acc = acc.reverse ++ splitAux sep s cur [] := by
  intro s
  induction s with
  | nil => intro cur acc; simp [splitAux]
  | cons c cs ih =>
    intro cur acc
    simp only [splitAux]
    by_cases h : c = sep
    · simp only [h, if_true]
      rw [ih [] (cur.reverse :: acc), ih [] [cur.reverse]]
      simp
    · simp only [h, if_false]
      exact ih (c :: cur) acc

/-- a piece without separator, then the separator. -/
theorem splitAux_piece (sep : Nat) : ∀ (l : Bytes) (s cur : Bytes), sep ∉ l →
    splitAux sep (l ++ sep :: s) cur [] = (cur.reverse ++ l) :: splitAux sep s [] [] := by
  intro l
  induction l with
  | nil =>
    intro s cur _
    simp only [List.nil_append, splitAux, if_true]
    rw [splitAux_acc]; simp
  | cons c cs ih =>
    intro s cur h
    have hc : c ≠ sep := fun e => h (by simp [e])
    have hcs : sep ∉ cs := fun e => h (by simp [e])
    simp only [List.cons_append, splitAux, hc, if_false]
    rw [ih s (c :: cur) hcs]
    simp

theorem splitAux_last (sep : Nat) : ∀ (l cur : Bytes), sep ∉ l →
    splitAux sep l cur [] = [cur.reverse ++ l] := by
  intro l
  induction l with
  | nil => intro cur _; simp [splitAux]
  | cons c cs ih =>
    intro cur h
    have hc : c ≠ sep := fun e => h (by simp [e])
    have hcs : sep ∉ cs := fun e => h (by simp [e])
    simp only [splitAux, hc, if_false]
    rw [ih (c :: cur) hcs]; simp

theorem split_piece (sep : Nat) (l s : Bytes) (h : sep ∉ l) : split sep (l ++ sep :: s) = l :: split sep s := by
  simp [split, splitAux_piece sep l s [] h]

theorem split_last (sep : Nat) (l : Bytes) (h : sep ∉ l) : split sep l = [l] := by
  simp [split, splitAux_last sep l [] h]

/-- upper-case hex digit. -/
def upHex (d : Nat) : Nat := if d < 10 then 48 + d else 55 + d

def hex4 (n : Nat) : Bytes := [upHex (n / 4096 % 16), upHex (n / 256 % 16), upHex (n / 16 % 16), upHex (n % 16)]

/-- a row of a UAO table file: `0xKKKK 0xCCCC`, optionally with a carriage return (the b2u file has CR LF). -/
def renderRow (k cp : Nat) (cr : Bool) : Bytes :=
  [48, 120] ++ hex4 k ++ [32, 48, 120] ++ hex4 cp ++ (if cr then [13] else [])

theorem upHex_facts : ∀ d, d < 16 → hexVal (upHex d) = some d ∧ upHex d ≠ 32 ∧ upHex d ≠ 10 ∧ isSpace (upHex d) = false := by
  decide

theorem hexDecode2_hex4 (n : Nat) (h : n < 65536) : hexDecode2 (hex4 n) = .ok (some [n / 256, n % 256]) := by
  have f1 := (upHex_facts (n / 4096 % 16) (by omega)).1
  have f2 := (upHex_facts (n / 256 % 16) (by omega)).1
  have f3 := (upHex_facts (n / 16 % 16) (by omega)).1
  have f4 := (upHex_facts (n % 16) (by omega)).1
  simp only [hexDecode2, hex4, hexDecodeInto, f1, f2, f3, f4]
  simp
  constructor <;> omega

theorem trimSpace_hex4 (n : Nat) (h : n < 65536) (tail : Bytes) (ht : tail = [] ∨ tail = [13]) :
    trimSpace (hex4 n ++ tail) = hex4 n := by
  have f1 := (upHex_facts (n / 4096 % 16) (by omega)).2.2.2
  have f4 := (upHex_facts (n % 16) (by omega)).2.2.2
  rcases ht with rfl | rfl
  · simp [trimSpace, hex4, f1, f4]
  · have f13 : isSpace 13 = true := by decide
    simp [trimSpace, hex4, f1, f4, f13]

theorem parseLine_renderRow (k cp : Nat) (cr : Bool) (hk : k < 65536) (hc : cp < 65536) :
    parseLine (renderRow k cp cr) = .ok (some ([k / 256, k % 256], cp)) := by
  have hsplit : split 32 (renderRow k cp cr) = [[48, 120] ++ hex4 k, [48, 120] ++ hex4 cp ++ (if cr then [13] else [])] := by
    have e : renderRow k cp cr = ([48, 120] ++ hex4 k) ++ 32 :: ([48, 120] ++ hex4 cp ++ (if cr then [13] else [])) := by
      simp [renderRow]
    have n1 := (upHex_facts (k / 4096 % 16) (by omega)).2.1
    have n2 := (upHex_facts (k / 256 % 16) (by omega)).2.1
    have n3 := (upHex_facts (k / 16 % 16) (by omega)).2.1
    have n4 := (upHex_facts (k % 16) (by omega)).2.1
    have m1 := (upHex_facts (cp / 4096 % 16) (by omega)).2.1
    have m2 := (upHex_facts (cp / 256 % 16) (by omega)).2.1
    have m3 := (upHex_facts (cp / 16 % 16) (by omega)).2.1
    have m4 := (upHex_facts (cp % 16) (by omega)).2.1
    rw [e, split_piece, split_last]
    · cases cr <;> simp [hex4] <;> omega
    · simp [hex4]; omega
  unfold parseLine
  simp only [hsplit]
  have t1 : trimSpace (hex4 k) = hex4 k := by simpa using trimSpace_hex4 k hk [] (Or.inl rfl)
  have t2 : trimSpace (hex4 cp ++ (if cr then [13] else [])) = hex4 cp := by
    cases cr
    · simpa using trimSpace_hex4 cp hc [] (Or.inl rfl)
    · simpa using trimSpace_hex4 cp hc [13] (Or.inr rfl)
  have s1 : sliceFrom (48 :: 120 :: hex4 k) 2 = .ok (hex4 k) := by simp [sliceFrom, slice, hex4]
  have s2 : sliceFrom (48 :: 120 :: (hex4 cp ++ (if cr then [13] else []))) 2 = .ok (hex4 cp ++ (if cr then [13] else [])) := by
    cases cr <;> simp [sliceFrom, slice, hex4]
  simp only [List.length_cons, List.length_nil, idx, bind, Except.bind, pure, Except.pure]
  simp [s1, s2, initToBig5, initUcs2, t1, t2, hexDecode2_hex4 k hk, hexDecode2_hex4 cp hc, bind, Except.bind, pure,
    Except.pure]
  omega

theorem newline_not_in_renderRow (k cp : Nat) (cr : Bool) (hk : k < 65536) (hc : cp < 65536) : 10 ∉ renderRow k cp cr := by
  have n1 := (upHex_facts (k / 4096 % 16) (by omega)).2.2.1
  have n2 := (upHex_facts (k / 256 % 16) (by omega)).2.2.1
  have n3 := (upHex_facts (k / 16 % 16) (by omega)).2.2.1
  have n4 := (upHex_facts (k % 16) (by omega)).2.2.1
  have m1 := (upHex_facts (cp / 4096 % 16) (by omega)).2.2.1
  have m2 := (upHex_facts (cp / 256 % 16) (by omega)).2.2.1
  have m3 := (upHex_facts (cp / 16 % 16) (by omega)).2.2.1
  have m4 := (upHex_facts (cp % 16) (by omega)).2.2.1
  cases cr <;> simp [renderRow, hex4] <;> omega

/-- a table file in the UAO format: a header line, then one rendered row per line, every line terminated. -/
def renderFile (header : Bytes) (rows : List (Nat × Nat)) (cr : Bool) : Bytes :=
  header ++ 10 :: (rows.map fun r => renderRow r.1 r.2 cr ++ [10]).flatten

def rowOf (r : Nat × Nat) : Row := ([r.1 / 256, r.1 % 256], r.2)

theorem split_rows (rows : List (Nat × Nat)) (cr : Bool) (hr : ∀ r ∈ rows, r.1 < 65536 ∧ r.2 < 65536) :
    split 10 ((rows.map fun r => renderRow r.1 r.2 cr ++ [10]).flatten) =
      (rows.map fun r => renderRow r.1 r.2 cr) ++ [[]] := by
  induction rows with
  | nil => simp [split, splitAux]
  | cons r rs ih =>
    have h1 := hr r (by simp)
    have hr' : ∀ r' ∈ rs, r'.1 < 65536 ∧ r'.2 < 65536 := fun r' h' => hr r' (List.mem_cons_of_mem _ h')
    have e : ((r :: rs).map fun r => renderRow r.1 r.2 cr ++ [10]).flatten =
        renderRow r.1 r.2 cr ++ 10 :: (rs.map fun r => renderRow r.1 r.2 cr ++ [10]).flatten := by simp
    rw [e, split_piece 10 _ _ (newline_not_in_renderRow r.1 r.2 cr h1.1 h1.2), ih hr']
    simp

theorem mapM_parseLine_rows (rows : List (Nat × Nat)) (cr : Bool) (hr : ∀ r ∈ rows, r.1 < 65536 ∧ r.2 < 65536) :
    ((rows.map fun (r : Nat × Nat) => renderRow r.1 r.2 cr) ++ [[]]).mapM parseLine =
      .ok ((rows.map fun r => some (rowOf r)) ++ [none]) := by
  induction rows with
  | nil =>
    have : parseLine [] = .ok none := by simp [parseLine, split, splitAux, pure, Except.pure]
    simp [List.mapM_cons, this, bind, Except.bind, pure, Except.pure]
  | cons r rs ih =>
    have h1 := hr r (by simp)
    simp only [List.map_cons, List.cons_append, List.mapM_cons]
    have hr' : ∀ r' ∈ rs, r'.1 < 65536 ∧ r'.2 < 65536 := fun r' h' => hr r' (List.mem_cons_of_mem _ h')
    rw [parseLine_renderRow r.1 r.2 cr h1.1 h1.2, ih hr']
    simp [bind, Except.bind, pure, Except.pure, rowOf]

theorem parseTable_renderFile (header : Bytes) (rows : List (Nat × Nat)) (cr : Bool) (hh : 10 ∉ header)
    (hr : ∀ r ∈ rows, r.1 < 65536 ∧ r.2 < 65536) :
    parseTable (renderFile header rows cr) = .ok (rows.map rowOf) := by
  unfold parseTable renderFile
  rw [split_piece 10 header _ hh, split_rows rows cr hr]
  have hs : sliceFrom (header :: ((rows.map fun r => renderRow r.1 r.2 cr) ++ [[]])) 1 =
      .ok ((rows.map fun r => renderRow r.1 r.2 cr) ++ [[]]) := by
    simp only [sliceFrom, slice]
    simp
    apply List.take_of_length_le
    simp
  rw [hs]
  simp only [bind, Except.bind]
  rw [mapM_parseLine_rows rows cr hr]
  simp [pure, Except.pure, List.filterMap_append, List.filterMap_map]

/-- the Big5 bytes of the last row with code point `cp`. -/
def lastByCp (rows : List Row) (cp : Nat) : Option Bytes :=
  (rows.reverse.find? (fun r => r.2 == cp)).map (·.1)

theorem find?_congr' {α} (p q : α → Bool) : ∀ (l : List α), (∀ x ∈ l, p x = q x) → l.find? p = l.find? q := by
  intro l
  induction l with
  | nil => intro _; rfl
  | cons a as ih =>
    intro h
    simp only [List.find?_cons, h a (by simp)]
    rw [ih (fun x hx => h x (by simp [hx]))]

theorem lastByUtf8_eq_lastByCp (rows : List Row) (hwf : wfU2B rows = true) (cp : Nat) (h1 : 0x80 ≤ cp) (h2 : cp < 0x10000) :
    lastByUtf8 rows (utf8enc cp) = lastByCp rows cp := by
  unfold lastByUtf8 lastByCp
  congr 1
  apply find?_congr'
  intro r hr
  have hm : r ∈ rows := by simpa using hr
  have hw := (wfU2BRow_iff r).1 (List.all_eq_true.1 hwf _ hm)
  rw [encodeUcs2_eq r.2 hw.2.1 hw.2.2]
  by_cases e : r.2 = cp
  · rw [e]; simp only [beq_self_eq_true]
  · have : utf8enc r.2 ≠ utf8enc cp := fun h => e (utf8enc_injective r.2 cp hw.2.1 hw.2.2 h1 h2 h)
    rw [beq_eq_false_iff_ne.2 this, beq_eq_false_iff_ne.2 e]

/-! ### the loader as a state machine -/

theorem getElem?_of_size_zero (m : GoMap) (h : m.size = 0) (k : Bytes) : m[k]? = none := by
  apply HashMap.getElem?_of_isEmpty
  rw [HashMap.isEmpty_eq_size_eq_zero]; simp [h]

theorem size_foldl_insert_mono (kf vf : Row → Bytes) : ∀ (rows : List Row) (m : GoMap),
    m.size ≤ (rows.foldl (fun m r => m.insert (kf r) (vf r)) m).size := by
  intro rows
  induction rows with
  | nil => intro m; simp
  | cons r rs ih =>
    intro m
    simp only [List.foldl_cons]
    exact Nat.le_trans HashMap.size_le_size_insert (ih _)

theorem size_foldl_insert_pos (kf vf : Row → Bytes) (rows : List Row) (m : GoMap) (h : rows ≠ []) :
    0 < (rows.foldl (fun m r => m.insert (kf r) (vf r)) m).size := by
  match rows, h with
  | r :: rs, _ =>
    simp only [List.foldl_cons]
    have h1 : 0 < (m.insert (kf r) (vf r)).size := by
      have := @HashMap.isEmpty_insert _ _ _ _ m _ _ (kf r) (vf r)
      rw [HashMap.isEmpty_eq_size_eq_zero] at this
      simp at this; omega
    exact Nat.lt_of_lt_of_le h1 (size_foldl_insert_mono kf vf rs _)

theorem tableOf_u2bMapFrom (m0 : GoMap) (h : m0.size = 0) (rows : List Row) :
    tableOf (u2bMapFrom m0 rows) = tableOf (u2bMap rows) := by
  funext k
  unfold tableOf u2bMapFrom u2bMap
  rw [foldl_insert_get (fun r => encodeUcs2 r.2) (fun r => r.1), foldl_insert_get (fun r => encodeUcs2 r.2) (fun r => r.1)]
  rw [getElem?_of_size_zero m0 h]; simp

theorem tableOf_b2uMapFrom (m0 : GoMap) (h : m0.size = 0) (rows : List Row) :
    tableOf (b2uMapFrom m0 rows) = tableOf (b2uMap rows) := by
  funext k
  unfold tableOf b2uMapFrom b2uMap
  rw [foldl_insert_get (fun r => r.1) (fun r => encodeUcs2 r.2), foldl_insert_get (fun r => r.1) (fun r => encodeUcs2 r.2)]
  rw [getElem?_of_size_zero m0 h]; simp

/-- what one loader call can do. -/
theorem initB2U_cases (fs : FS) (p : String) (st st' : Loader) (e : Bool) (h : initB2U fs p st = .ok (st', e)) :
    st'.u2b = st.u2b ∧
    ((0 < st.b2u.size ∧ st' = st ∧ e = false) ∨
     (st.b2u.size = 0 ∧ fs p = none ∧ st' = st ∧ e = true) ∨
     (st.b2u.size = 0 ∧ e = false ∧ ∃ c rows, fs p = some c ∧ parseTable c = .ok rows ∧ st'.b2u = b2uMapFrom st.b2u rows)) := by
  unfold initB2U at h
  by_cases hs : st.b2u.size > 0
  · simp only [hs, if_true] at h
    cases h; exact ⟨rfl, Or.inl ⟨hs, rfl, rfl⟩⟩
  · simp only [hs, if_false] at h
    have hz : st.b2u.size = 0 := by omega
    cases hf : fs p with
    | none => simp only [hf] at h; cases h; exact ⟨rfl, Or.inr (Or.inl ⟨hz, rfl, rfl, rfl⟩)⟩
    | some c =>
      simp only [hf] at h
      cases hp : parseTable c with
      | error x => simp [hp, bind, Except.bind] at h
      | ok rows =>
        simp only [hp, bind, Except.bind, pure, Except.pure] at h
        cases h
        exact ⟨rfl, Or.inr (Or.inr ⟨hz, rfl, c, rows, rfl, hp, rfl⟩)⟩

theorem initU2B_cases (fs : FS) (p : String) (st st' : Loader) (e : Bool) (h : initU2B fs p st = .ok (st', e)) :
    st'.b2u = st.b2u ∧
    ((0 < st.u2b.size ∧ st' = st ∧ e = false) ∨
     (st.u2b.size = 0 ∧ fs p = none ∧ st' = st ∧ e = true) ∨
     (st.u2b.size = 0 ∧ e = false ∧ ∃ c rows, fs p = some c ∧ parseTable c = .ok rows ∧ st'.u2b = u2bMapFrom st.u2b rows)) := by
  unfold initU2B at h
  by_cases hs : st.u2b.size > 0
  · simp only [hs, if_true] at h
    cases h; exact ⟨rfl, Or.inl ⟨hs, rfl, rfl⟩⟩
  · simp only [hs, if_false] at h
    have hz : st.u2b.size = 0 := by omega
    cases hf : fs p with
    | none => simp only [hf] at h; cases h; exact ⟨rfl, Or.inr (Or.inl ⟨hz, rfl, rfl, rfl⟩)⟩
    | some c =>
      simp only [hf] at h
      cases hp : parseTable c with
      | error x => simp [hp, bind, Except.bind] at h
      | ok rows =>
        simp only [hp, bind, Except.bind, pure, Except.pure] at h
        cases h
        exact ⟨rfl, Or.inr (Or.inr ⟨hz, rfl, c, rows, rfl, hp, rfl⟩)⟩

theorem splitAux_ne_nil (sep : Nat) : ∀ (s cur : Bytes) (acc : List Bytes), splitAux sep s cur acc ≠ [] := by
  intro s
  induction s with
  | nil => intro cur acc; simp [splitAux]
  | cons c cs ih =>
    intro cur acc
    simp only [splitAux]
    by_cases h : c = sep
    · simp only [h, if_true]; exact ih _ _
    · simp only [h, if_false]; exact ih _ _


theorem key_unique_of_nodup : ∀ (rows : List Row), (rows.map (·.1)).Nodup → ∀ r r', r ∈ rows → r' ∈ rows → r.1 = r'.1 → r = r' := by
  intro rows
  induction rows with
  | nil => intro _ r r' h; cases h
  | cons a as ih =>
    intro hn r r' hr hr' he
    simp only [List.map_cons, List.nodup_cons, List.mem_map, not_exists, not_and] at hn
    simp only [List.mem_cons] at hr hr'
    rcases hr with rfl | hr <;> rcases hr' with rfl | hr'
    · rfl
    · exact absurd he.symm (hn.1 r' hr')
    · exact absurd he (hn.1 r hr)
    · exact ih hn.2 r r' hr hr' he


end PttVerif.C17
