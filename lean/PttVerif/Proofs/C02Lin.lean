import PttVerif.Model.C02
import PttVerif.Model.C02Spec
/-
C02, stage 4 toolkit — GF(2)-linear word circuits by reflection.

Every step of DES except the S-box lookup is a GF(2)-linear map on bit vectors.  `LE` is a small expression language
for such maps on one packed input word (xor, or of disjoint supports, and with a constant, shifts, FIPS selection
tables, bit reversal, lookup in a linear 64-entry table).  `ok s e` checks, by computation, that every `or` joins
disjoint supports and every lookup stays inside its table; `sound` proves that a checked expression is an
xor-homomorphism on inputs within the support `s`; `le_ext` concludes that two checked expressions that agree on the
`n` unit vectors agree on every input below `2^n`.  All uses are then `decide +kernel` on closed terms.
-/
namespace PttVerif.C02.Lin
open PttVerif.C02

/-- the set bits of `x` are among those of `s`. -/
def Sub (x s : Nat) : Prop := ∀ i, x.testBit i = true → s.testBit i = true

theorem sub_zero (s : Nat) : Sub 0 s := by intro i h; simp at h

theorem sub_xor {a b sa sb : Nat} (ha : Sub a sa) (hb : Sub b sb) : Sub (a ^^^ b) (sa ||| sb) := by
  intro i h
  rw [Nat.testBit_xor] at h
  rw [Nat.testBit_or]
  cases h1 : a.testBit i <;> cases h2 : b.testBit i <;> simp_all [ha i, hb i]

theorem sub_or {a b sa sb : Nat} (ha : Sub a sa) (hb : Sub b sb) : Sub (a ||| b) (sa ||| sb) := by
  intro i h
  rw [Nat.testBit_or] at h
  rw [Nat.testBit_or]
  cases h1 : a.testBit i <;> cases h2 : b.testBit i <;> simp_all [ha i, hb i]

theorem sub_and {a sa : Nat} (m : Nat) (ha : Sub a sa) : Sub (a &&& m) (sa &&& m) := by
  intro i h
  rw [Nat.testBit_and] at h ⊢
  simp only [Bool.and_eq_true] at h ⊢
  exact ⟨ha i h.1, h.2⟩

theorem sub_shlN {a sa : Nat} (n : Nat) (ha : Sub a sa) : Sub (a <<< n) (sa <<< n) := by
  intro i h
  rw [Nat.testBit_shiftLeft] at h ⊢
  simp only [Bool.and_eq_true] at h ⊢
  exact ⟨h.1, ha _ h.2⟩

theorem sub_shl {a sa : Nat} (n : Nat) (ha : Sub a sa) : Sub (shl a n) (shl sa n) := by
  intro i h
  unfold shl w32 at h ⊢
  rw [show (4294967296 : Nat) = 2 ^ 32 from rfl, Nat.testBit_mod_two_pow] at h ⊢
  simp only [Bool.and_eq_true] at h ⊢
  exact ⟨h.1, sub_shlN n ha i h.2⟩

theorem sub_shr {a sa : Nat} (n : Nat) (ha : Sub a sa) : Sub (a >>> n) (sa >>> n) := by
  intro i h
  rw [Nat.testBit_shiftRight] at h ⊢
  exact ha _ h

theorem or_eq_xor {a b sa sb : Nat} (ha : Sub a sa) (hb : Sub b sb) (hd : sa &&& sb = 0) : a ||| b = a ^^^ b := by
  apply Nat.eq_of_testBit_eq
  intro i
  rw [Nat.testBit_or, Nat.testBit_xor]
  have := congrArg (·.testBit i) hd
  simp only [Nat.testBit_and, Nat.zero_testBit] at this
  cases h1 : a.testBit i <;> cases h2 : b.testBit i <;> simp
  rw [ha i h1, hb i h2] at this
  simp at this

theorem sub_of_lt {x k : Nat} (h : x < 2 ^ k) : Sub x (2 ^ k - 1) := by
  intro i hi
  rw [Nat.testBit_two_pow_sub_one]
  simp only [decide_eq_true_eq]
  apply Classical.byContradiction
  intro hn
  have : x < 2 ^ i := Nat.lt_of_lt_of_le h (Nat.pow_le_pow_right (by omega) (by omega))
  rw [Nat.testBit_lt_two_pow this] at hi
  cases hi

theorem lt_of_sub {x k : Nat} (h : Sub x (2 ^ k - 1)) : x < 2 ^ k := by
  apply Nat.lt_pow_two_of_testBit
  intro i hi
  cases hx : x.testBit i with
  | false => rfl
  | true =>
    have := h i hx
    rw [Nat.testBit_two_pow_sub_one] at this
    simp at this; omega

theorem sub_le {x s : Nat} (h : Sub x s) : x ≤ s := by
  have : x &&& s = x := by
    apply Nat.eq_of_testBit_eq
    intro i
    rw [Nat.testBit_and]
    cases hx : x.testBit i with
    | false => simp
    | true => simp [h i hx]
  rw [← this]; exact Nat.and_le_right

theorem sub_trans {x s t : Nat} (h : Sub x s) (h' : Sub s t) : Sub x t := fun i hi => h' i (h i hi)

/-! ### FIPS selection tables and bit reversal are linear -/

open Spec in
theorem step_xor (p q : Nat) (ba bb : Bool) :
    2 * (p ^^^ q) + (if (ba ^^ bb) then 1 else 0) = (2 * p + (if ba then 1 else 0)) ^^^ (2 * q + (if bb then 1 else 0)) := by
  apply Nat.eq_of_testBit_eq
  intro j
  have e : ∀ (a : Nat) (b : Bool), (2 * a + (if b then 1 else 0)).testBit j =
      if j < 1 then (if b then 1 else 0 : Nat).testBit j else a.testBit (j - 1) := by
    intro a b
    have := Nat.testBit_two_pow_mul_add a (b := if b then 1 else 0) (i := 1) (by cases b <;> decide) j
    simpa using this
  rw [Nat.testBit_xor, e, e, e]
  by_cases hj : j < 1
  · have : j = 0 := by omega
    subst this
    cases ba <;> cases bb <;> simp
  · simp [hj]

open Spec in
theorem permF_xor (tbl : List Nat) (n a b : Nat) : permF tbl n (a ^^^ b) = permF tbl n a ^^^ permF tbl n b := by
  unfold permF
  have gen : ∀ (p q : Nat),
      tbl.foldl (fun acc j => 2 * acc + (if fbit n (a ^^^ b) j then 1 else 0)) (p ^^^ q) =
        tbl.foldl (fun acc j => 2 * acc + (if fbit n a j then 1 else 0)) p ^^^
        tbl.foldl (fun acc j => 2 * acc + (if fbit n b j then 1 else 0)) q := by
    induction tbl with
    | nil => intro p q; rfl
    | cons t ts ih =>
      intro p q
      simp only [List.foldl_cons]
      rw [← ih]
      congr 1
      have : fbit n (a ^^^ b) t = (fbit n a t ^^ fbit n b t) := by simp [fbit, Nat.testBit_xor]
      rw [this]
      exact step_xor p q _ _
  have := gen 0 0
  simpa using this

open Spec in
theorem permF_lt (tbl : List Nat) (n x : Nat) : permF tbl n x < 2 ^ tbl.length := by
  unfold permF
  have gen : ∀ (k acc : Nat), acc < 2 ^ k →
      tbl.foldl (fun acc j => 2 * acc + (if fbit n x j then 1 else 0)) acc < 2 ^ (k + tbl.length) := by
    induction tbl with
    | nil => intro k acc h; simpa using h
    | cons t ts ih =>
      intro k acc h
      simp only [List.foldl_cons, List.length_cons]
      have := ih (k + 1) (2 * acc + (if fbit n x t then 1 else 0)) (by
        rw [Nat.pow_succ]; split <;> omega)
      rw [show k + (ts.length + 1) = k + 1 + ts.length by omega]
      exact this
  have := gen 0 0 (by decide)
  simpa using this

open Spec in
theorem revBits_lt (n x : Nat) : revBits n x < 2 ^ n := by
  induction n generalizing x with
  | zero => simp [revBits]
  | succ n ih =>
    unfold revBits
    have := ih (x / 2)
    have h2 : x % 2 < 2 := Nat.mod_lt _ (by decide)
    rw [Nat.pow_succ]
    have : x % 2 * 2 ^ n ≤ 1 * 2 ^ n := Nat.mul_le_mul_right _ (by omega)
    omega

theorem hi_lo_xor (n ba bb ra rb : Nat) (_h1 : ba < 2) (_h2 : bb < 2) (hra : ra < 2 ^ n) (hrb : rb < 2 ^ n) :
    (ba ^^^ bb) * 2 ^ n + (ra ^^^ rb) = (ba * 2 ^ n + ra) ^^^ (bb * 2 ^ n + rb) := by
  apply Nat.eq_of_testBit_eq
  intro j
  rw [Nat.testBit_xor, Nat.mul_comm _ (2 ^ n), Nat.mul_comm ba, Nat.mul_comm bb,
    Nat.testBit_two_pow_mul_add _ (Nat.xor_lt_two_pow hra hrb), Nat.testBit_two_pow_mul_add _ hra,
    Nat.testBit_two_pow_mul_add _ hrb]
  split <;> simp [Nat.testBit_xor]

open Spec in
theorem revBits_xor (n a b : Nat) : revBits n (a ^^^ b) = revBits n a ^^^ revBits n b := by
  induction n generalizing a b with
  | zero => simp [revBits]
  | succ n ih =>
    unfold revBits
    have e1 : (a ^^^ b) % 2 = a % 2 ^^^ b % 2 := by
      have := @Nat.xor_mod_two_pow a b 1; simpa using this
    have e2 : (a ^^^ b) / 2 = a / 2 ^^^ b / 2 := by
      have := @Nat.shiftRight_xor_distrib 1 a b
      simpa [Nat.shiftRight_eq_div_pow] using this
    rw [e1, e2, ih]
    exact hi_lo_xor n _ _ _ _ (Nat.mod_lt _ (by decide)) (Nat.mod_lt _ (by decide)) (revBits_lt _ _) (revBits_lt _ _)


theorem step_sub (p q : Nat) (ba bb : Bool) (h : Sub p q) (hb : ba = true → bb = true) :
    Sub (2 * p + (if ba then 1 else 0)) (2 * q + (if bb then 1 else 0)) := by
  intro j hj
  have e : ∀ (a : Nat) (b : Bool), (2 * a + (if b then 1 else 0)).testBit j =
      if j < 1 then (if b then 1 else 0 : Nat).testBit j else a.testBit (j - 1) := by
    intro a b
    have := Nat.testBit_two_pow_mul_add a (b := if b then 1 else 0) (i := 1) (by cases b <;> decide) j
    simpa using this
  rw [e] at hj ⊢
  by_cases hj1 : j < 1
  · have : j = 0 := by omega
    subst this
    cases ba
    · simp at hj
    · simp [hb rfl]
  · simp only [hj1, if_false] at hj ⊢
    exact h _ hj

open Spec in
theorem permF_sub (tbl : List Nat) (n a sa : Nat) (h : Sub a sa) : Sub (permF tbl n a) (permF tbl n sa) := by
  unfold permF
  have gen : ∀ (p q : Nat), Sub p q →
      Sub (tbl.foldl (fun acc j => 2 * acc + (if fbit n a j then 1 else 0)) p)
        (tbl.foldl (fun acc j => 2 * acc + (if fbit n sa j then 1 else 0)) q) := by
    induction tbl with
    | nil => intro p q hpq; exact hpq
    | cons t ts ih =>
      intro p q hpq
      simp only [List.foldl_cons]
      exact ih _ _ (step_sub p q _ _ hpq (fun hb => h _ hb))
  exact gen 0 0 (fun _ h => h)

open Spec in
theorem revBits_sub (n a sa : Nat) (h : Sub a sa) : Sub (revBits n a) (revBits n sa) := by
  induction n generalizing a sa with
  | zero => intro i hi; simp [revBits] at hi
  | succ n ih =>
    have h2 : Sub (a / 2) (sa / 2) := by
      intro i hi
      rw [← Nat.testBit_succ] at hi ⊢
      exact h _ hi
    have h0 : a % 2 = 1 → sa % 2 = 1 := by
      intro ha
      have := h 0 (by rw [Nat.testBit_zero]; simpa using ha)
      rw [Nat.testBit_zero] at this; simpa using this
    intro j hj
    unfold revBits at hj ⊢
    rw [Nat.mul_comm, Nat.testBit_two_pow_mul_add _ (revBits_lt n _)] at hj ⊢
    by_cases hjn : j < n
    · simp only [hjn, if_true] at hj ⊢
      exact ih _ _ h2 _ hj
    · simp only [hjn, if_false] at hj ⊢
      have ha2 : a % 2 < 2 := Nat.mod_lt _ (by decide)
      have : a % 2 = 1 := by
        rcases Nat.lt_succ_iff.mp ha2 with h' 
        rcases Nat.eq_zero_or_pos (a % 2) with h0' | h1'
        · rw [h0'] at hj; simp at hj
        · omega
      rw [h0 this]; rw [this] at hj; exact hj

/-! ### the expression language -/

inductive LE where
  | inp : LE
  | xor : LE → LE → LE
  | or : LE → LE → LE
  | and : LE → Nat → LE
  | shl : LE → Nat → LE      -- Go `uint32 <<`: `C02.shl`
  | shlN : LE → Nat → LE     -- untruncated `<<<`
  | shr : LE → Nat → LE
  | perm : List Nat → Nat → LE → LE   -- `Spec.permF tbl n`
  | rev : Nat → LE → LE               -- `Spec.revBits n`
  | look : List Nat → LE → LE         -- `T.getD · 0` for a linear table of 64 entries

def eval (x : Nat) : LE → Nat
  | .inp => x
  | .xor a b => eval x a ^^^ eval x b
  | .or a b => eval x a ||| eval x b
  | .and a m => eval x a &&& m
  | .shl a n => shl (eval x a) n
  | .shlN a n => eval x a <<< n
  | .shr a n => eval x a >>> n
  | .perm tbl n a => Spec.permF tbl n (eval x a)
  | .rev n a => Spec.revBits n (eval x a)
  | .look T a => T.getD (eval x a) 0

/-- an upper bound on the set bits of the value, for inputs within `s`. -/
def supp (s : Nat) : LE → Nat
  | .inp => s
  | .xor a b => supp s a ||| supp s b
  | .or a b => supp s a ||| supp s b
  | .and a m => supp s a &&& m
  | .shl a n => shl (supp s a) n
  | .shlN a n => supp s a <<< n
  | .shr a n => supp s a >>> n
  | .perm tbl n a => Spec.permF tbl n (supp s a)
  | .rev n a => Spec.revBits n (supp s a)
  | .look T _ => T.foldl (· ||| ·) 0

/-- a 64-entry table that is an xor-homomorphism in its index. -/
def tblLin (T : List Nat) : Bool :=
  (List.range 64).all fun i => (List.range 64).all fun j => T.getD (i ^^^ j) 0 == (T.getD i 0 ^^^ T.getD j 0)

def ok (s : Nat) : LE → Bool
  | .inp => true
  | .xor a b => ok s a && ok s b
  | .or a b => ok s a && ok s b && (supp s a &&& supp s b == 0)
  | .and a _ => ok s a
  | .shl a _ => ok s a
  | .shlN a _ => ok s a
  | .shr a _ => ok s a
  | .perm _ _ a => ok s a
  | .rev _ a => ok s a
  | .look T a => ok s a && decide (supp s a < 64) && tblLin T

theorem tblLin_spec {T : List Nat} (h : tblLin T = true) (i j : Nat) (hi : i < 64) (hj : j < 64) :
    T.getD (i ^^^ j) 0 = T.getD i 0 ^^^ T.getD j 0 := by
  unfold tblLin at h
  rw [List.all_eq_true] at h
  have := h i (List.mem_range.mpr hi)
  rw [List.all_eq_true] at this
  have := this j (List.mem_range.mpr hj)
  simpa using this

theorem sub_foldl_or (T : List Nat) (k : Nat) : Sub (T.getD k 0) (T.foldl (· ||| ·) 0) := by
  have gen : ∀ (T : List Nat) (acc k : Nat), Sub acc (T.foldl (· ||| ·) acc) ∧ Sub (T.getD k 0) (T.foldl (· ||| ·) acc) := by
    intro T
    induction T with
    | nil => intro acc k; exact ⟨fun _ h => h, by simp [sub_zero]⟩
    | cons t ts ih =>
      intro acc k
      simp only [List.foldl_cons]
      have h1 := (ih (acc ||| t) 0).1
      constructor
      · intro i hi; apply h1; rw [Nat.testBit_or, hi]; rfl
      · cases k with
        | zero => intro i hi; apply h1; rw [Nat.testBit_or]; simp at hi; simp [hi]
        | succ k => simpa using (ih (acc ||| t) k).2
  exact (gen T 0 k).2

theorem sound (s : Nat) (e : LE) (h : ok s e = true) :
    (∀ x, Sub x s → Sub (eval x e) (supp s e)) ∧
      (∀ x y, Sub x s → Sub y s → eval (x ^^^ y) e = eval x e ^^^ eval y e) := by
  have subxy : ∀ {x y : Nat}, Sub x s → Sub y s → Sub (x ^^^ y) s := by
    intro x y hx hy i hi
    rw [Nat.testBit_xor] at hi
    cases h1 : x.testBit i with
    | true => exact hx i h1
    | false => rw [h1] at hi; simp at hi; exact hy i hi
  induction e with
  | inp => exact ⟨fun x hx => hx, fun x y _ _ => rfl⟩
  | xor a b iha ihb =>
    simp only [ok, Bool.and_eq_true] at h
    obtain ⟨⟨sa, la⟩, ⟨sb, lb⟩⟩ := iha h.1, ihb h.2
    refine ⟨fun x hx => sub_xor (sa x hx) (sb x hx), fun x y hx hy => ?_⟩
    simp only [eval, la x y hx hy, lb x y hx hy]
    ac_rfl
  | or a b iha ihb =>
    simp only [ok, Bool.and_eq_true, beq_iff_eq] at h
    obtain ⟨⟨sa, la⟩, ⟨sb, lb⟩⟩ := iha h.1.1, ihb h.1.2
    refine ⟨fun x hx => sub_or (sa x hx) (sb x hx), fun x y hx hy => ?_⟩
    simp only [eval]
    rw [or_eq_xor (sa _ (subxy hx hy)) (sb _ (subxy hx hy)) h.2, or_eq_xor (sa x hx) (sb x hx) h.2,
      or_eq_xor (sa y hy) (sb y hy) h.2, la x y hx hy, lb x y hx hy]
    ac_rfl
  | and a m iha =>
    simp only [ok] at h
    obtain ⟨sa, la⟩ := iha h
    refine ⟨fun x hx => sub_and m (sa x hx), fun x y hx hy => ?_⟩
    simp only [eval, la x y hx hy, Nat.and_xor_distrib_right]
  | shl a n iha =>
    simp only [ok] at h
    obtain ⟨sa, la⟩ := iha h
    refine ⟨fun x hx => sub_shl n (sa x hx), fun x y hx hy => ?_⟩
    simp only [eval, la x y hx hy, shl, w32, Nat.shiftLeft_xor_distrib]
    exact @Nat.xor_mod_two_pow _ _ 32
  | shlN a n iha =>
    simp only [ok] at h
    obtain ⟨sa, la⟩ := iha h
    refine ⟨fun x hx => sub_shlN n (sa x hx), fun x y hx hy => ?_⟩
    simp only [eval, la x y hx hy, Nat.shiftLeft_xor_distrib]
  | shr a n iha =>
    simp only [ok] at h
    obtain ⟨sa, la⟩ := iha h
    refine ⟨fun x hx => sub_shr n (sa x hx), fun x y hx hy => ?_⟩
    simp only [eval, la x y hx hy, Nat.shiftRight_xor_distrib]
  | perm tbl n a iha =>
    simp only [ok] at h
    obtain ⟨sa', la⟩ := iha h
    refine ⟨fun x hx => permF_sub tbl n _ _ (sa' x hx), fun x y hx hy => ?_⟩
    simp only [eval, la x y hx hy, permF_xor]
  | rev n a iha =>
    simp only [ok] at h
    obtain ⟨sa', la⟩ := iha h
    refine ⟨fun x hx => revBits_sub n _ _ (sa' x hx), fun x y hx hy => ?_⟩
    simp only [eval, la x y hx hy, revBits_xor]
  | look T a iha =>
    simp only [ok, Bool.and_eq_true, decide_eq_true_eq] at h
    obtain ⟨sa, la⟩ := iha h.1.1
    refine ⟨fun x _ => sub_foldl_or T _, fun x y hx hy => ?_⟩
    simp only [eval, la x y hx hy]
    exact tblLin_spec h.2 _ _ (Nat.lt_of_le_of_lt (sub_le (sa x hx)) h.1.2) (Nat.lt_of_le_of_lt (sub_le (sa y hy)) h.1.2)

/-! ### extension from the unit vectors -/

theorem two_pow_xor (n y : Nat) (h : y < 2 ^ n) : 2 ^ n ^^^ y = 2 ^ n + y := by
  have := Nat.two_pow_add_eq_or_of_lt h 1
  simp only [Nat.mul_one] at this
  rw [this]
  symm
  apply or_eq_xor (sa := 2 ^ n) (sb := 2 ^ n - 1) (fun _ h => h) (sub_of_lt h)
  apply Nat.eq_of_testBit_eq
  intro i
  rw [Nat.testBit_and, Nat.testBit_two_pow, Nat.testBit_two_pow_sub_one]
  by_cases h : n = i <;> simp [h]

theorem lin_ext (N : Nat) (f g : Nat → Nat)
    (hf : ∀ x y, x < 2 ^ N → y < 2 ^ N → f (x ^^^ y) = f x ^^^ f y)
    (hg : ∀ x y, x < 2 ^ N → y < 2 ^ N → g (x ^^^ y) = g x ^^^ g y)
    (hb : ∀ i, i < N → f (2 ^ i) = g (2 ^ i)) : ∀ x, x < 2 ^ N → f x = g x := by
  have f0 : f 0 = 0 := by have := hf 0 0 (Nat.two_pow_pos N) (Nat.two_pow_pos N); simpa using this
  have g0 : g 0 = 0 := by have := hg 0 0 (Nat.two_pow_pos N) (Nat.two_pow_pos N); simpa using this
  have gen : ∀ n, n ≤ N → ∀ x, x < 2 ^ n → f x = g x := by
    intro n
    induction n with
    | zero => intro _ x hx; have : x = 0 := by simpa using hx
              subst this; rw [f0, g0]
    | succ n ih =>
      intro hn x hx
      by_cases hlt : x < 2 ^ n
      · exact ih (by omega) x hlt
      · have hy : x - 2 ^ n < 2 ^ n := by rw [Nat.pow_succ] at hx; omega
        have e : x = 2 ^ n ^^^ (x - 2 ^ n) := by rw [two_pow_xor n _ hy]; omega
        have l1 : 2 ^ n < 2 ^ N := Nat.pow_lt_pow_right (by decide) (by omega)
        have l2 : x - 2 ^ n < 2 ^ N := Nat.lt_of_lt_of_le hy (Nat.pow_le_pow_right (by decide) (by omega))
        rw [e, hf _ _ l1 l2, hg _ _ l1 l2, hb n (by omega), ih (by omega) _ hy]
  exact gen N (Nat.le_refl N)

/-- two checked expressions that agree on the unit vectors agree on every `n`-bit input. -/
theorem le_ext (n : Nat) (e1 e2 : LE) (h1 : ok (2 ^ n - 1) e1 = true) (h2 : ok (2 ^ n - 1) e2 = true)
    (hb : (List.range n).all (fun i => eval (2 ^ i) e1 == eval (2 ^ i) e2) = true) :
    ∀ x, x < 2 ^ n → eval x e1 = eval x e2 := by
  apply lin_ext n
  · intro x y hx hy; exact (sound _ e1 h1).2 x y (sub_of_lt hx) (sub_of_lt hy)
  · intro x y hx hy; exact (sound _ e2 h2).2 x y (sub_of_lt hx) (sub_of_lt hy)
  · intro i hi
    rw [List.all_eq_true] at hb
    simpa using hb i (List.mem_range.mpr hi)

/-- a checked expression is linear and bounded. -/
theorem le_lin (n : Nat) (e : LE) (h : ok (2 ^ n - 1) e = true) (x y : Nat) (hx : x < 2 ^ n) (hy : y < 2 ^ n) :
    eval (x ^^^ y) e = eval x e ^^^ eval y e := (sound _ e h).2 x y (sub_of_lt hx) (sub_of_lt hy)

theorem le_sub (n : Nat) (e : LE) (h : ok (2 ^ n - 1) e = true) (x : Nat) (hx : x < 2 ^ n) :
    Sub (eval x e) (supp (2 ^ n - 1) e) := (sound _ e h).1 x (sub_of_lt hx)

end PttVerif.C02.Lin
