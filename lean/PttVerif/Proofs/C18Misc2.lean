import PttVerif.Proofs.C18Misc
/-
C18 (group 3, continued) — helper lemmas: StripNoneBig5 (in-place loop = pure filter; the filter's properties).
-/
namespace PttVerif.C18
open PttVerif

/-! ### the in-place buffer -/

theorem buf_length (s out : List Nat) (h : out.length ≤ s.length) : (out ++ s.drop out.length).length = s.length := by
  simp; omega

theorem buf_idx (s out : List Nat) (j : Nat) (hj : out.length ≤ j) :
    idx (out ++ s.drop out.length) j = idx s j := by
  unfold idx
  rw [List.getElem?_append_right hj, List.getElem?_drop]
  congr 2; omega

theorem buf_set (s out : List Nat) (c : Nat) (h : out.length < s.length) :
    setAt (out ++ s.drop out.length) out.length c = .ok ((out ++ [c]) ++ s.drop (out ++ [c]).length) := by
  unfold setAt
  rw [if_pos (by rw [buf_length s out (by omega)]; exact h)]
  congr 1
  rw [List.set_append_right _ _ (Nat.le_refl _), Nat.sub_self]
  have hd := List.drop_eq_getElem_cons h
  rw [hd, List.set_cons_zero]
  simp

theorem idx_drop (s : List Nat) (i : Nat) (h : i < s.length) : idx s i = .ok s[i] ∧ s.drop i = s[i] :: s.drop (i + 1) :=
  ⟨idx_of_lt s i h, List.drop_eq_getElem_cons h⟩

/-! ### unfolding the filter -/

theorem nb5_nul (r : List Nat) : nb5 (0 :: r) = [] := by cases r <;> simp [nb5]

theorem nb5_ascii (c : Nat) (r : List Nat) (h0 : c ≠ 0) (h : 32 ≤ c ∧ c < 128) : nb5 (c :: r) = c :: nb5 r := by
  cases r <;> simp [nb5, h0, h]

theorem nb5_ctrl (c : Nat) (r : List Nat) (h0 : c ≠ 0) (h : ¬ (32 ≤ c ∧ c < 128)) (hh : ¬ (c &&& 0x80 ≠ 0)) :
    nb5 (c :: r) = nb5 r := by
  cases r with
  | nil => simp [nb5, h0, h]
  | cons d r => simp only [nb5, h0, if_false, h, hh]

theorem nb5_lead_end (c : Nat) (h0 : c ≠ 0) (h : ¬ (32 ≤ c ∧ c < 128)) : nb5 [c] = [] := by
  simp [nb5, h0, h]

theorem nb5_pair (c d : Nat) (r : List Nat) (h0 : c ≠ 0) (h : ¬ (32 ≤ c ∧ c < 128)) (hh : c &&& 0x80 ≠ 0)
    (hd : isTrail d = true) : nb5 (c :: d :: r) = c :: d :: nb5 r := by
  simp only [nb5, h0, if_false, h, hh, ne_eq, not_false_eq_true, if_true, hd]

theorem nb5_lead_bad (c d : Nat) (r : List Nat) (h0 : c ≠ 0) (h : ¬ (32 ≤ c ∧ c < 128)) (hh : c &&& 0x80 ≠ 0)
    (hd : ¬ isTrail d = true) : nb5 (c :: d :: r) = nb5 (d :: r) := by
  have hd' : isTrail d = false := by simpa using hd
  simp only [nb5, h0, if_false, h, hh, ne_eq, not_false_eq_true, if_true, hd', Bool.false_eq_true]

theorem nb5_length_le (s : List Nat) : (nb5 s).length ≤ s.length := by
  have key : ∀ n, ∀ s : List Nat, s.length ≤ n → (nb5 s).length ≤ s.length := by
    intro n
    induction n with
    | zero => intro s hs; have : s = [] := List.length_eq_zero_iff.mp (by omega); subst this; simp [nb5]
    | succ n ih =>
      intro s hs
      match s with
      | [] => simp [nb5]
      | [c] => simp only [nb5]; split <;> (try split) <;> simp
      | c :: d :: r =>
        have h1 := ih (d :: r) (by simp at hs ⊢; omega)
        have h2 := ih r (by simp at hs ⊢; omega)
        simp only [nb5]
        split
        · simp
        · split
          · simp at h1 ⊢; omega
          · split
            · split
              · simp at h2 ⊢; omega
              · simp at h1 ⊢; omega
            · simp at h1 ⊢; omega
  exact key s.length s (Nat.le_refl _)

/-! ### the loop computes the filter in place -/

theorem nb5Loop_spec (s : List Nat) (fuel i : Nat) (out : List Nat)
    (hout : out.length ≤ i) (hi : i ≤ s.length) (hf : fuel ≥ s.length - i + 1) :
    nb5Loop fuel (out ++ s.drop out.length) i out.length =
      .ok ((out ++ nb5 (s.drop i)) ++ s.drop (out ++ nb5 (s.drop i)).length, (out ++ nb5 (s.drop i)).length) := by
  induction fuel generalizing i out with
  | zero => omega
  | succ fuel ih =>
    rw [nb5Loop]
    have hbl := buf_length s out (by omega)
    by_cases hlt : i < s.length
    · obtain ⟨hidx, hdrop⟩ := idx_drop s i hlt
      simp only [hbl, hlt, not_true, if_false, buf_idx s out i hout, hidx, bind, Except.bind]
      rw [hdrop]
      by_cases h0 : s[i] = 0
      · simp [h0, nb5_nul, pure, Except.pure]
      · simp only [h0, if_false]
        by_cases hasc : 32 ≤ s[i] ∧ s[i] < 128
        · simp only [hasc, and_self, if_true, buf_set s out s[i] (by omega)]
          have := ih (i + 1) (out ++ [s[i]]) (by simp; omega) (by omega) (by omega)
          have hl : out.length + 1 = (out ++ [s[i]]).length := by simp
          rw [hl, this, nb5_ascii _ _ h0 hasc]
          have e : (out ++ [s[i]]) ++ nb5 (s.drop (i + 1)) = out ++ s[i] :: nb5 (s.drop (i + 1)) := by simp
          rw [e]
        · simp only [hasc, if_false]
          by_cases hh : s[i] &&& 0x80 ≠ 0
          · rw [if_pos hh]
            by_cases hlt2 : i + 1 < s.length
            · obtain ⟨hidx2, hdrop2⟩ := idx_drop s (i + 1) hlt2
              simp only [hlt2, if_true, buf_idx s out (i + 1) (by omega), hidx2]
              rw [hdrop2]
              by_cases hd : isTrail s[i + 1] = true
              · simp only [hd, if_true, buf_set s out s[i] (by omega)]
                have hre : idx (out ++ [s[i]] ++ s.drop (out ++ [s[i]]).length) (i + 1) = .ok s[i + 1] := by
                  rw [buf_idx s (out ++ [s[i]]) (i + 1) (by simp; omega)]; exact hidx2
                simp only [hre]
                have hset2 := buf_set s (out ++ [s[i]]) s[i + 1] (by simp; omega)
                have hl1 : out.length + 1 = (out ++ [s[i]]).length := by simp
                rw [hl1, hset2]
                have := ih (i + 2) (out ++ [s[i]] ++ [s[i + 1]]) (by simp; omega) (by omega) (by omega)
                have hl2 : out.length + 2 = (out ++ [s[i]] ++ [s[i + 1]]).length := by simp
                rw [hl2]
                show nb5Loop fuel _ (i + 2) _ = _
                rw [this, nb5_pair _ _ _ h0 hasc hh hd]
                have e : (out ++ [s[i]] ++ [s[i + 1]]) ++ nb5 (s.drop (i + 2)) =
                    out ++ s[i] :: s[i + 1] :: nb5 (s.drop (i + 2)) := by simp
                rw [e]
              · simp only [hd, Bool.false_eq_true, if_false]
                have := ih (i + 1) out (by omega) (by omega) (by omega)
                rw [this, hdrop2, nb5_lead_bad _ _ _ h0 hasc hh hd]
            · have hend : s.drop (i + 1) = [] := List.drop_eq_nil_of_le (by omega)
              simp only [hlt2, if_false]
              have := ih (i + 1) out (by omega) (by omega) (by omega)
              rw [this, hend, nb5_lead_end _ h0 hasc]
              simp [nb5]
          · rw [if_neg hh]
            have := ih (i + 1) out (by omega) (by omega) (by omega)
            rw [this, nb5_ctrl _ _ h0 hasc hh]
    · have hend : s.drop i = [] := List.drop_eq_nil_of_le (by omega)
      simp [hbl, hlt, hend, nb5, pure, Except.pure]

theorem stripNoneBig5_eq (s : List Nat) :
    stripNoneBig5 s = .ok (nb5 s,
      nb5 s ++ (if (nb5 s).length < s.length then 0 :: s.drop ((nb5 s).length + 1) else [])) := by
  unfold stripNoneBig5
  have h := nb5Loop_spec s (s.length + 1) 0 [] (by simp) (by omega) (by omega)
  simp only [List.nil_append, List.drop_zero, List.length_nil] at h
  rw [h]
  have hle := nb5_length_le s
  simp only [bind, Except.bind]
  have hbl := buf_length s (nb5 s) hle
  by_cases hlt : (nb5 s).length < s.length
  · have hset := buf_set s (nb5 s) 0 hlt
    simp only [hbl, hlt, if_true, hset]
    have hsl : slice (nb5 s ++ [0] ++ s.drop (nb5 s ++ [0]).length) 0 (nb5 s).length = .ok (nb5 s) := by
      unfold slice
      rw [if_pos (by simp)]
      simp [List.append_assoc, List.take_left']
    rw [hsl]
    simp [pure, Except.pure]
  · have hend : s.drop (nb5 s).length = [] := List.drop_eq_nil_of_le (by omega)
    simp only [hbl, hlt, if_false, hend, List.append_nil, pure, Except.pure]
    rw [hend, List.append_nil] at hbl
    have hsl : slice (nb5 s) 0 (nb5 s).length = .ok (nb5 s) := by
      unfold slice
      rw [if_pos (by simp)]
      simp
    rw [hbl] at hsl
    simp only [hbl, Nat.lt_irrefl, if_false, hsl]

/-! ### what the filter guarantees -/

theorem and128_of_lt (c : Nat) (h : c < 128) : c &&& 128 = 0 := by
  have : ∀ c, c < 128 → c &&& 128 = 0 := by decide +kernel
  exact this c h

theorem and128_of_ge (c : Nat) (h1 : 128 ≤ c) (h2 : c < 256) : c &&& 128 ≠ 0 := by
  have : ∀ c, c < 256 → 128 ≤ c → c &&& 128 ≠ 0 := by decide +kernel
  exact this c h2 h1

theorem isTrail_ne_zero (d : Nat) (h : isTrail d = true) : d ≠ 0 := by
  intro h0; subst h0; simp [isTrail] at h

theorem nb5_props (s : List Nat) (hb : Bytes s) : Big5Safe (nb5 s) ∧ (nb5 s).Sublist (cstr s) := by
  have key : ∀ n, ∀ s : List Nat, s.length ≤ n → Bytes s → Big5Safe (nb5 s) ∧ (nb5 s).Sublist (cstr s) := by
    intro n
    induction n with
    | zero =>
      intro s hs _
      have : s = [] := List.length_eq_zero_iff.mp (by omega)
      subst this; exact ⟨by simp [nb5]; exact .nil, by simp [nb5]⟩
    | succ n ih =>
      intro s hs hb
      match s with
      | [] => exact ⟨by simp [nb5]; exact .nil, by simp [nb5]⟩
      | [c] =>
        by_cases h0 : c = 0
        · subst h0; simp [nb5]; exact .nil
        · by_cases hasc : 32 ≤ c ∧ c < 128
          · simp only [nb5, h0, if_false, hasc, and_self, if_true, cstr_cons, cstr_nil]
            exact ⟨.ascii c [] hasc.1 hasc.2 .nil, List.Sublist.refl _⟩
          · simp only [nb5, h0, if_false, hasc]; exact ⟨.nil, by simp⟩
      | c :: d :: r =>
        have hb1 : Bytes (d :: r) := fun x hx => hb x (by simp [hx])
        have hb2 : Bytes r := fun x hx => hb x (by simp [hx])
        obtain ⟨a1, a2⟩ := ih (d :: r) (by simp at hs ⊢; omega) hb1
        obtain ⟨b1, b2⟩ := ih r (by simp at hs ⊢; omega) hb2
        by_cases h0 : c = 0
        · subst h0; rw [nb5_nul]; exact ⟨.nil, by simp⟩
        · rw [cstr_cons, if_neg h0]
          by_cases hasc : 32 ≤ c ∧ c < 128
          · rw [nb5_ascii _ _ h0 hasc]
            exact ⟨.ascii c _ hasc.1 hasc.2 a1, a2.cons_cons c⟩
          · by_cases hh : c &&& 0x80 ≠ 0
            · by_cases hd : isTrail d = true
              · rw [nb5_pair _ _ _ h0 hasc hh hd, cstr_cons, if_neg (isTrail_ne_zero d hd)]
                have hc128 : 128 ≤ c := by
                  by_cases hlt : c < 128
                  · exact absurd (and128_of_lt c hlt) hh
                  · omega
                exact ⟨.dbcs c d _ hc128 (hb c (by simp)) hd b1, (b2.cons_cons d).cons_cons c⟩
              · rw [nb5_lead_bad _ _ _ h0 hasc hh hd]
                exact ⟨a1, a2.cons c⟩
            · rw [nb5_ctrl _ _ h0 hasc hh]
              exact ⟨a1, a2.cons c⟩
  exact key s.length s (Nat.le_refl _) hb

theorem nb5_of_safe (s : List Nat) (h : Big5Safe s) : nb5 s = s := by
  induction h with
  | nil => simp [nb5]
  | ascii c r h1 h2 _ ih => rw [nb5_ascii c r (by omega) ⟨h1, h2⟩, ih]
  | dbcs c d r h1 h2 hd _ ih =>
    rw [nb5_pair c d r (by omega) (by omega) (and128_of_ge c h1 h2) hd, ih]

end PttVerif.C18
