import PttVerif.Model.C02
import PttVerif.Model.C02Spec
/-
C02 — helper lemmas (structure of cFcrypt; table shapes).  Core Lean only.
-/
namespace PttVerif.C02
open PttVerif PttVerif.Gen.CryptTables

deriving instance DecidableEq for Except

/-! ### shapes of the regenerated tables (so that no `getD` default is ever taken) -/

theorem con_salt_length : con_salt.length = 128 := by decide +kernel
theorem cov_2char_length : cov_2char.length = 64 := by decide +kernel
theorem shifts2_length : shifts2.length = 16 := by decide +kernel
theorem SPtrans_shape : SPtrans.length = 8 ∧ ∀ row ∈ SPtrans, row.length = 64 := by decide +kernel
theorem skb_shape : skb.length = 8 ∧ ∀ row ∈ skb, row.length = 64 := by decide +kernel
theorem passlen_eq : PASSLEN = 14 ∧ ptttypePASSLEN = 14 := by decide +kernel
theorem iterations_eq : ITERATIONS = 16 := by decide +kernel

/-! ### the effective key -/

/-- the bytes of the password that reach DES: the first eight, up to the first NUL, low seven bits each. -/
def effKey (p : List Nat) : List Nat := ((p.take 8).takeWhile (· ≠ 0)).map (· &&& 0x7f)

/-- the same, zero padded to the eight bytes of a DES key (coarser than `effKey`: a trailing 0x80 and a
terminating NUL both give 0). -/
def effKey8 (p : List Nat) : List Nat := copyInto 8 (effKey p)

theorem keyBytes_eq (l : List Nat) :
    keyBytes l = ((l.takeWhile (· ≠ 0)).map (· &&& 0x7f)).map (· * 2) := by
  induction l with
  | nil => simp [keyBytes]
  | cons c cs ih =>
    unfold keyBytes
    by_cases h : c = 0
    · simp [h]
    · have e : c &&& 0x7f = c % 128 := Nat.and_two_pow_sub_one_eq_mod c 7
      simp only [h, if_false, ih, List.takeWhile_cons, ne_eq, not_false_eq_true, decide_true, if_true,
        List.map_cons, e]
      congr 1
      omega

theorem truncate_eq (p : List Nat) : (if p.length > 8 then p.take 8 else p) = p.take 8 := by
  split
  · rfl
  · rw [List.take_of_length_le (by omega)]

theorem copyInto_map_double (n : Nat) (l : List Nat) :
    copyInto n (l.map (· * 2)) = (copyInto n l).map (· * 2) := by
  simp [copyInto, List.map_take]

/-- the DES key block is a function of the effective key only. -/
theorem mkKey_eq (p : List Nat) :
    mkKey (if p.length > 8 then p.take 8 else p) = (effKey8 p).map (· * 2) := by
  rw [truncate_eq, mkKey, keyBytes_eq, copyInto_map_double]
  rfl

/-! ### the output encoding -/

theorem bit6_lt (bb : List Nat) : ∀ (j k c y u : Nat), c < 2 ^ k → (bit6 bb j (c, y, u)).1 < 2 ^ (k + j) := by
  intro j
  induction j with
  | zero => intro k c y u h; simpa [bit6] using h
  | succ j ih =>
    intro k c y u h
    have h2 : c <<< 1 < 2 ^ (k + 1) := by rw [Nat.shiftLeft_eq, Nat.pow_succ]; omega
    have h3 : c <<< 1 ||| 1 < 2 ^ (k + 1) :=
      Nat.or_lt_two_pow h2 (by have := Nat.one_lt_two_pow (n := k + 1) (by omega); omega)
    unfold bit6
    have e : k + (j + 1) = (k + 1) + j := by omega
    rw [e]
    simp only []
    split <;> split <;> apply ih <;> assumption

theorem outChars_length (bb : List Nat) : ∀ (n : Nat) (st : Nat × Nat), (outChars bb n st).length = n := by
  intro n
  induction n with
  | zero => intro st; simp [outChars]
  | succ n ih => intro (y, u); simp [outChars, ih]

theorem getD_mem {l : List Nat} {i : Nat} (h : i < l.length) : l.getD i 0 ∈ l := by
  rw [List.getD_eq_getElem?_getD, List.getElem?_eq_getElem h]
  exact List.getElem_mem h

theorem outChars_mem (bb : List Nat) : ∀ (n : Nat) (st : Nat × Nat), ∀ c ∈ outChars bb n st, c ∈ cov_2char := by
  intro n
  induction n with
  | zero => intro st c h; simp [outChars] at h
  | succ n ih =>
    intro (y, u) c h
    simp only [outChars, List.mem_cons] at h
    rcases h with h | h
    · subst h
      apply getD_mem
      rw [cov_2char_length]
      have := bit6_lt bb 6 0 0 y u (by decide)
      simpa using this
    · exact ih _ c h

/-! ### cFcrypt, opened up -/

/-- the hash for salt characters `x0`, `x1` (already mapped NUL ↦ 'A') with table entries `e0`, `e1`. -/
def hashOf (p : List Nat) (x0 x1 e0 e1 : Nat) : List Nat :=
  let out := body (desSetKey ((effKey8 p).map (· * 2))) e0 (shl e1 4)
  [x0, x1] ++ outChars (l2c out.1 ++ l2c out.2 ++ [0]) 11 (0, 0x80) ++ [0]

theorem idx_ok_iff {α} (l : List α) (i : Nat) (a : α) : idx l i = .ok a ↔ l[i]? = some a := by
  unfold idx
  cases h : l[i]? <;> simp

theorem idx_error_iff {α} (l : List α) (i : Nat) (e : Fault) : idx l i = .error e ↔ (l.length ≤ i ∧ e = .panic) := by
  unfold idx
  cases h : l[i]? with
  | none => simp at h; simp [h]; exact eq_comm
  | some a => have := (List.getElem?_eq_some_iff.mp h).1; simp; omega

/-- `cFcrypt` succeeds exactly when the salt has two bytes and both salt characters index `con_salt`. -/
theorem cFcrypt_ok_iff (p s h : List Nat) :
    cFcrypt p s = .ok h ↔
      ∃ s0 s1 e0 e1, s[0]? = some s0 ∧ s[1]? = some s1 ∧ con_salt[saltChar s0]? = some e0 ∧
        con_salt[saltChar s1]? = some e1 ∧ h = hashOf p (saltChar s0) (saltChar s1) e0 e1 := by
  unfold cFcrypt
  dsimp only
  rw [mkKey_eq]
  cases h0 : idx s 0 with
  | error e =>
    have := (idx_error_iff _ _ _).mp h0
    simp only [bind, Except.bind, reduceCtorEq, false_iff, not_exists, not_and]
    intro a b c d ha; have := (List.getElem?_eq_some_iff.mp ha).1; omega
  | ok s0 =>
    have h0' := (idx_ok_iff _ _ _).mp h0
    cases hc0 : idx con_salt (saltChar s0) with
    | error e =>
      have := (idx_error_iff _ _ _).mp hc0
      simp only [bind, Except.bind, hc0, reduceCtorEq, false_iff, not_exists, not_and]
      intro a b c d ha; rw [h0'] at ha; cases ha
      intro _ hc; have := (List.getElem?_eq_some_iff.mp hc).1; omega
    | ok e0 =>
      have hc0' := (idx_ok_iff _ _ _).mp hc0
      cases h1 : idx s 1 with
      | error e =>
        have := (idx_error_iff _ _ _).mp h1
        simp only [bind, Except.bind, hc0, reduceCtorEq, false_iff, not_exists, not_and]
        intro a b c d _ hb; have := (List.getElem?_eq_some_iff.mp hb).1; omega
      | ok s1 =>
        have h1' := (idx_ok_iff _ _ _).mp h1
        cases hc1 : idx con_salt (saltChar s1) with
        | error e =>
          have := (idx_error_iff _ _ _).mp hc1
          simp only [bind, Except.bind, hc0, hc1, reduceCtorEq, false_iff, not_exists, not_and]
          intro a b c d _ hb; rw [h1'] at hb; cases hb
          intro _ hc; have := (List.getElem?_eq_some_iff.mp hc).1; omega
        | ok e1 =>
          have hc1' := (idx_ok_iff _ _ _).mp hc1
          simp only [bind, Except.bind, hc0, hc1, pure, Except.pure, Except.ok.injEq]
          constructor
          · intro h; exact ⟨s0, s1, e0, e1, h0', h1', hc0', hc1', h.symm⟩
          · rintro ⟨a, b, c, d, ha, hb, hc, hd, rfl⟩
            rw [h0'] at ha; cases ha; rw [h1'] at hb; cases hb
            rw [hc0'] at hc; cases hc; rw [hc1'] at hd; cases hd
            rfl

/-- `cFcrypt` never diverges, and panics only as stated. -/
theorem cFcrypt_error (p s : List Nat) (e : Fault) (h : cFcrypt p s = .error e) : e = .panic := by
  unfold cFcrypt at h
  cases h0 : idx s 0 with
  | error e' => simp [h0, bind, Except.bind] at h; have := (idx_error_iff _ _ _).mp h0; rw [← h]; exact this.2
  | ok s0 =>
    cases hc0 : idx con_salt (saltChar s0) with
    | error e' => simp [h0, hc0, bind, Except.bind] at h; have := (idx_error_iff _ _ _).mp hc0; rw [← h]; exact this.2
    | ok e0 =>
      cases h1 : idx s 1 with
      | error e' => simp [h0, hc0, h1, bind, Except.bind] at h; have := (idx_error_iff _ _ _).mp h1; rw [← h]; exact this.2
      | ok s1 =>
        cases hc1 : idx con_salt (saltChar s1) with
        | error e' => simp [h0, hc0, h1, hc1, bind, Except.bind] at h; have := (idx_error_iff _ _ _).mp hc1; rw [← h]; exact this.2
        | ok e1 => simp [h0, hc0, h1, hc1, bind, Except.bind, pure, Except.pure] at h

theorem saltChar_ne_zero (s : Nat) : saltChar s ≠ 0 := by
  unfold saltChar; split <;> omega

theorem saltChar_idem (s : Nat) : saltChar (saltChar s) = saltChar s := by
  have := saltChar_ne_zero s
  generalize saltChar s = x at *
  simp [saltChar, this]

theorem hashOf_length (p : List Nat) (x0 x1 e0 e1 : Nat) : (hashOf p x0 x1 e0 e1).length = 14 := by
  simp [hashOf, outChars_length]

/-! ### table exactness: the regenerated tables against the hand-written FIPS-46 / crypt(3) definitions,
whole tables by kernel evaluation -/

open Spec in
set_option maxRecDepth 100000 in
theorem SPtrans_table : SPtrans = (List.range 8).map fun b => (List.range 64).map (spEntry b) := by
  decide +kernel

open Spec in
set_option maxRecDepth 100000 in
theorem skb_table : skb = (List.range 8).map fun b => (List.range 64).map (skbEntry b) := by
  decide +kernel

open Spec in
theorem con_salt_table : con_salt = (List.range 128).map saltValue := by decide +kernel

theorem tbl_map_range (g : Nat → Nat → Nat) (b x : Nat) (hb : b < 8) (hx : x < 64) :
    tbl ((List.range 8).map fun b => (List.range 64).map (g b)) b x = g b x := by
  simp [tbl, List.getD_eq_getElem?_getD, hb, hx]

end PttVerif.C02
