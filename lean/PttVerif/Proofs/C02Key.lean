import PttVerif.Proofs.C02Lin
/-
C02, stage 4 — the key schedule: `desSetKey` (bit-swap PC-1, rotations, `skb` lookups) against the textbook
`Spec.keySchedule` (PC-1, left rotations, PC-2), for ALL 64-bit keys.
-/
namespace PttVerif.C02.Lin
open PttVerif PttVerif.C02 PttVerif.Gen.CryptTables

/-- the eight key bytes of a 64-bit key block, first byte most significant. -/
def bytesBE (K : Nat) : List Nat :=
  [(K >>> 56) &&& 0xff, (K >>> 48) &&& 0xff, (K >>> 40) &&& 0xff, (K >>> 32) &&& 0xff,
   (K >>> 24) &&& 0xff, (K >>> 16) &&& 0xff, (K >>> 8) &&& 0xff, (K >>> 0) &&& 0xff]

def PermOpE (a b : LE) (n m : Nat) : LE × LE :=
  let t := LE.and (LE.xor (LE.shr a n) b) m
  (LE.xor a (LE.shl t n), LE.xor b t)

def HPermOpE (a : LE) (m : Nat) : LE :=
  let t := LE.and (LE.xor (LE.shl a 18) a) m
  LE.xor (LE.xor a t) (LE.shr t 18)

def byteE (sh : Nat) : LE := LE.and (LE.shr LE.inp sh) 0xff

def c2lE (a b c d : LE) : LE := LE.or (LE.or (LE.or a (LE.shlN b 8)) (LE.shlN c 16)) (LE.shlN d 24)

/-- `pc1` as a circuit over the packed key. -/
def pc1E : LE × LE :=
  let c := c2lE (byteE 56) (byteE 48) (byteE 40) (byteE 32)
  let d := c2lE (byteE 24) (byteE 16) (byteE 8) (byteE 0)
  let (d, c) := PermOpE d c 4 0x0f0f0f0f
  let c := HPermOpE c 0xcccc0000
  let d := HPermOpE d 0xcccc0000
  let (d, c) := PermOpE d c 1 0x55555555
  let (c, d) := PermOpE c d 8 0x00ff00ff
  let (d, c) := PermOpE d c 1 0x55555555
  let d := LE.or (LE.or (LE.or (LE.shl (LE.and d 0x000000ff) 16) (LE.and d 0x0000ff00))
    (LE.shr (LE.and d 0x00ff0000) 16)) (LE.shr (LE.and c 0xf0000000) 4)
  let c := LE.and c 0x0fffffff
  (c, d)

theorem pc1_eval (K : Nat) : pc1 (bytesBE K) = (eval K pc1E.1, eval K pc1E.2) := rfl

/-- the textbook side: C resp. D of PC-1, in libdes bit order (FIPS bit j at word bit j-1). -/
def specC : LE := LE.rev 28 (LE.shr (LE.perm Spec.PC1 64 LE.inp) 28)
def specD : LE := LE.rev 28 (LE.and (LE.perm Spec.PC1 64 LE.inp) 0x0fffffff)

theorem pc1_ok : (ok (2 ^ 64 - 1) pc1E.1 && ok (2 ^ 64 - 1) pc1E.2) = true := by decide +kernel

theorem pc1_eq_PC1 (K : Nat) (hK : K < 2 ^ 64) :
    pc1 (bytesBE K) =
      (Spec.revBits 28 (Spec.permF Spec.PC1 64 K >>> 28), Spec.revBits 28 (Spec.permF Spec.PC1 64 K &&& 0x0fffffff)) := by
  rw [pc1_eval]
  have h := pc1_ok
  rw [Bool.and_eq_true] at h
  have e1 := le_ext 64 pc1E.1 specC h.1 (by decide +kernel) (by decide +kernel) K hK
  have e2 := le_ext 64 pc1E.2 specD h.2 (by decide +kernel) (by decide +kernel) K hK
  rw [e1, e2]; rfl

/-! ### one step of the schedule loop -/

/-- the word layout of a 48-bit round key `K` (eight 6-bit blocks B1…B8): `kw0` holds B1, B3, B5, B7 in its four
bytes, `kw1` holds B2, B4, B6, B8 and is rotated left by 4; inside a byte the first bit of the block is least
significant. -/
def chunkE (k : LE) (b : Nat) : LE := LE.rev 6 (LE.and (LE.shr k (6 * (7 - b))) 63)

def kw0E (k : LE) : LE :=
  LE.or (LE.or (LE.or (chunkE k 0) (LE.shlN (chunkE k 2) 8)) (LE.shlN (chunkE k 4) 16)) (LE.shlN (chunkE k 6) 24)

def kw1E (k : LE) : LE :=
  let w := LE.or (LE.or (LE.or (chunkE k 1) (LE.shlN (chunkE k 3) 8)) (LE.shlN (chunkE k 5) 16)) (LE.shlN (chunkE k 7) 24)
  LE.or (LE.shl w 4) (LE.shr w 28)

def kw0 (K : Nat) : Nat := eval K (kw0E LE.inp)
def kw1 (K : Nat) : Nat := eval K (kw1E LE.inp)

def tblE (T : List (List Nat)) (b : Nat) (i : LE) : LE := LE.look (T.getD b []) i

/-- `ksStep` with the shift flag as a parameter, as a circuit over `c`, `d`. -/
def ksStepE (two : Bool) (c d : LE) : LE × LE × LE × LE :=
  let (c, d) :=
    if two then
      (LE.or (LE.shr c 2) (LE.shl c 26), LE.or (LE.shr d 2) (LE.shl d 26))
    else
      (LE.or (LE.shr c 1) (LE.shl c 27), LE.or (LE.shr d 1) (LE.shl d 27))
  let c := LE.and c 0x0fffffff
  let d := LE.and d 0x0fffffff
  let s := LE.or (LE.or (LE.or (tblE skb 0 (LE.and c 0x3f))
    (tblE skb 1 (LE.or (LE.and (LE.shr c 6) 0x03) (LE.and (LE.shr c 7) 0x3c))))
    (tblE skb 2 (LE.or (LE.and (LE.shr c 13) 0x0f) (LE.and (LE.shr c 14) 0x30))))
    (tblE skb 3 (LE.or (LE.or (LE.and (LE.shr c 20) 0x01) (LE.and (LE.shr c 21) 0x06)) (LE.and (LE.shr c 22) 0x38)))
  let t := LE.or (LE.or (LE.or (tblE skb 4 (LE.and d 0x3f))
    (tblE skb 5 (LE.or (LE.and (LE.shr d 7) 0x03) (LE.and (LE.shr d 8) 0x3c))))
    (tblE skb 6 (LE.and (LE.shr d 15) 0x3f)))
    (tblE skb 7 (LE.or (LE.and (LE.shr d 21) 0x0f) (LE.and (LE.shr d 22) 0x30)))
  let k0 := LE.and (LE.or (LE.shl t 16) (LE.and s 0x0000ffff)) 0xffffffff
  let s := LE.or (LE.shr s 16) (LE.and t 0xffff0000)
  let s := LE.or (LE.shl s 4) (LE.shr s 28)
  let k1 := LE.and s 0xffffffff
  (c, d, k0, k1)

theorem ksStep_eval (X : Nat) (c d : LE) (i : Nat) (two : Bool) (h : (shifts2.getD i 0 ≠ 0) ↔ two = true) :
    ksStep (eval X c) (eval X d) i =
      (eval X (ksStepE two c d).1, eval X (ksStepE two c d).2.1, eval X (ksStepE two c d).2.2.1,
        eval X (ksStepE two c d).2.2.2) := by
  unfold ksStep ksStepE
  cases two
  · have : ¬ (shifts2.getD i 0 ≠ 0) := by rw [h]; simp
    rw [if_neg this]; rfl
  · have : shifts2.getD i 0 ≠ 0 := by rw [h]
    rw [if_pos this]; rfl

/-- the packed state `X = C‖D` (56 bits, FIPS order) and its two halves in libdes bit order. -/
def xC : LE := LE.shr LE.inp 28
def xD : LE := LE.and LE.inp 0x0fffffff
def mC : LE := LE.rev 28 xC
def mD : LE := LE.rev 28 xD

def rotlE (n : Nat) (x : LE) : LE := LE.and (LE.or (LE.shlN x n) (LE.shr x (28 - n))) 0x0fffffff

/-- the round key of the textbook step, over the packed state. -/
def specKE (n : Nat) : LE := LE.perm Spec.PC2 56 (LE.or (LE.shlN (rotlE n xC) 28) (rotlE n xD))

def stepM (two : Bool) : LE × LE × LE × LE := ksStepE two mC mD

theorem step_ok (two : Bool) : (ok (2 ^ 56 - 1) (stepM two).1 && ok (2 ^ 56 - 1) (stepM two).2.1 &&
    ok (2 ^ 56 - 1) (stepM two).2.2.1 && ok (2 ^ 56 - 1) (stepM two).2.2.2) = true := by
  cases two <;> decide +kernel

theorem step_spec_ok (n : Nat) (hn : n = 1 ∨ n = 2) :
    (ok (2 ^ 56 - 1) (LE.rev 28 (rotlE n xC)) && ok (2 ^ 56 - 1) (LE.rev 28 (rotlE n xD)) &&
      ok (2 ^ 56 - 1) (kw0E (specKE n)) && ok (2 ^ 56 - 1) (kw1E (specKE n))) = true := by
  rcases hn with rfl | rfl <;> decide +kernel

theorem step_basis (two : Bool) :
    let n := if two then 2 else 1
    ((List.range 56).all (fun i => eval (2 ^ i) (stepM two).1 == eval (2 ^ i) (LE.rev 28 (rotlE n xC))) &&
     (List.range 56).all (fun i => eval (2 ^ i) (stepM two).2.1 == eval (2 ^ i) (LE.rev 28 (rotlE n xD))) &&
     (List.range 56).all (fun i => eval (2 ^ i) (stepM two).2.2.1 == eval (2 ^ i) (kw0E (specKE n))) &&
     (List.range 56).all (fun i => eval (2 ^ i) (stepM two).2.2.2 == eval (2 ^ i) (kw1E (specKE n)))) = true := by
  cases two <;> decide +kernel

end PttVerif.C02.Lin
