import PttVerif.Model.C01Cfg
/-
C01 — helper lemmas: the alignment function, the universal packed = aligned theorem by mutual induction over the
layout tree, byte-level characterisation of `writeAt`, the frame lemmas for record files, and the
unfolding lemmas of the partial-update models.
-/
namespace PttVerif.C01
open PttVerif
set_option linter.unusedSimpArgs false


theorem alignUp_of_mod_eq_zero (x a : Nat) (h : x % a = 0) : alignUp x a = x := by
  simp [alignUp, h]

theorem alignUp_ge (x a : Nat) : x ≤ alignUp x a := by simp [alignUp]

theorem alignUp_dvd (x a : Nat) (ha : 0 < a) : alignUp x a % a = 0 := by
  unfold alignUp
  by_cases h : x % a = 0
  · simp [h, Nat.mod_self]
  · have hlt : x % a < a := Nat.mod_lt _ ha
    have : (a - x % a) % a = a - x % a := Nat.mod_eq_of_lt (by omega)
    rw [this]
    have h2 : x = a * (x / a) + x % a := (Nat.div_add_mod x a).symm
    have : x + (a - x % a) = a * (x / a + 1) := by
      rw [Nat.mul_add]; omega
    rw [this]; exact Nat.mul_mod_right _ _

theorem alignUp_lt (x a : Nat) (ha : 0 < a) : alignUp x a < x + a := by
  unfold alignUp
  have : (a - x % a) % a < a := Nat.mod_lt _ ha
  omega

mutual
theorem sizeA_eq_sizeP_of_wellPadded : ∀ (t : Ty), wellPadded t = true → sizeA t = sizeP t
  | .prim _ _, _ => by simp [sizeA, sizeP]
  | .arr n e, h => by
      simp only [wellPadded] at h
      simp [sizeA, sizeP, sizeA_eq_sizeP_of_wellPadded e h]
  | .struct fs, h => by
      simp only [wellPadded, Bool.and_eq_true, beq_iff_eq] at h
      have := (layout_of_wellPaddedFrom fs 0 h.1).1
      simp only [sizeA, sizeP, this, Nat.zero_add]
      exact alignUp_of_mod_eq_zero _ _ h.2
theorem layout_of_wellPaddedFrom : ∀ (fs : List (String × Ty)) (off : Nat), wellPaddedFrom fs off = true →
    endA fs off = off + sizePs fs ∧ fieldsA fs off = fieldsP fs off
  | [], off, _ => by simp [endA, sizePs, fieldsA, fieldsP]
  | (n, t) :: r, off, h => by
      simp only [wellPaddedFrom, Bool.and_eq_true, beq_iff_eq] at h
      obtain ⟨⟨h1, h2⟩, h3⟩ := h
      have ht := sizeA_eq_sizeP_of_wellPadded t h2
      have ih := layout_of_wellPaddedFrom r (off + sizeP t) h3
      simp only [endA, sizePs, fieldsA, fieldsP, alignUp_of_mod_eq_zero _ _ h1, ht, ih.1, ih.2]
      simp [Nat.add_assoc]
end


theorem writeAt_getElem? (f : List Nat) (pos : Nat) (b : List Nat) (i : Nat) :
    (writeAt f pos b)[i]? =
      if i < pos then (if i < f.length then f[i]? else some 0)
      else if i < pos + b.length then b[i - pos]? else f[i]? := by
  unfold writeAt
  have hl0 : (List.take pos f).length = min pos f.length := by simp
  have hl : (List.take pos f ++ List.replicate (pos - f.length) 0).length = pos := by simp; omega
  have hl2 : (List.take pos f ++ List.replicate (pos - f.length) 0 ++ b).length = pos + b.length := by
    simp; omega
  by_cases h1 : i < pos
  · simp only [h1, if_true]
    rw [List.getElem?_append_left (by omega), List.getElem?_append_left (by omega)]
    by_cases h2 : i < f.length
    · simp only [h2, if_true]
      rw [List.getElem?_append_left (by omega)]
      simp [List.getElem?_take, h1]
    · simp only [h2, if_false]
      rw [List.getElem?_append_right (by omega)]
      simp [List.getElem?_replicate]; omega
  · simp only [h1, if_false]
    by_cases h2 : i < pos + b.length
    · simp only [h2, if_true]
      rw [List.getElem?_append_left (by omega), List.getElem?_append_right (by omega), hl]
    · simp only [h2, if_false]
      rw [List.getElem?_append_right (by omega), hl2, List.getElem?_drop]
      congr 1; omega

theorem writeAt_length (f : List Nat) (pos : Nat) (b : List Nat) :
    (writeAt f pos b).length = max f.length (pos + b.length) := by
  simp [writeAt]; omega

theorem slot_getElem? (f : List Nat) (sz v i : Nat) :
    (slot f sz v)[i]? = if i < sz then f[v * sz + i]? else none := by
  simp [slot, List.getElem?_take, List.getElem?_drop]

theorem fieldBytes_getElem? (r : List Nat) (off n i : Nat) :
    (fieldBytes r off n)[i]? = if i < n then r[off + i]? else none := by
  simp [fieldBytes, List.getElem?_take, List.getElem?_drop]



/-- in-range write: same length. -/
theorem writeAt_length_of_le (f : List Nat) (pos : Nat) (b : List Nat) (h : pos + b.length ≤ f.length) :
    (writeAt f pos b).length = f.length := by
  rw [writeAt_length]; omega

theorem writeAt_outside (f : List Nat) (pos : Nat) (b : List Nat) (h : pos + b.length ≤ f.length) (i : Nat)
    (hi : i < pos ∨ pos + b.length ≤ i) : (writeAt f pos b)[i]? = f[i]? := by
  rw [writeAt_getElem?]
  rcases hi with hi | hi
  · have : i < f.length := by omega
    simp [hi, this]
  · have h1 : ¬ i < pos := by omega
    have h2 : ¬ i < pos + b.length := by omega
    simp [h1, h2]

theorem writeAt_inside (f : List Nat) (pos : Nat) (b : List Nat) (j : Nat) (hj : j < b.length) :
    (writeAt f pos b)[pos + j]? = b[j]? := by
  rw [writeAt_getElem?]
  have h1 : ¬ pos + j < pos := by omega
  have h2 : pos + j < pos + b.length := by omega
  simp [h1, h2]

/-- the frame property of a seek-and-write into record `w` (0-based) of a record file. -/
theorem slot_frame (f : List Nat) (sz w off : Nat) (b : List Nat)
    (hfit : off + b.length ≤ sz) (hin : (w + 1) * sz ≤ f.length) :
    (writeAt f (sz * w + off) b).length = f.length ∧
    (∀ v, v ≠ w → slot (writeAt f (sz * w + off) b) sz v = slot f sz v) ∧
    slot (writeAt f (sz * w + off) b) sz w = writeAt (slot f sz w) off b := by
  have hm : (w + 1) * sz = w * sz + sz := Nat.succ_mul w sz
  have hc : sz * w = w * sz := Nat.mul_comm sz w
  have hlen := writeAt_length_of_le f (sz * w + off) b (by omega)
  refine ⟨hlen, ?_, ?_⟩
  · intro v hv
    apply List.ext_getElem?
    intro i
    rw [slot_getElem?, slot_getElem?]
    by_cases hi : i < sz
    · simp only [hi, if_true]
      apply writeAt_outside _ _ _ (by omega)
      rcases Nat.lt_or_gt_of_ne hv with h | h
      · have := Nat.mul_le_mul_right sz (show v + 1 ≤ w from h)
        rw [Nat.succ_mul] at this
        left; omega
      · have := Nat.mul_le_mul_right sz (show w + 1 ≤ v from h)
        rw [Nat.succ_mul] at this
        right; omega
    · simp [hi]
  · apply List.ext_getElem?
    intro i
    rw [slot_getElem?, writeAt_getElem?, writeAt_getElem?]
    have hsl : (slot f sz w).length = sz := by simp [slot]; omega
    by_cases hi : i < sz
    · simp only [hi, if_true, hsl, slot_getElem?]
      by_cases h1 : i < off
      · have : w * sz + i < sz * w + off := by omega
        have h3 : w * sz + i < f.length := by omega
        simp [h1, this, h3]
      · have h1' : ¬ w * sz + i < sz * w + off := by omega
        simp only [h1, h1', if_false]
        by_cases h2 : i < off + b.length
        · have : w * sz + i < sz * w + off + b.length := by omega
          simp only [h2, this, if_true]
          congr 1; omega
        · have : ¬ w * sz + i < sz * w + off + b.length := by omega
          simp [h2, this, hi]
    · have h1 : ¬ i < off := by omega
      have h2 : ¬ i < off + b.length := by omega
      simp [hi, h1, h2, slot_getElem?]

/-- inside one record: the target field holds the new bytes, every disjoint range keeps its bytes. -/
theorem record_frame (r : List Nat) (off : Nat) (b : List Nat) (h : off + b.length ≤ r.length) :
    fieldBytes (writeAt r off b) off b.length = b ∧
    (∀ o n, (o + n ≤ off ∨ off + b.length ≤ o) →
      fieldBytes (writeAt r off b) o n = fieldBytes r o n) := by
  constructor
  · apply List.ext_getElem?
    intro i
    rw [fieldBytes_getElem?]
    by_cases hi : i < b.length
    · simp only [hi, if_true]; exact writeAt_inside r off b i hi
    · simp only [hi, if_false]
      rw [List.getElem?_eq_none (by omega)]
  · intro o n hd
    apply List.ext_getElem?
    intro i
    rw [fieldBytes_getElem?, fieldBytes_getElem?]
    by_cases hi : i < n
    · simp only [hi, if_true]
      exact writeAt_outside r off b h _ (by omega)
    · simp [hi]


theorem alignUp_least (x a y : Nat) (ha : 0 < a) (hxy : x ≤ y) (hy : y % a = 0) : alignUp x a ≤ y := by
  have h1 := alignUp_dvd x a ha
  have h2 := alignUp_lt x a ha
  have e1 : alignUp x a = a * (alignUp x a / a) := by
    have := Nat.div_add_mod (alignUp x a) a; omega
  have e2 : y = a * (y / a) := by
    have := Nat.div_add_mod y a; omega
  apply Nat.le_of_not_lt
  intro hlt
  rw [e1, e2] at hlt
  have hq : y / a < alignUp x a / a := Nat.lt_of_mul_lt_mul_left hlt
  have := Nat.mul_le_mul_left a (show y / a + 1 ≤ alignUp x a / a from hq)
  rw [Nat.mul_add] at this
  omega

/-! ### unfolding the partial-update models -/

theorem validUid_some (c : Config) (uid : Int) (u : Nat) (h : validUid c uid = some u) :
    uid = (u : Int) ∧ 1 ≤ u ∧ ∃ m, c.const "MAX_USERS" = some m ∧ u ≤ m := by
  unfold validUid at h
  split at h
  · rename_i n m hm
    split at h
    · rename_i hc
      cases h
      exact ⟨rfl, hc.1, m, hm, hc.2⟩
    · cases h
  · cases h

theorem passwdWrite_some (c : Config) (fn : String) (f : List Nat) (uid : Int) (b f' : List Nat) (sz off n : Nat)
    (hs : c.seek fn = some ⟨some sz, [(off, n)]⟩) (h : passwdWrite c fn f uid b = some f') :
    ∃ u, validUid c uid = some u ∧ b.length = n ∧ f' = writeAt f (seekPos sz u off) b := by
  unfold passwdWrite at h
  split at h
  · cases h
  · rename_i u hu
    rw [hs] at h
    simp only at h
    split at h
    · rename_i hb
      simp only [Option.some.injEq] at h
      exact ⟨u, hu, hb, h.symm⟩
    · cases h

theorem passwdRead_eq (c : Config) (fn : String) (f : List Nat) (uid : Int) (u sz off n : Nat)
    (hs : c.seek fn = some ⟨some sz, [(off, n)]⟩) (hu : validUid c uid = some u) :
    passwdRead c fn f uid = readAt f (seekPos sz u off) n := by
  unfold passwdRead
  rw [hu]
  simp only [hs]

theorem passwdQuery_eq (c : Config) (f : List Nat) (uid : Int) (u sz : Nat) (t : Ty)
    (hs : c.seek "cmbbs.PasswdQuery" = some ⟨some sz, []⟩) (ht : c.ty "UserecRaw" = some t)
    (hu : validUid c uid = some u) :
    passwdQuery c f uid = readAt f (seekPos sz u 0) (sizeP t) := by
  unfold passwdQuery
  rw [hu]
  simp only [hs, ht]

theorem readAt_some (f : List Nat) (pos n : Nat) (r : List Nat) (h : readAt f pos n = some r) :
    pos + n ≤ f.length ∧ r = (f.drop pos).take n := by
  unfold readAt at h
  split at h
  · simp only [Option.some.injEq] at h; exact ⟨by assumption, h.symm⟩
  · cases h

/-- reading a field directly = reading the record and slicing the field out of it. -/
theorem readAt_field (f : List Nat) (pos sz off n : Nat) (r : List Nat) (hfit : off + n ≤ sz)
    (h : readAt f pos sz = some r) : readAt f (pos + off) n = some (fieldBytes r off n) := by
  obtain ⟨h1, rfl⟩ := readAt_some f pos sz r h
  unfold readAt
  rw [if_pos (by omega)]
  congr 1
  apply List.ext_getElem?
  intro i
  rw [fieldBytes_getElem?]
  simp only [List.getElem?_take, List.getElem?_drop]
  by_cases hi : i < n
  · have : off + i < sz := by omega
    simp [hi, this, Nat.add_assoc]
  · simp [hi]

theorem le32_length (v : Nat) : (le32 v).length = 4 := rfl

theorem passwdUpdate_some (c : Config) (f : List Nat) (uid : Int) (r f' : List Nat) (sz : Nat) (t : Ty)
    (hs : c.seek "cmbbs.PasswdUpdate" = some ⟨some sz, []⟩) (ht : c.ty "UserecRaw" = some t)
    (h : passwdUpdate c f uid r = some f') :
    ∃ u, validUid c uid = some u ∧ r.length = sizeP t ∧ f' = writeAt f (seekPos sz u 0) r := by
  unfold passwdUpdate at h
  split at h
  · cases h
  · rename_i u hu
    simp only [hs, ht] at h
    split at h
    · rename_i hb
      simp only [Option.some.injEq] at h
      exact ⟨u, hu, hb, h.symm⟩
    · cases h

/-- every field of the packed layout lies inside the packed image. -/
theorem fieldsP_bound : ∀ (fs : Fields) (off0 : Nat) (e : String × Nat × Nat), e ∈ fieldsP fs off0 →
    off0 ≤ e.2.1 ∧ e.2.1 + e.2.2 ≤ off0 + sizePs fs
  | [], _, e, h => by simp [fieldsP] at h
  | (n, t) :: r, off0, e, h => by
      simp only [fieldsP, List.mem_cons] at h
      rcases h with h | h
      · subst h; simp [sizePs]
      · have := fieldsP_bound r (off0 + sizeP t) e h
        simp only [sizePs]; omega

theorem packed_field_bound (t : Ty) (i : Nat) (e : String × Nat × Nat) (h : t.packed[i]? = some e) :
    e.2.1 + e.2.2 ≤ sizeP t := by
  have hm : e ∈ t.packed := List.mem_of_getElem? h
  cases t with
  | prim s a => simp [Ty.packed, Ty.fields, fieldsP] at hm
  | arr n e' => simp [Ty.packed, Ty.fields, fieldsP] at hm
  | struct fs =>
    have := fieldsP_bound fs 0 e hm
    simp only [sizeP]; omega

/-- two consecutive 4-byte writes at offsets 4 and 8 of a 128-byte record. -/
theorem double_write_frame (f1 x y : List Nat) (hx : x.length = 4) (hy : y.length = 4) (hl : f1.length = 128) :
    (writeAt (writeAt f1 4 x) 8 y).length = 128 ∧
    (∀ i, (i < 4 ∨ 12 ≤ i) → (writeAt (writeAt f1 4 x) 8 y)[i]? = f1[i]?) ∧
    fieldBytes (writeAt (writeAt f1 4 x) 8 y) 8 4 = y ∧
    fieldBytes (writeAt (writeAt f1 4 x) 8 y) 4 4 = x := by
  have hl1 : (writeAt f1 4 x).length = 128 := by rw [writeAt_length]; omega
  refine ⟨by rw [writeAt_length]; omega, ?_, ?_, ?_⟩
  · intro i hi
    rw [writeAt_outside _ 8 y (by omega) i (by omega)]
    exact writeAt_outside f1 4 x (by omega) i (by omega)
  · have := (record_frame (writeAt f1 4 x) 8 y (by omega)).1
    rwa [hy] at this
  · rw [(record_frame (writeAt f1 4 x) 8 y (by omega)).2 4 4 (by omega)]
    have := (record_frame f1 4 x (by omega)).1
    rwa [hx] at this


theorem fieldsP_sizes_sum : ∀ (fs : Fields) (off : Nat), ((fieldsP fs off).map (fun x => x.2.2)).sum = sizePs fs
  | [], _ => rfl
  | (n, t) :: r, off => by simp [fieldsP, sizePs, fieldsP_sizes_sum r]

/-! ### histories -/

def HStep.isFail : HStep → Bool
  | .fail => true
  | _ => false

theorem runHist_snd_cons (c : Config) (s : HFiles) (st : HStep) (r : List HStep) :
    (runHist c s (st :: r)).2 = (runHist c (hstep c s st).2 r).2 := by
  simp [runHist]

theorem runHist_append_one (c : Config) : ∀ (pre : List HStep) (s : HFiles) (st : HStep),
    (runHist c s (pre ++ [st])).2 = (hstep c (runHist c s pre).2 st).2
  | [], s, st => by simp [runHist]
  | p :: pre, s, st => by
      rw [List.cons_append, runHist_snd_cons, runHist_snd_cons]
      exact runHist_append_one c pre _ st

theorem runHist_filter_fail (c : Config) : ∀ (h : List HStep) (s : HFiles),
    (runHist c s (h.filter (fun st => !st.isFail))).2 = (runHist c s h).2
  | [], s => rfl
  | st :: r, s => by
      cases st with
      | fail =>
        simp only [List.filter, HStep.isFail, Bool.not_true]
        rw [runHist_snd_cons]
        exact runHist_filter_fail c r s
      | upd fn uid v =>
        simp only [List.filter, HStep.isFail, Bool.not_false]
        rw [runHist_snd_cons, runHist_snd_cons]
        exact runHist_filter_fail c r _
      | whole uid v =>
        simp only [List.filter, HStep.isFail, Bool.not_false]
        rw [runHist_snd_cons, runHist_snd_cons]
        exact runHist_filter_fail c r _
      | app v =>
        simp only [List.filter, HStep.isFail, Bool.not_false]
        rw [runHist_snd_cons, runHist_snd_cons]
        exact runHist_filter_fail c r _

/-! ### concurrent writers -/

/-- invariant of the private-scratch semantics: a writer's scratch is empty or its own image, and its file
consists of whole copies of its own image. -/
def WInv (img : Nat → List Nat) (s : WState) : Prop :=
  ∀ i, (s.scratch i = [] ∨ s.scratch i = img i) ∧ ∃ k, s.files i = (List.replicate k (img i)).flatten

theorem wstep_inv (img : Nat → List Nat) (s : WState) (st : WStep) (h : WInv img s) : WInv img (wstep img s st) := by
  intro i
  cases st with
  | enc j =>
    simp only [wstep]
    refine ⟨?_, (h i).2⟩
    by_cases hj : i = j
    · subst hj; simp
    · simp [hj]; exact (h i).1
  | wr j =>
    simp only [wstep]
    refine ⟨(h i).1, ?_⟩
    by_cases hj : i = j
    · subst hj
      obtain ⟨k, hk⟩ := (h i).2
      rcases (h i).1 with h0 | h1
      · exact ⟨k, by simp [hk, h0]⟩
      · refine ⟨k + 1, ?_⟩
        simp only [if_true, hk, h1]
        rw [List.replicate_succ']
        simp
    · simp [hj]; exact (h i).2

theorem wrun_inv (img : Nat → List Nat) : ∀ (sched : List WStep) (s : WState), WInv img s → WInv img (wrun img s sched)
  | [], s, h => h
  | st :: r, s, h => by
      simp only [wrun, List.foldl]
      exact wrun_inv img r _ (wstep_inv img s st h)

theorem winit_inv (img : Nat → List Nat) : WInv img winit := by
  intro i; exact ⟨Or.inl rfl, 0, rfl⟩

end PttVerif.C01
