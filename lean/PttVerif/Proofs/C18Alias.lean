import PttVerif.Model.C18Alias
import PttVerif.Proofs.C18Ansi
/-
C18 (result ownership) — helper lemmas: every call only appends backing arrays to the heap, so whatever a
caller holds reads the same after any later history.
-/
namespace PttVerif.C18
open PttVerif

/-- every held slice points into an existing backing array. -/
def HeldValid (h : Heap) (held : List Res) : Prop := ∀ r ∈ held, ∀ s ∈ r.sls, s.buf < h.length

theorem rd_append (h extra : Heap) (s : Sl) (hs : s.buf < h.length) : (h ++ extra).rd s = h.rd s := by
  unfold Heap.rd
  simp [List.getD, List.getElem?_append_left hs]

theorem alloc_spec (h : Heap) (b : List Nat) :
    (alloc h b).1 = h ++ [b] ∧ (alloc h b).2.buf < (alloc h b).1.length ∧ (alloc h b).1.rd (alloc h b).2 = b := by
  refine ⟨rfl, by simp [alloc], ?_⟩
  simp [alloc, Heap.rd, List.getD]

theorem resolve_spec (h : Heap) (held : List Res) (a : Arg) (h1 : Heap) (s : Sl) (hv : HeldValid h held)
    (hr : resolve h held a = some (h1, s)) : (∃ extra, h1 = h ++ extra) ∧ s.buf < h1.length := by
  cases a with
  | lit b =>
    simp only [resolve, Option.some.injEq, Prod.mk.injEq] at hr
    obtain ⟨rfl, rfl⟩ := hr
    exact ⟨⟨[b], rfl⟩, by simp [alloc]⟩
  | ref i =>
    simp only [resolve] at hr
    cases hi : held[i]? with
    | none => simp [hi] at hr
    | some r =>
      simp only [hi] at hr
      cases hs : r.sls with
      | nil => simp [hs] at hr
      | cons s0 rest =>
        simp only [hs, Option.some.injEq, Prod.mk.injEq] at hr
        obtain ⟨rfl, rfl⟩ := hr
        exact ⟨⟨[], by simp⟩, hv r (List.mem_of_getElem? hi) s0 (by simp [hs])⟩

theorem allocAll_spec (h : Heap) (ls : List (List Nat)) :
    (∃ extra, (allocAll h ls).1 = h ++ extra) ∧ ∀ s ∈ (allocAll h ls).2, s.buf < (allocAll h ls).1.length := by
  induction ls generalizing h with
  | nil => exact ⟨⟨[], by simp [allocAll]⟩, by simp [allocAll]⟩
  | cons l ls ih =>
    obtain ⟨⟨extra, he⟩, hs⟩ := ih (h ++ [l])
    simp only [allocAll, alloc]
    refine ⟨⟨[l] ++ extra, by rw [he]; simp⟩, ?_⟩
    intro s hm
    simp only [List.mem_cons] at hm
    rcases hm with rfl | hm
    · rw [he]; simp
    · exact hs s hm

/-- one call: the heap only grows, and the new result points into it. -/
theorem stepRun_spec (h : Heap) (held : List Res) (st : Step) (h' : Heap) (r : Res) (hv : HeldValid h held)
    (hrun : stepRun h held st = some (.ok (h', r))) :
    (∃ extra, h' = h ++ extra) ∧ ∀ s ∈ r.sls, s.buf < h'.length := by
  -- the common shape of the cases with an argument: resolve, then a monadic body
  have viewCase : ∀ (a : Arg) (body : Heap × Sl → M (Heap × Res)),
      (resolve h held a).map body = some (.ok (h', r)) →
      (∀ h1 s, (∃ extra, h1 = h ++ extra) → s.buf < h1.length → body (h1, s) = .ok (h', r) →
        (∃ extra, h' = h1 ++ extra) ∧ ∀ s ∈ r.sls, s.buf < h'.length) →
      (∃ extra, h' = h ++ extra) ∧ ∀ s ∈ r.sls, s.buf < h'.length := by
    intro a body hm hb
    cases hres : resolve h held a with
    | none => simp [hres] at hm
    | some p =>
      obtain ⟨h1, s⟩ := p
      simp only [hres, Option.map_some, Option.some.injEq] at hm
      obtain ⟨⟨e1, he1⟩, hs1⟩ := resolve_spec h held a h1 s hv hres
      obtain ⟨⟨e2, he2⟩, hs2⟩ := hb h1 s ⟨e1, he1⟩ hs1 hm
      exact ⟨⟨e1 ++ e2, by rw [he2, he1]; simp⟩, hs2⟩
  cases st with
  | strip flag a =>
    refine viewCase a _ hrun ?_
    intro h1 s _ hs hb
    simp only [bind, Except.bind] at hb
    cases ho : stripAnsi (h1.rd s) flag with
    | error e => simp [ho] at hb
    | ok out =>
      simp only [ho, alloc, pure, Except.pure, Except.ok.injEq, Prod.mk.injEq] at hb
      obtain ⟨rfl, rfl⟩ := hb
      exact ⟨⟨_, rfl⟩, by simp⟩
  | toBytes a =>
    refine viewCase a _ hrun ?_
    intro h1 s _ hs hb
    simp only [bind, Except.bind] at hb
    cases ho : cstrToBytes (h1.rd s) with
    | error e => simp [ho] at hb
    | ok out =>
      simp only [ho, pure, Except.pure, Except.ok.injEq, Prod.mk.injEq] at hb
      obtain ⟨rfl, rfl⟩ := hb
      exact ⟨⟨[], by simp⟩, by simpa using hs⟩
  | lower a =>
    refine viewCase a _ hrun ?_
    intro h1 s _ hs hb
    simp only [alloc, pure, Except.pure, Except.ok.injEq, Prod.mk.injEq] at hb
    obtain ⟨rfl, rfl⟩ := hb
    exact ⟨⟨_, rfl⟩, by simp⟩
  | upper a =>
    refine viewCase a _ hrun ?_
    intro h1 s _ hs hb
    simp only [alloc, pure, Except.pure, Except.ok.injEq, Prod.mk.injEq] at hb
    obtain ⟨rfl, rfl⟩ := hb
    exact ⟨⟨_, rfl⟩, by simp⟩
  | tokenR a sep =>
    refine viewCase a _ hrun ?_
    intro h1 s _ hs hb
    simp only [bind, Except.bind] at hb
    cases ho : cstrTokenR (h1.rd s) sep with
    | error e => simp [ho] at hb
    | ok out =>
      simp only [ho, pure, Except.pure, Except.ok.injEq, Prod.mk.injEq] at hb
      obtain ⟨rfl, rfl⟩ := hb
      refine ⟨⟨[], by simp⟩, ?_⟩
      intro s' hm
      simp only [List.mem_cons, List.not_mem_nil, or_false] at hm
      rcases hm with rfl | rfl <;> exact hs
  | dbcsTrim a =>
    refine viewCase a _ hrun ?_
    intro h1 s _ hs hb
    simp only [bind, Except.bind] at hb
    cases ho : dbcsSafeTrim (h1.rd s) with
    | error e => simp [ho] at hb
    | ok out =>
      simp only [ho, pure, Except.pure, Except.ok.injEq, Prod.mk.injEq] at hb
      obtain ⟨rfl, rfl⟩ := hb
      exact ⟨⟨[], by simp⟩, by simpa using hs⟩
  | trim a =>
    refine viewCase a _ hrun ?_
    intro h1 s _ hs hb
    simp only [bind, Except.bind] at hb
    cases ho : trim (h1.rd s) with
    | error e => simp [ho] at hb
    | ok out =>
      simp only [ho, pure, Except.pure, Except.ok.injEq, Prod.mk.injEq] at hb
      obtain ⟨rfl, rfl⟩ := hb
      exact ⟨⟨[], by simp⟩, by simpa using hs⟩
  | lines a =>
    refine viewCase a _ hrun ?_
    intro h1 s _ hs hb
    simp only [bind, Except.bind] at hb
    cases ho : readLines (h1.rd s) with
    | error e => simp [ho] at hb
    | ok ls =>
      simp only [ho, pure, Except.pure, Except.ok.injEq, Prod.mk.injEq] at hb
      obtain ⟨rfl, rfl⟩ := hb
      exact allocAll_spec h1 ls
  | nb5 b =>
    simp only [stepRun, Option.some.injEq, bind, Except.bind] at hrun
    cases ho : stripNoneBig5 b with
    | error e => simp [ho] at hrun
    | ok out =>
      simp only [ho, alloc, pure, Except.pure, Except.ok.injEq, Prod.mk.injEq] at hrun
      obtain ⟨rfl, rfl⟩ := hrun
      exact ⟨⟨_, rfl⟩, by simp⟩
  | trimDBCS b =>
    simp only [stepRun, Option.some.injEq, bind, Except.bind] at hrun
    cases ho : trimDBCS b with
    | error e => simp [ho] at hrun
    | ok out =>
      simp only [ho, alloc, pure, Except.pure, Except.ok.injEq, Prod.mk.injEq] at hrun
      obtain ⟨rfl, rfl⟩ := hrun
      exact ⟨⟨_, rfl⟩, by simp⟩
  | subject b =>
    simp only [stepRun, Option.some.injEq, bind, Except.bind] at hrun
    cases ho : subjectEx b with
    | error e => simp [ho] at hrun
    | ok out =>
      simp only [ho, alloc, pure, Except.pure, Except.ok.injEq, Prod.mk.injEq] at hrun
      obtain ⟨rfl, rfl⟩ := hrun
      exact ⟨⟨_, rfl⟩, by simp⟩

theorem heldValid_step (h : Heap) (held : List Res) (extra : Heap) (r : Res) (hv : HeldValid h held)
    (hr : ∀ s ∈ r.sls, s.buf < (h ++ extra).length) : HeldValid (h ++ extra) (held ++ [r]) := by
  intro r' hm s hs
  simp only [List.mem_append, List.mem_singleton] at hm
  rcases hm with hm | rfl
  · have := hv r' hm s hs
    simp; omega
  · exact hr s hs

/-- a history: the heap only grows, everything held stays valid, earlier results stay in the held list. -/
theorem histRun_spec (steps : List Step) (h : Heap) (held : List Res) (hF : Heap) (heldF : List Res)
    (hv : HeldValid h held) (hrun : histRun h held steps = some (.ok (hF, heldF))) :
    (∃ extra, hF = h ++ extra) ∧ HeldValid hF heldF ∧ held <+: heldF := by
  induction steps generalizing h held with
  | nil =>
    simp only [histRun, pure, Except.pure, Option.some.injEq, Except.ok.injEq, Prod.mk.injEq] at hrun
    obtain ⟨rfl, rfl⟩ := hrun
    exact ⟨⟨[], by simp⟩, hv, List.prefix_refl _⟩
  | cons st rest ih =>
    simp only [histRun] at hrun
    cases hs : stepRun h held st with
    | none => simp [hs] at hrun
    | some m =>
      cases m with
      | error e => simp [hs] at hrun
      | ok p =>
        obtain ⟨h', r⟩ := p
        simp only [hs] at hrun
        obtain ⟨⟨e1, rfl⟩, hr⟩ := stepRun_spec h held st h' r hv hs
        obtain ⟨⟨e2, he2⟩, hv2, hp⟩ := ih (h ++ e1) (held ++ [r]) (heldValid_step h held e1 r hv hr) hrun
        exact ⟨⟨e1 ++ e2, by rw [he2]; simp⟩, hv2, (List.prefix_append held [r]).trans hp⟩

theorem histRun_append (s1 s2 : List Step) (h : Heap) (held : List Res) (h1 : Heap) (held1 : List Res)
    (hrun : histRun h held s1 = some (.ok (h1, held1))) :
    histRun h held (s1 ++ s2) = histRun h1 held1 s2 := by
  induction s1 generalizing h held with
  | nil =>
    simp only [histRun, pure, Except.pure, Option.some.injEq, Except.ok.injEq, Prod.mk.injEq] at hrun
    obtain ⟨rfl, rfl⟩ := hrun
    rfl
  | cons st rest ih =>
    simp only [histRun, List.cons_append] at hrun ⊢
    cases hs : stepRun h held st with
    | none => simp [hs] at hrun
    | some m =>
      cases m with
      | error e => simp [hs] at hrun
      | ok p =>
        obtain ⟨h', r⟩ := p
        simp only [hs] at hrun ⊢
        exact ih _ _ hrun

end PttVerif.C18
