import PttVerif.Model.C10
import PttVerif.Proofs.C05
/-
C10 — helper lemmas (property theorems are in Props/C10.lean).
-/
namespace PttVerif.C10
open PttVerif PttVerif.C05
open Gen.Comment Gen.RecFile

deriving instance DecidableEq for Except

/-! ### bytes of a rewritten field -/

theorem getElem?_setField_outside (r : List Nat) (off len : Nat) (bs : List Nat) (p : Nat)
    (h : off + len ≤ r.length) (hp : p < off ∨ off + len ≤ p) :
    (setField r off len bs)[p]? = r[p]? := by
  unfold setField
  rcases hp with hp | hp
  · rw [List.append_assoc, List.getElem?_append_left (by simp [List.length_take]; omega), List.getElem?_take_of_lt hp]
  · rw [List.getElem?_append_right (by simp [List.length_take]; omega)]
    simp only [List.length_append, List.length_take, copyInto_length, List.getElem?_drop]
    congr 1; omega

theorem getElem?_setField_inside (r : List Nat) (off len : Nat) (bs : List Nat) (i : Nat)
    (h : off + len ≤ r.length) (hi : i < len) :
    (setField r off len bs)[off + i]? = (copyInto len bs)[i]? := by
  unfold setField
  rw [List.append_assoc, List.getElem?_append_right (by simp [List.length_take]; omega),
    List.getElem?_append_left (by simp [List.length_take, copyInto_length]; omega)]
  congr 1; simp [List.length_take]; omega

/-- what ModifyDirLite writes when only `mtime` and `recommend` are given (the call of doAddRecommend). -/
theorem modifyRecord_modArgs (r nm : List Nat) (mt u : Int) :
    modifyRecord r (modArgs nm mt u) =
      setField
        (setField (if mt > 0 then setField r offModified lenModified (le32 mt.toNat) else r)
          offFilemode lenFilemode
          [(if mt > 0 then setField r offModified lenModified (le32 mt.toNat) else r).getD offFilemode 0])
        offRecommend lenRecommend
        [recommendUpdate
          ((setField (if mt > 0 then setField r offModified lenModified (le32 mt.toNat) else r)
            offFilemode lenFilemode
            [(if mt > 0 then setField r offModified lenModified (le32 mt.toNat) else r).getD offFilemode 0]).getD offRecommend 0) u] := by
  simp [modifyRecord, modArgs]

theorem getD_eq_of_getElem? {a b : List Nat} {p q : Nat} (h : a[p]? = b[q]?) : a.getD p 0 = b.getD q 0 := by
  simp [List.getD_eq_getElem?_getD, h]

/-- byte `p` of the rewritten entry. -/
theorem modifyRecord_modArgs_getElem? (r nm : List Nat) (mt u : Int) (hlen : r.length = 128) (p : Nat) (hp : p < 128) :
    (modifyRecord r (modArgs nm mt u))[p]? =
      if 28 ≤ p ∧ p < 32 ∧ mt > 0 then (le32 mt.toNat)[p - 28]?
      else if p = 33 then some (recommendUpdate (r.getD 33 0) u)
      else r[p]? := by
  rw [modifyRecord_modArgs]
  generalize hr1 : (if mt > 0 then setField r offModified lenModified (le32 mt.toNat) else r) = r1
  have l1 : r1.length = 128 := by
    rw [← hr1]; split
    · rw [length_setField _ _ _ _ (by simp [offModified, lenModified]; omega)]; exact hlen
    · exact hlen
  have b1 : ∀ q, q < 128 → r1[q]? = if 28 ≤ q ∧ q < 32 ∧ mt > 0 then (le32 mt.toNat)[q - 28]? else r[q]? := by
    intro q hq
    rw [← hr1]
    by_cases hm : mt > 0
    · rw [if_pos hm]
      by_cases hin : 28 ≤ q ∧ q < 32
      · rw [if_pos ⟨hin.1, hin.2, hm⟩]
        have : q = offModified + (q - 28) := by simp [offModified]; omega
        rw [this, getElem?_setField_inside _ _ _ _ _ (by simp [offModified, lenModified]; omega) (by simp [lenModified]; omega)]
        have hl : (le32 mt.toNat).length = 4 := by simp [le32]
        simp only [offModified, lenModified, Nat.add_sub_cancel_left]
        rw [copyInto_of_le _ _ (by omega), hl]; simp
      · rw [if_neg (by omega)]
        exact getElem?_setField_outside _ _ _ _ _ (by simp [offModified, lenModified]; omega) (by simp [offModified, lenModified]; omega)
    · rw [if_neg hm, if_neg (by omega)]
  generalize hr2 : setField r1 offFilemode lenFilemode [r1.getD offFilemode 0] = r2
  have l2 : r2.length = 128 := by
    rw [← hr2, length_setField _ _ _ _ (by simp [offFilemode, lenFilemode]; omega)]; exact l1
  have b2 : ∀ q, q < 128 → r2[q]? = r1[q]? := by
    intro q hq
    rw [← hr2]
    by_cases h124 : q = 124
    · subst h124
      have := getElem?_setField_inside r1 offFilemode lenFilemode [r1.getD offFilemode 0] 0
        (by simp [offFilemode, lenFilemode]; omega) (by simp [lenFilemode])
      simp only [offFilemode, lenFilemode, Nat.add_zero] at this ⊢
      rw [this]
      simp [copyInto, List.getD_eq_getElem?_getD]
      rw [List.getElem?_eq_getElem (by omega)]; simp
    · exact getElem?_setField_outside _ _ _ _ _ (by simp [offFilemode, lenFilemode]; omega) (by simp [offFilemode, lenFilemode]; omega)
  have h33 : r2.getD offRecommend 0 = r.getD 33 0 := by
    apply getD_eq_of_getElem?
    show r2[33]? = r[33]?
    rw [b2 33 (by omega), b1 33 (by omega), if_neg (by omega)]
  rw [h33]
  by_cases hq33 : p = 33
  · subst hq33
    rw [if_neg (by omega), if_pos rfl]
    have := getElem?_setField_inside r2 offRecommend lenRecommend [recommendUpdate (r.getD 33 0) u] 0
      (by simp [offRecommend, lenRecommend]; omega) (by simp [lenRecommend])
    simp only [offRecommend, lenRecommend, Nat.add_zero] at this ⊢
    rw [this]; simp [copyInto]
  · rw [getElem?_setField_outside _ _ _ _ _ (by simp [offRecommend, lenRecommend]; omega) (by simp [offRecommend, lenRecommend]; omega),
      b2 p hp, b1 p hp]
    by_cases hin : 28 ≤ p ∧ p < 32 ∧ mt > 0
    · rw [if_pos hin, if_pos hin]
    · rw [if_neg hin, if_neg hin, if_neg hq33]

/-! ### score arithmetic -/

/-- the stored byte denotes a score within the bounds of the property. -/
def InRange (b : Nat) : Prop := -100 ≤ toInt8 b ∧ toInt8 b ≤ 100

instance (b : Nat) : Decidable (InRange b) := by unfold InRange; infer_instance

/-- saturation at ±100. -/
def clamp (v : Int) : Int := if v > 100 then 100 else if v < -100 then -100 else v

/-- the property's score delta of a comment type: +1 push, -1 boo, 0 otherwise. -/
def delta (t : Nat) : Int := if t = COMMENT_TYPE_RECOMMEND then 1 else if t = COMMENT_TYPE_BOO then -1 else 0

/-- the byte the comment path stores for an entry whose score byte is `cur`:
doAddRecommend's guarded `update`, then ModifyDirLite's int8 sum and clamp. -/
def scoreAfter (t : Nat) (cur : Nat) : Nat := recommendUpdate cur (scoreUpdate t (toInt8 cur))

theorem maxRec_eq : maxRec = 100 := rfl

theorem recommendUpdate_step (cur : Nat) (d : Int) (hr : InRange cur) (hd : d = -1 ∨ d = 0 ∨ d = 1) :
    toInt8 (recommendUpdate cur d) = clamp (toInt8 cur + d) := by
  obtain ⟨h1, h2⟩ := hr
  unfold recommendUpdate clamp
  by_cases h0 : d = 0
  · subst h0; rw [if_pos rfl, if_neg (by omega), if_neg (by omega)]; omega
  · rw [if_neg h0]
    have hadd : addInt8 d (toInt8 cur) = toInt8 cur + d := by
      unfold addInt8
      rw [toInt8_int8Byte _ (by omega) (by omega)]; omega
    simp only [hadd, maxRec_eq]
    by_cases ha : toInt8 cur + d > 100
    · rw [if_pos ha, toInt8_int8Byte _ (by omega) (by omega)]
    · rw [if_neg ha]
      by_cases hb : toInt8 cur + d < -100
      · rw [if_pos hb, toInt8_int8Byte _ (by omega) (by omega)]
      · rw [if_neg hb, toInt8_int8Byte _ (by omega) (by omega)]

theorem scoreUpdate_cases (t : Nat) (c : Int) : scoreUpdate t c = -1 ∨ scoreUpdate t c = 0 ∨ scoreUpdate t c = 1 := by
  unfold scoreUpdate; split
  · right; right; rfl
  · split
    · left; rfl
    · right; left; rfl

/-- in range the guard of doAddRecommend only suppresses updates that the clamp would undo anyway. -/
theorem scoreAfter_step (t cur : Nat) (hr : InRange cur) : toInt8 (scoreAfter t cur) = clamp (toInt8 cur + delta t) := by
  unfold scoreAfter
  rw [recommendUpdate_step cur _ hr (scoreUpdate_cases _ _)]
  obtain ⟨h1, h2⟩ := hr
  unfold scoreUpdate delta clamp
  simp only [maxRec_eq]
  by_cases hp : t = COMMENT_TYPE_RECOMMEND
  · simp only [hp, true_and, if_true]
    by_cases hc : toInt8 cur < 100
    · rw [if_pos hc]
    · rw [if_neg hc]
      have hb : ¬ (COMMENT_TYPE_RECOMMEND = COMMENT_TYPE_BOO) := by decide
      simp only [hb, false_and, if_false]
      have : toInt8 cur = 100 := by omega
      rw [this]; decide
  · simp only [hp, false_and, if_false]
    by_cases hb : t = COMMENT_TYPE_BOO
    · simp only [hb, true_and, if_true]
      by_cases hc : toInt8 cur > -100
      · rw [if_pos hc]
      · rw [if_neg hc]
        have : toInt8 cur = -100 := by omega
        rw [this]; decide
    · simp only [hb, false_and, if_false]

theorem clamp_range (v : Int) : -100 ≤ clamp v ∧ clamp v ≤ 100 := by
  unfold clamp; split
  · omega
  · split <;> omega

theorem scoreAfter_inRange (t cur : Nat) (hr : InRange cur) : InRange (scoreAfter t cur) := by
  unfold InRange; rw [scoreAfter_step t cur hr]; exact clamp_range _

/-! ### the ways a request can end -/

theorem cstrcmpEq_refl (a : List Nat) : cstrcmpEq a a = true := (cstrcmpEq_iff a a).2 rfl

/-- the entry, its file and the new state of an accepted request. -/
def accepted (cfg : Cfg) (st : St) (q : Req) (k : Nat) (old : Bytes) : St :=
  let r := record st.dir.bytes dirSz k
  { dir := if q.mtime > 0 then
      ⟨true, writeAt st.dir.bytes (k * dirSz)
        (modifyRecord r (modArgs (field r offFilename lenFilename) q.mtime (scoreUpdate q.ctype (toInt8 (r.getD offRecommend 0)))))⟩
      else st.dir,
    files := fileSet st.files (cstr (field r offFilename lenFilename)) (old ++ formatComment cfg q) }

theorem getRecord_ok {find : Bytes → Nat → Bytes → Option Nat} {dir : FS} {total : Nat} {name : Bytes} {idx : Nat} {r : Bytes}
    (h : getRecord find dir total name = .ok (idx, r)) :
    ∃ k, idx = k + 1 ∧ r = record dir.bytes dirSz k ∧ (k + 1) * dirSz ≤ dir.bytes.length ∧
      nameEq name (field r offFilename lenFilename) = true ∧ find dir.bytes total name = some k := by
  unfold getRecord at h
  split at h
  · cases h
  · split at h
    · cases h
    · rename_i k hk
      simp only [] at h
      split at h
      · cases h
      · rename_i hlen
        split at h
        · cases h
        · rename_i hne
          injection h with h
          injection h with h1 h2
          refine ⟨k, h1.symm, h2.symm, ?_, ?_, hk⟩
          · rw [length_record, dirSz_eq] at hlen
            rw [dirSz_eq]; omega
          · rw [← h2]; simpa using hne

/-- every request on a board that has an index either fails and changes nothing, or is accepted and
produces exactly `accepted`. -/
theorem recommend_cases (find : Bytes → Nat → Bytes → Option Nat) (cfg : Cfg) (st : St) (q : Req)
    (hp : st.dir.present = true) :
    (∃ e, (∀ l i, e ≠ Res.ok l i) ∧ recommend find cfg st q = (st, e)) ∨
    ∃ k old, (k + 1) * dirSz ≤ st.dir.bytes.length ∧
      find st.dir.bytes (st.dir.bytes.length / dirSz) q.name = some k ∧
      nameEq q.name (field (record st.dir.bytes dirSz k) offFilename lenFilename) = true ∧
      refusedBy cfg q (record st.dir.bytes dirSz k) = false ∧ hasLineBreak q.text = false ∧
      fileGet st.files (cstr (field (record st.dir.bytes dirSz k) offFilename lenFilename)) = some old ∧
      recommend find cfg st q = (accepted cfg st q k old, .ok (formatComment cfg q) (k + 1)) := by
  unfold recommend
  simp only []
  by_cases ht : st.dir.bytes.length / dirSz = 0
  · left; refine ⟨Res.params, ?_, ?_⟩
    · intro l i h; cases h
    · rw [if_pos ht]
  · rw [if_neg ht]
    cases hg : getRecord find st.dir (st.dir.bytes.length / dirSz) q.name with
    | error e =>
      left
      refine ⟨e, ?_, rfl⟩
      intro l i he; subst he
      unfold getRecord at hg
      split at hg
      · cases hg
      · split at hg
        · cases hg
        · simp only [] at hg
          split at hg
          · cases hg
          · split at hg <;> cases hg
    | ok v =>
      obtain ⟨idx, r⟩ := v
      obtain ⟨k, rfl, rfl, hle, hne, hk⟩ := getRecord_ok hg
      simp only []
      by_cases hr : refusedBy cfg q (record st.dir.bytes dirSz k) = true
      · left; refine ⟨Res.refused, ?_, ?_⟩
        · intro l i h; cases h
        · rw [if_pos hr]
      · rw [if_neg hr]
        by_cases hb : hasLineBreak q.text = true
        · left; refine ⟨Res.badText, ?_, ?_⟩
          · intro l i h; cases h
          · rw [if_pos hb]
        rw [if_neg hb]
        unfold doAddRecommend
        simp only []
        cases hf : fileGet st.files (cstr (field (record st.dir.bytes dirSz k) offFilename lenFilename)) with
        | none =>
          left; refine ⟨Res.noFile, ?_, rfl⟩
          intro l i h; cases h
        | some old =>
          right
          refine ⟨k, old, hle, hk, hne, by simpa using hr, by simpa using hb, hf, ?_⟩
          simp only []
          by_cases hm : q.mtime > 0
          · rw [if_pos hm]
            have hmod := modifyDirLite_ok st.dir k
              (modArgs (field (record st.dir.bytes dirSz k) offFilename lenFilename) q.mtime
                (scoreUpdate q.ctype (toInt8 ((record st.dir.bytes dirSz k).getD offRecommend 0)))) hp hle
              (cstrcmpEq_refl _)
            have hcast : ((k + 1 : Nat) : Int) = (k : Int) + 1 := by omega
            rw [hcast, hmod]
            simp only [accepted, if_pos hm]
          · rw [if_neg hm]
            simp only [accepted, if_neg hm]

/-! ### article files -/

theorem fileGet_fileSet_same (fs : List (Bytes × Bytes)) (n c old : Bytes) (h : fileGet fs n = some old) :
    fileGet (fileSet fs n c) n = some c := by
  induction fs with
  | nil => simp [fileGet] at h
  | cons e rest ih =>
    unfold fileSet at ih ⊢
    simp only [List.map_cons, fileGet]
    by_cases he : e.1 = n
    · simp [he]
    · simp only [he, if_false]
      simp only [fileGet, he, if_false] at h
      exact ih h

theorem fileGet_fileSet_other (fs : List (Bytes × Bytes)) (n c m : Bytes) (h : m ≠ n) :
    fileGet (fileSet fs n c) m = fileGet fs m := by
  induction fs with
  | nil => rfl
  | cons e rest ih =>
    unfold fileSet at ih ⊢
    simp only [List.map_cons, fileGet]
    by_cases he : e.1 = n
    · have hm : ¬ e.1 = m := by intro h'; apply h; rw [← h', he]
      simp only [he, if_true]
      rw [← he, if_neg hm, if_neg hm]
      rw [he]; exact ih
    · simp only [he, if_false]
      by_cases hm : e.1 = m
      · simp [hm]
      · simp only [hm, if_false]; exact ih

/-! ### the index after an accepted request -/

theorem accepted_dir_length (cfg : Cfg) (st : St) (q : Req) (k : Nat) (old : Bytes)
    (hle : (k + 1) * dirSz ≤ st.dir.bytes.length) :
    (accepted cfg st q k old).dir.bytes.length = st.dir.bytes.length := by
  unfold accepted
  simp only []
  split
  · apply length_writeAt_inside
    rw [modifyRecord_length _ _ (length_record_of_le _ _ _ hle)]
    rw [Nat.add_mul] at hle; omega
  · rfl

theorem accepted_dir_present (cfg : Cfg) (st : St) (q : Req) (k : Nat) (old : Bytes) (hp : st.dir.present = true) :
    (accepted cfg st q k old).dir.present = true := by
  unfold accepted
  simp only []
  split
  · rfl
  · exact hp

/-- bytes of other entries (and of a torn tail) are untouched. -/
theorem accepted_dir_other (cfg : Cfg) (st : St) (q : Req) (k : Nat) (old : Bytes)
    (hle : (k + 1) * dirSz ≤ st.dir.bytes.length) (p : Nat) (hp : p / dirSz ≠ k) :
    (accepted cfg st q k old).dir.bytes[p]? = st.dir.bytes[p]? := by
  unfold accepted
  simp only []
  split
  · have hlen : (modifyRecord (record st.dir.bytes dirSz k)
        (modArgs (field (record st.dir.bytes dirSz k) offFilename lenFilename) q.mtime
          (scoreUpdate q.ctype (toInt8 ((record st.dir.bytes dirSz k).getD offRecommend 0))))).length = dirSz :=
      modifyRecord_length _ _ (length_record_of_le _ _ _ hle)
    rcases outside_of_div_ne hp with h1 | h1
    · exact getElem?_writeAt_before _ _ _ _ h1 (by rw [Nat.add_mul] at hle; omega)
    · apply getElem?_writeAt_after
      rw [hlen]; rw [Nat.add_mul] at h1; omega
  · rfl

/-- byte `j` of the addressed entry: the four bytes of Modified hold the mtime, the Recommend byte holds
`scoreAfter`, every other byte is as before. -/
theorem accepted_dir_entry (cfg : Cfg) (st : St) (q : Req) (k : Nat) (old : Bytes)
    (hle : (k + 1) * dirSz ≤ st.dir.bytes.length) (j : Nat) (hj : j < 128) :
    (accepted cfg st q k old).dir.bytes[k * dirSz + j]? =
      if 28 ≤ j ∧ j < 32 ∧ q.mtime > 0 then (le32 q.mtime.toNat)[j - 28]?
      else if j = 33 ∧ q.mtime > 0 then some (scoreAfter q.ctype ((st.dir.bytes.getD (k * dirSz + 33) 0)))
      else st.dir.bytes[k * dirSz + j]? := by
  have hrl : (record st.dir.bytes dirSz k).length = 128 := length_record_of_le _ _ _ hle
  have hrj : ∀ i, i < 128 → (record st.dir.bytes dirSz k)[i]? = st.dir.bytes[k * dirSz + i]? := by
    intro i hi; rw [getElem?_record, if_pos (by rw [dirSz_eq]; exact hi)]
  unfold accepted
  simp only []
  by_cases hm : q.mtime > 0
  · rw [if_pos hm]
    have hlen := modifyRecord_length (record st.dir.bytes dirSz k)
      (modArgs (field (record st.dir.bytes dirSz k) offFilename lenFilename) q.mtime
        (scoreUpdate q.ctype (toInt8 ((record st.dir.bytes dirSz k).getD offRecommend 0)))) hrl
    rw [getElem?_writeAt_in _ _ _ _ (by omega) (by rw [hlen, dirSz_eq]; omega)]
    have : k * dirSz + j - k * dirSz = j := by omega
    rw [this, modifyRecord_modArgs_getElem? _ _ _ _ hrl j hj]
    have h33 : (record st.dir.bytes dirSz k).getD 33 0 = st.dir.bytes.getD (k * dirSz + 33) 0 :=
      getD_eq_of_getElem? (hrj 33 (by omega))
    by_cases hin : 28 ≤ j ∧ j < 32
    · have c : 28 ≤ j ∧ j < 32 ∧ q.mtime > 0 := ⟨hin.1, hin.2, hm⟩
      rw [if_pos c, if_pos c]
    · have c : ¬(28 ≤ j ∧ j < 32 ∧ q.mtime > 0) := by omega
      rw [if_neg c, if_neg c]
      by_cases h3 : j = 33
      · subst h3
        have c2 : (33 = 33 ∧ q.mtime > 0) := ⟨rfl, hm⟩
        rw [if_pos rfl, if_pos c2]
        unfold scoreAfter
        show some (recommendUpdate _ (scoreUpdate q.ctype (toInt8 ((record st.dir.bytes dirSz k).getD 33 0)))) = _
        rw [h33]
      · have c2 : ¬(j = 33 ∧ q.mtime > 0) := by omega
        rw [if_neg h3, if_neg c2, hrj j hj]
  · rw [if_neg hm, if_neg (by omega : ¬(28 ≤ j ∧ j < 32 ∧ q.mtime > 0)), if_neg (by omega : ¬(j = 33 ∧ q.mtime > 0))]

/-! ### the two phases -/

/-- the sequential Recommend is phase A followed by phase B with nothing in between. -/
theorem recommend_eq_phases (find : Bytes → Nat → Bytes → Option Nat) (cfg : Cfg) (st : St) (q : Req) :
    recommend find cfg st q =
      match phaseA find cfg st q with
      | .error e => (st, e)
      | .ok t => phaseB st t := by
  unfold recommend phaseA
  simp only []
  split
  · rfl
  · split
    · rfl
    · split
      · rfl
      · split
        · rfl
        · simp only [doAddRecommend, phaseB, phaseWrite, phaseIndex]
          split <;> rfl

/-- the score an index denotes for its entry `j`. -/
def scoreAt (dir : Bytes) (j : Nat) : Int := toInt8 (dir.getD (j * dirSz + 33) 0)

def Res.isOk : Res → Bool
  | .ok _ _ => true
  | _ => false

/-- the index update of phase B, for ANY ticket (any copy, however stale): the files are untouched, the index
keeps its length; if the call does not succeed the index is unchanged; if it does, only the entry
`t.idx` can change, and its Recommend byte becomes `recommendUpdate` of the byte ON DISK with a delta in
{-1, 0, 1}. -/
theorem phaseIndex_cases (st : St) (t : Ticket) :
    (phaseIndex st t).1.files = st.files ∧
    (phaseIndex st t).1.dir.bytes.length = st.dir.bytes.length ∧
    (((phaseIndex st t).2.isOk = false ∨ t.mtime ≤ 0) → (phaseIndex st t).1.dir = st.dir) ∧
    (∀ j, (j + 1) * dirSz ≤ st.dir.bytes.length →
      (phaseIndex st t).1.dir.bytes.getD (j * dirSz + 33) 0 = st.dir.bytes.getD (j * dirSz + 33) 0 ∨
      ((phaseIndex st t).2.isOk = true ∧ t.idx = j + 1 ∧ ∃ u : Int, (u = -1 ∨ u = 0 ∨ u = 1) ∧
        (phaseIndex st t).1.dir.bytes.getD (j * dirSz + 33) 0 =
          recommendUpdate (st.dir.bytes.getD (j * dirSz + 33) 0) u)) := by
  unfold phaseIndex
  simp only []
  by_cases hm : t.mtime > 0
  · rw [if_pos hm]
    generalize hu : scoreUpdate t.ctype (toInt8 (t.copy.getD offRecommend 0)) = u
    have hu3 : u = -1 ∨ u = 0 ∨ u = 1 := by rw [← hu]; exact scoreUpdate_cases _ _
    rcases modifyDirLite_cases st.dir (t.idx : Int) (modArgs (field t.copy offFilename lenFilename) t.mtime u)
      with h | h | ⟨k, hk, hp, hle, hn, h⟩
    · rw [h]; exact ⟨rfl, rfl, fun _ => rfl, fun j _ => Or.inl rfl⟩
    · rw [h]; exact ⟨rfl, rfl, fun _ => rfl, fun j _ => Or.inl rfl⟩
    · rw [h]
      simp only []
      have hrl : (record st.dir.bytes dirSz k).length = 128 := length_record_of_le _ _ _ hle
      have hlen := modifyRecord_length (record st.dir.bytes dirSz k)
        (modArgs (field t.copy offFilename lenFilename) t.mtime u) hrl
      have hidx : t.idx = k + 1 := by omega
      refine ⟨by first | rfl | trivial, ?_, ?_, ?_⟩
      · apply length_writeAt_inside; rw [hlen]; rw [Nat.add_mul] at hle; omega
      · intro hc
        rcases hc with hc | hc
        · simp [Res.isOk] at hc
        · omega
      · intro j hj
        by_cases hjk : j = k
        · subst hjk
          right
          refine ⟨by first | rfl | trivial, hidx, u, hu3, ?_⟩
          rw [List.getD_eq_getElem?_getD,
            getElem?_writeAt_in _ _ _ _ (by omega) (by rw [hlen, dirSz_eq]; omega)]
          have : j * dirSz + 33 - j * dirSz = 33 := by omega
          rw [this, modifyRecord_modArgs_getElem? _ _ _ _ hrl 33 (by omega), if_neg (by omega), if_pos rfl]
          have h33 : (record st.dir.bytes dirSz j).getD 33 0 = st.dir.bytes.getD (j * dirSz + 33) 0 := by
            apply getD_eq_of_getElem?
            rw [getElem?_record, if_pos (by rw [dirSz_eq]; omega)]
          rw [h33]; rfl
        · left
          apply getD_eq_of_getElem?
          have hne : (j * dirSz + 33) / dirSz ≠ k := by rw [dirSz_eq]; omega
          rcases outside_of_div_ne hne with h1 | h1
          · exact getElem?_writeAt_before _ _ _ _ h1 (by rw [dirSz_eq] at hj ⊢; omega)
          · apply getElem?_writeAt_after
            rw [hlen]; rw [Nat.add_mul] at h1; omega
  · rw [if_neg hm]
    exact ⟨rfl, rfl, fun _ => rfl, fun j _ => Or.inl rfl⟩

/-- the index update of phase B, byte by byte: outside the `Modified` field and the `Recommend` byte of any
entry nothing changes - neither in the addressed entry nor in any other one. -/
theorem phaseIndex_frame (st : St) (t : Ticket) (q : Nat)
    (hq : ¬(28 ≤ q % 128 ∧ q % 128 < 32) ∧ q % 128 ≠ 33) :
    (phaseIndex st t).1.dir.bytes[q]? = st.dir.bytes[q]? := by
  unfold phaseIndex
  simp only []
  by_cases hm : t.mtime > 0
  · rw [if_pos hm]
    generalize scoreUpdate t.ctype (toInt8 (t.copy.getD offRecommend 0)) = u
    rcases modifyDirLite_cases st.dir (t.idx : Int) (modArgs (field t.copy offFilename lenFilename) t.mtime u)
      with h | h | ⟨k, _, _, hle, _, h⟩
    · rw [h]
    · rw [h]
    · rw [h]
      simp only []
      have hrl : (record st.dir.bytes dirSz k).length = 128 := length_record_of_le _ _ _ hle
      have hlen := modifyRecord_length (record st.dir.bytes dirSz k)
        (modArgs (field t.copy offFilename lenFilename) t.mtime u) hrl
      rw [dirSz_eq] at hle
      by_cases hk : q / 128 = k
      · have hqk : q = k * dirSz + q % 128 := by rw [dirSz_eq]; omega
        rw [hqk, getElem?_writeAt_in _ _ _ _ (by omega) (by rw [hlen, dirSz_eq]; omega)]
        have : k * dirSz + q % 128 - k * dirSz = q % 128 := by omega
        rw [this, modifyRecord_modArgs_getElem? _ _ _ _ hrl (q % 128) (by omega)]
        have c1 : ¬(28 ≤ q % 128 ∧ q % 128 < 32 ∧ t.mtime > 0) := by omega
        rw [if_neg c1, if_neg hq.2, getElem?_record, if_pos (by rw [dirSz_eq]; omega)]
      · have hne : q / dirSz ≠ k := by rw [dirSz_eq]; exact hk
        rcases outside_of_div_ne hne with h1 | h1
        · by_cases hql : q < st.dir.bytes.length
          · exact getElem?_writeAt_before _ _ _ _ h1 hql
          · rw [dirSz_eq] at h1; omega
        · apply getElem?_writeAt_after
          rw [hlen]; rw [Nat.add_mul] at h1; rw [dirSz_eq] at h1 ⊢; omega
  · rw [if_neg hm]

theorem phaseWrite_dir {st st1 : St} {t : Ticket} (h : phaseWrite st t = .ok st1) : st1.dir = st.dir := by
  unfold phaseWrite at h
  simp only [] at h
  split at h
  · cases h
  · injection h with h; rw [← h]

/-! ### the comment line -/

/-- the line without its final newline. -/
def lineBody (cfg : Cfg) (q : Req) : Bytes :=
  let ub := userBytes cfg q
  let ws := List.replicate (padLen cfg q) 32
  if cfg.oldRecommend then
    ansiColor c131 ++ arrowGlyph ++ [32] ++ ansiColor c33 ++ ub ++ (ansiReset ++ ansiColor c33 ++ [58]) ++ q.text ++ ws ++
      (ansiReset ++ pushGlyph) ++ tail cfg q
  else
    typeBytes q.ctype ++ [32] ++ ansiColor c33 ++ ub ++ (ansiReset ++ ansiColor c33 ++ [58] ++ [32]) ++ q.text ++ ws ++
      ansiReset ++ tail cfg q

theorem formatComment_eq_body (cfg : Cfg) (q : Req) : formatComment cfg q = lineBody cfg q ++ [10] := by
  unfold formatComment lineBody
  simp only []
  split <;> simp only [List.append_assoc]

theorem mem_cstr {x : Nat} {l : List Nat} (h : x ∈ cstr l) : x ∈ l := by
  unfold cstr at h
  exact (List.takeWhile_sublist _).subset h

theorem typeMarks_no_newline : ∀ e ∈ typeMarks, 10 ∉ ansiColor e.2.1 ++ e.2.2 := by decide

theorem typeBytes_no_newline (t : Nat) : 10 ∉ typeBytes t := by
  unfold typeBytes
  split
  · rename_i e he
    exact typeMarks_no_newline e (List.mem_of_find?_eq_some he)
  · simp

theorem lineBody_no_newline (cfg : Cfg) (q : Req) (hu : 10 ∉ q.user) (ht : 10 ∉ q.text) (hi : 10 ∉ q.ip)
    (htm : 10 ∉ q.time) : 10 ∉ lineBody cfg q := by
  have hub : 10 ∉ userBytes cfg q := by
    unfold userBytes; split
    · exact hu
    · exact fun h => hu (mem_cstr h)
  have hip : 10 ∉ cstr q.ip := fun h => hi (mem_cstr h)
  have htl : 10 ∉ tail cfg q := by
    unfold tail
    split <;> simp [hip, htm]
  have hty := typeBytes_no_newline q.ctype
  have hc1 : 10 ∉ ansiColor c33 := by decide
  have hc2 : 10 ∉ ansiColor c131 := by decide
  have hr : 10 ∉ ansiReset := by decide
  unfold lineBody
  simp only []
  split
  · simp only [List.mem_append, List.mem_replicate, not_or]
    refine ⟨⟨⟨⟨⟨⟨⟨⟨⟨hc2, by decide⟩, by decide⟩, hc1⟩, hub⟩, ⟨⟨hr, hc1⟩, by decide⟩⟩, ht⟩, by simp⟩, ⟨hr, by decide⟩⟩, htl⟩
  · simp only [List.mem_append, List.mem_replicate, not_or]
    refine ⟨⟨⟨⟨⟨⟨⟨⟨hty, by decide⟩, hc1⟩, hub⟩, ⟨⟨⟨hr, hc1⟩, by decide⟩, by decide⟩⟩, ht⟩, by simp⟩, hr⟩, htl⟩

theorem not_mem_of_hasLineBreak_false {text : Bytes} (h : hasLineBreak text = false) : 10 ∉ text ∧ 13 ∉ text := by
  unfold hasLineBreak at h
  rw [List.any_eq_false] at h
  constructor
  · intro hm; exact absurd (h 10 hm) (by decide)
  · intro hm; exact absurd (h 13 hm) (by decide)

end PttVerif.C10
