import PttVerif.Model.C11
import PttVerif.Proofs.C18
/-
C11 — helper lemmas.  Part 1: three-way orders, the two board orders, monotone comparators, the bisection.
-/
namespace PttVerif.C11
open PttVerif PttVerif.C18

/-! ### three-way comparison functions that are total preorders with `eq` = equality -/

structure OrdLaws {κ : Type} (cmp : κ → κ → Ordering) : Prop where
  eq_iff : ∀ a b, cmp a b = .eq ↔ a = b
  swap : ∀ a b, cmp b a = (cmp a b).swap
  le_trans : ∀ a b c, cmp a b ≠ .gt → cmp b c ≠ .gt → cmp a c ≠ .gt

namespace OrdLaws
variable {κ : Type} {cmp : κ → κ → Ordering} (L : OrdLaws cmp)
include L

theorem refl (a : κ) : cmp a a = .eq := (L.eq_iff a a).mpr rfl

theorem gt_iff_lt (a b : κ) : cmp a b = .gt ↔ cmp b a = .lt := by
  rw [L.swap a b]; cases cmp a b <;> simp [Ordering.swap]

theorem lt_iff_gt (a b : κ) : cmp a b = .lt ↔ cmp b a = .gt := by
  rw [L.swap a b]; cases cmp a b <;> simp [Ordering.swap]

/-- `a < b ≤ c → a < c`. -/
theorem lt_of_lt_of_le (a b c : κ) (h1 : cmp a b = .lt) (h2 : cmp b c ≠ .gt) : cmp a c = .lt := by
  have h3 := L.le_trans a b c (by rw [h1]; simp) h2
  cases h : cmp a c with
  | lt => rfl
  | gt => exact absurd h h3
  | eq =>
    have : a = c := (L.eq_iff a c).mp h
    subst this
    exact absurd ((L.lt_iff_gt a b).mp h1) h2

/-- `a ≤ b < c → a < c`. -/
theorem lt_of_le_of_lt (a b c : κ) (h1 : cmp a b ≠ .gt) (h2 : cmp b c = .lt) : cmp a c = .lt := by
  have h3 := L.le_trans a b c h1 (by rw [h2]; simp)
  cases h : cmp a c with
  | lt => rfl
  | gt => exact absurd h h3
  | eq =>
    have : a = c := (L.eq_iff a c).mp h
    subst this
    exact absurd ((L.lt_iff_gt b a).mp h2) h1

theorem lt_trans (a b c : κ) (h1 : cmp a b = .lt) (h2 : cmp b c = .lt) : cmp a c = .lt :=
  L.lt_of_lt_of_le a b c h1 (by rw [h2]; simp)

end OrdLaws

theorem lexLaws : OrdLaws lexCmp := ⟨lexCmp_eq_iff, lexCmp_swap, lexCmp_le_trans⟩

/-- the lexicographic product of two three-way comparisons. -/
def pairCmp {α β : Type} (c1 : α → α → Ordering) (c2 : β → β → Ordering) (x y : α × β) : Ordering :=
  match c1 x.1 y.1 with
  | .eq => c2 x.2 y.2
  | o => o

theorem pairLaws {α β : Type} {c1 : α → α → Ordering} {c2 : β → β → Ordering}
    (L1 : OrdLaws c1) (L2 : OrdLaws c2) : OrdLaws (pairCmp c1 c2) := by
  refine ⟨?_, ?_, ?_⟩
  · intro a b
    obtain ⟨a1, a2⟩ := a; obtain ⟨b1, b2⟩ := b
    unfold pairCmp
    cases h : c1 a1 b1 with
    | eq =>
      have : a1 = b1 := (L1.eq_iff _ _).mp h
      subst this
      simp [L2.eq_iff]
    | lt =>
      simp only [reduceCtorEq, false_iff]
      intro hh
      injection hh with h1 h2
      subst h1; rw [L1.refl] at h; cases h
    | gt =>
      simp only [reduceCtorEq, false_iff]
      intro hh
      injection hh with h1 h2
      subst h1; rw [L1.refl] at h; cases h
  · intro a b
    obtain ⟨a1, a2⟩ := a; obtain ⟨b1, b2⟩ := b
    unfold pairCmp
    simp only
    rw [L1.swap a1 b1]
    cases h : c1 a1 b1 with
    | eq => simp [Ordering.swap, L2.swap a2 b2]
    | lt => simp [Ordering.swap]
    | gt => simp [Ordering.swap]
  · intro a b c
    obtain ⟨a1, a2⟩ := a; obtain ⟨b1, b2⟩ := b; obtain ⟨c1', c2'⟩ := c
    unfold pairCmp
    simp only
    intro h1 h2
    cases hab : c1 a1 b1 with
    | gt => rw [hab] at h1; exact absurd rfl h1
    | eq =>
      have e : a1 = b1 := (L1.eq_iff _ _).mp hab
      subst e
      rw [hab] at h1
      cases hbc : c1 a1 c1' with
      | gt => rw [hbc] at h2; exact absurd rfl h2
      | lt => simp
      | eq =>
        rw [hbc] at h2
        exact L2.le_trans _ _ _ h1 h2
    | lt =>
      cases hbc : c1 b1 c1' with
      | gt => rw [hbc] at h2; exact absurd rfl h2
      | eq =>
        have e : b1 = c1' := (L1.eq_iff _ _).mp hbc
        subst e
        rw [hab]; simp
      | lt => rw [L1.lt_trans _ _ _ hab hbc]; simp

/-! ### the keys of the two board orders and the pure comparators -/

/-- a byte string as the case-insensitive comparison sees it: its C string, ASCII lower-cased. -/
def low (s : List Nat) : List Nat := (cstr s).map ccharTolower

theorem low_nonzero (s : List Nat) : ∀ x ∈ low s, x ≠ 0 := map_lower_nonzero _ (cstr_nonzero s)

/-- the key of the by-name order. -/
def nkey (e : Entry) : List Nat := low e.b.name

/-- the key of the by-class order (`shmBoardByClass.Less`): the C string of `Title[:4]`, then the name. -/
def ckey (e : Entry) : List Nat × List Nat := (cstr (class4 e.b.title), low e.b.name)

abbrev cmpC := pairCmp lexCmp lexCmp

theorem classLaws : OrdLaws cmpC := pairLaws lexLaws lexLaws

/-- the value of `Cstrcasecmp(q, name)`. -/
def cmpNameP (q : List Nat) (e : Entry) : Int := strcmp (low q) (nkey e)

theorem cmpName_eq (q : List Nat) (e : Entry) : cmpName q e = .ok (cmpNameP q e) := by
  unfold cmpName cstrcasecmp cmpNameP nkey low
  rw [cstrcmp_eq', cstr_map_lower, cstr_map_lower]

/-- the value of `cmpBoardByClass`. -/
def cmpClassP (cls q : List Nat) (e : Entry) : Int :=
  let j := strcmp (cstr cls) (cstr (boardClass e.b.title))
  if j ≠ 0 then j else cmpNameP q e

theorem cmpClass_eq (cls q : List Nat) (e : Entry) : cmpClass cls q e = .ok (cmpClassP cls q e) := by
  unfold cmpClass cmpClassP
  rw [cstrcmp_eq']
  simp only [bind, Except.bind]
  split
  · rfl
  · exact cmpName_eq q e

/-- the comparator's sign is the three-way comparison of the keys (by name). -/
theorem cmpNameP_sign (q : List Nat) (e : Entry) :
    (cmpNameP q e < 0 ↔ lexCmp (low q) (nkey e) = .lt) ∧ (cmpNameP q e = 0 ↔ lexCmp (low q) (nkey e) = .eq) ∧
      (0 < cmpNameP q e ↔ lexCmp (low q) (nkey e) = .gt) := by
  unfold cmpNameP
  refine ⟨strcmp_neg_iff _ _ (low_nonzero q) (low_nonzero _), ?_, strcmp_pos_iff _ _ (low_nonzero q) (low_nonzero _)⟩
  rw [lexCmp_eq_iff]
  exact strcmp_zero_iff _ _ (low_nonzero q) (low_nonzero _)

/-- the board's 5-byte `BoardClass()` reads as the same C string as the sort key `Title[:4]`
(true when `Title[4]` is a blank or NUL, or the class is shorter than 4 bytes). -/
def ClassOK (e : Entry) : Prop := cstr (boardClass e.b.title) = cstr (class4 e.b.title)

instance (e : Entry) : Decidable (ClassOK e) := by unfold ClassOK; infer_instance

theorem cmpClassP_sign (cls q : List Nat) (e : Entry) (h : ClassOK e) :
    (cmpClassP cls q e < 0 ↔ cmpC (cstr cls, low q) (ckey e) = .lt) ∧
      (cmpClassP cls q e = 0 ↔ cmpC (cstr cls, low q) (ckey e) = .eq) ∧
      (0 < cmpClassP cls q e ↔ cmpC (cstr cls, low q) (ckey e) = .gt) := by
  unfold cmpClassP cmpC pairCmp ckey
  rw [h]
  simp only
  have n1 := cstr_nonzero cls
  have n2 := cstr_nonzero (class4 e.b.title)
  have s1 := strcmp_neg_iff _ _ n1 n2
  have s2 := strcmp_zero_iff _ _ n1 n2
  have s3 := strcmp_pos_iff _ _ n1 n2
  obtain ⟨t1, t2, t3⟩ := cmpNameP_sign q e
  unfold nkey at t1 t2 t3
  cases hc : lexCmp (cstr cls) (cstr (class4 e.b.title)) with
  | eq =>
    have : strcmp (cstr cls) (cstr (class4 e.b.title)) = 0 := s2.mpr ((lexCmp_eq_iff _ _).mp hc)
    rw [this]
    simpa using ⟨t1, t2, t3⟩
  | lt =>
    have hneg := s1.mpr hc
    have hne : strcmp (cstr cls) (cstr (class4 e.b.title)) ≠ 0 := by omega
    rw [if_pos hne]
    simp only [reduceCtorEq, iff_false, iff_true]
    omega
  | gt =>
    have hpos := s3.mpr hc
    have hne : strcmp (cstr cls) (cstr (class4 e.b.title)) ≠ 0 := by omega
    rw [if_pos hne]
    simp only [reduceCtorEq, iff_false, iff_true]
    omega

/-! ### sortedness and monotone comparators -/

/-- `es` is in non-decreasing order of `key` (what `sort.Sort` with the corresponding `Less` establishes). -/
def SortedBy {κ : Type} (cmp : κ → κ → Ordering) (key : Entry → κ) (es : List Entry) : Prop :=
  es.Pairwise (fun a b => cmp (key a) (key b) ≠ .gt)

/-- adjacent order implies the order between all pairs (the comparison is transitive). -/
theorem sortedBy_of_adjacent {κ : Type} {cmp : κ → κ → Ordering} (L : OrdLaws cmp) (key : Entry → κ)
    (es : List Entry) (h : ∀ i (h : i + 1 < es.length), cmp (key es[i]) (key es[i + 1]) ≠ .gt) : SortedBy cmp key es := by
  unfold SortedBy
  induction es with
  | nil => exact List.Pairwise.nil
  | cons a rest ih =>
    have ih' := ih (fun i hi => by
      have := h (i + 1) (by simp; omega)
      simpa using this)
    refine List.Pairwise.cons ?_ ih'
    intro b hb
    -- every element of rest is ≥ a: induction on position
    obtain ⟨i, hi, rfl⟩ := List.getElem_of_mem hb
    induction i with
    | zero =>
      have := h 0 (by simp; omega)
      simpa using this
    | succ k ihk =>
      have hk : k < rest.length := by omega
      have h1 := ihk hk (List.getElem_mem hk)
      have h2 := h (k + 1) (by simp; omega)
      simp only [List.getElem_cons_succ] at h2
      exact L.le_trans _ _ _ h1 h2

/-- the comparator of a query against the entries of a sorted list changes sign at most twice: `+ … + 0 … 0 − … −`. -/
def Mono (c : Entry → Int) (es : List Entry) : Prop :=
  es.Pairwise (fun a b => (c a ≤ 0 → c b ≤ 0) ∧ (c a < 0 → c b < 0))

theorem mono_of_sorted {κ : Type} {cmp : κ → κ → Ordering} (L : OrdLaws cmp) (key : Entry → κ) (Q : κ)
    (c : Entry → Int) (es : List Entry)
    (hs : ∀ e ∈ es, (c e < 0 ↔ cmp Q (key e) = .lt) ∧ (c e = 0 ↔ cmp Q (key e) = .eq) ∧ (0 < c e ↔ cmp Q (key e) = .gt))
    (S : SortedBy cmp key es) : Mono c es := by
  unfold Mono
  unfold SortedBy at S
  refine List.Pairwise.imp_of_mem ?_ S
  intro a b ha hb hab
  obtain ⟨a1, a2, a3⟩ := hs a ha
  obtain ⟨b1, b2, b3⟩ := hs b hb
  constructor
  · intro h
    have : cmp Q (key a) ≠ .gt := by
      intro hg; have := a3.mpr hg; omega
    have := L.le_trans _ _ _ this hab
    have : ¬ 0 < c b := fun hp => this (b3.mp hp)
    omega
  · intro h
    exact b1.mpr (L.lt_of_lt_of_le _ _ _ (a1.mp h) hab)

theorem Mono.tail {c : Entry → Int} {a : Entry} {es : List Entry} (h : Mono c (a :: es)) : Mono c es :=
  (List.pairwise_cons.mp h).2

/-- positional form. -/
theorem Mono.get {c : Entry → Int} {es : List Entry} (h : Mono c es) (i j : Nat) (hij : i < j) (hj : j < es.length) :
    (c (es[i]'(by omega)) ≤ 0 → c es[j] ≤ 0) ∧ (c (es[i]'(by omega)) < 0 → c es[j] < 0) :=
  (List.pairwise_iff_getElem.mp h) i j (by omega) hj hij

/-! ### the bisection -/

/-- every entry before position `p` is below the query (compares `> 0`). -/
def Before (c : Entry → Int) (es : List Entry) (p : Nat) : Prop := ∀ k (_ : k < es.length), k < p → 0 < c es[k]

/-- every entry after position `p` is above the query (compares `< 0`). -/
def After (c : Entry → Int) (es : List Entry) (p : Nat) : Prop := ∀ k (_ : k < es.length), p < k → c es[k] < 0

/-- what the bisection returns: an entry equal to the query, or a landing position that separates the entries
below the query from those above it. -/
def BPost (c : Entry → Int) (es : List Entry) : Found → Prop
  | .empty => False
  | .hit i b => ∃ h : i < es.length, c es[i] = 0 ∧ b = es[i].bid
  | .miss p => ∃ h : p < es.length, c es[p] ≠ 0 ∧ Before c es p ∧ After c es p

theorem bisectLoop_post (cmp : Entry → M Int) (c : Entry → Int) (hc : ∀ e, cmp e = .ok (c e))
    (es : List Entry) (Mn : Mono c es) :
    ∀ fuel s e, s ≤ e → e < es.length → e - s + 2 ≤ fuel → Before c es s → After c es e →
      ∃ r, bisectLoop cmp es fuel s e ((s + e) / 2) = .ok r ∧ BPost c es r := by
  intro fuel
  induction fuel with
  | zero => intro s e _ _ hf; omega
  | succ f ih =>
    intro s e hse hen hf hB hA
    have hi : (s + e) / 2 < es.length := by omega
    have his : s ≤ (s + e) / 2 := by omega
    have hie : (s + e) / 2 ≤ e := by omega
    unfold bisectLoop
    rw [idx_of_lt es _ hi]
    simp only [bind, Except.bind, hc, pure, Except.pure]
    by_cases h0 : c es[(s + e) / 2] = 0
    · rw [if_pos h0]
      exact ⟨_, rfl, hi, h0, rfl⟩
    · rw [if_neg h0]
      by_cases hes : e = s
      · rw [if_pos hes]
        subst hes
        have : (e + e) / 2 = e := by omega
        refine ⟨_, rfl, hi, h0, ?_, ?_⟩
        · rw [this]; exact hB
        · rw [this]; exact hA
      · rw [if_neg hes]
        by_cases hiS : (s + e) / 2 = s
        · rw [if_pos hiS]
          have he1 : e = s + 1 := by omega
          by_cases hneg : c es[(s + e) / 2] < 0
          · rw [if_pos hneg]
            refine ⟨_, rfl, hi, h0, ?_, ?_⟩
            · rw [hiS]; exact hB
            · intro k hk hlt
              exact (Mn.get ((s + e) / 2) k hlt hk).2 hneg
          · rw [if_neg hneg]
            have hpos : 0 < c es[(s + e) / 2] := by omega
            apply ih e e (Nat.le_refl _) hen (by omega) ?_ hA
            intro k hk hlt
            by_cases hks : k = s
            · subst hks
              have : es[k] = es[(k + e) / 2] := by congr 1; omega
              rw [this]; exact hpos
            · exact hB k hk (by omega)
        · rw [if_neg hiS]
          by_cases hpos : 0 < c es[(s + e) / 2]
          · rw [if_pos (by omega)]
            apply ih ((s + e) / 2) e hie hen (by omega) ?_ hA
            intro k hk hlt
            have := (Mn.get k ((s + e) / 2) hlt hi).1
            omega
          · rw [if_neg (by omega)]
            have hneg : c es[(s + e) / 2] < 0 := by omega
            apply ih s ((s + e) / 2) his hi (by omega) hB ?_
            intro k hk hlt
            exact (Mn.get ((s + e) / 2) k hlt hk).2 hneg

theorem bisect_nil (cmp : Entry → M Int) : bisect cmp [] = .ok .empty := rfl

theorem bisect_post (cmp : Entry → M Int) (c : Entry → Int) (hc : ∀ e, cmp e = .ok (c e))
    (es : List Entry) (Mn : Mono c es) (hne : es ≠ []) : ∃ r, bisect cmp es = .ok r ∧ BPost c es r := by
  have hl : 0 < es.length := List.length_pos_iff.mpr hne
  unfold bisect
  rw [if_neg (by omega)]
  apply bisectLoop_post cmp c hc es Mn _ 0 (es.length - 1) (by omega) (by omega) (by unfold bisectFuel; omega)
  · intro k _ hk; omega
  · intro k hk hlt; omega

/-! ### the linear scans the property compares with -/

/-- position of the first entry of `l` (whose head is at position `i`) satisfying `P`; `-1`: none. -/
def scanFirst (P : Entry → Bool) : List Entry → Nat → Int
  | [], _ => -1
  | e :: r, i => if P e then Int.ofNat i else scanFirst P r (i + 1)

/-- position of the last entry of `es` satisfying `P`; `-1`: none. -/
def scanLast (P : Entry → Bool) (es : List Entry) : Int :=
  let r := scanFirst P es.reverse 0
  if r = -1 then -1 else Int.ofNat es.length - 1 - r

theorem scanFirst_ge (P : Entry → Bool) (l : List Entry) (i : Nat) :
    scanFirst P l i = -1 ∨ (Int.ofNat i ≤ scanFirst P l i ∧ scanFirst P l i < Int.ofNat (i + l.length)) := by
  induction l generalizing i with
  | nil => left; rfl
  | cons e r ih =>
    unfold scanFirst
    split
    · right; simp; omega
    · rcases ih (i + 1) with h | h
      · left; exact h
      · right; simp at h ⊢; omega

/-- what `scanFirst` means. -/
theorem scanFirst_spec (P : Entry → Bool) (l : List Entry) (i : Nat) :
    (scanFirst P l i = -1 ∧ ∀ e ∈ l, P e = false) ∨
      (∃ d, ∃ h : d < l.length, scanFirst P l i = Int.ofNat (i + d) ∧ P l[d] = true ∧ ∀ k (hk : k < d), P (l[k]'(by omega)) = false) := by
  induction l generalizing i with
  | nil => left; exact ⟨rfl, by simp⟩
  | cons e r ih =>
    unfold scanFirst
    by_cases hp : P e = true
    · right
      refine ⟨0, by simp, by simp [hp], by simpa using hp, by intro k hk; omega⟩
    · rw [if_neg hp]
      have hp' : P e = false := by simpa using hp
      rcases ih (i + 1) with ⟨h1, h2⟩ | ⟨d, hd, h1, h2, h3⟩
      · left
        refine ⟨h1, ?_⟩
        intro x hx
        rcases List.mem_cons.mp hx with rfl | hx
        · exact hp'
        · exact h2 x hx
      · right
        refine ⟨d + 1, by simp; omega, ?_, by simpa using h2, ?_⟩
        · rw [h1]; congr 1; omega
        · intro k hk
          cases k with
          | zero => simpa using hp'
          | succ k => simpa using h3 k (by omega)

theorem scanFirst_shift (P : Entry → Bool) (l : List Entry) (i : Nat) :
    scanFirst P l i = if scanFirst P l 0 = -1 then -1 else Int.ofNat i + scanFirst P l 0 := by
  induction l generalizing i with
  | nil => rfl
  | cons e r ih =>
    unfold scanFirst
    by_cases hp : P e = true
    · simp [hp]
    · rw [if_neg hp, if_neg hp, ih (i + 1), ih (0 + 1)]
      by_cases h : scanFirst P r 0 = -1
      · simp [h]
      · rw [if_neg h, if_neg h]
        have := scanFirst_ge P r 0
        rw [if_neg (by simp at this ⊢; omega)]
        simp; omega

/-- entries that do not satisfy `P` may be skipped. -/
theorem scanFirst_drop (P : Entry → Bool) (es : List Entry) (p i : Nat)
    (h : ∀ k (hk : k < es.length), k < p → P es[k] = false) :
    scanFirst P es i = scanFirst P (es.drop p) (i + p) := by
  induction p generalizing es i with
  | zero => simp
  | succ p ih =>
    cases es with
    | nil => simp [scanFirst]
    | cons e r =>
      have h0 : P e = false := by
        have := h 0 (by simp) (by omega)
        rwa [List.getElem_cons_zero] at this
      rw [show scanFirst P (e :: r) i = (if P e = true then Int.ofNat i else scanFirst P r (i + 1)) from rfl]
      simp only [h0, Bool.false_eq_true, if_false, List.drop_succ_cons]
      rw [ih r (i + 1) (fun k hk hlt => by
        have := h (k + 1) (by simp; omega) (by omega)
        rwa [List.getElem_cons_succ] at this)]
      congr 1; omega

/-! ### the directional fix-up loops equal the scans -/

theorem ascScan_eq (maxBoard : Nat) (cmp : Entry → M Int) (c : Entry → Int) (hc : ∀ e, cmp e = .ok (c e))
    (l : List Entry) (hv : ∀ e ∈ l, e.bid + 1 ≤ maxBoard) (i : Nat) :
    ascScan maxBoard cmp l i = .ok (scanFirst (fun e => decide (c e ≤ 0)) l i) := by
  induction l generalizing i with
  | nil => rfl
  | cons e r ih =>
    have hve : validBid maxBoard e = true := by simp [validBid, hv e (by simp)]
    unfold ascScan scanFirst
    simp only [hve, not_true_eq_false, if_false, bind, Except.bind, hc, pure, Except.pure]
    by_cases h : c e ≤ 0
    · simp [h]
    · simp only [h, if_false, decide_false, Bool.false_eq_true]
      exact ih (fun x hx => hv x (by simp [hx])) (i + 1)

/-- the descending loop, as a scan over the reversed prefix with a falling position. -/
def scanDown (P : Entry → Bool) : List Entry → Nat → Int
  | [], _ => -1
  | e :: r, i => if P e then Int.ofNat i else scanDown P r (i - 1)

theorem descScan_eq (maxBoard : Nat) (cmp : Entry → M Int) (c : Entry → Int) (hc : ∀ e, cmp e = .ok (c e))
    (l : List Entry) (hv : ∀ e ∈ l, e.bid + 1 ≤ maxBoard) (i : Nat) :
    descScan maxBoard cmp l i = .ok (scanDown (fun e => decide (0 ≤ c e)) l i) := by
  induction l generalizing i with
  | nil => rfl
  | cons e r ih =>
    have hve : validBid maxBoard e = true := by simp [validBid, hv e (by simp)]
    unfold descScan scanDown
    simp only [hve, not_true_eq_false, if_false, bind, Except.bind, hc, pure, Except.pure]
    by_cases h : 0 ≤ c e
    · simp [h]
    · simp only [ge_iff_le, h, if_false, decide_false, Bool.false_eq_true]
      exact ih (fun x hx => hv x (by simp [hx])) (i - 1)

theorem scanDown_eq (P : Entry → Bool) (l : List Entry) (i : Nat) (h : l.length ≤ i + 1) :
    scanDown P l i = if scanFirst P l 0 = -1 then -1 else Int.ofNat i - scanFirst P l 0 := by
  induction l generalizing i with
  | nil => rfl
  | cons e r ih =>
    unfold scanDown scanFirst
    by_cases hp : P e = true
    · simp [hp]
    · rw [if_neg hp, if_neg hp]
      cases r with
      | nil => simp [scanDown, scanFirst]
      | cons e2 r2 =>
        have hi : 1 ≤ i := by simp at h; omega
        rw [ih (i - 1) (by simp at h ⊢; omega), scanFirst_shift P (e2 :: r2) (0 + 1)]
        by_cases hh : scanFirst P (e2 :: r2) 0 = -1
        · simp [hh]
        · rw [if_neg hh, if_neg hh]
          have := scanFirst_ge P (e2 :: r2) 0
          rw [if_neg (by simp at this ⊢; omega)]
          simp; omega

theorem downFrom_eq (es : List Entry) (p : Nat) (hp : p < es.length) :
    downFrom es p = es.reverse.drop (es.length - 1 - p) := by
  unfold downFrom
  rw [List.reverse_take]
  congr 1; omega

/-- the descending loop from a landing position behind which every entry is above the query. -/
theorem scanDown_downFrom (P : Entry → Bool) (es : List Entry) (p : Nat) (hp : p < es.length)
    (h : ∀ k (hk : k < es.length), p < k → P es[k] = false) :
    scanDown P (downFrom es p) p = scanLast P es := by
  have hlen : (downFrom es p).length = p + 1 := by simp [downFrom]; omega
  rw [scanDown_eq P _ p (by omega), downFrom_eq es p hp]
  unfold scanLast
  simp only
  have hskip : scanFirst P es.reverse 0 = scanFirst P (es.reverse.drop (es.length - 1 - p)) (0 + (es.length - 1 - p)) := by
    apply scanFirst_drop
    intro k hk hlt
    simp only [List.length_reverse] at hk
    rw [List.getElem_reverse]
    exact h _ (by omega) (by omega)
  rw [hskip, scanFirst_shift P _ (0 + (es.length - 1 - p))]
  by_cases hh : scanFirst P (es.reverse.drop (es.length - 1 - p)) 0 = -1
  · simp [hh]
  · rw [if_neg hh, if_neg hh]
    have := scanFirst_ge P (es.reverse.drop (es.length - 1 - p)) 0
    rw [if_neg (by simp at this ⊢; omega)]
    simp; omega

/-! ### FindBoardIdxByName / FindBoardIdxByClass -/

/-- the nearest entry in the requested direction: least position `≥ q` (asc) / greatest position `≤ q` (desc). -/
def nearest (c : Entry → Int) (es : List Entry) (isAsc : Bool) : Int :=
  if isAsc then scanFirst (fun e => decide (c e ≤ 0)) es 0 else scanLast (fun e => decide (0 ≤ c e)) es

/-- the specification of the positional search as one linear scan: the (first) entry equal to the query if there
is one, else the nearest entry in the requested direction, else `-1`; positions are 1-based. -/
def specFind (c : Entry → Int) (es : List Entry) (isAsc : Bool) : Int :=
  let x := scanFirst (fun e => decide (c e = 0)) es 0
  if x ≠ -1 then x + 1
  else
    let y := nearest c es isAsc
    if y = -1 then -1 else y + 1

/-- at most one entry equals the query. -/
def Unique0 (c : Entry → Int) (es : List Entry) : Prop :=
  ∀ i j (hi : i < es.length) (hj : j < es.length), c es[i] = 0 → c es[j] = 0 → i = j

theorem mem_of_mem_downFrom {es : List Entry} {p : Nat} {e : Entry} (h : e ∈ downFrom es p) : e ∈ es := by
  unfold downFrom at h
  exact List.mem_of_mem_take (List.mem_reverse.mp h)

theorem findIdx_post (maxBoard : Nat) (cmp : Entry → M Int) (c : Entry → Int) (hc : ∀ e, cmp e = .ok (c e))
    (es : List Entry) (Mn : Mono c es) (hv : ∀ e ∈ es, e.bid + 1 ≤ maxBoard) (isAsc : Bool) :
    ∃ r, findIdx maxBoard cmp es isAsc = .ok r ∧
      ((∃ i, ∃ h : i < es.length, r = Int.ofNat i + 1 ∧ c es[i] = 0) ∨
        ((∀ e ∈ es, c e ≠ 0) ∧ r = if nearest c es isAsc = -1 then -1 else nearest c es isAsc + 1)) := by
  by_cases hne : es = []
  · subst hne
    refine ⟨-1, rfl, Or.inr ⟨by simp, ?_⟩⟩
    cases isAsc <;> simp [nearest, scanFirst, scanLast]
  · obtain ⟨r0, hb, hp⟩ := bisect_post cmp c hc es Mn hne
    unfold findIdx
    rw [hb]
    simp only [bind, Except.bind]
    cases r0 with
    | empty => exact absurd hp (by simp [BPost])
    | hit i b =>
      obtain ⟨hi, h0, hbid⟩ := hp
      have : b + 1 ≤ maxBoard := by rw [hbid]; exact hv _ (List.getElem_mem hi)
      simp only [this, if_true, pure, Except.pure]
      exact ⟨_, rfl, Or.inl ⟨i, hi, rfl, h0⟩⟩
    | miss p =>
      obtain ⟨hpl, h0, hB, hA⟩ := hp
      have hnz : ∀ e ∈ es, c e ≠ 0 := by
        intro e he
        obtain ⟨k, hk, rfl⟩ := List.getElem_of_mem he
        rcases Nat.lt_trichotomy k p with h | h | h
        · have := hB k hk h; omega
        · subst h; exact h0
        · have := hA k hk h; omega
      simp only
      cases isAsc with
      | true =>
        simp only [if_true]
        rw [ascScan_eq maxBoard cmp c hc _ (fun e he => hv e (List.mem_of_mem_drop he))]
        have hskip := scanFirst_drop (fun e => decide (c e ≤ 0)) es p 0 (fun k hk hlt => by
          have := hB k hk hlt
          simp; omega)
        simp only [Nat.zero_add] at hskip
        rw [← hskip]
        simp only [pure, Except.pure]
        refine ⟨if scanFirst (fun e => decide (c e ≤ 0)) es 0 = -1 then -1 else scanFirst (fun e => decide (c e ≤ 0)) es 0 + 1,
          by split <;> rfl, Or.inr ⟨hnz, ?_⟩⟩
        simp [nearest]
      | false =>
        simp only [Bool.false_eq_true, if_false]
        rw [descScan_eq maxBoard cmp c hc _ (fun e he => hv e (mem_of_mem_downFrom he))]
        rw [scanDown_downFrom _ es p hpl (fun k hk hlt => by
          have := hA k hk hlt
          simp; omega)]
        simp only [pure, Except.pure]
        refine ⟨if scanLast (fun e => decide (0 ≤ c e)) es = -1 then -1 else scanLast (fun e => decide (0 ≤ c e)) es + 1,
          by split <;> rfl, Or.inr ⟨hnz, ?_⟩⟩
        simp [nearest]

theorem scanFirst_none {P : Entry → Bool} {l : List Entry} (h : ∀ e ∈ l, P e = false) (i : Nat) :
    scanFirst P l i = -1 := by
  rcases scanFirst_spec P l i with ⟨h1, _⟩ | ⟨d, hd, _, h2, _⟩
  · exact h1
  · rw [h _ (List.getElem_mem hd)] at h2; cases h2

theorem findIdx_eq_specFind (maxBoard : Nat) (cmp : Entry → M Int) (c : Entry → Int) (hc : ∀ e, cmp e = .ok (c e))
    (es : List Entry) (Mn : Mono c es) (hv : ∀ e ∈ es, e.bid + 1 ≤ maxBoard) (U : Unique0 c es) (isAsc : Bool) :
    findIdx maxBoard cmp es isAsc = .ok (specFind c es isAsc) := by
  obtain ⟨r, hr, h⟩ := findIdx_post maxBoard cmp c hc es Mn hv isAsc
  rw [hr]
  congr 1
  unfold specFind
  rcases h with ⟨i, hi, rfl, h0⟩ | ⟨hnz, rfl⟩
  · rcases scanFirst_spec (fun e => decide (c e = 0)) es 0 with ⟨_, h2⟩ | ⟨d, hd, h1, h2, _⟩
    · have := h2 _ (List.getElem_mem hi)
      simp [h0] at this
    · have hd0 : c es[d] = 0 := by simpa using h2
      have : d = i := U d i hd hi hd0 h0
      subst this
      simp only [h1, Nat.zero_add]
      rw [if_pos (by simp <;> omega)]
  · rw [scanFirst_none (fun e he => by simp [hnz e he])]
    simp

/-- the answer is `-1` or a 1-based position inside the table. -/
theorem specFind_range (c : Entry → Int) (es : List Entry) (isAsc : Bool) :
    specFind c es isAsc = -1 ∨ (1 ≤ specFind c es isAsc ∧ specFind c es isAsc ≤ Int.ofNat es.length) := by
  unfold specFind
  simp only
  have h1 := scanFirst_ge (fun e => decide (c e = 0)) es 0
  by_cases hx : scanFirst (fun e => decide (c e = 0)) es 0 = -1
  · rw [if_neg (by simp [hx])]
    by_cases hy : nearest c es isAsc = -1
    · left; simp [hy]
    · right
      rw [if_neg hy]
      unfold nearest at hy ⊢
      cases isAsc with
      | true =>
        simp only [if_true] at hy ⊢
        have := scanFirst_ge (fun e => decide (c e ≤ 0)) es 0
        simp at this ⊢; omega
      | false =>
        simp only [Bool.false_eq_true, if_false] at hy ⊢
        unfold scanLast at hy ⊢
        simp only at hy ⊢
        have := scanFirst_ge (fun e => decide (0 ≤ c e)) es.reverse 0
        by_cases hz : scanFirst (fun e => decide (0 ≤ c e)) es.reverse 0 = -1
        · simp [hz] at hy
        · rw [if_neg hz]
          simp at this ⊢; omega
  · right
    rw [if_pos hx]
    simp at h1 ⊢; omega

end PttVerif.C11
