import PttVerif.Model.C08
import PttVerif.Spec.C08
/-
C08 — helper lemmas: the regenerated constants against the hand-written ones, Bool/Prop bridges, the
uint8/uint32 arithmetic of getRestrictionReason, the flood-limit loop, and the general facts about
`runEvents` (acceptance = no guard fires; a refusal after `guardsFirst` leaves nothing touched).
-/
set_option linter.unusedSimpArgs false
namespace PttVerif.C08
open PttVerif

theorem consts_eq :
    PERM_BASIC = Spec.PERM_BASIC ∧ PERM_POST = Spec.PERM_POST ∧ PERM_LOGINOK = Spec.PERM_LOGINOK ∧ PERM_BM = Spec.PERM_BM ∧
    PERM_SYSOP = Spec.PERM_SYSOP ∧ PERM_VIOLATELAW = Spec.PERM_VIOLATELAW ∧ PERM_POLICE_MAN = Spec.PERM_POLICE_MAN ∧
    PERM_POLICE = Spec.PERM_POLICE ∧ BRD_HIDE = Spec.BRD_HIDE ∧ BRD_POSTMASK = Spec.BRD_POSTMASK ∧
    BRD_RESTRICTEDPOST = Spec.BRD_RESTRICTEDPOST ∧ BRD_GUESTPOST = Spec.BRD_GUESTPOST ∧ BRD_COOLDOWN = Spec.BRD_COOLDOWN ∧
    BRD_OVER18 = Spec.BRD_OVER18 := by decide

theorem has_iff (l m : UInt32) : has l m = true ↔ Spec.hasBit l m := by
  simp [has, Spec.hasBit]

theorem isBMCache_iff (u : User) (b : Board) : isBMCache u b = true ↔ Spec.moderator u b := by
  obtain ⟨h1, h2, h3, h4, h5, h6, h7, h8, h9, h10, h11, h12, h13, h14⟩ := consts_eq
  unfold isBMCache Spec.moderator Spec.verified
  rw [← h1, ← h3, ← has_iff, ← has_iff]
  cases has u.level PERM_BASIC <;> cases has u.level PERM_LOGINOK <;> simp

theorem lowerByte_eq : lowerByte = Spec.lower := rfl

theorem getRestrictionReason_eq (d : UInt32) (bp lg lb : UInt8) :
    getRestrictionReason d bp lg lb = 0 ↔ (lg.toNat ≤ d.toNat / 10 ∧ bp.toNat + lb.toNat ≤ 255) := by
  unfold getRestrictionReason
  have hb : lb.toNat < 256 := lb.toNat_lt
  have e1 : (d / 10 < lg.toUInt32) ↔ d.toNat / 10 < lg.toNat := by
    rw [UInt32.lt_iff_toNat_lt]; simp
  have e2 : (bp > 255 - lb) ↔ bp.toNat + lb.toNat > 255 := by
    rw [gt_iff_lt, UInt8.lt_iff_toNat_lt, UInt8.toNat_sub_of_le]
    · simp; omega
    · rw [UInt8.le_iff_toNat_le]; simp; omega
  by_cases c1 : d / 10 < lg.toUInt32
  · simp only [c1, if_true]; have := e1.mp c1; simp; omega
  · have n1 := mt e1.mpr c1
    simp only [c1, if_false]
    by_cases c2 : bp > 255 - lb
    · simp only [c2, if_true]; have := e2.mp c2; simp; omega
    · have n2 := mt e2.mpr c2
      simp only [c2, if_false]; simp; omega

/-- the `limit` array of checkCooldown as it lists a table of pairs. -/
def flattenPairs : List (Int × Nat) → List Int
  | [] => []
  | (a, k) :: r => a :: (k : Int) :: flattenPairs r

theorem limitHit_flatten (n : Int) (pt : Nat) (L : List (Int × Nat)) :
    limitHit n (pt : Int) (flattenPairs L) = true ↔ ∃ p ∈ L, p.1 < n ∧ p.2 ≤ pt := by
  induction L with
  | nil => simp [flattenPairs, limitHit]
  | cons p r ih =>
    obtain ⟨a, k⟩ := p
    simp only [flattenPairs, limitHit, Bool.or_eq_true, Bool.and_eq_true, decide_eq_true_eq, ih, List.mem_cons,
      exists_eq_or_imp]
    constructor
    · rintro (⟨h1, h2⟩ | h)
      · left; exact ⟨h1, by omega⟩
      · right; exact h
    · rintro (⟨h1, h2⟩ | h)
      · left; exact ⟨h1, by omega⟩
      · right; exact h

theorem limit_table : Gen.WriteGuards.cooldownLimit = flattenPairs Spec.floodLimits := by decide


/-! ### the post counter in the low four bits of the cool-down word -/

theorem and15 (w : UInt32) : (w &&& 0xF).toNat = w.toNat % 16 := by
  rw [UInt32.toNat_and]
  exact Nat.and_two_pow_sub_one_eq_mod w.toNat 4

/-- cache.AddPosttimes leaves a counter of at least one (it saturates at 15). -/
theorem post_counts (w : UInt32) : 1 ≤ Spec.postTimes (addPosttimes w) := by
  have m2 : Gen.WriteGuards.posttimesMask.toUInt32 = 0xF := by decide
  unfold addPosttimes posttimesOf Spec.postTimes
  rw [m2]
  split
  · rename_i h
    rw [and15] at h
    rw [and15, UInt32.toNat_add]
    have := w.toNat_lt
    simp at *
    omega
  · rw [and15, UInt32.toNat_or]
    have : (w.toNat ||| 15) % 16 = 15 := by
      have h1 : (w.toNat ||| 15) % 16 = (w.toNat % 16) ||| (15 % 16) := by
        rw [← Nat.and_two_pow_sub_one_eq_mod _ 4, ← Nat.and_two_pow_sub_one_eq_mod _ 4, ← Nat.and_two_pow_sub_one_eq_mod _ 4, Nat.and_or_distrib_right]
      rw [h1]
      have hk : w.toNat % 16 < 16 := Nat.mod_lt _ (by decide)
      have key : ∀ k : Fin 16, (k.val ||| 15 % 16) = 15 := by decide
      exact key ⟨w.toNat % 16, hk⟩
    simp at *
    omega

/-! ### the friend list row -/

theorem hbflScan_zeros (uid k : Nat) : hbflScan uid (List.replicate k 0) = false := by
  cases k <;> simp [List.replicate, hbflScan]

theorem hbflScan_nonzero_append (uid : Nat) (fs rest : List Nat) (hnz : ∀ f ∈ fs, f ≠ 0) :
    hbflScan uid (fs ++ rest) = (decide (uid ∈ fs) || hbflScan uid rest) := by
  induction fs with
  | nil => simp
  | cons f r ih =>
    have hf : f ≠ 0 := hnz f (by simp)
    have ih' := ih (fun g hg => hnz g (by simp [hg]))
    simp only [List.cons_append, hbflScan, hf, if_false, List.mem_cons]
    by_cases h : f = uid
    · simp [h]
    · have h' : ¬ uid = f := fun e => h e.symm
      simp [h, h', ih']

theorem hbflFill_nonzero (es : List Nat) : ∀ f ∈ hbflFill es, f ≠ 0 := by
  intro f hf
  have := List.mem_of_mem_take hf
  simpa using (List.mem_filter.mp this).2

theorem hbflFill_length (es : List Nat) : (hbflFill es).length ≤ MAX_FRIEND := by
  unfold hbflFill; simp [List.length_take]; omega

/-! ### runEvents -/

/-- the guard fires on this row. -/
def refuses (x : Row) : Event → Bool
  | .guard c _ => evalCond x c
  | .effect _ _ _ => false

@[simp] theorem refuses_guard (x : Row) (c s) : refuses x (.guard c s) = evalCond x c := rfl
@[simp] theorem refuses_effect (x : Row) (n p c) : refuses x (.effect n p c) = false := rfl

theorem runEvents_err_none (x : Row) (evs : List Event) (t : Bool) :
    (runEvents x evs t).err = none ↔ evs.all (fun e => !refuses x e) = true := by
  induction evs generalizing t with
  | nil => simp [runEvents]
  | cons e r ih =>
    cases e with
    | guard c s =>
      rw [List.all_cons, refuses_guard]
      simp only [runEvents]
      cases h : evalCond x c
      · simpa using ih t
      · simp
    | effect n p c =>
      rw [List.all_cons, refuses_effect]
      simp only [runEvents]
      simpa using ih _

theorem quiet_sound (x : Row) : ∀ c : Cond, c.quiet = true → evalCond x c = false := by
  intro c
  induction c with
  | tt => simp [Cond.quiet]
  | atom a =>
    cases a <;> simp [Cond.quiet, evalCond, evalAtom]
    case callFailed k s => cases k <;> simp [Cond.quiet]
  | not c _ => simp [Cond.quiet]
  | and a b iha ihb =>
    simp only [Cond.quiet, Bool.or_eq_true, evalCond, Bool.and_eq_false_iff]
    rintro (h | h)
    · exact Or.inl (iha h)
    · exact Or.inr (ihb h)
  | or a b iha ihb =>
    simp only [Cond.quiet, Bool.and_eq_true, evalCond, Bool.or_eq_false_iff]
    rintro ⟨h1, h2⟩
    exact ⟨iha h1, ihb h2⟩

theorem runEvents_quiet (x : Row) (evs : List Event) (t : Bool) (h : evs.all Event.isQuiet = true) :
    (runEvents x evs t).err = none := by
  rw [runEvents_err_none]
  rw [List.all_eq_true] at h ⊢
  intro e he
  have hq := h e he
  cases e with
  | guard c s => simp only [Event.isQuiet] at hq; simp [quiet_sound x c hq]
  | effect n p c => simp

/-- when no refusal that the model can take follows the first persistent effect, a refusal has touched nothing. -/
theorem refused_untouched_of_guardsFirst (x : Row) (evs : List Event) (h : guardsFirst evs = true) :
    (runEvents x evs false).err ≠ none → (runEvents x evs false).touched = false := by
  induction evs with
  | nil => simp [runEvents]
  | cons e r ih =>
    cases e with
    | guard c s =>
      simp only [runEvents]
      cases hc : evalCond x c
      · simpa using ih (by simpa [guardsFirst] using h)
      · simp
    | effect n p c =>
      cases p with
      | false =>
        simp only [runEvents, Bool.false_and, Bool.or_false]
        exact ih (by simpa [guardsFirst] using h)
      | true =>
        intro hne
        simp only [runEvents] at hne
        exact absurd (runEvents_quiet x r _ (by simpa [guardsFirst] using h)) hne

/-! ### acceptance of the four operations in terms of the hand-modelled decisions -/

theorem accepted_newpost_model (x : Row) :
    accepted .newpost x ↔
      boardPermStat x.u x.src ≠ 0 ∧ postpermMsg x.u x.src x.now = none ∧ getBoardRestrictionReason x.u x.src = 0 ∧
      checkCooldown x.u x.src x.cd x.now = false ∧ has x.u.level PERM_LOGINOK = true := by
  unfold accepted run Op.events
  rw [runEvents_err_none]
  simp [Gen.WriteGuards.newpost, evalCond, evalAtom, Row.board, checkPostRestriction, PERM_LOGINOK, PERM_BASIC, PERM_SYSOP, PERM_VIOLATELAW, BRD_VOTEBOARD, BRD_NORECOMMEND, BRD_CPLOG, FILE_MARKED, FILE_SOLVED, FILE_VOTE,
    Gen.WriteGuards.PERM_LOGINOK, Gen.WriteGuards.PERM_BASIC, Gen.WriteGuards.PERM_SYSOP, Gen.WriteGuards.PERM_VIOLATELAW, Gen.WriteGuards.BRD_VOTEBOARD,
    Gen.WriteGuards.BRD_NORECOMMEND, Gen.WriteGuards.BRD_CPLOG, Gen.WriteGuards.FILE_MARKED, Gen.WriteGuards.FILE_SOLVED, Gen.WriteGuards.FILE_VOTE]

theorem accepted_recommend_model (x : Row) :
    accepted .recommend x ↔
      boardPermStat x.u x.src ≠ 0 ∧ postpermMsg x.u x.src x.now = none ∧ getBoardRestrictionReason x.u x.src = 0 ∧
      checkCooldown x.u x.src x.cd x.now = false ∧
      x.art.total0 = false ∧ x.art.found = true ∧
      (has x.src.attr BRD_NORECOMMEND = false ∧ firstIs x.art.entName 76 = false) ∧
      (has x.art.entMode.toUInt32 FILE_MARKED = false ∨ has x.art.entMode.toUInt32 FILE_SOLVED = false) := by
  unfold accepted run Op.events
  rw [runEvents_err_none]
  simp [Gen.WriteGuards.recommend, evalCond, evalAtom, Row.board, PERM_LOGINOK, PERM_BASIC, PERM_SYSOP, PERM_VIOLATELAW, BRD_VOTEBOARD, BRD_NORECOMMEND, BRD_CPLOG, FILE_MARKED, FILE_SOLVED, FILE_VOTE,
    Gen.WriteGuards.PERM_LOGINOK, Gen.WriteGuards.PERM_BASIC, Gen.WriteGuards.PERM_SYSOP, Gen.WriteGuards.PERM_VIOLATELAW, Gen.WriteGuards.BRD_VOTEBOARD,
    Gen.WriteGuards.BRD_NORECOMMEND, Gen.WriteGuards.BRD_CPLOG, Gen.WriteGuards.FILE_MARKED, Gen.WriteGuards.FILE_SOLVED, Gen.WriteGuards.FILE_VOTE]

theorem accepted_editpost_model (x : Row) :
    accepted .editpost x ↔
      boardPermStat x.u x.src ≠ 0 ∧
      (isReadonlyBoard x.src.name = false ∧ has x.src.attr BRD_VOTEBOARD = false) ∧
      x.art.found = true ∧ has x.art.entMode.toUInt32 FILE_VOTE = false ∧ firstIs x.art.entName 46 = false ∧
      has x.u.level PERM_BASIC = true ∧
      postpermMsg x.u x.src x.now = none ∧ getBoardRestrictionReason x.u x.src = 0 ∧
      (isFileOwner x.art x.u = true ∨ has x.u.level PERM_SYSOP = true) := by
  unfold accepted run Op.events
  rw [runEvents_err_none]
  simp [Gen.WriteGuards.editpost, evalCond, evalAtom, Row.board, PERM_LOGINOK, PERM_BASIC, PERM_SYSOP, PERM_VIOLATELAW, BRD_VOTEBOARD, BRD_NORECOMMEND, BRD_CPLOG, FILE_MARKED, FILE_SOLVED, FILE_VOTE,
    Gen.WriteGuards.PERM_LOGINOK, Gen.WriteGuards.PERM_BASIC, Gen.WriteGuards.PERM_SYSOP, Gen.WriteGuards.PERM_VIOLATELAW, Gen.WriteGuards.BRD_VOTEBOARD,
    Gen.WriteGuards.BRD_NORECOMMEND, Gen.WriteGuards.BRD_CPLOG, Gen.WriteGuards.FILE_MARKED, Gen.WriteGuards.FILE_SOLVED, Gen.WriteGuards.FILE_VOTE]

theorem accepted_crosspost_model (x : Row) :
    accepted .crosspost x ↔
      has x.src.attr BRD_VOTEBOARD = false ∧ boardPermStat x.u x.src ≠ 0 ∧
      x.art.found = true ∧ firstIs x.art.entOwner 45 = false ∧ x.art.fileExists = true ∧
      has x.u.level PERM_VIOLATELAW = false ∧ has x.u.level PERM_LOGINOK = true ∧
      (has x.src.attr BRD_CPLOG = true →
        postpermMsg x.u x.src x.now = none ∧ getBoardRestrictionReason x.u x.src = 0) ∧
      boardPermStat x.u x.tgt ≠ 0 ∧ postpermMsg x.u x.tgt x.now = none ∧
      getBoardRestrictionReason x.u x.tgt = 0 ∧ checkCooldown x.u x.tgt x.cd x.now = false := by
  unfold accepted run Op.events
  rw [runEvents_err_none]
  simp [Gen.WriteGuards.crosspost, evalCond, evalAtom, Row.board, checkPostRestriction, hasPostPerm, PERM_LOGINOK, PERM_BASIC, PERM_SYSOP, PERM_VIOLATELAW, BRD_VOTEBOARD, BRD_NORECOMMEND, BRD_CPLOG, FILE_MARKED, FILE_SOLVED, FILE_VOTE,
    Gen.WriteGuards.PERM_LOGINOK, Gen.WriteGuards.PERM_BASIC, Gen.WriteGuards.PERM_SYSOP, Gen.WriteGuards.PERM_VIOLATELAW, Gen.WriteGuards.BRD_VOTEBOARD,
    Gen.WriteGuards.BRD_NORECOMMEND, Gen.WriteGuards.BRD_CPLOG, Gen.WriteGuards.FILE_MARKED, Gen.WriteGuards.FILE_SOLVED, Gen.WriteGuards.FILE_VOTE]
  intros
  cases has x.src.attr 2097152 <;> simp

end PttVerif.C08
