import PttVerif.Proofs.C02Key2
/-
C02, stage 4 — the data path: the bit-swap networks of `body` against the textbook IP / FP, in the representation the
implementation uses (each 32-bit half bit-reversed and rotated left by one: `rho`).
-/
namespace PttVerif.C02.Lin
open PttVerif PttVerif.C02 PttVerif.Gen.CryptTables

/-- libdes representation of a FIPS 32-bit half: FIPS bit j at word bit j-1, then rotated left by one. -/
def rhoE (x : LE) : LE := LE.or (LE.shl (LE.rev 32 x) 1) (LE.shr (LE.rev 32 x) 31)
def rho (x : Nat) : Nat := eval x (rhoE LE.inp)
theorem eval_rhoE (X : Nat) (x : LE) : eval X (rhoE x) = rho (eval X x) := rfl

/-- `finalPerm` as a circuit. -/
def finalPermE (l r : LE) : LE × LE :=
  let t := r
  let r := LE.or (LE.shr l 1) (LE.shl l 31)
  let l := LE.or (LE.shr t 1) (LE.shl t 31)
  let l := LE.and l 0xffffffff
  let r := LE.and r 0xffffffff
  let (r, l) := PermOpE r l 1 0x55555555
  let (l, r) := PermOpE l r 8 0x00ff00ff
  let (r, l) := PermOpE r l 2 0x33333333
  let (l, r) := PermOpE l r 16 0x0000ffff
  let (r, l) := PermOpE r l 4 0x0f0f0f0f
  (l, r)

theorem finalPerm_eval (X : Nat) (l r : LE) :
    finalPerm (eval X l, eval X r) = (eval X (finalPermE l r).1, eval X (finalPermE l r).2) := rfl

/-- the four bytes `l2c` stores, read back as a big-endian number (first stored byte most significant). -/
def bswapE (w : LE) : LE :=
  LE.or (LE.or (LE.or (LE.shlN (LE.and w 0xff) 24) (LE.shlN (LE.and (LE.shr w 8) 0xff) 16))
    (LE.shlN (LE.and (LE.shr w 16) 0xff) 8)) (LE.and (LE.shr w 24) 0xff)
def bswap (w : Nat) : Nat := eval w (bswapE LE.inp)

/-- the 64 output bits, first output byte most significant. -/
def outVal (o : Nat × Nat) : Nat := (bswap o.1 <<< 32) ||| bswap o.2

def hiE : LE := LE.shr LE.inp 32
def loE : LE := LE.and LE.inp 0xffffffff

def finalE : LE :=
  let o := finalPermE (rhoE hiE) (rhoE loE)
  LE.or (LE.shlN (bswapE o.1) 32) (bswapE o.2)

theorem final_ok : ok (2 ^ 64 - 1) finalE = true := by decide +kernel
theorem final_basis : (List.range 64).all (fun i => eval (2 ^ i) finalE == eval (2 ^ i) (LE.perm Spec.FP 64 LE.inp)) = true := by
  decide +kernel

theorem pack32_hi (A B : Nat) (hB : B < 2 ^ 32) : (A * 4294967296 + B) >>> 32 = A := by
  rw [Nat.shiftRight_eq_div_pow]; omega

theorem pack32_lo (A B : Nat) (hB : B < 2 ^ 32) : (A * 4294967296 + B) &&& 0xffffffff = B := by
  rw [show (0xffffffff : Nat) = 2 ^ 32 - 1 from rfl, Nat.and_two_pow_sub_one_eq_mod]; omega

/-- the tail of `body` is the textbook final permutation FP: for the pre-output halves `A‖B` held in the
implementation's representation, the eight output bytes read big-endian are `FP(A‖B)`. -/
theorem finalPerm_eq_FP (A B : Nat) (hA : A < 2 ^ 32) (hB : B < 2 ^ 32) :
    outVal (finalPerm (rho A, rho B)) = Spec.permF Spec.FP 64 (A * 4294967296 + B) := by
  have hX : A * 4294967296 + B < 2 ^ 64 := by
    have : A * 4294967296 ≤ (2 ^ 32 - 1) * 4294967296 := Nat.mul_le_mul_right _ (by omega)
    omega
  have e := le_ext 64 finalE (LE.perm Spec.FP 64 LE.inp) final_ok (by decide +kernel) final_basis _ hX
  have h1 : eval (A * 4294967296 + B) (rhoE hiE) = rho A := by rw [eval_rhoE]; show rho ((A * 4294967296 + B) >>> 32) = _; rw [pack32_hi A B hB]
  have h2 : eval (A * 4294967296 + B) (rhoE loE) = rho B := by rw [eval_rhoE]; show rho ((A * 4294967296 + B) &&& 0xffffffff) = _; rw [pack32_lo A B hB]
  have := finalPerm_eval (A * 4294967296 + B) (rhoE hiE) (rhoE loE)
  rw [h1, h2] at this
  rw [this]
  exact e

/-- IP and FP are inverse permutations: between two of the 25 encryptions nothing happens to the block. -/
theorem ip_fp_cancel (x : Nat) (hx : x < 2 ^ 64) : Spec.permF Spec.IP 64 (Spec.permF Spec.FP 64 x) = x :=
  le_ext 64 (LE.perm Spec.IP 64 (LE.perm Spec.FP 64 LE.inp)) LE.inp (by decide +kernel) (by decide +kernel)
    (by decide +kernel) x hx

theorem ip_zero : Spec.permF Spec.IP 64 0 = 0 := by decide +kernel

/-! ### how `dEncrypt` consumes the schedule words -/

/-- `(t >> 4) | (t << 28)` of `dEncrypt`. -/
def rotr4E (w : LE) : LE := LE.or (LE.shr w 4) (LE.shl w 28)

/-- the S-box index `dEncrypt` extracts for box `b` (0-based) from the key-only part of `u` (even boxes, word `kw0`)
resp. of the rotated `t` (odd boxes, word `kw1`). -/
def keyIdxE (b : Nat) : LE :=
  if b % 2 = 0 then LE.and (LE.shr (kw0E LE.inp) (8 * (b / 2))) 0x3f
  else LE.and (LE.shr (rotr4E (kw1E LE.inp)) (8 * (b / 2))) 0x3f

def keyIdx (K b : Nat) : Nat := eval K (keyIdxE b)

theorem keyIdx_ok : (List.range 8).all (fun b => ok (2 ^ 48 - 1) (keyIdxE b) && ok (2 ^ 48 - 1) (chunkE LE.inp b) &&
    (List.range 48).all (fun i => eval (2 ^ i) (keyIdxE b) == eval (2 ^ i) (chunkE LE.inp b))) = true := by decide +kernel

/-- the six key bits that reach S-box `b+1` in `dEncrypt` are block `B_{b+1}` of the round key (bits 6b+1 … 6b+6),
first bit least significant — for every 48-bit round key. -/
theorem keyIdx_eq_block (K b : Nat) (hK : K < 2 ^ 48) (hb : b < 8) :
    keyIdx K b = Spec.revBits 6 ((K >>> (6 * (7 - b))) &&& 63) := by
  have h := keyIdx_ok
  rw [List.all_eq_true] at h
  have := h b (List.mem_range.mpr hb)
  simp only [Bool.and_eq_true] at this
  exact le_ext 48 _ _ this.1.1 this.1.2 this.2 K hK

/-- the S-box index `dEncrypt` extracts for box `b` from the data word alone (no key, no salt): from `R` itself for
even boxes, from `R` rotated right by 4 for odd boxes, `R` being held as `rho` of the FIPS half. -/
def dataIdxE (b : Nat) : LE :=
  if b % 2 = 0 then LE.and (LE.shr (rhoE LE.inp) (8 * (b / 2))) 0x3f
  else LE.and (LE.shr (rotr4E (rhoE LE.inp)) (8 * (b / 2))) 0x3f

def dataIdx (R b : Nat) : Nat := eval R (dataIdxE b)

theorem dataIdx_ok : (List.range 8).all (fun b => ok (2 ^ 32 - 1) (dataIdxE b) &&
    ok (2 ^ 32 - 1) (chunkE (LE.perm Spec.E 32 LE.inp) b) &&
    (List.range 32).all (fun i => eval (2 ^ i) (dataIdxE b) == eval (2 ^ i) (chunkE (LE.perm Spec.E 32 LE.inp) b))) = true := by
  decide +kernel

/-- the six data bits that reach S-box `b+1` are block `b+1` of the textbook expansion `E(R)` — the rotation by one
and by four of the implementation is exactly the E bit-selection table, for every 32-bit half. -/
theorem dataIdx_eq_Eblock (R b : Nat) (hR : R < 2 ^ 32) (hb : b < 8) :
    dataIdx R b = Spec.revBits 6 ((Spec.permF Spec.E 32 R >>> (6 * (7 - b))) &&& 63) := by
  have h := dataIdx_ok
  rw [List.all_eq_true] at h
  have := h b (List.mem_range.mpr hb)
  simp only [Bool.and_eq_true] at this
  exact le_ext 32 _ _ this.1.1 this.1.2 this.2 R hR

end PttVerif.C02.Lin
