import PttVerif.Proofs.C02Body2
import PttVerif.Proofs.C02Out
import PttVerif.Proofs.C02Pw
/-
C02, stage 4 — assembly: the hash `cFcrypt` computes is the textbook `Spec.crypt3`.
-/
namespace PttVerif.C02.Lin
open PttVerif PttVerif.C02 PttVerif.Gen.CryptTables

theorem saltValue_lt (c : Nat) : Spec.saltValue c < 64 := by
  unfold Spec.saltValue
  split
  · decide
  · split
    · omega
    · split
      · omega
      · split
        · omega
        · decide

theorem keyScheduleAux_facts : ∀ (ns : List Nat) (c d : Nat),
    (Spec.keyScheduleAux ns c d).length = ns.length ∧ ∀ K ∈ Spec.keyScheduleAux ns c d, K < 2 ^ 48 := by
  intro ns
  induction ns with
  | nil => intro c d; simp [Spec.keyScheduleAux]
  | cons n ns ih =>
    intro c d
    simp only [Spec.keyScheduleAux, List.length_cons, List.mem_cons]
    refine ⟨by rw [(ih _ _).1], ?_⟩
    rintro K (rfl | hK)
    · exact permF_lt Spec.PC2 56 _
    · exact (ih _ _).2 K hK

theorem keySchedule_facts (K : Nat) :
    (Spec.keySchedule K).length = 16 ∧ ∀ k ∈ Spec.keySchedule K, k < 2 ^ 48 := by
  unfold Spec.keySchedule
  exact keyScheduleAux_facts Spec.shifts _ _

theorem pack_salt (v0 v1 : Nat) (h0 : v0 < 64) (h1 : v1 < 64) :
    v0 + 64 * v1 < 2 ^ 12 ∧ (v0 + 64 * v1) &&& 63 = v0 ∧ (v0 + 64 * v1) >>> 6 = v1 := by
  refine ⟨by omega, ?_, ?_⟩
  · rw [show (63 : Nat) = 2 ^ 6 - 1 from rfl, Nat.and_two_pow_sub_one_eq_mod]; omega
  · rw [Nat.shiftRight_eq_div_pow]; omega

/-- the hash for salt characters `x0`, `x1`: exactly the textbook crypt(3) result. -/
theorem hashOf_eq_crypt3 (p : List Nat) (x0 x1 : Nat) :
    hashOf p x0 x1 (Spec.saltValue x0) (Spec.saltValue x1) = Spec.crypt3 p x0 x1 := by
  have hv0 := saltValue_lt x0
  have hv1 := saltValue_lt x1
  obtain ⟨hσ, e0, e1⟩ := pack_salt _ _ hv0 hv1
  have hkey : (effKey8 p).map (· * 2) = bytesBE (Spec.keyOfBytes (Spec.cstr8 p)) := by
    rw [← mkKey_eq, mkKey_eq_crypt3_key]
  obtain ⟨hl, hK⟩ := keySchedule_facts (Spec.keyOfBytes (Spec.cstr8 p))
  have hb := body_spec _ hσ _ hl hK
  have hlt := body_lt _ hσ _ hl hK
  simp only [E0, E1, sm, e0, e1] at hb hlt
  unfold hashOf Spec.crypt3
  simp only []
  rw [hkey, desSetKey_eq_keySchedule _ (keyOfBytes_lt p)]
  generalize body (ksWords (Spec.keySchedule (Spec.keyOfBytes (Spec.cstr8 p)))) (Spec.saltValue x0)
    (shl (Spec.saltValue x1) 4) = out at hb hlt
  obtain ⟨a, b⟩ := out
  rw [outChars_eq_encode64 a b hlt.1 hlt.2, hb]

end PttVerif.C02.Lin
