import PttVerif.Model.C15
/-
Inductive invariant of the registration protocol when the existence lookup is repeated under the lock.
-/
namespace PttVerif.C15

/-- the thread is between semWait and semPost. -/
def inLock : PC → Bool
  | .locked | .rechecked | .assigned _ | .written _ | .unlocking _ => true
  | _ => false

/-- the slot a registration has completely written (index and record). -/
def okAt : PC → Option Nat
  | .written k => some k
  | .unlocking (.ok k) => some k
  | .done (.ok k) => some k
  | _ => none

/-- the registration has decided that the id is already taken. -/
def saidExists : PC → Bool
  | .unlocking .exists_ | .done .exists_ => true
  | _ => false

/-- assumptions on the slot search: it returns an empty slot below the capacity. -/
structure PickOK (P : Params) : Prop where
  sound : ∀ tbl k, P.pick tbl = some k → k < P.cap ∧ tbl k = none

theorem hasId_iff (tbl : Nat → Option Nat) (cap a : Nat) :
    hasId tbl cap a = true ↔ ∃ k, k < cap ∧ tbl k = some a := by
  unfold hasId
  rw [List.any_eq_true]
  constructor
  · rintro ⟨k, hk, h⟩
    exact ⟨k, by simpa using hk, by simpa using h⟩
  · rintro ⟨k, hk, h⟩
    exact ⟨k, by simpa using hk, by simp [h]⟩

structure Inv (P : Params) (tbl0 : Nat → Option Nat) (s : Sys) : Prop where
  sem_iff : ∀ t, s.sem = some t ↔ inLock (s.pc t) = true
  nodup : ∀ i j a, s.table i = some a → s.table j = some a → i = j
  bound : ∀ k, P.cap ≤ k → s.table k = none
  rechecked_absent : ∀ t, s.pc t = .rechecked → hasId s.table P.cap (P.idOf t) = false
  assigned_spec : ∀ t k, s.pc t = .assigned k → s.table k = some (P.idOf t) ∧ s.who k = some t
  disk_agree : ∀ k, s.disk k ≠ s.table k → ∃ t, s.pc t = .assigned k
  ok_slot : ∀ t k, okAt (s.pc t) = some k →
      s.table k = some (P.idOf t) ∧ s.disk k = some (P.idOf t) ∧ s.who k = some t
  who_spec : ∀ k t, s.who k = some t →
      tbl0 k = none ∧ s.table k = some (P.idOf t) ∧ (s.pc t = .assigned k ∨ okAt (s.pc t) = some k)
  old_kept : ∀ k a, tbl0 k = some a → s.table k = some a ∧ s.disk k = some a
  fresh_owned : ∀ k, tbl0 k = none → s.table k ≠ none → s.who k ≠ none
  exists_sound : ∀ t, saidExists (s.pc t) = true → hasId s.table P.cap (P.idOf t) = true

@[simp] theorem setPc_same (s : Sys) (t : Nat) (p : PC) : setPc s t p t = p := by simp [setPc]
theorem setPc_other (s : Sys) (t u : Nat) (p : PC) (h : u ≠ t) : setPc s t p u = s.pc u := by
  simp [setPc, h]
@[simp] theorem setSlot_same (f : Nat → Option Nat) (k : Nat) (v : Option Nat) : setSlot f k v k = v := by
  simp [setSlot]
theorem setSlot_other (f : Nat → Option Nat) (k j : Nat) (v : Option Nat) (h : j ≠ k) :
    setSlot f k v j = f j := by simp [setSlot, h]

theorem inLock_unique {P tbl0 s} (inv : Inv P tbl0 s) (t u : Nat)
    (ht : inLock (s.pc t) = true) (hu : inLock (s.pc u) = true) : t = u := by
  have a := (inv.sem_iff t).2 ht
  have b := (inv.sem_iff u).2 hu
  rw [a] at b; exact Option.some.inj b

theorem inv_init (P : Params) (tbl0 : Nat → Option Nat)
    (h0 : ∀ i j a, tbl0 i = some a → tbl0 j = some a → i = j) (hb : ∀ k, P.cap ≤ k → tbl0 k = none) :
    Inv P tbl0 (init tbl0) where
  sem_iff := by intro t; simp [init, inLock]
  nodup := h0
  bound := hb
  rechecked_absent := by intro t h; simp [init] at h
  assigned_spec := by intro t k h; simp [init] at h
  disk_agree := by intro k h; simp [init] at h
  ok_slot := by intro t k h; simp [init, okAt] at h
  who_spec := by intro k t h; simp [init] at h
  old_kept := by intro k a h; simp [init, h]
  fresh_owned := by intro k h h'; simp [init, h] at h'
  exists_sound := by intro t h; simp [init, saidExists] at h

/-- a step that changes only `pc t` to a value with the same `inLock`, not `rechecked`/`assigned`,
with the same `okAt` and no new `saidExists` claim keeps the invariant. -/
theorem inv_pc_only (P : Params) (tbl0 : Nat → Option Nat) (s : Sys) (t : Nat) (p : PC)
    (inv : Inv P tbl0 s)
    (hl : inLock p = inLock (s.pc t))
    (hr : p ≠ .rechecked ∨ hasId s.table P.cap (P.idOf t) = false)
    (ha : ∀ k, p = .assigned k → s.pc t = .assigned k)
    (ha' : ∀ k, s.pc t = .assigned k → p = .assigned k)
    (ho : okAt p = okAt (s.pc t))
    (he : saidExists p = true → hasId s.table P.cap (P.idOf t) = true) :
    Inv P tbl0 { s with pc := setPc s t p } := by
  refine ⟨?_, inv.nodup, inv.bound, ?_, ?_, ?_, ?_, ?_, inv.old_kept, inv.fresh_owned, ?_⟩
  · intro u
    by_cases hu : u = t
    · subst hu; simp only [setPc_same]; rw [hl]; exact inv.sem_iff u
    · simp only [setPc_other _ _ _ _ hu]; exact inv.sem_iff u
  · intro u hu'
    by_cases hu : u = t
    · subst hu
      simp only [setPc_same] at hu'
      rcases hr with h | h
      · exact absurd hu' h
      · exact h
    · simp only [setPc_other _ _ _ _ hu] at hu'; exact inv.rechecked_absent u hu'
  · intro u k hu'
    by_cases hu : u = t
    · subst hu; simp only [setPc_same] at hu'; exact inv.assigned_spec u k (ha k hu')
    · simp only [setPc_other _ _ _ _ hu] at hu'; exact inv.assigned_spec u k hu'
  · intro k hk
    obtain ⟨w, hw⟩ := inv.disk_agree k hk
    by_cases hwt : w = t
    · subst hwt; exact ⟨w, by simp only [setPc_same]; exact ha' k hw⟩
    · exact ⟨w, by simp only [setPc_other _ _ _ _ hwt]; exact hw⟩
  · intro u k hu'
    by_cases hu : u = t
    · subst hu; simp only [setPc_same] at hu'; rw [ho] at hu'; exact inv.ok_slot u k hu'
    · simp only [setPc_other _ _ _ _ hu] at hu'; exact inv.ok_slot u k hu'
  · intro k u hu'
    obtain ⟨h1, h2, h3⟩ := inv.who_spec k u hu'
    refine ⟨h1, h2, ?_⟩
    by_cases hu : u = t
    · subst hu
      simp only [setPc_same]
      rcases h3 with h | h
      · left; exact ha' k h
      · right; rw [ho]; exact h
    · simp only [setPc_other _ _ _ _ hu]; exact h3
  · intro u hu'
    by_cases hu : u = t
    · subst hu; simp only [setPc_same] at hu'; exact he hu'
    · simp only [setPc_other _ _ _ _ hu] at hu'; exact inv.exists_sound u hu'

theorem hasId_mono (tbl : Nat → Option Nat) (cap a k b : Nat) (hk : tbl k = none)
    (h : hasId tbl cap a = true) : hasId (setSlot tbl k (some b)) cap a = true := by
  rw [hasId_iff] at h ⊢
  obtain ⟨j, hj, hja⟩ := h
  have : j ≠ k := by intro e; subst e; rw [hk] at hja; simp at hja
  exact ⟨j, hj, by rw [setSlot_other _ _ _ _ this]; exact hja⟩

/-- every atomic step preserves the invariant, provided the lookup is repeated under the lock. -/
theorem inv_step (P : Params) (tbl0 : Nat → Option Nat) (pk : PickOK P) (hcul : P.checkUnderLock = true)
    (s s' : Sys) (t : Nat) (inv : Inv P tbl0 s) (h : step P s t = some s') : Inv P tbl0 s' := by
  unfold step at h
  cases hpc : s.pc t with
  | start =>
    rw [hpc] at h
    by_cases hid : hasId s.table P.cap (P.idOf t) = true
    · simp only [hid, if_true, Option.some.injEq] at h
      subst h
      exact inv_pc_only P tbl0 s t _ inv (by rw [hpc]; rfl) (Or.inl (by simp))
        (by intro k e; simp at e) (by intro k e; rw [hpc] at e; simp at e) (by rw [hpc]; rfl) (fun _ => hid)
    · simp only [hid, Bool.false_eq_true, if_false, Option.some.injEq] at h
      subst h
      exact inv_pc_only P tbl0 s t _ inv (by rw [hpc]; rfl) (Or.inl (by simp))
        (by intro k e; simp at e) (by intro k e; rw [hpc] at e; simp at e) (by rw [hpc]; rfl)
        (by intro e; simp [saidExists] at e)
  | checked =>
    rw [hpc] at h
    cases hsem : s.sem with
    | some x => rw [hsem] at h; simp at h
    | none =>
      rw [hsem] at h
      simp only [Option.some.injEq] at h
      subst h
      have nobody : ∀ u, inLock (s.pc u) = false := by
        intro u
        cases hb : inLock (s.pc u) with
        | false => rfl
        | true => have := (inv.sem_iff u).2 hb; rw [hsem] at this; simp at this
      refine ⟨?_, inv.nodup, inv.bound, ?_, ?_, ?_, ?_, ?_, inv.old_kept, inv.fresh_owned, ?_⟩
      · intro u
        by_cases hu : u = t
        · subst hu; simp [inLock]
        · simp only [setPc_other _ _ _ _ hu, nobody u]
          constructor
          · intro e; exact absurd (Option.some.inj e).symm hu
          · intro e; simp at e
      · intro u hu'
        by_cases hu : u = t
        · subst hu; simp at hu'
        · simp only [setPc_other _ _ _ _ hu] at hu'; exact inv.rechecked_absent u hu'
      · intro u k hu'
        by_cases hu : u = t
        · subst hu; simp at hu'
        · simp only [setPc_other _ _ _ _ hu] at hu'; exact inv.assigned_spec u k hu'
      · intro k hk
        obtain ⟨w, hw⟩ := inv.disk_agree k hk
        have hwt : w ≠ t := by intro e; subst e; rw [hpc] at hw; simp at hw
        exact ⟨w, by simp only [setPc_other _ _ _ _ hwt]; exact hw⟩
      · intro u k hu'
        by_cases hu : u = t
        · subst hu; simp [okAt] at hu'
        · simp only [setPc_other _ _ _ _ hu] at hu'; exact inv.ok_slot u k hu'
      · intro k u hu'
        obtain ⟨h1, h2, h3⟩ := inv.who_spec k u hu'
        refine ⟨h1, h2, ?_⟩
        have hu : u ≠ t := by
          intro e; subst e; rw [hpc] at h3; simp [okAt] at h3
        simp only [setPc_other _ _ _ _ hu]; exact h3
      · intro u hu'
        by_cases hu : u = t
        · subst hu; simp [saidExists] at hu'
        · simp only [setPc_other _ _ _ _ hu] at hu'; exact inv.exists_sound u hu'
  | locked =>
    rw [hpc] at h
    by_cases hid : hasId s.table P.cap (P.idOf t) = true
    · simp only [hcul, hid, Bool.and_self, if_true, Option.some.injEq] at h
      subst h
      exact inv_pc_only P tbl0 s t _ inv (by rw [hpc]; rfl) (Or.inl (by simp))
        (by intro k e; simp at e) (by intro k e; rw [hpc] at e; simp at e) (by rw [hpc]; rfl) (fun _ => hid)
    · have hid' : hasId s.table P.cap (P.idOf t) = false := by simpa using hid
      simp only [hcul, hid', Bool.and_false, Bool.false_eq_true, if_false, Option.some.injEq] at h
      subst h
      exact inv_pc_only P tbl0 s t _ inv (by rw [hpc]; rfl) (Or.inr hid')
        (by intro k e; simp at e) (by intro k e; rw [hpc] at e; simp at e) (by rw [hpc]; rfl)
        (by intro e; simp [saidExists] at e)
  | rechecked =>
    rw [hpc] at h
    have habs := inv.rechecked_absent t hpc
    have htl : inLock (s.pc t) = true := by rw [hpc]; rfl
    cases hp : P.pick s.table with
    | none =>
      rw [hp] at h
      simp only [Option.some.injEq] at h
      subst h
      exact inv_pc_only P tbl0 s t _ inv (by rw [hpc]; rfl) (Or.inl (by simp))
        (by intro k e; simp at e) (by intro k e; rw [hpc] at e; simp at e) (by rw [hpc]; rfl)
        (by intro e; simp [saidExists] at e)
    | some k =>
      rw [hp] at h
      simp only [Option.some.injEq] at h
      subst h
      obtain ⟨hkc, hke⟩ := pk.sound _ _ hp
      have absent : ∀ j, s.table j ≠ some (P.idOf t) := by
        intro j hj
        have hjc : j < P.cap := by
          rcases Nat.lt_or_ge j P.cap with h | h
          · exact h
          · rw [inv.bound j h] at hj; simp at hj
        have : hasId s.table P.cap (P.idOf t) = true := (hasId_iff _ _ _).2 ⟨j, hjc, hj⟩
        rw [habs] at this; simp at this
      have nowho : s.who k = none := by
        cases hw : s.who k with
        | none => rfl
        | some w => have := (inv.who_spec k w hw).2.1; rw [hke] at this; simp at this
      have told : tbl0 k = none := by
        cases ht0 : tbl0 k with
        | none => rfl
        | some a => have := (inv.old_kept k a ht0).1; rw [hke] at this; simp at this
      have hdk : s.disk k = none := by
        cases hd : s.disk k with
        | none => rfl
        | some a =>
          exfalso
          have hne : s.disk k ≠ s.table k := by rw [hd, hke]; simp
          obtain ⟨w, hw⟩ := inv.disk_agree k hne
          have := (inv.assigned_spec w k hw).1; rw [hke] at this; simp at this
      refine ⟨?_, ?_, ?_, ?_, ?_, ?_, ?_, ?_, ?_, ?_, ?_⟩
      · intro u
        by_cases hu : u = t
        · subst hu; simp only [setPc_same]; rw [show inLock (.assigned k) = inLock (s.pc u) by rw [hpc]; rfl]
          exact inv.sem_iff u
        · simp only [setPc_other _ _ _ _ hu]; exact inv.sem_iff u
      · intro i j a hi hj
        simp only [] at hi hj
        by_cases hik : i = k
        · by_cases hjk : j = k
          · rw [hik, hjk]
          · exfalso
            subst hik
            simp only [setSlot_same, Option.some.injEq] at hi
            simp only [setSlot_other _ _ _ _ hjk] at hj
            subst hi; exact absent j hj
        · by_cases hjk : j = k
          · exfalso
            subst hjk
            simp only [setSlot_same, Option.some.injEq] at hj
            simp only [setSlot_other _ _ _ _ hik] at hi
            subst hj; exact absent i hi
          · simp only [setSlot_other _ _ _ _ hik] at hi; simp only [setSlot_other _ _ _ _ hjk] at hj
            exact inv.nodup i j a hi hj
      · intro j hj
        have : j ≠ k := by omega
        simp only [setSlot_other _ _ _ _ this]; exact inv.bound j hj
      · intro u hu'
        by_cases hu : u = t
        · subst hu; simp at hu'
        · exfalso
          simp only [setPc_other _ _ _ _ hu] at hu'
          exact hu (inLock_unique inv u t (by rw [hu']; rfl) htl)
      · intro u j hu'
        by_cases hu : u = t
        · subst hu; simp only [setPc_same, PC.assigned.injEq] at hu'; subst hu'; simp
        · exfalso
          simp only [setPc_other _ _ _ _ hu] at hu'
          exact hu (inLock_unique inv u t (by rw [hu']; rfl) htl)
      · intro j hj
        by_cases hjk : j = k
        · exact ⟨t, by subst hjk; simp⟩
        · simp only [setSlot_other _ _ _ _ hjk] at hj
          obtain ⟨w, hw⟩ := inv.disk_agree j hj
          have hwt : w ≠ t := by intro e; subst e; rw [hpc] at hw; simp at hw
          exact ⟨w, by simp only [setPc_other _ _ _ _ hwt]; exact hw⟩
      · intro u j hu'
        have hu : u ≠ t := by intro e; subst e; simp [okAt] at hu'
        simp only [setPc_other _ _ _ _ hu] at hu'
        obtain ⟨h1, h2, h3⟩ := inv.ok_slot u j hu'
        have hjk : j ≠ k := by intro e; subst e; rw [hke] at h1; simp at h1
        exact ⟨by simp only [setSlot_other _ _ _ _ hjk]; exact h1, h2, by simp only [setSlot_other _ _ _ _ hjk]; exact h3⟩
      · intro j u hu'
        by_cases hjk : j = k
        · subst hjk
          simp only [setSlot_same, Option.some.injEq] at hu'
          subst hu'
          exact ⟨told, by simp, Or.inl (by simp)⟩
        · simp only [setSlot_other _ _ _ _ hjk] at hu'
          obtain ⟨h1, h2, h3⟩ := inv.who_spec j u hu'
          have hu : u ≠ t := by
            intro e; subst e; rw [hpc] at h3; simp [okAt] at h3
          exact ⟨h1, by simp only [setSlot_other _ _ _ _ hjk]; exact h2, by simp only [setPc_other _ _ _ _ hu]; exact h3⟩
      · intro j a hj
        have hjk : j ≠ k := by intro e; subst e; rw [told] at hj; simp at hj
        simp only [setSlot_other _ _ _ _ hjk]; exact inv.old_kept j a hj
      · intro j hj hne
        by_cases hjk : j = k
        · subst hjk; simp
        · simp only [setSlot_other _ _ _ _ hjk] at hne ⊢; exact inv.fresh_owned j hj hne
      · intro u hu'
        have hu : u ≠ t := by intro e; subst e; simp [saidExists] at hu'
        simp only [setPc_other _ _ _ _ hu] at hu'
        exact hasId_mono _ _ _ _ _ hke (inv.exists_sound u hu')
  | assigned k =>
    rw [hpc] at h
    simp only [Option.some.injEq] at h
    subst h
    obtain ⟨htab, hwho⟩ := inv.assigned_spec t k hpc
    have htl : inLock (s.pc t) = true := by rw [hpc]; rfl
    refine ⟨?_, inv.nodup, inv.bound, ?_, ?_, ?_, ?_, ?_, ?_, inv.fresh_owned, ?_⟩
    · intro u
      by_cases hu : u = t
      · subst hu; simp only [setPc_same]; rw [show inLock (.written k) = inLock (s.pc u) by rw [hpc]; rfl]
        exact inv.sem_iff u
      · simp only [setPc_other _ _ _ _ hu]; exact inv.sem_iff u
    · intro u hu'
      by_cases hu : u = t
      · subst hu; simp at hu'
      · simp only [setPc_other _ _ _ _ hu] at hu'; exact inv.rechecked_absent u hu'
    · intro u j hu'
      by_cases hu : u = t
      · subst hu; simp at hu'
      · simp only [setPc_other _ _ _ _ hu] at hu'; exact inv.assigned_spec u j hu'
    · intro j hj
      by_cases hjk : j = k
      · subst hjk; simp [htab] at hj
      · simp only [setSlot_other _ _ _ _ hjk] at hj
        obtain ⟨w, hw⟩ := inv.disk_agree j hj
        have hwt : w ≠ t := by intro e; subst e; rw [hpc] at hw; simp at hw; exact hjk hw.symm
        exact ⟨w, by simp only [setPc_other _ _ _ _ hwt]; exact hw⟩
    · intro u j hu'
      by_cases hu : u = t
      · subst hu
        simp only [setPc_same, okAt, Option.some.injEq] at hu'
        subst hu'
        exact ⟨htab, by simp, hwho⟩
      · simp only [setPc_other _ _ _ _ hu] at hu'
        obtain ⟨h1, h2, h3⟩ := inv.ok_slot u j hu'
        have hjk : j ≠ k := by
          intro e; subst e
          rw [hwho] at h3; exact hu (Option.some.inj h3).symm
        exact ⟨h1, by simp only [setSlot_other _ _ _ _ hjk]; exact h2, h3⟩
    · intro j u hu'
      obtain ⟨h1, h2, h3⟩ := inv.who_spec j u hu'
      refine ⟨h1, h2, ?_⟩
      by_cases hu : u = t
      · subst hu
        simp only [setPc_same]
        rcases h3 with h | h
        · rw [hpc] at h; simp only [PC.assigned.injEq] at h; subst h; right; rfl
        · rw [hpc] at h; simp [okAt] at h
      · simp only [setPc_other _ _ _ _ hu]; exact h3
    · intro j a hj
      have hjk : j ≠ k := by
        intro e; subst e
        have := (inv.who_spec j t hwho).1; rw [this] at hj; simp at hj
      obtain ⟨h1, h2⟩ := inv.old_kept j a hj
      exact ⟨h1, by simp only [setSlot_other _ _ _ _ hjk]; exact h2⟩
    · intro u hu'
      have hu : u ≠ t := by intro e; subst e; simp [saidExists] at hu'
      simp only [setPc_other _ _ _ _ hu] at hu'; exact inv.exists_sound u hu'
  | written k =>
    rw [hpc] at h
    simp only [Option.some.injEq] at h
    subst h
    exact inv_pc_only P tbl0 s t _ inv (by rw [hpc]; rfl) (Or.inl (by simp))
      (by intro j e; simp at e) (by intro j e; rw [hpc] at e; simp at e) (by rw [hpc]; rfl)
      (by intro e; simp [saidExists] at e)
  | unlocking r =>
    rw [hpc] at h
    simp only [Option.some.injEq] at h
    subst h
    have htl : inLock (s.pc t) = true := by rw [hpc]; rfl
    refine ⟨?_, inv.nodup, inv.bound, ?_, ?_, ?_, ?_, ?_, inv.old_kept, inv.fresh_owned, ?_⟩
    · intro u
      by_cases hu : u = t
      · subst hu; simp [inLock]
      · simp only [setPc_other _ _ _ _ hu]
        constructor
        · intro e; simp at e
        · intro e; exact absurd (inLock_unique inv u t e htl) hu
    · intro u hu'
      by_cases hu : u = t
      · subst hu; simp at hu'
      · simp only [setPc_other _ _ _ _ hu] at hu'; exact inv.rechecked_absent u hu'
    · intro u j hu'
      by_cases hu : u = t
      · subst hu; simp at hu'
      · simp only [setPc_other _ _ _ _ hu] at hu'; exact inv.assigned_spec u j hu'
    · intro j hj
      obtain ⟨w, hw⟩ := inv.disk_agree j hj
      have hwt : w ≠ t := by intro e; subst e; rw [hpc] at hw; simp at hw
      exact ⟨w, by simp only [setPc_other _ _ _ _ hwt]; exact hw⟩
    · intro u j hu'
      by_cases hu : u = t
      · subst hu
        simp only [setPc_same] at hu'
        apply inv.ok_slot u j
        rw [hpc]; cases r <;> simp [okAt] at hu' ⊢; exact hu'
      · simp only [setPc_other _ _ _ _ hu] at hu'; exact inv.ok_slot u j hu'
    · intro j u hu'
      obtain ⟨h1, h2, h3⟩ := inv.who_spec j u hu'
      refine ⟨h1, h2, ?_⟩
      by_cases hu : u = t
      · subst hu
        simp only [setPc_same]
        rcases h3 with h | h
        · rw [hpc] at h; simp at h
        · right; rw [hpc] at h; cases r <;> simp [okAt] at h ⊢; exact h
      · simp only [setPc_other _ _ _ _ hu]; exact h3
    · intro u hu'
      by_cases hu : u = t
      · subst hu
        simp only [setPc_same] at hu'
        apply inv.exists_sound u
        rw [hpc]; cases r <;> simp [saidExists] at hu' ⊢
      · simp only [setPc_other _ _ _ _ hu] at hu'; exact inv.exists_sound u hu'
  | done r => rw [hpc] at h; simp at h

theorem reachable_inv (P : Params) (tbl0 : Nat → Option Nat) (pk : PickOK P) (hcul : P.checkUnderLock = true)
    (h0 : ∀ i j a, tbl0 i = some a → tbl0 j = some a → i = j) (hb : ∀ k, P.cap ≤ k → tbl0 k = none)
    (s : Sys) (h : Reachable P tbl0 s) : Inv P tbl0 s := by
  induction h with
  | init => exact inv_init P tbl0 h0 hb
  | step t _ hs ih => exact inv_step P tbl0 pk hcul _ _ t ih hs

end PttVerif.C15
