import PttVerif.Proofs.C04
namespace PttVerif.C04
open PttVerif

/-! ### lookups -/

section
variable {Id : Type} {e : Env Id}

theorem findOn_some {s : St Id} {q : Id} : ∀ {l : List Nat} {k : Nat} {id : Id},
    findOn e s q l = some (k, id) → k ∈ l ∧ s.userid[k]? = some id ∧ e.ceq q id = true := by
  intro l
  induction l with
  | nil => intro k id h; simp [findOn] at h
  | cons a t ih =>
    intro k id h
    simp only [findOn] at h
    cases ha : s.userid[a]? with
    | none => simp [ha] at h
    | some ida =>
      simp only [ha] at h
      by_cases hq : e.ceq q ida = true
      · simp only [hq, if_true, Option.some.injEq, Prod.mk.injEq] at h
        obtain ⟨rfl, rfl⟩ := h
        exact ⟨List.mem_cons_self, ha, hq⟩
      · simp only [hq] at h
        obtain ⟨h1, h2, h3⟩ := ih h
        exact ⟨List.mem_cons_of_mem _ h1, h2, h3⟩

theorem findOn_none {s : St Id} {q : Id} : ∀ {l : List Nat}, (∀ k ∈ l, ∃ id, s.userid[k]? = some id) →
    findOn e s q l = none → ∀ k ∈ l, ∀ id, s.userid[k]? = some id → e.ceq q id = false := by
  intro l
  induction l with
  | nil => intro _ _ k hk; cases hk
  | cons a t ih =>
    intro hall h k hk id hid
    obtain ⟨ida, ha⟩ := hall a List.mem_cons_self
    simp only [findOn, ha] at h
    by_cases hq : e.ceq q ida = true
    · simp [hq] at h
    · simp only [hq] at h
      rcases List.mem_cons.1 hk with rfl | hk
      · rw [ha] at hid; cases hid
        simpa using hq
      · exact ih (fun k hk => hall k (List.mem_cons_of_mem _ hk)) h k hk id hid

/-- under well-formed chains the guarded loop of DoSearchUserRaw is the plain search of the chain the hash selects:
the `times < MAX_USERS` guard never cuts it short. -/
theorem doSearch_spec (hlt : ∀ a, e.hash a < e.B) {s : St Id} {ch : Nat → List Nat} (hwf : WF e s ch) (q : Id) :
    doSearchUserRaw e s q =
      .ok ((searchResult (findOn e s q (ch (e.hash q)))).1,
           if e.isEmpty q then none else (searchResult (findOn e s q (ch (e.hash q)))).2) := by
  have hh := hlt q
  obtain ⟨v, hv, hc, hnd, hids⟩ := hwf.2 _ hh
  have hspec := searchLoop_spec e s q e.MAX hc
    (fun k hk => ⟨wf_lt hwf hh hk, (hids k hk).imp (fun _ h => h.1)⟩) (wf_length_le hwf hh)
  unfold doSearchUserRaw
  simp only [idx_ok hv, bind_ok, hspec, pure_ok]

/-- slot `k` holds `q` in some letter case -/
def Holds (fold : Id → Id) (s : St Id) (k : Nat) (q : Id) : Prop :=
  ∃ id, s.userid[k]? = some id ∧ fold id = fold q

/-- no two slots hold the same non-empty id up to letter case -/
def UniqueFold (e : Env Id) (fold : Id → Id) (s : St Id) : Prop :=
  ∀ (i j : Nat) (idi idj : Id), s.userid[i]? = some idi → s.userid[j]? = some idj → e.isEmpty idi = false →
    fold idi = fold idj → i = j

theorem search_empty (s : St Id) (q : Id) (hq : e.isEmpty q = true) : searchUserRaw e s q = .ok (0, none) := by
  simp [searchUserRaw, hq]

theorem search_found {fold : Id → Id} (L : Laws e fold) {D : List Nat} {s : St Id} (hinv : InvD e D s) (q : Id)
    (hq : e.isEmpty q = false) {k : Nat} {id : Id} (hid : s.userid[k]? = some id) (hf : fold id = fold q)
    (hD : k ∉ D) :
    ∃ (k' : Nat) (id' : Id), searchUserRaw e s q = .ok ((k' : Int) + 1, some id') ∧ s.userid[k']? = some id' ∧ fold id' = fold q := by
  obtain ⟨ch, hwf, _, hcov⟩ := hinv
  have hne : e.isEmpty id = false := by rw [L.isEmpty_fold id q hf]; exact hq
  have hmem : k ∈ ch (e.hash q) := by
    have := hcov k id hid hne hD
    rwa [L.hash_eq hf] at this
  have hh := L.hash_lt q
  obtain ⟨v, hv, hc, hnd, hids⟩ := hwf.2 _ hh
  unfold searchUserRaw
  simp only [hq, Bool.false_eq_true, if_false, doSearch_spec L.hash_lt hwf q]
  cases hfo : findOn e s q (ch (e.hash q)) with
  | none =>
    have := findOn_none (fun k hk => (hids k hk).imp (fun _ h => h.1)) hfo k hmem id hid
    have hceq : e.ceq q id = true := (L.ceq_iff q id).2 hf.symm
    rw [hceq] at this
    cases this
  | some r =>
    obtain ⟨k', id'⟩ := r
    obtain ⟨_, h2, h3⟩ := findOn_some hfo
    exact ⟨k', id', by simp [searchResult], h2, ((L.ceq_iff q id').1 h3).symm⟩

theorem search_absent {fold : Id → Id} (L : Laws e fold) {D : List Nat} {s : St Id} (hinv : InvD e D s) (q : Id)
    (habs : ∀ (k : Nat) (id : Id), s.userid[k]? = some id → fold id ≠ fold q) :
    searchUserRaw e s q = .ok (0, none) := by
  obtain ⟨ch, hwf, _, _⟩ := hinv
  unfold searchUserRaw
  split
  · rfl
  · rw [doSearch_spec L.hash_lt hwf q]
    cases hfo : findOn e s q (ch (e.hash q)) with
    | none => simp [searchResult]
    | some r =>
      obtain ⟨k', id'⟩ := r
      obtain ⟨_, h2, h3⟩ := findOn_some hfo
      exact absurd ((L.ceq_iff q id').1 h3).symm (habs k' id' h2)

/-- whatever a lookup returns is a slot that holds the id (no uniqueness needed) -/
theorem search_sound_aux {fold : Id → Id} (L : Laws e fold) {D : List Nat} {s : St Id} (hinv : InvD e D s) (q : Id)
    {u : Int} {r : Option Id} (hres : searchUserRaw e s q = .ok (u, r)) :
    (u = 0 ∧ r = none) ∨ ∃ (k : Nat) (id : Id), u = (k : Int) + 1 ∧ k < e.MAX ∧ s.userid[k]? = some id ∧ fold id = fold q ∧ r = some id := by
  obtain ⟨ch, hwf, _, _⟩ := hinv
  unfold searchUserRaw at hres
  split at hres
  · simp at hres
    exact Or.inl ⟨hres.1.symm, hres.2.symm⟩
  · rename_i hq
    rw [doSearch_spec L.hash_lt hwf q] at hres
    simp only [hq, if_false] at hres
    cases hfo : findOn e s q (ch (e.hash q)) with
    | none =>
      simp [hfo, searchResult] at hres
      exact Or.inl ⟨hres.1.symm, hres.2.symm⟩
    | some p =>
      obtain ⟨k', id'⟩ := p
      obtain ⟨h1, h2, h3⟩ := findOn_some hfo
      simp [hfo, searchResult] at hres
      refine Or.inr ⟨k', id', hres.1.symm, wf_lt hwf (L.hash_lt q) h1, h2, ((L.ceq_iff q id').1 h3).symm, hres.2.symm⟩

end
end PttVerif.C04
