import PttVerif.Model.C16
/-!
Helper lemmas for C16: characterisations of the parse/verify functions of `Model/C16.lean`.
-/
namespace PttVerif.C16

/-- The cryptographic assumption about ONE signature oracle, used only where a theorem says so:
a signature made with `K` verifies under no other key. -/
def SignedOnly (K : Secret) (σ : Secret → Bool) : Prop := ∀ k, σ k = true → k = K

/-- "has not expired", exactly as enforced on a token that is accepted with the expiry check on:
the server's int32 clock has not passed `int(exp)`, and the library's rule holds (`exp` absent or 0, or
the clock is strictly before `⌊exp⌋`). -/
def Unexpired (t : Int) (tok : Token) : Prop :=
  (∃ e, claimInt tok.exp = some e ∧ srvNow t ≤ e) ∧ dateOK (fun n e => decide (n < e)) t tok.exp = true

theorem verify_iff {k : Secret} {tok : Token} :
    verify k tok = true ↔ tok.alg.isHMAC = true ∧ tok.hmacOK k = true := by
  simp [verify]

theorem claimsValid_exp {t : Int} {tok : Token} (h : claimsValid t tok = true) :
    dateOK (fun n e => decide (n < e)) t tok.exp = true := by
  simp only [claimsValid, Bool.and_eq_true] at h
  exact h.1.1

theorem parseJwt_some {k : Secret} {t : Int} {raw : Raw} {tok : Token} :
    parseJwt k t raw = some tok ↔ raw = .tok tok ∧ claimsValid t tok = true ∧ verify k tok = true := by
  cases raw with
  | empty => simp [parseJwt]
  | malformed => simp [parseJwt]
  | tok t' =>
    simp only [parseJwt]
    constructor
    · intro h
      split at h
      · rename_i hc
        simp at h; subst h
        simp at hc
        exact ⟨rfl, hc.1, hc.2⟩
      · simp at h
    · rintro ⟨h1, h2, h3⟩
      cases h1
      simp [h2, h3]

theorem parseJwtClaim_some {c : Cfg} {t : Int} {raw : Raw} {id : Ident} :
    parseJwtClaim c t raw = some id ↔
      ∃ tok, raw = .tok tok ∧ claimsValid t tok = true ∧ verify c.vAccess tok = true ∧
        claimString tok.cli = some id.cli ∧ claimString tok.sub = some id.user ∧ claimInt tok.exp = some id.exp := by
  unfold parseJwtClaim
  simp only [Option.bind_eq_bind, Option.pure_def, Option.bind_eq_some_iff, parseJwt_some]
  constructor
  · rintro ⟨tok, ⟨h1, h2, h3⟩, cli, hcli, sub, hsub, exp, hexp, h⟩
    simp at h; subst h
    exact ⟨tok, h1, h2, h3, hcli, hsub, hexp⟩
  · rintro ⟨tok, h1, h2, h3, hcli, hsub, hexp⟩
    exact ⟨tok, ⟨h1, h2, h3⟩, id.cli, hcli, id.user, hsub, id.exp, hexp, rfl⟩

theorem parseRefreshJwtClaim_some {c : Cfg} {t : Int} {raw : Raw} {id : Ident} {typ : Bytes} :
    parseRefreshJwtClaim c t raw = some (id, typ) ↔
      ∃ tok, raw = .tok tok ∧ claimsValid t tok = true ∧ verify c.vRefresh tok = true ∧
        claimString tok.cli = some id.cli ∧ claimString tok.sub = some id.user ∧ claimInt tok.exp = some id.exp ∧
        claimString tok.typ = some typ := by
  unfold parseRefreshJwtClaim
  simp only [Option.bind_eq_bind, Option.pure_def, Option.bind_eq_some_iff, parseJwt_some]
  constructor
  · rintro ⟨tok, ⟨h1, h2, h3⟩, cli, hcli, sub, hsub, exp, hexp, ty, hty, h⟩
    simp at h; obtain ⟨h, h'⟩ := h; subst h; subst h'
    exact ⟨tok, h1, h2, h3, hcli, hsub, hexp, hty⟩
  · rintro ⟨tok, h1, h2, h3, hcli, hsub, hexp, hty⟩
    exact ⟨tok, ⟨h1, h2, h3⟩, id.cli, hcli, id.user, hsub, id.exp, hexp, typ, hty, rfl⟩

theorem parseEmailJwtClaim_some {c : Cfg} {t : Int} {raw : Raw} {cl : EmailClaim} :
    parseEmailJwtClaim c t raw = some cl ↔
      ∃ tok, raw = .tok tok ∧ claimsValid t tok = true ∧ verify c.vEmail tok = true ∧
        claimString tok.cli = some cl.id.cli ∧ claimString tok.sub = some cl.id.user ∧ claimString tok.eml = some cl.eml ∧
        claimInt tok.exp = some cl.id.exp ∧ claimString tok.ctx = some cl.ctx := by
  unfold parseEmailJwtClaim
  simp only [Option.bind_eq_bind, Option.pure_def, Option.bind_eq_some_iff, parseJwt_some]
  constructor
  · rintro ⟨tok, ⟨h1, h2, h3⟩, cli, hcli, sub, hsub, eml, heml, exp, hexp, cx, hcx, h⟩
    simp at h; subst h
    exact ⟨tok, h1, h2, h3, hcli, hsub, heml, hexp, hcx⟩
  · rintro ⟨tok, h1, h2, h3, hcli, hsub, heml, hexp, hcx⟩
    exact ⟨tok, ⟨h1, h2, h3⟩, cl.id.cli, hcli, cl.id.user, hsub, cl.eml, heml, cl.id.exp, hexp, cl.ctx, hcx, rfl⟩

/-! ### the three verifiers, characterised -/

theorem verifyJwt_ok {c : Cfg} {t : Int} {raw : Raw} {chk : Bool} {id : Ident} :
    verifyJwt c t raw chk = .ok id ↔
      (raw = .empty ∧ id = ⟨c.guest, 0, []⟩) ∨
      (raw ≠ .empty ∧ parseJwtClaim c t raw = some id ∧ (chk = true → srvNow t ≤ id.exp)) := by
  constructor
  · intro h
    unfold verifyJwt at h
    split at h
    · left; simp at h; exact ⟨rfl, h.symm⟩
    · rename_i raw' hne
      right
      split at h
      · cases h
      · rename_i cl hp
        split at h
        · cases h
        · rename_i h1
          simp at h; subst h
          simp only [Bool.and_eq_true, decide_eq_true_eq, not_and] at h1
          refine ⟨?_, hp, fun hk => by have := h1 hk; omega⟩
          intro he; exact hne he
  · rintro (⟨h1, h2⟩ | ⟨h1, h2, h3⟩)
    · subst h1; subst h2; simp [verifyJwt]
    · unfold verifyJwt
      split
      · exact absurd rfl h1
      · rw [h2]
        simp only
        rw [if_neg]
        simp only [Bool.and_eq_true, decide_eq_true_eq, not_and]
        intro hk; have := h3 hk; omega

theorem verifyJwt_error {c : Cfg} {t : Int} {raw : Raw} {chk : Bool} {e : Err} :
    verifyJwt c t raw chk = .error e → e = .invalidToken := by
  intro h
  unfold verifyJwt at h
  split at h
  · cases h
  · split at h
    · cases h; rfl
    · split at h
      · cases h; rfl
      · cases h

theorem verifyRefreshJwt_ok {c : Cfg} {t : Int} {raw : Raw} {id : Ident} :
    verifyRefreshJwt c t raw = .ok id ↔
      (raw = .empty ∧ id = ⟨c.guest, 0, []⟩) ∨
      (raw ≠ .empty ∧ parseRefreshJwtClaim c t raw = some (id, c.refreshType) ∧ srvNow t ≤ id.exp) := by
  constructor
  · intro h
    unfold verifyRefreshJwt at h
    split at h
    · left; simp at h; exact ⟨rfl, h.symm⟩
    · rename_i raw' hne
      right
      split at h
      · cases h
      · rename_i cl typ hp
        split at h
        · cases h
        · split at h
          · cases h
          · rename_i h1 h2
            simp at h; subst h
            simp only [ne_eq, Decidable.not_not] at h2
            subst h2
            refine ⟨?_, hp, by omega⟩
            intro he; exact hne he
  · rintro (⟨h1, h2⟩ | ⟨h1, h2, h3⟩)
    · subst h1; subst h2; simp [verifyRefreshJwt]
    · unfold verifyRefreshJwt
      split
      · exact absurd rfl h1
      · rw [h2]
        simp only
        rw [if_neg (by omega), if_neg (by simp)]

theorem verifyEmailJwt_ok {c : Cfg} {t : Int} {raw : Raw} {context : Bytes} {id : Ident} {eml : Bytes} :
    verifyEmailJwt c t raw context = .ok (id, eml) ↔
      parseEmailJwtClaim c t raw = some ⟨id, eml, context⟩ ∧ srvNow t ≤ id.exp := by
  constructor
  · intro h
    unfold verifyEmailJwt at h
    split at h
    · cases h
    · split at h
      · cases h
      · rename_i cl hp
        split at h
        · cases h
        · split at h
          · cases h
          · rename_i h1 h2
            simp at h
            obtain ⟨cid, ceml, cctx⟩ := cl
            simp only at h h1 h2
            obtain ⟨ha, hb⟩ := h
            subst ha; subst hb
            simp only [ne_eq, Decidable.not_not] at h2
            subst h2
            exact ⟨hp, by omega⟩
  · rintro ⟨h2, h3⟩
    unfold verifyEmailJwt
    split
    · simp [parseEmailJwtClaim, parseJwt] at h2
    · rw [h2]
      simp only
      rw [if_neg (by omega), if_neg (by simp)]

/-! ### the int32 clock -/

theorem toTime4_of_range {x : Int} (h0 : 0 ≤ x) (h1 : x < 2147483648) : toTime4 x = x := by
  unfold toTime4
  have : x % 4294967296 = x := Int.emod_eq_of_lt h0 (by omega)
  simp only [this]
  have hx : (x.toNat : Int) = x := Int.toNat_of_nonneg h0
  have : x.toNat < 2147483648 := by omega
  simp [this, hx]

theorem srvNow_of_range {t : Int} (h0 : 0 ≤ t) (h1 : t < 2147483648) : srvNow t = t :=
  toTime4_of_range h0 h1

end PttVerif.C16
