import PttVerif.Proofs.C02
import PttVerif.Proofs.C02Round
/-
C02, stage 4 — from the password to the DES key: the key block `cFcrypt` builds is the crypt(3) key.
-/
namespace PttVerif.C02.Lin
open PttVerif PttVerif.C02

theorem length8 (l : List Nat) (h : l.length = 8) : ∃ a b c d e f g x, l = [a, b, c, d, e, f, g, x] := by
  match l, h with
  | [a, b, c, d, e, f, g, x], _ => exact ⟨a, b, c, d, e, f, g, x, rfl⟩

theorem bytesBE_fold (l : List Nat) (hl : l.length = 8) (hb : ∀ b ∈ l, b < 256) :
    bytesBE (l.foldl (fun acc b => 256 * acc + b) 0) = l := by
  obtain ⟨a, b, c, d, e, f, g, x, rfl⟩ := length8 l hl
  simp only [List.mem_cons, List.not_mem_nil, or_false, forall_eq_or_imp, forall_eq] at hb
  obtain ⟨h1, h2, h3, h4, h5, h6, h7, h8⟩ := hb
  simp only [List.foldl_cons, List.foldl_nil, bytesBE, Nat.shiftRight_eq_div_pow,
    show (0xff : Nat) = 2 ^ 8 - 1 from rfl, Nat.and_two_pow_sub_one_eq_mod]
  refine List.cons_eq_cons.mpr ⟨by omega, List.cons_eq_cons.mpr ⟨by omega, List.cons_eq_cons.mpr ⟨by omega,
    List.cons_eq_cons.mpr ⟨by omega, List.cons_eq_cons.mpr ⟨by omega, List.cons_eq_cons.mpr ⟨by omega,
    List.cons_eq_cons.mpr ⟨by omega, List.cons_eq_cons.mpr ⟨by omega, rfl⟩⟩⟩⟩⟩⟩⟩⟩

theorem takeWhile_length_le (q : Nat → Bool) (l : List Nat) : (l.takeWhile q).length ≤ l.length := by
  induction l with
  | nil => simp
  | cons a l ih => simp only [List.takeWhile_cons]; split <;> simp <;> omega

theorem key_le8 (p : List Nat) : ((p.take 8).takeWhile (· ≠ 0)).length ≤ 8 :=
  Nat.le_trans (takeWhile_length_le _ _) (by rw [List.length_take]; omega)

theorem cstr8_length (p : List Nat) : (Spec.cstr8 p).length = 8 := by
  have := key_le8 p
  simp only [Spec.cstr8, List.length_append, List.length_replicate]; omega

theorem effKey8_eq_cstr8 (p : List Nat) : (effKey8 p).map (· * 2) = (Spec.cstr8 p).map (fun b => b * 2 % 256) := by
  have hl := key_le8 p
  have e : ∀ c : Nat, (c &&& 0x7f) * 2 = c * 2 % 256 := by
    intro c
    rw [show (0x7f : Nat) = 2 ^ 7 - 1 from rfl, Nat.and_two_pow_sub_one_eq_mod]; omega
  unfold effKey8 effKey Spec.cstr8
  rw [copyInto_of_le _ _ (by simpa using hl)]
  simp [List.map_append, e]

theorem keyOfBytes_eq (bs : List Nat) :
    Spec.keyOfBytes bs = (bs.map (fun b => b * 2 % 256)).foldl (fun acc b => 256 * acc + b) 0 := by
  unfold Spec.keyOfBytes; rw [List.foldl_map]

theorem keyOfBytes_lt (p : List Nat) : Spec.keyOfBytes (Spec.cstr8 p) < 2 ^ 64 := by
  obtain ⟨a, b, c, d, e, f, g, x, h⟩ := length8 _ (cstr8_length p)
  rw [h]; simp only [Spec.keyOfBytes, List.foldl_cons, List.foldl_nil]; omega

/-- the DES key block `cFcrypt` builds from a password is the crypt(3) key of that password (first eight bytes up to
a NUL, seven low bits each, shifted past the parity bit). -/
theorem mkKey_eq_crypt3_key (p : List Nat) :
    mkKey (if p.length > 8 then p.take 8 else p) = bytesBE (Spec.keyOfBytes (Spec.cstr8 p)) := by
  rw [mkKey_eq, effKey8_eq_cstr8, keyOfBytes_eq, bytesBE_fold]
  · simp [cstr8_length]
  · intro b hb
    simp only [List.mem_map] at hb
    obtain ⟨c, _, rfl⟩ := hb
    exact Nat.mod_lt _ (by decide)

end PttVerif.C02.Lin
