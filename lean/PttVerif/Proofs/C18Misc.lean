import PttVerif.Model.C18Misc
import PttVerif.Proofs.C18
import PttVerif.Proofs.C18Ansi
/-
C18 (group 3) — helper lemmas: ReadLine, hashes, DBCS status/trim, Trim, TrimDBCS.
(StripNoneBig5 and SubjectEx are in Proofs/C18Misc2.lean.)
-/
namespace PttVerif.C18
open PttVerif

theorem snoc_cases {α} (l : List α) : l = [] ∨ ∃ L b, l = L ++ [b] := by
  induction l with
  | nil => exact .inl rfl
  | cons x xs ih =>
    rcases ih with rfl | ⟨L, b, rfl⟩
    · exact .inr ⟨[], x, rfl⟩
    · exact .inr ⟨x :: L, b, rfl⟩

theorem idx_snoc {α} (L : List α) (b : α) : idx (L ++ [b]) ((L ++ [b]).length - 1) = .ok b := by
  have : (L ++ [b]).length - 1 = L.length := by simp
  rw [this]; exact idx_append_len L b []

theorem slice_snoc {α} (L : List α) (b : α) : slice (L ++ [b]) 0 ((L ++ [b]).length - 1) = .ok L := by
  have : (L ++ [b]).length - 1 = L.length := by simp
  rw [this]
  unfold slice
  rw [if_pos (by simp)]
  simp

/-! ### ReadLine -/

/-- one carriage return removed from the end. -/
def stripCR (l : List Nat) : List Nat :=
  match l.reverse with
  | 13 :: r => r.reverse
  | _ => l

theorem stripCR_nil : stripCR [] = [] := rfl

theorem stripCR_snoc (L : List Nat) (b : Nat) : stripCR (L ++ [b]) = if b = 13 then L else L ++ [b] := by
  unfold stripCR
  simp only [List.reverse_append, List.reverse_cons, List.reverse_nil, List.nil_append, List.singleton_append]
  by_cases hb : b = 13
  · subst hb; simp
  · simp only [hb, if_false]
    split
    · next r heq => simp at heq; exact absurd heq.1 hb
    · rfl

/-- `ls` joined, each line followed by a line feed. -/
def joinLF (ls : List (List Nat)) : List Nat := ls.flatMap (· ++ [10])

theorem readBytesLF_line (l rest : List Nat) (hl : 10 ∉ l) :
    readBytesLF (l ++ 10 :: rest) = (l ++ [10], rest, false) := by
  induction l with
  | nil => simp [readBytesLF]
  | cons c r ih =>
    have hc : c ≠ 10 := fun h => hl (by simp [h])
    have hr : 10 ∉ r := fun h => hl (by simp [h])
    simp [readBytesLF, hc, ih hr]

theorem readBytesLF_tail (t : List Nat) (ht : 10 ∉ t) : readBytesLF t = (t, [], true) := by
  induction t with
  | nil => rfl
  | cons c r ih =>
    have hc : c ≠ 10 := fun h => ht (by simp [h])
    have hr : 10 ∉ r := fun h => ht (by simp [h])
    simp [readBytesLF, hc, ih hr]

theorem chopCR_eq (line : List Nat) : chopCR line = .ok (stripCR line) := by
  unfold chopCR
  rcases snoc_cases line with rfl | ⟨L, b, rfl⟩
  · rfl
  · have hpos : (L ++ [b]).length > 0 := by simp
    rw [if_pos hpos, idx_snoc, stripCR_snoc]
    simp only [bind, Except.bind]
    by_cases hb : b = 13
    · simp only [hb, if_true]; exact slice_snoc L 13
    · simp only [hb, if_false]; rfl

theorem chopLF_snoc (L : List Nat) (b : Nat) : chopLF (L ++ [b]) = .ok (if b = 10 then L else L ++ [b]) := by
  unfold chopLF
  rw [idx_snoc]
  simp only [bind, Except.bind]
  by_cases hb : b = 10
  · simp only [hb, if_true]; exact slice_snoc L 10
  · simp only [hb, if_false]; rfl

theorem readLine_line (l rest : List Nat) (hl : 10 ∉ l) :
    readLine (l ++ 10 :: rest) = .ok (some (stripCR l), rest) := by
  unfold readLine
  rw [readBytesLF_line l rest hl]
  have hlen : ¬ (l ++ [10]).length = 0 := by simp
  simp only [hlen, if_false, chopLF_snoc, bind, Except.bind, if_true, chopCR_eq]
  rfl

theorem readLine_tail (t : List Nat) (ht : 10 ∉ t) (hne : t ≠ []) :
    readLine t = .ok (some (stripCR t), []) := by
  unfold readLine
  rw [readBytesLF_tail t ht]
  have hlen : ¬ t.length = 0 := by simpa using hne
  obtain ⟨L, b, rfl⟩ := (snoc_cases t).resolve_left hne
  have hb : b ≠ 10 := fun h => ht (by simp [h])
  simp only [hlen, if_false, chopLF_snoc, bind, Except.bind, hb, chopCR_eq]
  rfl

theorem readLine_nil : readLine [] = .ok (none, []) := rfl

theorem joinLF_length (ls : List (List Nat)) : ls.length ≤ (joinLF ls).length := by
  induction ls with
  | nil => simp [joinLF]
  | cons l ls ih => simp [joinLF] at ih ⊢; omega

theorem readAll_spec (ls : List (List Nat)) (tail : List Nat) (fuel : Nat)
    (hls : ∀ l ∈ ls, 10 ∉ l) (ht : 10 ∉ tail) (hf : fuel ≥ ls.length + 1 + (if tail = [] then 0 else 1)) :
    readAll fuel (joinLF ls ++ tail) =
      .ok (ls.map stripCR ++ (if tail = [] then [] else [stripCR tail])) := by
  induction ls generalizing fuel with
  | nil =>
    simp only [joinLF, List.flatMap_nil, List.nil_append, List.map_nil]
    cases fuel with
    | zero => omega
    | succ fuel =>
      by_cases htl : tail = []
      · subst htl; simp [readAll, readLine_nil, bind, Except.bind, pure, Except.pure]
      · cases fuel with
        | zero => simp [htl] at hf
        | succ fuel =>
          simp [readAll, readLine_tail tail ht htl, readLine_nil, bind, Except.bind, pure, Except.pure, htl]
  | cons l ls ih =>
    cases fuel with
    | zero => omega
    | succ fuel =>
      have hl : 10 ∉ l := hls l (by simp)
      have e : joinLF (l :: ls) ++ tail = l ++ 10 :: (joinLF ls ++ tail) := by simp [joinLF]
      rw [e, readAll]
      simp only [readLine_line l _ hl, bind, Except.bind]
      rw [ih fuel (fun x hx => hls x (by simp [hx])) (by simp only [List.length_cons] at hf; omega)]
      simp [pure, Except.pure]

/-- every byte string is lines-with-LF plus an unterminated rest. -/
theorem lines_complete (s : List Nat) :
    ∃ ls tail, s = joinLF ls ++ tail ∧ (∀ l ∈ ls, 10 ∉ l) ∧ 10 ∉ tail := by
  induction s with
  | nil => exact ⟨[], [], rfl, by simp, by simp⟩
  | cons c r ih =>
    obtain ⟨ls, tail, h1, h2, h3⟩ := ih
    by_cases hc : c = 10
    · exact ⟨[] :: ls, tail, by simp [joinLF, hc, h1], by
        intro l hl; simp only [List.mem_cons] at hl
        rcases hl with rfl | hl
        · simp
        · exact h2 l hl, h3⟩
    · cases ls with
      | nil =>
        refine ⟨[], c :: tail, by simp [joinLF] at h1 ⊢; exact h1, by simp, ?_⟩
        intro h; simp only [List.mem_cons] at h
        rcases h with h | h
        · exact hc h.symm
        · exact h3 h
      | cons l ls =>
        refine ⟨(c :: l) :: ls, tail, by simp [joinLF] at h1 ⊢; exact h1, ?_, h3⟩
        intro x hx; simp only [List.mem_cons] at hx
        rcases hx with rfl | hx
        · intro h; simp only [List.mem_cons] at h
          rcases h with h | h
          · exact hc h.symm
          · exact h2 l (by simp) h
        · exact h2 x (by simp [hx])

/-! ### hashes -/

theorem fnv_prime_eq : FNV_32_PRIME = 16777619 := by decide +kernel
theorem fnv_init_eq : FNV1_32_INIT = 33554467 := by decide +kernel
theorem hash_bits_eq : HASH_BITS = 16 := by decide +kernel

theorem upper_eq_zero (c : Nat) : ccharToupper c = 0 ↔ c = 0 := by
  unfold ccharToupper; split <;> omega

theorem fnv1a32StrCase_eq (s : List Nat) (h : Nat) :
    fnv1a32StrCase s h = fnv1a ((cstr s).map ccharToupper) h := by
  induction s generalizing h with
  | nil => rfl
  | cons c r ih =>
    rw [cstr_cons]
    by_cases hc : c = 0
    · simp [fnv1a32StrCase, hc, fnv1a]
    · simp only [fnv1a32StrCase, hc, if_false, List.map_cons, fnv1a, List.foldl_cons]
      rw [ih, fnv_prime_eq]; rfl

theorem map_upper_of_lower_eq (a b : List Nat) (h : a.map ccharTolower = b.map ccharTolower) :
    a.map ccharToupper = b.map ccharToupper := by
  have e : ∀ l : List Nat, l.map ccharToupper = (l.map ccharTolower).map ccharToupper := by
    intro l; simp [List.map_map, Function.comp_def, upper_lower]
  rw [e a, e b, h]

/-! ### DBCS status -/

theorem dbcs_consts : DBCS_ASCII = 0 ∧ DBCS_LEADING = 1 ∧ DBCS_TRAILING = 2 := by decide +kernel

theorem slice_tail {α} (c : α) (r : List α) : slice (c :: r) 1 (c :: r).length = .ok r := by
  unfold slice
  rw [if_pos (by simp)]
  simp

theorem dbcsLoop_spec (k : Nat) (str : List Nat) (st : Nat) (h : str ≠ [] ∨ k = 0) :
    dbcsLoop k str st = .ok ((str.take k).foldl (fun st c => dbcsNextStatus c st) st) := by
  induction k generalizing str st with
  | zero => simp [dbcsLoop, pure, Except.pure]
  | succ k ih =>
    cases str with
    | nil => simp at h
    | cons c r =>
      rw [dbcsLoop]
      have hi : idx (c :: r) 0 = .ok c := by simp [idx]
      simp only [hi, slice_tail, bind, Except.bind, List.take_succ_cons, List.foldl_cons]
      by_cases hr : r = []
      · subst hr; simp [pure, Except.pure]
      · have : ¬ r.length = 0 := by simpa using hr
        simp only [this, if_false]
        exact ih r _ (.inl hr)

theorem dbcsStatus_spec' (str : List Nat) (p : Nat) (h : str ≠ []) :
    dbcsStatus str (Int.ofNat p) = .ok (dbcsFold (str.take (p + 1))) := by
  simp only [dbcsStatus]
  exact dbcsLoop_spec (p + 1) str DBCS_ASCII (.inl h)

theorem next_lead (c st : Nat) (h : st ≠ DBCS_LEADING) (hc : 128 ≤ c) : dbcsNextStatus c st = DBCS_LEADING := by
  unfold dbcsNextStatus; rw [if_neg h, if_pos hc]

theorem foldl_units (us : List DUnit) (hok : ∀ u ∈ us, u.ok) (st : Nat) (hst : st ≠ DBCS_LEADING) :
    (unitsBytes us).foldl (fun st c => dbcsNextStatus c st) st ≠ DBCS_LEADING := by
  obtain ⟨h0, h1, h2⟩ := dbcs_consts
  induction us generalizing st with
  | nil => simpa [unitsBytes] using hst
  | cons u us ih =>
    have hu : u.ok := hok u (by simp)
    have hrest : ∀ v ∈ us, v.ok := fun v hv => hok v (by simp [hv])
    cases u with
    | a c =>
      have hc : c < 128 := hu
      simp only [unitsBytes, List.flatMap_cons, DUnit.bytes, List.cons_append, List.nil_append, List.foldl_cons]
      apply ih hrest
      simp only [dbcsNextStatus, hst, if_false]
      rw [if_neg (by omega), h0, h1]; omega
    | d l t =>
      have hl : 128 ≤ l := hu
      simp only [unitsBytes, List.flatMap_cons, DUnit.bytes, List.cons_append, List.nil_append, List.foldl_cons]
      apply ih hrest
      simp only [dbcsNextStatus, hst, if_false]
      rw [if_pos hl]
      simp only [if_true, h1, h2]; omega

theorem units_complete (s : List Nat) :
    ∃ us, (∀ u ∈ us, u.ok) ∧ (s = unitsBytes us ∨ ∃ l, 128 ≤ l ∧ s = unitsBytes us ++ [l]) := by
  have key : ∀ n, ∀ s : List Nat, s.length ≤ n →
      ∃ us, (∀ u ∈ us, u.ok) ∧ (s = unitsBytes us ∨ ∃ l, 128 ≤ l ∧ s = unitsBytes us ++ [l]) := by
    intro n
    induction n with
    | zero =>
      intro s hs
      have : s = [] := List.length_eq_zero_iff.mp (by omega)
      exact ⟨[], by simp, .inl (by simp [this, unitsBytes])⟩
    | succ n ih =>
      intro s hs
      match s with
      | [] => exact ⟨[], by simp, .inl (by simp [unitsBytes])⟩
      | [c] =>
        by_cases hc : c < 128
        · exact ⟨[.a c], by simpa [DUnit.ok] using hc, .inl (by simp [unitsBytes, DUnit.bytes])⟩
        · exact ⟨[], by simp, .inr ⟨c, by omega, by simp [unitsBytes]⟩⟩
      | c :: d :: r =>
        by_cases hc : c < 128
        · obtain ⟨us, h1, h2⟩ := ih (d :: r) (by simp at hs ⊢; omega)
          refine ⟨.a c :: us, ?_, ?_⟩
          · intro u hu; simp only [List.mem_cons] at hu
            rcases hu with rfl | hu
            · exact hc
            · exact h1 u hu
          · rcases h2 with h2 | ⟨l, hl, h2⟩
            · exact .inl (by simp [unitsBytes, DUnit.bytes] at h2 ⊢; exact h2)
            · exact .inr ⟨l, hl, by simp [unitsBytes, DUnit.bytes] at h2 ⊢; exact h2⟩
        · obtain ⟨us, h1, h2⟩ := ih r (by simp at hs ⊢; omega)
          refine ⟨.d c d :: us, ?_, ?_⟩
          · intro u hu; simp only [List.mem_cons] at hu
            rcases hu with rfl | hu
            · show 128 ≤ c; omega
            · exact h1 u hu
          · rcases h2 with h2 | ⟨l, hl, h2⟩
            · exact .inl (by simp [unitsBytes, DUnit.bytes] at h2 ⊢; exact h2)
            · exact .inr ⟨l, hl, by simp [unitsBytes, DUnit.bytes] at h2 ⊢; exact h2⟩
  exact key s.length s (Nat.le_refl _)

theorem dbcsSafeTrim_whole' (us : List DUnit) (hok : ∀ u ∈ us, u.ok) :
    dbcsSafeTrim (unitsBytes us) = .ok (unitsBytes us) := by
  unfold dbcsSafeTrim
  by_cases hlen : (unitsBytes us).length < 1
  · rw [if_pos hlen]; rfl
  · rw [if_neg hlen]
    have hne : unitsBytes us ≠ [] := by intro h; rw [h] at hlen; simp at hlen
    rw [dbcsStatus_spec' _ _ hne]
    have htake : (unitsBytes us).take ((unitsBytes us).length - 1 + 1) = unitsBytes us := by
      apply List.take_of_length_le; omega
    have := foldl_units us hok DBCS_ASCII (by have := dbcs_consts; omega)
    simp only [bind, Except.bind, htake, dbcsFold, this, if_false]; rfl

theorem dbcsSafeTrim_dangling' (us : List DUnit) (hok : ∀ u ∈ us, u.ok) (l : Nat) (hl : 128 ≤ l) :
    dbcsSafeTrim (unitsBytes us ++ [l]) = .ok (unitsBytes us) := by
  unfold dbcsSafeTrim
  have hlen : ¬ (unitsBytes us ++ [l]).length < 1 := by simp
  rw [if_neg hlen]
  have hne : unitsBytes us ++ [l] ≠ [] := by simp
  rw [dbcsStatus_spec' _ _ hne]
  have htake : (unitsBytes us ++ [l]).take ((unitsBytes us ++ [l]).length - 1 + 1) = unitsBytes us ++ [l] := by
    apply List.take_of_length_le; simp
  have h1 := foldl_units us hok DBCS_ASCII (by have := dbcs_consts; omega)
  have hfold : dbcsFold (unitsBytes us ++ [l]) = DBCS_LEADING := by
    simp only [dbcsFold, List.foldl_append, List.foldl_cons, List.foldl_nil]
    exact next_lead _ _ h1 hl
  simp only [bind, Except.bind, htake, hfold, if_true]
  exact slice_snoc _ l

/-! ### Trim -/

theorem dropWhile_sp (l : List Nat) :
    ∃ k, l = List.replicate k 32 ++ l.dropWhile (· = 32) ∧
      (l.dropWhile (· = 32) = [] ∨ ∃ x r, l.dropWhile (· = 32) = x :: r ∧ x ≠ 32) := by
  induction l with
  | nil => exact ⟨0, by simp, .inl rfl⟩
  | cons c r ih =>
    by_cases hc : c = 32
    · obtain ⟨k, h1, h2⟩ := ih
      refine ⟨k + 1, ?_, ?_⟩
      · simp only [List.dropWhile_cons, hc, decide_true, if_true, List.replicate_succ, List.cons_append]
        rw [← h1]
      · simpa [List.dropWhile_cons, hc] using h2
    · refine ⟨0, by simp [List.dropWhile_cons, hc], .inr ⟨c, r, by simp [List.dropWhile_cons, hc], hc⟩⟩

theorem trimRightSp_spec (s : List Nat) :
    ∃ k, s = trimRightSp s ++ List.replicate k 32 ∧
      (trimRightSp s = [] ∨ ∃ L x, trimRightSp s = L ++ [x] ∧ x ≠ 32) := by
  obtain ⟨k, h1, h2⟩ := dropWhile_sp s.reverse
  refine ⟨k, ?_, ?_⟩
  · have := congrArg List.reverse h1
    simp only [List.reverse_reverse, List.reverse_append, List.reverse_replicate] at this
    exact this
  · rcases h2 with h2 | ⟨x, r, h2, hx⟩
    · exact .inl (by simp [trimRightSp, h2])
    · exact .inr ⟨r.reverse, x, by simp [trimRightSp, h2], hx⟩

/-! ### TrimDBCS -/

/-- the walk's flag is "the scan is on a lead byte". -/
theorem leadWalk_fold (b : List Nat) (isLead : Bool) (st : Nat) (h : isLead = true ↔ st = DBCS_LEADING) :
    leadWalk b isLead = true ↔ b.foldl (fun st c => dbcsNextStatus c st) st = DBCS_LEADING := by
  obtain ⟨k0, k1, k2⟩ := dbcs_consts
  induction b generalizing isLead st with
  | nil => simpa [leadWalk] using h
  | cons c r ih =>
    simp only [leadWalk, List.foldl_cons]
    apply ih
    unfold dbcsNextStatus
    by_cases hl : isLead = true
    · have hst : st = DBCS_LEADING := h.mp hl
      simp [hl, hst, k1, k2]
    · have hst : st ≠ DBCS_LEADING := fun e => hl (h.mpr e)
      have hf : isLead = false := by simpa using hl
      simp only [hf, Bool.false_eq_true, if_false, hst]
      by_cases hc : c ≥ 128
      · simp [hc]
      · simp [hc, k0, k1]

theorem leadWalk_iff (b : List Nat) : leadWalk b false = true ↔ dbcsFold b = DBCS_LEADING :=
  leadWalk_fold b false DBCS_ASCII (by have := dbcs_consts; simp; omega)

theorem trimDBCS_keep (s : List Nat) (h : dbcsFold (cstr s) ≠ DBCS_LEADING) : trimDBCS s = .ok (cstr s, s) := by
  unfold trimDBCS
  rw [cstrToBytes_eq']
  have : leadWalk (cstr s) false = false := by
    cases hw : leadWalk (cstr s) false with
    | false => rfl
    | true => exact absurd ((leadWalk_iff _).mp hw) h
  simp [bind, Except.bind, this, pure, Except.pure]

theorem trimDBCS_cut (s L : List Nat) (b : Nat) (hc : cstr s = L ++ [b]) (h : dbcsFold (cstr s) = DBCS_LEADING) :
    trimDBCS s = .ok (L, s.set L.length 0) := by
  unfold trimDBCS
  rw [cstrToBytes_eq']
  have hw : leadWalk (L ++ [b]) false = true := by rw [← hc]; exact (leadWalk_iff _).mpr h
  have hlen : L.length < s.length := by
    have := cstr_length_le s
    rw [hc] at this; simp at this; omega
  simp only [bind, Except.bind, hc, hw, if_true, slice_snoc]
  have e : (L ++ [b]).length - 1 = L.length := by simp
  have hne : ¬ (L ++ [b]).length = 0 := by simp
  simp only [hne, if_false, e, setAt, hlen, if_true]
  rfl

theorem trimDBCSOld_spec' (s L : List Nat) (b : Nat) (h : cstr s = L ++ [b]) :
    trimDBCSOld s = .ok (if b ≥ 128 then (L, s.set L.length 0) else (L ++ [b], s)) := by
  unfold trimDBCSOld
  rw [cstrToBytes_eq', h]
  have hlen : L.length < s.length := by
    have := cstr_length_le s
    rw [h] at this; simp at this; omega
  simp only [bind, Except.bind, idx_snoc]
  by_cases hb : b ≥ 128
  · have e : (L ++ [b]).length - 1 = L.length := by simp
    simp only [hb, if_true, slice_snoc]
    rw [e]
    simp [setAt, hlen, pure, Except.pure]
  · simp only [hb, if_false]; rfl

end PttVerif.C18
