import PttVerif.Proofs.C12
/-
C12 — helper lemmas.  Part 2: the bisection of getBidByNameCore finds a slot carrying the key iff one exists
(for every index that is a sorted permutation); what well-formed states give; placing a header into a slot keeps
the state well-formed.
-/
namespace PttVerif.C12
open PttVerif

/-- what `getBid` needs from a state: below BNumber every position of the name index resolves to a slot and
its name, in non-decreasing key order. -/
structure Looks (s : State) (sl : Nat → Nat) (nm : Nat → Bytes) : Prop where
  look : ∀ p, p < s.bnumber → look s p = .ok (sl p, nm p)
  mono : ∀ p q, p < q → q < s.bnumber → ¬ nameKey (nm q) < nameKey (nm p)

theorem bisect_spec (s : State) (key : Bytes) (sl : Nat → Nat) (nm : Nat → Bytes) (h : Looks s sl nm) :
    ∀ fuel st en i, st ≤ i → i ≤ en → en < s.bnumber → i = (st + en) / 2 → en - st + 2 ≤ fuel →
      (∀ p, p < s.bnumber → nameKey (nm p) = nameKey key → st ≤ p ∧ p ≤ en) →
      ∃ b, bisect s key fuel st en i = .ok b ∧
        ((b = 0 ∧ ∀ p, p < s.bnumber → nameKey (nm p) ≠ nameKey key) ∨
         (∃ p, p < s.bnumber ∧ b = sl p + 1 ∧ nameKey (nm p) = nameKey key)) := by
  intro fuel
  induction fuel with
  | zero => intro st en i _ _ _ _ hf; omega
  | succ fuel ih =>
      intro st en i hsi hie hen hi hf hc
      have hib : i < s.bnumber := by omega
      rw [bisect]
      simp only [h.look i hib, bind, Except.bind]
      by_cases hj0 : ccmp key (nm i) = 0
      · rw [if_pos hj0]
        exact ⟨sl i + 1, rfl, Or.inr ⟨i, hib, rfl, ((ccmp_eq_zero_iff _ _).mp hj0).symm⟩⟩
      · rw [if_neg hj0]
        have hne : nameKey (nm i) ≠ nameKey key := fun e => hj0 ((ccmp_eq_zero_iff _ _).mpr e.symm)
        by_cases hes : en = st
        · rw [if_pos hes]
          refine ⟨0, rfl, Or.inl ⟨rfl, ?_⟩⟩
          intro p hp e
          have := hc p hp e
          have : p = i := by omega
          subst this; exact hne e
        · rw [if_neg hes]
          by_cases his : i = st
          · rw [if_pos his]
            by_cases hneg : ccmp key (nm i) < 0
            · rw [if_pos hneg]
              refine ⟨0, rfl, Or.inl ⟨rfl, ?_⟩⟩
              intro p hp e
              have hlt : nameKey key < nameKey (nm i) := (ccmp_neg_iff _ _).mp hneg
              have hr := hc p hp e
              by_cases hpi : p = i
              · subst hpi; exact hne e
              · have := h.mono i p (by omega) hp
                rw [e] at this
                exact this hlt
            · rw [if_neg hneg]
              have hen2 : en = st + 1 := by omega
              apply ih en en ((en + en) / 2) (by omega) (by omega) hen rfl (by omega)
              intro p hp e
              have hr := hc p hp e
              have : p ≠ i := fun hpi => hne (hpi ▸ e)
              omega
          · rw [if_neg his]
            by_cases hpos : ccmp key (nm i) > 0
            · rw [if_pos hpos]
              apply ih i en ((i + en) / 2) (by omega) (by omega) hen rfl (by omega)
              intro p hp e
              have hr := hc p hp e
              have hlt : nameKey (nm i) < nameKey key := (ccmp_pos_iff _ _).mp hpos
              refine ⟨?_, hr.2⟩
              rcases Nat.lt_or_ge p i with hpi | hpi
              · exfalso
                have := h.mono p i hpi hib
                rw [e] at this
                exact this hlt
              · exact hpi
            · rw [if_neg hpos]
              have hneg : ccmp key (nm i) < 0 := by omega
              have hlt : nameKey key < nameKey (nm i) := (ccmp_neg_iff _ _).mp hneg
              apply ih st i ((st + i) / 2) (by omega) (by omega) hib rfl (by omega)
              intro p hp e
              have hr := hc p hp e
              refine ⟨hr.1, ?_⟩
              rcases Nat.lt_or_ge i p with hpi | hpi
              · exfalso
                have := h.mono i p hpi hp
                rw [e] at this
                exact this hlt
              · exact hpi

/-! ### reading a well-formed state -/

theorem CacheOK.name {c r : Rec} (h : CacheOK c r) : c.name = r.name := by
  rcases h with h | ⟨_, h⟩ <;> subst h <;> rfl

theorem CacheOK.title {c r : Rec} (h : CacheOK c r) : c.title = r.title := by
  rcases h with h | ⟨_, h⟩ <;> subst h <;> rfl

theorem CacheOK.bm {c r : Rec} (h : CacheOK c r) : c.bm = r.bm := by
  rcases h with h | ⟨_, h⟩ <;> subst h <;> rfl

theorem CacheOK.fc {c r : Rec} (h : CacheOK c r) : c.fc = zeros 8 := by
  rcases h with h | ⟨_, h⟩ <;> subst h <;> rfl

theorem nameKeyAt_of_get {cache : List Rec} {k : Nat} {c : Rec} (h : cache[k]? = some c) :
    nameKeyAt cache k = nameKey c.name := by
  simp [nameKeyAt, List.getD, h]

theorem Inv.key_at {s : State} (h : Inv s) {k : Nat} {r : Rec} (hr : s.brd[k]? = some r) :
    nameKeyAt s.cache k = nameKey r.name := by
  obtain ⟨c, hc, hok⟩ := h.copy k r hr
  rw [nameKeyAt_of_get hc, hok.name]

theorem Inv.lt_of_get {s : State} (h : Inv s) {k : Nat} {r : Rec} (hr : s.brd[k]? = some r) : k < s.bnumber := by
  rw [← h.len]
  rcases Nat.lt_or_ge k s.brd.length with h' | h'
  · exact h'
  · rw [List.getElem?_eq_none h'] at hr; cases hr

theorem Inv.get_of_lt {s : State} (h : Inv s) {k : Nat} (hk : k < s.bnumber) : ∃ r, s.brd[k]? = some r := by
  rw [← h.len] at hk
  exact ⟨s.brd[k], List.getElem?_eq_getElem hk⟩

theorem Inv.looks {s : State} (h : Inv s) :
    Looks s (fun p => (s.sortedN.take s.bnumber).getD p 0)
      (fun p => (s.cache.getD ((s.sortedN.take s.bnumber).getD p 0) Rec.zero).name) := by
  have hlen : (s.sortedN.take s.bnumber).length = s.bnumber := by
    rw [h.sortN.1.length_eq, List.length_range]
  constructor
  · intro p hp
    have hp' : p < (s.sortedN.take s.bnumber).length := by omega
    have h1 : (s.sortedN.take s.bnumber)[p]? = some ((s.sortedN.take s.bnumber)[p]) := List.getElem?_eq_getElem hp'
    have h2 : s.sortedN[p]? = some ((s.sortedN.take s.bnumber)[p]) := by
      rw [← h1, List.getElem?_take_of_lt hp]
    have hmem : (s.sortedN.take s.bnumber)[p] ∈ List.range s.bnumber :=
      h.sortN.1.mem_iff.mp (List.getElem_mem hp')
    have hb : (s.sortedN.take s.bnumber)[p] < s.cache.length := by
      rw [h.clen]; have := List.mem_range.mp hmem; have := h.cap; omega
    have h3 : s.cache[(s.sortedN.take s.bnumber)[p]]? = some (s.cache[(s.sortedN.take s.bnumber)[p]]) :=
      List.getElem?_eq_getElem hb
    simp only [look, idx, h2, bind, Except.bind, h3, pure, Except.pure, List.getD, h1, Option.getD_some]
  · intro p q hpq hq
    have hp' : p < (s.sortedN.take s.bnumber).length := by omega
    have hq' : q < (s.sortedN.take s.bnumber).length := by omega
    have := (List.pairwise_iff_getElem.mp h.sortN.2) p q hp' hq' hpq
    simpa [nameKeyAt, List.getD, List.getElem?_eq_getElem hp', List.getElem?_eq_getElem hq'] using this

/-- `cache.GetBid` on a well-formed state: 0 iff no slot below BNumber carries the key, else a slot that does. -/
theorem getBid_spec {s : State} (h : Inv s) (key : Bytes) :
    ∃ b, getBid s key = .ok b ∧
      ((b = 0 ∧ ∀ k, k < s.bnumber → nameKeyAt s.cache k ≠ nameKey key) ∨
       (∃ k, k < s.bnumber ∧ b = k + 1 ∧ nameKeyAt s.cache k = nameKey key)) := by
  unfold getBid
  by_cases h0 : s.bnumber = 0
  · rw [if_pos h0]
    exact ⟨0, rfl, Or.inl ⟨rfl, fun k hk => by omega⟩⟩
  · rw [if_neg h0]
    have hlen : (s.sortedN.take s.bnumber).length = s.bnumber := by
      rw [h.sortN.1.length_eq, List.length_range]
    obtain ⟨b, hb, hcase⟩ := bisect_spec s key _ _ h.looks (s.bnumber + 2) 0 (s.bnumber - 1) ((s.bnumber - 1) / 2)
      (by omega) (by omega) (by omega) (by simp) (by omega) (fun p hp _ => ⟨by omega, by omega⟩)
    refine ⟨b, hb, ?_⟩
    rcases hcase with ⟨hb0, hnone⟩ | ⟨p, hp, hbp, hkey⟩
    · left
      refine ⟨hb0, ?_⟩
      intro k hk
      have hmem : k ∈ s.sortedN.take s.bnumber := h.sortN.1.mem_iff.mpr (List.mem_range.mpr hk)
      obtain ⟨p, hp, hpk⟩ := List.getElem_of_mem hmem
      have := hnone p (by omega)
      simpa [nameKeyAt, List.getD, List.getElem?_eq_getElem hp, hpk] using this
    · right
      have hp' : p < (s.sortedN.take s.bnumber).length := by omega
      have hmem : (s.sortedN.take s.bnumber)[p] ∈ List.range s.bnumber :=
        h.sortN.1.mem_iff.mp (List.getElem_mem hp')
      refine ⟨(s.sortedN.take s.bnumber)[p], List.mem_range.mp hmem, ?_, ?_⟩
      · simpa [List.getD, List.getElem?_eq_getElem hp'] using hbp
      · simpa [nameKeyAt, List.getD, List.getElem?_eq_getElem hp'] using hkey

/-- the same, read on `.BRD`. -/
theorem getBid_brd {s : State} (h : Inv s) (key : Bytes) :
    ∃ b, getBid s key = .ok b ∧
      ((b = 0 ∧ ∀ (k : Nat) (r : Rec), s.brd[k]? = some r → nameKey r.name ≠ nameKey key) ∨
       (∃ (k : Nat) (r : Rec), s.brd[k]? = some r ∧ b = k + 1 ∧ nameKey r.name = nameKey key)) := by
  obtain ⟨b, hb, hcase⟩ := getBid_spec h key
  refine ⟨b, hb, ?_⟩
  rcases hcase with ⟨hb0, hnone⟩ | ⟨k, hk, hbk, hkey⟩
  · left
    refine ⟨hb0, ?_⟩
    intro k r hr
    rw [← h.key_at hr]
    exact hnone k (h.lt_of_get hr)
  · right
    obtain ⟨r, hr⟩ := h.get_of_lt hk
    exact ⟨k, r, hr, hbk, by rw [← h.key_at hr]; exact hkey⟩

/-- on a well-formed state the name index resolves every occupied slot under its name in any letter case. -/
theorem index_resolves {s : State} (h : Inv s) {k : Nat} {r : Rec} (hr : s.brd[k]? = some r)
    (hocc : occupied r = true) (n : Bytes) (hn : nameKey n = nameKey r.name) : getBid s n = .ok (k + 1) := by
  obtain ⟨b, hb, hcase⟩ := getBid_brd h n
  rcases hcase with ⟨_, hnone⟩ | ⟨k', r', hr', hbk, hkey⟩
  · exact absurd hn.symm (hnone k r hr)
  · have : k = k' := h.distinct k k' r r' hr hr' hocc (by rw [hkey, hn])
    subst this; rw [hb, hbk]


/-! ### SortBCache -/

theorem getElem?_clearFC (n : Nat) (cache : List Rec) (k : Nat) :
    (clearFC n cache)[k]? = (cache[k]?).map (fun r => if k < n then { r with fc := zeros 8 } else r) := by
  simp [clearFC, List.getElem?_mapIdx]

theorem nameKeyAt_clearFC (n : Nat) (cache : List Rec) : nameKeyAt (clearFC n cache) = nameKeyAt cache := by
  funext k
  simp only [nameKeyAt, List.getD, getElem?_clearFC]
  cases cache[k]? with
  | none => rfl
  | some r => by_cases h : k < n <;> simp [h]

theorem classKeyAt_clearFC (n : Nat) (cache : List Rec) : classKeyAt (clearFC n cache) = classKeyAt cache := by
  funext k
  simp only [classKeyAt, List.getD, getElem?_clearFC]
  cases cache[k]? with
  | none => rfl
  | some r => by_cases h : k < n <;> simp [h]

theorem sortBCache_sortN {srt : Sorter} (hs : SortSpec srt) (s : State) :
    ((sortBCache srt s).sortedN.take (sortBCache srt s).bnumber).Perm (List.range (sortBCache srt s).bnumber) ∧
    ((sortBCache srt s).sortedN.take (sortBCache srt s).bnumber).Pairwise
      fun a b => ¬ nameKeyAt (sortBCache srt s).cache b < nameKeyAt (sortBCache srt s).cache a := by
  obtain ⟨hp, hw⟩ := hs (nameKeyAt s.cache) s.bnumber
  have hlen : (srt (nameKeyAt s.cache) s.bnumber).length = s.bnumber := by rw [hp.length_eq, List.length_range]
  simp only [sortBCache, nameKeyAt_clearFC, List.take_left' hlen]
  exact ⟨hp, hw⟩

theorem sortBCache_sortC {srt : Sorter} (hs : SortSpec srt) (s : State) :
    ((sortBCache srt s).sortedC.take (sortBCache srt s).bnumber).Perm (List.range (sortBCache srt s).bnumber) ∧
    ((sortBCache srt s).sortedC.take (sortBCache srt s).bnumber).Pairwise
      fun a b => ¬ classKeyAt (sortBCache srt s).cache b < classKeyAt (sortBCache srt s).cache a := by
  obtain ⟨hp, hw⟩ := hs (classKeyAt s.cache) s.bnumber
  have hlen : (srt (classKeyAt s.cache) s.bnumber).length = s.bnumber := by rw [hp.length_eq, List.length_range]
  simp only [sortBCache, classKeyAt_clearFC, List.take_left' hlen]
  exact ⟨hp, hw⟩

/-! ### placing a header into slot `k` (a vacated slot, or the slot after the last one) -/

/-- `.BRD`, the shared copy, the BM cache and BNumber after `r` was written to slot `k ≤ BNumber` and
`ResetBoard(k+1)` ran (before SortBCache). -/
def placeRaw (s : State) (k : Nat) (r : Rec) : State :=
  { s with brd := if k < s.brd.length then s.brd.set k r else s.brd ++ [r], tail := [],
           cache := s.cache.set k r, bmcache := s.bmcache.set k (parseBMList s.users r.bm),
           bnumber := if k < s.bnumber then s.bnumber else s.bnumber + 1 }

theorem placeRaw_brd_self (s : State) (k : Nat) (r : Rec) (hk : k ≤ s.brd.length) :
    (placeRaw s k r).brd[k]? = some r := by
  simp only [placeRaw]
  by_cases h : k < s.brd.length
  · rw [if_pos h, List.getElem?_set_self h]
  · have : k = s.brd.length := by omega
    rw [if_neg h, this, List.getElem?_append_right (Nat.le_refl _)]; simp

theorem placeRaw_brd_ne (s : State) (k j : Nat) (r : Rec) (hk : k ≤ s.brd.length) (hj : j ≠ k) :
    (placeRaw s k r).brd[j]? = s.brd[j]? := by
  simp only [placeRaw]
  by_cases h : k < s.brd.length
  · rw [if_pos h, List.getElem?_set_ne (Ne.symm hj)]
  · have hkl : k = s.brd.length := by omega
    rw [if_neg h]
    by_cases hjl : j < s.brd.length
    · rw [List.getElem?_append_left hjl]
    · have h1 : ([r] : List Rec)[j - s.brd.length]? = none := by
        apply List.getElem?_eq_none
        simp only [List.length_singleton]; omega
      rw [List.getElem?_append_right (by omega), h1, List.getElem?_eq_none (by omega)]

theorem occupied_of_key_eq {a b : Rec} (h : nameKey a.name = nameKey b.name) (ha : occupied a = true) :
    occupied b = true := by
  simp only [occupied, bne_iff_ne, ne_eq] at ha ⊢
  rw [← h]; exact ha

theorem inv_place {srt : Sorter} (hs : SortSpec srt) {s : State} (h : Inv s) {k : Nat} {r : Rec}
    (hk : k ≤ s.bnumber) (hkm : k < MAXB)
    (hfresh : ∀ (j : Nat) (rj : Rec), s.brd[j]? = some rj → j ≠ k → occupied rj = true →
      nameKey rj.name ≠ nameKey r.name) :
    Inv (sortBCache srt (placeRaw s k r)) := by
  have hkl : k ≤ s.brd.length := by rw [h.len]; exact hk
  have hbn : (placeRaw s k r).bnumber = if k < s.bnumber then s.bnumber else s.bnumber + 1 := rfl
  have hkbn : k < (placeRaw s k r).bnumber := by rw [hbn]; split <;> omega
  refine ⟨rfl, ?_, ?_, ?_, ?_, ?_, ?_, sortBCache_sortN hs _, sortBCache_sortC hs _, ?_⟩
  · -- len
    show (placeRaw s k r).brd.length = (placeRaw s k r).bnumber
    simp only [placeRaw]
    by_cases hlt : k < s.bnumber
    · have : k < s.brd.length := by rw [h.len]; exact hlt
      rw [if_pos this, if_pos hlt, List.length_set, h.len]
    · have : ¬ k < s.brd.length := by rw [h.len]; exact hlt
      rw [if_neg this, if_neg hlt, List.length_append, h.len]; rfl
  · -- cap
    show (placeRaw s k r).bnumber ≤ MAXB
    rw [hbn]; have := h.cap; split <;> omega
  · -- clen
    show (clearFC _ ((s.cache.set k r))).length = MAXB
    simp [clearFC, List.length_mapIdx, h.clen]
  · -- blen
    show (s.bmcache.set k _).length = MAXB
    rw [List.length_set, h.blen]
  · -- copy
    intro j x hx
    show ∃ c, (clearFC (placeRaw s k r).bnumber (s.cache.set k r))[j]? = some c ∧ CacheOK c x
    have hx' : (placeRaw s k r).brd[j]? = some x := hx
    rw [getElem?_clearFC]
    by_cases hjk : j = k
    · subst hjk
      rw [placeRaw_brd_self s j r hkl] at hx'
      cases hx'
      rw [List.getElem?_set_self (by rw [h.clen]; exact hkm)]
      exact ⟨_, by simp [hkbn]; rfl, Or.inl rfl⟩
    · rw [placeRaw_brd_ne s k j r hkl hjk] at hx'
      obtain ⟨c, hc, hok⟩ := h.copy j x hx'
      rw [List.getElem?_set_ne (Ne.symm hjk), hc]
      refine ⟨c, ?_, hok⟩
      have : ({ c with fc := zeros 8 } : Rec) = c := by
        have := hok.fc
        cases c; simp_all
      by_cases hlt : j < (placeRaw s k r).bnumber <;> simp [hlt, this]
  · -- beyond
    intro j hj hjm
    show (clearFC (placeRaw s k r).bnumber (s.cache.set k r))[j]? = some Rec.zero
    have hj : (placeRaw s k r).bnumber ≤ j := hj
    have hjk : j ≠ k := by omega
    have hjb : s.bnumber ≤ j := by rw [hbn] at hj; split at hj <;> omega
    rw [getElem?_clearFC, List.getElem?_set_ne (Ne.symm hjk), h.beyond j hjb hjm]
    have : ¬ j < (placeRaw s k r).bnumber := by omega
    simp [this]
  · -- distinct
    intro i j ri rj hi hj hocc hkey
    have hi' : (placeRaw s k r).brd[i]? = some ri := hi
    have hj' : (placeRaw s k r).brd[j]? = some rj := hj
    by_cases hik : i = k
    · by_cases hjk : j = k
      · omega
      · exfalso
        rw [hik, placeRaw_brd_self s k r hkl] at hi'
        cases hi'
        rw [placeRaw_brd_ne s k j r hkl hjk] at hj'
        exact hfresh j rj hj' hjk (occupied_of_key_eq hkey hocc) hkey.symm
    · rw [placeRaw_brd_ne s k i r hkl hik] at hi'
      by_cases hjk : j = k
      · exfalso
        rw [hjk, placeRaw_brd_self s k r hkl] at hj'
        cases hj'
        exact hfresh i ri hi' hik hocc hkey
      · rw [placeRaw_brd_ne s k j r hkl hjk] at hj'
        exact h.distinct i j ri rj hi' hj' hocc hkey


/-! ### addBoardRecord -/

theorem substIndex_succ (k : Nat) : substIndex (k + 1) = .ok k := by
  simp [substIndex, gen_subst, pure, Except.pure]

theorem hasVacant_false_iff (t : List Rec) :
    hasVacant t = false ↔ ∀ (k : Nat) (r : Rec), t[k]? = some r → occupied r = true := by
  simp only [hasVacant, List.any_eq_false]
  constructor
  · intro h k r hr
    have := h r (List.mem_of_getElem? hr)
    simpa using this
  · intro h r hr
    obtain ⟨k, hk, rfl⟩ := List.getElem_of_mem hr
    have := h k _ (List.getElem?_eq_getElem hk)
    simp [this]

theorem occupied_false_iff (r : Rec) : occupied r = false ↔ nameKey r.name = [] := by
  simp [occupied]

theorem occupied_true_iff (r : Rec) : occupied r = true ↔ nameKey r.name ≠ [] := by
  simp [occupied]

theorem resetBoard_of_get (s : State) (k : Nat) (r : Rec) (hk : k < MAXB) (hg : s.brd[k]? = some r) :
    resetBoard s (k + 1) =
      ({ s with cache := s.cache.set k r, bmcache := s.bmcache.set k (parseBMList s.users r.bm) }, true) := by
  have hc : (1 ≤ k + 1 ∧ k + 1 ≤ MAXB) := by omega
  simp only [resetBoard, Nat.add_sub_cancel, hg, hc, and_self, decide_true, Bool.not_true, Bool.false_eq_true, if_false]

theorem addBoardRecord_cases (srt : Sorter) {s : State} (h : Inv s) (r : Rec) :
    (∃ (k : Nat) (r0 : Rec), s.brd[k]? = some r0 ∧ occupied r0 = false ∧
        addBoardRecord srt s r = (sortBCache srt (placeRaw s k r), .ok (.ok (k + 1)))) ∨
    (hasVacant s.brd = false ∧ s.bnumber < MAXB ∧
        addBoardRecord srt s r = (sortBCache srt (placeRaw s s.bnumber r), .ok (.ok (s.bnumber + 1)))) ∨
    (hasVacant s.brd = false ∧ MAXB ≤ s.bnumber ∧ addBoardRecord srt s r = (s, .ok .tooMany)) := by
  obtain ⟨b, hb, hcase⟩ := getBid_brd h (zeros 13)
  rw [nameKey_zeros] at hcase
  rcases hcase with ⟨hb0, hnone⟩ | ⟨k, r0, hr0, hbk, hkey⟩
  · right
    have hv : hasVacant s.brd = false := by
      rw [hasVacant_false_iff]
      intro k r1 hr1
      rw [occupied_true_iff]; exact hnone k r1 hr1
    subst hb0
    by_cases hcap : MAXB ≤ s.bnumber
    · right
      refine ⟨hv, hcap, ?_⟩
      simp only [addBoardRecord, hb]
      rw [if_neg (by omega), if_pos (by omega)]
    · left
      refine ⟨hv, by omega, ?_⟩
      simp only [addBoardRecord, hb]
      rw [if_neg (by omega), if_neg (by omega)]
      have hget : (s.brd ++ [r])[s.bnumber]? = some r := by
        rw [← h.len, List.getElem?_append_right (Nat.le_refl _)]; simp
      rw [resetBoard_of_get _ s.bnumber r (by omega) hget]
      have hnl : ¬ s.bnumber < s.brd.length := by rw [h.len]; omega
      simp [placeRaw, hnl]
  · left
    have hk : k < s.bnumber := h.lt_of_get hr0
    refine ⟨k, r0, hr0, (occupied_false_iff r0).mpr hkey, ?_⟩
    subst hbk
    have hcap := h.cap
    simp only [addBoardRecord, hb]
    rw [if_pos (by omega)]
    simp only [substIndex_succ]
    have hkl : k < s.brd.length := by rw [h.len]; exact hk
    have hget : (s.brd.set k r)[k]? = some r := List.getElem?_set_self hkl
    simp only [writeRec, if_pos hkl]
    rw [resetBoard_of_get _ k r (by omega) hget]
    simp [placeRaw, hkl, hk, h.tail]


/-! ### bits -/

theorem hasBit_clearBits_self (a m : Nat) (hm : (4294967295 ^^^ m) &&& m = 0) :
    hasBit (clearBits a m) m = false := by
  simp [hasBit, clearBits, Nat.and_assoc, hm]

theorem hasBit_clearBits_other (a m m' : Nat) (hm : (4294967295 ^^^ m) &&& m' = m') :
    hasBit (clearBits a m) m' = hasBit a m' := by
  simp [hasBit, clearBits, Nat.and_assoc, hm]

theorem hasBit_zero (m : Nat) : hasBit 0 m = false := by simp [hasBit]

theorem hasBit_or (a m m' : Nat) : hasBit (a ||| m) m' = (hasBit a m' || hasBit m m') := by
  unfold hasBit
  rw [Nat.and_or_distrib_right]
  by_cases h1 : a &&& m' = 0
  · rw [h1, Nat.zero_or]; simp
  · have : (a &&& m' ||| m &&& m') ≠ 0 := fun e => h1 (Nat.or_eq_zero_iff.mp e).1
    have e1 : ((a &&& m' ||| m &&& m') != 0) = true := by simpa using this
    have e2 : ((a &&& m') != 0) = true := by simpa using h1
    rw [e1, e2]; rfl


/-- a hidden board leaves `mNewbrd` without post-mask and with level 0. -/
theorem hide_facts (q : Req) (hh : hasBit (buildAttr q) BRD_HIDE = true) :
    hasBit (buildAttr q) BRD_POSTMASK = false ∧ buildLevel q = 0 := by
  unfold buildAttr buildLevel at *
  by_cases hc : restricted q = true
  · rw [if_pos hc, if_pos hc]
    exact ⟨hasBit_clearBits_self _ _ (by decide), rfl⟩
  · rw [if_neg hc] at hh
    simp only [restricted, Bool.or_eq_true, not_or] at hc
    exact absurd hh hc.2

/-! ### LoadBoardSummary's write -/

theorem nameKeyAt_set_same {cache : List Rec} {k : Nat} {c c' : Rec} (hc : cache[k]? = some c)
    (hn : c'.name = c.name) : nameKeyAt (cache.set k c') = nameKeyAt cache := by
  funext j
  simp only [nameKeyAt, List.getD, List.getElem?_set]
  by_cases hjk : k = j
  · subst hjk
    have hlt : k < cache.length := by
      rcases Nat.lt_or_ge k cache.length with h | h
      · exact h
      · rw [List.getElem?_eq_none h] at hc; cases hc
    have hck : cache[k] = c := by
      have := List.getElem?_eq_getElem hlt
      rw [hc] at this; cases this; rfl
    simp [hlt, hn, hck]
  · simp [hjk]

theorem classKeyAt_set_same {cache : List Rec} {k : Nat} {c c' : Rec} (hc : cache[k]? = some c)
    (hn : c'.name = c.name) (ht : c'.title = c.title) : classKeyAt (cache.set k c') = classKeyAt cache := by
  funext j
  simp only [classKeyAt, List.getD, List.getElem?_set]
  by_cases hjk : k = j
  · subst hjk
    have hlt : k < cache.length := by
      rcases Nat.lt_or_ge k cache.length with h | h
      · exact h
      · rw [List.getElem?_eq_none h] at hc; cases hc
    have hck : cache[k] = c := by
      have := List.getElem?_eq_getElem hlt
      rw [hc] at this; cases this; rfl
    simp [hlt, hn, ht, hck]
  · simp [hjk]

theorem inv_setAttr {s : State} (h : Inv s) {k : Nat} {r : Rec} (hr : s.brd[k]? = some r)
    (hc : s.cache[k]? = some (shmOf r)) (hh : hasBit r.attr BRD_HIDE = true) :
    Inv { s with cache := s.cache.set k { shmOf r with attr := r.attr ||| BRD_POSTMASK } } := by
  have hk : k < s.bnumber := h.lt_of_get hr
  have hn := nameKeyAt_set_same (c' := { shmOf r with attr := r.attr ||| BRD_POSTMASK }) hc rfl
  have hcl := classKeyAt_set_same (c' := { shmOf r with attr := r.attr ||| BRD_POSTMASK }) hc rfl rfl
  refine ⟨h.tail, h.len, h.cap, ?_, h.blen, ?_, ?_, ?_, ?_, h.distinct⟩
  · simp [h.clen]
  · intro j x hx
    by_cases hjk : j = k
    · subst hjk
      have : x = r := by
        have hx' : s.brd[j]? = some x := hx
        rw [hr] at hx'; cases hx'; rfl
      subst this
      refine ⟨_, List.getElem?_set_self (by rw [h.clen]; have := h.cap; omega), Or.inr ⟨hh, rfl⟩⟩
    · obtain ⟨c, hcj, hok⟩ := h.copy j x hx
      exact ⟨c, by simp only; rw [List.getElem?_set_ne (Ne.symm hjk)]; exact hcj, hok⟩
  · intro j hj hjm
    simp only
    rw [List.getElem?_set_ne (by have : s.bnumber ≤ j := hj; omega)]
    exact h.beyond j hj hjm
  · simp only [hn]; exact h.sortN
  · simp only [hcl]; exact h.sortC

theorem summaryEffect_eq {s : State} {q : Req} {k : Nat} (hc : s.cache[k]? = some (shmOf (normalise s.users q)))
    (hb : s.bmcache[k]? = some (parseBMList s.users (normalise s.users q).bm)) :
    summaryEffect s q (k + 1) =
      if postMaskWritten s.users q then
        { s with cache := s.cache.set k { shmOf (normalise s.users q) with
                    attr := (normalise s.users q).attr ||| BRD_POSTMASK } }
      else s := by
  have hmod : isBMCache s q (k + 1) = callerIsMod s.users q (sanitizeBMs s.users q.bms) := by
    simp only [isBMCache, callerIsMod, Nat.add_sub_cancel, List.getD, hb, Option.getD_some]
    rfl
  simp only [summaryEffect, Nat.add_sub_cancel, List.getD, hc, Option.getD_some, statIsBoard, hmod, postMaskWritten]
  have ha : (shmOf (normalise s.users q)).attr = buildAttr q := rfl
  have hl : (shmOf (normalise s.users q)).level = buildLevel q := rfl
  have ha' : (normalise s.users q).attr = buildAttr q := rfl
  rw [ha, hl, ha']
  by_cases hh : hasBit (buildAttr q) BRD_HIDE = true
  · obtain ⟨hpm, hlv⟩ := hide_facts q hh
    simp [hh, hpm, hlv, hasBit_zero]
  · simp [hh]


/-! ### an accepted request -/

theorem inv_dirs {s : State} (h : Inv s) (d : List Bytes) : Inv { s with dirs := d } :=
  ⟨h.tail, h.len, h.cap, h.clen, h.blen, h.copy, h.beyond, h.sortN, h.sortC, h.distinct⟩

theorem shm_fix {c r : Rec} (h : CacheOK c r) : ({ c with fc := zeros 8 } : Rec) = c := by
  have := h.fc
  cases c; simp_all

/-- the shared copy the new board gets. -/
def newCopy (users : List Bytes) (q : Req) : Rec :=
  if postMaskWritten users q then
    { shmOf (normalise users q) with attr := (normalise users q).attr ||| BRD_POSTMASK }
  else shmOf (normalise users q)

theorem accept_core {srt : Sorter} (hs : SortSpec srt) {s : State} (h : Inv s) (q : Req) {k : Nat}
    (hk : k ≤ s.bnumber) (hkm : k < MAXB)
    (hfresh : ∀ (j : Nat) (rj : Rec), s.brd[j]? = some rj → j ≠ k → occupied rj = true →
      nameKey rj.name ≠ nameKey (normalise s.users q).name) :
    let F := summaryEffect (sortBCache srt (placeRaw s k (normalise s.users q))) q (k + 1)
    Inv F ∧ F.brd = (placeRaw s k (normalise s.users q)).brd ∧ F.dirs = s.dirs ∧ F.users = s.users ∧
    F.letters = s.letters ∧ F.bnumber = (if k < s.bnumber then s.bnumber else s.bnumber + 1) ∧
    F.cache[k]? = some (newCopy s.users q) ∧
    F.bmcache[k]? = some (parseBMList s.users (normalise s.users q).bm) ∧
    (∀ j, j ≠ k → F.cache[j]? = s.cache[j]?) ∧ (∀ j, j ≠ k → F.bmcache[j]? = s.bmcache[j]?) := by
  intro F
  have hP : Inv (sortBCache srt (placeRaw s k (normalise s.users q))) := inv_place hs h hk hkm hfresh
  have hkl : k ≤ s.brd.length := by rw [h.len]; exact hk
  have hbn : (placeRaw s k (normalise s.users q)).bnumber = if k < s.bnumber then s.bnumber else s.bnumber + 1 := rfl
  have hkbn : k < (placeRaw s k (normalise s.users q)).bnumber := by rw [hbn]; split <;> omega
  have hPb : (sortBCache srt (placeRaw s k (normalise s.users q))).brd[k]? = some (normalise s.users q) :=
    placeRaw_brd_self s k _ hkl
  have hPc : (sortBCache srt (placeRaw s k (normalise s.users q))).cache[k]? = some (shmOf (normalise s.users q)) := by
    show (clearFC (placeRaw s k (normalise s.users q)).bnumber (s.cache.set k (normalise s.users q)))[k]? = _
    rw [getElem?_clearFC, List.getElem?_set_self (by rw [h.clen]; exact hkm)]
    simp [hkbn]; rfl
  have hPm : (sortBCache srt (placeRaw s k (normalise s.users q))).bmcache[k]? =
      some (parseBMList s.users (normalise s.users q).bm) := by
    show (s.bmcache.set k _)[k]? = _
    rw [List.getElem?_set_self (by rw [h.blen]; exact hkm)]
  have hPcj : ∀ j, j ≠ k → (sortBCache srt (placeRaw s k (normalise s.users q))).cache[j]? = s.cache[j]? := by
    intro j hjk
    show (clearFC (placeRaw s k (normalise s.users q)).bnumber (s.cache.set k (normalise s.users q)))[j]? = _
    rw [getElem?_clearFC, List.getElem?_set_ne (Ne.symm hjk)]
    by_cases hjn : j < (placeRaw s k (normalise s.users q)).bnumber
    · have hjb : j < s.bnumber := by rw [hbn] at hjn; split at hjn <;> omega
      obtain ⟨x, hx⟩ := h.get_of_lt hjb
      obtain ⟨c, hc, hok⟩ := h.copy j x hx
      rw [hc]; simp [hjn, shm_fix hok]
    · cases s.cache[j]? <;> simp [hjn]
  have hF : F = if postMaskWritten s.users q then
        { sortBCache srt (placeRaw s k (normalise s.users q)) with
          cache := (sortBCache srt (placeRaw s k (normalise s.users q))).cache.set k
            { shmOf (normalise s.users q) with attr := (normalise s.users q).attr ||| BRD_POSTMASK } }
      else sortBCache srt (placeRaw s k (normalise s.users q)) :=
    summaryEffect_eq (s := sortBCache srt (placeRaw s k (normalise s.users q))) hPc hPm
  by_cases hpm : postMaskWritten s.users q = true
  · rw [if_pos hpm] at hF
    have hh : hasBit (normalise s.users q).attr BRD_HIDE = true := by
      simp only [postMaskWritten, Bool.and_eq_true] at hpm
      exact hpm.1.1
    rw [hF]
    refine ⟨inv_setAttr hP hPb hPc hh, rfl, rfl, rfl, rfl, rfl, ?_, hPm, ?_, ?_⟩
    · simp only [newCopy, if_pos hpm]
      exact List.getElem?_set_self (by
        show k < (clearFC _ (s.cache.set k _)).length
        simp [clearFC, h.clen]; exact hkm)
    · intro j hjk
      simp only
      rw [List.getElem?_set_ne (Ne.symm hjk)]; exact hPcj j hjk
    · intro j hjk
      show (s.bmcache.set k _)[j]? = _
      rw [List.getElem?_set_ne (Ne.symm hjk)]
  · rw [if_neg hpm] at hF
    rw [hF]
    refine ⟨hP, rfl, rfl, rfl, rfl, rfl, ?_, hPm, hPcj, ?_⟩
    · simp only [newCopy, if_neg hpm]; exact hPc
    · intro j hjk
      show (s.bmcache.set k _)[j]? = _
      rw [List.getElem?_set_ne (Ne.symm hjk)]


/-! ### one request -/

theorem cache_bm_eq' {s : State} (h : Inv s) (i : Nat) :
    (s.cache.getD i Rec.zero).bm = (s.brd.getD i Rec.zero).bm := by
  by_cases hi : i < s.bnumber
  · obtain ⟨x, hx⟩ := h.get_of_lt hi
    obtain ⟨c, hc, hok⟩ := h.copy i x hx
    simp [List.getD, hx, hc, hok.bm]
  · have hb : s.brd[i]? = none := List.getElem?_eq_none (by rw [h.len]; omega)
    by_cases him : i < MAXB
    · simp [List.getD, hb, h.beyond i (by omega) him]
    · have hc : s.cache[i]? = none := List.getElem?_eq_none (by rw [h.clen]; omega)
      simp [List.getD, hb, hc]

theorem groupOpOf_cache {s : State} (h : Inv s) (q : Req) : groupOpOf s.cache q = groupOpOf s.brd q := by
  simp only [groupOpOf, cache_bm_eq' h]

theorem gen_parent : parentChecked = true := by decide

theorem parentIsClass_cache {s : State} (h : Inv s) (cls : Int) :
    parentIsClass s.cache cls = parentIsClass s.brd cls := by
  unfold parentIsClass
  generalize cls.toNat - 1 = i
  by_cases hi : i < s.bnumber
  · obtain ⟨x, hx⟩ := h.get_of_lt hi
    obtain ⟨c, hc, hok⟩ := h.copy i x hx
    have hn := hok.name
    simp only [List.getD, hx, hc, Option.getD_some, hn]
    rcases hok with e | ⟨_, e⟩
    · subst e; rfl
    · subst e
      have : hasBit BRD_POSTMASK BRD_GROUP = false := by decide
      simp only [shmOf, hasBit_or, this, Bool.or_false]
  · have hb : s.brd[i]? = none := List.getElem?_eq_none (by rw [h.len]; omega)
    by_cases him : i < MAXB
    · simp [List.getD, hb, h.beyond i (by omega) him]
    · have hc : s.cache[i]? = none := List.getElem?_eq_none (by rw [h.clen]; omega)
      simp [List.getD, hb, hc]

theorem validName_key_ne {n : Bytes} (h : validNameSpec n = true) : nameKey n ≠ [] := by
  unfold validNameSpec at h
  unfold nameKey
  cases hc : cstr n with
  | nil => rw [hc] at h; cases h
  | cons c rest => simp

theorem erase_append_self (l : List Bytes) (x : Bytes) (h : l.contains x = false) : (l ++ [x]).erase x = l := by
  induction l with
  | nil => simp
  | cons y ys ih =>
      have hne : y ≠ x := by
        intro e; subst e; simp at h
      have hys : ys.contains x = false := by
        simp only [List.contains_eq_mem, List.mem_cons, decide_eq_false_iff_not, not_or] at h ⊢
        exact h.2
      rw [List.cons_append, List.erase_cons_tail (by simpa using hne), ih hys]

theorem nameTaken_true {t : List Rec} {n : Bytes} {k : Nat} {r : Rec} (hr : t[k]? = some r)
    (hk : nameKey r.name = nameKey n) (hn : nameKey n ≠ []) : nameTaken t n = true := by
  simp only [nameTaken, List.any_eq_true]
  refine ⟨r, List.mem_of_getElem? hr, ?_⟩
  simp [occupied, hk, hn]

theorem nameTaken_false {t : List Rec} {n : Bytes}
    (h : ∀ (k : Nat) (r : Rec), t[k]? = some r → nameKey r.name ≠ nameKey n) : nameTaken t n = false := by
  simp only [nameTaken, List.any_eq_false]
  intro r hr
  obtain ⟨k, hk, rfl⟩ := List.getElem_of_mem hr
  have := h k _ (List.getElem?_eq_getElem hk)
  simp [this]

theorem hasVacant_true {t : List Rec} {k : Nat} {r : Rec} (hr : t[k]? = some r) (ho : occupied r = false) :
    hasVacant t = true := by
  simp only [hasVacant, List.any_eq_true]
  exact ⟨r, List.mem_of_getElem? hr, by simp [ho]⟩

/-- what an accepted request leaves behind in slot `k`. -/
structure Accepted (s s' : State) (q : Req) (k : Nat) : Prop where
  brd : s'.brd[k]? = some (normalise s.users q)
  cache : s'.cache[k]? = some (newCopy s.users q)
  bmc : s'.bmcache[k]? = some (parseBMList s.users (normalise s.users q).bm)
  frameBrd : ∀ j, j ≠ k → s'.brd[j]? = s.brd[j]?
  frameCache : ∀ j, j ≠ k → s'.cache[j]? = s.cache[j]?
  frameBmc : ∀ j, j ≠ k → s'.bmcache[j]? = s.bmcache[j]?
  count : s'.bnumber = if hasVacant s.brd then s.bnumber else s.bnumber + 1
  slot : k ≤ s.bnumber ∧ k < MAXB

theorem refusal_pack {s : State} (h : Inv s) (q : Req) (r : Res) (hr : ∀ b, r ≠ .ok b)
    (hspec : specDecide s.letters s.dirs s.brd q = some r) (P : State × M Res) (hP : P = (s, .ok r)) :
    ∃ res, P.2 = .ok res ∧ Inv P.1 ∧ SpecStep s.users s.letters s.brd s.dirs q res P.1.brd P.1.dirs ∧
      P.1.users = s.users ∧ P.1.letters = s.letters ∧ ((∀ b, res ≠ .ok b) → P.1 = s) ∧
      (∀ b, res = .ok b → 1 ≤ b ∧ Accepted s P.1 q (b - 1)) := by
  subst hP
  refine ⟨r, rfl, h, ?_, rfl, rfl, fun _ => rfl, fun b hb => absurd hb (hr b)⟩
  simp [SpecStep, hspec]

theorem newBoard_step {srt : Sorter} (hs : SortSpec srt) {s : State} (h : Inv s) (q : Req) :
    ∃ res, (newBoard srt s q).2 = .ok res ∧ Inv (newBoard srt s q).1 ∧
      SpecStep s.users s.letters s.brd s.dirs q res (newBoard srt s q).1.brd (newBoard srt s q).1.dirs ∧
      (newBoard srt s q).1.users = s.users ∧ (newBoard srt s q).1.letters = s.letters ∧
      ((∀ b, res ≠ .ok b) → (newBoard srt s q).1 = s) ∧
      (∀ b, res = .ok b → 1 ≤ b ∧ Accepted s (newBoard srt s q).1 q (b - 1)) := by
  by_cases hvb0 : validBid q.cls = false
  · exact refusal_pack h q .invalidBid (by intro b; simp) (by simp [specDecide, hvb0]) _
      (by simp [newBoard, hvb0])
  have hvb : validBid q.cls = true := by simpa using hvb0
  have hpc : parentIsClass s.cache q.cls = parentIsClass s.brd q.cls := parentIsClass_cache h q.cls
  by_cases hpar0 : parentIsClass s.brd q.cls = false
  · exact refusal_pack h q .invalidBid (by intro b; simp) (by simp [specDecide, hvb, hpar0]) _
      (by simp [newBoard, hvb, gen_parent, hpc, hpar0])
  have hpar : parentIsClass s.brd q.cls = true := by simpa using hpar0
  have hpe : groupOpOf s.cache q = permitted s.brd q := groupOpOf_cache h q
  by_cases hp0 : permitted s.brd q = false
  · have hb' : hasBit q.ulevel PERM_BOARD = false := by
      cases hx : hasBit q.ulevel PERM_BOARD with
      | false => rfl
      | true => simp [permitted, groupOpOf, hx] at hp0
    exact refusal_pack h q .notPermitted (by intro b; simp) (by simp [specDecide, hvb, hpar, hp0]) _
      (by simp [newBoard, hvb, gen_parent, hpc, hpar, hpe, hp0, hb'])
  have hp : permitted s.brd q = true := by simpa using hp0
  have hnb : newBoard srt s q = mNewbrd srt s q := by simp [newBoard, hvb, gen_parent, hpc, hpar, hpe, hp]
  rw [hnb]
  by_cases hvn0 : validNameSpec q.name = false
  · exact refusal_pack h q .invalidName (by intro b; simp) (by simp [specDecide, hvb, hpar, hp, hvn0]) _
      (by simp [mNewbrd, isValidName_eq, hvn0])
  have hvn : validNameSpec q.name = true := by simpa using hvn0
  have hkne := validName_key_ne hvn
  obtain ⟨b, hb, hcase⟩ := getBid_brd h q.name
  by_cases hbz : b ≠ 0
  · -- the name exists
    obtain ⟨k, r0, hr0, hbk, hkey⟩ : ∃ (k : Nat) (r : Rec), s.brd[k]? = some r ∧ b = k + 1 ∧ nameKey r.name = nameKey q.name := by
      rcases hcase with ⟨hb0, _⟩ | hx
      · exact absurd hb0 hbz
      · exact hx
    subst hbk
    exact refusal_pack h q .nameExists (by intro b; simp)
      (by simp [specDecide, hvb, hpar, hp, hvn, nameTaken_true hr0 hkey hkne]) _
      (by simp [mNewbrd, isValidName_eq, hvn, hb])
  have hb0 : b = 0 := by omega
  have hnone : ∀ (k : Nat) (r : Rec), s.brd[k]? = some r → nameKey r.name ≠ nameKey q.name := by
    rcases hcase with ⟨_, hn⟩ | ⟨k, r0, _, hbk, _⟩
    · exact hn
    · omega
  subst hb0
  have hnt : nameTaken s.brd q.name = false := nameTaken_false hnone
  by_cases hl0 : hasLetter s.letters q.name = false
  · exact refusal_pack h q .mkdirNoent (by intro b; simp) (by simp [specDecide, hvb, hpar, hp, hvn, hnt, hl0]) _
      (by simp [mNewbrd, isValidName_eq, hvn, hb, hl0])
  have hl : hasLetter s.letters q.name = true := by simpa using hl0
  by_cases hd : hasDir s.dirs q.name = true
  · exact refusal_pack h q .mkdirExist (by intro b; simp) (by simp [specDecide, hvb, hpar, hp, hvn, hnt, hl, hd]) _
      (by simp [mNewbrd, isValidName_eq, hvn, hb, hl, hd])
  have hd' : hasDir s.dirs q.name = false := by simpa using hd
  -- mkdir done; the record is placed
  have h1 : Inv { s with dirs := s.dirs ++ [cstr q.name] } := inv_dirs h _
  have hfresh : ∀ (k : Nat), ∀ (j : Nat) (rj : Rec), s.brd[j]? = some rj → j ≠ k → occupied rj = true →
      nameKey rj.name ≠ nameKey (normalise s.users q).name := fun _ j rj hj _ _ => hnone j rj hj
  rcases addBoardRecord_cases srt h1 (buildRec q (sanitizeBMs s.users q.bms)) with
    ⟨k, r0, hr0, ho, hadd⟩ | ⟨hv, hlt, hadd⟩ | ⟨hv, hge, hadd⟩
  · -- a vacated slot
    have hm : mNewbrd srt s q = (summaryEffect (sortBCache srt (placeRaw { s with dirs := s.dirs ++ [cstr q.name] } k
        (normalise s.users q))) q (k + 1), .ok (.ok (k + 1))) := by
      simp [mNewbrd, isValidName_eq, hvn, hb, hl, hd', hadd, normalise]
    rw [hm]
    have hk : k < s.bnumber := h.lt_of_get hr0
    have hkm : k < MAXB := by have := h.cap; omega
    obtain ⟨hI, hbrd, hdirs, husers, hletters, hbn, hc, hm, hcj, hmj⟩ :=
      accept_core hs h1 q (k := k) (by show k ≤ s.bnumber; omega) hkm (hfresh k)
    have hkl : k < s.brd.length := by rw [h.len]; exact hk
    refine ⟨.ok (k + 1), rfl, hI, ?_, husers, hletters, fun hne => absurd rfl (hne (k + 1)), ?_⟩
    · simp only [SpecStep, specDecide, hvb, hpar, hp, hvn, hnt, hl, hd', hasVacant_true hr0 ho]
      simp only [Bool.not_true, Bool.false_eq_true, if_false, Bool.false_and]
      refine ⟨k, rfl, hdirs, Or.inl ⟨hkl, ⟨r0, hr0, ho⟩, ?_⟩⟩
      rw [hbrd]; simp [placeRaw, hkl]
    · intro b hb
      cases hb
      refine ⟨by omega, ?_⟩
      rw [Nat.add_sub_cancel]
      refine ⟨?_, hc, hm, ?_, hcj, hmj, ?_, ⟨by omega, hkm⟩⟩
      · rw [hbrd]; exact placeRaw_brd_self _ k _ (by show k ≤ s.brd.length; omega)
      · intro j hj; rw [hbrd]; exact placeRaw_brd_ne _ k j _ (by show k ≤ s.brd.length; omega) hj
      · rw [hbn, hasVacant_true hr0 ho]; simp [hk]
  · -- appended
    have hm : mNewbrd srt s q = (summaryEffect (sortBCache srt (placeRaw { s with dirs := s.dirs ++ [cstr q.name] }
        s.bnumber (normalise s.users q))) q (s.bnumber + 1), .ok (.ok (s.bnumber + 1))) := by
      simp [mNewbrd, isValidName_eq, hvn, hb, hl, hd', hadd, normalise]
    rw [hm]
    have hlt' : s.bnumber < MAXB := hlt
    obtain ⟨hI, hbrd, hdirs, husers, hletters, hbn, hc, hm, hcj, hmj⟩ :=
      accept_core hs h1 q (k := s.bnumber) (Nat.le_refl _) hlt' (hfresh s.bnumber)
    have hv' : hasVacant s.brd = false := hv
    have hnl : ¬ s.bnumber < s.brd.length := by rw [h.len]; omega
    refine ⟨.ok (s.bnumber + 1), rfl, hI, ?_, husers, hletters, fun hne => absurd rfl (hne (s.bnumber + 1)), ?_⟩
    · simp only [SpecStep, specDecide, hvb, hpar, hp, hvn, hnt, hl, hd', hv']
      have : ¬ (s.brd.length ≥ MAXB) := by rw [h.len]; omega
      simp only [Bool.not_true, Bool.false_eq_true, if_false, Bool.not_false, Bool.true_and, decide_eq_true_eq, this]
      refine ⟨s.bnumber, rfl, hdirs, Or.inr ⟨by trivial, h.len.symm, ?_⟩⟩
      rw [hbrd]; simp [placeRaw, hnl]
    · intro b hb
      cases hb
      refine ⟨by omega, ?_⟩
      rw [Nat.add_sub_cancel]
      refine ⟨?_, hc, hm, ?_, hcj, hmj, ?_, ⟨Nat.le_refl _, hlt'⟩⟩
      · rw [hbrd]; exact placeRaw_brd_self _ s.bnumber _ (by show s.bnumber ≤ s.brd.length; rw [h.len]; omega)
      · intro j hj; rw [hbrd]
        exact placeRaw_brd_ne _ s.bnumber j _ (by show s.bnumber ≤ s.brd.length; rw [h.len]; omega) hj
      · rw [hbn, hv']; simp
  · -- no capacity: the directory is removed again
    have hv' : hasVacant s.brd = false := hv
    have hge' : MAXB ≤ s.bnumber := hge
    have hlen : s.brd.length ≥ MAXB := by rw [h.len]; exact hge'
    refine refusal_pack h q .tooMany (by intro b; simp)
      (by simp [specDecide, hvb, hpar, hp, hvn, hnt, hl, hd', hv', hlen]) _ ?_
    simp [mNewbrd, isValidName_eq, hvn, hb, hl, hd', hadd, gen_rmdir]
    rw [show (s.dirs ++ [cstr q.name]).erase (cstr q.name) = s.dirs from erase_append_self _ _ hd']

end PttVerif.C12
