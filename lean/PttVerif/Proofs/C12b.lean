import PttVerif.Proofs.C12
/-
C12 — helper lemmas.  Part 2: the bisection of getBidByNameCore finds a slot carrying the key iff one exists
(for every index that is a sorted permutation); what well-formed states give; placing a header into a slot keeps
the state well-formed.
-/
namespace PttVerif.C12
open PttVerif

/-- what `getBid` needs from a state: below BNumber every position of the name index resolves to a slot and
its name, in non-decreasing key order. -/
structure Looks (s : State) (sl : Nat → Nat) (nm : Nat → Bytes) : Prop where
  look : ∀ p, p < s.bnumber → look s p = .ok (sl p, nm p)
  mono : ∀ p q, p < q → q < s.bnumber → ¬ nameKey (nm q) < nameKey (nm p)

theorem bisect_spec (s : State) (key : Bytes) (sl : Nat → Nat) (nm : Nat → Bytes) (h : Looks s sl nm) :
    ∀ fuel st en i, st ≤ i → i ≤ en → en < s.bnumber → i = (st + en) / 2 → en - st + 2 ≤ fuel →
      (∀ p, p < s.bnumber → nameKey (nm p) = nameKey key → st ≤ p ∧ p ≤ en) →
      ∃ b, bisect s key fuel st en i = .ok b ∧
        ((b = 0 ∧ ∀ p, p < s.bnumber → nameKey (nm p) ≠ nameKey key) ∨
         (∃ p, p < s.bnumber ∧ b = sl p + 1 ∧ nameKey (nm p) = nameKey key)) := by
  intro fuel
  induction fuel with
  | zero => intro st en i _ _ _ _ hf; omega
  | succ fuel ih =>
      intro st en i hsi hie hen hi hf hc
      have hib : i < s.bnumber := by omega
      rw [bisect]
      simp only [h.look i hib, bind, Except.bind]
      by_cases hj0 : ccmp key (nm i) = 0
      · rw [if_pos hj0]
        exact ⟨sl i + 1, rfl, Or.inr ⟨i, hib, rfl, ((ccmp_eq_zero_iff _ _).mp hj0).symm⟩⟩
      · rw [if_neg hj0]
        have hne : nameKey (nm i) ≠ nameKey key := fun e => hj0 ((ccmp_eq_zero_iff _ _).mpr e.symm)
        by_cases hes : en = st
        · rw [if_pos hes]
          refine ⟨0, rfl, Or.inl ⟨rfl, ?_⟩⟩
          intro p hp e
          have := hc p hp e
          have : p = i := by omega
          subst this; exact hne e
        · rw [if_neg hes]
          by_cases his : i = st
          · rw [if_pos his]
            by_cases hneg : ccmp key (nm i) < 0
            · rw [if_pos hneg]
              refine ⟨0, rfl, Or.inl ⟨rfl, ?_⟩⟩
              intro p hp e
              have hlt : nameKey key < nameKey (nm i) := (ccmp_neg_iff _ _).mp hneg
              have hr := hc p hp e
              by_cases hpi : p = i
              · subst hpi; exact hne e
              · have := h.mono i p (by omega) hp
                rw [e] at this
                exact this hlt
            · rw [if_neg hneg]
              have hen2 : en = st + 1 := by omega
              apply ih en en ((en + en) / 2) (by omega) (by omega) hen rfl (by omega)
              intro p hp e
              have hr := hc p hp e
              have : p ≠ i := fun hpi => hne (hpi ▸ e)
              omega
          · rw [if_neg his]
            by_cases hpos : ccmp key (nm i) > 0
            · rw [if_pos hpos]
              apply ih i en ((i + en) / 2) (by omega) (by omega) hen rfl (by omega)
              intro p hp e
              have hr := hc p hp e
              have hlt : nameKey (nm i) < nameKey key := (ccmp_pos_iff _ _).mp hpos
              refine ⟨?_, hr.2⟩
              rcases Nat.lt_or_ge p i with hpi | hpi
              · exfalso
                have := h.mono p i hpi hib
                rw [e] at this
                exact this hlt
              · exact hpi
            · rw [if_neg hpos]
              have hneg : ccmp key (nm i) < 0 := by omega
              have hlt : nameKey key < nameKey (nm i) := (ccmp_neg_iff _ _).mp hneg
              apply ih st i ((st + i) / 2) (by omega) (by omega) hib rfl (by omega)
              intro p hp e
              have hr := hc p hp e
              refine ⟨hr.1, ?_⟩
              rcases Nat.lt_or_ge i p with hpi | hpi
              · exfalso
                have := h.mono i p hpi hp
                rw [e] at this
                exact this hlt
              · exact hpi

/-! ### reading a well-formed state -/

theorem CacheOK.name {c r : Rec} (h : CacheOK c r) : c.name = r.name := by
  rcases h with h | ⟨_, h⟩ <;> subst h <;> rfl

theorem CacheOK.title {c r : Rec} (h : CacheOK c r) : c.title = r.title := by
  rcases h with h | ⟨_, h⟩ <;> subst h <;> rfl

theorem CacheOK.bm {c r : Rec} (h : CacheOK c r) : c.bm = r.bm := by
  rcases h with h | ⟨_, h⟩ <;> subst h <;> rfl

theorem CacheOK.fc {c r : Rec} (h : CacheOK c r) : c.fc = zeros 8 := by
  rcases h with h | ⟨_, h⟩ <;> subst h <;> rfl

theorem nameKeyAt_of_get {cache : List Rec} {k : Nat} {c : Rec} (h : cache[k]? = some c) :
    nameKeyAt cache k = nameKey c.name := by
  simp [nameKeyAt, List.getD, h]

theorem Inv.key_at {s : State} (h : Inv s) {k : Nat} {r : Rec} (hr : s.brd[k]? = some r) :
    nameKeyAt s.cache k = nameKey r.name := by
  obtain ⟨c, hc, hok⟩ := h.copy k r hr
  rw [nameKeyAt_of_get hc, hok.name]

theorem Inv.lt_of_get {s : State} (h : Inv s) {k : Nat} {r : Rec} (hr : s.brd[k]? = some r) : k < s.bnumber := by
  rw [← h.len]
  rcases Nat.lt_or_ge k s.brd.length with h' | h'
  · exact h'
  · rw [List.getElem?_eq_none h'] at hr; cases hr

theorem Inv.get_of_lt {s : State} (h : Inv s) {k : Nat} (hk : k < s.bnumber) : ∃ r, s.brd[k]? = some r := by
  rw [← h.len] at hk
  exact ⟨s.brd[k], List.getElem?_eq_getElem hk⟩

theorem Inv.looks {s : State} (h : Inv s) :
    Looks s (fun p => (s.sortedN.take s.bnumber).getD p 0)
      (fun p => (s.cache.getD ((s.sortedN.take s.bnumber).getD p 0) Rec.zero).name) := by
  have hlen : (s.sortedN.take s.bnumber).length = s.bnumber := by
    rw [h.sortN.1.length_eq, List.length_range]
  constructor
  · intro p hp
    have hp' : p < (s.sortedN.take s.bnumber).length := by omega
    have h1 : (s.sortedN.take s.bnumber)[p]? = some ((s.sortedN.take s.bnumber)[p]) := List.getElem?_eq_getElem hp'
    have h2 : s.sortedN[p]? = some ((s.sortedN.take s.bnumber)[p]) := by
      rw [← h1, List.getElem?_take_of_lt hp]
    have hmem : (s.sortedN.take s.bnumber)[p] ∈ List.range s.bnumber :=
      h.sortN.1.mem_iff.mp (List.getElem_mem hp')
    have hb : (s.sortedN.take s.bnumber)[p] < s.cache.length := by
      rw [h.clen]; have := List.mem_range.mp hmem; have := h.cap; omega
    have h3 : s.cache[(s.sortedN.take s.bnumber)[p]]? = some (s.cache[(s.sortedN.take s.bnumber)[p]]) :=
      List.getElem?_eq_getElem hb
    simp only [look, idx, h2, bind, Except.bind, h3, pure, Except.pure, List.getD, h1, Option.getD_some]
  · intro p q hpq hq
    have hp' : p < (s.sortedN.take s.bnumber).length := by omega
    have hq' : q < (s.sortedN.take s.bnumber).length := by omega
    have := (List.pairwise_iff_getElem.mp h.sortN.2) p q hp' hq' hpq
    simpa [nameKeyAt, List.getD, List.getElem?_eq_getElem hp', List.getElem?_eq_getElem hq'] using this

/-- `cache.GetBid` on a well-formed state: 0 iff no slot below BNumber carries the key, else a slot that does. -/
theorem getBid_spec {s : State} (h : Inv s) (key : Bytes) :
    ∃ b, getBid s key = .ok b ∧
      ((b = 0 ∧ ∀ k, k < s.bnumber → nameKeyAt s.cache k ≠ nameKey key) ∨
       (∃ k, k < s.bnumber ∧ b = k + 1 ∧ nameKeyAt s.cache k = nameKey key)) := by
  unfold getBid
  by_cases h0 : s.bnumber = 0
  · rw [if_pos h0]
    exact ⟨0, rfl, Or.inl ⟨rfl, fun k hk => by omega⟩⟩
  · rw [if_neg h0]
    have hlen : (s.sortedN.take s.bnumber).length = s.bnumber := by
      rw [h.sortN.1.length_eq, List.length_range]
    obtain ⟨b, hb, hcase⟩ := bisect_spec s key _ _ h.looks (s.bnumber + 2) 0 (s.bnumber - 1) ((s.bnumber - 1) / 2)
      (by omega) (by omega) (by omega) (by simp) (by omega) (fun p hp _ => ⟨by omega, by omega⟩)
    refine ⟨b, hb, ?_⟩
    rcases hcase with ⟨hb0, hnone⟩ | ⟨p, hp, hbp, hkey⟩
    · left
      refine ⟨hb0, ?_⟩
      intro k hk
      have hmem : k ∈ s.sortedN.take s.bnumber := h.sortN.1.mem_iff.mpr (List.mem_range.mpr hk)
      obtain ⟨p, hp, hpk⟩ := List.getElem_of_mem hmem
      have := hnone p (by omega)
      simpa [nameKeyAt, List.getD, List.getElem?_eq_getElem hp, hpk] using this
    · right
      have hp' : p < (s.sortedN.take s.bnumber).length := by omega
      have hmem : (s.sortedN.take s.bnumber)[p] ∈ List.range s.bnumber :=
        h.sortN.1.mem_iff.mp (List.getElem_mem hp')
      refine ⟨(s.sortedN.take s.bnumber)[p], List.mem_range.mp hmem, ?_, ?_⟩
      · simpa [List.getD, List.getElem?_eq_getElem hp'] using hbp
      · simpa [nameKeyAt, List.getD, List.getElem?_eq_getElem hp'] using hkey

/-- the same, read on `.BRD`. -/
theorem getBid_brd {s : State} (h : Inv s) (key : Bytes) :
    ∃ b, getBid s key = .ok b ∧
      ((b = 0 ∧ ∀ (k : Nat) (r : Rec), s.brd[k]? = some r → nameKey r.name ≠ nameKey key) ∨
       (∃ (k : Nat) (r : Rec), s.brd[k]? = some r ∧ b = k + 1 ∧ nameKey r.name = nameKey key)) := by
  obtain ⟨b, hb, hcase⟩ := getBid_spec h key
  refine ⟨b, hb, ?_⟩
  rcases hcase with ⟨hb0, hnone⟩ | ⟨k, hk, hbk, hkey⟩
  · left
    refine ⟨hb0, ?_⟩
    intro k r hr
    rw [← h.key_at hr]
    exact hnone k (h.lt_of_get hr)
  · right
    obtain ⟨r, hr⟩ := h.get_of_lt hk
    exact ⟨k, r, hr, hbk, by rw [← h.key_at hr]; exact hkey⟩

/-- on a well-formed state the name index resolves every occupied slot under its name in any letter case. -/
theorem index_resolves {s : State} (h : Inv s) {k : Nat} {r : Rec} (hr : s.brd[k]? = some r)
    (hocc : occupied r = true) (n : Bytes) (hn : nameKey n = nameKey r.name) : getBid s n = .ok (k + 1) := by
  obtain ⟨b, hb, hcase⟩ := getBid_brd h n
  rcases hcase with ⟨_, hnone⟩ | ⟨k', r', hr', hbk, hkey⟩
  · exact absurd hn.symm (hnone k r hr)
  · have : k = k' := h.distinct k k' r r' hr hr' hocc (by rw [hkey, hn])
    subst this; rw [hb, hbk]

end PttVerif.C12
