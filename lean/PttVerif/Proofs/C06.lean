import PttVerif.Model.C06
import PttVerif.Props.C13
/-
C06 — specification by linear scan, and the lemmas behind Props/C06.lean.
-/
namespace PttVerif.C06
open PttVerif

/-! ### the specification: a linear scan over the first `T` records -/
namespace Spec

/-- greatest position below `n` satisfying `p` (scan downwards from the end). -/
def lastBelow (p : Nat → Bool) : Nat → Option Nat
  | 0 => none
  | n + 1 => if p n then some n else lastBelow p n

/-- least position in `[s, s+n)` satisfying `p` (scan upwards). -/
def firstFrom (p : Nat → Bool) : Nat → Nat → Option Nat
  | 0, _ => none
  | n + 1, s => if p s then some s else firstFrom p n (s + 1)

/-- entry `i` has creation time `ct` and name key `k`. -/
def hitAt (idx : Index) (ct : Int) (k : List Nat) (i : Nat) : Bool :=
  match idx[i]? with
  | some e => e.time? == some ct && k == e.key
  | none => false

/-- entry `i` is parsable and not newer than `ct`. -/
def leAt (idx : Index) (ct : Int) (i : Nat) : Bool :=
  match idx[i]? with
  | some e => (match e.time? with | some t => decide (t ≤ ct) | none => false)
  | none => false

/-- entry `i` is parsable and not older than `ct`. -/
def geAt (idx : Index) (ct : Int) (i : Nat) : Bool :=
  match idx[i]? with
  | some e => (match e.time? with | some t => decide (ct ≤ t) | none => false)
  | none => false

/-- 0-based position of the cursor `(ct, fn)` among the first `T` records, in listing direction:
the entry itself if present, else the nearest one in that direction, else none. -/
def position (idx : Index) (T : Nat) (ct : Int) (fn : Option (List Nat)) (isDesc : Bool) : Option Nat :=
  let exact := match fn with
    | none => none
    | some k => if isDesc then lastBelow (hitAt idx ct k) T else firstFrom (hitAt idx ct k) T 0
  match exact with
  | some i => some i
  | none => if isDesc then lastBelow (leAt idx ct) T else firstFrom (geAt idx ct) T 0

/-- what FindRecordStartIdx has to return: the 1-based position or ErrRecordNotFound. -/
def find (idx : Index) (T : Nat) (ct : Int) (fn : Option (List Nat)) (isDesc : Bool) : R Int :=
  match position idx T ct fn isDesc with
  | some i => .ok (i + 1)
  | none => .error .notFound

theorem lastBelow_some {p : Nat → Bool} : ∀ {n i : Nat}, lastBelow p n = some i →
    i < n ∧ p i = true ∧ ∀ j, i < j → j < n → p j = false := by
  intro n
  induction n with
  | zero => intro i h; simp [lastBelow] at h
  | succ n ih =>
    intro i h
    unfold lastBelow at h
    by_cases hp : p n = true
    · simp [hp] at h; subst h
      exact ⟨by omega, hp, fun j h1 h2 => by omega⟩
    · simp [hp] at h
      obtain ⟨h1, h2, h3⟩ := ih h
      refine ⟨by omega, h2, fun j hj1 hj2 => ?_⟩
      by_cases hjn : j = n
      · subst hjn; simpa using hp
      · exact h3 j hj1 (by omega)

theorem lastBelow_none {p : Nat → Bool} : ∀ {n : Nat}, lastBelow p n = none → ∀ j, j < n → p j = false := by
  intro n
  induction n with
  | zero => intro _ j hj; omega
  | succ n ih =>
    intro h j hj
    unfold lastBelow at h
    by_cases hp : p n = true
    · simp [hp] at h
    · simp [hp] at h
      by_cases hjn : j = n
      · subst hjn; simpa using hp
      · exact ih h j (by omega)

theorem firstFrom_some {p : Nat → Bool} : ∀ {n s i : Nat}, firstFrom p n s = some i →
    s ≤ i ∧ i < s + n ∧ p i = true ∧ ∀ j, s ≤ j → j < i → p j = false := by
  intro n
  induction n with
  | zero => intro s i h; simp [firstFrom] at h
  | succ n ih =>
    intro s i h
    unfold firstFrom at h
    by_cases hp : p s = true
    · simp [hp] at h; subst h
      exact ⟨by omega, by omega, hp, fun j h1 h2 => by omega⟩
    · simp [hp] at h
      obtain ⟨h1, h2, h3, h4⟩ := ih h
      refine ⟨by omega, by omega, h3, fun j hj1 hj2 => ?_⟩
      by_cases hjs : j = s
      · subst hjs; simpa using hp
      · exact h4 j (by omega) hj2

theorem firstFrom_none {p : Nat → Bool} : ∀ {n s : Nat}, firstFrom p n s = none →
    ∀ j, s ≤ j → j < s + n → p j = false := by
  intro n
  induction n with
  | zero => intro s _ j h1 h2; omega
  | succ n ih =>
    intro s h j h1 h2
    unfold firstFrom at h
    by_cases hp : p s = true
    · simp [hp] at h
    · simp [hp] at h
      by_cases hjs : j = s
      · subst hjs; simpa using hp
      · exact ih h j (by omega) (by omega)

end Spec

/-! ### reading positions -/

/-- total accessor: the entry at an in-range position (an entry without a time otherwise). -/
def ent (idx : Index) (i : Int) : Entry := if i < 0 then default else idx.getD i.toNat default

/-- creation time of the entry at position `i`, `none` if unparsable or out of range. -/
def tm (idx : Index) (i : Int) : Option Int := (ent idx i).time?

theorem rd_ok {idx : Index} {i : Int} (h0 : 0 ≤ i) (h1 : i < idx.length) : rd idx i = .ok (ent idx i) := by
  have : i.toNat < idx.length := by omega
  simp [rd, ent, show ¬ i < 0 by omega, List.getD, List.getElem?_eq_getElem this]

theorem ent_natCast (idx : Index) (i : Nat) : ent idx (i : Int) = idx.getD i default := by
  have : ¬ ((i : Int) < 0) := by omega
  simp [ent, this]

theorem tm_none_of_ge {idx : Index} {i : Int} (h : (idx.length : Int) ≤ i) : tm idx i = none := by
  have : idx.length ≤ i.toNat := by omega
  simp [tm, ent, show ¬ i < 0 by omega, List.getD, List.getElem?_eq_none this]
  rfl

theorem tm_none_of_neg {idx : Index} {i : Int} (h : i < 0) : tm idx i = none := by
  simp [tm, ent, h]; rfl

theorem tm_some_range {idx : Index} {i : Int} {t : Int} (h : tm idx i = some t) : 0 ≤ i ∧ i < idx.length := by
  refine ⟨?_, ?_⟩
  · by_cases h0 : i < 0
    · rw [tm_none_of_neg h0] at h; cases h
    · omega
  · by_cases h1 : (idx.length : Int) ≤ i
    · rw [tm_none_of_ge h1] at h; cases h
    · omega

/-! ### the loops -/

theorem forUp_all_cont {α} (idx : Index) (hi : Int) (body : Int → Entry → Step α) :
    ∀ (fuel : Nat) (i : Int), 0 ≤ i → hi < idx.length → i ≤ hi + 1 → span i hi ≤ fuel →
      (∀ j, i ≤ j → j ≤ hi → stepOut j (body j (ent idx j)) = none) →
      forUp idx hi body fuel i = .ok (.exit (hi + 1)) := by
  intro fuel
  induction fuel with
  | zero =>
    intro i h0 hl hi1 hf _
    have : ¬ i ≤ hi := by unfold span at hf; omega
    rw [forUp.eq_1]; simp [this]
    omega
  | succ f ih =>
    intro i h0 hl hi1 hf hc
    rw [forUp.eq_2]
    by_cases hle : i ≤ hi
    · simp only [hle, if_true]
      rw [rd_ok h0 (by omega)]
      simp only [hc i (Int.le_refl _) hle]
      exact ih (i + 1) (by omega) hl (by omega) (by unfold span at hf ⊢; omega)
        (fun j h1 h2 => hc j (by omega) h2)
    · simp [hle]; omega

theorem forUp_first {α} (idx : Index) (hi : Int) (body : Int → Entry → Step α) :
    ∀ (fuel : Nat) (i : Int), 0 ≤ i → hi < idx.length → span i hi ≤ fuel →
      ∀ (j : Int) (r : R (Out α)), i ≤ j → j ≤ hi →
      (∀ j', i ≤ j' → j' < j → stepOut j' (body j' (ent idx j')) = none) →
      stepOut j (body j (ent idx j)) = some r →
      forUp idx hi body fuel i = r := by
  intro fuel
  induction fuel with
  | zero =>
    intro i h0 hl hf j r hij hj _ _
    unfold span at hf; omega
  | succ f ih =>
    intro i h0 hl hf j r hij hj hc hr
    rw [forUp.eq_2]
    have hle : i ≤ hi := by omega
    simp only [hle, if_true]
    rw [rd_ok h0 (by omega)]
    by_cases hji : j = i
    · subst hji; simp only [hr]
    · simp only [hc i (Int.le_refl _) (by omega)]
      exact ih (i + 1) (by omega) hl (by unfold span at hf ⊢; omega) j r (by omega) hj
        (fun j' h1 h2 => hc j' (by omega) h2) hr

theorem forDown_all_cont {α} (idx : Index) (lo : Int) (body : Int → Entry → Step α) :
    ∀ (fuel : Nat) (i : Int), 0 ≤ lo → i < idx.length → lo - 1 ≤ i → span lo i ≤ fuel →
      (∀ j, lo ≤ j → j ≤ i → stepOut j (body j (ent idx j)) = none) →
      forDown idx lo body fuel i = .ok (.exit (lo - 1)) := by
  intro fuel
  induction fuel with
  | zero =>
    intro i h0 hl hi1 hf _
    have : ¬ lo ≤ i := by unfold span at hf; omega
    rw [forDown.eq_1]; simp [this]
    omega
  | succ f ih =>
    intro i h0 hl hi1 hf hc
    rw [forDown.eq_2]
    by_cases hle : lo ≤ i
    · simp only [hle, if_true]
      rw [rd_ok (by omega) hl]
      simp only [hc i hle (Int.le_refl _)]
      exact ih (i - 1) h0 (by omega) (by omega) (by unfold span at hf ⊢; omega)
        (fun j h1 h2 => hc j h1 (by omega))
    · simp [hle]; omega

theorem forDown_first {α} (idx : Index) (lo : Int) (body : Int → Entry → Step α) :
    ∀ (fuel : Nat) (i : Int), 0 ≤ lo → i < idx.length → span lo i ≤ fuel →
      ∀ (j : Int) (r : R (Out α)), lo ≤ j → j ≤ i →
      (∀ j', j < j' → j' ≤ i → stepOut j' (body j' (ent idx j')) = none) →
      stepOut j (body j (ent idx j)) = some r →
      forDown idx lo body fuel i = r := by
  intro fuel
  induction fuel with
  | zero =>
    intro i h0 hl hf j r hij hj _ _
    unfold span at hf; omega
  | succ f ih =>
    intro i h0 hl hf j r hlj hji hc hr
    rw [forDown.eq_2]
    have hle : lo ≤ i := by omega
    simp only [hle, if_true]
    rw [rd_ok (by omega) hl]
    by_cases hji' : j = i
    · subst hji'; simp only [hr]
    · simp only [hc i (by omega) (Int.le_refl _)]
      exact ih (i - 1) h0 (by omega) (by unfold span at hf ⊢; omega) j r hlj (by omega)
        (fun j' h1 h2 => hc j' h1 (by omega)) hr

/-- a bounded range of integers has a least element with a given property, or none. -/
theorem exists_least (P : Int → Prop) (lo hi : Int) :
    (∀ j, lo ≤ j → j ≤ hi → ¬ P j) ∨ (∃ j, lo ≤ j ∧ j ≤ hi ∧ P j ∧ ∀ j', lo ≤ j' → j' < j → ¬ P j') := by
  generalize hn : (hi + 1 - lo).toNat = n
  induction n generalizing lo with
  | zero => left; intro j h1 h2; omega
  | succ n ih =>
    by_cases hp : P lo
    · right; exact ⟨lo, Int.le_refl _, by omega, hp, fun j' h1 h2 => by omega⟩
    · rcases ih (lo + 1) (by omega) with h | ⟨j, h1, h2, h3, h4⟩
      · left; intro j h1 h2
        by_cases hj : j = lo
        · subst hj; exact hp
        · exact h j (by omega) h2
      · right; refine ⟨j, by omega, h2, h3, fun j' h5 h6 => ?_⟩
        by_cases hj : j' = lo
        · subst hj; exact hp
        · exact h4 j' (by omega) h6

theorem exists_greatest (P : Int → Prop) (lo hi : Int) :
    (∀ j, lo ≤ j → j ≤ hi → ¬ P j) ∨ (∃ j, lo ≤ j ∧ j ≤ hi ∧ P j ∧ ∀ j', j < j' → j' ≤ hi → ¬ P j') := by
  rcases exists_least (fun j => P (-j)) (-hi) (-lo) with h | ⟨j, h1, h2, h3, h4⟩
  · left; intro j h1 h2
    have := h (-j) (by omega) (by omega)
    simpa using this
  · right; refine ⟨-j, by omega, by omega, h3, fun j' h5 h6 => ?_⟩
    have := h4 (-j') (by omega) (by omega)
    simpa using this


/-- the entry at position `j` is parsable. -/
def Valid (idx : Index) (j : Int) : Prop := (tm idx j).isSome = true

instance (idx : Index) (j : Int) : Decidable (Valid idx j) := by unfold Valid; infer_instance

theorem valid_iff {idx : Index} {j : Int} : Valid idx j ↔ ∃ t, tm idx j = some t := by
  unfold Valid; cases tm idx j <;> simp

theorem not_valid_iff {idx : Index} {j : Int} : ¬ Valid idx j ↔ tm idx j = none := by
  unfold Valid; cases tm idx j <;> simp

theorem valid_range {idx : Index} {j : Int} (h : Valid idx j) : 0 ≤ j ∧ j < idx.length := by
  obtain ⟨t, ht⟩ := valid_iff.mp h
  exact tm_some_range ht

theorem stepOut_validBody (idx : Index) (j : Int) :
    stepOut j (validBody j (ent idx j)) = if Valid idx j then some (.ok (.val (j, ent idx j))) else none := by
  unfold validBody Valid tm
  by_cases h : (ent idx j).time?.isSome = true <;> simp [h, stepOut]

theorem findValid_up_some (idx : Index) (i st hi j : Int) (h0 : 0 ≤ i) (hl : hi < idx.length)
    (hij : i ≤ j) (hj : j ≤ hi) (hv : Valid idx j) (hmin : ∀ j', i ≤ j' → j' < j → ¬ Valid idx j') :
    findValid idx i false st hi = .ok (j, ent idx j) := by
  have := forUp_first idx hi validBody (span i hi) i h0 hl (Nat.le_refl _) j (.ok (.val (j, ent idx j))) hij hj
    (fun j' h1 h2 => by rw [stepOut_validBody]; simp [hmin j' h1 h2])
    (by rw [stepOut_validBody]; simp [hv])
  simp [findValid, this]

theorem findValid_up_none (idx : Index) (i st hi : Int) (h0 : 0 ≤ i) (hl : hi < idx.length) (hi1 : i ≤ hi + 1)
    (hnone : ∀ j, i ≤ j → j ≤ hi → ¬ Valid idx j) :
    findValid idx i false st hi = .error .notFound := by
  have := forUp_all_cont idx hi validBody (span i hi) i h0 hl hi1 (Nat.le_refl _)
    (fun j h1 h2 => by rw [stepOut_validBody]; simp [hnone j h1 h2])
  simp [findValid, this]

theorem findValid_down_some (idx : Index) (i lo en j : Int) (h0 : 0 ≤ lo) (hl : i < idx.length)
    (hlj : lo ≤ j) (hji : j ≤ i) (hv : Valid idx j) (hmax : ∀ j', j < j' → j' ≤ i → ¬ Valid idx j') :
    findValid idx i true lo en = .ok (j, ent idx j) := by
  have := forDown_first idx lo validBody (span lo i) i h0 hl (Nat.le_refl _) j (.ok (.val (j, ent idx j))) hlj hji
    (fun j' h1 h2 => by rw [stepOut_validBody]; simp [hmax j' h1 h2])
    (by rw [stepOut_validBody]; simp [hv])
  simp [findValid, this]

theorem findValid_down_none (idx : Index) (i lo en : Int) (h0 : 0 ≤ lo) (hl : i < idx.length) (hi1 : lo - 1 ≤ i)
    (hnone : ∀ j, lo ≤ j → j ≤ i → ¬ Valid idx j) :
    findValid idx i true lo en = .error .notFound := by
  have := forDown_all_cont idx lo validBody (span lo i) i h0 hl hi1 (Nat.le_refl _)
    (fun j h1 h2 => by rw [stepOut_validBody]; simp [hnone j h1 h2])
  simp [findValid, this]


/-- position `j` holds the cursor: its time is `ct` and its name matches (`fn = none` matches any name). -/
def Hit (idx : Index) (ct : Int) (fn : Option (List Nat)) (j : Int) : Prop :=
  tm idx j = some ct ∧ keyMatch fn (ent idx j) = true

theorem stepOut_descLinear (idx : Index) (ct : Int) (fn : Option (List Nat)) (j : Int) :
    stepOut j (descLinearBody ct fn j (ent idx j)) =
      match tm idx j with
      | none => none
      | some ft =>
        if ct = ft ∧ keyMatch fn (ent idx j) = true then some (.ok (.val j))
        else if ft < ct then (if fn.isSome then some (.error .notFound) else some (.ok (.exit j)))
        else none := by
  unfold descLinearBody tm
  cases (ent idx j).time? with
  | none => simp [stepOut]
  | some ft =>
    simp only
    split
    · simp [stepOut]
    · split
      · cases fn <;> simp [stepOut]
      · simp [stepOut]

theorem stepOut_ascLinear (idx : Index) (ct : Int) (fn : Option (List Nat)) (j : Int) :
    stepOut j (ascLinearBody ct fn j (ent idx j)) =
      match tm idx j with
      | none => none
      | some ft =>
        if ct = ft ∧ keyMatch fn (ent idx j) = true then some (.ok (.val j))
        else if ft > ct then (if fn.isSome then some (.error .notFound) else some (.ok (.exit j)))
        else none := by
  unfold ascLinearBody tm
  cases (ent idx j).time? with
  | none => simp [stepOut]
  | some ft =>
    simp only
    split
    · simp [stepOut]
    · split
      · cases fn <;> simp [stepOut]
      · simp [stepOut]

/-- what the post-search knows about the file: `[ss, q]` is inside the file, nothing parsable lies below `ss`,
the parsable entries below `T` are in time order, and everything parsable above `q` (below `T`) is newer
than the cursor. -/
structure DescCtx (idx : Index) (T : Int) (ss q ct : Int) : Prop where
  h0 : 0 ≤ ss
  hq : q < T
  hT : T ≤ idx.length
  below : ∀ j, j < ss → tm idx j = none
  above : ∀ j t, q < j → j < T → tm idx j = some t → ct < t
  sorted : ∀ a b ta tb, a < b → b < T → tm idx a = some ta → tm idx b = some tb → ta ≤ tb

theorem descLinear_near_some {idx : Index} {T ss q ct : Int} (c : DescCtx idx T ss q ct) (j t : Int)
    (hjT : j < T) (ht : tm idx j = some t) (hle : t ≤ ct)
    (hmax : ∀ j' t', j < j' → j' < T → tm idx j' = some t' → ct < t') :
    descLinear idx q ss ct none = .ok j := by
  have hss : ss ≤ j := by
    by_cases h : j < ss
    · rw [c.below j h] at ht; cases ht
    · omega
  have hjq : j ≤ q := by
    by_cases h : q < j
    · have := c.above j t h hjT ht; omega
    · omega
  have hcont : ∀ j', j < j' → j' ≤ q → stepOut j' (descLinearBody ct none j' (ent idx j')) = none := by
    intro j' h1 h2
    rw [stepOut_descLinear]
    cases h : tm idx j' with
    | none => rfl
    | some t' =>
      have := hmax j' t' h1 (by have := c.hq; omega) h
      simp only
      rw [if_neg (by omega), if_neg (by omega)]
  have hl : q < idx.length := by have := c.hq; have := c.hT; omega
  by_cases heq : ct = t
  · have := forDown_first idx ss (descLinearBody ct none) (span ss q) q c.h0 hl (Nat.le_refl _) j
      (.ok (.val j)) hss hjq hcont (by rw [stepOut_descLinear, ht]; simp [heq, keyMatch])
    simp [descLinear, this]
  · have := forDown_first idx ss (descLinearBody ct none) (span ss q) q c.h0 hl (Nat.le_refl _) j
      (.ok (.exit j)) hss hjq hcont (by
        rw [stepOut_descLinear, ht]
        simp only
        rw [if_neg (by omega), if_pos (by omega)]; rfl)
    simp [descLinear, this]; omega

theorem descLinear_near_none {idx : Index} {T ss q ct : Int} (c : DescCtx idx T ss q ct) (hsq : ss - 1 ≤ q)
    (hnone : ∀ j t, j < T → tm idx j = some t → ct < t) :
    descLinear idx q ss ct none = .error .notFound := by
  have hl : q < idx.length := by have := c.hq; have := c.hT; omega
  have := forDown_all_cont idx ss (descLinearBody ct none) (span ss q) q c.h0 hl hsq (Nat.le_refl _)
    (fun j h1 h2 => by
      rw [stepOut_descLinear]
      cases h : tm idx j with
      | none => rfl
      | some t =>
        have := hnone j t (by have := c.hq; omega) h
        simp only
        rw [if_neg (by omega), if_neg (by omega)])
  simp [descLinear, this]; omega

theorem descLinear_hit {idx : Index} {T ss q ct : Int} (c : DescCtx idx T ss q ct) (k : List Nat) (j : Int)
    (hjT : j < T) (hh : Hit idx ct (some k) j)
    (hmax : ∀ j', j < j' → j' < T → ¬ Hit idx ct (some k) j') :
    descLinear idx q ss ct (some k) = .ok j := by
  obtain ⟨ht, hk⟩ := hh
  have hss : ss ≤ j := by
    by_cases h : j < ss
    · rw [c.below j h] at ht; cases ht
    · omega
  have hjq : j ≤ q := by
    by_cases h : q < j
    · have := c.above j ct h hjT ht; omega
    · omega
  have hl : q < idx.length := by have := c.hq; have := c.hT; omega
  have := forDown_first idx ss (descLinearBody ct (some k)) (span ss q) q c.h0 hl (Nat.le_refl _) j
    (.ok (.val j)) hss hjq (by
      intro j' h1 h2
      rw [stepOut_descLinear]
      cases h : tm idx j' with
      | none => rfl
      | some t' =>
        have hs := c.sorted j j' ct t' h1 (by have := c.hq; omega) ht h
        have hnh := hmax j' h1 (by have := c.hq; omega)
        simp only
        rw [if_neg (by
          intro ⟨e1, e2⟩
          exact hnh ⟨by rw [h, e1], e2⟩), if_neg (by omega)])
    (by rw [stepOut_descLinear, ht]; simp [hk])
  simp [descLinear, this]

theorem descLinear_nohit {idx : Index} {T ss q ct : Int} (c : DescCtx idx T ss q ct) (k : List Nat)
    (hsq : ss - 1 ≤ q) (hnone : ∀ j, j < T → ¬ Hit idx ct (some k) j) :
    ∃ e, descLinear idx q ss ct (some k) = .error e := by
  have hl : q < idx.length := by have := c.hq; have := c.hT; omega
  rcases exists_greatest (fun j => stepOut j (descLinearBody ct (some k) j (ent idx j)) ≠ none) ss q with h | ⟨j, h1, h2, h3, h4⟩
  · have := forDown_all_cont idx ss (descLinearBody ct (some k)) (span ss q) q c.h0 hl hsq (Nat.le_refl _)
      (fun j h1 h2 => by simpa using h j h1 h2)
    exact ⟨.notFound, by simp [descLinear, this]; omega⟩
  · have hstep : stepOut j (descLinearBody ct (some k) j (ent idx j)) = some (.error .notFound) := by
      rw [stepOut_descLinear] at h3 ⊢
      cases h : tm idx j with
      | none => rw [h] at h3; exact absurd rfl h3
      | some t =>
        rw [h] at h3
        simp only at h3 ⊢
        have hnh := hnone j (by have := c.hq; omega)
        rw [if_neg (by
          intro ⟨e1, e2⟩
          exact hnh ⟨by rw [h, e1], e2⟩)] at h3 ⊢
        by_cases hlt : t < ct
        · rw [if_pos hlt]; rfl
        · rw [if_neg hlt] at h3; exact absurd rfl h3
    have := forDown_first idx ss (descLinearBody ct (some k)) (span ss q) q c.h0 hl (Nat.le_refl _) j
      (.error .notFound) h1 h2 (fun j' h5 h6 => by simpa using h4 j' h5 h6) hstep
    exact ⟨.notFound, by simp [descLinear, this]⟩


/-- mirror image of `DescCtx` for the ascending scan from `q` up to `ee`. -/
structure AscCtx (idx : Index) (T : Int) (q ee ct : Int) : Prop where
  h0 : 0 ≤ q
  hee : ee < T
  hT : T ≤ idx.length
  above : ∀ j, ee < j → j < T → tm idx j = none
  below : ∀ j t, j < q → tm idx j = some t → t < ct
  sorted : ∀ a b ta tb, a < b → b < T → tm idx a = some ta → tm idx b = some tb → ta ≤ tb

theorem ascLinear_near_some {idx : Index} {T q ee ct : Int} (c : AscCtx idx T q ee ct) (j t : Int)
    (hjT : j < T) (ht : tm idx j = some t) (hle : ct ≤ t)
    (hmin : ∀ j' t', j' < j → tm idx j' = some t' → t' < ct) :
    ascLinear idx q ee ct none = .ok j := by
  have hqj : q ≤ j := by
    by_cases h : j < q
    · have := c.below j t h ht; omega
    · omega
  have hje : j ≤ ee := by
    by_cases h : ee < j
    · rw [c.above j h hjT] at ht; cases ht
    · omega
  have hcont : ∀ j', q ≤ j' → j' < j → stepOut j' (ascLinearBody ct none j' (ent idx j')) = none := by
    intro j' h1 h2
    rw [stepOut_ascLinear]
    cases h : tm idx j' with
    | none => rfl
    | some t' =>
      have := hmin j' t' h2 h
      simp only
      rw [if_neg (by omega), if_neg (by omega)]
  have hl : ee < idx.length := by have := c.hee; have := c.hT; omega
  by_cases heq : ct = t
  · have := forUp_first idx ee (ascLinearBody ct none) (span q ee) q c.h0 hl (Nat.le_refl _) j
      (.ok (.val j)) hqj hje hcont (by rw [stepOut_ascLinear, ht]; simp [heq, keyMatch])
    simp [ascLinear, this]
  · have := forUp_first idx ee (ascLinearBody ct none) (span q ee) q c.h0 hl (Nat.le_refl _) j
      (.ok (.exit j)) hqj hje hcont (by
        rw [stepOut_ascLinear, ht]
        simp only
        rw [if_neg (by omega), if_pos (by omega)]; rfl)
    simp [ascLinear, this]; omega

theorem ascLinear_near_none {idx : Index} {T q ee ct : Int} (c : AscCtx idx T q ee ct) (hqe : q ≤ ee + 1)
    (hnone : ∀ j t, j < T → tm idx j = some t → t < ct) :
    ascLinear idx q ee ct none = .error .notFound := by
  have hl : ee < idx.length := by have := c.hee; have := c.hT; omega
  have := forUp_all_cont idx ee (ascLinearBody ct none) (span q ee) q c.h0 hl hqe (Nat.le_refl _)
    (fun j h1 h2 => by
      rw [stepOut_ascLinear]
      cases h : tm idx j with
      | none => rfl
      | some t =>
        have := hnone j t (by have := c.hee; omega) h
        simp only
        rw [if_neg (by omega), if_neg (by omega)])
  simp [ascLinear, this]; omega

theorem ascLinear_hit {idx : Index} {T q ee ct : Int} (c : AscCtx idx T q ee ct) (k : List Nat) (j : Int)
    (hjT : j < T) (hh : Hit idx ct (some k) j)
    (hmin : ∀ j', j' < j → ¬ Hit idx ct (some k) j') :
    ascLinear idx q ee ct (some k) = .ok j := by
  obtain ⟨ht, hk⟩ := hh
  have hqj : q ≤ j := by
    by_cases h : j < q
    · have := c.below j ct h ht; omega
    · omega
  have hje : j ≤ ee := by
    by_cases h : ee < j
    · rw [c.above j h hjT] at ht; cases ht
    · omega
  have hl : ee < idx.length := by have := c.hee; have := c.hT; omega
  have := forUp_first idx ee (ascLinearBody ct (some k)) (span q ee) q c.h0 hl (Nat.le_refl _) j
    (.ok (.val j)) hqj hje (by
      intro j' h1 h2
      rw [stepOut_ascLinear]
      cases h : tm idx j' with
      | none => rfl
      | some t' =>
        have hs := c.sorted j' j t' ct h2 hjT h ht
        have hnh := hmin j' h2
        simp only
        rw [if_neg (by
          intro ⟨e1, e2⟩
          exact hnh ⟨by rw [h, e1], e2⟩), if_neg (by omega)])
    (by rw [stepOut_ascLinear, ht]; simp [hk])
  simp [ascLinear, this]

theorem ascLinear_nohit {idx : Index} {T q ee ct : Int} (c : AscCtx idx T q ee ct) (k : List Nat)
    (hqe : q ≤ ee + 1) (hnone : ∀ j, j < T → ¬ Hit idx ct (some k) j) :
    ∃ e, ascLinear idx q ee ct (some k) = .error e := by
  have hl : ee < idx.length := by have := c.hee; have := c.hT; omega
  rcases exists_least (fun j => stepOut j (ascLinearBody ct (some k) j (ent idx j)) ≠ none) q ee with h | ⟨j, h1, h2, h3, h4⟩
  · have := forUp_all_cont idx ee (ascLinearBody ct (some k)) (span q ee) q c.h0 hl hqe (Nat.le_refl _)
      (fun j h1 h2 => by simpa using h j h1 h2)
    exact ⟨.notFound, by simp [ascLinear, this]; omega⟩
  · have hstep : stepOut j (ascLinearBody ct (some k) j (ent idx j)) = some (.error .notFound) := by
      rw [stepOut_ascLinear] at h3 ⊢
      cases h : tm idx j with
      | none => rw [h] at h3; exact absurd rfl h3
      | some t =>
        rw [h] at h3
        simp only at h3 ⊢
        have hnh := hnone j (by have := c.hee; omega)
        rw [if_neg (by
          intro ⟨e1, e2⟩
          exact hnh ⟨by rw [h, e1], e2⟩)] at h3 ⊢
        by_cases hlt : t > ct
        · rw [if_pos hlt]; rfl
        · rw [if_neg hlt] at h3; exact absurd rfl h3
    have := forUp_first idx ee (ascLinearBody ct (some k)) (span q ee) q c.h0 hl (Nat.le_refl _) j
      (.error .notFound) h1 h2 (fun j' h5 h6 => by simpa using h4 j' h5 h6) hstep
    exact ⟨.notFound, by simp [ascLinear, this]⟩


/-- `[ss, ee]` brackets the parsable entries among the first `T` records. -/
structure Frame (idx : Index) (T : Nat) (ss ee : Int) : Prop where
  h0 : 0 ≤ ss
  hse : ss ≤ ee
  heT : ee < T
  hT : T ≤ idx.length
  below : ∀ j, j < ss → tm idx j = none
  above : ∀ j, ee < j → j < T → tm idx j = none

/-- the parsable entries among the first `T` records are in non-decreasing time order (position form). -/
def SortedT (idx : Index) (T : Nat) : Prop :=
  ∀ a b ta tb, a < b → b < (T : Int) → tm idx a = some ta → tm idx b = some tb → ta ≤ tb

/-- the specification as a 0-based file position. -/
def pos0 (idx : Index) (T : Nat) (ct : Int) (fn : Option (List Nat)) (isDesc : Bool) : R Int :=
  match Spec.position idx T ct fn isDesc with
  | some i => .ok (i : Int)
  | none => .error .notFound

theorem tm_natCast (idx : Index) (i : Nat) : tm idx (i : Int) = (idx[i]?).bind (·.time?) := by
  unfold tm; rw [ent_natCast]
  cases h : idx[i]? <;> simp [List.getD, h]
  rfl

theorem hitAt_iff (idx : Index) (ct : Int) (k : List Nat) (i : Nat) :
    Spec.hitAt idx ct k i = true ↔ Hit idx ct (some k) (i : Int) := by
  unfold Spec.hitAt Hit tm keyMatch
  rw [ent_natCast]
  cases h : idx[i]? with
  | none =>
    simp [List.getD, h]
  | some e => simp [List.getD, h]

theorem leAt_iff (idx : Index) (ct : Int) (i : Nat) :
    Spec.leAt idx ct i = true ↔ ∃ t, tm idx (i : Int) = some t ∧ t ≤ ct := by
  rw [tm_natCast]; unfold Spec.leAt
  cases h : idx[i]? with
  | none => simp
  | some e => cases h2 : e.time? <;> simp [h2]

theorem geAt_iff (idx : Index) (ct : Int) (i : Nat) :
    Spec.geAt idx ct i = true ↔ ∃ t, tm idx (i : Int) = some t ∧ ct ≤ t := by
  rw [tm_natCast]; unfold Spec.geAt
  cases h : idx[i]? with
  | none => simp
  | some e => cases h2 : e.time? <;> simp [h2]

theorem stepOut_descPhase1 (idx : Index) (ct j : Int) :
    stepOut j (descPhase1Body ct j (ent idx j)) =
      match tm idx j with
      | none => none
      | some ft => if ft > ct then some (.ok (.exit j)) else none := by
  unfold descPhase1Body tm
  cases (ent idx j).time? with
  | none => simp [stepOut]
  | some ft => simp only; split <;> simp [stepOut]

theorem stepOut_ascPhase1 (idx : Index) (ct j : Int) :
    stepOut j (ascPhase1Body ct j (ent idx j)) =
      match tm idx j with
      | none => none
      | some ft => if ft < ct then some (.ok (.exit j)) else none := by
  unfold ascPhase1Body tm
  cases (ent idx j).time? with
  | none => simp [stepOut]
  | some ft => simp only; split <;> simp [stepOut]

/-- first phase of the descending post-search: from any `p` in the frame it stops at a `q` above which
everything parsable is newer than the cursor. -/
theorem descPhase1 {idx : Index} {T : Nat} {ss ee : Int} (F : Frame idx T ss ee) (S : SortedT idx T)
    (ct p : Int) (hp1 : ss ≤ p) (hp2 : p ≤ ee) :
    ∃ q1 q, forUp idx ee (descPhase1Body ct) (span p ee) p = .ok (.exit q1) ∧
      (if q1 > ee then ee else q1) = q ∧ p ≤ q ∧ q ≤ ee ∧ DescCtx idx T ss q ct := by
  have hl : ee < idx.length := by have := F.heT; have := F.hT; omega
  have h0 : 0 ≤ p := by have := F.h0; omega
  rcases exists_least (fun j => ∃ t, tm idx j = some t ∧ ct < t) p ee with h | ⟨j, h1, h2, ⟨t, ht, hlt⟩, h4⟩
  · refine ⟨ee + 1, ee, ?_, by rw [if_pos (by omega)], hp2, Int.le_refl _, ?_⟩
    · exact forUp_all_cont idx ee _ _ p h0 hl (by omega) (Nat.le_refl _) (fun j h1 h2 => by
        rw [stepOut_descPhase1]
        cases h' : tm idx j with
        | none => rfl
        | some t =>
          simp only
          rw [if_neg (by intro hgt; exact h j h1 h2 ⟨t, h', hgt⟩)])
    · exact ⟨F.h0, F.heT, by exact_mod_cast F.hT, F.below,
        (fun j t h1 h2 h3 => by rw [F.above j h1 h2] at h3; cases h3), S⟩
  · refine ⟨j, j, ?_, by simp; omega, h1, h2, ?_⟩
    · exact forUp_first idx ee _ _ p h0 hl (Nat.le_refl _) j _ h1 h2 (fun j' h5 h6 => by
        rw [stepOut_descPhase1]
        cases h' : tm idx j' with
        | none => rfl
        | some t' =>
          simp only
          rw [if_neg (by intro hgt; exact h4 j' h5 h6 ⟨t', h', hgt⟩)])
        (by rw [stepOut_descPhase1, ht]; simp [hlt])
    · exact ⟨F.h0, by have := F.heT; omega, by exact_mod_cast F.hT, F.below,
        (fun j' t' h5 h6 h7 => by have := S j j' t t' h5 h6 ht h7; omega), S⟩

theorem ascPhase1 {idx : Index} {T : Nat} {ss ee : Int} (F : Frame idx T ss ee) (S : SortedT idx T)
    (ct p : Int) (hp1 : ss ≤ p) (hp2 : p ≤ ee) :
    ∃ q1 q, forDown idx ss (ascPhase1Body ct) (span ss p) p = .ok (.exit q1) ∧
      (if q1 < ss then ss else q1) = q ∧ ss ≤ q ∧ q ≤ p ∧ AscCtx idx T q ee ct := by
  have hl : p < idx.length := by have := F.heT; have := F.hT; omega
  rcases exists_greatest (fun j => ∃ t, tm idx j = some t ∧ t < ct) ss p with h | ⟨j, h1, h2, ⟨t, ht, hlt⟩, h4⟩
  · refine ⟨ss - 1, ss, ?_, by rw [if_pos (by omega)], Int.le_refl _, hp1, ?_⟩
    · exact forDown_all_cont idx ss _ _ p F.h0 hl (by omega) (Nat.le_refl _) (fun j h1 h2 => by
        rw [stepOut_ascPhase1]
        cases h' : tm idx j with
        | none => rfl
        | some t =>
          simp only
          rw [if_neg (by intro hgt; exact h j h1 h2 ⟨t, h', hgt⟩)])
    · exact ⟨F.h0, F.heT, by exact_mod_cast F.hT, F.above,
        (fun j t h1 h3 => by rw [F.below j h1] at h3; cases h3), S⟩
  · refine ⟨j, j, ?_, by simp; omega, h1, h2, ?_⟩
    · exact forDown_first idx ss _ _ p F.h0 hl (Nat.le_refl _) j _ h1 h2 (fun j' h5 h6 => by
        rw [stepOut_ascPhase1]
        cases h' : tm idx j' with
        | none => rfl
        | some t' =>
          simp only
          rw [if_neg (by intro hgt; exact h4 j' h5 h6 ⟨t', h', hgt⟩)])
        (by rw [stepOut_ascPhase1, ht]; simp [hlt])
    · exact ⟨by have := F.h0; omega, F.heT, by exact_mod_cast F.hT, F.above,
        (fun j' t' h5 h7 => by
          have := S j' j t' t h5 (by have := F.heT; omega) h7 ht; omega), S⟩


theorem descLinear_near {idx : Index} {T : Nat} {ss q ct : Int} (C : DescCtx idx T ss q ct) (hsq : ss - 1 ≤ q) :
    descLinear idx q ss ct none =
      match Spec.lastBelow (Spec.leAt idx ct) T with
      | some i => .ok (i : Int)
      | none => .error .notFound := by
  cases h : Spec.lastBelow (Spec.leAt idx ct) T with
  | some i =>
    obtain ⟨h1, h2, h3⟩ := Spec.lastBelow_some h
    obtain ⟨t, ht, hle⟩ := (leAt_iff idx ct i).mp h2
    exact descLinear_near_some C i t (by omega) ht hle (fun j' t' h5 h6 h7 => by
      have hj0 : 0 ≤ j' := by omega
      have := h3 j'.toNat (by omega) (by omega)
      have hn : ¬ Spec.leAt idx ct j'.toNat = true := by simp [this]
      rw [leAt_iff, Int.toNat_of_nonneg hj0] at hn
      by_cases hc : ct < t'
      · exact hc
      · exact absurd ⟨t', h7, by omega⟩ hn)
  | none =>
    have h3 := Spec.lastBelow_none h
    exact descLinear_near_none C hsq (fun j t h1 h2 => by
      have hj0 : 0 ≤ j := (tm_some_range h2).1
      have := h3 j.toNat (by omega)
      have hn : ¬ Spec.leAt idx ct j.toNat = true := by simp [this]
      rw [leAt_iff, Int.toNat_of_nonneg hj0] at hn
      by_cases hc : ct < t
      · exact hc
      · exact absurd ⟨t, h2, by omega⟩ hn)

theorem ascLinear_near {idx : Index} {T : Nat} {q ee ct : Int} (C : AscCtx idx T q ee ct) (hqe : q ≤ ee + 1) :
    ascLinear idx q ee ct none =
      match Spec.firstFrom (Spec.geAt idx ct) T 0 with
      | some i => .ok (i : Int)
      | none => .error .notFound := by
  cases h : Spec.firstFrom (Spec.geAt idx ct) T 0 with
  | some i =>
    obtain ⟨_, h1, h2, h3⟩ := Spec.firstFrom_some h
    obtain ⟨t, ht, hle⟩ := (geAt_iff idx ct i).mp h2
    exact ascLinear_near_some C i t (by omega) ht hle (fun j' t' h5 h7 => by
      have hj0 : 0 ≤ j' := (tm_some_range h7).1
      have := h3 j'.toNat (by omega) (by omega)
      have hn : ¬ Spec.geAt idx ct j'.toNat = true := by simp [this]
      rw [geAt_iff, Int.toNat_of_nonneg hj0] at hn
      by_cases hc : t' < ct
      · exact hc
      · exact absurd ⟨t', h7, by omega⟩ hn)
  | none =>
    have h3 := Spec.firstFrom_none h
    exact ascLinear_near_none C hqe (fun j t h1 h2 => by
      have hj0 : 0 ≤ j := (tm_some_range h2).1
      have := h3 j.toNat (by omega) (by omega)
      have hn : ¬ Spec.geAt idx ct j.toNat = true := by simp [this]
      rw [geAt_iff, Int.toNat_of_nonneg hj0] at hn
      by_cases hc : t < ct
      · exact hc
      · exact absurd ⟨t, h2, by omega⟩ hn)

theorem not_hit_of_hitAt_false {idx : Index} {ct : Int} {k : List Nat} {j : Int} (hj0 : 0 ≤ j)
    (h : Spec.hitAt idx ct k j.toNat = false) : ¬ Hit idx ct (some k) j := by
  have hn : ¬ Spec.hitAt idx ct k j.toNat = true := by simp [h]
  rwa [hitAt_iff, Int.toNat_of_nonneg hj0] at hn

theorem hit_range {idx : Index} {ct : Int} {fn : Option (List Nat)} {j : Int} (h : Hit idx ct fn j) :
    0 ≤ j ∧ j < idx.length := tm_some_range h.1

/-- from ANY landing position inside the frame the descending post-search returns the linear-scan answer. -/
theorem postSearchDesc_spec {idx : Index} {T : Nat} {ss ee : Int} (F : Frame idx T ss ee) (S : SortedT idx T)
    (ct p : Int) (fn : Option (List Nat)) (hp1 : ss ≤ p) (hp2 : p ≤ ee) :
    postSearchDesc idx p ss ee ct fn = pos0 idx T ct fn true := by
  obtain ⟨q1, q, hfor, hq, hpq, hqe, C⟩ := descPhase1 F S ct p hp1 hp2
  have hsq : ss - 1 ≤ q := by omega
  have hnear := descLinear_near C hsq
  unfold postSearchDesc
  rw [hfor]
  simp only [hq]
  cases fn with
  | none =>
    unfold pos0 Spec.position
    simp only
    rw [hnear]
    try (cases Spec.lastBelow (Spec.leAt idx ct) T <;> rfl)
  | some k =>
    unfold pos0 Spec.position
    simp only
    cases hE : Spec.lastBelow (Spec.hitAt idx ct k) T with
    | some i =>
      obtain ⟨h1, h2, h3⟩ := Spec.lastBelow_some hE
      have := descLinear_hit C k i (by omega) ((hitAt_iff idx ct k i).mp h2) (fun j' h5 h6 =>
        not_hit_of_hitAt_false (by omega) (h3 j'.toNat (by omega) (by omega)))
      simp [this]
    | none =>
      have h3 := Spec.lastBelow_none hE
      obtain ⟨e, he⟩ := descLinear_nohit C k hsq (fun j h1 hh =>
        not_hit_of_hitAt_false (hit_range hh).1 (h3 j.toNat (by have := (hit_range hh).1; omega)) hh)
      rw [he]
      simp only []
      rw [hnear]
      try (cases Spec.lastBelow (Spec.leAt idx ct) T <;> rfl)

theorem postSearchAsc_spec {idx : Index} {T : Nat} {ss ee : Int} (F : Frame idx T ss ee) (S : SortedT idx T)
    (ct p : Int) (fn : Option (List Nat)) (hp1 : ss ≤ p) (hp2 : p ≤ ee) :
    postSearchAsc idx p ss ee ct fn = pos0 idx T ct fn false := by
  obtain ⟨q1, q, hfor, hq, hsq, hqp, C⟩ := ascPhase1 F S ct p hp1 hp2
  have hqe : q ≤ ee + 1 := by omega
  have hnear := ascLinear_near C hqe
  unfold postSearchAsc
  rw [hfor]
  simp only [hq]
  cases fn with
  | none =>
    unfold pos0 Spec.position
    simp only
    rw [hnear]
    try (cases Spec.firstFrom (Spec.geAt idx ct) T 0 <;> rfl)
  | some k =>
    unfold pos0 Spec.position
    simp only
    cases hE : Spec.firstFrom (Spec.hitAt idx ct k) T 0 with
    | some i =>
      obtain ⟨_, h1, h2, h3⟩ := Spec.firstFrom_some hE
      have := ascLinear_hit C k i (by omega) ((hitAt_iff idx ct k i).mp h2) (fun j' h5 hh =>
        not_hit_of_hitAt_false (hit_range hh).1
          (h3 j'.toNat (by omega) (by have := (hit_range hh).1; omega)) hh)
      simp [this]
    | none =>
      have h3 := Spec.firstFrom_none hE
      obtain ⟨e, he⟩ := ascLinear_nohit C k hqe (fun j h1 hh =>
        not_hit_of_hitAt_false (hit_range hh).1
          (h3 j.toNat (by omega) (by have := (hit_range hh).1; omega)) hh)
      rw [he]
      simp only []
      rw [hnear]
      try (cases Spec.firstFrom (Spec.geAt idx ct) T 0 <;> rfl)


/-- loop invariant of the bisection: `start ≤ end`, both inside the file, both parsable. -/
def BInv (idx : Index) (s e : Int) : Prop :=
  0 ≤ s ∧ s ≤ e ∧ e < idx.length ∧ Valid idx s ∧ Valid idx e

/-- what one iteration guarantees. -/
def BPost (idx : Index) (s e : Int) : BinNext → Prop
  | .done i h => s ≤ i ∧ i ≤ e ∧ h = ent idx i ∧ Valid idx i
  | .next s' e' => BInv idx s' e' ∧ s ≤ s' ∧ e' ≤ e ∧ e' - s' < e - s

theorem binDecide_post {idx : Index} {s e : Int} (B : BInv idx s e) (ct i ft : Int)
    (h1 : s ≤ i) (h2 : i ≤ e) (h3 : s ≠ e → i < e) (hv : Valid idx i) :
    BPost idx s e (binDecide ct i (ent idx i) ft s e) := by
  obtain ⟨b0, b1, b2, b3, b4⟩ := B
  unfold binDecide
  simp only
  split
  · exact ⟨h1, h2, rfl, hv⟩
  · split
    · exact ⟨h1, h2, rfl, hv⟩
    · rename_i hne
      have hne' : s ≠ e := fun h => hne h.symm
      have := h3 hne'
      split
      · exact ⟨⟨by omega, Int.le_refl _, b2, b4, b4⟩, by omega, Int.le_refl _, by omega⟩
      · split
        · exact ⟨⟨by omega, by omega, b2, hv, b4⟩, h1, Int.le_refl _, by omega⟩
        · exact ⟨⟨b0, h1, by omega, b3, hv⟩, Int.le_refl _, h2, by omega⟩

theorem binStep_post {idx : Index} {s e : Int} (B : BInv idx s e) (ct : Int) :
    ∃ out, binStep idx ct s e = .ok out ∧ BPost idx s e out := by
  have B' := B
  obtain ⟨b0, b1, b2, b3, b4⟩ := B
  have hdiv : Int.tdiv (s + e) 2 = (s + e) / 2 := Int.tdiv_eq_ediv_of_nonneg (by omega)
  have hi1 : s ≤ (s + e) / 2 := by omega
  have hi2 : (s + e) / 2 ≤ e := by omega
  have hi3 : s ≠ e → (s + e) / 2 < e := by intro; omega
  unfold binStep
  simp only [hdiv]
  rw [rd_ok (by omega) (by omega)]
  simp only
  cases hmid : (ent idx ((s + e) / 2)).time? with
  | some ft =>
    simp only
    exact ⟨_, rfl, binDecide_post B' ct _ ft hi1 hi2 hi3 (by unfold Valid tm; rw [hmid]; rfl)⟩
  | none =>
    simp only
    have hinv : ¬ Valid idx ((s + e) / 2) := by unfold Valid tm; rw [hmid]; simp
    have hse : s ≠ e := by
      intro h; subst h
      have : (s + s) / 2 = s := by omega
      rw [this] at hinv; exact hinv b3
    have hms : (s + e) / 2 ≠ s := by intro h; rw [h] at hinv; exact hinv b3
    have hme : (s + e) / 2 ≠ e := by intro h; rw [h] at hinv; exact hinv b4
    rw [if_neg hse]
    unfold validIdxInStore
    rw [if_neg hms, if_neg hme]
    -- upward search from the midpoint: the end is parsable, so there is a least parsable position
    rcases exists_least (Valid idx) ((s + e) / 2) e with hn | ⟨j, j1, j2, j3, j4⟩
    · exact absurd b4 (hn e hi2 (Int.le_refl _))
    · rw [findValid_up_some idx _ s e j (by omega) b2 j1 j2 j3 j4]
      simp only
      have hjm : j ≠ (s + e) / 2 := by intro h; rw [h] at j3; exact hinv j3
      obtain ⟨tj, htj⟩ := valid_iff.mp j3
      by_cases hje : j = e
      · rw [if_pos hje]
        rcases exists_greatest (Valid idx) s ((s + e) / 2) with hn | ⟨j', k1, k2, k3, k4⟩
        · exact absurd b3 (hn s (Int.le_refl _) hi1)
        · rw [findValid_down_some idx _ s e j' b0 (by omega) k1 k2 k3 k4]
          simp only
          have hjm' : j' ≠ (s + e) / 2 := by intro h; rw [h] at k3; exact hinv k3
          exact ⟨_, rfl, binDecide_post B' ct j' _ k1 (by omega) (by intro; omega) k3⟩
      · rw [if_neg hje]
        exact ⟨_, rfl, binDecide_post B' ct j _ (by omega) j2 (by intro; omega) j3⟩

/-- the bisection terminates within `(end - start) + 1` iterations and lands on a parsable position inside
`[start, end]`, returning that position's header. -/
theorem binSearch_lands {idx : Index} (ct : Int) :
    ∀ (fuel : Nat) (s e : Int), BInv idx s e → (e - s).toNat + 1 ≤ fuel →
      ∃ i, binSearch idx ct fuel s e = .ok (i, ent idx i) ∧ s ≤ i ∧ i ≤ e ∧ Valid idx i := by
  intro fuel
  induction fuel with
  | zero => intro s e _ h; omega
  | succ f ih =>
    intro s e B hf
    obtain ⟨out, hout, hpost⟩ := binStep_post B ct
    rw [binSearch, hout]
    cases out with
    | done i h =>
      obtain ⟨h1, h2, h3, h4⟩ := hpost
      exact ⟨i, by simp [h3], h1, h2, h4⟩
    | next s' e' =>
      obtain ⟨B2, h1, h2, h3⟩ := hpost
      simp only
      have hs := B2.2.1
      obtain ⟨i, hi, hi1, hi2, hi3⟩ := ih s' e' B2 (by omega)
      exact ⟨i, hi, by omega, by omega, hi3⟩


theorem Spec.lastBelow_eq_none {p : Nat → Bool} : ∀ {n : Nat}, (∀ j, j < n → p j = false) → Spec.lastBelow p n = none := by
  intro n
  induction n with
  | zero => intro _; rfl
  | succ n ih =>
    intro h
    unfold Spec.lastBelow
    rw [h n (by omega)]
    simp only [Bool.false_eq_true, if_false]
    exact ih (fun j hj => h j (by omega))

theorem Spec.firstFrom_eq_none {p : Nat → Bool} : ∀ {n s : Nat}, (∀ j, s ≤ j → j < s + n → p j = false) →
    Spec.firstFrom p n s = none := by
  intro n
  induction n with
  | zero => intro _ _; rfl
  | succ n ih =>
    intro s h
    unfold Spec.firstFrom
    rw [h s (by omega) (by omega)]
    simp only [Bool.false_eq_true, if_false]
    exact ih (fun j h1 h2 => h j (by omega) (by omega))

/-- no two parsable entries among the first `T` share creation time and name key. -/
def UniqueKeysT (idx : Index) (T : Nat) : Prop :=
  ∀ a b t, a < (T : Int) → b < (T : Int) → tm idx a = some t → tm idx b = some t →
    (ent idx a).key = (ent idx b).key → a = b

/-- when no record among the first `T` is parsable the scan finds nothing. -/
theorem Spec.position_none_of_invalid {idx : Index} {T : Nat} (h : ∀ j : Int, j < T → tm idx j = none)
    (ct : Int) (fn : Option (List Nat)) (isDesc : Bool) : Spec.position idx T ct fn isDesc = none := by
  have hh : ∀ k (j : Nat), j < T → Spec.hitAt idx ct k j = false := by
    intro k j hj
    cases hc : Spec.hitAt idx ct k j with
    | false => rfl
    | true =>
      have := ((hitAt_iff idx ct k j).mp hc).1
      rw [h j (by omega)] at this; cases this
  have hl : ∀ (j : Nat), j < T → Spec.leAt idx ct j = false := by
    intro j hj
    cases hc : Spec.leAt idx ct j with
    | false => rfl
    | true =>
      obtain ⟨t, ht, _⟩ := (leAt_iff idx ct j).mp hc
      rw [h j (by omega)] at ht; cases ht
  have hg : ∀ (j : Nat), j < T → Spec.geAt idx ct j = false := by
    intro j hj
    cases hc : Spec.geAt idx ct j with
    | false => rfl
    | true =>
      obtain ⟨t, ht, _⟩ := (geAt_iff idx ct j).mp hc
      rw [h j (by omega)] at ht; cases ht
  have f1 : Spec.firstFrom (Spec.geAt idx ct) T 0 = none :=
    Spec.firstFrom_eq_none (fun j _ h2 => hg j (by omega))
  have f2 : ∀ k, Spec.firstFrom (Spec.hitAt idx ct k) T 0 = none := fun k =>
    Spec.firstFrom_eq_none (fun j _ h2 => hh k j (by omega))
  have l1 : Spec.lastBelow (Spec.leAt idx ct) T = none := Spec.lastBelow_eq_none hl
  have l2 : ∀ k, Spec.lastBelow (Spec.hitAt idx ct k) T = none := fun k => Spec.lastBelow_eq_none (hh k)
  unfold Spec.position
  cases fn with
  | none => cases isDesc <;> simp [f1, l1]
  | some k => cases isDesc <;> simp [f1, f2, l1, l2]

/-- under `UniqueKeysT`, a position holding the cursor is the one the scan reports. -/
theorem Spec.position_of_hit {idx : Index} {T : Nat} (U : UniqueKeysT idx T) {ct : Int} {k : List Nat} {i : Int}
    (hiT : i < T) (hh : Hit idx ct (some k) i) (isDesc : Bool) :
    Spec.position idx T ct (some k) isDesc = some i.toNat := by
  have hi0 := (hit_range hh).1
  have hhit : Spec.hitAt idx ct k i.toNat = true := by
    rw [hitAt_iff, Int.toNat_of_nonneg hi0]; exact hh
  have huniq : ∀ j : Nat, j < T → Spec.hitAt idx ct k j = true → j = i.toNat := by
    intro j hj hc
    have hj' := (hitAt_iff idx ct k j).mp hc
    have hk1 : k = (ent idx (j : Int)).key := by
      have := hj'.2; simpa [keyMatch] using this
    have hk2 : k = (ent idx i).key := by
      have := hh.2; simpa [keyMatch] using this
    have := U j i ct (by omega) hiT hj'.1 hh.1 (by rw [← hk1, ← hk2])
    omega
  unfold Spec.position
  cases isDesc
  · simp only [Bool.false_eq_true, if_false]
    cases hE : Spec.firstFrom (Spec.hitAt idx ct k) T 0 with
    | none =>
      have := Spec.firstFrom_none hE i.toNat (by omega) (by omega)
      rw [this] at hhit; cases hhit
    | some j =>
      obtain ⟨_, h1, h2, _⟩ := Spec.firstFrom_some hE
      simp only
      rw [huniq j (by omega) h2]
  · simp only [if_true]
    cases hE : Spec.lastBelow (Spec.hitAt idx ct k) T with
    | none =>
      have := Spec.lastBelow_none hE i.toNat (by omega)
      rw [this] at hhit; cases hhit
    | some j =>
      obtain ⟨h1, h2, _⟩ := Spec.lastBelow_some hE
      simp only
      rw [huniq j h1 h2]

/-- FindRecordStartIdx with a cached total `T` not larger than the file equals the linear scan over the
first `T` records. -/
theorem find_spec {idx : Index} {T : Nat} (hT : T ≤ idx.length) (S : SortedT idx T) (U : UniqueKeysT idx T)
    (ct : Int) (fn : Option (List Nat)) (isDesc : Bool) :
    findRecordStartIdx idx T ct fn isDesc = Spec.find idx T ct fn isDesc := by
  unfold findRecordStartIdx
  simp only
  have hTl : ((T : Int) - 1) < idx.length := by omega
  rcases exists_least (Valid idx) 0 ((T : Int) - 1) with hn | ⟨ss, s1, s2, s3, s4⟩
  · rw [findValid_up_none idx 0 0 _ (Int.le_refl _) hTl (by omega) hn]
    simp only
    unfold Spec.find
    rw [Spec.position_none_of_invalid (fun j hj => by
      by_cases h0 : j < 0
      · exact tm_none_of_neg h0
      · exact not_valid_iff.mp (hn j (by omega) (by omega)))]
  · rw [findValid_up_some idx 0 0 _ ss (Int.le_refl _) hTl s1 s2 s3 s4]
    simp only
    rcases exists_greatest (Valid idx) ss ((T : Int) - 1) with hn | ⟨ee, e1, e2, e3, e4⟩
    · exact absurd s3 (hn ss (Int.le_refl _) s2)
    · rw [findValid_down_some idx _ ss _ ee s1 hTl e1 e2 e3 e4]
      simp only
      have F : Frame idx T ss ee := ⟨s1, e1, by omega, hT,
        fun j hj => by
          by_cases h0 : j < 0
          · exact tm_none_of_neg h0
          · exact not_valid_iff.mp (s4 j (by omega) hj),
        fun j h1 h2 => not_valid_iff.mp (e4 j h1 (by omega))⟩
      obtain ⟨i, hbin, i1, i2, i3⟩ := binSearch_lands (idx := idx) ct (binFuel ss ee) ss ee
        ⟨s1, e1, by omega, s3, e3⟩ (by unfold binFuel; omega)
      rw [hbin]
      simp only
      obtain ⟨ft, hft⟩ := valid_iff.mp i3
      have hft' : (ent idx i).time? = some ft := hft
      rw [hft']
      simp only
      by_cases hearly : ct = ft ∧ fn.isSome = true ∧ keyMatch fn (ent idx i) = true
      · rw [if_pos hearly]
        obtain ⟨h1, h2, h3⟩ := hearly
        cases fn with
        | none => simp at h2
        | some k =>
          unfold Spec.find
          rw [Spec.position_of_hit U (by omega) ⟨by rw [hft, h1], h3⟩ isDesc]
          simp only
          rw [Int.toNat_of_nonneg (by omega)]
      · rw [if_neg hearly]
        cases isDesc
        · simp only [Bool.false_eq_true, if_false]
          rw [postSearchAsc_spec F S ct i fn i1 i2]
          unfold pos0 Spec.find
          cases Spec.position idx T ct fn false <;> rfl
        · simp only [if_true]
          rw [postSearchDesc_spec F S ct i fn i1 i2]
          unfold pos0 Spec.find
          cases Spec.position idx T ct fn true <;> rfl


/-! ### GetRecords -/

/-- `[s, s+1, …]`, `r` positions. -/
def upFrom : Int → Nat → List Int
  | _, 0 => []
  | s, r + 1 => s :: upFrom (s + 1) r

/-- `[s, s-1, …]`, `r` positions. -/
def downFrom : Int → Nat → List Int
  | _, 0 => []
  | s, r + 1 => s :: downFrom (s - 1) r

/-- a 1-based position together with the record stored there. -/
def withEntry (idx : Index) (p : Int) : Int × Entry := (p, ent idx (p - 1))

theorem getRecordsLoop_asc (idx : Index) : ∀ (n : Nat) (s : Int), 1 ≤ s →
    getRecordsLoop idx false n s = (upFrom s (min n (idx.length + 1 - s).toNat)).map (withEntry idx) := by
  intro n
  induction n with
  | zero => intro s _; simp [getRecordsLoop, upFrom]
  | succ n ih =>
    intro s hs
    unfold getRecordsLoop
    by_cases hgt : s > idx.length
    · have : min (n + 1) ((idx.length : Int) + 1 - s).toNat = 0 := by omega
      rw [this]; simp [hgt, upFrom]
    · rw [if_neg (by omega), rd_ok (by omega) (by omega)]
      have : min (n + 1) ((idx.length : Int) + 1 - s).toNat = min n ((idx.length : Int) + 1 - (s + 1)).toNat + 1 := by omega
      rw [this]
      simp only [Bool.false_eq_true, if_false, upFrom, List.map_cons, withEntry]
      rw [ih (s + 1) (by omega)]

theorem getRecordsLoop_desc (idx : Index) : ∀ (n : Nat) (s : Int), 0 ≤ s → s ≤ idx.length →
    getRecordsLoop idx true n s = (downFrom s (min n s.toNat)).map (withEntry idx) := by
  intro n
  induction n with
  | zero => intro s _ _; simp [getRecordsLoop, downFrom]
  | succ n ih =>
    intro s hs hl
    unfold getRecordsLoop
    by_cases h0 : s = 0
    · subst h0; simp [downFrom]
    · rw [if_neg (by omega), rd_ok (by omega) (by omega)]
      have : min (n + 1) s.toNat = min n (s - 1).toNat + 1 := by omega
      rw [this]
      simp only [if_true, downFrom, List.map_cons, withEntry]
      rw [ih (s - 1) (by omega) (by omega)]

theorem getRecordsLoop_beyond (idx : Index) (isDesc : Bool) (n : Nat) (s : Int) (h : s > idx.length) :
    getRecordsLoop idx isDesc n s = [] := by
  cases n with
  | zero => rfl
  | succ n => unfold getRecordsLoop; simp [h]

/-- the window of positions GetRecords lists. -/
def Spec.window (len : Nat) (start : Int) (n : Nat) (isDesc : Bool) : List Int :=
  if start > len then []
  else if isDesc then downFrom start (min n start.toNat)
  else upFrom start (min n (len + 1 - start).toNat)

theorem getRecords_spec (idx : Index) (start n : Int) (isDesc : Bool) (hs : 1 ≤ start) (hn : 0 ≤ n) :
    getRecords idx start n isDesc = .ok ((Spec.window idx.length start n.toNat isDesc).map (withEntry idx)) := by
  unfold getRecords Spec.window
  rw [if_neg (by omega), if_neg (by omega)]
  by_cases hgt : start > idx.length
  · rw [getRecordsLoop_beyond idx isDesc _ _ hgt, if_pos hgt]; rfl
  · rw [if_neg hgt]
    cases isDesc
    · simp only [Bool.false_eq_true, if_false]; rw [getRecordsLoop_asc idx _ _ hs]
    · simp only [if_true]; rw [getRecordsLoop_desc idx _ _ (by omega) (by omega)]

theorem upFrom_length : ∀ (r : Nat) (s : Int), (upFrom s r).length = r := by
  intro r; induction r with
  | zero => intro s; rfl
  | succ r ih => intro s; simp [upFrom, ih]

theorem downFrom_length : ∀ (r : Nat) (s : Int), (downFrom s r).length = r := by
  intro r; induction r with
  | zero => intro s; rfl
  | succ r ih => intro s; simp [downFrom, ih]

theorem upFrom_add : ∀ (a b : Nat) (s : Int), upFrom s (a + b) = upFrom s a ++ upFrom (s + a) b := by
  intro a; induction a with
  | zero => intro b s; simp [upFrom]
  | succ a ih =>
    intro b s
    have : a + 1 + b = (a + b) + 1 := by omega
    rw [this]; simp only [upFrom, List.cons_append]
    rw [ih b (s + 1)]
    have : s + 1 + (a : Int) = s + ((a + 1 : Nat) : Int) := by omega
    rw [this]

theorem downFrom_add : ∀ (a b : Nat) (s : Int), downFrom s (a + b) = downFrom s a ++ downFrom (s - a) b := by
  intro a; induction a with
  | zero => intro b s; simp [downFrom]
  | succ a ih =>
    intro b s
    have : a + 1 + b = (a + b) + 1 := by omega
    rw [this]; simp only [downFrom, List.cons_append]
    rw [ih b (s - 1)]
    have : s - 1 - (a : Int) = s - ((a + 1 : Nat) : Int) := by omega
    rw [this]


/-- the pages a client sees when `l` is listed `n` at a time (`fuel` ≥ number of pages). -/
def pagesOf (n : Nat) : Nat → List Int → List (List Int)
  | 0, l => [l]
  | f + 1, l => if l.length ≤ n then [l] else l.take n :: pagesOf n f (l.drop n)

theorem pagesOf_flatten (n : Nat) : ∀ (f : Nat) (l : List Int), (pagesOf n f l).flatten = l := by
  intro f; induction f with
  | zero => intro l; simp [pagesOf]
  | succ f ih =>
    intro l; unfold pagesOf
    by_cases h : l.length ≤ n
    · simp [h]
    · simp [h, ih]

theorem pttLoadWith_more {ε} (records : Int → Int → Bool → R (List (Int × ε))) (total start : Int) (n : Nat)
    (isDesc : Bool) (a : List (Int × ε)) (x : Int × ε) (ht : total ≠ 0) (hst : ¬ (start = 0 ∧ isDesc = true))
    (hr : records start ((n : Int) + 1) isDesc = .ok (a ++ [x])) (ha : a.length = n) :
    pttLoadWith records total start n isDesc =
      .ok ⟨a, if isDesc then decide (start = total) else false, some x, start⟩ := by
  unfold pttLoadWith
  rw [if_neg ht]
  simp only [if_neg hst]
  rw [hr]
  subst ha
  cases isDesc <;> simp

theorem pttLoadWith_last {ε} (records : Int → Int → Bool → R (List (Int × ε))) (total start : Int) (n : Nat)
    (isDesc : Bool) (l : List (Int × ε)) (ht : total ≠ 0) (hst : ¬ (start = 0 ∧ isDesc = true))
    (hr : records start ((n : Int) + 1) isDesc = .ok l) (hl : l.length ≠ n + 1) :
    pttLoadWith records total start n isDesc =
      .ok ⟨l, if isDesc then decide (start = total) else true, none, start⟩ := by
  unfold pttLoadWith
  rw [if_neg ht]
  simp only [if_neg hst]
  rw [hr]
  cases isDesc <;> simp [hl]

theorem getRecords_asc_more (idx : Index) (n : Nat) (s : Int) (hs : 1 ≤ s) (hlen : s + n ≤ idx.length) :
    getRecords idx s ((n : Int) + 1) false = .ok ((upFrom s n).map (withEntry idx) ++ [withEntry idx (s + n)]) := by
  rw [getRecords_spec idx s _ false hs (by omega)]
  unfold Spec.window
  rw [if_neg (by omega)]
  have hmin : min ((n : Int) + 1).toNat ((idx.length : Int) + 1 - s).toNat = n + 1 := by omega
  simp only [Bool.false_eq_true, if_false, hmin]
  rw [upFrom_add n 1 s]
  simp [upFrom]

theorem getRecords_asc_last (idx : Index) (n : Nat) (s : Int) (hs : 1 ≤ s) (hsl : s ≤ idx.length)
    (h : (idx.length : Int) < s + n) :
    getRecords idx s ((n : Int) + 1) false = .ok ((upFrom s ((idx.length : Int) + 1 - s).toNat).map (withEntry idx)) := by
  rw [getRecords_spec idx s _ false hs (by omega)]
  unfold Spec.window
  rw [if_neg (by omega)]
  have hmin : min ((n : Int) + 1).toNat ((idx.length : Int) + 1 - s).toNat = ((idx.length : Int) + 1 - s).toNat := by omega
  simp only [Bool.false_eq_true, if_false, hmin]

theorem getRecords_desc_more (idx : Index) (n : Nat) (s : Int) (hs : (n : Int) + 1 ≤ s) (hsl : s ≤ idx.length) :
    getRecords idx s ((n : Int) + 1) true = .ok ((downFrom s n).map (withEntry idx) ++ [withEntry idx (s - n)]) := by
  rw [getRecords_spec idx s _ true (by omega) (by omega)]
  unfold Spec.window
  rw [if_neg (by omega)]
  have hmin : min ((n : Int) + 1).toNat s.toNat = n + 1 := by omega
  simp only [if_true, hmin]
  rw [downFrom_add n 1 s]
  simp [downFrom]

theorem getRecords_desc_last (idx : Index) (n : Nat) (s : Int) (hs : 1 ≤ s) (hsl : s ≤ idx.length)
    (h : s < (n : Int) + 1) :
    getRecords idx s ((n : Int) + 1) true = .ok ((downFrom s s.toNat).map (withEntry idx)) := by
  rw [getRecords_spec idx s _ true (by omega) (by omega)]
  unfold Spec.window
  rw [if_neg (by omega)]
  have hmin : min ((n : Int) + 1).toNat s.toNat = s.toNat := by omega
  simp only [if_true, hmin]


theorem map_fst_withEntry (idx : Index) (l : List Int) : (l.map (withEntry idx)).map (·.1) = l := by
  induction l with
  | nil => rfl
  | cons a l ih => simp [withEntry, ih]

theorem keyMatch_self (e : Entry) : keyMatch (some e.key) e = true := by
  simp [keyMatch]

/-- positioning the cursor of a parsable entry finds that entry (fresh total). -/
theorem pttFindStart_present {idx : Index} (S : SortedT idx idx.length) (U : UniqueKeysT idx idx.length)
    (i t : Int) (ht : tm idx i = some t) (isDesc : Bool) :
    pttFindStart idx idx.length t (some (ent idx i).key) isDesc = .ok (i + 1) := by
  obtain ⟨h0, h1⟩ := tm_some_range ht
  unfold pttFindStart
  rw [if_neg (by omega), find_spec (Nat.le_refl _) S U]
  unfold Spec.find
  rw [Spec.position_of_hit U h1 ⟨ht, keyMatch_self _⟩ isDesc]
  simp only
  rw [Int.toNat_of_nonneg h0]

theorem walkFrom_asc {idx : Index} (S : SortedT idx idx.length) (U : UniqueKeysT idx idx.length)
    (n : Nat) (hn : 1 ≤ n) :
    ∀ (fuel : Nat) (s : Int), 1 ≤ s → s ≤ idx.length → ((idx.length : Int) + 1 - s).toNat ≤ fuel →
      (∀ m : Nat, 1 ≤ m → s - 1 + m * n < idx.length → Valid idx (s - 1 + m * n)) →
      walkFrom idx idx.length n false fuel s =
        .ok (pagesOf n fuel (upFrom s ((idx.length : Int) + 1 - s).toNat)) := by
  intro fuel
  induction fuel with
  | zero => intro s h1 h2 h3 _; omega
  | succ f ih =>
    intro s h1 h2 h3 hla
    unfold walkFrom
    by_cases hmore : s + n ≤ idx.length
    · have hload := pttLoadWith_more (getRecords idx) idx.length s n false _ _ (by omega) (by simp)
        (getRecords_asc_more idx n s h1 hmore) (by simp [upFrom_length])
      have hload' : pttLoad idx idx.length s n false = _ := hload
      rw [hload']
      simp only [map_fst_withEntry, withEntry]
      have hv := hla 1 (Nat.le_refl _) (by simp; omega)
      obtain ⟨t, ht⟩ := valid_iff.mp hv
      have hpos : s - 1 + ((1 : Nat) : Int) * n = s + n - 1 := by simp; omega
      rw [hpos] at ht
      have ht' : (ent idx (s + n - 1)).time? = some t := ht
      rw [ht']
      simp only
      rw [pttFindStart_present S U (s + n - 1) t ht false]
      simp only
      have hs' : s + n - 1 + 1 = s + n := by omega
      rw [hs', ih (s + n) (by omega) hmore (by omega) (fun m hm hlt => by
        have := hla (m + 1) (by omega) (by
          have : ((m + 1 : Nat) : Int) * n = m * n + n := by
            rw [Int.natCast_add, Int.add_mul]; simp
          rw [this]; omega)
        have e : s - 1 + ((m + 1 : Nat) : Int) * n = s + n - 1 + m * n := by
          have : ((m + 1 : Nat) : Int) * n = m * n + n := by
            rw [Int.natCast_add, Int.add_mul]; simp
          rw [this]; omega
        rw [e] at this; exact this)]
      have hr : ((idx.length : Int) + 1 - s).toNat = n + ((idx.length : Int) + 1 - (s + n)).toNat := by omega
      rw [hr, upFrom_add]
      simp only [Except.map]
      rw [pagesOf.eq_2]
      have hlen : ¬ (upFrom s n ++ upFrom (s + n) ((idx.length : Int) + 1 - (s + n)).toNat).length ≤ n := by
        simp [upFrom_length]; omega
      rw [if_neg hlen]
      have hn' : (upFrom s n).length = n := upFrom_length n s
      rw [List.take_left' hn', List.drop_left' hn']
    · have hr : ((idx.length : Int) + 1 - s).toNat ≤ n := by omega
      have hload := pttLoadWith_last (getRecords idx) idx.length s n false _ (by omega) (by simp)
        (getRecords_asc_last idx n s h1 h2 (by omega)) (by simp [upFrom_length]; omega)
      have hload' : pttLoad idx idx.length s n false = _ := hload
      rw [hload']
      simp only [map_fst_withEntry]
      rw [pagesOf.eq_2]
      rw [if_pos (by simp [upFrom_length]; omega)]

theorem walkFrom_desc {idx : Index} (S : SortedT idx idx.length) (U : UniqueKeysT idx idx.length)
    (n : Nat) (hn : 1 ≤ n) :
    ∀ (fuel : Nat) (s : Int), 1 ≤ s → s ≤ idx.length → s.toNat ≤ fuel →
      (∀ m : Nat, 1 ≤ m → (m : Int) * n < s → Valid idx (s - 1 - m * n)) →
      walkFrom idx idx.length n true fuel s = .ok (pagesOf n fuel (downFrom s s.toNat)) := by
  intro fuel
  induction fuel with
  | zero => intro s h1 h2 h3 _; omega
  | succ f ih =>
    intro s h1 h2 h3 hla
    unfold walkFrom
    by_cases hmore : (n : Int) + 1 ≤ s
    · have hload := pttLoadWith_more (getRecords idx) idx.length s n true _ _ (by omega) (by omega)
        (getRecords_desc_more idx n s hmore h2) (by simp [downFrom_length])
      have hload' : pttLoad idx idx.length s n true = _ := hload
      rw [hload']
      simp only [map_fst_withEntry, withEntry]
      have hv := hla 1 (Nat.le_refl _) (by simp; omega)
      obtain ⟨t, ht⟩ := valid_iff.mp hv
      have hpos : s - 1 - ((1 : Nat) : Int) * n = s - n - 1 := by simp; omega
      rw [hpos] at ht
      have ht' : (ent idx (s - n - 1)).time? = some t := ht
      rw [ht']
      simp only
      rw [pttFindStart_present S U (s - n - 1) t ht true]
      simp only
      have hs' : s - n - 1 + 1 = s - n := by omega
      rw [hs', ih (s - n) (by omega) (by omega) (by omega) (fun m hm hlt => by
        have hmul : ((m + 1 : Nat) : Int) * n = m * n + n := by
          rw [Int.natCast_add, Int.add_mul]; simp
        have := hla (m + 1) (by omega) (by rw [hmul]; omega)
        have e : s - 1 - ((m + 1 : Nat) : Int) * n = s - n - 1 - m * n := by rw [hmul]; omega
        rw [e] at this; exact this)]
      have hr : s.toNat = n + (s - n).toNat := by omega
      rw [hr, downFrom_add]
      simp only [Except.map]
      rw [pagesOf.eq_2]
      have hlen : ¬ (downFrom s n ++ downFrom (s - n) (s - n).toNat).length ≤ n := by
        simp [downFrom_length]; omega
      rw [if_neg hlen]
      have hn' : (downFrom s n).length = n := downFrom_length n s
      rw [List.take_left' hn', List.drop_left' hn']
    · have hload := pttLoadWith_last (getRecords idx) idx.length s n true _ (by omega) (by omega)
        (getRecords_desc_last idx n s h1 h2 (by omega)) (by simp [downFrom_length]; omega)
      have hload' : pttLoad idx idx.length s n true = _ := hload
      rw [hload']
      simp only [map_fst_withEntry]
      rw [pagesOf.eq_2]
      rw [if_pos (by simp [downFrom_length]; omega)]


theorem walk_asc_eq {idx : Index} (S : SortedT idx idx.length) (U : UniqueKeysT idx idx.length)
    (n : Nat) (hn : 1 ≤ n) (hla : ∀ m : Nat, 1 ≤ m → m * n < idx.length → Valid idx ((m * n : Nat) : Int)) :
    walk idx n false = .ok (pagesOf n (idx.length + 1) (upFrom 1 idx.length)) := by
  unfold walk
  simp only [Bool.false_eq_true, if_false]
  by_cases h0 : idx.length = 0
  · have : idx = [] := List.eq_nil_of_length_eq_zero h0
    subst this
    simp [walkFrom, pttLoad, pttLoadWith, pagesOf, upFrom]
  · have := walkFrom_asc S U n hn (idx.length + 1) 1 (Int.le_refl _) (by omega) (by omega)
      (fun m hm hlt => by
        have h := hla m hm (by
          have : ((m * n : Nat) : Int) = (m : Int) * n := by simp
          omega)
        have e : (1 : Int) - 1 + (m : Int) * n = ((m * n : Nat) : Int) := by simp
        rw [e]; exact h)
    rw [this]
    have : ((idx.length : Int) + 1 - 1).toNat = idx.length := by omega
    rw [this]

theorem walkFrom_desc_zero (idx : Index) (n f : Nat) (h : idx.length ≠ 0) :
    walkFrom idx idx.length n true (f + 1) 0 = walkFrom idx idx.length n true (f + 1) idx.length := by
  have hp : pttLoad idx idx.length 0 n true = pttLoad idx idx.length idx.length n true := by
    unfold pttLoad pttLoadWith
    have h1 : ¬ ((idx.length : Int) = 0) := by omega
    have h2 : ¬ ((idx.length : Int) = 0 ∧ true = true) := by omega
    simp only [h1, if_false, if_true, and_self]
    simp
  unfold walkFrom
  rw [hp]

theorem walk_desc_eq {idx : Index} (S : SortedT idx idx.length) (U : UniqueKeysT idx idx.length)
    (n : Nat) (hn : 1 ≤ n)
    (hla : ∀ m : Nat, 1 ≤ m → m * n < idx.length → Valid idx ((idx.length : Int) - 1 - ((m * n : Nat) : Int))) :
    walk idx n true = .ok (pagesOf n (idx.length + 1) (downFrom idx.length idx.length)) := by
  unfold walk
  simp only [if_true]
  by_cases h0 : idx.length = 0
  · have : idx = [] := List.eq_nil_of_length_eq_zero h0
    subst this
    simp [walkFrom, pttLoad, pttLoadWith, pagesOf, downFrom]
  · rw [walkFrom_desc_zero idx n _ h0]
    have := walkFrom_desc S U n hn (idx.length + 1) idx.length (by omega) (Int.le_refl _) (by omega)
      (fun m hm hlt => by
        have e : ((m * n : Nat) : Int) = (m : Int) * n := by simp
        have h := hla m hm (by omega)
        rw [e] at h; exact h)
    rw [this]
    simp

/-- GetRecord: the entry with that name (and its time) or not-found. -/
theorem getRecord_spec {idx : Index} {T : Nat} (hT : T ≤ idx.length) (S : SortedT idx T) (U : UniqueKeysT idx T)
    (name : Entry) (ct : Int) (hct : name.time? = some ct)
    (hkt : ∀ j t, j < (T : Int) → tm idx j = some t → (ent idx j).key = name.key → t = ct) :
    getRecord idx name T =
      match Spec.lastBelow (Spec.hitAt idx ct name.key) T with
      | some i => .ok ((i : Int) + 1, ent idx i)
      | none => .error .notFound := by
  unfold getRecord
  rw [hct]
  simp only
  rw [find_spec hT S U]
  unfold Spec.find Spec.position
  simp only [if_true]
  cases hE : Spec.lastBelow (Spec.hitAt idx ct name.key) T with
  | some i =>
    obtain ⟨h1, h2, _⟩ := Spec.lastBelow_some hE
    have hh := (hitAt_iff idx ct name.key i).mp h2
    simp only
    have : (i : Int) + 1 - 1 = i := by omega
    rw [this, rd_ok (by omega) (by omega)]
    simp only
    have hk : name.key = (ent idx (i : Int)).key := by simpa [keyMatch] using hh.2
    rw [if_pos hk]
  | none =>
    have hnone := Spec.lastBelow_none hE
    simp only
    cases hN : Spec.lastBelow (Spec.leAt idx ct) T with
    | none => rfl
    | some j =>
      obtain ⟨h1, h2, _⟩ := Spec.lastBelow_some hN
      obtain ⟨t, ht, _⟩ := (leAt_iff idx ct j).mp h2
      simp only
      have : (j : Int) + 1 - 1 = j := by omega
      rw [this, rd_ok (by omega) (by omega)]
      simp only
      have hk : ¬ name.key = (ent idx (j : Int)).key := by
        intro hk
        have := hkt j t (by omega) ht hk.symm
        subst this
        have hhit : Spec.hitAt idx t name.key j = true := by
          rw [hitAt_iff]; exact ⟨ht, by simp [keyMatch, hk]⟩
        rw [hnone j h1] at hhit; cases hhit
      rw [if_neg hk]

/-! ### list-level hypotheses -/

/-- the parsable entries are in non-decreasing creation-time order. -/
def SortedValid (idx : Index) : Prop :=
  idx.Pairwise (fun a b => ∀ ta tb, a.time? = some ta → b.time? = some tb → ta ≤ tb)

/-- no two parsable entries share creation time and name key. -/
def UniqueKeys (idx : Index) : Prop :=
  idx.Pairwise (fun a b => ∀ t, a.time? = some t → b.time? = some t → a.key ≠ b.key)

theorem ent_eq_getElem {idx : Index} {a : Int} (h0 : 0 ≤ a) (h : a.toNat < idx.length) : ent idx a = idx[a.toNat] := by
  simp [ent, show ¬ a < 0 by omega, List.getD, List.getElem?_eq_getElem h]

theorem sortedT_of {idx : Index} {T : Nat} (hT : T ≤ idx.length) (h : SortedValid (idx.take T)) : SortedT idx T := by
  intro a b ta tb hab hbT hta htb
  obtain ⟨a0, a1⟩ := tm_some_range hta
  obtain ⟨b0, b1⟩ := tm_some_range htb
  have hlen : (idx.take T).length = T := by simp; omega
  have := (List.pairwise_iff_getElem.mp h) a.toNat b.toNat (by omega) (by omega) (by omega) ta tb
  simp only [List.getElem_take] at this
  unfold tm at hta htb
  rw [ent_eq_getElem a0 (by omega)] at hta
  rw [ent_eq_getElem b0 (by omega)] at htb
  exact this hta htb

theorem uniqueT_of {idx : Index} {T : Nat} (hT : T ≤ idx.length) (h : UniqueKeys (idx.take T)) : UniqueKeysT idx T := by
  intro a b t haT hbT hta htb hk
  obtain ⟨a0, a1⟩ := tm_some_range hta
  obtain ⟨b0, b1⟩ := tm_some_range htb
  have hlen : (idx.take T).length = T := by simp; omega
  unfold tm at hta htb
  rw [ent_eq_getElem a0 (by omega)] at hta hk
  rw [ent_eq_getElem b0 (by omega)] at htb hk
  by_cases hlt : a < b
  · have := (List.pairwise_iff_getElem.mp h) a.toNat b.toNat (by omega) (by omega) (by omega) t
    simp only [List.getElem_take] at this
    exact absurd hk (this hta htb)
  · by_cases hgt : b < a
    · have := (List.pairwise_iff_getElem.mp h) b.toNat a.toNat (by omega) (by omega) (by omega) t
      simp only [List.getElem_take] at this
      exact absurd hk.symm (this htb hta)
    · omega


theorem Spec.lastBelow_congr {p q : Nat → Bool} : ∀ {n : Nat}, (∀ j, j < n → p j = q j) →
    Spec.lastBelow p n = Spec.lastBelow q n := by
  intro n
  induction n with
  | zero => intro _; rfl
  | succ n ih =>
    intro h
    unfold Spec.lastBelow
    rw [h n (by omega), ih (fun j hj => h j (by omega))]

theorem Spec.firstFrom_congr {p q : Nat → Bool} : ∀ {n s : Nat}, (∀ j, s ≤ j → j < s + n → p j = q j) →
    Spec.firstFrom p n s = Spec.firstFrom q n s := by
  intro n
  induction n with
  | zero => intro _ _; rfl
  | succ n ih =>
    intro s h
    unfold Spec.firstFrom
    rw [h s (by omega) (by omega), ih (fun j h1 h2 => h j (by omega) (by omega))]

/-- the scan over the first `T` records only looks at those records. -/
theorem Spec.position_take (idx : Index) (T : Nat) (ct : Int) (fn : Option (List Nat)) (isDesc : Bool) :
    Spec.position (idx.take T) T ct fn isDesc = Spec.position idx T ct fn isDesc := by
  have hget : ∀ j, j < T → (idx.take T)[j]? = idx[j]? := by
    intro j hj; rw [List.getElem?_take]; simp [hj]
  have hh : ∀ k j, j < T → Spec.hitAt (idx.take T) ct k j = Spec.hitAt idx ct k j := by
    intro k j hj; unfold Spec.hitAt; rw [hget j hj]
  have hl : ∀ j, j < T → Spec.leAt (idx.take T) ct j = Spec.leAt idx ct j := by
    intro j hj; unfold Spec.leAt; rw [hget j hj]
  have hg : ∀ j, j < T → Spec.geAt (idx.take T) ct j = Spec.geAt idx ct j := by
    intro j hj; unfold Spec.geAt; rw [hget j hj]
  unfold Spec.position
  rw [Spec.lastBelow_congr hl, Spec.firstFrom_congr (fun j _ h2 => hg j (by omega))]
  cases fn with
  | none => rfl
  | some k =>
    simp only
    rw [Spec.lastBelow_congr (hh k), Spec.firstFrom_congr (fun j _ h2 => hh k j (by omega))]

theorem Spec.position_lt {idx : Index} {T : Nat} {ct : Int} {fn : Option (List Nat)} {isDesc : Bool} {i : Nat}
    (h : Spec.position idx T ct fn isDesc = some i) : i < T := by
  unfold Spec.position at h
  have key : ∀ (p q : Nat → Bool) (d : Bool) (i : Nat),
      (if d then Spec.lastBelow p T else Spec.firstFrom q T 0) = some i → i < T := by
    intro p q d i hh
    cases d
    · have := (Spec.firstFrom_some (by simpa using hh)).2.1; omega
    · exact (Spec.lastBelow_some (by simpa using hh)).1
  cases fn with
  | none => exact key _ _ isDesc i (by simpa using h)
  | some k =>
    simp only at h
    cases hE : (if isDesc then Spec.lastBelow (Spec.hitAt idx ct k) T else Spec.firstFrom (Spec.hitAt idx ct k) T 0) with
    | some j => rw [hE] at h; simp only [Option.some.injEq] at h; subst h; exact key _ _ isDesc j hE
    | none => rw [hE] at h; exact key _ _ isDesc i (by simpa using h)

/-- if the first look-ahead element of an ascending walk is unparsable the walk stops with the
deserialisation error (the recorded finding `walk:unparsable-lookahead`). -/
theorem walk_asc_unparsable_lookahead (idx : Index) (n : Nat) (hlen : (1 : Int) + n ≤ idx.length)
    (hbad : tm idx n = none) : walk idx n false = .error .atoi := by
  unfold walk
  simp only [Bool.false_eq_true, if_false]
  unfold walkFrom
  have hload := pttLoadWith_more (getRecords idx) idx.length 1 n false _ _ (by omega) (by simp)
    (getRecords_asc_more idx n 1 (Int.le_refl _) hlen) (by simp [upFrom_length])
  have hload' : pttLoad idx idx.length 1 n false = _ := hload
  rw [hload']
  simp only [withEntry]
  have : (1 : Int) + n - 1 = n := by omega
  rw [this]
  have hb : (ent idx (n : Int)).time? = none := hbad
  rw [hb]

section Cursor
open PttVerif.C13

/-! ### the `bbs` cursor text of an index entry designates that entry (names of the article-id domain) -/

theorem splitAt64_no64 : ∀ (l : List Nat), (∀ c ∈ l, c ≠ 64) → splitAt64 l = [l] := by
  intro l
  induction l with
  | nil => intro _; rfl
  | cons c cs ih =>
    intro h
    have hc : c ≠ 64 := h c (by simp)
    unfold splitAt64
    rw [ih (fun x hx => h x (by simp [hx]))]
    simp [hc]

theorem splitAt64_one : ∀ (a b : List Nat), (∀ c ∈ a, c ≠ 64) → (∀ c ∈ b, c ≠ 64) →
    splitAt64 (a ++ [64] ++ b) = [a, b] := by
  intro a
  induction a with
  | nil =>
    intro b _ hb
    simp only [List.nil_append, List.cons_append]
    unfold splitAt64
    rw [splitAt64_no64 b hb]; simp
  | cons c cs ih =>
    intro b ha hb
    have hc : c ≠ 64 := ha c (by simp)
    simp only [List.cons_append]
    unfold splitAt64
    rw [ih b (fun x hx => ha x (by simp [hx])) hb]; simp [hc]

theorem toAidcAux_ne64 (k : Nat) : ∀ a acc, (∀ c ∈ acc, c ≠ 64) → ∀ c ∈ toAidcAux k a acc, c ≠ 64 := by
  induction k with
  | zero => intro a acc h; simpa [toAidcAux] using h
  | succ k ih =>
    intro a acc h
    rw [toAidcAux]
    apply ih
    intro c hc
    simp only [List.mem_cons] at hc
    rcases hc with hc | hc
    · subst hc; exact (table_facts' (a % 64) (Nat.mod_lt _ (by decide))).2.1
    · exact h c hc

theorem toArticleID_ne64 (f : List Nat) : ∀ c ∈ toArticleID f, c ≠ 64 := by
  intro c hc
  unfold toArticleID cstr at hc
  exact toAidcAux_ne64 8 _ [] (by simp) c ((List.takeWhile_sublist _).subset hc)

theorem fnCreateTime_render (isM : Bool) (t p : Nat) (h : InDomain t p) :
    fnCreateTime (render isM t p) = some (t : Int) := by
  obtain ⟨h1, h2, h3⟩ := h
  obtain ⟨d0, d1, d2, d3, d4, d5, d6, d7, d8, d9, hd⟩ := length10 _ (digitsFixed_length 10 t)
  have hat : atoi [d0, d1, d2, d3, d4, d5, d6, d7, d8, d9] = some (Int.ofNat t) := by
    rw [← hd, atoi_digitsFixed 9 t]
    congr 2; exact Nat.mod_eq_of_lt (by omega)
  rw [Props.render_eq]
  unfold body
  rw [hd]
  unfold fnCreateTime
  have ht32 := toInt32_ofNat t (by omega)
  cases isM <;> simp [hat, ht32]

theorem fnCreateTime_deleted (isM : Bool) (t p : Nat) (h : InDomain t p) :
    fnCreateTime (Props.markDeleted (render isM t p)) = some (t : Int) := by
  obtain ⟨h1, h2, h3⟩ := h
  obtain ⟨d0, d1, d2, d3, d4, d5, d6, d7, d8, d9, hd⟩ := length10 _ (digitsFixed_length 10 t)
  have hat : atoi [d0, d1, d2, d3, d4, d5, d6, d7, d8, d9] = some (Int.ofNat t) := by
    rw [← hd, atoi_digitsFixed 9 t]
    congr 2; exact Nat.mod_eq_of_lt (by omega)
  rw [Props.render_eq]
  unfold body Props.markDeleted
  rw [hd]
  unfold fnCreateTime
  have ht32 := toInt32_ofNat t (by omega)
  cases isM <;> simp [hat, ht32]

theorem key_render (isM : Bool) (t p : Nat) :
    (absEntry (render isM t p)).key = (absEntry (render true t p)).key := by
  unfold absEntry
  rw [Props.render_eq, Props.render_eq]
  unfold body
  cases isM <;> simp

theorem key_deleted (isM : Bool) (t p : Nat) :
    (absEntry (Props.markDeleted (render isM t p))).key = (absEntry (render true t p)).key := by
  unfold absEntry Props.markDeleted
  rw [Props.render_eq, Props.render_eq]
  unfold body
  cases isM <;> simp

theorem atoi64_digitsFixed10 (t : Nat) (h1 : 10 ^ 9 ≤ t) (h2 : t < 2 ^ 31) :
    atoi64 (digitsFixed 10 t) = some (t : Int) := by
  obtain ⟨d0, d1, d2, d3, d4, d5, d6, d7, d8, d9, hd⟩ := length10 _ (digitsFixed_length 10 t)
  have hdig : isDigit d0 = true := digitsFixed_isDigit 10 t d0 (by rw [hd]; simp)
  have hdv : decVal (digitsFixed 10 t) 0 = some t := by
    rw [decVal_digitsFixed 10 t 0]
    congr 1
    have : t % 10 ^ 10 = t := Nat.mod_eq_of_lt (by omega)
    omega
  have h43 : d0 ≠ 43 := by intro e; subst e; simp [isDigit] at hdig
  have h45 : d0 ≠ 45 := by intro e; subst e; simp [isDigit] at hdig
  rw [hd] at hdv ⊢
  unfold atoi64
  split
  · rename_i heq; cases heq; exact absurd rfl h43
  · rename_i heq; cases heq; exact absurd rfl h45
  · unfold atoi64Digits
    simp only [hdv, List.isEmpty_cons, Bool.false_eq_true, if_false]
    have : t ≤ 9223372036854775807 := by omega
    simp [this]

theorem intToDec_domain (t : Nat) (h1 : 10 ^ 9 ≤ t) (h2 : t < 2 ^ 31) : intToDec (t : Int) = digitsFixed 10 t := by
  unfold intToDec
  have : ¬ ((t : Int) < 0) := by omega
  simp only [this, if_false, Int.natAbs_natCast]
  exact natToDec_eq_digitsFixed 9 t (by omega) (by omega)

/-- core of the round trip: a name with creation time `t` whose article id is that of `render isM' t p`. -/
theorem cursor_core (t p : Nat) (nm : Name) (isM' : Bool) (hd : InDomain t p) (hct : fnCreateTime nm = some (t : Int))
    (haid : toArticleID nm = toArticleID (render isM' t p)) :
    deserializeIdx (serializeIdx nm) = .ok ((t : Int), render isM' t p) := by
  obtain ⟨h1, h2, h3⟩ := hd
  unfold serializeIdx
  rw [hct, haid]
  simp only [Option.getD_some]
  rw [intToDec_domain t h1 h2]
  unfold deserializeIdx
  rw [splitAt64_one _ _ (fun c hc => by
      have := digitsFixed_isDigit 10 t c hc
      intro e; subst e; simp [isDigit] at this) (toArticleID_ne64 _)]
  simp only
  rw [atoi64_digitsFixed10 t h1 h2]
  simp only
  rw [Props.articleId_roundtrip isM' t p ⟨h1, h2, h3⟩]
  simp only [liftFault]
  rw [fnCreateTime_render isM' t p ⟨h1, h2, h3⟩, toInt32_ofNat t (by omega)]
  simp

theorem absEntry_time (nm : Name) : (absEntry nm).time? = fnCreateTime nm := rfl

/-- the next-page cursor text made from a live index entry of the article-id domain deserialises to that
entry's creation time and to a file name with that entry's key. -/
theorem cursor_roundtrip_live (isM : Bool) (t p : Nat) (hd : InDomain t p) :
    ∃ fnm, deserializeIdx (serializeIdx (render isM t p)) = .ok ((t : Int), fnm) ∧
      (absEntry (render isM t p)).time? = some (t : Int) ∧
      (absEntry fnm).key = (absEntry (render isM t p)).key := by
  refine ⟨render isM t p, cursor_core t p _ isM hd (fnCreateTime_render isM t p hd) (Eq.refl _), ?_, Eq.refl _⟩
  rw [absEntry_time]; exact fnCreateTime_render isM t p hd

/-- the same for a delete-marked entry (repair 7c79b33): the cursor designates the marked entry itself. -/
theorem cursor_roundtrip_deleted (isM : Bool) (t p : Nat) (hd : InDomain t p) :
    ∃ fnm, deserializeIdx (serializeIdx (Props.markDeleted (render isM t p))) = .ok ((t : Int), fnm) ∧
      (absEntry (Props.markDeleted (render isM t p))).time? = some (t : Int) ∧
      (absEntry fnm).key = (absEntry (Props.markDeleted (render isM t p))).key := by
  refine ⟨render true t p, cursor_core t p _ true hd (fnCreateTime_deleted isM t p hd)
    (Props.toArticleID_deleted isM t p), ?_, (key_deleted isM t p).symm⟩
  rw [absEntry_time]; exact fnCreateTime_deleted isM t p hd


theorem getRecordsLoop_mem (idx : Index) (isDesc : Bool) : ∀ (n : Nat) (i : Int) (x : Int × Entry),
    x ∈ getRecordsLoop idx isDesc n i → 1 ≤ x.1 ∧ x.1 ≤ idx.length ∧ x.2 = ent idx (x.1 - 1) := by
  intro n
  induction n with
  | zero => intro i x h; simp [getRecordsLoop] at h
  | succ n ih =>
    intro i x h
    unfold getRecordsLoop at h
    by_cases hc : i = 0 ∨ i > idx.length
    · rw [if_pos hc] at h; simp at h
    · rw [if_neg hc] at h
      by_cases hneg : i - 1 < 0
      · simp [rd, hneg] at h
      · rw [rd_ok (by omega) (by omega)] at h
        simp only [List.mem_cons] at h
        rcases h with h | h
        · subst h; exact ⟨by omega, by omega, rfl⟩
        · exact ih _ x h

theorem pttLoad_next {idx : Index} {total start : Int} {n : Nat} {isDesc : Bool} {p : Page Entry}
    (h : pttLoad idx total start n isDesc = .ok p) {pos : Int} {e : Entry} (hn : p.next = some (pos, e)) :
    1 ≤ pos ∧ pos ≤ idx.length ∧ e = ent idx (pos - 1) := by
  unfold pttLoad pttLoadWith at h
  by_cases ht : total = 0
  · rw [if_pos ht] at h; cases h; cases hn
  · rw [if_neg ht] at h
    simp only at h
    generalize hs : (if start = 0 ∧ isDesc = true then total else start) = s' at h
    unfold getRecords at h
    by_cases h1 : s' < 1
    · rw [if_pos h1] at h; cases h
    · rw [if_neg h1, if_neg (by omega)] at h
      simp only at h
      split at h
      · cases h
        simp only at hn
        have := List.mem_of_getElem? hn
        exact getRecordsLoop_mem idx isDesc _ _ _ this
      · cases h; cases hn


/-- the page `bbs.LoadGeneralArticles` builds from a ptt page. -/
def toBbsPage (names : List Name) (p : Page Entry) : BbsPage :=
  ⟨p.start, p.isNewest, p.items.map (·.1),
    match p.next with
    | none => []
    | some (pos, _) => serializeIdx (names.getD (pos - 1).toNat [])⟩

theorem getBTotal_nonzero (names : List Name) (c : Int) (hc : c ≠ 0) : getBTotalWithRetry names c = (.ok c, c) := by
  unfold getBTotalWithRetry; simp [hc]

theorem bbsLoad_first (names : List Name) (c : Int) (hc : c ≠ 0) (n : Nat) (hn : 1 ≤ n) (isDesc : Bool) :
    bbsLoad names c [] n isDesc =
      match pttLoad (names.map absEntry) c (if isDesc then 0 else 1) n isDesc with
      | .error e => (.error e, c)
      | .ok p => (.ok (toBbsPage names p), c) := by
  unfold bbsLoad
  rw [if_neg (by omega)]
  simp only [List.isEmpty_nil, if_true, getBTotal_nonzero names c hc, Int.toNat_natCast]
  cases pttLoad (names.map absEntry) c (if isDesc then 0 else 1) n isDesc with
  | error e => rfl
  | ok p => rfl

theorem bbsLoad_cursor (names : List Name) (c : Int) (hc : c ≠ 0) (n : Nat) (hn : 1 ≤ n) (isDesc : Bool)
    (cursor : List Nat) (hne : cursor ≠ []) (ct : Int) (fnm : Name) (hd : deserializeIdx cursor = .ok (ct, fnm)) :
    bbsLoad names c cursor n isDesc =
      match pttFindStart (names.map absEntry) c ct (some (absEntry fnm).key) isDesc with
      | .error e => (.error e, c)
      | .ok start =>
        match pttLoad (names.map absEntry) c start n isDesc with
        | .error e => (.error e, c)
        | .ok p => (.ok (toBbsPage names p), c) := by
  unfold bbsLoad
  rw [if_neg (by omega)]
  have he : cursor.isEmpty = false := by cases cursor <;> simp_all
  simp only [he, Bool.false_eq_true, if_false, hd, getBTotal_nonzero names c hc, Int.toNat_natCast]
  cases pttFindStart (names.map absEntry) c ct (some (absEntry fnm).key) isDesc with
  | error e => rfl
  | ok start =>
    simp only
    cases pttLoad (names.map absEntry) c start n isDesc with
    | error e => rfl
    | ok p => rfl


/-- every name of the board file is a name of the article-id domain (live or delete-marked) or has no
parsable creation time. -/
def NamesOK (names : List Name) : Prop :=
  ∀ nm ∈ names, fnCreateTime nm = none ∨
    ∃ isM t p, InDomain t p ∧ (nm = render isM t p ∨ nm = Props.markDeleted (render isM t p))

theorem serializeIdx_ne_nil (nm : Name) : serializeIdx nm ≠ [] := by
  unfold serializeIdx; simp

theorem cursor_of_name {nm : Name}
    (h : ∃ isM t p, InDomain t p ∧ (nm = render isM t p ∨ nm = Props.markDeleted (render isM t p))) :
    ∃ (t : Int) (fnm : Name), deserializeIdx (serializeIdx nm) = .ok (t, fnm) ∧
      (absEntry nm).time? = some t ∧ (absEntry fnm).key = (absEntry nm).key := by
  obtain ⟨isM, t, p, hd, h | h⟩ := h
  · subst h
    obtain ⟨fnm, h1, h2, h3⟩ := cursor_roundtrip_live isM t p hd
    exact ⟨t, fnm, h1, h2, h3⟩
  · subst h
    obtain ⟨fnm, h1, h2, h3⟩ := cursor_roundtrip_deleted isM t p hd
    exact ⟨t, fnm, h1, h2, h3⟩

theorem ent_map_absEntry (names : List Name) (i : Int) (h0 : 0 ≤ i) (h1 : i < names.length) :
    ent (names.map absEntry) i = absEntry (names.getD i.toNat []) ∧ names.getD i.toNat [] ∈ names := by
  have hlt : i.toNat < names.length := by omega
  refine ⟨?_, ?_⟩
  · rw [ent_eq_getElem h0 (by simpa using hlt)]
    simp [List.getD, List.getElem?_eq_getElem hlt]
  · simp [List.getD, List.getElem?_eq_getElem hlt]

/-- the `bbs` client loop follows the abstract walk page by page: whenever the abstract walk over the
entries `(time?, key)` of the names succeeds, the `bbs.LoadGeneralArticles` loop over the cursor texts ends
normally with the same pages. -/
theorem bbsWalk_sim (names : List Name) (hok : NamesOK names) (n : Nat) (hn : 1 ≤ n) (isDesc : Bool)
    (hlen : (names.length : Int) ≠ 0) :
    ∀ (fuel : Nat) (cursor : List Nat) (start : Int) (pages : List (List Int)),
      ((cursor = [] ∧ start = (if isDesc then 0 else 1)) ∨
        (cursor ≠ [] ∧ ∃ ct fnm, deserializeIdx cursor = .ok (ct, fnm) ∧
          pttFindStart (names.map absEntry) names.length ct (some (absEntry fnm).key) isDesc = .ok start)) →
      walkFrom (names.map absEntry) names.length n isDesc fuel start = .ok pages →
      ∃ bp, bbsWalk names n isDesc fuel names.length cursor = (bp, "end") ∧ bp.map (·.items) = pages := by
  intro fuel
  induction fuel with
  | zero => intro cursor start pages _ hw; simp [walkFrom] at hw
  | succ f ih =>
    intro cursor start pages hcur hw
    unfold walkFrom at hw
    cases hp : pttLoad (names.map absEntry) names.length start n isDesc with
    | error e => rw [hp] at hw; cases hw
    | ok p =>
      rw [hp] at hw
      simp only at hw
      have hload : bbsLoad names names.length cursor n isDesc = (.ok (toBbsPage names p), (names.length : Int)) := by
        rcases hcur with ⟨h1, h2⟩ | ⟨h1, ct, fnm, h2, h3⟩
        · subst h1 h2
          rw [bbsLoad_first names _ hlen n hn isDesc, hp]
        · rw [bbsLoad_cursor names _ hlen n hn isDesc cursor h1 ct fnm h2, h3]
          simp only [hp]
      unfold bbsWalk
      rw [hload]
      simp only
      cases hnext : p.next with
      | none =>
        rw [hnext] at hw
        simp only at hw
        have hpages : pages = [p.items.map (·.1)] := by cases hw; rfl
        refine ⟨[toBbsPage names p], ?_, ?_⟩
        · simp [toBbsPage, hnext]
        · simp [toBbsPage, hpages]
      | some x =>
        obtain ⟨pos, e⟩ := x
        rw [hnext] at hw
        simp only at hw
        obtain ⟨hp1, hp2, he⟩ := pttLoad_next hp hnext
        have hp2' : pos ≤ names.length := by simpa using hp2
        obtain ⟨hent, hmem⟩ := ent_map_absEntry names (pos - 1) (by omega) (by omega)
        rw [hent] at he
        cases ht : e.time? with
        | none => rw [ht] at hw; cases hw
        | some t =>
          rw [ht] at hw
          simp only at hw
          cases hfs : pttFindStart (names.map absEntry) (names.length : Int) t (some e.key) isDesc with
          | error err => rw [hfs] at hw; cases hw
          | ok s =>
            rw [hfs] at hw
            simp only at hw
            cases hrest : walkFrom (names.map absEntry) (names.length : Int) n isDesc f s with
            | error err => rw [hrest] at hw; cases hw
            | ok rest =>
              rw [hrest] at hw
              have hpages : pages = p.items.map (·.1) :: rest := by cases hw; rfl
              -- the look-ahead name is in the domain, so its cursor text round-trips
              have hdom := hok _ hmem
              have htime : fnCreateTime (names.getD (pos - 1).toNat []) = some t := by
                have : (absEntry (names.getD (pos - 1).toNat [])).time? = some t := by rw [← he]; exact ht
                exact this
              rcases hdom with hbad | hdom
              · rw [hbad] at htime; cases htime
              · obtain ⟨t', fnm, hd1, hd2, hd3⟩ := cursor_of_name hdom
                have htt : t' = t := by
                  have : (absEntry (names.getD (pos - 1).toNat [])).time? = some t := htime
                  rw [hd2] at this; cases this; rfl
                subst htt
                have hkey : (absEntry fnm).key = e.key := by rw [hd3, he]
                obtain ⟨bp, hb1, hb2⟩ := ih (serializeIdx (names.getD (pos - 1).toNat [])) s rest
                  (Or.inr ⟨serializeIdx_ne_nil _, t', fnm, hd1, by rw [hkey]; exact hfs⟩) hrest
                refine ⟨toBbsPage names p :: bp, ?_, ?_⟩
                · have hne : (toBbsPage names p).nextIdx = serializeIdx (names.getD (pos - 1).toNat []) := by
                    simp [toBbsPage, hnext]
                  have hemp : (toBbsPage names p).nextIdx.isEmpty = false := by
                    rw [hne]; cases hs : serializeIdx (names.getD (pos - 1).toNat []) with
                    | nil => exact absurd hs (serializeIdx_ne_nil _)
                    | cons _ _ => rfl
                  rw [hemp, hne, hb1]
                  simp
                · simp [hpages, hb2, toBbsPage]


/-- the `bbs.LoadGeneralArticles` client loop, started with the empty cursor and a fresh cached total, yields
the pages of the abstract walk whenever that walk succeeds (any page budget `fuel`). -/
theorem bbsWalk_eq_walkFrom (names : List Name) (hok : NamesOK names) (n : Nat) (hn : 1 ≤ n) (isDesc : Bool)
    (fuel : Nat) (pages : List (List Int))
    (hw : walkFrom (names.map absEntry) names.length n isDesc fuel (if isDesc then 0 else 1) = .ok pages) :
    ∃ bp, bbsWalk names n isDesc fuel names.length [] = (bp, "end") ∧ bp.map (·.items) = pages := by
  by_cases hlen : (names.length : Int) = 0
  · have : names = [] := List.eq_nil_of_length_eq_zero (by omega)
    subst this
    cases fuel with
    | zero => simp [walkFrom] at hw
    | succ f =>
      simp [walkFrom, pttLoad, pttLoadWith] at hw
      subst hw
      refine ⟨[⟨0, true, [], []⟩], ?_, by simp⟩
      have h1 : ¬ ((n : Int) < 1) := by omega
      simp [bbsWalk, bbsLoad, h1, getBTotalWithRetry, pttLoad, pttLoadWith]
  · exact bbsWalk_sim names hok n hn isDesc hlen fuel [] _ pages (Or.inl ⟨rfl, rfl⟩) hw


theorem setBTotal_count (names : List Name) : (setBTotal names).2 = names.length := by
  unfold setBTotal
  cases h : names.getLast? with
  | none =>
    have : names = [] := by simpa using h
    subst this; rfl
  | some last =>
    simp only
    split
    · rfl
    · split <;> rfl

theorem setBTotal_ok (names : List Name) (nm : Name) (t : Int) (ht : fnCreateTime nm = some t) :
    (setBTotal (names ++ [nm])).1 = .ok () := by
  unfold setBTotal
  simp only [List.getLast?_append, List.getLast?_singleton, Option.some_or, ht]
  split <;> rfl

/-- whatever the cached total was before, after `DoPostArticle` it is the record count of the file. -/
theorem postArticle_total (names : List Name) (cached : Int) (nm : Name) :
    (postArticle names cached nm).2.1 = names ++ [nm] ∧
      (postArticle names cached nm).2.2 = ((names ++ [nm]).length : Int) := by
  unfold postArticle
  exact ⟨rfl, setBTotal_count _⟩

theorem postArticle_ok (names : List Name) (cached : Int) (nm : Name) (t : Int) (ht : fnCreateTime nm = some t) :
    (postArticle names cached nm).1 = .ok () := by
  unfold postArticle
  exact setBTotal_ok names nm t ht

theorem ent_last (names : List Name) (nm : Name) :
    ent ((names ++ [nm]).map absEntry) ((names ++ [nm]).length - 1 : Int) = absEntry nm := by
  have h0 : (0 : Int) ≤ ((names ++ [nm]).length : Int) - 1 := by simp
  have hlt : (((names ++ [nm]).length : Int) - 1).toNat < ((names ++ [nm]).map absEntry).length := by
    simp
  rw [ent_eq_getElem h0 hlt]
  simp

/-- looking the newest article up by its own name with a cached total equal to the record count finds it at
the last position, both directions. -/
theorem findNewest_synced (names : List Name) (nm : Name) (t : Int) (ht : fnCreateTime nm = some t)
    (S : SortedT ((names ++ [nm]).map absEntry) ((names ++ [nm]).map absEntry).length)
    (U : UniqueKeysT ((names ++ [nm]).map absEntry) ((names ++ [nm]).map absEntry).length) (isDesc : Bool) :
    findNewest (names ++ [nm]) ((names ++ [nm]).length : Int) isDesc =
      (.ok ((names ++ [nm]).length : Int), ((names ++ [nm]).length : Int)) := by
  unfold findNewest
  simp only [List.getLast?_append, List.getLast?_singleton, Option.some_or, ht]
  rw [getBTotal_nonzero _ _ (by simp; omega)]
  simp only
  have hlen : (((names ++ [nm]).map absEntry).length : Int) = ((names ++ [nm]).length : Int) := by simp
  have hent := ent_last names nm
  have htm : tm ((names ++ [nm]).map absEntry) (((names ++ [nm]).length : Int) - 1) = some t := by
    unfold tm; rw [hent]; exact ht
  have := pttFindStart_present S U (((names ++ [nm]).length : Int) - 1) t htm isDesc
  rw [hent, hlen] at this
  rw [this]
  congr 2; omega


theorem getBTotal_cold (names : List Name) (hne : names ≠ [])
    (hlast : ∀ last, names.getLast? = some last → cstr last = [46, 100] ∨ ∃ t, fnCreateTime last = some t) :
    getBTotalWithRetry names 0 = (.ok (names.length : Int), (names.length : Int)) := by
  unfold getBTotalWithRetry
  simp only [ne_eq, not_true_eq_false, if_false]
  cases h : names.getLast? with
  | none => exact absurd (by simpa using h) hne
  | some last =>
    simp only
    rcases hlast last h with hd | ⟨t, ht⟩
    · rw [if_pos hd]
    · split
      · rfl
      · rw [ht]

/-- first access after a restart: with the cold total 0 the by-name lookup in front of EditPost / CrossPost
answers exactly as with the exact total (and leaves the exact total cached). -/
theorem lookupByName_cold (names : List Name) (nm : Name) (hne : names ≠ [])
    (hlast : ∀ last, names.getLast? = some last → cstr last = [46, 100] ∨ ∃ t, fnCreateTime last = some t) :
    lookupByName names 0 nm = lookupByName names names.length nm := by
  have hlen : (names.length : Int) ≠ 0 := by
    cases names with
    | nil => exact absurd rfl hne
    | cons a l => simp; omega
  unfold lookupByName
  rw [getBTotal_cold names hne hlast, getBTotal_nonzero names _ hlen]


end Cursor

end PttVerif.C06
