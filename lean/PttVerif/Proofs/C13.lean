import PttVerif.Model.C13
/-
Helper lemmas for Props/C13.lean.
-/
namespace PttVerif.C13
open PttVerif

/-- the `i`-th character of the alphabet. -/
def dch (i : Nat) : Nat := alphabet.getD i 0

/-! ### whole-table facts, by kernel evaluation over the regenerated data -/

theorem alphabet_length : alphabet.length = 64 := by decide +kernel
theorem table_length : decodeTable.length = 128 := by decide +kernel

theorem table_facts : ∀ i : Fin 64,
    dch i.val ≠ 0 ∧ dch i.val ≠ 64 ∧ dch i.val < 128 ∧ decodeTable[dch i.val]? = some i.val := by
  decide +kernel

theorem table_facts' (i : Nat) (h : i < 64) :
    dch i ≠ 0 ∧ dch i ≠ 64 ∧ dch i < 128 ∧ decodeTable[dch i]? = some i :=
  table_facts ⟨i, h⟩

theorem alphabet_facts : ∀ c ∈ alphabet, decodeTable.getD c 0 < 64 ∧ dch (decodeTable.getD c 0) = c := by
  decide +kernel

/-! ### one decoding step -/

theorem decode_step (i : Nat) (hi : i < 64) (cs : List Nat) (acc : Nat) (hacc : acc * 64 < two64) :
    aidcToAiduAux (dch i :: cs) acc = aidcToAiduAux cs (acc * 64 + i) := by
  obtain ⟨h0, h64, h128, htab⟩ := table_facts' i hi
  have hor : (acc * 64) % two64 ||| i = acc * 64 + i := by
    rw [Nat.mod_eq_of_lt hacc]
    have := Nat.two_pow_add_eq_or_of_lt (i := 6) (b := i) (by simpa using hi) acc
    simp only [Nat.reducePow] at this
    rw [Nat.mul_comm] at this
    exact this.symm
  have hlen : ¬ dch i ≥ decodeTable.length := by rw [table_length]; omega
  rw [aidcToAiduAux]
  simp only [h0, h64, hlen, if_false, idx, htab]
  simp [hor, bind, Except.bind]

theorem pow64_pos (k : Nat) : 0 < 64 ^ k := Nat.pow_pos (by decide)

/-- number → text → number, generalised over the accumulator and the remaining text. -/
theorem decode_toAidcAux (k : Nat) : ∀ (a acc : Nat) (rest : List Nat),
    a < 64 ^ k → acc * 64 ^ k + a < two64 →
    aidcToAiduAux (toAidcAux k a rest) acc = aidcToAiduAux rest (acc * 64 ^ k + a) := by
  induction k with
  | zero => intro a acc rest ha _; simp at ha; subst ha; simp [toAidcAux]
  | succ k ih =>
    intro a acc rest ha hb
    rw [toAidcAux]
    have h1 : a / 64 < 64 ^ k := by
      rw [Nat.pow_succ] at ha
      exact Nat.div_lt_of_lt_mul (by rw [Nat.mul_comm]; exact ha)
    have hsplit : acc * 64 ^ (k + 1) + a = (acc * 64 ^ k + a / 64) * 64 + a % 64 := by
      rw [Nat.pow_succ, Nat.add_mul, Nat.mul_assoc]
      have := Nat.div_add_mod a 64
      omega
    have h2 : acc * 64 ^ k + a / 64 < two64 := by
      have : (acc * 64 ^ k + a / 64) * 64 ≤ acc * 64 ^ (k + 1) + a := by omega
      omega
    rw [ih (a / 64) acc _ h1 h2]
    have hm : a % 64 < 64 := Nat.mod_lt _ (by decide)
    show aidcToAiduAux (dch (a % 64) :: rest) _ = _
    rw [decode_step _ hm, hsplit]
    omega

/-! ### text → number → text -/

def valOf (acc : Nat) (is : List Nat) : Nat := is.foldl (fun v i => v * 64 + i) acc

theorem valOf_bound : ∀ (is : List Nat) (acc : Nat), (∀ i ∈ is, i < 64) →
    valOf acc is < (acc + 1) * 64 ^ is.length := by
  intro is
  induction is with
  | nil => intro acc _; simp [valOf]
  | cons i is ih =>
    intro acc h
    have hi : i < 64 := h i (by simp)
    have := ih (acc * 64 + i) (fun j hj => h j (by simp [hj]))
    simp only [valOf, List.foldl_cons, List.length_cons] at *
    calc _ < (acc * 64 + i + 1) * 64 ^ is.length := this
      _ ≤ ((acc + 1) * 64) * 64 ^ is.length := Nat.mul_le_mul_right _ (by omega)
      _ = (acc + 1) * 64 ^ (is.length + 1) := by rw [Nat.pow_succ, Nat.mul_assoc, Nat.mul_comm 64]

theorem decode_digits : ∀ (is : List Nat) (acc : Nat), (∀ i ∈ is, i < 64) →
    (acc + 1) * 64 ^ is.length ≤ two64 →
    aidcToAiduAux (is.map dch) acc = .ok (valOf acc is) := by
  intro is
  induction is with
  | nil => intro acc _ _; simp [aidcToAiduAux, valOf]
  | cons i is ih =>
    intro acc h hb
    have hi : i < 64 := h i (by simp)
    simp only [List.length_cons, Nat.pow_succ] at hb
    have hacc : acc * 64 < two64 := by
      have h1 : 1 ≤ 64 ^ is.length := pow64_pos _
      have : (acc + 1) * 64 * 1 ≤ (acc + 1) * 64 * 64 ^ is.length := Nat.mul_le_mul_left _ h1
      have h3 : (acc + 1) * (64 ^ is.length * 64) = (acc + 1) * 64 * 64 ^ is.length := by
        rw [Nat.mul_comm (64 ^ is.length), Nat.mul_assoc]
      omega
    simp only [List.map_cons]
    rw [decode_step i hi _ _ hacc]
    have := ih (acc * 64 + i) (fun j hj => h j (by simp [hj])) (by
      have h3 : (acc + 1) * (64 ^ is.length * 64) = (acc + 1) * 64 * 64 ^ is.length := by
        rw [Nat.mul_comm (64 ^ is.length), Nat.mul_assoc]
      calc (acc * 64 + i + 1) * 64 ^ is.length ≤ ((acc + 1) * 64) * 64 ^ is.length :=
            Nat.mul_le_mul_right _ (by omega)
        _ ≤ two64 := by omega)
    simpa [valOf] using this

theorem encode_valOf_aux (is : List Nat) : ∀ (m acc : Nat) (rest : List Nat), (∀ i ∈ is, i < 64) →
    toAidcAux (is.length + m) (valOf acc is) rest = toAidcAux m acc (is.map dch ++ rest) := by
  induction is with
  | nil => intro m acc rest _; simp [valOf]
  | cons i is ih =>
    intro m acc rest h
    have hi : i < 64 := h i (by simp)
    have hv : valOf acc (i :: is) = valOf (acc * 64 + i) is := by simp [valOf]
    have hl : (i :: is).length + m = is.length + (m + 1) := by simp; omega
    rw [hv, hl, ih (m + 1) (acc * 64 + i) rest (fun j hj => h j (by simp [hj]))]
    rw [toAidcAux]
    have h1 : (acc * 64 + i) / 64 = acc := by omega
    have h2 : (acc * 64 + i) % 64 = i := by omega
    rw [h1, h2]
    simp [dch]

theorem encode_valOf (is : List Nat) (acc : Nat) (rest : List Nat) (h : ∀ i ∈ is, i < 64) :
    toAidcAux is.length (valOf acc is) rest = is.map dch ++ rest := by
  have := encode_valOf_aux is 0 acc rest h
  simpa [toAidcAux] using this

/-! ### decimal rendering -/

theorem digitsFixed_length (w n : Nat) : (digitsFixed w n).length = w := by
  induction w generalizing n with
  | zero => simp [digitsFixed]
  | succ w ih => simp [digitsFixed, ih]

theorem natToDec_eq_digitsFixed (w : Nat) : ∀ n, 10 ^ w ≤ n → n < 10 ^ (w + 1) →
    natToDec n = digitsFixed (w + 1) n := by
  induction w with
  | zero =>
    intro n h1 h2
    have : n < 10 := by simpa using h2
    rw [natToDec]; simp [this, digitsFixed]; omega
  | succ w ih =>
    intro n h1 h2
    have hp : 10 ≤ 10 ^ (w + 1) := by
      have : 1 ≤ 10 ^ w := Nat.pow_pos (by decide)
      rw [Nat.pow_succ]; omega
    have h10 : ¬ n < 10 := by omega
    rw [natToDec]; simp only [h10, dite_false]
    rw [ih (n / 10)]
    · conv => rhs; rw [digitsFixed]
    · rw [Nat.pow_succ] at h1; omega
    · rw [Nat.pow_succ] at h2; omega

end PttVerif.C13

namespace PttVerif.C13
open PttVerif

/-! ### parsing what was printed -/

theorem decVal_append (xs ys : List Nat) : ∀ acc,
    decVal (xs ++ ys) acc = (decVal xs acc).bind (decVal ys) := by
  induction xs with
  | nil => intro acc; simp [decVal]
  | cons x xs ih => intro acc; simp only [List.cons_append, decVal]; split <;> simp [ih]

theorem decVal_digitsFixed (w : Nat) : ∀ n acc,
    decVal (digitsFixed w n) acc = some (acc * 10 ^ w + n % 10 ^ w) := by
  induction w with
  | zero => intro n acc; simp [digitsFixed, decVal, Nat.mod_one]
  | succ w ih =>
    intro n acc
    rw [digitsFixed, decVal_append, ih]
    have hd : isDigit (n % 10 + 48) = true := by simp [isDigit]; omega
    simp only [Option.bind_some, decVal, hd, if_true]
    congr 1
    have h1 : n % 10 ^ (w + 1) = (n / 10 % 10 ^ w) * 10 + n % 10 := by
      rw [Nat.pow_succ, Nat.mul_comm (10 ^ w) 10, Nat.mod_mul]; omega
    rw [h1, Nat.pow_succ]
    have : n % 10 + 48 - 48 = n % 10 := by omega
    rw [this, Nat.add_mul, Nat.mul_assoc, Nat.mul_comm (10 ^ w) 10]
    omega

theorem digitsFixed_isDigit (w : Nat) : ∀ n, ∀ c ∈ digitsFixed w n, isDigit c = true := by
  induction w with
  | zero => intro n c h; simp [digitsFixed] at h
  | succ w ih =>
    intro n c h
    rw [digitsFixed] at h
    simp only [List.mem_append, List.mem_singleton] at h
    rcases h with h | h
    · exact ih _ _ h
    · subst h; simp [isDigit]; omega

theorem atoi_digits (c : Nat) (cs : List Nat) (h : isDigit c = true) :
    atoi (c :: cs) = (decVal (c :: cs) 0).map Int.ofNat := by
  have h1 : c ≠ 43 := by intro e; subst e; simp [isDigit] at h
  have h2 : c ≠ 45 := by intro e; subst e; simp [isDigit] at h
  unfold atoi
  split
  · rename_i heq; cases heq
  · rename_i heq; cases heq; exact absurd rfl h1
  · rename_i heq; cases heq; exact absurd rfl h2
  · rfl

theorem atoi_digitsFixed (w n : Nat) : atoi (digitsFixed (w + 1) n) = some (Int.ofNat (n % 10 ^ (w + 1))) := by
  have hlen := digitsFixed_length (w + 1) n
  match hd : digitsFixed (w + 1) n with
  | [] => rw [hd] at hlen; simp at hlen
  | c :: cs =>
    have hc : isDigit c = true := digitsFixed_isDigit (w + 1) n c (by rw [hd]; simp)
    rw [atoi_digits c cs hc, ← hd, decVal_digitsFixed]; simp

theorem hexVal_upHex (d : Nat) (h : d < 16) : hexVal (upHex d) = some d := by
  unfold upHex hexVal
  by_cases h10 : d < 10
  · simp only [h10, if_true]
    have : 48 ≤ d + 48 ∧ d + 48 ≤ 57 := by omega
    simp only [this, and_self, if_true]; congr 1
  · simp only [h10, if_false]
    have h1 : ¬ (48 ≤ d - 10 + 65 ∧ d - 10 + 65 ≤ 57) := by omega
    have h2 : ¬ (97 ≤ d - 10 + 65 ∧ d - 10 + 65 ≤ 102) := by omega
    have h3 : 65 ≤ d - 10 + 65 ∧ d - 10 + 65 ≤ 70 := by omega
    simp only [h1, h2, h3, and_self, if_false, if_true]; congr 1; omega

theorem parseHex3_hex3 (p : Nat) (h : p < 4096) : parseHex3 (hex3 p) = some p := by
  unfold hex3 parseHex3
  simp only [hexVal_upHex _ (Nat.mod_lt _ (by decide : 0 < 16)), Option.bind_eq_bind, Option.bind_some]
  simp only [Option.pure_def, Option.some.injEq]
  omega

theorem length10 (l : List Nat) (h : l.length = 10) :
    ∃ a b c d e f g x y z, l = [a, b, c, d, e, f, g, x, y, z] := by
  match l, h with
  | [a, b, c, d, e, f, g, x, y, z], _ => exact ⟨a, b, c, d, e, f, g, x, y, z, rfl⟩

/-- the 18 meaningful bytes of a rendered name. -/
def body (ty t p : Nat) : List Nat := [ty, 46] ++ digitsFixed 10 t ++ [46, 65, 46] ++ hex3 p

theorem toAidcAux_nonzero (k : Nat) : ∀ a acc, (∀ c ∈ acc, c ≠ 0) → ∀ c ∈ toAidcAux k a acc, c ≠ 0 := by
  induction k with
  | zero => intro a acc h; simpa [toAidcAux] using h
  | succ k ih =>
    intro a acc h
    rw [toAidcAux]
    apply ih
    intro c hc
    simp only [List.mem_cons] at hc
    rcases hc with hc | hc
    · subst hc; exact (table_facts' (a % 64) (Nat.mod_lt _ (by decide))).1
    · exact h c hc

theorem toAidcAux_length (k : Nat) : ∀ a acc, (toAidcAux k a acc).length = k + acc.length := by
  induction k with
  | zero => intro a acc; simp [toAidcAux]
  | succ k ih => intro a acc; rw [toAidcAux, ih]; simp; omega

theorem cstr_of_nonzero (l : List Nat) (h : ∀ c ∈ l, c ≠ 0) : cstr l = l := by
  unfold cstr
  induction l with
  | nil => rfl
  | cons c cs ih =>
    have hc : c ≠ 0 := h c (by simp)
    simp only [List.takeWhile_cons, hc, ne_eq, not_false_eq_true, decide_true, if_true]
    rw [ih (fun x hx => h x (by simp [hx]))]

theorem aidcToAiduAux_total : ∀ (cs : List Nat) (acc : Nat), ∃ v, aidcToAiduAux cs acc = .ok v := by
  intro cs
  induction cs with
  | nil => intro acc; exact ⟨acc, rfl⟩
  | cons c cs ih =>
    intro acc
    rw [aidcToAiduAux]
    by_cases h0 : c = 0
    · simp [h0]
    by_cases h64 : c = 64
    · simp [h64]
    by_cases hl : c ≥ decodeTable.length
    · simp [h0, h64, hl]
    · simp only [h0, h64, hl, if_false]
      have hlt : c < decodeTable.length := by omega
      have : decodeTable[c]? = some decodeTable[c] := List.getElem?_eq_getElem hlt
      simp only [idx, this, bind, Except.bind]
      exact ih _

end PttVerif.C13

namespace PttVerif.C13

theorem toInt32_ofNat (n : Nat) (h : n < 2147483648) : toInt32 (n : Int) = (n : Int) := by
  show toInt32 (Int.ofNat n) = Int.ofNat n
  unfold toInt32
  have h1 : ((Int.ofNat n) % 4294967296).toNat = n := by
    have : (Int.ofNat n) % 4294967296 = Int.ofNat n := Int.emod_eq_of_lt (by simp) (by simp; omega)
    rw [this]; rfl
  simp only [h1, h, if_true]

theorem int32ToU64_ofNat (n : Nat) (h : n < 18446744073709551616) : int32ToU64 (n : Int) = n := by
  show int32ToU64 (Int.ofNat n) = n
  unfold int32ToU64; exact Nat.mod_eq_of_lt h

end PttVerif.C13

/-! ### the designation layer: cutting a url / url line apart -/
namespace PttVerif.C13

theorem stripPrefix_append (p s : List Nat) : stripPrefix p (p ++ s) = some s := by
  induction p with
  | nil => cases s <;> rfl
  | cons a p ih => simp [stripPrefix, ih]

theorem stripSuffix_append (x s : List Nat) : stripSuffix x (s ++ x) = some s := by
  simp [stripSuffix, List.reverse_append, stripPrefix_append]

theorem splitSlash_append (folder seg : List Nat) (h : 47 ∉ folder) :
    splitSlash (folder ++ 47 :: seg) = some (folder, seg) := by
  induction folder with
  | nil => simp [splitSlash]
  | cons c cs ih =>
    have hc : c ≠ 47 := fun e => h (by simp [e])
    have hcs : 47 ∉ cs := fun e => h (by simp [e])
    simp [splitSlash, hc, ih hcs]

theorem cstr_append_zeros (l : List Nat) (h : ∀ c ∈ l, c ≠ 0) (k : Nat) :
    cstr (l ++ List.replicate k 0) = l := by
  unfold cstr
  induction l with
  | nil => cases k <;> simp [List.replicate]
  | cons c cs ih =>
    have hc : c ≠ 0 := h c (by simp)
    simp only [List.cons_append, List.takeWhile_cons, hc, ne_eq, not_false_eq_true, decide_true, if_true]
    rw [ih (fun x hx => h x (by simp [hx]))]

theorem upHex_ne_zero (d : Nat) : upHex d ≠ 0 := by unfold upHex; split <;> omega

theorem body_nonzero (ty t p : Nat) (hty : ty ≠ 0) : ∀ c ∈ body ty t p, c ≠ 0 := by
  intro c hc
  simp only [body, hex3, List.mem_append, List.mem_cons, List.not_mem_nil, or_false] at hc
  rcases hc with ((((rfl | rfl) | hd) | (rfl | rfl | rfl)) | (rfl | rfl | rfl))
  · exact hty
  · decide
  · have := digitsFixed_isDigit 10 t c hd
    simp [isDigit] at this; omega
  · decide
  · decide
  · decide
  · exact upHex_ne_zero _
  · exact upHex_ne_zero _
  · exact upHex_ne_zero _

theorem body_length (ty t p : Nat) : (body ty t p).length = 18 := by
  simp [body, digitsFixed_length, hex3]

theorem render_body (isM : Bool) (t p : Nat) :
    render isM t p = copyInto FNLEN (body (if isM then 77 else 71) t p) := rfl

theorem render_zeros (isM : Bool) (t p : Nat) :
    render isM t p = body (if isM then 77 else 71) t p ++ List.replicate 10 0 := by
  have hF : FNLEN = 28 := by decide +kernel
  rw [render_body, hF, copyInto_of_le _ _ (by rw [body_length]; omega), body_length]

/-- the C-string reading of a rendered name is its 18 meaningful bytes. -/
theorem cstr_render (isM : Bool) (t p : Nat) :
    cstr (render isM t p) = body (if isM then 77 else 71) t p := by
  rw [render_zeros]
  exact cstr_append_zeros _ (body_nonzero _ t p (by cases isM <;> decide)) 10

end PttVerif.C13

/-! ### `Filename_t.Eq` on rendered names -/
namespace PttVerif.C13

/-- creation time and suffix: what follows the two type bytes. -/
def tail18 (t p : Nat) : List Nat := digitsFixed 10 t ++ [46, 65, 46] ++ hex3 p

theorem body_eq_tail (ty t p : Nat) : body ty t p = [ty, 46] ++ tail18 t p := by
  simp [body, tail18]

theorem cstr_drop2_render (isM : Bool) (t p : Nat) : cstr ((render isM t p).drop 2) = tail18 t p := by
  rw [render_zeros, body_eq_tail]
  have : ([(if isM then 77 else 71), 46] ++ tail18 t p ++ List.replicate 10 0).drop 2
      = tail18 t p ++ List.replicate 10 0 := by simp
  rw [this]
  apply cstr_append_zeros
  intro c hc
  exact body_nonzero 77 t p (by decide) c (by rw [body_eq_tail]; simp [hc])

theorem render_of_tail (t p : Nat) : render true t p = copyInto FNLEN ([77, 46] ++ tail18 t p) := by
  rw [render_body, body_eq_tail]; rfl

end PttVerif.C13
