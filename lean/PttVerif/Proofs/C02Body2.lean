import PttVerif.Proofs.C02Body
/-
C02, stage 4 — `body`: twenty-five passes and the final permutation = 25 textbook salted DES encryptions of zero.
-/
namespace PttVerif.C02.Lin
open PttVerif PttVerif.C02 PttVerif.Gen.CryptTables

section
variable (σ : Nat)

theorem innerIdx_eq : innerIdx = (List.range 8).map (fun k => 0 + 4 * k) := by decide +kernel

/-- one textbook pass on the halves: sixteen rounds, then the halves exchanged (the pre-output). -/
def specPass (m : Nat) (KS : List Nat) (lr : Nat × Nat) : Nat × Nat :=
  ((Spec.rounds m KS lr).2, (Spec.rounds m KS lr).1)

theorem passes_succ (s : List Nat) (E0 E1 n : Nat) (lr : Nat × Nat) :
    passes s E0 E1 (n + 1) lr = passes s E0 E1 n (desPass s E0 E1 lr) := rfl
theorem passes_zero (s : List Nat) (E0 E1 : Nat) (lr : Nat × Nat) : passes s E0 E1 0 lr = lr := rfl
theorem iter_succ {α} (g : α → α) (n : Nat) (x : α) : Spec.iter g (n + 1) x = Spec.iter g n (g x) := rfl
theorem iter_zero {α} (g : α → α) (x : α) : Spec.iter g 0 x = x := rfl

theorem desPass_spec (hσ : σ < 2 ^ 12) (KS : List Nat) (hl : KS.length = 16) (hK : ∀ K ∈ KS, K < 2 ^ 48)
    (lr : Nat × Nat) (hL : lr.1 < 2 ^ 32) (hR : lr.2 < 2 ^ 32) :
    desPass (ksWords KS) (E0 σ) (E1 σ) (rho lr.1, rho lr.2) =
      (rho (specPass (sm σ) KS lr).1, rho (specPass (sm σ) KS lr).2) := by
  obtain ⟨L, R⟩ := lr
  unfold desPass
  rw [innerIdx_eq, inner_spec σ hσ (ksWords KS) 8 KS 0 L R (by omega) hK hL hR
    (fun t ht => by simpa using ksWords_getD KS t ht)]
  simp only [specPass]

theorem specPass_lt (m : Nat) (KS : List Nat) (lr : Nat × Nat) (hL : lr.1 < 2 ^ 32) (hR : lr.2 < 2 ^ 32) :
    (specPass m KS lr).1 < 2 ^ 32 ∧ (specPass m KS lr).2 < 2 ^ 32 := by
  obtain ⟨L, R⟩ := lr
  exact ⟨(rounds_lt m KS L R hL hR).2, (rounds_lt m KS L R hL hR).1⟩

theorem passes_spec (hσ : σ < 2 ^ 12) (KS : List Nat) (hl : KS.length = 16) (hK : ∀ K ∈ KS, K < 2 ^ 48) :
    ∀ (n : Nat) (lr : Nat × Nat), lr.1 < 2 ^ 32 → lr.2 < 2 ^ 32 →
      passes (ksWords KS) (E0 σ) (E1 σ) n (rho lr.1, rho lr.2) =
        (rho (Spec.iter (specPass (sm σ) KS) n lr).1, rho (Spec.iter (specPass (sm σ) KS) n lr).2) ∧
      (Spec.iter (specPass (sm σ) KS) n lr).1 < 2 ^ 32 ∧ (Spec.iter (specPass (sm σ) KS) n lr).2 < 2 ^ 32 := by
  intro n
  induction n with
  | zero => intro lr hL hR; rw [passes_zero, iter_zero]; exact ⟨rfl, hL, hR⟩
  | succ n ih =>
    intro lr hL hR
    have hb := specPass_lt (sm σ) KS lr hL hR
    rw [passes_succ, iter_succ, desPass_spec σ hσ KS hl hK lr hL hR]
    exact ih (specPass (sm σ) KS lr) hb.1 hb.2

theorem des_unfold (m : Nat) (ks : List Nat) (block : Nat) :
    Spec.des m ks block =
      Spec.permF Spec.FP 64
        ((Spec.rounds m ks (Spec.permF Spec.IP 64 block / 4294967296, Spec.permF Spec.IP 64 block % 4294967296)).2 *
            4294967296 +
          (Spec.rounds m ks (Spec.permF Spec.IP 64 block / 4294967296, Spec.permF Spec.IP 64 block % 4294967296)).1) := by
  unfold Spec.des
  dsimp only

/-- one textbook DES encryption of the block whose IP-image is `L‖R`. -/
theorem des_spec (m : Nat) (KS : List Nat) (lr : Nat × Nat) (hL : lr.1 < 2 ^ 32) (hR : lr.2 < 2 ^ 32) :
    Spec.des m KS (Spec.permF Spec.FP 64 (lr.1 * 4294967296 + lr.2)) =
      Spec.permF Spec.FP 64 ((specPass m KS lr).1 * 4294967296 + (specPass m KS lr).2) := by
  obtain ⟨L, R⟩ := lr
  have hL : L < 2 ^ 32 := hL
  have hR : R < 2 ^ 32 := hR
  have hX : L * 4294967296 + R < 2 ^ 64 := by
    have : L * 4294967296 ≤ (2 ^ 32 - 1) * 4294967296 := Nat.mul_le_mul_right _ (by omega)
    omega
  show Spec.des m KS (Spec.permF Spec.FP 64 (L * 4294967296 + R)) = _
  rw [des_unfold, ip_fp_cancel _ hX, show (L * 4294967296 + R) / 4294967296 = L by omega,
    show (L * 4294967296 + R) % 4294967296 = R by omega]
  simp only [specPass]

theorem iter_des_spec (m : Nat) (KS : List Nat) : ∀ (n : Nat) (lr : Nat × Nat), lr.1 < 2 ^ 32 → lr.2 < 2 ^ 32 →
    Spec.iter (Spec.des m KS) n (Spec.permF Spec.FP 64 (lr.1 * 4294967296 + lr.2)) =
      Spec.permF Spec.FP 64 ((Spec.iter (specPass m KS) n lr).1 * 4294967296 +
        (Spec.iter (specPass m KS) n lr).2) := by
  intro n
  induction n with
  | zero => intro lr _ _; rw [iter_zero, iter_zero]
  | succ n ih =>
    intro lr hL hR
    have hb := specPass_lt m KS lr hL hR
    rw [iter_succ, iter_succ, des_spec m KS lr hL hR]
    exact ih (specPass m KS lr) hb.1 hb.2

theorem fp_zero : Spec.permF Spec.FP 64 (0 * 4294967296 + 0) = 0 := by decide +kernel

/-- `body` with the schedule words of sixteen round keys: its eight output bytes, read big-endian, are the result of
25 textbook salted DES encryptions of the zero block. -/
theorem body_spec (hσ : σ < 2 ^ 12) (KS : List Nat) (hl : KS.length = 16) (hK : ∀ K ∈ KS, K < 2 ^ 48) :
    outVal (body (ksWords KS) (E0 σ) (E1 σ)) = Spec.iter (Spec.des (sm σ) KS) 25 0 := by
  unfold body
  have h := passes_spec σ hσ KS hl hK 25 (0, 0) (by decide) (by decide)
  simp only [rho_zero] at h
  have h2 := iter_des_spec (sm σ) KS 25 (0, 0) (by decide) (by decide)
  simp only [fp_zero] at h2
  rw [h.1, finalPerm_eq_FP _ _ h.2.1 h.2.2, h2]

theorem finalPerm_lt (A B : Nat) (hA : A < 2 ^ 32) (hB : B < 2 ^ 32) :
    (finalPerm (rho A, rho B)).1 < 2 ^ 32 ∧ (finalPerm (rho A, rho B)).2 < 2 ^ 32 := by
  have hX : A * 4294967296 + B < 2 ^ 64 := by
    have : A * 4294967296 ≤ (2 ^ 32 - 1) * 4294967296 := Nat.mul_le_mul_right _ (by omega)
    omega
  have h1 : eval (A * 4294967296 + B) (rhoE hiE) = rho A := by
    rw [eval_rhoE]; show rho ((A * 4294967296 + B) >>> 32) = _; rw [pack32_hi A B hB]
  have h2 : eval (A * 4294967296 + B) (rhoE loE) = rho B := by
    rw [eval_rhoE]; show rho ((A * 4294967296 + B) &&& 0xffffffff) = _; rw [pack32_lo A B hB]
  have := finalPerm_eval (A * 4294967296 + B) (rhoE hiE) (rhoE loE)
  rw [h1, h2] at this
  rw [this]
  have s1 := le_sub 64 (finalPermE (rhoE hiE) (rhoE loE)).1 (by decide +kernel) _ hX
  have s2 := le_sub 64 (finalPermE (rhoE hiE) (rhoE loE)).2 (by decide +kernel) _ hX
  exact ⟨Nat.lt_of_le_of_lt (sub_le s1) (by decide +kernel), Nat.lt_of_le_of_lt (sub_le s2) (by decide +kernel)⟩

theorem body_lt (hσ : σ < 2 ^ 12) (KS : List Nat) (hl : KS.length = 16) (hK : ∀ K ∈ KS, K < 2 ^ 48) :
    (body (ksWords KS) (E0 σ) (E1 σ)).1 < 2 ^ 32 ∧ (body (ksWords KS) (E0 σ) (E1 σ)).2 < 2 ^ 32 := by
  unfold body
  have h := passes_spec σ hσ KS hl hK 25 (0, 0) (by decide) (by decide)
  simp only [rho_zero] at h
  rw [h.1]
  exact finalPerm_lt _ _ h.2.1 h.2.2

end
end PttVerif.C02.Lin
