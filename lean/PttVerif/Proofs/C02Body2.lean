import PttVerif.Proofs.C02Body
/-
C02, stage 4 — `body`: twenty-five passes and the final permutation = 25 textbook salted DES encryptions of zero.
-/
namespace PttVerif.C02.Lin
open PttVerif PttVerif.C02 PttVerif.Gen.CryptTables

section
variable (σ : Nat)

theorem innerIdx_eq : innerIdx = (List.range 8).map (fun k => 0 + 4 * k) := by decide +kernel

/-- one textbook pass on the halves: sixteen rounds, then the halves exchanged (the pre-output). -/
def specPass (m : Nat) (KS : List Nat) (lr : Nat × Nat) : Nat × Nat :=
  ((Spec.rounds m KS lr).2, (Spec.rounds m KS lr).1)

theorem desPass_spec (hσ : σ < 2 ^ 12) (KS : List Nat) (hl : KS.length = 16) (hK : ∀ K ∈ KS, K < 2 ^ 48)
    (L R : Nat) (hL : L < 2 ^ 32) (hR : R < 2 ^ 32) :
    desPass (ksWords KS) (E0 σ) (E1 σ) (rho L, rho R) =
      (rho (specPass (sm σ) KS (L, R)).1, rho (specPass (sm σ) KS (L, R)).2) := by
  unfold desPass
  rw [innerIdx_eq, inner_spec σ hσ (ksWords KS) 8 KS 0 L R (by omega) hK hL hR
    (fun t ht => by simpa using ksWords_getD KS t ht)]
  simp only [specPass]

theorem specPass_lt (m : Nat) (KS : List Nat) (L R : Nat) (hL : L < 2 ^ 32) (hR : R < 2 ^ 32) :
    (specPass m KS (L, R)).1 < 2 ^ 32 ∧ (specPass m KS (L, R)).2 < 2 ^ 32 :=
  ⟨(rounds_lt m KS L R hL hR).2, (rounds_lt m KS L R hL hR).1⟩

theorem passes_spec (hσ : σ < 2 ^ 12) (KS : List Nat) (hl : KS.length = 16) (hK : ∀ K ∈ KS, K < 2 ^ 48) :
    ∀ (n L R : Nat), L < 2 ^ 32 → R < 2 ^ 32 →
      passes (ksWords KS) (E0 σ) (E1 σ) n (rho L, rho R) =
        (rho (Spec.iter (specPass (sm σ) KS) n (L, R)).1, rho (Spec.iter (specPass (sm σ) KS) n (L, R)).2) ∧
      (Spec.iter (specPass (sm σ) KS) n (L, R)).1 < 2 ^ 32 ∧ (Spec.iter (specPass (sm σ) KS) n (L, R)).2 < 2 ^ 32 := by
  intro n
  induction n with
  | zero => intro L R hL hR; exact ⟨rfl, hL, hR⟩
  | succ n ih =>
    intro L R hL hR
    have hb := specPass_lt (sm σ) KS L R hL hR
    simp only [passes, Spec.iter]
    rw [desPass_spec σ hσ KS hl hK L R hL hR]
    exact ih _ _ hb.1 hb.2

theorem des_unfold (m : Nat) (ks : List Nat) (block : Nat) :
    Spec.des m ks block =
      Spec.permF Spec.FP 64
        ((Spec.rounds m ks (Spec.permF Spec.IP 64 block / 4294967296, Spec.permF Spec.IP 64 block % 4294967296)).2 *
            4294967296 +
          (Spec.rounds m ks (Spec.permF Spec.IP 64 block / 4294967296, Spec.permF Spec.IP 64 block % 4294967296)).1) := by
  unfold Spec.des
  generalize Spec.permF Spec.IP 64 block = ip
  cases Spec.rounds m ks (ip / 4294967296, ip % 4294967296)
  simp only []

/-- one textbook DES encryption of the block whose IP-image is `L‖R`. -/
theorem des_spec (m : Nat) (KS : List Nat) (L R : Nat) (hL : L < 2 ^ 32) (hR : R < 2 ^ 32) :
    Spec.des m KS (Spec.permF Spec.FP 64 (L * 4294967296 + R)) =
      Spec.permF Spec.FP 64 ((specPass m KS (L, R)).1 * 4294967296 + (specPass m KS (L, R)).2) := by
  have hX : L * 4294967296 + R < 2 ^ 64 := by
    have : L * 4294967296 ≤ (2 ^ 32 - 1) * 4294967296 := Nat.mul_le_mul_right _ (by omega)
    omega
  rw [des_unfold, ip_fp_cancel _ hX, show (L * 4294967296 + R) / 4294967296 = L by omega,
    show (L * 4294967296 + R) % 4294967296 = R by omega]
  simp only [specPass]

theorem iter_des_spec (m : Nat) (KS : List Nat) : ∀ (n L R : Nat), L < 2 ^ 32 → R < 2 ^ 32 →
    Spec.iter (Spec.des m KS) n (Spec.permF Spec.FP 64 (L * 4294967296 + R)) =
      Spec.permF Spec.FP 64 ((Spec.iter (specPass m KS) n (L, R)).1 * 4294967296 +
        (Spec.iter (specPass m KS) n (L, R)).2) := by
  intro n
  induction n with
  | zero => intro L R _ _; rfl
  | succ n ih =>
    intro L R hL hR
    have hb := specPass_lt m KS L R hL hR
    simp only [Spec.iter]
    rw [des_spec m KS L R hL hR]
    exact ih _ _ hb.1 hb.2

theorem fp_zero : Spec.permF Spec.FP 64 (0 * 4294967296 + 0) = 0 := by decide +kernel

/-- `body` with the schedule words of sixteen round keys: its eight output bytes, read big-endian, are the result of
25 textbook salted DES encryptions of the zero block. -/
theorem body_spec (hσ : σ < 2 ^ 12) (KS : List Nat) (hl : KS.length = 16) (hK : ∀ K ∈ KS, K < 2 ^ 48) :
    outVal (body (ksWords KS) (E0 σ) (E1 σ)) = Spec.iter (Spec.des (sm σ) KS) 25 0 := by
  unfold body
  have h := passes_spec σ hσ KS hl hK 25 0 0 (by decide) (by decide)
  rw [rho_zero] at h
  rw [h.1, finalPerm_eq_FP _ _ h.2.1 h.2.2, ← iter_des_spec (sm σ) KS 25 0 0 (by decide) (by decide), fp_zero]

end
end PttVerif.C02.Lin
