import PttVerif.Model.C19
/-
C19 — helper definitions (well-formedness, the specification-level serialiser / renumbering / filtering)
and lemmas for Props/C19.lean.
-/
namespace PttVerif.C19
open PttVerif

/-! ### the regenerated constants, as numerals -/

@[simp] theorem VERSION_eq : VERSION = 3363 := by decide
@[simp] theorem T_BOARD_eq : T_BOARD = 1 := by decide
@[simp] theorem T_FOLDER_eq : T_FOLDER = 2 := by decide
@[simp] theorem T_LINE_eq : T_LINE = 3 := by decide
@[simp] theorem FAVH_FAV_eq : FAVH_FAV = 1 := by decide
@[simp] theorem boardPad_eq : boardPad = 3 := by decide
@[simp] theorem linePad_eq : linePad = 0 := by decide
@[simp] theorem TITLE_LEN_eq : TITLE_LEN = 49 := by decide
@[simp] theorem MAX_FAV_eq : MAX_FAV = 1024 := by decide
@[simp] theorem MAX_LINE_eq : MAX_LINE = 64 := by decide
@[simp] theorem MAX_FOLDER_eq : MAX_FOLDER = 64 := by decide

/-! ### counting -/

@[simp] theorem cntB_nil : cntB [] = 0 := rfl
@[simp] theorem cntL_nil : cntL [] = 0 := rfl
@[simp] theorem cntF_nil : cntF [] = 0 := rfl

@[simp] theorem cntB_cons (it : Item) (r : List Item) : cntB (it :: r) = cntB r + (if it.isBoard then 1 else 0) := by
  simp [cntB, List.countP_cons]
@[simp] theorem cntL_cons (it : Item) (r : List Item) : cntL (it :: r) = cntL r + (if it.isLine then 1 else 0) := by
  simp [cntL, List.countP_cons]
@[simp] theorem cntF_cons (it : Item) (r : List Item) : cntF (it :: r) = cntF r + (if it.isFolder then 1 else 0) := by
  simp [cntF, List.countP_cons]

theorem cnt_sum (items : List Item) : cntB items + cntL items + cntF items = items.length := by
  induction items with
  | nil => rfl
  | cons it r ih =>
    cases it <;> simp [Item.isBoard, Item.isLine, Item.isFolder] <;> omega

theorem cntB_append (a b : List Item) : cntB (a ++ b) = cntB a + cntB b := by simp [cntB]
theorem cntL_append (a b : List Item) : cntL (a ++ b) = cntL a + cntL b := by simp [cntL]
theorem cntF_append (a b : List Item) : cntF (a ++ b) = cntF a + cntF b := by simp [cntF]

/-! ### well-formedness: what the round trip needs of a tree -/

/-- the fields that must fit their wire width for the bytes to decode to the same values. -/
def rtOK : Item → Bool
  | .board _ bid lv _ => decide (bid < 4294967296) && decide (lv < 4294967296)
  | .line .. => true
  | .folder _ _ t _ _ _ _ => t.length == TITLE_LEN

/-- the per-level counts fit the `int8`/`int16` header fields. -/
def fitsLevel (items : List Item) : Bool :=
  decide (cntL items < 128) && decide (cntF items < 128) && decide (items.length < 32768)

/-- every folder's stored counters are the counts of its entries, every level fits, every field fits. -/
def wfItems : List Item → Bool
  | [] => true
  | .folder a fid t nB nL nF sub :: rest =>
      rtOK (.folder a fid t nB nL nF sub) && nB == cntB sub && nL == cntL sub && nF == cntF sub
        && fitsLevel sub && wfItems sub && wfItems rest
  | it :: rest => rtOK it && wfItems rest

def wfFav (f : Fav) : Bool :=
  f.nB == cntB f.items && f.nL == cntL f.items && f.nF == cntF f.items && fitsLevel f.items && wfItems f.items

/-! ### specification-level functions -/

/-- the folders of a level, each as header, entries, own sub-folders: depth first. -/
def serSubs : List Item → List Nat
  | [] => []
  | .folder _ _ _ nB nL nF sub :: rest => hdr nB nL nF ++ encEntries sub ++ serSubs sub ++ serSubs rest
  | _ :: rest => serSubs rest

/-- the `.fav` grammar below the version word. -/
def serFav (f : Fav) : List Nat := hdr f.nB f.nL f.nF ++ encEntries f.items ++ serSubs f.items

/-- what `ReadFavrec` leaves of the ids: lines and folders numbered from `l+1`, `f+1` (as `int8`). -/
def renumFrom : Nat → Nat → List Item → List Item
  | _, _, [] => []
  | l, f, .board a b lv ba :: rest => .board a b lv ba :: renumFrom l f rest
  | l, f, .line a _ :: rest => .line a ((l + 1) % 256) :: renumFrom ((l + 1) % 256) f rest
  | l, f, .folder a _ t nB nL nF sub :: rest =>
      .folder a ((f + 1) % 256) t nB nL nF (renumFrom 0 0 sub) :: renumFrom l ((f + 1) % 256) rest

def renumFav (f : Fav) : Fav := { f with items := renumFrom 0 0 f.items }

/-- the entries with the FAV bit, in order (recursively inside kept folders), counters recounted. -/
def keepValid : List Item → List Item
  | [] => []
  | .folder a fid t _ _ _ sub :: rest =>
      if isValidAttr a then
        .folder a fid t (cntB (keepValid sub)) (cntL (keepValid sub)) (cntF (keepValid sub)) (keepValid sub)
          :: keepValid rest
      else keepValid rest
  | .board a b lv ba :: rest => if isValidAttr a then .board a b lv ba :: keepValid rest else keepValid rest
  | .line a l :: rest => if isValidAttr a then .line a l :: keepValid rest else keepValid rest

def keepValidFav (f : Fav) : Fav :=
  ⟨cntB (keepValid f.items), cntL (keepValid f.items), cntF (keepValid f.items), keepValid f.items⟩

/-- the tree a save followed by a load yields. -/
def canon (f : Fav) : Fav := renumFav (keepValidFav f)

/-- nesting depth of the folders of a level. -/
def depthItems : List Item → Nat
  | [] => 0
  | .folder _ _ _ _ _ _ sub :: rest => max (depthItems sub + 1) (depthItems rest)
  | _ :: rest => depthItems rest

/-- an entry as the first loop of `ReadFavrec` has it: a folder's record is not read yet. -/
def shallow : Item → Item
  | .folder a fid t _ _ _ _ => .folder a fid t 0 0 0 []
  | it => it

/-! ### arithmetic -/

theorem total16_of_fits (items : List Item) (h : fitsLevel items = true) :
    total16 (cntB items) (cntL items) (cntF items) = items.length := by
  simp [fitsLevel] at h
  have := cnt_sum items
  simp [total16, sext8, h.1.1, h.1.2]
  omega

theorem loopCount_of_lt (n : Nat) (h : n < 32768) : loopCount n = n := by simp [loopCount, h]

theorem dec16_le16 (n : Nat) (h : n < 65536) : dec16 (n % 256) (n / 256 % 256) = n := by
  simp [dec16]; omega

theorem dec32_le32 (n : Nat) (h : n < 4294967296) :
    dec32 (n % 256) (n / 256 % 256) (n / 65536 % 256) (n / 16777216 % 256) = n := by
  simp [dec32]; omega

/-! ### WriteFavrec on a well-formed tree is the specification serialiser -/

theorem writeSubs_eq : ∀ (items : List Item), wfItems items = true →
    writeSubs items.length items = .ok (serSubs items)
  | [], _ => by simp [writeSubs, serSubs]
  | .board .. :: rest, h => by
      simp [wfItems] at h
      simp [writeSubs, serSubs, writeSubs_eq rest h.2]
  | .line .. :: rest, h => by
      simp [wfItems] at h
      simp [writeSubs, serSubs, writeSubs_eq rest h.2]
  | .folder a fid t nB nL nF sub :: rest, h => by
      simp [wfItems] at h
      obtain ⟨⟨⟨⟨⟨⟨_, hB⟩, hL⟩, hF⟩, hfit⟩, hsub⟩, hrest⟩ := h
      subst hB hL hF
      have ht := total16_of_fits sub hfit
      have hlen : sub.length < 32768 := by simp [fitsLevel] at hfit; exact hfit.2
      simp [writeSubs, serSubs, ht, loopCount_of_lt _ hlen, writeSubs_eq sub hsub, writeSubs_eq rest hrest,
        bind, Except.bind, pure, Except.pure]

theorem writeFavrec_eq (f : Fav) (h : wfFav f = true) : writeFavrec f = .ok (serFav f) := by
  obtain ⟨nB, nL, nF, items⟩ := f
  simp [wfFav] at h
  obtain ⟨⟨⟨⟨hB, hL⟩, hF⟩, hfit⟩, hw⟩ := h
  subst hB hL hF
  have ht := total16_of_fits items hfit
  have hlen : items.length < 32768 := by simp [fitsLevel] at hfit; exact hfit.2
  simp [writeFavrec, serFav, ht, loopCount_of_lt _ hlen, writeSubs_eq items hw,
    bind, Except.bind, pure, Except.pure]

/-! ### the first loop of ReadFavrec inverts the entry encoding -/

theorem readEntry_enc (it : Item) (rest : List Nat) (h : rtOK it = true) :
    readEntry (encEntry it ++ rest) = some (shallow it, rest) := by
  cases it with
  | board a bid lv ba =>
    simp [rtOK] at h
    simp [encEntry, readEntry, le32, shallow, dec32_le32 _ h.1, dec32_le32 _ h.2, List.replicate]
  | line a lid =>
    simp [encEntry, readEntry, shallow]
  | folder a fid t nB nL nF sub =>
    simp [rtOK] at h
    simp [encEntry, readEntry, shallow, h]

theorem readEntries_enc : ∀ (items : List Item) (rest : List Nat), (∀ it ∈ items, rtOK it = true) →
    readEntries items.length (encEntries items ++ rest) = some (items.map shallow, rest)
  | [], rest, _ => by simp [readEntries, encEntries]
  | it :: r, rest, h => by
      have h1 := h it (by simp)
      have h2 : ∀ x ∈ r, rtOK x = true := fun x hx => h x (by simp [hx])
      have := readEntries_enc r rest h2
      simp only [encEntries] at this
      simp [readEntries, encEntries, List.append_assoc, readEntry_enc it _ h1, this]

theorem rtOK_of_wf : ∀ (items : List Item), wfItems items = true → ∀ it ∈ items, rtOK it = true
  | [], _, it, hit => by simp at hit
  | .board .. :: rest, h, it, hit => by
      simp [wfItems] at h
      rcases List.mem_cons.mp hit with e | e
      · subst e; exact h.1
      · exact rtOK_of_wf rest h.2 it e
  | .line .. :: rest, h, it, hit => by
      simp [wfItems] at h
      rcases List.mem_cons.mp hit with e | e
      · subst e; simp [rtOK]
      · exact rtOK_of_wf rest h.2 it e
  | .folder .. :: rest, h, it, hit => by
      simp [wfItems] at h
      rcases List.mem_cons.mp hit with e | e
      · subst e; exact h.1.1.1.1.1.1
      · exact rtOK_of_wf rest h.2 it e

/-! ### ReadFavrec inverts the serialiser (given enough call depth) -/

theorem fits_bounds {items : List Item} (h : fitsLevel items = true) :
    cntB items < 32768 ∧ cntL items < 128 ∧ cntF items < 128 ∧ items.length < 32768 := by
  simp [fitsLevel] at h
  have := cnt_sum items
  omega

theorem readFavrec_step (fuel : Nat) (sub : List Item) (tail : List Nat) (X : List Item)
    (hfit : fitsLevel sub = true) (hok : ∀ it ∈ sub, rtOK it = true)
    (hQ : attach (readFavrec fuel) (sub.map shallow) (serSubs sub ++ tail) 0 0 = .ok (some (X, tail))) :
    readFavrec (fuel + 1) (hdr (cntB sub) (cntL sub) (cntF sub) ++ (encEntries sub ++ (serSubs sub ++ tail)))
      = .ok (some (⟨cntB sub, cntL sub, cntF sub, X⟩, tail)) := by
  obtain ⟨hb, hl, hf, hn⟩ := fits_bounds hfit
  have ht := total16_of_fits sub hfit
  have hd := dec16_le16 (cntB sub) (by omega)
  have hnb : ¬ (32768 ≤ cntB sub) := by omega
  have hnl : ¬ (128 ≤ cntL sub) := by omega
  have hnf : ¬ (128 ≤ cntF sub) := by omega
  have hnt : ¬ (32768 ≤ sub.length) := by omega
  simp [readFavrec, hdr, le16, hd, ht, neg16, neg8, hnb, hnl, hnf, hnt, readEntries_enc sub _ hok, hQ,
    bind, Except.bind, pure, Except.pure]

theorem attach_ser : ∀ (items : List Item), wfItems items = true → ∀ (fuel : Nat), depthItems items ≤ fuel →
    ∀ (tail : List Nat) (l f : Nat),
    attach (readFavrec fuel) (items.map shallow) (serSubs items ++ tail) l f
      = .ok (some (renumFrom l f items, tail))
  | [], _, _, _, tail, l, f => by simp [attach, serSubs, renumFrom]
  | .board a b lv ba :: rest, h, fuel, hd, tail, l, f => by
      simp [wfItems] at h
      simp [depthItems] at hd
      simp [attach, serSubs, renumFrom, shallow, attach_ser rest h.2 fuel hd tail l f,
        bind, Except.bind, pure, Except.pure]
  | .line a lid :: rest, h, fuel, hd, tail, l, f => by
      simp [wfItems] at h
      simp [depthItems] at hd
      simp [attach, serSubs, renumFrom, shallow, attach_ser rest h.2 fuel hd tail ((l + 1) % 256) f,
        bind, Except.bind, pure, Except.pure]
  | .folder a fid t nB nL nF sub :: rest, h, fuel, hd, tail, l, f => by
      simp [wfItems] at h
      obtain ⟨⟨⟨⟨⟨⟨_, hB⟩, hL⟩, hF⟩, hfit⟩, hsub⟩, hrest⟩ := h
      subst hB hL hF
      simp only [depthItems] at hd
      have hd' := Nat.max_le.mp hd
      obtain ⟨fuel', rfl⟩ : ∃ k, fuel = k + 1 := ⟨fuel - 1, by omega⟩
      have ihs := attach_ser sub hsub fuel' (by omega) (serSubs rest ++ tail) 0 0
      have hstep := readFavrec_step fuel' sub (serSubs rest ++ tail) _ hfit (rtOK_of_wf sub hsub) ihs
      have ihr := attach_ser rest hrest (fuel' + 1) hd'.2 tail l ((f + 1) % 256)
      simp [attach, serSubs, renumFrom, shallow, List.append_assoc, hstep, ihr,
        bind, Except.bind, pure, Except.pure]

theorem depth_le_serSubs : ∀ (items : List Item), depthItems items ≤ (serSubs items).length
  | [] => by simp [depthItems]
  | .board .. :: rest => by simpa [depthItems, serSubs] using depth_le_serSubs rest
  | .line .. :: rest => by simpa [depthItems, serSubs] using depth_le_serSubs rest
  | .folder _ _ _ nB nL nF sub :: rest => by
      have h1 := depth_le_serSubs sub
      have h2 := depth_le_serSubs rest
      simp [depthItems, serSubs, hdr, le16]
      omega

/-- `Load` of version word + serialisation of a well-formed tree: the same tree, ids renumbered. -/
theorem load_ser (f : Fav) (v0 v1 : Nat) (h : wfFav f = true) :
    load (v0 :: v1 :: serFav f) = .ok (some (renumFav f)) := by
  obtain ⟨nB, nL, nF, items⟩ := f
  simp [wfFav] at h
  obtain ⟨⟨⟨⟨hB, hL⟩, hF⟩, hfit⟩, hw⟩ := h
  subst hB hL hF
  have hdep : depthItems items ≤ (serFav ⟨cntB items, cntL items, cntF items, items⟩).length := by
    have := depth_le_serSubs items
    simp [serFav]; omega
  have hq := attach_ser items hw _ hdep [] 0 0
  have := readFavrec_step _ items [] _ hfit (rtOK_of_wf items hw) hq
  simp only [List.append_nil] at this
  have e : hdr (cntB items) (cntL items) (cntF items) ++ (encEntries items ++ serSubs items)
      = serFav ⟨cntB items, cntL items, cntF items, items⟩ := by simp [serFav]
  rw [e] at this
  simp [load, renumFav, this, bind, Except.bind, pure, Except.pure]

/-! ### loading arbitrary bytes never faults -/

theorem readEntry_len (bs : List Nat) (it : Item) (rest : List Nat) (h : readEntry bs = some (it, rest)) :
    rest.length ≤ bs.length := by
  unfold readEntry at h
  split at h
  · simp at h
  · rename_i ty r1
    split at h
    · simp at h
    · split at h
      · simp at h
      · rename_i attr r2
        split at h
        · split at h
          · simp at h
          · rename_i fid r3
            split at h
            · simp at h
            · simp at h; obtain ⟨_, rfl⟩ := h; simp; omega
        · split at h
          · split at h
            · simp at h; obtain ⟨_, rfl⟩ := h; simp; omega
            · simp at h
          · split at h
            · simp at h
            · simp at h; obtain ⟨_, rfl⟩ := h; simp; omega

theorem readEntries_len : ∀ (n : Nat) (bs : List Nat) (its : List Item) (rest : List Nat),
    readEntries n bs = some (its, rest) → rest.length ≤ bs.length
  | 0, bs, its, rest, h => by simp [readEntries] at h; obtain ⟨_, rfl⟩ := h; exact Nat.le_refl _
  | n + 1, bs, its, rest, h => by
      unfold readEntries at h
      split at h
      · simp at h
      · rename_i it bs' he
        split at h
        · simp at h
        · rename_i its' bs'' hr
          simp at h; obtain ⟨_, rfl⟩ := h
          have := readEntry_len bs it bs' he
          have := readEntries_len n bs' its' bs'' hr
          omega

/-- a record reader that is total on inputs of at most `N` bytes and returns a suffix no longer than its input. -/
def GoodReader (rd : List Nat → M (Option (Fav × List Nat))) (N : Nat) : Prop :=
  ∀ bs, bs.length ≤ N → ∃ r, rd bs = .ok r ∧ ∀ f rest, r = some (f, rest) → rest.length ≤ bs.length

theorem attach_total (rd : List Nat → M (Option (Fav × List Nat))) (N : Nat) (hrd : GoodReader rd N) :
    ∀ (ents : List Item) (bs : List Nat) (l f : Nat), bs.length ≤ N →
      ∃ r, attach rd ents bs l f = .ok r ∧ ∀ its rest, r = some (its, rest) → rest.length ≤ bs.length := by
  intro ents
  induction ents with
  | nil =>
    intro bs l f _
    exact ⟨some ([], bs), by simp [attach], by intro its rest h; simp at h; obtain ⟨_, rfl⟩ := h; exact Nat.le_refl _⟩
  | cons e es ih =>
    intro bs l f hbs
    cases e with
    | board a b lv ba =>
      obtain ⟨r, hr, hlen⟩ := ih bs l f hbs
      cases r with
      | none => exact ⟨none, by simp [attach, hr, bind, Except.bind, pure, Except.pure], by simp⟩
      | some p =>
        obtain ⟨its, rest⟩ := p
        refine ⟨some (.board a b lv ba :: its, rest), by simp [attach, hr, bind, Except.bind, pure, Except.pure], ?_⟩
        intro its' rest' h; simp at h; obtain ⟨_, rfl⟩ := h; exact hlen its rest rfl
    | line a lid =>
      obtain ⟨r, hr, hlen⟩ := ih bs ((l + 1) % 256) f hbs
      cases r with
      | none => exact ⟨none, by simp [attach, hr, bind, Except.bind, pure, Except.pure], by simp⟩
      | some p =>
        obtain ⟨its, rest⟩ := p
        refine ⟨some (.line a ((l + 1) % 256) :: its, rest), by simp [attach, hr, bind, Except.bind, pure, Except.pure], ?_⟩
        intro its' rest' h; simp at h; obtain ⟨_, rfl⟩ := h; exact hlen its rest rfl
    | folder a fid t nB nL nF sub =>
      obtain ⟨r0, hr0, hlen0⟩ := hrd bs hbs
      cases r0 with
      | none => exact ⟨none, by simp [attach, hr0, bind, Except.bind, pure, Except.pure], by simp⟩
      | some p0 =>
        obtain ⟨g, bs'⟩ := p0
        have hb' := hlen0 g bs' rfl
        obtain ⟨r, hr, hlen⟩ := ih bs' l ((f + 1) % 256) (by omega)
        cases r with
        | none => exact ⟨none, by simp [attach, hr0, hr, bind, Except.bind, pure, Except.pure], by simp⟩
        | some p =>
          obtain ⟨its, rest⟩ := p
          refine ⟨some (.folder a ((f + 1) % 256) t g.nB g.nL g.nF g.items :: its, rest),
            by simp [attach, hr0, hr, bind, Except.bind, pure, Except.pure], ?_⟩
          intro its' rest' h; simp at h; obtain ⟨_, rfl⟩ := h
          have := hlen its rest rfl
          omega

theorem readFavrec_total : ∀ (fuel : Nat) (bs : List Nat), bs.length < fuel →
    ∃ r, readFavrec fuel bs = .ok r ∧ ∀ f rest, r = some (f, rest) → rest.length ≤ bs.length
  | 0, bs, h => by omega
  | fuel + 1, bs, h => by
      rcases bs with _ | ⟨b0, _ | ⟨b1, _ | ⟨nL, _ | ⟨nF, rest⟩⟩⟩⟩
      · exact ⟨none, by simp [readFavrec], by simp⟩
      · exact ⟨none, by simp [readFavrec], by simp⟩
      · exact ⟨none, by simp [readFavrec], by simp⟩
      · exact ⟨none, by simp [readFavrec], by simp⟩
      · simp only [readFavrec]
        split
        · exact ⟨none, rfl, by simp⟩
        · rename_i hg
          split
          · rename_i hn
            simp [hn] at hg
          · split
            · exact ⟨none, rfl, by simp⟩
            · rename_i ents rest' he
              have hl := readEntries_len _ _ _ _ he
              have hgood : GoodReader (readFavrec fuel) rest'.length := by
                intro bs' hbs'
                exact readFavrec_total fuel bs' (by simp at h; omega)
              obtain ⟨r, hr, hlen⟩ := attach_total _ _ hgood ents rest' 0 0 (Nat.le_refl _)
              cases r with
              | none => exact ⟨none, by simp [hr, bind, Except.bind, pure, Except.pure], by simp⟩
              | some p =>
                obtain ⟨items, rest''⟩ := p
                refine ⟨some (⟨dec16 b0 b1, nL, nF, items⟩, rest''), by simp [hr, bind, Except.bind, pure, Except.pure], ?_⟩
                intro f' r' hh; simp at hh; obtain ⟨_, rfl⟩ := hh
                have := hlen items rest'' rfl
                simp; omega

theorem load_total (bs : List Nat) : ∃ r, load bs = .ok r := by
  rcases bs with _ | ⟨v0, _ | ⟨v1, rest⟩⟩
  · exact ⟨none, by simp [load]⟩
  · exact ⟨none, by simp [load]⟩
  · obtain ⟨r, hr, _⟩ := readFavrec_total (rest.length + 1) rest (by omega)
    cases r with
    | none => exact ⟨none, by simp [load, hr, bind, Except.bind, pure, Except.pure]⟩
    | some p => exact ⟨some p.1, by simp [load, hr, bind, Except.bind, pure, Except.pure]⟩

/-! ### renumbering and filtering preserve well-formedness -/

theorem renumFrom_length : ∀ (items : List Item) (l f : Nat), (renumFrom l f items).length = items.length
  | [], _, _ => by simp [renumFrom]
  | .board .. :: rest, l, f => by simp [renumFrom, renumFrom_length rest]
  | .line .. :: rest, l, f => by simp [renumFrom, renumFrom_length rest]
  | .folder .. :: rest, l, f => by simp [renumFrom, renumFrom_length rest]

theorem renumFrom_cnt : ∀ (items : List Item) (l f : Nat),
    cntB (renumFrom l f items) = cntB items ∧ cntL (renumFrom l f items) = cntL items
      ∧ cntF (renumFrom l f items) = cntF items
  | [], _, _ => by simp [renumFrom]
  | .board .. :: rest, l, f => by
      have := renumFrom_cnt rest l f
      simp [renumFrom, Item.isBoard, Item.isLine, Item.isFolder, this]
  | .line .. :: rest, l, f => by
      have := renumFrom_cnt rest ((l + 1) % 256) f
      simp [renumFrom, Item.isBoard, Item.isLine, Item.isFolder, this]
  | .folder .. :: rest, l, f => by
      have := renumFrom_cnt rest l ((f + 1) % 256)
      simp [renumFrom, Item.isBoard, Item.isLine, Item.isFolder, this]

theorem fitsLevel_renum (items : List Item) (l f : Nat) : fitsLevel (renumFrom l f items) = fitsLevel items := by
  simp [fitsLevel, renumFrom_cnt, renumFrom_length]

theorem wfItems_renum : ∀ (items : List Item) (l f : Nat), wfItems (renumFrom l f items) = wfItems items
  | [], _, _ => by simp [renumFrom]
  | .board .. :: rest, l, f => by simp [renumFrom, wfItems, rtOK, wfItems_renum rest]
  | .line .. :: rest, l, f => by simp [renumFrom, wfItems, rtOK, wfItems_renum rest]
  | .folder _ _ _ _ _ _ sub :: rest, l, f => by
      simp [renumFrom, wfItems, rtOK, wfItems_renum rest, wfItems_renum sub, fitsLevel_renum, renumFrom_cnt]

theorem wfFav_renum (f : Fav) : wfFav (renumFav f) = wfFav f := by
  simp [wfFav, renumFav, wfItems_renum, fitsLevel_renum, renumFrom_cnt]

theorem keepValid_le : ∀ (items : List Item),
    cntB (keepValid items) ≤ cntB items ∧ cntL (keepValid items) ≤ cntL items
      ∧ cntF (keepValid items) ≤ cntF items ∧ (keepValid items).length ≤ items.length
  | [] => by simp [keepValid]
  | .board a .. :: rest => by
      have := keepValid_le rest
      by_cases hv : isValidAttr a = true <;>
        simp [keepValid, hv, Item.isBoard, Item.isLine, Item.isFolder] <;> omega
  | .line a _ :: rest => by
      have := keepValid_le rest
      by_cases hv : isValidAttr a = true <;>
        simp [keepValid, hv, Item.isBoard, Item.isLine, Item.isFolder] <;> omega
  | .folder a .. :: rest => by
      have := keepValid_le rest
      by_cases hv : isValidAttr a = true <;>
        simp [keepValid, hv, Item.isBoard, Item.isLine, Item.isFolder] <;> omega

theorem fitsLevel_keepValid (items : List Item) (h : fitsLevel items = true) :
    fitsLevel (keepValid items) = true := by
  have := keepValid_le items
  simp [fitsLevel] at h ⊢
  omega

theorem wfItems_keepValid : ∀ (items : List Item), wfItems items = true → wfItems (keepValid items) = true
  | [], _ => by simp [keepValid, wfItems]
  | .board a .. :: rest, h => by
      simp [wfItems] at h
      by_cases hv : isValidAttr a = true <;> simp [keepValid, hv, wfItems, h.1, wfItems_keepValid rest h.2]
  | .line a _ :: rest, h => by
      simp [wfItems] at h
      by_cases hv : isValidAttr a = true <;> simp [keepValid, hv, wfItems, rtOK, wfItems_keepValid rest h.2]
  | .folder a fid t nB nL nF sub :: rest, h => by
      simp [wfItems] at h
      obtain ⟨⟨⟨⟨⟨⟨hok, _⟩, _⟩, _⟩, hfit⟩, hsub⟩, hrest⟩ := h
      by_cases hv : isValidAttr a = true
      · simp [keepValid, hv, wfItems, wfItems_keepValid rest hrest, wfItems_keepValid sub hsub,
          fitsLevel_keepValid sub hfit]
        simpa [rtOK] using hok
      · simp [keepValid, hv, wfItems_keepValid rest hrest]

theorem wfFav_keepValid (f : Fav) (h : wfFav f = true) : wfFav (keepValidFav f) = true := by
  simp [wfFav] at h
  simp [wfFav, keepValidFav, wfItems_keepValid _ h.2, fitsLevel_keepValid _ h.1.2]

/-! ### rebuildFav computes `renum ∘ keepValid` -/

theorem rebuildItems_eq : ∀ (items : List Item) (c : Cnt), wfItems items = true →
    c.nB + cntB (keepValid items) < 65536 → c.nL + cntL (keepValid items) < 256 →
    c.nF + cntF (keepValid items) < 256 → c.lineID < 256 → c.folderID < 256 →
    rebuildItems items c = .ok (renumFrom c.lineID c.folderID (keepValid items),
      { nB := c.nB + cntB (keepValid items), nL := c.nL + cntL (keepValid items),
        nF := c.nF + cntF (keepValid items),
        lineID := (c.lineID + cntL (keepValid items)) % 256,
        folderID := (c.folderID + cntF (keepValid items)) % 256 })
  | [], ⟨cB, cL, cF, li, fi⟩, _, _, _, _, h1, h2 => by
      simp at h1 h2
      simp [rebuildItems, keepValid, renumFrom]
      omega
  | .board a b lv ba :: rest, ⟨cB, cL, cF, li, fi⟩, h, hb, hl, hf, h1, h2 => by
      simp [wfItems] at h
      by_cases hv : isValidAttr a = true
      · simp [keepValid, hv, Item.isBoard, Item.isLine, Item.isFolder] at hb hl hf
        have e : (cB + 1) % 65536 = cB + 1 := by omega
        have ih := rebuildItems_eq rest ⟨cB + 1, cL, cF, li, fi⟩ h.2
          (by simp; omega) (by simpa using hl) (by simpa using hf) h1 h2
        simp [rebuildItems, keepValid, hv, renumFrom, ih, e, Item.isBoard, Item.isLine, Item.isFolder,
          bind, Except.bind, pure, Except.pure]
        omega
      · simp [keepValid, hv] at hb hl hf
        have ih := rebuildItems_eq rest ⟨cB, cL, cF, li, fi⟩ h.2
          (by simpa using hb) (by simpa using hl) (by simpa using hf) h1 h2
        simpa [rebuildItems, keepValid, hv] using ih
  | .line a lid :: rest, ⟨cB, cL, cF, li, fi⟩, h, hb, hl, hf, h1, h2 => by
      simp [wfItems] at h
      by_cases hv : isValidAttr a = true
      · simp [keepValid, hv, Item.isBoard, Item.isLine, Item.isFolder] at hb hl hf
        have e : (cL + 1) % 256 = cL + 1 := by omega
        have ih := rebuildItems_eq rest ⟨cB, cL + 1, cF, (li + 1) % 256, fi⟩ h.2
          (by simpa using hb) (by simp; omega) (by simpa using hf) (by simp; omega) h2
        simp [rebuildItems, keepValid, hv, renumFrom, ih, e, Item.isBoard, Item.isLine, Item.isFolder,
          bind, Except.bind, pure, Except.pure]
        omega
      · simp [keepValid, hv] at hb hl hf
        have ih := rebuildItems_eq rest ⟨cB, cL, cF, li, fi⟩ h.2
          (by simpa using hb) (by simpa using hl) (by simpa using hf) h1 h2
        simpa [rebuildItems, keepValid, hv] using ih
  | .folder a fid t nB nL nF sub :: rest, ⟨cB, cL, cF, li, fi⟩, h, hb, hl, hf, h1, h2 => by
      simp [wfItems] at h
      obtain ⟨⟨⟨⟨⟨⟨hok, _⟩, _⟩, _⟩, hfit⟩, hsub⟩, hrest⟩ := h
      by_cases hv : isValidAttr a = true
      · simp [keepValid, hv, Item.isBoard, Item.isLine, Item.isFolder] at hb hl hf
        have e : (cF + 1) % 256 = cF + 1 := by omega
        have hfk := fitsLevel_keepValid sub hfit
        obtain ⟨kb, kl, kf, kn⟩ := fits_bounds hfk
        have ihs := rebuildItems_eq sub {} hsub (by simp; omega) (by simp; omega) (by simp; omega)
          (by simp) (by simp)
        have ht := total16_of_fits _ hfk
        have ihr := rebuildItems_eq rest ⟨cB, cL, cF + 1, li, (fi + 1) % 256⟩ hrest
          (by simpa using hb) (by simpa using hl) (by simp; omega) h1 (by simp; omega)
        simp [rebuildItems, keepValid, hv, renumFrom, ihs, ihr, e, ht, neg16, renumFrom_length,
          Item.isBoard, Item.isLine, Item.isFolder, bind, Except.bind, pure, Except.pure]
        have hnn : ¬ (32768 ≤ (keepValid sub).length) := by omega
        have htk : List.take (keepValid sub).length (renumFrom 0 0 (keepValid sub))
            = renumFrom 0 0 (keepValid sub) := List.take_of_length_le (by simp [renumFrom_length])
        simp [hnn, htk]
        omega
      · simp [keepValid, hv] at hb hl hf
        have ih := rebuildItems_eq rest ⟨cB, cL, cF, li, fi⟩ hrest
          (by simpa using hb) (by simpa using hl) (by simpa using hf) h1 h2
        simpa [rebuildItems, keepValid, hv] using ih

theorem rebuildFav_eq (f : Fav) (h : wfFav f = true) : rebuildFav f = .ok (canon f) := by
  obtain ⟨nB, nL, nF, items⟩ := f
  simp [wfFav] at h
  obtain ⟨⟨_, hfit⟩, hw⟩ := h
  have hfk := fitsLevel_keepValid items hfit
  obtain ⟨kb, kl, kf, kn⟩ := fits_bounds hfk
  have ih := rebuildItems_eq items {} hw (by simp; omega) (by simp; omega) (by simp; omega) (by simp) (by simp)
  have ht := total16_of_fits _ hfk
  have hnn : ¬ (32768 ≤ (keepValid items).length) := by omega
  have htk : List.take (keepValid items).length (renumFrom 0 0 (keepValid items))
      = renumFrom 0 0 (keepValid items) := List.take_of_length_le (by simp [renumFrom_length])
  simp [rebuildFav, canon, renumFav, keepValidFav, ih, ht, neg16, hnn, htk, renumFrom_length,
    bind, Except.bind, pure, Except.pure]

theorem keepValid_of_noRebuild : ∀ (items : List Item), wfItems items = true → needRebuild items = false →
    keepValid items = items
  | [], _, _ => by simp [keepValid]
  | .board a .. :: rest, h, hn => by
      simp [wfItems] at h
      simp [needRebuild, Item.attr] at hn
      simp [keepValid, hn.1, keepValid_of_noRebuild rest h.2 hn.2]
  | .line a _ :: rest, h, hn => by
      simp [wfItems] at h
      simp [needRebuild, Item.attr] at hn
      simp [keepValid, hn.1, keepValid_of_noRebuild rest h.2 hn.2]
  | .folder a fid t nB nL nF sub :: rest, h, hn => by
      simp [wfItems] at h
      obtain ⟨⟨⟨⟨⟨⟨_, hB⟩, hL⟩, hF⟩, _⟩, hsub⟩, hrest⟩ := h
      simp [needRebuild] at hn
      simp [keepValid, hn.1, keepValid_of_noRebuild rest hrest hn.2.2, keepValid_of_noRebuild sub hsub hn.2.1,
        hB, hL, hF]

theorem renumFrom_idem : ∀ (items : List Item) (l f : Nat),
    renumFrom l f (renumFrom l f items) = renumFrom l f items
  | [], _, _ => by simp [renumFrom]
  | .board .. :: rest, l, f => by simp [renumFrom, renumFrom_idem rest]
  | .line .. :: rest, l, f => by simp [renumFrom, renumFrom_idem rest]
  | .folder _ _ _ _ _ _ sub :: rest, l, f => by simp [renumFrom, renumFrom_idem rest, renumFrom_idem sub]

theorem wfFav_canon (f : Fav) (h : wfFav f = true) : wfFav (canon f) = true := by
  simp [canon, wfFav_renum, wfFav_keepValid f h]

/-- `cleanup` yields a well-formed tree whose loaded form is `canon f`. -/
theorem cleanup_spec (f : Fav) (h : wfFav f = true) :
    ∃ g, cleanup f = .ok g ∧ wfFav g = true ∧ renumFav g = canon f := by
  by_cases hn : needRebuild f.items = true
  · refine ⟨canon f, by simp [cleanup, hn, rebuildFav_eq f h], wfFav_canon f h, ?_⟩
    simp [canon, renumFav, renumFrom_idem]
  · refine ⟨f, by simp [cleanup, hn], h, ?_⟩
    simp at hn
    obtain ⟨nB, nL, nF, items⟩ := f
    simp [wfFav] at h
    simp [canon, renumFav, keepValidFav, keepValid_of_noRebuild items h.2 hn, h.1.1.1.1, h.1.1.1.2, h.1.1.2]

/-- save then load: the entries with the FAV bit, in order, renumbered, counters recounted. -/
theorem save_load (f : Fav) (h : wfFav f = true) :
    ∃ bytes, saveBytes f = .ok bytes ∧ load bytes = .ok (some (canon f)) := by
  obtain ⟨g, hc, hg, hr⟩ := cleanup_spec f h
  refine ⟨le16 VERSION ++ serFav g, by simp [saveBytes, hc, writeFavrec_eq g hg, bind, Except.bind, pure, Except.pure], ?_⟩
  have := load_ser g (VERSION % 256) (VERSION / 256 % 256) hg
  rw [hr] at this
  simpa [le16] using this

/-! ### trees grown through AddBoard / AddLine / AddFolder -/

/-- every entry (at every depth) carries the FAV bit. -/
def allValid : List Item → Bool
  | [] => true
  | .folder a _ _ _ _ _ sub :: rest => isValidAttr a && allValid sub && allValid rest
  | it :: rest => isValidAttr it.attr && allValid rest

/-- lines and folders are numbered `l+1, l+2, …` / `f+1, f+2, …` in order, from 1 in every folder. -/
def idsSeq : Nat → Nat → List Item → Bool
  | _, _, [] => true
  | l, f, .board .. :: rest => idsSeq l f rest
  | l, f, .line _ lid :: rest => lid == l + 1 && idsSeq (l + 1) f rest
  | l, f, .folder _ fid _ _ _ _ sub :: rest => fid == f + 1 && idsSeq 0 0 sub && idsSeq l (f + 1) rest

/-- what holds of every tree the API builds from the empty tree. -/
def ApiInv (f : Fav) : Prop := wfFav f = true ∧ allValid f.items = true ∧ idsSeq 0 0 f.items = true

theorem wfItems_append : ∀ (a b : List Item), wfItems (a ++ b) = (wfItems a && wfItems b)
  | [], b => by simp [wfItems]
  | .board .. :: r, b => by simp [wfItems, wfItems_append r b, Bool.and_assoc]
  | .line .. :: r, b => by simp [wfItems, wfItems_append r b, Bool.and_assoc]
  | .folder .. :: r, b => by simp [wfItems, wfItems_append r b, Bool.and_assoc]

theorem allValid_append : ∀ (a b : List Item), allValid (a ++ b) = (allValid a && allValid b)
  | [], b => by simp [allValid]
  | .board .. :: r, b => by simp [allValid, allValid_append r b, Bool.and_assoc]
  | .line .. :: r, b => by simp [allValid, allValid_append r b, Bool.and_assoc]
  | .folder .. :: r, b => by simp [allValid, allValid_append r b, Bool.and_assoc]

theorem idsSeq_append : ∀ (a b : List Item) (l f : Nat),
    idsSeq l f (a ++ b) = (idsSeq l f a && idsSeq (l + cntL a) (f + cntF a) b)
  | [], b, l, f => by simp [idsSeq]
  | .board .. :: r, b, l, f => by
      simp [idsSeq, idsSeq_append r b, Item.isLine, Item.isFolder]
  | .line .. :: r, b, l, f => by
      simp [idsSeq, idsSeq_append r b, Item.isLine, Item.isFolder, Bool.and_assoc, Nat.add_assoc, Nat.add_comm 1]
  | .folder .. :: r, b, l, f => by
      simp [idsSeq, idsSeq_append r b, Item.isLine, Item.isFolder, Bool.and_assoc, Nat.add_assoc, Nat.add_comm 1]

theorem totalCount_append : ∀ (a b : List Item), totalCount (a ++ b) = totalCount a + totalCount b
  | [], b => by simp [totalCount]
  | .board .. :: r, b => by simp [totalCount, totalCount_append r b]; omega
  | .line .. :: r, b => by simp [totalCount, totalCount_append r b]; omega
  | .folder .. :: r, b => by simp [totalCount, totalCount_append r b]; omega

theorem length_le_totalCount : ∀ (items : List Item), items.length ≤ totalCount items
  | [] => by simp [totalCount]
  | .board .. :: r => by have := length_le_totalCount r; simp [totalCount]; omega
  | .line .. :: r => by have := length_le_totalCount r; simp [totalCount]; omega
  | .folder .. :: r => by have := length_le_totalCount r; simp [totalCount]; omega

theorem split_at : ∀ (items : List Item) (i : Nat) (x : Item), items[i]? = some x →
    ∃ a b, items = a ++ x :: b ∧ ∀ y, items.set i y = a ++ y :: b
  | [], i, x, h => by simp at h
  | it :: r, 0, x, h => by
      simp at h; subst h
      exact ⟨[], r, by simp, by simp⟩
  | it :: r, i + 1, x, h => by
      simp at h
      obtain ⟨a, b, e, hs⟩ := split_at r i x h
      exact ⟨it :: a, b, by simp [e], by intro y; simp [hs y]⟩

theorem MAX_BOARD_lt : MAX_BOARD < 4294967296 := by decide
theorem isValid_FAV : isValidAttr FAVH_FAV = true := by decide
theorem isValid_one : isValidAttr 1 = true := by decide

theorem addHere_inv (full : Bool) (k : AddKind) (f g : Fav) (hinv : ApiInv f)
    (hfull : full = false → totalCount f.items < MAX_FAV) (hadd : addHere full k f = .added g) :
    ApiInv g ∧ totalCount g.items = totalCount f.items + 1 := by
  obtain ⟨nB, nL, nF, items⟩ := f
  obtain ⟨hw, hv, hi⟩ := hinv
  simp [wfFav] at hw
  obtain ⟨⟨⟨⟨hB, hL⟩, hF⟩, hfit⟩, hwi⟩ := hw
  subst hB hL hF
  obtain ⟨kb, kl, kf, kn⟩ := fits_bounds hfit
  have hlen := length_le_totalCount items
  have hsum := cnt_sum items
  cases k with
  | board bid =>
    simp only [addHere] at hadd
    split at hadd
    · simp at hadd
    · rename_i hb
      split at hadd
      · simp at hadd
      · split at hadd
        · simp at hadd
        · rename_i hnf
          simp at hnf
          have ht := hfull hnf
          simp at ht hb
          have hbid : bid < 4294967296 := by have := MAX_BOARD_lt; omega
          simp at hadd; subst hadd
          refine ⟨⟨?_, ?_, ?_⟩, ?_⟩
          · simp [wfFav, wfItems_append, wfItems, rtOK, hwi, hbid, cntB_append, cntL_append, cntF_append,
              fitsLevel, Item.isBoard, Item.isLine, Item.isFolder]
            omega
          · simp [allValid_append, allValid, hv, Item.attr, isValid_one]
          · simp [idsSeq_append, idsSeq, hi]
          · simp [totalCount_append, totalCount]
  | line =>
    simp only [addHere] at hadd
    split at hadd
    · simp at hadd
    · rename_i hnf
      simp at hnf
      have ht := hfull hnf
      simp at ht
      split at hadd
      · simp at hadd
      · rename_i hlim
        simp [neg8] at hlim
        have : cntL items < 64 := by
          by_cases h128 : 128 ≤ cntL items
          · omega
          · exact hlim (by omega)
        simp at hadd; subst hadd
        have e : (cntL items + 1) % 256 = cntL items + 1 := by omega
        refine ⟨⟨?_, ?_, ?_⟩, ?_⟩
        · simp [wfFav, wfItems_append, wfItems, rtOK, hwi, cntB_append, cntL_append, cntF_append,
            fitsLevel, Item.isBoard, Item.isLine, Item.isFolder, e]
          omega
        · simp [allValid_append, allValid, hv, Item.attr, isValid_one]
        · simp [idsSeq_append, idsSeq, hi, e]
        · simp [totalCount_append, totalCount]
  | folder =>
    simp only [addHere] at hadd
    split at hadd
    · simp at hadd
    · rename_i hnf
      simp at hnf
      have ht := hfull hnf
      simp at ht
      split at hadd
      · simp at hadd
      · rename_i hlim
        simp [neg8] at hlim
        have : cntF items < 64 := by
          by_cases h128 : 128 ≤ cntF items
          · omega
          · exact hlim (by omega)
        simp at hadd; subst hadd
        have e : (cntF items + 1) % 256 = cntF items + 1 := by omega
        refine ⟨⟨?_, ?_, ?_⟩, ?_⟩
        · simp [wfFav, wfItems_append, wfItems, rtOK, hwi, cntB_append, cntL_append, cntF_append,
            fitsLevel, Item.isBoard, Item.isLine, Item.isFolder, e]
          omega
        · simp [allValid_append, allValid, hv, isValid_one]
        · simp [idsSeq_append, idsSeq, hi, e]
        · simp [totalCount_append, totalCount]

theorem addAt_inv (full : Bool) (k : AddKind) : ∀ (path : List Nat) (f g : Fav), ApiInv f →
    (full = false → totalCount f.items < MAX_FAV) → addAt full k path f = .added g →
    ApiInv g ∧ totalCount g.items = totalCount f.items + 1
  | [], f, g, hinv, hfull, hadd => addHere_inv full k f g hinv hfull (by simpa [addAt] using hadd)
  | i :: p, f, g, hinv, hfull, hadd => by
      obtain ⟨fB, fL, fF, items⟩ := f
      simp only [addAt] at hadd
      split at hadd
      · rename_i a0 fid t nB nL nF sub hget
        obtain ⟨a, b, e, hset⟩ := split_at items i _ hget
        obtain ⟨hw, hv, hi⟩ := hinv
        simp only [] at hw hv hi hfull
        subst e
        simp [wfFav, wfItems_append, wfItems, cntB_append, cntL_append, cntF_append,
          Item.isBoard, Item.isLine, Item.isFolder] at hw
        simp [allValid_append, allValid] at hv
        simp [idsSeq_append, idsSeq] at hi
        simp [totalCount_append, totalCount] at hfull
        obtain ⟨⟨⟨⟨hB, hL⟩, hF⟩, hfit⟩, hwa, ⟨⟨⟨⟨⟨hrt, hsB⟩, hsL⟩, hsF⟩, hsfit⟩, hws⟩, hwb⟩ := hw
        have hsub : ApiInv ⟨nB, nL, nF, sub⟩ := by
          refine ⟨?_, hv.2.1.2, hi.2.1.2⟩
          simp [wfFav, hsB, hsL, hsF, hsfit, hws]
        split at hadd
        · rename_i g' hrec
          have ih := addAt_inv full k p ⟨nB, nL, nF, sub⟩ g' hsub
            (by intro hf; have := hfull hf; simp at this ⊢; omega) hrec
          obtain ⟨⟨hw', hv', hi'⟩, ht'⟩ := ih
          simp at hadd; subst hadd
          simp only [hset]
          simp [wfFav] at hw'
          refine ⟨⟨?_, ?_, ?_⟩, ?_⟩
          · simp [wfFav, wfItems_append, wfItems, cntB_append, cntL_append, cntF_append,
              Item.isBoard, Item.isLine, Item.isFolder, hB, hL, hF, hwa, hwb, hw'.2, hw'.1.2,
              hw'.1.1.1.1, hw'.1.1.1.2, hw'.1.1.2]
            refine ⟨?_, by simpa [rtOK] using hrt⟩
            simpa [fitsLevel, cntL_append, cntF_append, Item.isLine, Item.isFolder] using hfit
          · simp [allValid_append, allValid, hv.1, hv.2.1.1, hv.2.2, hv']
          · simp [idsSeq_append, idsSeq, hi.1, hi.2.1.1, hi.2.2, hi']
          · simp [totalCount_append, totalCount] at ht' ⊢
            omega
        · simp at hadd
        · simp at hadd
      · simp at hadd

theorem noRebuild_of_allValid : ∀ (items : List Item), allValid items = true → needRebuild items = false
  | [], _ => by simp [needRebuild]
  | .board .. :: rest, h => by
      simp [allValid, Item.attr] at h
      simp [needRebuild, Item.attr, h.1, noRebuild_of_allValid rest h.2]
  | .line .. :: rest, h => by
      simp [allValid, Item.attr] at h
      simp [needRebuild, Item.attr, h.1, noRebuild_of_allValid rest h.2]
  | .folder _ _ _ _ _ _ sub :: rest, h => by
      simp [allValid] at h
      simp [needRebuild, h.1.1, noRebuild_of_allValid rest h.2, noRebuild_of_allValid sub h.1.2]

theorem renumFrom_of_idsSeq : ∀ (items : List Item) (l f : Nat), idsSeq l f items = true →
    wfItems items = true → l + cntL items < 256 → f + cntF items < 256 → renumFrom l f items = items
  | [], _, _, _, _, _, _ => by simp [renumFrom]
  | .board .. :: rest, l, f, hi, hw, hl, hf => by
      simp [idsSeq] at hi
      simp [wfItems] at hw
      simp [Item.isLine, Item.isFolder] at hl hf
      simp [renumFrom, renumFrom_of_idsSeq rest l f hi hw.2 hl hf]
  | .line a lid :: rest, l, f, hi, hw, hl, hf => by
      simp [idsSeq] at hi
      simp [wfItems] at hw
      simp [Item.isLine, Item.isFolder] at hl hf
      have e : (l + 1) % 256 = l + 1 := by omega
      simp [renumFrom, e, hi.1, renumFrom_of_idsSeq rest (l + 1) f hi.2 hw.2 (by omega) hf]
  | .folder a fid t nB nL nF sub :: rest, l, f, hi, hw, hl, hf => by
      simp [idsSeq] at hi
      simp [wfItems] at hw
      simp [Item.isLine, Item.isFolder] at hl hf
      obtain ⟨⟨⟨⟨⟨⟨_, _⟩, _⟩, _⟩, hfit⟩, hws⟩, hwr⟩ := hw
      obtain ⟨_, kl, kf, _⟩ := fits_bounds hfit
      have e : (f + 1) % 256 = f + 1 := by omega
      simp [renumFrom, e, hi.1.1, renumFrom_of_idsSeq rest l (f + 1) hi.2 hwr hl (by omega),
        renumFrom_of_idsSeq sub 0 0 hi.1.2 hws (by omega) (by omega)]

theorem canon_of_apiInv (f : Fav) (h : ApiInv f) : canon f = f := by
  obtain ⟨hw, hv, hi⟩ := h
  obtain ⟨nB, nL, nF, items⟩ := f
  simp [wfFav] at hw
  obtain ⟨⟨⟨⟨hB, hL⟩, hF⟩, hfit⟩, hwi⟩ := hw
  obtain ⟨_, kl, kf, _⟩ := fits_bounds hfit
  have hk := keepValid_of_noRebuild items hwi (noRebuild_of_allValid items hv)
  simp [canon, renumFav, keepValidFav, hk, hB, hL, hF,
    renumFrom_of_idsSeq items 0 0 hi hwi (by omega) (by omega)]

theorem apiInv_empty : ApiInv emptyFav := by
  refine ⟨?_, ?_, ?_⟩ <;> simp [emptyFav, allValid, idsSeq, wfFav, wfItems, fitsLevel]

theorem addHere_full (k : AddKind) (f g : Fav) : addHere true k f = .added g → False := by
  intro h
  cases k with
  | board bid =>
    simp only [addHere] at h
    split at h
    · simp at h
    · split at h <;> simp at h
  | line => simp [addHere] at h
  | folder => simp [addHere] at h

theorem addAt_full (k : AddKind) : ∀ (p : List Nat) (f g : Fav), addAt true k p f = .added g → False
  | [], f, g, h => addHere_full k f g (by simpa [addAt] using h)
  | i :: p, f, g, h => by
      simp only [addAt] at h
      split at h
      · split at h
        · rename_i hrec; exact addAt_full k p _ _ hrec
        · simp at h
        · simp at h
      · simp at h

/-! ### sizes and byte ranges of the serialisation -/

def deepB : List Item → Nat
  | [] => 0
  | .board .. :: r => 1 + deepB r
  | .folder _ _ _ _ _ _ sub :: r => deepB sub + deepB r
  | _ :: r => deepB r
def deepL : List Item → Nat
  | [] => 0
  | .line .. :: r => 1 + deepL r
  | .folder _ _ _ _ _ _ sub :: r => deepL sub + deepL r
  | _ :: r => deepL r
def deepF : List Item → Nat
  | [] => 0
  | .folder _ _ _ _ _ _ sub :: r => 1 + deepF sub + deepF r
  | _ :: r => deepF r

theorem encEntry_length (it : Item) (h : rtOK it = true) :
    (encEntry it).length = if it.isBoard then 14 else if it.isLine then 3 else 52 := by
  cases it with
  | board => simp [encEntry, le32, Item.isBoard]
  | line => simp [encEntry, Item.isBoard, Item.isLine]
  | folder a fid t =>
    simp [rtOK] at h
    simp [encEntry, Item.isBoard, Item.isLine, h]

theorem encEntries_length : ∀ (items : List Item), (∀ it ∈ items, rtOK it = true) →
    (encEntries items).length = 14 * cntB items + 3 * cntL items + 52 * cntF items
  | [], _ => by simp [encEntries]
  | it :: r, h => by
      have h1 := encEntry_length it (h it (by simp))
      have h2 := encEntries_length r (fun x hx => h x (by simp [hx]))
      simp only [encEntries] at h2
      simp only [encEntries, List.flatMap_cons, List.length_append, h1, h2]
      cases it <;> simp [Item.isBoard, Item.isLine, Item.isFolder] <;> omega

theorem deep_level : ∀ (items : List Item),
    cntB items ≤ deepB items ∧ cntL items ≤ deepL items ∧ cntF items ≤ deepF items
  | [] => by simp [deepB, deepL, deepF]
  | .board .. :: r => by
      have := deep_level r; simp [deepB, deepL, deepF, Item.isBoard, Item.isLine, Item.isFolder]; omega
  | .line .. :: r => by
      have := deep_level r; simp [deepB, deepL, deepF, Item.isBoard, Item.isLine, Item.isFolder]; omega
  | .folder .. :: r => by
      have := deep_level r; simp [deepB, deepL, deepF, Item.isBoard, Item.isLine, Item.isFolder]; omega

theorem serSubs_length : ∀ (items : List Item), wfItems items = true →
    (serSubs items).length + 14 * cntB items + 3 * cntL items + 52 * cntF items
      = 4 * deepF items + 14 * deepB items + 3 * deepL items + 52 * deepF items
  | [], _ => by simp [serSubs, deepB, deepL, deepF]
  | .board .. :: r, h => by
      simp [wfItems] at h
      have := serSubs_length r h.2
      simp [serSubs, deepB, deepL, deepF, Item.isBoard, Item.isLine, Item.isFolder]; omega
  | .line .. :: r, h => by
      simp [wfItems] at h
      have := serSubs_length r h.2
      simp [serSubs, deepB, deepL, deepF, Item.isBoard, Item.isLine, Item.isFolder]; omega
  | .folder _ _ _ nB nL nF sub :: r, h => by
      simp [wfItems] at h
      obtain ⟨⟨⟨⟨⟨⟨_, _⟩, _⟩, _⟩, _⟩, hws⟩, hwr⟩ := h
      have h1 := serSubs_length r hwr
      have h2 := serSubs_length sub hws
      have h3 := encEntries_length sub (rtOK_of_wf sub hws)
      simp [serSubs, deepB, deepL, deepF, Item.isBoard, Item.isLine, Item.isFolder, hdr, le16, h3]; omega

/-- every field is the image of a byte (so the model's "bytes" are bytes). -/
def bytesOK : List Item → Bool
  | [] => true
  | .board a _ _ ba :: r => decide (a < 256) && decide (ba < 256) && bytesOK r
  | .line a l :: r => decide (a < 256) && decide (l < 256) && bytesOK r
  | .folder a fid t _ _ _ sub :: r =>
      decide (a < 256) && decide (fid < 256) && t.all (fun b => decide (b < 256)) && bytesOK sub && bytesOK r

theorem encEntries_bytes : ∀ (items : List Item), bytesOK items = true → ∀ b ∈ encEntries items, b < 256
  | [], _, b, hb => by simp [encEntries] at hb
  | .board a bid lv ba :: r, h, b, hb => by
      simp [bytesOK] at h
      simp only [encEntries, List.flatMap_cons, List.mem_append] at hb
      rcases hb with hb | hb
      · simp [encEntry, le32] at hb
        omega
      · exact encEntries_bytes r h.2 b hb
  | .line a l :: r, h, b, hb => by
      simp [bytesOK] at h
      simp only [encEntries, List.flatMap_cons, List.mem_append] at hb
      rcases hb with hb | hb
      · simp [encEntry] at hb
        omega
      · exact encEntries_bytes r h.2 b hb
  | .folder a fid t _ _ _ sub :: r, h, b, hb => by
      simp [bytesOK] at h
      simp only [encEntries, List.flatMap_cons, List.mem_append] at hb
      rcases hb with hb | hb
      · simp [encEntry] at hb
        rcases hb with hb | hb | hb | hb
        · omega
        · omega
        · omega
        · exact h.1.1.2 b hb
      · exact encEntries_bytes r h.2 b hb

theorem serSubs_bytes : ∀ (items : List Item), bytesOK items = true → wfItems items = true →
    ∀ b ∈ serSubs items, b < 256
  | [], _, _, b, hb => by simp [serSubs] at hb
  | .board .. :: r, h, hw, b, hb => by
      simp [bytesOK] at h; simp [wfItems] at hw
      exact serSubs_bytes r h.2 hw.2 b (by simpa [serSubs] using hb)
  | .line .. :: r, h, hw, b, hb => by
      simp [bytesOK] at h; simp [wfItems] at hw
      exact serSubs_bytes r h.2 hw.2 b (by simpa [serSubs] using hb)
  | .folder _ _ _ nB nL nF sub :: r, h, hw, b, hb => by
      simp [bytesOK] at h; simp [wfItems] at hw
      obtain ⟨⟨⟨⟨⟨⟨_, _⟩, hL⟩, hF⟩, hfit⟩, hws⟩, hwr⟩ := hw
      obtain ⟨_, kl, kf, _⟩ := fits_bounds hfit
      simp only [serSubs, List.mem_append] at hb
      rcases hb with ((hb | hb) | hb) | hb
      · simp [hdr, le16] at hb; omega
      · exact encEntries_bytes sub h.1.2 b hb
      · exact serSubs_bytes sub h.1.2 hws b hb
      · exact serSubs_bytes r h.2 hwr b hb

/-! ### FavNum -/

theorem favSum_eq : ∀ (items : List Item), totalCount items < 65536 →
    items.length + subFavSum items = totalCount items
  | [], _ => by simp [subFavSum, totalCount]
  | .board .. :: r, h => by
      simp [totalCount] at h
      have := favSum_eq r (by omega)
      simp [subFavSum, totalCount]; omega
  | .line .. :: r, h => by
      simp [totalCount] at h
      have := favSum_eq r (by omega)
      simp [subFavSum, totalCount]; omega
  | .folder _ _ _ _ _ _ sub :: r, h => by
      simp [totalCount] at h
      have h1 := favSum_eq r (by omega)
      have h2 := favSum_eq sub (by omega)
      simp [subFavSum, totalCount, h2]; omega

/-! ### the save as a system-call sequence -/

/-- a step that only creates or writes the file `n`. -/
def onlyFile (n : String) : Step → Prop
  | .create m => m = n
  | .write m _ => m = n
  | .rename _ _ => False

theorem run_other (n other : String) (hne : other ≠ n) : ∀ (steps : List Step) (fs : FS),
    (∀ s ∈ steps, onlyFile n s) → run fs steps other = fs other := by
  intro steps
  induction steps with
  | nil => intro fs _; rfl
  | cons s r ih =>
    intro fs h
    have hs := h s (by simp)
    have hr : ∀ x ∈ r, onlyFile n x := fun x hx => h x (by simp [hx])
    simp only [run, List.foldl_cons]
    have := ih (applyStep fs s) hr
    simp only [run] at this
    rw [this]
    cases s with
    | create m => simp [onlyFile] at hs; subst hs; simp [applyStep, FS.set, hne]
    | write m d =>
      simp [onlyFile] at hs; subst hs
      simp only [applyStep]
      cases hfm : fs m <;> simp [FS.set, hne]
    | rename a b => simp [onlyFile] at hs

theorem run_writes (tmp : String) : ∀ (chunks : List (List Nat)) (fs : FS) (acc : List Nat), fs tmp = some acc →
    run fs (chunks.map (Step.write tmp)) tmp = some (acc ++ chunks.flatten) := by
  intro chunks
  induction chunks with
  | nil => intro fs acc h; simp [run, h]
  | cons c r ih =>
    intro fs acc h
    simp only [run, List.map_cons, List.foldl_cons]
    have h' : applyStep fs (Step.write tmp c) tmp = some (acc ++ c) := by simp [applyStep, h, FS.set]
    have := ih _ _ h'
    simp only [run] at this
    simp [this]

theorem run_append (fs : FS) (a b : List Step) : run fs (a ++ b) = run (run fs a) b := by
  simp [run, List.foldl_append]

/-- after any prefix of `create tmp; write tmp …; rename tmp .fav` the file `.fav` is the old or the whole new content. -/
theorem atomic_prefix (fs : FS) (tmp : String) (hne : tmp ≠ FAVFILE) (chunks : List (List Nat)) (k : Nat) :
    run fs ((atomicSteps tmp chunks).take k) FAVFILE = fs FAVFILE
      ∨ run fs ((atomicSteps tmp chunks).take k) FAVFILE = some chunks.flatten := by
  let pre : List Step := .create tmp :: chunks.map (Step.write tmp)
  have hpre : ∀ s ∈ pre, onlyFile tmp s := by
    intro s hs
    simp only [pre, List.mem_cons, List.mem_map] at hs
    rcases hs with rfl | ⟨c, _, rfl⟩ <;> simp [onlyFile]
  have hsteps : atomicSteps tmp chunks = pre ++ [.rename tmp FAVFILE] := by simp [atomicSteps, pre]
  by_cases hk : k ≤ pre.length
  · left
    have : (atomicSteps tmp chunks).take k = pre.take k := by
      rw [hsteps, List.take_append_of_le_length hk]
    rw [this]
    exact run_other tmp FAVFILE (Ne.symm hne) _ fs (fun s hs => hpre s (List.mem_of_mem_take hs))
  · right
    have : (atomicSteps tmp chunks).take k = pre ++ [.rename tmp FAVFILE] := by
      rw [hsteps]; apply List.take_of_length_le; simp; omega
    rw [this, run_append]
    have hc : run fs pre tmp = some chunks.flatten := by
      have h0 : applyStep fs (.create tmp) tmp = some [] := by simp [applyStep, FS.set]
      have := run_writes tmp chunks _ [] h0
      simpa [pre, run] using this
    generalize run fs pre = fs1 at hc
    simp [run, applyStep, hc, FS.set, Ne.symm hne]

/-! ### overlapping savers -/

theorem writeAt_end (d c : List Nat) : writeAt d d.length c = d ++ c := by
  simp [writeAt]

theorem renamed_name (f : String → Option Nat) (F t a : String) (ino x : Nat) :
    setName (setName f F (some ino)) t none a = some x ↔
      a ≠ t ∧ ((a = F ∧ x = ino) ∨ (a ≠ F ∧ f a = some x)) := by
  by_cases e1 : a = t <;> by_cases e2 : a = F <;> simp [setName, e1, e2, eq_comm]

/-- the names the savers and the readers care about. -/
def InS (tmp : Nat → String) (a : String) : Prop := a = FAVFILE ∨ ∃ i, a = tmp i

structure CInv (tmp : Nat → String) (chunks : Nat → List (List Nat)) (old : Option (List Nat)) (c : Conc) :
    Prop where
  /-- `.fav` and the temporary names are not hard links of one another -/
  inj : ∀ a b x, InS tmp a → InS tmp b → c.w.names a = some x → c.w.names b = some x → a = b
  fresh : ∀ a x, InS tmp a → c.w.names a = some x → x < c.w.next
  /-- a saver in the middle of its writes owns the inode under its temporary name; it holds what was written -/
  wr : ∀ i ino off rest, c.st i = .writing ino off rest →
    c.w.names (tmp i) = some ino ∧ ∃ dn, chunks i = dn ++ rest ∧ c.w.data ino = dn.flatten ∧ off = dn.flatten.length
  fav : c.w.read FAVFILE = old ∨ ∃ i, c.w.read FAVFILE = some (chunks i).flatten
  fin : (∃ i, c.st i = .done) → ∃ j, c.w.read FAVFILE = some (chunks j).flatten

theorem concStep_inv (tmp : Nat → String) (chunks : Nat → List (List Nat)) (old : Option (List Nat))
    (htmp : ∀ i j, tmp i = tmp j → i = j) (hne : ∀ i, tmp i ≠ FAVFILE)
    (c : Conc) (i : Nat) (h : CInv tmp chunks old c) : CInv tmp chunks old (concStep tmp chunks c i) := by
  obtain ⟨hinj, hfresh, hwr, hfav, hfin⟩ := h
  have hSi : InS tmp (tmp i) := Or.inr ⟨i, rfl⟩
  have hSf : InS tmp FAVFILE := Or.inl rfl
  unfold concStep
  cases hst : c.st i with
  | idle =>
    simp only []
    cases hn : c.w.names (tmp i) with
    | some ino =>
      simp only []
      -- truncation of an existing temporary file
      have hfavne : ∀ x, c.w.names FAVFILE = some x → x ≠ ino := by
        intro x hx e; subst e
        exact hne i (hinj _ _ _ hSi hSf hn hx)
      have hreadfav : World.read { c.w with data := setData c.w.data ino [] } FAVFILE = c.w.read FAVFILE := by
        simp only [World.read]
        cases hf : c.w.names FAVFILE with
        | none => rfl
        | some x => simp [setData, hfavne x hf]
      refine ⟨hinj, hfresh, ?_, by rw [hreadfav]; exact hfav, ?_⟩
      · intro j ino' off rest hj
        by_cases hji : j = i
        · subst hji
          simp [setSt] at hj
          obtain ⟨rfl, rfl, rfl⟩ := hj
          exact ⟨hn, [], by simp, by simp [setData], by simp⟩
        · simp [setSt, hji] at hj
          obtain ⟨hnj, dn, h1, h2, h3⟩ := hwr j ino' off rest hj
          have hne' : ino' ≠ ino := by
            intro e; subst e
            exact hji (htmp _ _ (hinj _ _ _ (Or.inr ⟨j, rfl⟩) hSi hnj hn))
          exact ⟨hnj, dn, h1, by simp [setData, hne', h2], h3⟩
      · intro ⟨j, hj⟩
        rw [hreadfav]
        by_cases hji : j = i
        · subst hji; simp [setSt] at hj
        · simp [setSt, hji] at hj; exact hfin ⟨j, hj⟩
    | none =>
      simp only []
      have hfavname : setName c.w.names (tmp i) (some c.w.next) FAVFILE = c.w.names FAVFILE := by
        simp [setName, Ne.symm (hne i)]
      have hreadfav : World.read (⟨setName c.w.names (tmp i) (some c.w.next),
          setData c.w.data c.w.next [], c.w.next + 1⟩ : World) FAVFILE = c.w.read FAVFILE := by
        simp only [World.read, hfavname]
        cases hf : c.w.names FAVFILE with
        | none => rfl
        | some x =>
          have := hfresh _ x hSf hf
          simp [setData, Nat.ne_of_lt this]
      refine ⟨?_, ?_, ?_, by rw [hreadfav]; exact hfav, ?_⟩
      · intro a b x ha hb hxa hxb
        simp only [setName] at hxa hxb
        by_cases ea : a = tmp i <;> by_cases eb : b = tmp i
        · rw [ea, eb]
        · simp [ea, eb] at hxa hxb; subst hxa
          exact absurd (hfresh _ _ hb hxb) (Nat.lt_irrefl _)
        · simp [ea, eb] at hxa hxb; subst hxb
          exact absurd (hfresh _ _ ha hxa) (Nat.lt_irrefl _)
        · simp [ea, eb] at hxa hxb; exact hinj _ _ _ ha hb hxa hxb
      · intro a x ha hxa
        simp only [setName] at hxa
        by_cases ea : a = tmp i
        · simp [ea] at hxa; subst hxa; exact Nat.lt_succ_self _
        · simp [ea] at hxa; exact Nat.lt_succ_of_lt (hfresh _ _ ha hxa)
      · intro j ino' off rest hj
        by_cases hji : j = i
        · subst hji
          simp [setSt] at hj
          obtain ⟨rfl, rfl, rfl⟩ := hj
          exact ⟨by simp [setName], [], by simp, by simp [setData], by simp⟩
        · simp [setSt, hji] at hj
          obtain ⟨hnj, dn, h1, h2, h3⟩ := hwr j ino' off rest hj
          have hlt := hfresh _ _ (Or.inr ⟨j, rfl⟩) hnj
          have hnn : tmp j ≠ tmp i := fun e => hji (htmp _ _ e)
          exact ⟨by simp [setName, hnn, hnj], dn, h1, by simp [setData, Nat.ne_of_lt hlt, h2], h3⟩
      · intro ⟨j, hj⟩
        rw [hreadfav]
        by_cases hji : j = i
        · subst hji; simp [setSt] at hj
        · simp [setSt, hji] at hj; exact hfin ⟨j, hj⟩
  | writing ino off rest =>
    obtain ⟨hn, dn, hch, hdata, hoff⟩ := hwr i ino off rest hst
    have hfavne : ∀ x, c.w.names FAVFILE = some x → x ≠ ino := by
      intro x hx e; subst e
      exact hne i (hinj _ _ _ hSi hSf hn hx)
    cases rest with
    | cons ch rest' =>
      simp only []
      have hreadfav : World.read { c.w with data := setData c.w.data ino (writeAt (c.w.data ino) off ch) } FAVFILE
          = c.w.read FAVFILE := by
        simp only [World.read]
        cases hf : c.w.names FAVFILE with
        | none => rfl
        | some x => simp [setData, hfavne x hf]
      refine ⟨hinj, hfresh, ?_, by rw [hreadfav]; exact hfav, ?_⟩
      · intro j ino' off' rest'' hj
        by_cases hji : j = i
        · subst hji
          simp [setSt] at hj
          obtain ⟨rfl, rfl, rfl⟩ := hj
          refine ⟨hn, dn ++ [ch], by simp [hch], ?_, by simp [hoff]⟩
          have e : setData c.w.data ino (writeAt (c.w.data ino) off ch) ino = writeAt (c.w.data ino) off ch := by
            simp [setData]
          show setData c.w.data ino (writeAt (c.w.data ino) off ch) ino = _
          rw [e, hdata, hoff, writeAt_end]; simp
        · simp [setSt, hji] at hj
          obtain ⟨hnj, dn', h1, h2, h3⟩ := hwr j ino' off' rest'' hj
          have hne' : ino' ≠ ino := by
            intro e; subst e
            exact hji (htmp _ _ (hinj _ _ _ (Or.inr ⟨j, rfl⟩) hSi hnj hn))
          exact ⟨hnj, dn', h1, by simp [setData, hne', h2], h3⟩
      · intro ⟨j, hj⟩
        rw [hreadfav]
        by_cases hji : j = i
        · subst hji; simp [setSt] at hj
        · simp [setSt, hji] at hj; exact hfin ⟨j, hj⟩
    | nil =>
      simp only [hn]
      have hnew : World.read { c.w with names := setName (setName c.w.names FAVFILE (some ino)) (tmp i) none } FAVFILE
          = some (chunks i).flatten := by
        simp [World.read, setName, Ne.symm (hne i), hdata, hch]
      refine ⟨?_, ?_, ?_, Or.inr ⟨i, hnew⟩, fun _ => ⟨i, hnew⟩⟩
      · intro a b x ha hb hxa hxb
        rcases (renamed_name _ _ _ _ _ _).mp hxa with ⟨ea, ⟨fa, xa⟩ | ⟨fa, na⟩⟩ <;>
          rcases (renamed_name _ _ _ _ _ _).mp hxb with ⟨eb, ⟨fb, xb⟩ | ⟨fb, nb⟩⟩
        · rw [fa, fb]
        · subst xa; exact absurd (hinj _ _ _ hb hSi nb hn) eb
        · subst xb; exact absurd (hinj _ _ _ ha hSi na hn) ea
        · exact hinj _ _ _ ha hb na nb
      · intro a x ha hxa
        rcases (renamed_name _ _ _ _ _ _).mp hxa with ⟨ea, ⟨fa, xa⟩ | ⟨fa, na⟩⟩
        · subst xa; exact hfresh _ _ hSi hn
        · exact hfresh _ _ ha na
      · intro j ino' off' rest'' hj
        by_cases hji : j = i
        · subst hji; simp [setSt] at hj
        · simp [setSt, hji] at hj
          obtain ⟨hnj, dn', h1, h2, h3⟩ := hwr j ino' off' rest'' hj
          have hnn : tmp j ≠ tmp i := fun e => hji (htmp _ _ e)
          exact ⟨by simp [setName, hnn, hne j, hnj], dn', h1, h2, h3⟩
  | done => exact ⟨hinj, hfresh, hwr, hfav, hfin⟩

theorem concRun_inv (tmp : Nat → String) (chunks : Nat → List (List Nat)) (old : Option (List Nat))
    (htmp : ∀ i j, tmp i = tmp j → i = j) (hne : ∀ i, tmp i ≠ FAVFILE) :
    ∀ (sched : List Nat) (c : Conc), CInv tmp chunks old c → CInv tmp chunks old (concRun tmp chunks c sched) := by
  intro sched
  induction sched with
  | nil => intro c h; exact h
  | cons i r ih =>
    intro c h
    simp only [concRun, List.foldl_cons]
    exact ih _ (concStep_inv tmp chunks old htmp hne c i h)

/-! ### the size of a legal file, and GetFavorites -/

theorem deep_total : ∀ (items : List Item), deepB items + deepL items + deepF items = totalCount items
  | [] => by simp [deepB, deepL, deepF, totalCount]
  | .board .. :: r => by have := deep_total r; simp [deepB, deepL, deepF, totalCount]; omega
  | .line .. :: r => by have := deep_total r; simp [deepB, deepL, deepF, totalCount]; omega
  | .folder _ _ _ _ _ _ sub :: r => by
      have := deep_total r; have := deep_total sub
      simp [deepB, deepL, deepF, totalCount]; omega

theorem MAX_FILE_eq : MAX_FILE = 57350 := by decide

theorem serFav_length (f : Fav) (h : wfFav f = true) :
    (serFav f).length = 4 * (1 + deepF f.items) + 14 * deepB f.items + 3 * deepL f.items + 52 * deepF f.items := by
  simp [wfFav] at h
  have h1 := serSubs_length f.items h.2
  have h2 := encEntries_length f.items (rtOK_of_wf f.items h.2)
  simp [serFav, hdr, le16, h2]
  omega

/-- a chain of `n` nested empty-titled folders: the most expensive tree per entry. -/
def chainItems : Nat → List Item
  | 0 => []
  | n + 1 => [.folder 1 1 (List.replicate 49 0) 0 0 (cntF (chainItems n)) (chainItems n)]

theorem chain_facts : ∀ n, wfItems (chainItems n) = true ∧ cntB (chainItems n) = 0 ∧ cntL (chainItems n) = 0
    ∧ cntF (chainItems n) ≤ 1 ∧ (chainItems n).length ≤ 1 ∧ totalCount (chainItems n) = n
    ∧ deepF (chainItems n) = n ∧ deepB (chainItems n) = 0 ∧ deepL (chainItems n) = 0
  | 0 => by simp [chainItems, wfItems, totalCount, deepF, deepB, deepL]
  | n + 1 => by
      obtain ⟨h1, h2, h3, h4, h5, h6, h7, h8, h9⟩ := chain_facts n
      simp [chainItems, wfItems, rtOK, fitsLevel, totalCount, deepF, deepB, deepL, Item.isBoard, Item.isLine,
        Item.isFolder, h1, h2, h3, h6, h7, h8, h9]
      omega

def chainFav (n : Nat) : Fav := ⟨0, 0, cntF (chainItems n), chainItems n⟩

theorem chainFav_wf (n : Nat) : wfFav (chainFav n) = true := by
  obtain ⟨h1, h2, h3, h4, h5, _⟩ := chain_facts n
  simp [wfFav, chainFav, h1, h2, h3, fitsLevel]
  refine ⟨decide_eq_true ?_, decide_eq_true ?_⟩ <;> omega

theorem chainFav_length (n : Nat) : (serFav (chainFav n)).length = 4 + 56 * n := by
  obtain ⟨_, _, _, _, _, _, h7, h8, h9⟩ := chain_facts n
  rw [serFav_length _ (chainFav_wf n)]
  simp [chainFav, h7, h8, h9]
  omega

/-- the regenerated read limit of GetFavorites, if any, is not below the largest legal file. -/
def limitOK : Bool :=
  match GET_LIMIT with
  | none => true
  | some n => decide (MAX_FILE ≤ n)

theorem readAllLimited_id (c : List Nat) (hl : limitOK = true) (hc : c.length ≤ MAX_FILE) :
    readAllLimited GET_LIMIT c = c := by
  unfold limitOK at hl
  cases h : GET_LIMIT with
  | none => simp [readAllLimited]
  | some n =>
    rw [h] at hl
    simp at hl
    simp only [readAllLimited]
    exact List.take_of_length_le (by omega)

theorem totalCount_renum : ∀ (items : List Item) (l f : Nat), totalCount (renumFrom l f items) = totalCount items
  | [], _, _ => by simp [renumFrom]
  | .board .. :: r, l, f => by simp [renumFrom, totalCount, totalCount_renum r]
  | .line .. :: r, l, f => by simp [renumFrom, totalCount, totalCount_renum r]
  | .folder _ _ _ _ _ _ sub :: r, l, f => by simp [renumFrom, totalCount, totalCount_renum r, totalCount_renum sub]

theorem totalCount_keepValid : ∀ (items : List Item), totalCount (keepValid items) ≤ totalCount items
  | [] => by simp [keepValid]
  | .board a .. :: r => by
      have := totalCount_keepValid r
      by_cases hv : isValidAttr a = true <;> simp [keepValid, hv, totalCount] <;> omega
  | .line a _ :: r => by
      have := totalCount_keepValid r
      by_cases hv : isValidAttr a = true <;> simp [keepValid, hv, totalCount] <;> omega
  | .folder a _ _ _ _ _ sub :: r => by
      have := totalCount_keepValid r
      have := totalCount_keepValid sub
      by_cases hv : isValidAttr a = true <;> simp [keepValid, hv, totalCount] <;> omega

/-! ### every folder of a well-formed tree -/

/-- the `FavRaw` reached from the root through the entry indices `path` (each must name a folder). -/
def levelAt : List Nat → Fav → Option Fav
  | [], f => some f
  | i :: p, f =>
    match f.items[i]? with
    | some (.folder _ _ _ nB nL nF sub) => levelAt p ⟨nB, nL, nF, sub⟩
    | _ => none

theorem wf_levelAt : ∀ (path : List Nat) (f g : Fav), wfFav f = true → levelAt path f = some g → wfFav g = true
  | [], f, g, h, hl => by simp [levelAt] at hl; subst hl; exact h
  | i :: p, f, g, h, hl => by
      simp only [levelAt] at hl
      split at hl
      · rename_i a fid t nB nL nF sub hget
        obtain ⟨x, y, e, _⟩ := split_at f.items i _ hget
        simp [wfFav] at h
        have hw := h.2
        rw [e] at hw
        simp [wfItems_append, wfItems] at hw
        obtain ⟨_, ⟨⟨⟨⟨⟨_, hB⟩, hL⟩, hF⟩, hfit⟩, hws⟩, _⟩ := hw
        exact wf_levelAt p _ g (by simp [wfFav, hB, hL, hF, hfit, hws]) hl
      · simp at hl

end PttVerif.C19
