import PttVerif.Model.C05
/-
C05 — helper lemmas about `writeAt`, `record` and the record-file operations.
-/
namespace PttVerif.C05
open PttVerif

/-! ### writeAt -/

theorem writeAt_nil (f : File) (off : Nat) : writeAt f off [] = f := by simp [writeAt]

theorem writeAt_ne_nil (f : File) (off : Nat) (bs : List Nat) (h : bs ≠ []) :
    writeAt f off bs = f.take off ++ List.replicate (off - f.length) 0 ++ bs ++ f.drop (off + bs.length) := by
  cases bs with
  | nil => exact absurd rfl h
  | cons b bs => simp [writeAt]

theorem length_writeAt (f : File) (off : Nat) (bs : List Nat) (h : bs ≠ []) :
    (writeAt f off bs).length = max f.length (off + bs.length) := by
  rw [writeAt_ne_nil f off bs h]
  simp only [List.length_append, List.length_take, List.length_replicate, List.length_drop]
  omega

theorem length_writeAt_ge (f : File) (off : Nat) (bs : List Nat) :
    f.length ≤ (writeAt f off bs).length := by
  by_cases h : bs = []
  · subst h; simp [writeAt_nil]
  · rw [length_writeAt f off bs h]; omega

/-- a write that lies inside the file does not change its length. -/
theorem length_writeAt_inside (f : File) (off : Nat) (bs : List Nat) (h : off + bs.length ≤ f.length) :
    (writeAt f off bs).length = f.length := by
  by_cases hb : bs = []
  · subst hb; simp [writeAt_nil]
  · rw [length_writeAt f off bs hb]; omega

/-- bytes before the offset that existed keep their value. -/
theorem getElem?_writeAt_before (f : File) (off : Nat) (bs : List Nat) (p : Nat)
    (hp : p < off) (hf : p < f.length) : (writeAt f off bs)[p]? = f[p]? := by
  by_cases hb : bs = []
  · subst hb; simp [writeAt_nil]
  · rw [writeAt_ne_nil f off bs hb]
    have h1 : p < (f.take off).length := by simp [List.length_take]; omega
    rw [List.append_assoc, List.append_assoc, List.getElem?_append_left h1, List.getElem?_take_of_lt hp]

/-- bytes at or behind the end of the written range keep their value (or their absence). -/
theorem getElem?_writeAt_after (f : File) (off : Nat) (bs : List Nat) (p : Nat)
    (hp : off + bs.length ≤ p) : (writeAt f off bs)[p]? = f[p]? := by
  by_cases hb : bs = []
  · subst hb; simp [writeAt_nil]
  · rw [writeAt_ne_nil f off bs hb]
    have hl' : (f.take off ++ List.replicate (off - f.length) 0 ++ bs).length = off + bs.length := by
      simp only [List.length_append, List.length_take, List.length_replicate]; omega
    rw [List.getElem?_append_right (by rw [hl']; exact hp), hl', List.getElem?_drop]
    congr 1; omega

/-- the written range holds the written bytes. -/
theorem getElem?_writeAt_in (f : File) (off : Nat) (bs : List Nat) (p : Nat)
    (h1 : off ≤ p) (h2 : p < off + bs.length) : (writeAt f off bs)[p]? = bs[p - off]? := by
  have hb : bs ≠ [] := by intro h; subst h; simp at h2; omega
  rw [writeAt_ne_nil f off bs hb]
  have hl : (f.take off ++ List.replicate (off - f.length) 0).length = off := by
    simp only [List.length_append, List.length_take, List.length_replicate]; omega
  rw [List.append_assoc (f.take off ++ List.replicate (off - f.length) 0), List.getElem?_append_right (by rw [hl]; exact h1), hl,
    List.getElem?_append_left (by omega)]

/-- the gap between the old EOF and the offset is zero-filled. -/
theorem getElem?_writeAt_gap (f : File) (off : Nat) (bs : List Nat) (p : Nat) (hb : bs ≠ [])
    (h1 : f.length ≤ p) (h2 : p < off) : (writeAt f off bs)[p]? = some 0 := by
  rw [writeAt_ne_nil f off bs hb, List.append_assoc, List.append_assoc]
  have hl : (f.take off).length = f.length := by simp [List.length_take]; omega
  rw [List.getElem?_append_right (by rw [hl]; exact h1), hl,
    List.getElem?_append_left (by simp only [List.length_replicate]; omega)]
  simp [List.getElem?_replicate]; omega

/-- the prefix up to the offset (as far as it exists) is preserved. -/
theorem take_writeAt (f : File) (off : Nat) (bs : List Nat) (k : Nat) (hk : k ≤ off) (hf : k ≤ f.length) :
    (writeAt f off bs).take k = f.take k := by
  apply List.ext_getElem?
  intro p
  by_cases hp : p < k
  · rw [List.getElem?_take_of_lt hp, List.getElem?_take_of_lt hp]
    exact getElem?_writeAt_before f off bs p (by omega) (by omega)
  · rw [List.getElem?_take, List.getElem?_take]; simp [hp]

/-! ### records -/

theorem getElem?_record (f : File) (sz i j : Nat) :
    (record f sz i)[j]? = if j < sz then f[i * sz + j]? else none := by
  unfold record
  rw [List.getElem?_take]
  split
  · rw [List.getElem?_drop]
  · rfl

theorem length_record (f : File) (sz i : Nat) : (record f sz i).length = min sz (f.length - i * sz) := by
  simp [record, List.length_take, List.length_drop]

theorem length_record_of_le (f : File) (sz i : Nat) (h : (i + 1) * sz ≤ f.length) :
    (record f sz i).length = sz := by
  rw [length_record]; rw [Nat.add_mul] at h; omega

theorem mul_succ_le_of_lt_div {n sz k : Nat} (h : k < n / sz) : (k + 1) * sz ≤ n := by
  have hsz : 0 < sz := by
    rcases Nat.eq_zero_or_pos sz with h0 | h0
    · subst h0; simp at h
    · exact h0
  have : k + 1 ≤ n / sz := h
  exact (Nat.le_div_iff_mul_le hsz).1 this

/-- a write that avoids the byte range of a complete record leaves the record as it was. -/
theorem record_writeAt_other (f : File) (off : Nat) (bs : List Nat) (sz k : Nat)
    (hk : (k + 1) * sz ≤ f.length) (h : off + bs.length ≤ k * sz ∨ (k + 1) * sz ≤ off) :
    record (writeAt f off bs) sz k = record f sz k := by
  apply List.ext_getElem?
  intro j
  rw [getElem?_record, getElem?_record]
  split
  · rename_i hj
    rw [Nat.add_mul] at hk h
    rcases h with h | h
    · exact getElem?_writeAt_after f off bs _ (by omega)
    · exact getElem?_writeAt_before f off bs _ (by omega) (by omega)
  · rfl

/-- the byte ranges of two different records do not meet. -/
theorem record_ranges_disjoint {i k sz : Nat} (h : i ≠ k) : i * sz + sz ≤ k * sz ∨ (k + 1) * sz ≤ i * sz := by
  rcases Nat.lt_or_gt_of_ne h with h | h
  · left
    have : (i + 1) * sz ≤ k * sz := Nat.mul_le_mul_right sz h
    rw [Nat.add_mul] at this; omega
  · right; exact Nat.mul_le_mul_right sz h

/-- writing one full image at record `i` makes record `i` that image. -/
theorem record_writeAt_same (f : File) (sz i : Nat) (img : List Nat) (h : img.length = sz) :
    record (writeAt f (i * sz) img) sz i = img := by
  apply List.ext_getElem?
  intro j
  rw [getElem?_record]
  split
  · rename_i hj
    rw [getElem?_writeAt_in f (i * sz) img _ (by omega) (by omega)]
    congr 1; omega
  · rename_i hj
    rw [List.getElem?_eq_none]; omega

/-! ### append -/

theorem div_mul_le' (n sz : Nat) : n / sz * sz ≤ n := Nat.div_mul_le_self n sz

theorem lt_div_mul_add (n sz : Nat) (h : 0 < sz) : n < n / sz * sz + sz := by
  have := Nat.lt_div_mul_add (a := n) h   -- n < n / sz * sz + sz
  exact this

theorem appendBytes_eq (f : File) (sz : Nat) (img : List Nat) (hsz : 0 < sz) (himg : img.length = sz) :
    appendBytes f sz img = (f.take (f.length / sz * sz) ++ img, f.length / sz + 1) := by
  have hne : img ≠ [] := by intro h; subst h; simp at himg; omega
  have h1 := div_mul_le' f.length sz
  have h2 := lt_div_mul_add f.length sz hsz
  simp only [appendBytes]
  rw [writeAt_ne_nil _ _ _ hne]
  have hz : f.length / sz * sz - f.length = 0 := by omega
  have hd : f.drop (f.length / sz * sz + img.length) = [] := by
    apply List.drop_eq_nil_of_le; omega
  rw [hz, hd]; simp

/-! ### Cstrcmp -/

theorem cstrcmpEq_iff (a b : List Nat) : cstrcmpEq a b = true ↔ cstr a = cstr b := by
  induction a generalizing b with
  | nil =>
    cases b with
    | nil => simp [cstrcmpEq, cstr]
    | cons y ys =>
      by_cases hy : y = 0 <;> simp [cstrcmpEq, cstr, List.takeWhile, hy]
  | cons x xs ih =>
    cases b with
    | nil => by_cases hx : x = 0 <;> simp [cstrcmpEq, cstr, List.takeWhile, hx]
    | cons y ys =>
      by_cases hx : x = 0
      · by_cases hy : y = 0 <;> simp [cstrcmpEq, cstr, List.takeWhile, hx, hy]
      · by_cases hxy : x = y
        · subst hxy
          have := ih ys
          simp [cstrcmpEq, cstr, List.takeWhile, hx] at this ⊢
          exact this
        · by_cases hy : y = 0 <;> simp [cstrcmpEq, cstr, List.takeWhile, hx, hy, hxy]

/-! ### ModifyDirLite on the record image -/

theorem length_setField (r : List Nat) (off len : Nat) (bs : List Nat) (h : off + len ≤ r.length) :
    (setField r off len bs).length = r.length := by
  simp only [setField, List.length_append, List.length_take, List.length_drop, copyInto_length]; omega

theorem length_copyField (r : List Nat) (off len : Nat) (src : List Nat) (h : off + len ≤ r.length) :
    (copyField r off len src).length = r.length := by
  simp only [copyField, List.length_append, List.length_take, List.length_drop]; omega

theorem modifyRecord_length (r : List Nat) (a : ModArgs) (h : r.length = dirSz) :
    (modifyRecord r a).length = dirSz := by
  have h128 : r.length = 128 := h
  show _ = 128
  unfold modifyRecord
  extract_lets r1 fm1 fm2 fm3 r2 r3 r4 r5 r6
  have e1 : r1.length = 128 := by
    simp only [r1]; split
    · rw [length_setField _ _ _ _ (by simp [Gen.RecFile.offModified, Gen.RecFile.lenModified]; omega)]; exact h128
    · exact h128
  have e2 : r2.length = 128 := by
    simp only [r2]
    rw [length_setField _ _ _ _ (by simp [Gen.RecFile.offFilemode, Gen.RecFile.lenFilemode]; omega)]; exact e1
  have e3 : r3.length = 128 := by
    simp only [r3]; split
    · split
      · rw [length_setField _ _ _ _ (by simp [Gen.RecFile.offTitle, Gen.RecFile.lenTitle]; omega)]; exact e2
      · exact e2
    · exact e2
  have e4 : r4.length = 128 := by
    simp only [r4]; split
    · split
      · rw [length_setField _ _ _ _ (by simp [Gen.RecFile.offOwner, Gen.RecFile.lenOwner]; omega)]; exact e3
      · exact e3
    · exact e3
  have e5 : r5.length = 128 := by
    simp only [r5]; split
    · split
      · rw [length_setField _ _ _ _ (by simp [Gen.RecFile.offDate, Gen.RecFile.lenDate]; omega)]; exact e4
      · exact e4
    · exact e4
  have e6 : r6.length = 128 := by
    simp only [r6]; split
    · rw [length_copyField _ _ _ _ (by simp [Gen.RecFile.offMulti, Gen.RecFile.lenMulti]; omega)]; exact e5
    · exact e5
  rw [length_setField _ _ _ _ (by simp [Gen.RecFile.offRecommend, Gen.RecFile.lenRecommend]; omega)]; exact e6
theorem take_setField (r : List Nat) (off len : Nat) (bs : List Nat) (k : Nat) (hk : k ≤ off) (h : off ≤ r.length) :
    (setField r off len bs).take k = r.take k := by
  unfold setField
  rw [List.append_assoc, List.take_append_of_le_length (by simp [List.length_take]; omega), List.take_take]
  congr 1; omega

theorem take_copyField (r : List Nat) (off len : Nat) (bs : List Nat) (k : Nat) (hk : k ≤ off) (h : off ≤ r.length) :
    (copyField r off len bs).take k = r.take k := by
  unfold copyField
  simp only
  rw [List.append_assoc, List.take_append_of_le_length (by simp [List.length_take]; omega), List.take_take]
  congr 1; omega

theorem dirSz_pos : 0 < dirSz := by decide

theorem record_full_of_le_count (f : File) (idx : Nat) (h1 : 1 ≤ idx) (h2 : idx ≤ f.length / dirSz) :
    (record f dirSz (idx - 1)).length = dirSz := by
  apply length_record_of_le
  have : idx - 1 < f.length / dirSz := by omega
  exact mul_succ_le_of_lt_div this

theorem getLoop_asc (f : File) (fuel idx : Nat) (h1 : 1 ≤ idx) :
    getLoop f (f.length / dirSz) false fuel idx =
      (List.range' idx (min fuel (f.length / dirSz + 1 - idx))).map (fun i => (i, record f dirSz (i - 1))) := by
  induction fuel generalizing idx with
  | zero => simp [getLoop]
  | succ fuel ih =>
    unfold getLoop
    by_cases hc : idx = 0 ∨ idx > f.length / dirSz
    · rw [if_pos hc]
      have : min (fuel + 1) (f.length / dirSz + 1 - idx) = 0 := by omega
      simp [this]
    · rw [if_neg hc]
      have hfull := record_full_of_le_count f idx h1 (by omega)
      simp only [hfull, Nat.lt_irrefl, if_false, Bool.false_eq_true]
      rw [ih (idx + 1) (by omega)]
      have : min (fuel + 1) (f.length / dirSz + 1 - idx) = min fuel (f.length / dirSz + 1 - (idx + 1)) + 1 := by omega
      rw [this, List.range'_succ]
      simp

theorem getLoop_desc (f : File) (fuel idx : Nat) (h2 : idx ≤ f.length / dirSz) :
    getLoop f (f.length / dirSz) true fuel idx =
      (List.range (min fuel idx)).map (fun j => (idx - j, record f dirSz (idx - j - 1))) := by
  induction fuel generalizing idx with
  | zero => simp [getLoop]
  | succ fuel ih =>
    unfold getLoop
    by_cases hc : idx = 0 ∨ idx > f.length / dirSz
    · rw [if_pos hc]
      have : idx = 0 := by omega
      subst this; simp
    · rw [if_neg hc]
      have hfull := record_full_of_le_count f idx (by omega) h2
      simp only [hfull, Nat.lt_irrefl, if_false, if_true]
      rw [ih (idx - 1) (by omega)]
      have : min (fuel + 1) idx = min fuel (idx - 1) + 1 := by omega
      rw [this, List.range_succ_eq_map, List.map_cons, List.map_map]
      simp only [Nat.sub_zero, List.cons.injEq, true_and]
      apply List.map_congr_left
      intro j _
      simp only [Function.comp, Nat.succ_eq_add_one]
      have : idx - (j + 1) = idx - 1 - j := by omega
      rw [this]
/-! ### the operations in closed form -/

theorem writeRecordAt_nat (s : FS) (sz n : Nat) (bs : List Nat) :
    writeRecordAt s sz (n : Int) bs = (⟨true, writeAt s.bytes (n * sz) bs⟩, .unit .ok) := by
  unfold writeRecordAt
  have h : ¬ ((n : Int) * (sz : Int) < 0) := by
    have : (0 : Int) ≤ (n : Int) * (sz : Int) := Int.mul_nonneg (Int.natCast_nonneg n) (Int.natCast_nonneg sz)
    omega
  simp only [h, if_false]
  rw [← Int.natCast_mul, Int.toNat_natCast]

theorem writeRecordAt_neg (s : FS) (sz : Nat) (i : Int) (bs : List Nat) (hsz : 0 < sz) (hi : i < 0) :
    writeRecordAt s sz i bs = (⟨true, s.bytes⟩, .unit .err) := by
  unfold writeRecordAt
  have h : i * (sz : Int) < 0 := Int.mul_neg_of_neg_of_pos hi (by omega)
  simp only [h, if_true]

theorem dirSz_eq : dirSz = 128 := rfl

/-- the three ways ModifyDirLite can end. -/
theorem modifyDirLite_cases (s : FS) (idx : Int) (a : ModArgs) :
    modifyDirLite s idx a = (s, .unit .invalidIdx) ∨ modifyDirLite s idx a = (s, .unit .err) ∨
    ∃ k : Nat, idx = (k : Int) + 1 ∧ s.present = true ∧ (k + 1) * dirSz ≤ s.bytes.length ∧
      cstrcmpEq (field (record s.bytes dirSz k) Gen.RecFile.offFilename Gen.RecFile.lenFilename) a.name = true ∧
      modifyDirLite s idx a =
        (⟨true, writeAt s.bytes (k * dirSz) (modifyRecord (record s.bytes dirSz k) a)⟩, .unit .ok) := by
  unfold modifyDirLite
  simp only []
  by_cases hp : s.present = true
  · simp only [hp, if_true, Bool.not_true, Bool.false_eq_true, if_false]
    by_cases h1 : (s.bytes.length : Int) < (dirSz : Int) * idx
    · left; rw [if_pos h1]
    · rw [if_neg h1]
      by_cases h3 : (idx - 1) * (dirSz : Int) < 0
      · right; left; rw [if_pos h3]
      · rw [if_neg h3]
        rw [dirSz_eq] at h1 h3
        have hidx : 1 ≤ idx := by omega
        obtain ⟨k, hk⟩ : ∃ k : Nat, idx = (k : Int) + 1 := ⟨(idx - 1).toNat, by omega⟩
        subst hk
        have hoff : (((k : Int) + 1 - 1) * (dirSz : Int)).toNat = k * dirSz := by
          have : ((k : Int) + 1 - 1) = (k : Int) := by omega
          rw [this, ← Int.natCast_mul, Int.toNat_natCast]
        rw [hoff]
        have hle : (k + 1) * dirSz ≤ s.bytes.length := by rw [dirSz_eq]; omega
        by_cases h4 : (List.take dirSz (List.drop (k * dirSz) s.bytes)).length < dirSz
        · right; left; rw [if_pos h4]
        · rw [if_neg h4]
          by_cases h5 : cstrcmpEq (field (List.take dirSz (List.drop (k * dirSz) s.bytes)) Gen.RecFile.offFilename
              Gen.RecFile.lenFilename) a.name = true
          · right; right
            refine ⟨k, rfl, trivial, hle, h5, ?_⟩
            simp only [h5, Bool.not_true, Bool.false_eq_true, if_false, record]
          · left
            have : cstrcmpEq (field (List.take dirSz (List.drop (k * dirSz) s.bytes)) Gen.RecFile.offFilename
              Gen.RecFile.lenFilename) a.name = false := by simpa using h5
            simp only [this, Bool.not_false, if_true]
  · have hp' : s.present = false := by simpa using hp
    simp only [hp', Bool.false_eq_true, if_false, Bool.not_false, if_true]
    by_cases h1 : (-1 : Int) < (dirSz : Int) * idx
    · left; rw [if_pos h1]
    · right; left; rw [if_neg h1]

theorem modifyDirLite_ok (s : FS) (k : Nat) (a : ModArgs) (hp : s.present = true)
    (hle : (k + 1) * dirSz ≤ s.bytes.length)
    (hn : cstrcmpEq (field (record s.bytes dirSz k) Gen.RecFile.offFilename Gen.RecFile.lenFilename) a.name = true) :
    modifyDirLite s ((k : Int) + 1) a =
      (⟨true, writeAt s.bytes (k * dirSz) (modifyRecord (record s.bytes dirSz k) a)⟩, .unit .ok) := by
  unfold modifyDirLite
  simp only [hp, if_true, Bool.not_true, Bool.false_eq_true, if_false]
  have hoff : (((k : Int) + 1 - 1) * (dirSz : Int)).toNat = k * dirSz := by
    have : ((k : Int) + 1 - 1) = (k : Int) := by omega
    rw [this, ← Int.natCast_mul, Int.toNat_natCast]
  have h1 : ¬ ((s.bytes.length : Int) < (dirSz : Int) * ((k : Int) + 1)) := by
    rw [dirSz_eq] at hle ⊢; omega
  have h3 : ¬ (((k : Int) + 1 - 1) * (dirSz : Int) < 0) := by rw [dirSz_eq]; omega
  rw [if_neg h1, if_neg h3, hoff]
  have hfull : (record s.bytes dirSz k).length = dirSz := length_record_of_le _ _ _ hle
  unfold record at hfull hn
  rw [if_neg (by omega)]
  simp only [hn, Bool.not_true, Bool.false_eq_true, if_false, record]

/-! ### frames -/

theorem outside_of_div_ne {p sz n : Nat} (h : p / sz ≠ n) : p < n * sz ∨ (n + 1) * sz ≤ p := by
  rcases Nat.lt_or_ge p (n * sz) with h1 | h1
  · left; exact h1
  · rcases Nat.lt_or_ge p ((n + 1) * sz) with h2 | h2
    · exact absurd (Nat.div_eq_of_lt_le h1 h2) h
    · right; exact h2

/-- SubstituteRecord / DeleteRecord: the file never shrinks and no existing byte of another record changes. -/
theorem writeRecordAt_frame (s : FS) (sz : Nat) (i : Int) (bs : List Nat) (hsz : 0 < sz) (hbs : bs.length ≤ sz) :
    s.bytes.length ≤ (writeRecordAt s sz i bs).1.bytes.length ∧
    ∀ p, p < s.bytes.length → ((p / sz : Nat) : Int) ≠ i →
      (writeRecordAt s sz i bs).1.bytes[p]? = s.bytes[p]? := by
  rcases Int.lt_or_le i 0 with hi | hi
  · rw [writeRecordAt_neg s sz i bs hsz hi]
    exact ⟨Nat.le_refl _, fun _ _ _ => rfl⟩
  · obtain ⟨n, rfl⟩ := Int.eq_ofNat_of_zero_le hi
    rw [writeRecordAt_nat]
    refine ⟨length_writeAt_ge _ _ _, ?_⟩
    intro p hp hne
    have hne' : p / sz ≠ n := by intro h; apply hne; rw [h]
    rcases outside_of_div_ne hne' with h | h
    · exact getElem?_writeAt_before _ _ _ _ h hp
    · apply getElem?_writeAt_after
      rw [Nat.add_mul] at h; omega

/-- record-level reading of the same fact. -/
theorem writeRecordAt_record_other (s : FS) (sz : Nat) (i : Int) (bs : List Nat) (hsz : 0 < sz) (hbs : bs.length ≤ sz)
    (k : Nat) (hk : k < s.bytes.length / sz) (hne : (k : Int) ≠ i) :
    record (writeRecordAt s sz i bs).1.bytes sz k = record s.bytes sz k := by
  rcases Int.lt_or_le i 0 with hi | hi
  · rw [writeRecordAt_neg s sz i bs hsz hi]
  · obtain ⟨n, rfl⟩ := Int.eq_ofNat_of_zero_le hi
    rw [writeRecordAt_nat]
    apply record_writeAt_other _ _ _ _ _ (mul_succ_le_of_lt_div hk)
    have hnk : n ≠ k := by intro h; apply hne; rw [h]
    rcases record_ranges_disjoint (sz := sz) hnk with h | h
    · left; omega
    · right; exact h

/-- a delete mark / short write at an existing record: the record starts with the written bytes and keeps the rest. -/
theorem record_writeAt_prefix (f : File) (sz i : Nat) (m : List Nat) (hm : m.length ≤ sz) (hi : (i + 1) * sz ≤ f.length) :
    record (writeAt f (i * sz) m) sz i = m ++ (record f sz i).drop m.length := by
  apply List.ext_getElem?
  intro j
  rw [getElem?_record]
  by_cases hj : j < sz
  · rw [if_pos hj]
    by_cases hjm : j < m.length
    · rw [getElem?_writeAt_in _ _ _ _ (by omega) (by omega), List.getElem?_append_left hjm]
      congr 1; omega
    · rw [getElem?_writeAt_after _ _ _ _ (by omega), List.getElem?_append_right (by omega), List.getElem?_drop,
        getElem?_record, if_pos (by omega)]
      congr 1; omega
  · rw [if_neg hj, List.getElem?_eq_none]
    rw [List.length_append, List.length_drop, length_record_of_le _ _ _ hi]; omega

/-! ### the record-list view -/

theorem length_recs (f : File) (sz : Nat) : (recs f sz).length = f.length / sz := by simp [recs]

theorem getElem?_recs (f : File) (sz k : Nat) :
    (recs f sz)[k]? = if k < f.length / sz then some (record f sz k) else none := by
  unfold recs
  rw [List.getElem?_map]
  by_cases h : k < f.length / sz
  · rw [if_pos h, List.getElem?_range h]; rfl
  · rw [if_neg h, List.getElem?_eq_none (by simp; omega)]; rfl

/-- a write of at most one record's worth of bytes at an existing record `i` replaces exactly that
record in the record list. -/
theorem recs_writeAt (f : File) (sz i : Nat) (bs : List Nat) (hbs : bs.length ≤ sz) (hi : i < f.length / sz) :
    recs (writeAt f (i * sz) bs) sz = (recs f sz).set i (bs ++ (record f sz i).drop bs.length) := by
  have hle := mul_succ_le_of_lt_div hi
  have hlen : (writeAt f (i * sz) bs).length = f.length := by
    apply length_writeAt_inside; rw [Nat.add_mul] at hle; omega
  apply List.ext_getElem?
  intro k
  rw [getElem?_recs, hlen, List.getElem?_set]
  by_cases hk : k < f.length / sz
  · rw [if_pos hk]
    by_cases hik : i = k
    · subst hik
      rw [if_pos rfl, if_pos (by rw [length_recs]; exact hk), record_writeAt_prefix _ _ _ _ hbs hle]
    · rw [if_neg hik, getElem?_recs, if_pos hk]
      congr 1
      apply record_writeAt_other _ _ _ _ _ (mul_succ_le_of_lt_div hk)
      rcases record_ranges_disjoint (sz := sz) hik with h | h
      · left; omega
      · right; exact h
  · rw [if_neg hk]
    by_cases hik : i = k
    · omega
    · rw [if_neg hik, getElem?_recs, if_neg hk]

/-- appending one full image adds exactly one record at the end (whatever the torn tail was). -/
theorem recs_append (f : File) (sz : Nat) (img : List Nat) (hsz : 0 < sz) (himg : img.length = sz) :
    recs (appendBytes f sz img).1 sz = recs f sz ++ [img] := by
  have h1 := div_mul_le' f.length sz
  have hne : img ≠ [] := by intro h; subst h; simp at himg; omega
  have h2 := lt_div_mul_add f.length sz hsz
  have hlen : (writeAt f (f.length / sz * sz) img).length / sz = f.length / sz + 1 := by
    rw [length_writeAt _ _ _ hne, himg]
    have : max f.length (f.length / sz * sz + sz) = (f.length / sz + 1) * sz := by rw [Nat.add_mul]; omega
    rw [this, Nat.mul_div_cancel _ hsz]
  simp only [appendBytes]
  apply List.ext_getElem?
  intro k
  rw [getElem?_recs, hlen]
  by_cases hk : k < f.length / sz
  · rw [if_pos (by omega), List.getElem?_append_left (by rw [length_recs]; exact hk), getElem?_recs, if_pos hk]
    congr 1
    apply record_writeAt_other _ _ _ _ _ (mul_succ_le_of_lt_div hk)
    right; exact Nat.mul_le_mul_right sz hk
  · by_cases hk2 : k = f.length / sz
    · subst hk2
      rw [if_pos (by omega), List.getElem?_append_right (by rw [length_recs]; omega), length_recs, Nat.sub_self,
        record_writeAt_same _ _ _ _ himg]
      rfl
    · rw [if_neg (by omega), List.getElem?_eq_none]
      rw [List.length_append, length_recs]; simp; omega

theorem getD_recs (f : File) (sz k : Nat) (hk : k < f.length / sz) : (recs f sz).getD k [] = record f sz k := by
  rw [List.getD_eq_getElem?_getD, getElem?_recs, if_pos hk]; rfl


/-- ModifyDirLite never touches the file-name field: the first `lenFilename` bytes of the image stay. -/
theorem modifyRecord_take_name (r : List Nat) (a : ModArgs) (h : r.length = dirSz) :
    (modifyRecord r a).take Gen.RecFile.lenFilename = r.take Gen.RecFile.lenFilename := by
  have h128 : r.length = 128 := h
  show List.take 28 _ = List.take 28 _
  unfold modifyRecord
  extract_lets r1 fm1 fm2 fm3 r2 r3 r4 r5 r6
  have e1 : r1.length = 128 ∧ r1.take 28 = r.take 28 := by
    simp only [r1]; split
    · exact ⟨by rw [length_setField _ _ _ _ (by simp [Gen.RecFile.offModified, Gen.RecFile.lenModified]; omega)]; exact h128,
        take_setField _ _ _ _ _ (by decide) (by simp [Gen.RecFile.offModified]; omega)⟩
    · exact ⟨h128, rfl⟩
  have e2 : r2.length = 128 ∧ r2.take 28 = r.take 28 := by
    simp only [r2]
    exact ⟨by rw [length_setField _ _ _ _ (by simp [Gen.RecFile.offFilemode, Gen.RecFile.lenFilemode]; omega)]; exact e1.1,
      (take_setField _ _ _ _ _ (by decide) (by simp [Gen.RecFile.offFilemode]; omega)).trans e1.2⟩
  have e3 : r3.length = 128 ∧ r3.take 28 = r.take 28 := by
    simp only [r3]; split
    · split
      · exact ⟨by rw [length_setField _ _ _ _ (by simp [Gen.RecFile.offTitle, Gen.RecFile.lenTitle]; omega)]; exact e2.1,
          (take_setField _ _ _ _ _ (by decide) (by simp [Gen.RecFile.offTitle]; omega)).trans e2.2⟩
      · exact e2
    · exact e2
  have e4 : r4.length = 128 ∧ r4.take 28 = r.take 28 := by
    simp only [r4]; split
    · split
      · exact ⟨by rw [length_setField _ _ _ _ (by simp [Gen.RecFile.offOwner, Gen.RecFile.lenOwner]; omega)]; exact e3.1,
          (take_setField _ _ _ _ _ (by decide) (by simp [Gen.RecFile.offOwner]; omega)).trans e3.2⟩
      · exact e3
    · exact e3
  have e5 : r5.length = 128 ∧ r5.take 28 = r.take 28 := by
    simp only [r5]; split
    · split
      · exact ⟨by rw [length_setField _ _ _ _ (by simp [Gen.RecFile.offDate, Gen.RecFile.lenDate]; omega)]; exact e4.1,
          (take_setField _ _ _ _ _ (by decide) (by simp [Gen.RecFile.offDate]; omega)).trans e4.2⟩
      · exact e4
    · exact e4
  have e6 : r6.length = 128 ∧ r6.take 28 = r.take 28 := by
    simp only [r6]; split
    · exact ⟨by rw [length_copyField _ _ _ _ (by simp [Gen.RecFile.offMulti, Gen.RecFile.lenMulti]; omega)]; exact e5.1,
        (take_copyField _ _ _ _ _ (by decide) (by simp [Gen.RecFile.offMulti]; omega)).trans e5.2⟩
    · exact e5
  exact (take_setField _ _ _ _ _ (by decide) (by simp [Gen.RecFile.offRecommend]; omega)).trans e6.2

theorem toInt8_int8Byte (v : Int) (h1 : -128 ≤ v) (h2 : v ≤ 127) : toInt8 (int8Byte v) = v := by
  unfold toInt8 int8Byte
  split <;> omega

/-- after the clamp the stored recommend byte denotes a value in [-MAX, MAX] whenever the delta is non-zero. -/
theorem recommendUpdate_range (cur : Nat) (delta : Int) (hd : delta ≠ 0) :
    -maxRec ≤ toInt8 (recommendUpdate cur delta) ∧ toInt8 (recommendUpdate cur delta) ≤ maxRec := by
  have hm : maxRec = 100 := rfl
  unfold recommendUpdate
  rw [if_neg hd]
  simp only [hm]
  generalize addInt8 delta (toInt8 cur) = r
  by_cases h1 : r > 100
  · rw [if_pos h1, toInt8_int8Byte _ (by omega) (by omega)]; omega
  · rw [if_neg h1]
    by_cases h2 : r < -100
    · rw [if_pos h2, toInt8_int8Byte _ (by omega) (by omega)]; omega
    · rw [if_neg h2, toInt8_int8Byte _ (by omega) (by omega)]; omega

theorem brdSz_pos : 0 < brdSz := by decide

theorem mark_le_dirSz : safeDelMark.length ≤ dirSz := by decide

end PttVerif.C05
