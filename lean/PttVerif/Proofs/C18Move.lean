import PttVerif.Model.C18Move
/-
C18 — helper lemmas for ptt.StripANSIMoveCmd: the loop computes the two-state automaton; the automaton leaves no
cursor-movement sequence.  (Adapted from the C09 development, self-contained.)
-/
namespace PttVerif.C18
open PttVerif

theorem esc_ne_s : (115 : Nat) ≠ MV_ESC := by decide
theorem mvIsCode_esc : mvIsCode MV_ESC = false := by decide
theorem mvIsMove_esc : mvIsMove MV_ESC = false := by decide
theorem mvIsCode_s : mvIsCode 115 = false := by decide
theorem mvIsMove_s : mvIsMove 115 = false := by decide

theorem code_move_disjoint_list : Gen.C18Str.patternAnsiCode.all (fun c => !mvIsMove c) = true := by decide

theorem code_not_move (c : Nat) (h : mvIsCode c = true) : mvIsMove c = false := by
  have := List.all_eq_true.mp code_move_disjoint_list c (by simpa [mvIsCode] using h)
  simpa using this

theorem code_ne_esc (c : Nat) (h : mvIsCode c = true) : c ≠ MV_ESC := by
  intro e; subst e; rw [mvIsCode_esc] at h; cases h

theorem mvScan_length : ∀ (m : Bool) (l : List Nat), (mvScan m l).length = l.length := by
  intro m l
  induction l generalizing m with
  | nil => cases m <;> simp [mvScan]
  | cons c cs ih =>
    cases m
    · simp only [mvScan]; split <;> simp [ih]
    · simp only [mvScan]; split
      · simp [ih]
      · split
        · simp [ih]
        · split <;> simp [ih]

theorem skipCode_append (l : List Nat) : (mvSkipCode l).1 ++ (mvSkipCode l).2 = l := by
  induction l with
  | nil => simp [mvSkipCode]
  | cons c cs ih =>
    simp only [mvSkipCode]
    split
    · simp [ih]
    · simp

theorem skipCode_snd_length (l : List Nat) : (mvSkipCode l).2.length ≤ l.length := by
  have := congrArg List.length (skipCode_append l)
  simp at this; omega

theorem mvScan_false_cons (c : Nat) (cs : List Nat) :
    mvScan false (c :: cs) = if c = MV_ESC then c :: mvScan true cs else c :: mvScan false cs := by rw [mvScan]

theorem mvScan_true_cons (c : Nat) (cs : List Nat) :
    mvScan true (c :: cs) = if mvIsCode c then c :: mvScan true cs
      else if mvIsMove c then 115 :: mvScan false cs
      else if c = MV_ESC then c :: mvScan true cs
      else c :: mvScan false cs := by rw [mvScan]

/-- what the automaton does after an MV_ESC, in terms of the loop's `mvSkipCode`. -/
theorem mvScan_true_eq (l : List Nat) :
    mvScan true l = (mvSkipCode l).1 ++
      (match (mvSkipCode l).2 with
       | [] => []
       | c :: cs => mvScan false ((if mvIsMove c then 115 else c) :: cs)) := by
  induction l with
  | nil => simp [mvScan, mvSkipCode]
  | cons c cs ih =>
    rw [mvScan_true_cons]
    by_cases hc : mvIsCode c = true
    · simp only [mvSkipCode, hc, if_true, List.cons_append]
      rw [ih]
    · simp only [mvSkipCode, hc, if_false, Bool.false_eq_true, List.nil_append]
      by_cases hm : mvIsMove c = true
      · simp only [hm, if_true]
        rw [mvScan_false_cons, if_neg esc_ne_s]
      · simp only [hm, if_false, Bool.false_eq_true]
        rw [mvScan_false_cons]

theorem mvScan_false_of_none : ∀ l, mvIndexEsc l = none → mvScan false l = l := by
  intro l
  induction l with
  | nil => simp [mvScan]
  | cons c cs ih =>
    intro h
    simp only [mvIndexEsc] at h
    split at h
    · cases h
    · rename_i hne
      simp only [mvScan, hne, if_false]
      rw [ih (by simpa using h)]

theorem mvScan_false_of_some : ∀ l i, mvIndexEsc l = some i →
    i < l.length ∧ mvScan false l = l.take (i + 1) ++ mvScan true (l.drop (i + 1)) := by
  intro l
  induction l with
  | nil => intro i h; simp [mvIndexEsc] at h
  | cons c cs ih =>
    intro i h
    simp only [mvIndexEsc] at h
    split at h
    · rename_i he
      cases h
      simp [mvScan, he]
    · rename_i hne
      simp only [Option.map_eq_some_iff] at h
      obtain ⟨j, hj, rfl⟩ := h
      obtain ⟨h1, h2⟩ := ih j hj
      refine ⟨by simp; omega, ?_⟩
      simp only [mvScan, hne, if_false, List.take_succ_cons, List.drop_succ_cons, List.cons_append]
      rw [h2]

theorem defuseLoop_eq : ∀ (fuel : Nat) (l : List Nat), l.length < fuel → mvLoop fuel l = .ok (mvScan false l) := by
  intro fuel
  induction fuel with
  | zero => intro l h; omega
  | succ fuel ih =>
    intro l hl
    unfold mvLoop
    cases hi : mvIndexEsc l with
    | none => simp only; rw [mvScan_false_of_none l hi]; rfl
    | some i =>
      obtain ⟨hlt, hs⟩ := mvScan_false_of_some l i hi
      simp only
      have hsc := mvScan_true_eq (l.drop (i + 1))
      have hlen := skipCode_snd_length (l.drop (i + 1))
      have happ := skipCode_append (l.drop (i + 1))
      cases hr : (mvSkipCode (l.drop (i + 1))).2 with
      | nil =>
        simp only
        rw [hr] at hsc happ
        rw [hs, hsc]
        simp only [List.append_nil] at happ ⊢
        rw [happ, List.take_append_drop]; rfl
      | cons c cs =>
        simp only
        rw [hr] at hsc hlen
        have hfl : ((if mvIsMove c = true then 115 else c) :: cs).length < fuel := by
          simp only [List.length_cons] at hlen ⊢
          simp only [List.length_drop] at hlen
          omega
        rw [ih _ hfl]
        simp only [bind, Except.bind, pure, Except.pure]
        rw [hs, hsc, List.append_assoc]

theorem stripANSIMoveCmd_eq_scan (l : List Nat) : stripANSIMoveCmd l = .ok (mvScan false l) := by
  unfold stripANSIMoveCmd
  split
  · exact defuseLoop_eq _ _ (by omega)
  · have : l = [] := by
      cases l with
      | nil => rfl
      | cons _ _ => simp at *
    subst this; rfl

/-! ### the lexer specification -/

theorem mvStartsMove_iff (l : List Nat) :
    mvStartsMove l = true ↔ ∃ codes c post, l = codes ++ c :: post ∧ (∀ x ∈ codes, mvIsCode x = true) ∧ mvIsMove c = true := by
  induction l with
  | nil => simp [mvStartsMove]
  | cons a as ih =>
    simp only [mvStartsMove, Bool.or_eq_true, Bool.and_eq_true, ih]
    constructor
    · rintro (h | ⟨ha, codes, c, post, rfl, hc, hm⟩)
      · exact ⟨[], a, as, rfl, by simp, h⟩
      · exact ⟨a :: codes, c, post, rfl, by simpa [ha] using hc, hm⟩
    · rintro ⟨codes, c, post, he, hc, hm⟩
      cases codes with
      | nil =>
        simp only [List.nil_append, List.cons.injEq] at he
        left; rw [he.1]; exact hm
      | cons x xs =>
        simp only [List.cons_append, List.cons.injEq] at he
        right
        refine ⟨by rw [he.1]; exact hc x (by simp), xs, c, post, he.2, fun y hy => hc y (by simp [hy]), hm⟩

theorem mvHasMove_iff (l : List Nat) :
    mvHasMove l = true ↔ ∃ pre codes c post, l = pre ++ MV_ESC :: (codes ++ c :: post) ∧
      (∀ x ∈ codes, mvIsCode x = true) ∧ mvIsMove c = true := by
  induction l with
  | nil => simp [mvHasMove]
  | cons a as ih =>
    simp only [mvHasMove, Bool.or_eq_true, Bool.and_eq_true, beq_iff_eq, ih, mvStartsMove_iff]
    constructor
    · rintro (⟨rfl, codes, c, post, rfl, hc, hm⟩ | ⟨pre, codes, c, post, rfl, hc, hm⟩)
      · exact ⟨[], codes, c, post, rfl, hc, hm⟩
      · exact ⟨a :: pre, codes, c, post, rfl, hc, hm⟩
    · rintro ⟨pre, codes, c, post, he, hc, hm⟩
      cases pre with
      | nil =>
        simp only [List.nil_append, List.cons.injEq] at he
        left; exact ⟨he.1, codes, c, post, he.2, hc, hm⟩
      | cons x xs =>
        simp only [List.cons_append, List.cons.injEq] at he
        right; exact ⟨xs, codes, c, post, he.2, hc, hm⟩

theorem mvScan_no_move (l : List Nat) :
    mvHasMove (mvScan false l) = false ∧ mvHasMove (mvScan true l) = false ∧ mvStartsMove (mvScan true l) = false := by
  induction l with
  | nil => simp [mvScan, mvHasMove, mvStartsMove]
  | cons c cs ih =>
    obtain ⟨h1, h2, h3⟩ := ih
    refine ⟨?_, ?_, ?_⟩
    · by_cases he : c = MV_ESC
      · simp [mvScan, he, mvHasMove, h2, h3]
      · simp [mvScan, he, mvHasMove, h1]
    · by_cases hc : mvIsCode c = true
      · simp [mvScan, hc, mvHasMove, h2, code_ne_esc c hc]
      · by_cases hm : mvIsMove c = true
        · simp only [mvScan, hc, hm, if_true, if_false, Bool.false_eq_true, mvHasMove, h1, Bool.or_false,
            Bool.and_eq_false_imp, beq_iff_eq]
          intro e; exact absurd e esc_ne_s
        · by_cases he : c = MV_ESC
          · simp [mvScan, hc, hm, he, mvHasMove, h2, h3, mvIsCode_esc, mvIsMove_esc]
          · simp [mvScan, hc, hm, he, mvHasMove, h1]
    · by_cases hc : mvIsCode c = true
      · simp [mvScan, hc, mvStartsMove, h3, code_not_move c hc]
      · by_cases hm : mvIsMove c = true
        · simp [mvScan, hc, hm, mvStartsMove, mvIsMove_s, mvIsCode_s]
        · by_cases he : c = MV_ESC
          · simp [mvScan, hc, hm, he, mvStartsMove, mvIsCode_esc, mvIsMove_esc]
          · simp [mvScan, hc, hm, he, mvStartsMove]


end PttVerif.C18
