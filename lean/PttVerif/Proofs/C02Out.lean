import PttVerif.Proofs.C02Round
/-
C02, stage 4 — the output encoding: the 66-bit stream reader of `cFcrypt` against `Spec.encode64`.
-/
namespace PttVerif.C02.Lin
open PttVerif PttVerif.C02 PttVerif.Gen.CryptTables

/-- bit `k` of the byte stream `bb`, most significant bit of each byte first. -/
def sbit (bb : List Nat) (k : Nat) : Bool := (bb.getD (k / 8) 0).testBit (7 - k % 8)

/-- `j` stream bits from position `k` on, shifted into `c`. -/
def acc (bb : List Nat) : Nat → Nat → Nat → Nat
  | c, _, 0 => c
  | c, k, j + 1 => acc bb (2 * c + (if sbit bb k then 1 else 0)) (k + 1) j

theorem and_two_pow_ne_zero (B m : Nat) : (B &&& 2 ^ m ≠ 0) ↔ B.testBit m = true := by
  constructor
  · intro h
    apply Classical.byContradiction
    intro hn
    apply h
    apply Nat.eq_of_testBit_eq
    intro i
    rw [Nat.testBit_and, Nat.testBit_two_pow, Nat.zero_testBit]
    by_cases hi : m = i
    · subst hi; simpa using hn
    · simp [hi]
  · intro h h0
    have := congrArg (·.testBit m) h0
    simp [Nat.testBit_and, Nat.testBit_two_pow, h] at this

theorem shl1_or (c : Nat) (b : Bool) : (if b then c <<< 1 ||| 1 else c <<< 1) = 2 * c + (if b then 1 else 0) := by
  cases b
  · simp [Nat.shiftLeft_eq]; omega
  · have := Nat.two_pow_add_eq_or_of_lt (i := 1) (b := 1) (by decide) c
    simp only [Nat.pow_one] at this
    simp [Nat.shiftLeft_eq, Nat.mul_comm c 2, ← this]

theorem bit6_acc (bb : List Nat) : ∀ (j c k : Nat),
    bit6 bb j (c, k / 8, 2 ^ (7 - k % 8)) = (acc bb c k j, (k + j) / 8, 2 ^ (7 - (k + j) % 8)) := by
  intro j
  induction j with
  | zero => intro c k; rfl
  | succ j ih =>
    intro c k
    unfold bit6
    have hcond : (bb.getD (k / 8) 0 &&& 2 ^ (7 - k % 8) ≠ 0) = (sbit bb k = true) := by
      rw [sbit]; exact propext (and_two_pow_ne_zero _ _)
    simp only [hcond]
    have hc : (if sbit bb k = true then c <<< 1 ||| 1 else c <<< 1) = 2 * c + (if sbit bb k then 1 else 0) :=
      shl1_or c (sbit bb k)
    rw [hc]
    by_cases h7 : k % 8 = 7
    · have hu : 2 ^ (7 - k % 8) >>> 1 = 0 := by rw [h7]; rfl
      simp only [hu, if_true]
      have e1 : k / 8 + 1 = (k + 1) / 8 := by omega
      have e2 : (128 : Nat) = 2 ^ (7 - (k + 1) % 8) := by
        have : (k + 1) % 8 = 0 := by omega
        rw [this]
      rw [e1, e2, ih, acc, show k + 1 + j = k + (j + 1) by omega]
    · have hlt : k % 8 < 7 := by have := Nat.mod_lt k (by decide : 8 > 0); omega
      have hu : 2 ^ (7 - k % 8) >>> 1 = 2 ^ (7 - (k + 1) % 8) := by
        have : (k + 1) % 8 = k % 8 + 1 := by omega
        rw [this, Nat.shiftRight_eq_div_pow, show 7 - k % 8 = (7 - (k % 8 + 1)) + 1 by omega, Nat.pow_succ]
        simp
      have hne : 2 ^ (7 - (k + 1) % 8) ≠ 0 := Nat.ne_of_gt (Nat.two_pow_pos _)
      simp only [hu, hne, if_false]
      have e1 : k / 8 = (k + 1) / 8 := by omega
      rw [e1, ih, acc, show k + 1 + j = k + (j + 1) by omega]

theorem outChars_acc (bb : List Nat) : ∀ (n k : Nat),
    outChars bb n (k / 8, 2 ^ (7 - k % 8)) = (List.range n).map (fun t => cov_2char.getD (acc bb 0 (k + 6 * t) 6) 0) := by
  intro n
  induction n with
  | zero => intro k; rfl
  | succ n ih =>
    intro k
    unfold outChars
    rw [bit6_acc bb 6 0 k]
    simp only []
    rw [ih (k + 6), List.range_succ_eq_map, List.map_cons, List.map_map]
    congr 1
    apply List.map_congr_left
    intro t _
    simp only [Function.comp, Nat.succ_eq_add_one]
    rw [show k + 6 + 6 * t = k + 6 * (t + 1) by omega]

theorem two_mul_add_testBit (a : Nat) (b : Bool) (j : Nat) :
    (2 * a + (if b then 1 else 0)).testBit j = if j = 0 then b else a.testBit (j - 1) := by
  have := Nat.testBit_two_pow_mul_add a (b := if b then 1 else 0) (i := 1) (by cases b <;> decide) j
  simp only [Nat.pow_one] at this
  rw [this]
  by_cases hj : j = 0
  · subst hj; cases b <;> simp
  · have : ¬ j < 1 := by omega
    simp [hj, this]

theorem acc_testBit (bb : List Nat) : ∀ (j c k i : Nat),
    (acc bb c k j).testBit i = if i < j then sbit bb (k + (j - 1 - i)) else c.testBit (i - j) := by
  intro j
  induction j with
  | zero => intro c k i; simp [acc]
  | succ j ih =>
    intro c k i
    rw [acc, ih]
    by_cases h1 : i < j
    · have h2 : i < j + 1 := by omega
      simp only [h1, h2, if_true]
      congr 1; omega
    · simp only [h1, if_false]
      rw [two_mul_add_testBit]
      by_cases h3 : i = j
      · subst h3; simp
      · have h4 : ¬ i < j + 1 := by omega
        have h5 : i - j ≠ 0 := by omega
        simp only [h4, h5, if_false]
        congr 1 <;> omega

/-- the eight output bytes as a circuit over the packed result `a‖b` … -/
def outValE : LE := LE.or (LE.shlN (bswapE hiE) 32) (bswapE loE)

/-- … and byte `y` of the stream `l2c a ++ l2c b`. -/
def byteOfE (y : Nat) : LE :=
  if y < 4 then LE.and (LE.shr hiE (8 * y)) 0xff else LE.and (LE.shr loE (8 * (y - 4))) 0xff

theorem bytes_table : (List.range 8).all (fun y =>
    ok (2 ^ 64 - 1) (LE.and (LE.shr outValE (8 * (7 - y))) 0xff) && ok (2 ^ 64 - 1) (byteOfE y) &&
    (List.range 64).all (fun i => eval (2 ^ i) (LE.and (LE.shr outValE (8 * (7 - y))) 0xff) == eval (2 ^ i) (byteOfE y))) = true := by
  decide +kernel

theorem outVal_eval (a b : Nat) (hb : b < 2 ^ 32) : eval (a * 4294967296 + b) outValE = outVal (a, b) := by
  show (bswap ((a * 4294967296 + b) >>> 32) <<< 32) ||| bswap ((a * 4294967296 + b) &&& 0xffffffff) = _
  rw [pack32_hi a b hb, pack32_lo a b hb]; rfl

theorem byteOf_eval (a b y : Nat) (hb : b < 2 ^ 32) (hy : y < 8) :
    eval (a * 4294967296 + b) (byteOfE y) = (l2c a ++ l2c b ++ [0]).getD y 0 := by
  have e1 : (a * 4294967296 + b) >>> 32 = a := pack32_hi a b hb
  have e2 : (a * 4294967296 + b) &&& 0xffffffff = b := pack32_lo a b hb
  have hy' : y = 0 ∨ y = 1 ∨ y = 2 ∨ y = 3 ∨ y = 4 ∨ y = 5 ∨ y = 6 ∨ y = 7 := by omega
  rcases hy' with rfl | rfl | rfl | rfl | rfl | rfl | rfl | rfl <;>
    simp only [byteOfE, hiE, loE, eval, e1, e2, l2c, Nat.reduceLT, if_true, if_false, Nat.reduceSub, Nat.reduceMul,
      Nat.shiftRight_zero, List.cons_append, List.nil_append, List.getD_cons_zero, List.getD_cons_succ]

/-- byte `y` of the big-endian output value is byte `y` of the stream. -/
theorem outVal_byte (a b y : Nat) (ha : a < 2 ^ 32) (hb : b < 2 ^ 32) (hy : y < 8) :
    (outVal (a, b) >>> (8 * (7 - y))) &&& 0xff = (l2c a ++ l2c b ++ [0]).getD y 0 := by
  have hX : a * 4294967296 + b < 2 ^ 64 := by
    have : a * 4294967296 ≤ (2 ^ 32 - 1) * 4294967296 := Nat.mul_le_mul_right _ (by omega)
    omega
  have h := bytes_table
  rw [List.all_eq_true] at h
  have h := h y (List.mem_range.mpr hy)
  simp only [Bool.and_eq_true] at h
  have := le_ext 64 _ _ h.1.1 h.1.2 h.2 _ hX
  rw [byteOf_eval a b y hb hy] at this
  rw [← this, ← outVal_eval a b hb]; rfl

theorem sbit_eq (a b k : Nat) (ha : a < 2 ^ 32) (hb : b < 2 ^ 32) (hk : k < 64) :
    sbit (l2c a ++ l2c b ++ [0]) k = (outVal (a, b)).testBit (63 - k) := by
  unfold sbit
  rw [← outVal_byte a b (k / 8) ha hb (by omega), Nat.testBit_and, Nat.testBit_shiftRight,
    show (0xff : Nat) = 2 ^ 8 - 1 from rfl, Nat.testBit_two_pow_sub_one]
  have : 7 - k % 8 < 8 := by omega
  simp only [this, decide_true, Bool.and_true]
  congr 1; omega

theorem sbit_tail (a b k : Nat) (hk : 64 ≤ k) (hk2 : k < 72) : sbit (l2c a ++ l2c b ++ [0]) k = false := by
  unfold sbit
  have : k / 8 = 8 := by omega
  rw [this]
  simp [l2c]

theorem char_eq (a b t : Nat) (ha : a < 2 ^ 32) (hb : b < 2 ^ 32) (ht : t < 11) :
    acc (l2c a ++ l2c b ++ [0]) 0 (6 * t) 6 = outVal (a, b) * 4 / 2 ^ (6 * (10 - t)) % 64 := by
  apply Nat.eq_of_testBit_eq
  intro i
  rw [acc_testBit, show (64 : Nat) = 2 ^ 6 from rfl, Nat.testBit_mod_two_pow, Nat.testBit_div_two_pow,
    show (4 : Nat) = 2 ^ 2 from rfl, Nat.testBit_mul_two_pow]
  by_cases hi : i < 6
  · simp only [hi, if_true, decide_true, Bool.true_and]
    by_cases hk : 6 * t + (6 - 1 - i) < 64
    · rw [sbit_eq a b _ ha hb hk]
      have : 2 ≤ i + 6 * (10 - t) := by omega
      simp only [this, decide_true, Bool.true_and]
      congr 1; omega
    · rw [sbit_tail a b _ (by omega) (by omega)]
      have : ¬ 2 ≤ i + 6 * (10 - t) := by omega
      simp [this]
  · simp [hi]

theorem cov_eq_alphabet : cov_2char = Spec.alphabet64 := by decide +kernel

/-- the eleven output characters of `cFcrypt` are the textbook base-64 packing of the 64 result bits. -/
theorem outChars_eq_encode64 (a b : Nat) (ha : a < 2 ^ 32) (hb : b < 2 ^ 32) :
    outChars (l2c a ++ l2c b ++ [0]) 11 (0, 0x80) = Spec.encode64 (outVal (a, b)) := by
  have := outChars_acc (l2c a ++ l2c b ++ [0]) 11 0
  rw [show ((0 : Nat) / 8, 2 ^ (7 - 0 % 8)) = ((0 : Nat), (0x80 : Nat)) from rfl] at this
  rw [this]
  unfold Spec.encode64
  apply List.map_congr_left
  intro t ht
  have ht' : t < 11 := List.mem_range.mp ht
  rw [Nat.zero_add, char_eq a b t ha hb ht', cov_eq_alphabet]

end PttVerif.C02.Lin
